#!/venv/bin/python
"""gen_algo - regenerate lean/IsoDT/Gen/Algo.lean: the calendar ALGORITHMS of data.py (and the
arithmetic of timezone.get_local_time_zone) translated from their Python AST to Lean 4.

Gen/Calendar.lean carries the DATA of the calendar singleton; this generator carries the code that
reads it.  `Props/C03algo.lean` proves every definition emitted here equal to the hand-written
model (`Model/Calendar.lean`, `Model/LocalTZ.lean`), so an edit of the Python algorithms changes
this file and breaks the corresponding theorem.

The Python subset (anything else raises translate.TranslateError naming the construct):

  * values: int, bool, tuples of those, lists of ints / of tuples, `None` for parameters declared
    Optional (PARAM_TYPES), the string "leap" for the year-selector parameter of get_days_in_month;
  * expressions: + - * unary -, // and % (plain Lean `/` `%` when the divisor is a positive literal,
    a CALENDAR integer constant or a leap-year factor - checked positive here AND by the emitted
    theorem `divisors_pos`; otherwise `pyFloorDiv`/`pyMod` : Option, none = ZeroDivisionError),
    comparisons (chained; on tuples: lexicographic), and/or/not (short circuit; int operands by
    truthiness in conditions), `a if c else b`, tuples, list displays, `L[i]` (`pyIndex`: negative
    indices wrap, IndexError = none), `L[i:]`, `range(a, b[, +-1])`, `reversed(L)`,
    `CALENDAR.<ATTR>` (-> field of `Gen.calOfMode m`), `CALENDAR.LEAP_YEAR_FACTOR_TRUTHS`,
    `CALENDAR.WEEK_DAY_START_REFERENCE["calendar"|"ordinal"]`, calls of other translated functions
    (positional / keyword / default arguments; the cache-key parameter `_` and its argument
    `CALENDAR.mode` are dropped; `m : Mode` is threaded instead);
  * statements: assignment (also to tuples), augmented assignment, `L.append(x)`, if/elif/else,
    `for <targets> in <list>` with return/continue/break, `while` (with a recognisable measure),
    return, raise (-> none).  Falling off the end of a function is Python's `None` (-> none).

Scheme: statement lists are translated to pure expressions by continuation passing on the AST.
Each `for` becomes a structurally recursive top-level function `<f>.for<N>` over the iterated list,
each `while` a well-founded one `<f>.while<N>` (Lean checks the measure); both take the variables
the body assigns as state and the rest of the block as a continuation `k`.  An `if` whose branches
only assign becomes `let vars := if .. then .. else ..`; otherwise the rest of the block is bound
once as a local join point `k<N>`.  A function is `Option`-valued iff it can raise or fall off its
end.  Tests of `x is None` on an Optional variable whose branches use `x` as an int become a
`match` on `x`.
"""
import ast
import inspect
import os
import sys
import textwrap

sys.path.insert(0, os.path.dirname(os.path.abspath(__file__)))
import common  # noqa: E402


def _translate():
    import translate
    return translate


def TranslateError(msg):
    return _translate().TranslateError("gen_algo: " + msg)


# ---------------------------------------------------------------------------
# configuration: which functions, and the (otherwise dynamic) types of their parameters

DATA_FUNCS = [
    "get_is_leap_year",
    "get_days_in_year_range", "_get_days_in_year_range",
    "get_days_in_year", "_get_days_in_year",
    "get_days_in_month", "_get_days_in_month",
    "get_weeks_in_year", "_get_weeks_in_year",
    "get_calendar_date_from_ordinal_date", "get_calendar_date_from_week_date",
    "get_ordinal_date_from_calendar_date", "get_ordinal_date_from_week_date",
    "get_week_date_from_calendar_date", "get_week_date_from_ordinal_date",
    "get_calendar_date_week_date_start", "_get_calendar_date_week_date_start",
    "get_days_since_1_ad", "_get_days_since_1_ad",
    "get_ordinal_date_week_date_start", "_get_ordinal_date_week_date_start",
    "iter_months_days", "_iter_months_days",
]
TZ_FUNCS = ["get_local_time_zone"]

INT = "int"
BOOL = "bool"
OPTINT = "optint"        # Optional[int]           -> Option Int
YEARSEL = "yearsel"      # int | None | "leap"     -> YearArg
NONE = "none"            # the literal None / a variable known to be None
LEAPSTR = "leapstr"      # the literal "leap" / a variable known to be "leap"

# Parameters that are not plain ints (Python is dynamically typed: these are the translation's
# assumptions, cross-checked against the defaults in the signature).
PARAM_TYPES = {
    "get_days_in_month": {"year": YEARSEL},
    "_get_days_in_month": {"year": YEARSEL},
    "iter_months_days": {"month_of_year": OPTINT, "day_of_month": OPTINT, "in_reverse": BOOL},
    "_iter_months_days": {"is_leap_year": BOOL, "month_of_year": OPTINT, "day_of_month": OPTINT,
                          "in_reverse": BOOL},
}
# Reads of the operating system's zone data in timezone.py become explicit Int parameters.
EXTERNALS = {
    "get_local_time_zone": [
        ("time.timezone", "timezone"), ("time.altzone", "altzone"),
        ("time.daylight", "daylight"), ("time.localtime().tm_isdst", "tm_isdst")],
}
KEY_PARAM = "_"

CAL_LISTS = {
    "DAYS_IN_MONTHS": ("daysInMonths", ("list", INT)),
    "DAYS_IN_MONTHS_LEAP": ("daysInMonthsLeap", ("list", INT)),
    "INDEXED_DAYS_IN_MONTHS": ("indexed", ("list", ("tuple", (INT, INT)))),
    "INDEXED_DAYS_IN_MONTHS_LEAP": ("indexedLeap", ("list", ("tuple", (INT, INT)))),
}
LEAN_KEYWORDS = {
    "at", "from", "end", "in", "do", "then", "else", "if", "let", "have", "fun", "match", "with",
    "open", "section", "namespace", "def", "theorem", "show", "by", "where", "deriving",
    "instance", "class", "structure", "import", "export", "some", "none", "true", "false",
    "rest", "k", "m", "Type", "Prop", "Sort", "for", "return", "mut", "unless", "try", "catch",
    "finally", "macro", "syntax", "notation", "variable", "universe", "example", "abbrev",
    "inductive", "mutual", "private", "protected", "partial", "unsafe", "using", "calc", "nomatch",
    "termination_by", "decreasing_by", "suffices", "obtain", "local", "set_option", "attribute",
}

PRELUDE = '''\
/-! ## Python primitives (fixed text of the translator; part of its trusted base) -/

/-- `a // b` for a divisor of unknown sign: floor division; `none` = ZeroDivisionError. -/
def pyFloorDiv (a b : Int) : Option Int := if b = 0 then none else some (Int.fdiv a b)

/-- `a % b` for a divisor of unknown sign: the result has the sign of `b`; `none` = ZeroDivisionError. -/
def pyMod (a b : Int) : Option Int := if b = 0 then none else some (Int.fmod a b)

def pyRangeUp (a : Int) : Nat → List Int
  | 0 => []
  | n + 1 => a :: pyRangeUp (a + 1) n

def pyRangeDn (a : Int) : Nat → List Int
  | 0 => []
  | n + 1 => a :: pyRangeDn (a - 1) n

/-- `list(range(a, b))`. -/
def pyRange (a b : Int) : List Int := pyRangeUp a (b - a).toNat

/-- `list(range(a, b, -1))`. -/
def pyRangeDown (a b : Int) : List Int := pyRangeDn a (a - b).toNat

/-- `L[i]`: negative indices count from the end; `none` = IndexError. -/
def pyIndex {α : Type} (l : List α) (i : Int) : Option α :=
  if 0 ≤ i then l[i.toNat]?
  else if -i ≤ (l.length : Int) then l[((l.length : Int) + i).toNat]?
  else none

/-- `L[i:]`: a negative start counts from the end and is clipped at 0. -/
def pySliceFrom {α : Type} (l : List α) (i : Int) : List α :=
  if 0 ≤ i then l.drop i.toNat else l.drop ((l.length : Int) + i).toNat

/-- Python's lexicographic order on tuples of ints. -/
def tupLt2 (a b : Int × Int) : Bool := a.1 < b.1 || (a.1 == b.1 && a.2 < b.2)
def tupLe2 (a b : Int × Int) : Bool := a.1 < b.1 || (a.1 == b.1 && a.2 ≤ b.2)
def tupLt3 (a b : Int × Int × Int) : Bool := a.1 < b.1 || (a.1 == b.1 && tupLt2 a.2 b.2)
def tupLe3 (a b : Int × Int × Int) : Bool := a.1 < b.1 || (a.1 == b.1 && tupLe2 a.2 b.2)

/-- The `year` argument of `get_days_in_month`: `None`, the string `"leap"`, or an int. -/
inductive YearArg where
  | none
  | leap
  | int (year : Int)
  deriving DecidableEq, Repr
'''


# ---------------------------------------------------------------------------
# types

class TList(object):
    """A list type whose element type may be fixed later (`results = []`)."""

    def __init__(self, elem=None):
        self.elem = elem


def is_list(t):
    return isinstance(t, TList) or (isinstance(t, tuple) and t[0] == "list")


def list_elem(t):
    return t.elem if isinstance(t, TList) else t[1]


def is_tuple(t):
    return isinstance(t, tuple) and t[0] == "tuple"


def same_type(a, b):
    if is_list(a) and is_list(b):
        ea, eb = list_elem(a), list_elem(b)
        if ea is None or eb is None:
            return True
        return same_type(ea, eb)
    if is_tuple(a) and is_tuple(b):
        return len(a[1]) == len(b[1]) and all(same_type(x, y) for x, y in zip(a[1], b[1]))
    return a == b


def lean_type(t, atom=False):
    if t == INT:
        return "Int"
    if t == BOOL:
        return "Bool"
    if t == OPTINT:
        return "(Option Int)" if atom else "Option Int"
    if t == YEARSEL:
        return "YearArg"
    if is_tuple(t):
        s = " × ".join(lean_type(x, True) for x in t[1])
        return "(" + s + ")" if atom else s
    if is_list(t):
        e = list_elem(t)
        if e is None:
            raise TranslateError("a list whose element type is never determined")
        s = "List " + lean_type(e, True)
        return "(" + s + ")" if atom else s
    raise TranslateError("no Lean type for %r" % (t,))


class Var(object):
    def __init__(self, typ, pos=False, lean=None):
        self.typ = typ
        self.pos = pos          # known positive (a leap-year factor): may be a plain divisor
        self.lean = lean


class NeedNarrow(Exception):
    """An Optional variable is used as an int: the enclosing `if` that tests it must split."""

    def __init__(self, name):
        Exception.__init__(self, name)
        self.name = name


# ---------------------------------------------------------------------------
# text helpers

def indent(text, n=2):
    pad = " " * n
    return "\n".join(pad + line if line else line for line in text.split("\n"))


def is_atomic(text):
    if "\n" in text:
        return False
    if " " not in text and not text.startswith("-"):
        return True
    # a single bracketed group
    if text[0] in "([" and text[-1] in ")]":
        depth = 0
        for i, ch in enumerate(text):
            if ch in "([":
                depth += 1
            elif ch in ")]":
                depth -= 1
                if depth == 0 and i != len(text) - 1:
                    return False
        return True
    return False


def paren(text):
    if is_atomic(text):
        return text
    if "\n" in text:
        lines = text.split("\n")
        return "(" + lines[0] + "\n" + indent("\n".join(lines[1:]), 1) + ")"
    return "(" + text + ")"


def lean_name(name):
    if name in LEAN_KEYWORDS or not name.replace("_", "a").isalnum():
        return "«" + name + "»"
    return name


def let_(pattern, typ, value, body):
    """`let pattern : typ := value` followed by body (same column)."""
    if body == pattern and "\n" not in value:
        return value
    if typ is not None:
        head = "let %s : %s :=" % (pattern, typ)
    else:
        head = "let %s :=" % pattern
    if "\n" in value:
        return head + "\n" + indent(value) + "\n" + body
    return head + " " + value + "\n" + body


def if_(cond, a, b):
    if "\n" not in a and "\n" not in b and len(cond) + len(a) + len(b) < 90 and \
            not a.startswith("if ") and not b.startswith("if "):
        return "if %s then %s else %s" % (cond, a, b)
    if b.startswith("if "):
        return "if %s then\n%s\nelse %s" % (cond, indent(a), b)
    return "if %s then\n%s\nelse\n%s" % (cond, indent(a), indent(b))


def match_(scrut, arms):
    """arms: list of (pattern, body).  Bodies that contain line breaks are parenthesised unless last
    (an inner `match` would otherwise swallow the following alternatives)."""
    out = ["match %s with" % scrut]
    for i, (pat, body) in enumerate(arms):
        last = i == len(arms) - 1
        if "\n" in body:
            if not last:
                body = paren(body)
            out.append("| %s =>\n%s" % (pat, indent(body)))
        else:
            out.append("| %s => %s" % (pat, body))
    return "\n".join(out)


# ---------------------------------------------------------------------------
# AST helpers

ESCAPES = (ast.Return, ast.Raise, ast.Continue, ast.Break)


def contains(stmts, kinds):
    for s in stmts:
        for n in ast.walk(s):
            if isinstance(n, kinds):
                return True
    return False


def always_escapes(stmts):
    if not stmts:
        return False
    last = stmts[-1]
    if isinstance(last, ESCAPES):
        return True
    if isinstance(last, ast.If) and last.orelse:
        return always_escapes(last.body) and always_escapes(last.orelse)
    return False


def target_names(t):
    if isinstance(t, ast.Name):
        return [t.id]
    if isinstance(t, (ast.Tuple, ast.List)):
        out = []
        for e in t.elts:
            out += target_names(e)
        return out
    raise TranslateError("line %d: assignment target %s" % (t.lineno, ast.unparse(t)))


def assigned(stmts):
    """Names stored anywhere in stmts (assignment, augmented assignment, loop targets, .append)."""
    out = []

    def add(n):
        if n not in out:
            out.append(n)

    def visit(s):
        if isinstance(s, ast.Assign):
            for t in s.targets:
                for n in target_names(t):
                    add(n)
        elif isinstance(s, (ast.AugAssign, ast.AnnAssign)):
            for n in target_names(s.target):
                add(n)
        elif isinstance(s, ast.Expr) and isinstance(s.value, ast.Call) and \
                isinstance(s.value.func, ast.Attribute) and s.value.func.attr == "append" and \
                isinstance(s.value.func.value, ast.Name):
            add(s.value.func.value.id)
        elif isinstance(s, ast.For):
            for n in target_names(s.target):
                add(n)
            for c in s.body + s.orelse:
                visit(c)
        elif isinstance(s, ast.While):
            for c in s.body + s.orelse:
                visit(c)
        elif isinstance(s, ast.If):
            for c in s.body + s.orelse:
                visit(c)
    for s in stmts:
        visit(s)
    return out


def loaded(nodes):
    out = set()
    for s in nodes:
        for n in ast.walk(s):
            if isinstance(n, ast.Name):
                out.add(n.id)
    return out


class Cont(object):
    """A continuation: env -> Lean term text.  cheap = may be duplicated textually."""

    def __init__(self, fn, cheap=False):
        self.fn = fn
        self.cheap = cheap

    def __call__(self, env):
        return self.fn(env)


class BecameFallible(Exception):
    pass


class FnInfo(object):
    def __init__(self, name):
        self.name = name
        self.params = []        # (pyname, type, default ast or None)
        self.key_index = None   # position of the dropped cache-key parameter `_`
        self.has_mode = True
        self.fallible = False
        self.rettype = None
        self.lineno = 0
        self.file = ""


def bind(env, name, var):
    env2 = dict(env)          # an existing key keeps its (first definition) position
    env2[name] = var
    return env2


# ---------------------------------------------------------------------------
# one function

CMP_INT = {ast.Lt: "<", ast.LtE: "≤", ast.Gt: ">", ast.GtE: "≥", ast.Eq: "=", ast.NotEq: "≠"}


class FnTr(object):
    def __init__(self, gen, info, node, fallible):
        self.gen = gen
        self.info = info
        self.node = node
        self.fallible = fallible
        self.rettype = None
        self.aux = []            # texts of the loop functions, inner first
        self.n_for = 0
        self.n_while = 0
        self.n_join = 0
        self.n_tmp = 0
        self.n_none = 0
        self.names = {n.id for n in ast.walk(node) if isinstance(n, ast.Name)} | \
            {a.arg for a in node.args.args}

    # -- bookkeeping ---------------------------------------------------------
    def snap(self):
        return (len(self.aux), self.n_for, self.n_while, self.n_join, self.n_tmp, self.n_none)

    def restore(self, snap):
        del self.aux[snap[0]:]
        self.n_for, self.n_while, self.n_join, self.n_tmp, self.n_none = snap[1:]

    def err(self, node, what):
        return TranslateError("%s:%d (%s): %s" % (self.info.file, getattr(node, "lineno", 0) + self.info.lineno - 1,
                                                   self.info.name, what))

    def line(self, node):
        return node.lineno + self.info.lineno - 1

    def none(self):
        if not self.fallible:
            raise BecameFallible()
        self.n_none += 1
        return "none"

    def fresh(self, base):
        name = base
        while name in self.names:
            name += "_"
        return name

    def tmp(self):
        self.n_tmp += 1
        name = "t%d" % self.n_tmp
        if name in self.names:
            raise TranslateError("%s: the Python uses the name %s that the translator needs" % (self.info.name, name))
        return name

    def mode_arg(self):
        return "m " if self.info.has_mode else ""

    # -- expressions ---------------------------------------------------------
    def coerce(self, text, typ, want, node):
        if want is None or same_type(typ, want):
            return text
        if want == OPTINT:
            if typ == INT:
                return "(some %s)" % paren(text)
            if typ == NONE:
                return "none"
        if want == YEARSEL:
            if typ == INT:
                return "(YearArg.int %s)" % paren(text)
            if typ == NONE:
                return "YearArg.none"
            if typ == LEAPSTR:
                return "YearArg.leap"
        if want == INT and typ in (OPTINT, YEARSEL) and isinstance(node, ast.Name):
            raise NeedNarrow(node.id)
        raise self.err(node, "`%s` has type %s where %s is needed" % (ast.unparse(node), typ, want))

    def int_expr(self, node, env, pre):
        text, typ = self.expr(node, env, pre)
        return self.coerce(text, typ, INT, node)

    def cal_attr(self, node):
        """`CALENDAR.<ATTR>` -> (text, type) or None."""
        if isinstance(node, ast.Attribute) and isinstance(node.value, ast.Name) and \
                node.value.id == "CALENDAR" and self.info.has_mode:
            tr = _translate()
            if node.attr in tr.CAL_INT_ATTRS:
                return "(Gen.calOfMode m).%s" % tr.camel(node.attr), INT
            if node.attr in CAL_LISTS:
                field, typ = CAL_LISTS[node.attr]
                return "(Gen.calOfMode m).%s" % field, typ
            if node.attr == "LEAP_YEAR_FACTOR_TRUTHS":
                return "Gen.leapFactors", ("list", ("tuple", (INT, BOOL)))
            raise self.err(node, "read of CALENDAR.%s" % node.attr)
        return None

    def pos_divisor(self, node, env):
        if isinstance(node, ast.Constant) and type(node.value) is int and node.value > 0:
            return True
        if isinstance(node, ast.Name) and node.id in env and env[node.id].pos:
            self.gen.pos_facts.add("leap")
            return True
        if isinstance(node, ast.Attribute) and isinstance(node.value, ast.Name) and \
                node.value.id == "CALENDAR" and node.attr in _translate().CAL_INT_ATTRS:
            if self.gen.cal_attr_positive(node.attr):
                self.gen.pos_facts.add(node.attr)
                return True
        return False

    def expr(self, node, env, pre):
        """-> (Lean text, type); fallible sub-expressions are appended to pre as (tmp, text)."""
        if isinstance(node, ast.Constant):
            v = node.value
            if v is True or v is False:
                return ("true" if v else "false"), BOOL
            if type(v) is int:
                return (str(v) if v >= 0 else "(%d)" % v), INT
            if v is None:
                return "none", NONE
            if v == "leap":
                return "YearArg.leap", LEAPSTR
            raise self.err(node, "constant %r" % (v,))
        if isinstance(node, ast.Name):
            if node.id not in env:
                raise self.err(node, "variable `%s` is not (definitely) assigned here" % node.id)
            var = env[node.id]
            if var.typ == NONE:
                return "none", NONE
            if var.typ == LEAPSTR:
                return "YearArg.leap", LEAPSTR
            return lean_name(node.id), var.typ
        if isinstance(node, ast.UnaryOp):
            if isinstance(node.op, ast.USub):
                return "-" + paren(self.int_expr(node.operand, env, pre)), INT
            if isinstance(node.op, ast.UAdd):
                return self.int_expr(node.operand, env, pre), INT
            if isinstance(node.op, ast.Not):
                return self.bool_value(node, env, pre), BOOL
            raise self.err(node, "unary operator %s" % type(node.op).__name__)
        if isinstance(node, ast.BinOp):
            a = self.int_expr(node.left, env, pre)
            b = self.int_expr(node.right, env, pre)
            if isinstance(node.op, (ast.Add, ast.Sub, ast.Mult)):
                sym = {ast.Add: "+", ast.Sub: "-", ast.Mult: "*"}[type(node.op)]
                if isinstance(node.op, ast.Add) and isinstance(node.left, ast.BinOp) and \
                        isinstance(node.left.op, (ast.Add, ast.Sub)):
                    return "%s %s %s" % (a, sym, paren(b)), INT      # left-assoc chains stay flat
                if isinstance(node.op, ast.Sub) and isinstance(node.left, ast.BinOp) and \
                        isinstance(node.left.op, (ast.Add, ast.Sub)):
                    return "%s %s %s" % (a, sym, paren(b)), INT
                return "%s %s %s" % (paren(a), sym, paren(b)), INT
            if isinstance(node.op, (ast.FloorDiv, ast.Mod)):
                if self.pos_divisor(node.right, env):
                    sym = "/" if isinstance(node.op, ast.FloorDiv) else "%"
                    return "%s %s %s" % (paren(a), sym, paren(b)), INT
                fn = "pyFloorDiv" if isinstance(node.op, ast.FloorDiv) else "pyMod"
                self.none()
                t = self.tmp()
                pre.append((t, "%s %s %s" % (fn, paren(a), paren(b))))
                return t, INT
            raise self.err(node, "binary operator %s" % type(node.op).__name__)
        if isinstance(node, (ast.Compare, ast.BoolOp)):
            return self.bool_value(node, env, pre), BOOL
        if isinstance(node, ast.IfExp):
            c = self.cond(node.test, env, pre)
            n_pre = len(pre)
            a, ta = self.expr(node.body, env, pre)
            b, tb = self.expr(node.orelse, env, pre)
            if len(pre) != n_pre:
                raise self.err(node, "conditional expression with a branch that can raise")
            if c is True:
                return a, ta
            if c is False:
                return b, tb
            if not same_type(ta, tb):
                raise self.err(node, "conditional expression with branches of types %s / %s" % (ta, tb))
            return "if %s then %s else %s" % (c, a, b), ta
        if isinstance(node, ast.Tuple):
            parts = [self.expr(e, env, pre) for e in node.elts]
            return "(" + ", ".join(p[0] for p in parts) + ")", ("tuple", tuple(p[1] for p in parts))
        if isinstance(node, ast.List):
            if not node.elts:
                return "[]", TList(None)
            parts = [self.expr(e, env, pre) for e in node.elts]
            for p in parts[1:]:
                if not same_type(p[1], parts[0][1]):
                    raise self.err(node, "list display with mixed element types")
            return "[" + ", ".join(p[0] for p in parts) + "]", ("list", parts[0][1])
        if isinstance(node, ast.Attribute):
            got = self.cal_attr(node)
            if got is not None:
                return got
            raise self.err(node, "attribute access `%s`" % ast.unparse(node))
        if isinstance(node, ast.Subscript):
            return self.subscript(node, env, pre)
        if isinstance(node, ast.Call):
            return self.call(node, env, pre)
        raise self.err(node, "expression `%s` (%s)" % (ast.unparse(node), type(node).__name__))

    def subscript(self, node, env, pre):
        src = ast.unparse(node)
        if src in ("CALENDAR.WEEK_DAY_START_REFERENCE['calendar']",) and self.info.has_mode:
            return "Gen.weekRefCal", ("tuple", (INT, INT, INT))
        if src in ("CALENDAR.WEEK_DAY_START_REFERENCE['ordinal']",) and self.info.has_mode:
            return "Gen.weekRefOrd", ("tuple", (INT, INT))
        base, tb = self.expr(node.value, env, pre)
        if not is_list(tb):
            raise self.err(node, "subscript of a non-list `%s`" % src)
        if isinstance(node.slice, ast.Slice):
            sl = node.slice
            if sl.upper is not None or sl.step is not None or sl.lower is None:
                raise self.err(node, "slice `%s` (only L[i:] is translated)" % src)
            i = self.int_expr(sl.lower, env, pre)
            return "pySliceFrom %s %s" % (paren(base), paren(i)), tb
        i = self.int_expr(node.slice, env, pre)
        self.none()
        t = self.tmp()
        pre.append((t, "pyIndex %s %s" % (paren(base), paren(i))))
        return t, list_elem(tb)

    def call(self, node, env, pre):
        src = ast.unparse(node)
        if isinstance(node.func, ast.Name) and node.func.id == "range" and node.func.id not in env:
            if node.keywords or not 1 <= len(node.args) <= 3:
                raise self.err(node, "call `%s`" % src)
            args = [self.int_expr(a, env, pre) for a in node.args]
            if len(args) == 1:
                return "pyRange 0 %s" % paren(args[0]), ("list", INT)
            if len(args) == 2:
                return "pyRange %s %s" % (paren(args[0]), paren(args[1])), ("list", INT)
            step = node.args[2]
            if isinstance(step, ast.Constant) and step.value == 1:
                return "pyRange %s %s" % (paren(args[0]), paren(args[1])), ("list", INT)
            if ast.unparse(step) == "-1":
                return "pyRangeDown %s %s" % (paren(args[0]), paren(args[1])), ("list", INT)
            raise self.err(node, "range with step `%s` (only 1 and -1 are translated)" % ast.unparse(step))
        if isinstance(node.func, ast.Name) and node.func.id == "reversed" and "reversed" not in env:
            if node.keywords or len(node.args) != 1:
                raise self.err(node, "call `%s`" % src)
            a, ta = self.expr(node.args[0], env, pre)
            if not is_list(ta):
                raise self.err(node, "reversed() of a non-list")
            return "List.reverse %s" % paren(a), ta
        if isinstance(node.func, ast.Name) and node.func.id in self.gen.infos and node.func.id not in env:
            callee = self.gen.infos[node.func.id]
            if callee.rettype is None:
                raise self.err(node, "call of `%s` before it is translated (recursion?)" % callee.name)
            if callee.has_mode and not self.info.has_mode:
                raise self.err(node, "call of a calendar function from a function without a mode")
            slots = [None] * len(callee.params)
            if len(node.args) > len(slots):
                raise self.err(node, "too many arguments in `%s`" % src)
            for i, a in enumerate(node.args):
                if isinstance(a, ast.Starred):
                    raise self.err(node, "starred argument in `%s`" % src)
                slots[i] = a
            pnames = [p[0] for p in callee.params]
            for kw in node.keywords:
                if kw.arg is None or kw.arg not in pnames:
                    raise self.err(node, "keyword argument in `%s`" % src)
                i = pnames.index(kw.arg)
                if slots[i] is not None:
                    raise self.err(node, "argument given twice in `%s`" % src)
                slots[i] = kw.value
            out = []
            for i, (pname, ptype, default) in enumerate(callee.params):
                a = slots[i] if slots[i] is not None else default
                if a is None:
                    raise self.err(node, "missing argument `%s` in `%s`" % (pname, src))
                if i == callee.key_index:
                    if ast.unparse(a) != "CALENDAR.mode":
                        raise self.err(node, "the cache-key argument of `%s` is `%s`, not CALENDAR.mode"
                                       % (callee.name, ast.unparse(a)))
                    continue
                text, typ = self.expr(a, env, pre)
                out.append(paren(self.coerce(text, typ, ptype, a)))
            text = lean_name(callee.name) + (" m" if callee.has_mode else "") + "".join(" " + o for o in out)
            if callee.fallible:
                self.none()
                t = self.tmp()
                pre.append((t, text))
                return t, callee.rettype
            return text, callee.rettype
        raise self.err(node, "call `%s`" % src)

    # -- conditions ----------------------------------------------------------
    def bool_value(self, node, env, pre):
        c = self.cond(node, env, pre)
        if c is True:
            return "true"
        if c is False:
            return "false"
        return "decide %s" % paren(c)

    def cond(self, node, env, pre):
        """-> True / False (decided statically) or the text of a decidable Prop."""
        if isinstance(node, ast.Constant) and (node.value is True or node.value is False):
            return node.value
        if isinstance(node, ast.BoolOp):
            is_and = isinstance(node.op, ast.And)
            parts = []
            for i, v in enumerate(node.values):
                n_pre = len(pre)
                c = self.cond(v, env, pre)
                if i > 0 and len(pre) != n_pre:
                    raise self.err(v, "operand of and/or that can raise (evaluation is conditional)")
                if c is (not is_and):
                    # `False and ..` / `True or ..`: the remaining operands are not evaluated (and the
                    # earlier ones are pure, so `p and False` is just False)
                    return c
                if c is is_and:
                    continue
                parts.append(c)
            if not parts:
                return is_and
            if len(parts) == 1:
                return parts[0]
            return (" ∧ " if is_and else " ∨ ").join(paren(p) for p in parts)
        if isinstance(node, ast.UnaryOp) and isinstance(node.op, ast.Not):
            c = self.cond(node.operand, env, pre)
            if c is True or c is False:
                return not c
            return "¬ " + paren(c)
        if isinstance(node, ast.Compare):
            parts = []
            left = node.left
            for op, right in zip(node.ops, node.comparators):
                c = self.compare(node, left, op, right, env, pre)
                left = right
                if c is False:
                    return False
                if c is True:
                    continue
                parts.append(c)
            if not parts:
                return True
            if len(parts) == 1:
                return parts[0]
            return " ∧ ".join(paren(p) for p in parts)
        text, typ = self.expr(node, env, pre)
        if typ == BOOL:
            if text in ("true", "false"):
                return text == "true"
            return "%s = true" % paren(text)
        if typ == INT:
            return "%s ≠ 0" % paren(text)
        if is_list(typ):
            return "%s ≠ []" % paren(text)
        if typ == NONE:
            return False
        raise self.err(node, "truth value of `%s` (type %s)" % (ast.unparse(node), typ))

    def compare(self, whole, left, op, right, env, pre):
        # identity / equality tests that select a variant of an Optional / year-selector value
        if isinstance(op, (ast.Is, ast.IsNot)):
            if not (isinstance(right, ast.Constant) and right.value is None):
                raise self.err(whole, "`is` test other than against None")
            text, typ = self.expr(left, env, pre)
            pos = isinstance(op, ast.Is)
            if typ == NONE:
                return pos
            if typ == OPTINT:
                return "%s %s none" % (paren(text), "=" if pos else "≠")
            if typ == YEARSEL:
                return "%s %s YearArg.none" % (paren(text), "=" if pos else "≠")
            return not pos
        if isinstance(op, (ast.Eq, ast.NotEq)) and isinstance(right, ast.Constant) and \
                isinstance(right.value, str):
            text, typ = self.expr(left, env, pre)
            pos = isinstance(op, ast.Eq)
            if typ == LEAPSTR:
                return pos if right.value == "leap" else not pos
            if typ == YEARSEL:
                if right.value != "leap":
                    return not pos
                return "%s %s YearArg.leap" % (paren(text), "=" if pos else "≠")
            if typ in (INT, NONE, BOOL):
                return not pos
            raise self.err(whole, "comparison of a %s with a string" % typ)
        if type(op) not in CMP_INT:
            raise self.err(whole, "comparison operator %s" % type(op).__name__)
        a, ta = self.expr(left, env, pre)
        b, tb = self.expr(right, env, pre)
        if ta in (OPTINT, YEARSEL) and isinstance(left, ast.Name):
            raise NeedNarrow(left.id)
        if tb in (OPTINT, YEARSEL) and isinstance(right, ast.Name):
            raise NeedNarrow(right.id)
        if ta == INT and tb == INT:
            return "%s %s %s" % (paren(a), CMP_INT[type(op)], paren(b))
        if ta == BOOL and tb == BOOL and isinstance(op, (ast.Eq, ast.NotEq)):
            return "%s %s %s" % (paren(a), CMP_INT[type(op)], paren(b))
        if is_tuple(ta) and same_type(ta, tb) and all(t == INT for t in ta[1]):
            if isinstance(op, (ast.Eq, ast.NotEq)):
                return "%s %s %s" % (paren(a), CMP_INT[type(op)], paren(b))
            n = len(ta[1])
            if n not in (2, 3):
                raise self.err(whole, "ordering of %d-tuples" % n)
            if isinstance(op, ast.Lt):
                return "tupLt%d %s %s = true" % (n, paren(a), paren(b))
            if isinstance(op, ast.LtE):
                return "tupLe%d %s %s = true" % (n, paren(a), paren(b))
            if isinstance(op, ast.Gt):
                return "tupLt%d %s %s = true" % (n, paren(b), paren(a))
            return "tupLe%d %s %s = true" % (n, paren(b), paren(a))
        raise self.err(whole, "comparison of %s with %s" % (ta, tb))

    # -- statements ----------------------------------------------------------
    def wrap_pre(self, pre, body):
        for pat, text in reversed(pre):
            body = match_(text, [("none", "none"), ("some " + pat, body)])
        return body

    def ret(self, text, typ, node):
        if self.rettype is None:
            self.rettype = typ
        elif not same_type(self.rettype, typ):
            raise self.err(node, "returns of different types (%s / %s)" % (self.rettype, typ))
        return ("some " + paren(text)) if self.fallible else text

    def pattern(self, target, typ, env):
        """Lean pattern + new env for assigning a value of type typ to target."""
        if isinstance(target, ast.Name):
            return lean_name(target.id), bind(env, target.id, Var(typ))
        if isinstance(target, (ast.Tuple, ast.List)):
            if not is_tuple(typ) or len(typ[1]) != len(target.elts):
                raise self.err(target, "unpacking a %s into `%s`" % (typ, ast.unparse(target)))
            pats = []
            for e, t in zip(target.elts, typ[1]):
                p, env = self.pattern(e, t, env)
                pats.append(p)
            return "(" + ", ".join(pats) + ")", env
        raise self.err(target, "assignment target `%s`" % ast.unparse(target))

    def block(self, stmts, env, k, lp):
        if not stmts:
            return k(env)
        s, rest = stmts[0], stmts[1:]
        kr = Cont(lambda e: self.block(rest, e, k, lp), cheap=(not rest and k.cheap))
        return self.stmt(s, env, kr, lp)

    def assign(self, target, value_node, value, typ, pre, env, k, node):
        pat, env2 = self.pattern(target, typ, env)
        if pre and pre[-1][0] == value:
            # the value IS the fallible sub-expression: bind the target in the `some` pattern
            pre = pre[:-1] + [(pat, pre[-1][1])]
            return self.wrap_pre(pre, k(env2))
        ann = None if typ in (NONE, LEAPSTR) else typ
        body = k(env2)              # first: may fix the element type of a `[]`
        return self.wrap_pre(pre, let_(pat, lean_type(ann) if ann is not None else None, value, body))

    def stmt(self, s, env, k, lp):
        if isinstance(s, ast.Expr) and isinstance(s.value, ast.Constant) and isinstance(s.value.value, str):
            return k(env)           # docstring
        if isinstance(s, ast.Pass):
            return k(env)
        if isinstance(s, ast.Assign):
            if len(s.targets) != 1:
                raise self.err(s, "chained assignment")
            pre = []
            value, typ = self.expr(s.value, env, pre)
            return self.assign(s.targets[0], s.value, value, typ, pre, env, k, s)
        if isinstance(s, ast.AugAssign):
            if not isinstance(s.target, ast.Name):
                raise self.err(s, "augmented assignment to `%s`" % ast.unparse(s.target))
            pre = []
            load = ast.copy_location(ast.Name(id=s.target.id, ctx=ast.Load()), s.target)
            binop = ast.copy_location(ast.BinOp(left=load, op=s.op, right=s.value), s)
            value, typ = self.expr(binop, env, pre)
            return self.assign(s.target, binop, value, typ, pre, env, k, s)
        if isinstance(s, ast.Expr) and isinstance(s.value, ast.Call) and \
                isinstance(s.value.func, ast.Attribute) and s.value.func.attr == "append" and \
                isinstance(s.value.func.value, ast.Name):
            call = s.value
            name = call.func.value.id
            if name not in env or not is_list(env[name].typ) or len(call.args) != 1 or call.keywords:
                raise self.err(s, "`%s`" % ast.unparse(s))
            pre = []
            item, ti = self.expr(call.args[0], env, pre)
            lt = env[name].typ
            if list_elem(lt) is None:
                lt.elem = ti
            elif not same_type(list_elem(lt), ti):
                raise self.err(s, "append of a %s to a list of %s" % (ti, list_elem(lt)))
            body = k(env)
            return self.wrap_pre(pre, let_(lean_name(name), lean_type(lt),
                                           "%s ++ [%s]" % (lean_name(name), item), body))
        if isinstance(s, ast.Return):
            if s.value is None:
                return self.none()
            pre = []
            value, typ = self.expr(s.value, env, pre)
            if typ in (NONE,):
                return self.wrap_pre(pre, self.none())
            if pre and pre[-1][0] == value:
                # the value IS the fallible sub-expression: its Option is the result
                self.ret(value, typ, s)
                return self.wrap_pre(pre[:-1], pre[-1][1])
            return self.wrap_pre(pre, self.ret(value, typ, s))
        if isinstance(s, ast.Raise):
            return self.none()
        if isinstance(s, ast.Continue):
            if lp is None:
                raise self.err(s, "continue outside a loop")
            return lp["cont"](env)
        if isinstance(s, ast.Break):
            if lp is None:
                raise self.err(s, "break outside a loop")
            return lp["brk"](env)
        if isinstance(s, ast.If):
            simple = not contains([s], ESCAPES + (ast.For, ast.While))
            return self.fork(s, env, k, lambda kb: self.if_chain(s, env, kb, lp), simple)
        if isinstance(s, ast.For):
            return self.stmt_for(s, env, k, lp)
        if isinstance(s, ast.While):
            return self.stmt_while(s, env, k, lp)
        raise self.err(s, "statement `%s`" % type(s).__name__)

    # -- if ------------------------------------------------------------------
    def fork(self, s, env, k, build, simple):
        """Translate a statement whose branches may each continue with the rest of the block.
        build(kb) translates it given the continuation kb for the branches that fall through."""
        if k.cheap and not simple:
            return build(k)
        snap = self.snap()
        uses = []

        def dummy(e):
            uses.append(e)
            return "?"
        build(Cont(dummy, cheap=True))
        none_in_branches = self.n_none != snap[5]
        self.restore(snap)
        if not uses:
            return build(k)         # every branch escapes: the rest is dead code, never translated
        # the variables the statement assigns that are defined on every path that falls through
        jvars = []
        for name in assigned([s]):
            if all(name in e for e in uses):
                t0 = uses[0][name].typ
                for e in uses[1:]:
                    if not same_type(e[name].typ, t0):
                        raise self.err(s, "`%s` gets different types in different branches" % name)
                jvars.append((name, t0))
        env_j = env
        for name, typ in jvars:
            env_j = bind(env_j, name, Var(typ))
        args = [lean_name(n) for n, _ in jvars]
        if simple and jvars and not none_in_branches:
            tup = args[0] if len(args) == 1 else "(" + ", ".join(args) + ")"
            value = build(Cont(lambda e: tup, cheap=True))
            body = k(env_j)
            typ = jvars[0][1] if len(jvars) == 1 else ("tuple", tuple(t for _, t in jvars))
            return let_(tup, lean_type(typ), value, body)
        if len(uses) <= 1 or k.cheap:
            return build(k)
        self.n_join += 1
        kname = "k%d" % self.n_join
        if kname in self.names:
            raise TranslateError("%s: the Python uses the name %s that the translator needs" % (self.info.name, kname))
        call = kname + ("".join(" " + a for a in args) if args else " ()")
        text = build(Cont(lambda e: call, cheap=True))
        body = k(env_j)
        binders = "".join(" (%s : %s)" % (lean_name(n), lean_type(t)) for n, t in jvars) if jvars \
            else " (_ : Unit)"
        return "let %s := fun%s =>\n%s\n%s" % (kname, binders, indent(body), text)

    def variant_tested(self, s, name):
        """Does the test of this if/elif chain select a variant of the Optional variable `name`?"""
        node = s
        while True:
            for n in ast.walk(node.test):
                if isinstance(n, ast.Compare) and isinstance(n.left, ast.Name) and n.left.id == name and \
                        len(n.ops) == 1 and isinstance(n.comparators[0], ast.Constant):
                    if isinstance(n.ops[0], (ast.Is, ast.IsNot)) and n.comparators[0].value is None:
                        return True
                    if isinstance(n.ops[0], (ast.Eq, ast.NotEq)) and isinstance(n.comparators[0].value, str):
                        return True
            if len(node.orelse) == 1 and isinstance(node.orelse[0], ast.If):
                node = node.orelse[0]
            else:
                return False

    def if_chain(self, s, env, kb, lp):
        snap = self.snap()
        try:
            return self.if_plain(s, env, kb, lp)
        except NeedNarrow as need:
            name = need.name
            if name not in env or env[name].typ not in (OPTINT, YEARSEL) or not self.variant_tested(s, name):
                raise
            self.restore(snap)
        ln = lean_name(name)
        if env[name].typ == OPTINT:
            variants = [("none", NONE), ("some " + ln, INT)]
        else:
            variants = [("YearArg.none", NONE), ("YearArg.leap", LEAPSTR), ("YearArg.int " + ln, INT)]
        arms = []
        for pat, typ in variants:
            arms.append((pat, self.if_chain(s, bind(env, name, Var(typ)), kb, lp)))
        return match_(ln, arms)

    def if_plain(self, s, env, kb, lp):
        pre = []
        c = self.cond(s.test, env, pre)
        if pre:
            raise self.err(s, "an `if` test that can raise")
        if len(s.orelse) == 1 and isinstance(s.orelse[0], ast.If):
            other = lambda: self.if_chain(s.orelse[0], env, kb, lp)
        else:
            other = lambda: self.block(s.orelse, env, kb, lp)
        if c is True:
            return self.block(s.body, env, kb, lp)
        if c is False:
            return other()
        a = self.block(s.body, env, kb, lp)
        return if_(c, a, other())

    # -- loops ---------------------------------------------------------------
    def loop_vars(self, s, env, targets):
        body = s.body
        state = [n for n in env if n in assigned(body) and n not in targets]
        used = loaded(body + ([s.test] if isinstance(s, ast.While) else []))
        captured = [n for n in env if n in used and n not in state and n not in targets
                    and env[n].typ not in (NONE, LEAPSTR)]
        return state, captured

    def state_args(self, state, e, env, node):
        for n in state:
            if n not in e or not same_type(e[n].typ, env[n].typ):
                raise self.err(node, "loop variable `%s` changes type inside the loop" % n)
        return "".join(" " + lean_name(n) for n in state)

    def k_lambda(self, state, env, body):
        if not state:
            return "(fun (_ : Unit) => %s)" % body if "\n" not in body else \
                "(fun (_ : Unit) =>\n%s)" % indent(body)
        binders = "".join(" (%s : %s)" % (lean_name(n), lean_type(env[n].typ)) for n in state)
        if "\n" not in body:
            return "(fun%s => %s)" % (binders, body)
        return "(fun%s =>\n%s)" % (binders, indent(body))

    def k_type(self, state, env):
        if not state:
            return "Unit → @RHO@"
        return " → ".join(lean_type(env[n].typ, True) for n in state) + " → @RHO@"

    def stmt_for(self, s, env, k, lp):
        if s.orelse:
            raise self.err(s, "for ... else")
        pre = []
        it, tit = self.expr(s.iter, env, pre)
        if not is_list(tit) or list_elem(tit) is None:
            raise self.err(s, "for loop over `%s`, which is not a list of known element type" % ast.unparse(s.iter))
        elem = list_elem(tit)
        targets = target_names(s.target)
        for n in targets:
            if n in env:
                raise self.err(s, "loop target `%s` rebinds a variable of the enclosing block" % n)
        pat, env_b = self.pattern(s.target, elem, env)
        if ast.unparse(s.iter) == "CALENDAR.LEAP_YEAR_FACTOR_TRUTHS" and isinstance(s.target, ast.Tuple) \
                and isinstance(s.target.elts[0], ast.Name):
            if not self.gen.leap_factors_positive():
                raise self.err(s, "a leap-year factor is not positive")
            env_b = bind(env_b, s.target.elts[0].id, Var(INT, pos=True))
        state, captured = self.loop_vars(s, env, targets)
        self.n_for += 1
        fname = "%s.for%d" % (lean_name(self.info.name), self.n_for)
        rest = self.fresh("rest")
        cap_args = "".join(" " + lean_name(n) for n in captured)
        head = fname + (" m" if self.info.has_mode else "") + cap_args + " k"
        kc = Cont(lambda e: "%s %s%s" % (head, rest, self.state_args(state, e, env, s)), cheap=True)
        kb = Cont(lambda e: "k" + (self.state_args(state, e, env, s) or " ()"), cheap=True)
        body = self.block(s.body, env_b, kc, {"cont": kc, "brk": kb})
        st_pats = "".join(", " + lean_name(n) for n in state)
        params = (" (m : Mode)" if self.info.has_mode else "") + \
            "".join(" (%s : %s)" % (lean_name(n), lean_type(env[n].typ)) for n in captured) + \
            " (k : %s)" % self.k_type(state, env)
        sig = " → ".join([lean_type(tit, True)] + [lean_type(env[n].typ, True) for n in state] + ["@RHO@"])
        text = "/-- %s:%d  `for %s in %s` -/\n" % (self.info.file, self.line(s), ast.unparse(s.target),
                                                  ast.unparse(s.iter))
        text += "def %s%s :\n    %s\n" % (fname, params, sig)
        text += "  | []%s => k%s\n" % (st_pats, "".join(" " + lean_name(n) for n in state) or " ()")
        text += "  | %s :: %s%s =>\n%s" % (pat, rest, st_pats, indent(body, 4))
        self.aux.append(text)
        env_after = env
        for n in state:
            env_after = bind(env_after, n, Var(env[n].typ))
        after = k(env_after)
        lam = self.k_lambda(state, env, after)
        head = "%s%s%s" % (fname, " m" if self.info.has_mode else "", cap_args)
        tail = "%s%s" % (paren(it), "".join(" " + lean_name(n) for n in state))
        call = "%s %s %s" % (head, lam, tail)
        if "\n" in lam or len(call) > 100:
            call = "%s\n%s\n%s" % (head, indent(lam), indent(tail))
        return self.wrap_pre(pre, call)

    def measure(self, s, env, state):
        """A decreasing measure for `while .. v < E ..: .. v += c ..` (Lean checks it)."""
        conj = s.test.values if isinstance(s.test, ast.BoolOp) and isinstance(s.test.op, ast.And) else [s.test]
        for c in conj:
            if not (isinstance(c, ast.Compare) and len(c.ops) == 1):
                continue
            left, op, right = c.left, c.ops[0], c.comparators[0]
            if isinstance(op, (ast.Gt, ast.GtE)):
                left, right = right, left
                op = ast.Lt() if isinstance(op, ast.Gt) else ast.LtE()
            if not isinstance(op, (ast.Lt, ast.LtE)) or not isinstance(left, ast.Name):
                continue
            v = left.id
            if v not in state or loaded([right]) & set(state):
                continue
            steps = [b for b in s.body if isinstance(b, ast.AugAssign) and isinstance(b.target, ast.Name)
                     and b.target.id == v]
            if len(steps) != 1 or not isinstance(steps[0].op, ast.Add) or \
                    not (isinstance(steps[0].value, ast.Constant) and type(steps[0].value.value) is int
                         and steps[0].value.value > 0):
                continue
            stores = [b for b in ast.walk(s) if isinstance(b, ast.Name) and b.id == v
                      and isinstance(b.ctx, ast.Store)]
            if len(stores) != 1:
                continue
            bound = self.int_expr(right, env, [])
            extra = " + 1" if isinstance(op, ast.LtE) else ""
            return "(%s%s - %s).toNat" % (bound, extra, lean_name(v))
        raise self.err(s, "while loop `%s` without a recognisable decreasing measure "
                       "(`v < bound` in the test and `v += positive literal` in the body)" % ast.unparse(s.test))

    def stmt_while(self, s, env, k, lp):
        if s.orelse:
            raise self.err(s, "while ... else")
        state, captured = self.loop_vars(s, env, [])
        pre = []
        c = self.cond(s.test, env, pre)
        if pre or c is True or c is False:
            raise self.err(s, "while test `%s` (constant, or can raise)" % ast.unparse(s.test))
        measure = self.measure(s, env, state)
        self.n_while += 1
        fname = "%s.while%d" % (lean_name(self.info.name), self.n_while)
        cap_args = "".join(" " + lean_name(n) for n in captured)
        head = fname + (" m" if self.info.has_mode else "") + cap_args + " k"
        kc = Cont(lambda e: "%s%s" % (head, self.state_args(state, e, env, s)), cheap=True)
        kb = Cont(lambda e: "k" + (self.state_args(state, e, env, s) or " ()"), cheap=True)
        body = self.block(s.body, env, kc, {"cont": kc, "brk": kb})
        params = (" (m : Mode)" if self.info.has_mode else "") + \
            "".join(" (%s : %s)" % (lean_name(n), lean_type(env[n].typ)) for n in captured) + \
            " (k : %s)" % self.k_type(state, env) + \
            "".join(" (%s : %s)" % (lean_name(n), lean_type(env[n].typ)) for n in state)
        text = "/-- %s:%d  `while %s` -/\n" % (self.info.file, self.line(s), ast.unparse(s.test))
        text += "def %s%s : @RHO@ :=\n" % (fname, params)
        text += indent(if_(c, body, kb(env))) + "\n"
        text += "termination_by %s\ndecreasing_by all_goals (simp_wf; omega)" % measure
        self.aux.append(text)
        env_after = env
        for n in state:
            env_after = bind(env_after, n, Var(env[n].typ))
        after = k(env_after)
        lam = self.k_lambda(state, env, after)
        head = "%s%s%s" % (fname, " m" if self.info.has_mode else "", cap_args)
        tail = "".join(" " + lean_name(n) for n in state).strip()
        if "\n" in lam or len(head) + len(lam) + len(tail) > 100:
            return "%s\n%s\n%s" % (head, indent(lam), indent(tail))
        return "%s %s %s" % (head, lam, tail)

    # -- the function --------------------------------------------------------
    def run(self):
        env = {}
        for i, (pname, ptype, _default) in enumerate(self.info.params):
            if i == self.info.key_index:
                continue
            env[pname] = Var(ptype)
        try:
            body = self.block(self.node.body, env, Cont(lambda e: self.none(), cheap=True), None)
        except NeedNarrow as need:
            raise TranslateError("%s: Optional variable `%s` is used as an int outside an `if` that tests it"
                                 % (self.info.name, need.name))
        if self.rettype is None:
            raise TranslateError("%s: no return statement with a value" % self.info.name)
        rho = lean_type(self.rettype)
        if self.fallible:
            rho = "Option " + lean_type(self.rettype, True)
        params = (" (m : Mode)" if self.info.has_mode else "") + "".join(
            " (%s : %s)" % (lean_name(p), lean_type(t)) for i, (p, t, _d) in enumerate(self.info.params)
            if i != self.info.key_index)
        doc = "/-- %s:%d  `%s`%s -/\n" % (
            self.info.file, self.line(self.node), self.info.signature,
            "  (none = raises, or returns None)" if self.fallible else "")
        text = doc + "def %s%s : %s :=\n%s" % (lean_name(self.info.name), params, rho, indent(body))
        rho_atom = "(" + rho + ")" if " " in rho else rho
        out = []
        for a in self.aux:
            # the result type stands alone after an arrow / a colon: no parentheses needed there
            out.append(a.replace("→ @RHO@", "→ " + rho).replace(": @RHO@", ": " + rho).replace("@RHO@", rho_atom))
        return out + [text]


# ---------------------------------------------------------------------------
# the generator

class ReplaceExternals(ast.NodeTransformer):
    def __init__(self, table):
        self.table = dict(table)

    def generic_visit(self, node):
        if isinstance(node, (ast.Attribute, ast.Call)):
            src = ast.unparse(node)
            if src in self.table:
                return ast.copy_location(ast.Name(id=self.table[src], ctx=ast.Load()), node)
        return ast.NodeTransformer.generic_visit(self, node)


class Gen(object):
    def __init__(self):
        self.infos = {}
        self.nodes = {}
        self.pos_facts = set()
        self._cal_pos = {}
        self._leap_pos = None

    def cal_attr_positive(self, attr):
        """Is CALENDAR.<attr> a positive int in every mode?  (live check; also emitted as a theorem)"""
        if attr not in self._cal_pos:
            from metomi.isodatetime import data
            tr = _translate()
            cal = data.CALENDAR
            saved = cal.mode
            ok = True
            try:
                for spelling in tr.CANONICAL.values():
                    cal.set_mode(spelling)
                    v = getattr(cal, attr)
                    ok = ok and type(v) is int and v > 0
            finally:
                cal.set_mode(saved)
            self._cal_pos[attr] = ok
        return self._cal_pos[attr]

    def leap_factors_positive(self):
        if self._leap_pos is None:
            from metomi.isodatetime import data
            self._leap_pos = all(type(f) is int and f > 0 for f, _t in data.CALENDAR.LEAP_YEAR_FACTOR_TRUTHS)
        return self._leap_pos

    def load(self, module, modlabel, name, has_mode):
        if not hasattr(module, name):
            raise TranslateError("%s.%s no longer exists" % (modlabel, name))
        obj = getattr(module, name)
        func = getattr(obj, "__wrapped__", obj)
        if not inspect.isfunction(func):
            raise TranslateError("%s.%s is not a plain function" % (modlabel, name))
        lines, lineno = inspect.getsourcelines(func)
        tree = ast.parse(textwrap.dedent("".join(lines)))
        node = tree.body[0]
        if not isinstance(node, ast.FunctionDef) or node.name != name:
            raise TranslateError("%s.%s: source is not a def of that name" % (modlabel, name))
        for dec in node.decorator_list:
            d = dec.func if isinstance(dec, ast.Call) else dec
            if ast.unparse(d) not in ("lru_cache", "functools.lru_cache", "cache", "functools.cache"):
                raise TranslateError("%s.%s: decorator `%s`" % (modlabel, name, ast.unparse(dec)))
        # the first line of the def (after decorators)
        info = FnInfo(name)
        info.file = modlabel
        info.lineno = lineno                      # line of the first source line (decorator or def)
        info.has_mode = has_mode
        a = node.args
        if a.vararg or a.kwarg or a.kwonlyargs or a.posonlyargs:
            raise TranslateError("%s.%s: *args / **kwargs / keyword-only parameters" % (modlabel, name))
        defaults = [None] * (len(a.args) - len(a.defaults)) + list(a.defaults)
        ptypes = PARAM_TYPES.get(name, {})
        for unknown in set(ptypes) - {p.arg for p in a.args}:
            raise TranslateError("%s.%s: parameter `%s` no longer exists" % (modlabel, name, unknown))
        for i, (p, d) in enumerate(zip(a.args, defaults)):
            typ = ptypes.get(p.arg, INT)
            if p.arg == KEY_PARAM:
                info.key_index = i
                if d is not None:
                    raise TranslateError("%s.%s: the key parameter has a default" % (modlabel, name))
            if d is not None:
                ok = isinstance(d, ast.Constant) and (
                    (typ == OPTINT and (d.value is None or type(d.value) is int)) or
                    (typ == YEARSEL and (d.value is None or d.value == "leap" or type(d.value) is int)) or
                    (typ == BOOL and type(d.value) is bool) or
                    (typ == INT and type(d.value) is int))
                if not ok:
                    raise TranslateError("%s.%s: default `%s` of parameter `%s` does not fit its declared type %s"
                                         % (modlabel, name, ast.unparse(d), p.arg, typ))
            info.params.append((p.arg, typ, d))
        if name in EXTERNALS:
            if info.params:
                raise TranslateError("%s.%s now has parameters" % (modlabel, name))
            node = ReplaceExternals((src, pname) for src, pname in EXTERNALS[name]).visit(node)
            ast.fix_missing_locations(node)
            info.params = [(pname, INT, None) for _src, pname in EXTERNALS[name]]
        sig = "def %s(%s)" % (name, ast.unparse(a))
        info.signature = sig
        info.defline = lineno + node.lineno - 1
        self.infos[name] = info
        self.nodes[name] = node

    def order(self):
        """Callees first; ties in source order."""
        names = sorted(self.infos, key=lambda n: (self.infos[n].file, self.infos[n].lineno))
        calls = {}
        for n in names:
            calls[n] = [c.func.id for c in ast.walk(self.nodes[n]) if isinstance(c, ast.Call)
                        and isinstance(c.func, ast.Name) and c.func.id in self.infos]
        done, out, active = set(), [], []

        def visit(n):
            if n in done:
                return
            if n in active:
                raise TranslateError("recursion through %s" % " -> ".join(active + [n]))
            active.append(n)
            for c in calls[n]:
                visit(c)
            active.pop()
            done.add(n)
            out.append(n)
        for n in names:
            visit(n)
        return out

    def translate(self, name):
        info = self.infos[name]
        for fallible in (False, True):
            tr = FnTr(self, info, self.nodes[name], fallible)
            try:
                texts = tr.run()
            except BecameFallible:
                continue
            info.fallible = fallible
            info.rettype = tr.rettype
            return texts
        raise TranslateError("%s: internal error (fallibility)" % name)


def gen_algo():
    common.use_repo()
    from metomi.isodatetime import data, timezone
    tr = _translate()
    gen = Gen()
    for name in DATA_FUNCS:
        gen.load(data, "data.py", name, True)
    for name in TZ_FUNCS:
        gen.load(timezone, "timezone.py", name, False)
    defs = []
    for name in gen.order():
        defs += gen.translate(name)
    out = [tr.HEADER.rstrip("\n"),
           "-- (harness/gen_algo.py: the calendar algorithms of data.py / timezone.py, translated from their AST)",
           "", "import IsoDT.Gen.Calendar", "",
           "set_option linter.unusedVariables false", "",
           "namespace IsoDT.Gen.Algo", "open IsoDT", "", PRELUDE]
    facts = []
    if "leap" in gen.pos_facts:
        facts.append("(∀ ft ∈ Gen.leapFactors, 0 < ft.1)")
    for attr in sorted(gen.pos_facts - {"leap"}):
        facts.append("(∀ m ∈ Mode.all, 0 < (Gen.calOfMode m).%s)" % tr.camel(attr))
    if facts:
        out.append("/-- The divisors that the definitions below divide by with plain `/` and `%` are positive\n"
                   "    (there Lean's `Int` division agrees with Python's floor division). -/")
        out.append("theorem divisors_pos :\n    " + " ∧\n    ".join(facts) + " := by decide")
        out.append("")
    out.append("/-! ## The translated functions (callees first) -/")
    out.append("")
    for d in defs:
        out.append(d)
        out.append("")
    out.append("/-- The functions translated, with their position in the source. -/")
    out.append("def translated : List (String × String × Nat) := [")
    rows = []
    for name in sorted(gen.infos, key=lambda n: (gen.infos[n].file, gen.infos[n].lineno)):
        info = gen.infos[name]
        rows.append("  (%s, %s, %d)" % (tr.lean_str(name), tr.lean_str(info.file), info.defline))
    out.append(",\n".join(rows))
    out.append("]")
    out.append("")
    out.append("end IsoDT.Gen.Algo")
    return "\n".join(out) + "\n"


if __name__ == "__main__":
    text = gen_algo()
    if "--write" in sys.argv:
        changed = common.write_if_changed(os.path.join(common.GEN_DIR, "Algo.lean"), text)
        print("Gen/Algo.lean %s" % ("written" if changed else "unchanged"))
    else:
        sys.stdout.write(text)
