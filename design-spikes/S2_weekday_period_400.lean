theorem p400 (y : Int) : (365*(y+400) + (y+400)/4 - (y+400)/100 + (y+400)/400) % 7 = (365*y + y/4 - y/100 + y/400) % 7 := by
  have h1 : (y+400)/4 = y/4+100 := by omega
  have h2 : (y+400)/100 = y/100+4 := by omega
  have h3 : (y+400)/400 = y/400+1 := by omega
  rw [h1,h2,h3]; omega
#print axioms p400
