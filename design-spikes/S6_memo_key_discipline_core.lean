/-! Spike for C15: memoisation keyed by mode is transparent for ANY function bodies,
    for every history of mode switches and calls. -/
abbrev Fn := Nat
abbrev Args := List Int
abbrev Val := Int
abbrev ModeKey := String          -- the raw string stored in CALENDAR.mode

structure Entry where
  fn : Fn
  args : Args
  key : Option ModeKey             -- `some k` iff the helper takes the mode as an extra cache-key argument
  val : Val

/-- per helper, regenerated from the source: is it keyed, does its body read mode-dependent state,
    and its rank in the (acyclic) call graph of memoised helpers -/
structure Info where
  keyed : Bool
  modeDep : Bool
  rank : Nat

/-- A body computes from the current mode key, its arguments and an oracle for lower-rank helpers. -/
abbrev Body := ModeKey → Args → (Fn → Args → Val) → Val

structure Sys where
  info : Fn → Info
  body : Fn → Body
  /-- bodies not marked mode-dependent really ignore the mode (given the same callee results) -/
  indep : ∀ f, (info f).modeDep = false → ∀ k k' a o, body f k a o = body f k' a o

/-- reference semantics: no cache at all ("a fresh process that only ever used mode k") -/
def pure (S : Sys) (k : ModeKey) : Nat → Fn → Args → Val
  | 0, _, _ => 0
  | fuel+1, f, a => S.body f k a (fun g b => pure S k fuel g b)

def lookup (c : List Entry) (f : Fn) (a : Args) (key : Option ModeKey) : Option Val :=
  (c.find? (fun e => e.fn == f && e.args == a && e.key == key)).map (·.val)

/-- memoised evaluation under the current mode key `k`, threading the cache -/
def eval (S : Sys) (k : ModeKey) : Nat → List Entry → Fn → Args → Val × List Entry
  | 0, c, _, _ => (0, c)
  | fuel+1, c, f, a =>
    let key := if (S.info f).keyed then some k else none
    match lookup c f a key with
    | some v => (v, c)
    | none =>
      -- callee results come from (memoised) evaluation; for the spike callee cache updates are dropped,
      -- which only makes the cache smaller (fewer hits) and does not affect the invariant
      let v := S.body f k a (fun g b => (eval S k fuel c g b).1)
      (v, { fn := f, args := a, key := key, val := v } :: c)

/-- the discipline the translator must establish from the source -/
def Discipline (S : Sys) : Prop := ∀ f, (S.info f).modeDep = true → (S.info f).keyed = true

/-- cache invariant: every entry holds the cache-free value for the mode named by its key
    (for un-keyed helpers: for every mode) at every fuel large enough -/
def Good (S : Sys) (fuel : Nat) (e : Entry) : Prop :=
  match e.key with
  | some k => e.val = pure S k fuel e.fn e.args
  | none => ∀ k, e.val = pure S k fuel e.fn e.args

-- Statement targeted by the real development (fuel handled by rank there):
--   Discipline S → (∀ e ∈ c, Good S (rank-fuel) e) → (eval S k fuel c f a).1 = pure S k fuel f a
-- Here: the single-level core of the argument, without nested calls.
theorem hit_is_pure (S : Sys) (k : ModeKey) (fuel : Nat) (c : List Entry) (f : Fn) (a : Args)
    (hd : Discipline S) (hc : ∀ e ∈ c, Good S fuel e) (v : Val)
    (hl : lookup c f a (if (S.info f).keyed then some k else none) = some v) :
    v = pure S k fuel f a := by
  unfold lookup at hl
  cases hfind : c.find? (fun e => e.fn == f && e.args == a && e.key == (if (S.info f).keyed then some k else none)) with
  | none => simp [hfind] at hl
  | some e =>
    simp [hfind] at hl
    have hmem := List.mem_of_find?_eq_some hfind
    have hp := List.find?_some hfind
    simp only [Bool.and_eq_true, beq_iff_eq] at hp
    obtain ⟨⟨hf, ha⟩, hk⟩ := hp
    have hg := hc e hmem
    unfold Good at hg
    subst hl
    by_cases hkeyed : (S.info f).keyed = true
    · simp [hkeyed] at hk; rw [hk] at hg; simp only at hg; rw [hg, hf, ha]
    · simp [hkeyed] at hk; rw [hk] at hg; simp only at hg; rw [hg k, hf, ha]
#print axioms hit_is_pure
