/-! Spike for C16: effect IR, flow-insensitive semantics, soundness of the
    "writes only hit objects allocated during this call" discipline. -/

inductive RetKind | fresh | freshOrRecv | any
deriving DecidableEq

structure Summary where
  writesRecv : Bool      -- may write its receiver (private mutators, __init__)
  ret : RetKind
deriving DecidableEq

inductive Stmt
  | new (x : Nat)                      -- x := constructor / _copy()  (fresh object)
  | mov (x y : Nat)                    -- x := y   (alias, phi)
  | write (x : Nat)                    -- x.attr := …   (any attribute write)
  | call (x : Nat) (g : Nat) (recv : Nat)   -- x := recv.g(…)   (arguments are only read)
  | ret (x : Nat)
deriving DecidableEq

structure Method where
  body : List Stmt
  fresh : Nat → Bool      -- certificate: variables claimed to hold only objects allocated in this call
  sum : Summary

abbrev Table := Nat → Method

structure St where
  env : Nat → Option Nat
  next : Nat
  written : List Nat

def St.set (s : St) (x : Nat) (a : Nat) : St := { s with env := fun v => if v = x then some a else s.env v }

/-- variable 0 is `self`; it is never a target in SSA form. -/
def selfVar : Nat := 0

/-- One statement, given the semantics `callee g recvAddr next written next' written' result` of calls. -/
inductive Step (callee : Nat → Nat → Nat → List Nat → Nat → List Nat → Nat → Prop) : Stmt → St → St → Prop
  | new (x s) : Step callee (.new x) s ({ s with next := s.next + 1 }.set x s.next)
  | mov (x y s a) : s.env y = some a → Step callee (.mov x y) s (s.set x a)
  | write (x s a) : s.env x = some a → Step callee (.write x) s { s with written := a :: s.written }
  | call (x g recv s a n' w' r) : s.env recv = some a → callee g a s.next s.written n' w' r →
      Step callee (.call x g recv) s ({ s with next := n', written := w' }.set x r)
  | ret (x s) : Step callee (.ret x) s s

/-- any finite sequence of statements of the body, in any order (over-approximates all control flow). -/
inductive Steps (callee) (body : List Stmt) : St → St → Prop
  | nil (s) : Steps callee body s s
  | cons (st s s' s'') : st ∈ body → Step callee st s s' → Steps callee body s' s'' → Steps callee body s s''

def initSt (recv : Nat) (next : Nat) (w : List Nat) : St :=
  { env := fun v => if v = selfVar then some recv else none, next := next, written := w }

/-- semantics of calling method g with call depth ≤ d -/
def Sem (T : Table) : Nat → Nat → Nat → Nat → List Nat → Nat → List Nat → Nat → Prop
  | 0 => fun _ _ _ _ _ _ _ => False
  | d+1 => fun g recv n w n' w' r =>
      ∃ s' x, Steps (Sem T d) (T g).body (initSt recv n w) s' ∧ Stmt.ret x ∈ (T g).body ∧ s'.env x = some r ∧ n' = s'.next ∧ w' = s'.written

/-- certificate check for one statement of method m -/
def okStmt (T : Table) (m : Method) : Stmt → Bool
  | .new x => x != selfVar
  | .mov x y => x != selfVar && (!m.fresh x || m.fresh y)
  | .write x => m.fresh x || (x == selfVar && m.sum.writesRecv)
  | .call x g recv =>
      x != selfVar &&
      (!(T g).sum.writesRecv || m.fresh recv || (recv == selfVar && m.sum.writesRecv)) &&
      (!m.fresh x || (T g).sum.ret == .fresh || ((T g).sum.ret == .freshOrRecv && m.fresh recv))
  | .ret x =>
      match m.sum.ret with
      | .fresh => m.fresh x
      | .freshOrRecv => m.fresh x || x == selfVar
      | .any => true

def okMethod (T : Table) (m : Method) : Bool := m.body.all (okStmt T m) && !m.fresh selfVar

def retOk : RetKind → Nat → Nat → Nat → Prop
  | .fresh, n, _, r => n ≤ r
  | .freshOrRecv, n, recv, r => n ≤ r ∨ r = recv
  | .any, _, _, _ => True

/-- what a summary promises about one call, relative to the entry allocation pointer n -/
def Promise (sm : Summary) (recv n : Nat) (w : List Nat) (n' : Nat) (w' : List Nat) (r : Nat) : Prop :=
  n ≤ n' ∧
  (∀ a, a ∈ w' → a ∈ w ∨ n ≤ a ∨ (sm.writesRecv = true ∧ a = recv)) ∧
  retOk sm.ret n recv r

/-- invariant during the execution of method m entered with receiver `recv` at allocation pointer n0 -/
def MInv (m : Method) (recv n0 : Nat) (w0 : List Nat) (s : St) : Prop :=
  n0 ≤ s.next ∧
  s.env selfVar = some recv ∧
  (∀ x a, m.fresh x = true → s.env x = some a → n0 ≤ a) ∧
  (∀ a, a ∈ s.written → a ∈ w0 ∨ n0 ≤ a ∨ (m.sum.writesRecv = true ∧ a = recv))

theorem step_inv (T : Table) (callee) (m : Method) (recv n0 : Nat) (w0 : List Nat)
    (hcallee : ∀ g a n w n' w' r, callee g a n w n' w' r → Promise (T g).sum a n w n' w' r)
    (hself : m.fresh selfVar = false)
    (st : Stmt) (hok : okStmt T m st = true) (s s' : St)
    (hstep : Step callee st s s') (hinv : MInv m recv n0 w0 s) : MInv m recv n0 w0 s' := by
  obtain ⟨hn, hs, hf, hw⟩ := hinv
  cases hstep with
  | new x _ =>
    simp only [okStmt, bne_iff_ne, ne_eq] at hok
    refine ⟨by simp [St.set]; omega, by simp [St.set, Ne.symm hok, hs], ?_, by simpa [St.set] using hw⟩
    intro y a hy hya
    by_cases hxy : y = x
    · simp [St.set, hxy] at hya; omega
    · simp [St.set, hxy] at hya; exact hf y a hy hya
  | mov x y _ a hya =>
    simp only [okStmt, Bool.and_eq_true, bne_iff_ne, ne_eq, Bool.or_eq_true, Bool.not_eq_true'] at hok
    refine ⟨by simpa [St.set] using hn, by simp [St.set, Ne.symm hok.1, hs], ?_, by simpa [St.set] using hw⟩
    intro z b hz hzb
    by_cases hxz : z = x
    · subst hxz
      simp [St.set] at hzb; subst hzb
      rcases hok.2 with h | h
      · rw [hz] at h; cases h
      · exact hf y a h hya
    · simp [St.set, hxz] at hzb; exact hf z b hz hzb
  | write x _ a hxa =>
    simp only [okStmt, Bool.or_eq_true, Bool.and_eq_true, beq_iff_eq] at hok
    refine ⟨hn, hs, hf, ?_⟩
    intro b hb
    simp only [List.mem_cons] at hb
    rcases hb with rfl | hb
    · rcases hok with h | ⟨h1, h2⟩
      · exact Or.inr (Or.inl (hf x b h hxa))
      · subst h1; rw [hs] at hxa; cases hxa; exact Or.inr (Or.inr ⟨h2, rfl⟩)
    · exact hw b hb
  | call x g rv _ a n' w' r hra hc =>
    simp only [okStmt, Bool.and_eq_true, bne_iff_ne, ne_eq, Bool.or_eq_true, Bool.not_eq_true', beq_iff_eq] at hok
    obtain ⟨⟨hx, hwr⟩, hret⟩ := hok
    obtain ⟨pn, pw, pr⟩ := hcallee g a s.next s.written n' w' r hc
    refine ⟨by simp [St.set]; omega, by simp [St.set, Ne.symm hx, hs], ?_, ?_⟩
    · intro z b hz hzb
      by_cases hxz : z = x
      · subst hxz
        simp [St.set] at hzb; subst hzb
        rcases hret with (h | h) | ⟨h1, h2⟩
        · rw [hz] at h; cases h
        · rw [h] at pr; simp only [retOk] at pr; omega
        · rw [h1] at pr; simp only [retOk] at pr
          rcases pr with pr | pr
          · omega
          · subst pr; exact hf rv _ h2 hra
      · simp [St.set, hxz] at hzb; exact hf z b hz hzb
    · intro b hb
      simp only [St.set] at hb
      rcases pw b hb with h | h | ⟨h1, h2⟩
      · exact hw b h
      · exact Or.inr (Or.inl (by omega))
      · subst h2
        rcases hwr with (h | h) | ⟨h3, h4⟩
        · rw [h1] at h; cases h
        · exact Or.inr (Or.inl (hf rv _ h hra))
        · subst h3; rw [hs] at hra; cases hra; exact Or.inr (Or.inr ⟨h4, rfl⟩)
  | ret x _ => exact ⟨hn, hs, hf, hw⟩

theorem steps_inv (T : Table) (callee) (m : Method) (recv n0 : Nat) (w0 : List Nat)
    (hcallee : ∀ g a n w n' w' r, callee g a n w n' w' r → Promise (T g).sum a n w n' w' r)
    (hok : okMethod T m = true) (s s' : St)
    (h : Steps callee m.body s s') (hinv : MInv m recv n0 w0 s) : MInv m recv n0 w0 s' := by
  simp only [okMethod, Bool.and_eq_true, List.all_eq_true, Bool.not_eq_true'] at hok
  induction h with
  | nil => exact hinv
  | cons st s1 s2 s3 hmem hstep _ ih =>
    exact ih (step_inv T callee m recv n0 w0 hcallee hok.2 st (hok.1 st hmem) s1 s2 hstep hinv)

/-- Main soundness: if every method's certificate checks, every call (of any depth) keeps its summary's promise. -/
theorem sem_sound (T : Table) (hT : ∀ g, okMethod T (T g) = true) :
    ∀ d g recv n w n' w' r, Sem T d g recv n w n' w' r → Promise (T g).sum recv n w n' w' r := by
  intro d
  induction d with
  | zero => intro g recv n w n' w' r h; exact absurd h (by simp [Sem])
  | succ d ih =>
    intro g recv n w n' w' r h
    obtain ⟨s', x, hsteps, hret, hx, hn', hw'⟩ := h
    have hinit : MInv (T g) recv n w (initSt recv n w) := by
      refine ⟨Nat.le_refl _, by simp [initSt], ?_, fun a ha => Or.inl ha⟩
      intro y a hy hya
      have hs := hT g
      simp only [okMethod, Bool.and_eq_true, Bool.not_eq_true'] at hs
      by_cases hy0 : y = selfVar
      · subst hy0; rw [hs.2] at hy; cases hy
      · simp [initSt, hy0] at hya
    have hfin := steps_inv T (Sem T d) (T g) recv n w ih (hT g) _ _ hsteps hinit
    obtain ⟨hn, hs, hf, hw⟩ := hfin
    refine ⟨by omega, by subst hw'; exact hw, ?_⟩
    have hok := hT g
    simp only [okMethod, Bool.and_eq_true, List.all_eq_true] at hok
    have hr := hok.1 _ hret
    simp only [okStmt] at hr
    cases hk : (T g).sum.ret with
    | fresh => rw [hk] at hr; simp only at hr; simp only [retOk]; exact hf x r hr hx
    | freshOrRecv =>
      rw [hk] at hr; simp only [Bool.or_eq_true, beq_iff_eq] at hr; simp only [retOk]
      rcases hr with h | h
      · exact Or.inl (hf x r h hx)
      · subst h; rw [hs] at hx; cases hx; exact Or.inr rfl
    | any => simp only [retOk]

/-- Corollary (C16 shape): a *public* method (summary: does not write its receiver) never writes
    an object that existed before the call. -/
theorem public_call_preserves (T : Table) (hT : ∀ g, okMethod T (T g) = true)
    (g : Nat) (hpub : (T g).sum.writesRecv = false)
    (d recv n : Nat) (w w' : List Nat) (n' r : Nat)
    (h : Sem T d g recv n w n' w' r) : ∀ a, a ∈ w' → a ∈ w ∨ n ≤ a := by
  intro a ha
  rcases (sem_sound T hT d g recv n w n' w' r h).2.1 a ha with h1 | h1 | ⟨h1, _⟩
  · exact Or.inl h1
  · exact Or.inr h1
  · rw [hpub] at h1; cases h1
#print axioms public_call_preserves
