def dch (d : Nat) : Char := Char.ofNat (48 + d)
def isDig (c : Char) : Bool := 48 ≤ c.toNat && c.toNat ≤ 57
/-- w digits, most significant first -/
def render : Nat → Nat → List Char
  | 0, _ => []
  | w+1, v => dch (v / 10^w % 10) :: render w v
def parse : Nat → List Char → Option (Nat × List Char)
  | 0, cs => some (0, cs)
  | _+1, [] => none
  | w+1, c :: cs => if isDig c then (parse w cs).map (fun (x, r) => ((c.toNat - 48) * 10^w + x, r)) else none

theorem dch_val (d : Nat) (h : d < 10) : (dch d).toNat = 48 + d ∧ isDig (dch d) = true := by
  have : ∀ d : Fin 10, (dch d.val).toNat = 48 + d.val ∧ isDig (dch d.val) = true := by decide
  exact this ⟨d, h⟩

theorem parse_render (w v : Nat) (rest : List Char) :
    parse w (render w v ++ rest) = some (v % 10^w, rest) := by
  induction w with
  | zero => simp [parse, render, Nat.mod_one]
  | succ w ih =>
    have hd := dch_val (v / 10^w % 10) (Nat.mod_lt _ (by decide))
    simp only [render, List.cons_append, parse, hd.2, ↓reduceIte, ih, Option.map_some, hd.1]
    congr 2
    have : 48 + v / 10 ^ w % 10 - 48 = v / 10 ^ w % 10 := by omega
    rw [this, Nat.pow_succ, Nat.mod_mul, Nat.add_comm, Nat.mul_comm]
#print axioms parse_render
