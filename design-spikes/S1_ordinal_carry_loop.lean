-- spike: gregorian day count lemmas via omega
def isLeapG (y : Int) : Bool := y % 4 == 0 && (y % 100 != 0 || y % 400 == 0)
def yearLenG (y : Int) : Int := if isLeapG y then 366 else 365
/-- days from 0001-01-01 to y-01-01 -/
def dby (y : Int) : Int := 365*(y-1) + (y-1)/4 - (y-1)/100 + (y-1)/400

theorem dby_succ (y : Int) : dby (y+1) = dby y + yearLenG y := by
  unfold dby yearLenG isLeapG
  by_cases h4 : y % 4 = 0 <;> by_cases h100 : y % 100 = 0 <;> by_cases h400 : y % 400 = 0 <;>
    simp [h4, h100, h400] <;> omega

theorem dby_mono (a b : Int) (h : a < b) : dby a + 365 * (b - a) ≤ dby b := by
  unfold dby; omega

-- Python-style closed form count of multiples in range
def cntMult (k a b : Int) : Int := b / k - (a - 1) / k
theorem range_days (a b : Int) (h : a ≤ b) :
    dby (b+1) - dby a = 365*(b+1-a) + cntMult 4 a b - cntMult 100 a b + cntMult 400 a b := by
  unfold dby cntMult; omega

-- well-founded loop: ordinal carry
def carryFwd (y doy : Int) : Int × Int :=
  if h : doy > yearLenG y then carryFwd (y+1) (doy - yearLenG y) else (y, doy)
termination_by (doy - 1).toNat
decreasing_by
  have : yearLenG y ≥ 365 := by unfold yearLenG; split <;> omega
  omega

theorem carryFwd_spec (y doy : Int) (h1 : 1 ≤ doy) :
    let r := carryFwd y doy
    dby r.1 + r.2 = dby y + doy ∧ 1 ≤ r.2 ∧ r.2 ≤ yearLenG r.1 := by
  induction y, doy using carryFwd.induct with
  | case1 y doy h ih =>
    have hl : yearLenG y ≥ 365 := by unfold yearLenG; split <;> omega
    have hl2 : yearLenG y ≤ 366 := by unfold yearLenG; split <;> omega
    rw [carryFwd]; simp only [h, ↓reduceDIte]
    have := ih (by omega)
    have hs := dby_succ y
    simp only at this ⊢
    omega
  | case2 y doy h =>
    rw [carryFwd]; simp only [h, ↓reduceDIte]
    refine ⟨trivial, h1, ?_⟩
    show doy ≤ yearLenG y
    omega
#print axioms carryFwd_spec
#print axioms dby_succ
