/-! Spike: code-shaped `_get_days_in_year_range` (gregorian) refines the Spec. -/
def isLeapG (y : Int) : Bool := y % 4 == 0 && (y % 100 != 0 || y % 400 == 0)
def yearLenG (y : Int) : Int := if isLeapG y then 366 else 365
def dby (y : Int) : Int := 365*(y-1) + (y-1)/4 - (y-1)/100 + (y-1)/400

/-- the `while factor_start_year % factor != 0 and factor_start_year < end_year` loop -/
def firstMult (k : Int) (r e : Int) : Int :=
  if h : r % k ≠ 0 ∧ r < e then firstMult k (r+1) e else r
termination_by (e - r).toNat
decreasing_by omega

/-- `num_corrections` for one factor -/
def numCorr (k s e : Int) : Int :=
  let c0 := if s % k = 0 then 1 else 0
  let c1 := if e ≠ s ∧ e % k = 0 then 1 else 0
  let r := firstMult k (s+1) e
  let c2 := if r < e then 1 + (e - (r+1)) / k else 0
  c0 + c1 + c2

def rangeG (s e : Int) : Int :=
  if s = e then yearLenG s
  else if s > e then 0
  else (e + 1 - s) * 365 + numCorr 4 s e * 1 - numCorr 100 s e * 1 + numCorr 400 s e * 1

/-- loop invariant: s+1 ≤ r ≤ e and no multiple of k in [s+1, r-1] -/
theorem firstMult4 : ∀ r e s : Int, (s + 1 ≤ r ∧ r ≤ e ∧ (r-1)/4 = s/4) →
    let q := firstMult 4 r e
    s + 1 ≤ q ∧ q ≤ e ∧ (q-1)/4 = s/4 ∧ (q % 4 = 0 ∨ q = e) := by
  intro r e s
  induction r using firstMult.induct (k := 4) (e := e) with
  | case1 r h ih =>
    intro hinv
    rw [firstMult]; simp only [h, and_self, ↓reduceDIte, ne_eq, not_false_eq_true]
    apply ih; omega
  | case2 r h =>
    intro hinv
    rw [firstMult]; simp only [h, ↓reduceDIte]
    omega
theorem firstMult100 : ∀ r e s : Int, (s + 1 ≤ r ∧ r ≤ e ∧ (r-1)/100 = s/100) →
    let q := firstMult 100 r e
    s + 1 ≤ q ∧ q ≤ e ∧ (q-1)/100 = s/100 ∧ (q % 100 = 0 ∨ q = e) := by
  intro r e s
  induction r using firstMult.induct (k := 100) (e := e) with
  | case1 r h ih =>
    intro hinv
    rw [firstMult]; simp only [h, and_self, ↓reduceDIte, ne_eq, not_false_eq_true]
    apply ih; omega
  | case2 r h =>
    intro hinv
    rw [firstMult]; simp only [h, ↓reduceDIte]
    omega
theorem firstMult400 : ∀ r e s : Int, (s + 1 ≤ r ∧ r ≤ e ∧ (r-1)/400 = s/400) →
    let q := firstMult 400 r e
    s + 1 ≤ q ∧ q ≤ e ∧ (q-1)/400 = s/400 ∧ (q % 400 = 0 ∨ q = e) := by
  intro r e s
  induction r using firstMult.induct (k := 400) (e := e) with
  | case1 r h ih =>
    intro hinv
    rw [firstMult]; simp only [h, and_self, ↓reduceDIte, ne_eq, not_false_eq_true]
    apply ih; omega
  | case2 r h =>
    intro hinv
    rw [firstMult]; simp only [h, ↓reduceDIte]
    omega

theorem numCorr4 (s e : Int) (h : s < e) : numCorr 4 s e = e/4 - (s-1)/4 := by
  have := firstMult4 (s+1) e s (by omega)
  simp only at this
  unfold numCorr; simp only
  split <;> split <;> split <;> omega
theorem numCorr100 (s e : Int) (h : s < e) : numCorr 100 s e = e/100 - (s-1)/100 := by
  have := firstMult100 (s+1) e s (by omega)
  simp only at this
  unfold numCorr; simp only
  split <;> split <;> split <;> omega
theorem numCorr400 (s e : Int) (h : s < e) : numCorr 400 s e = e/400 - (s-1)/400 := by
  have := firstMult400 (s+1) e s (by omega)
  simp only at this
  unfold numCorr; simp only
  split <;> split <;> split <;> omega

theorem dby_succ (y : Int) : dby (y+1) = dby y + yearLenG y := by
  unfold dby yearLenG isLeapG
  by_cases h4 : y % 4 = 0 <;> by_cases h100 : y % 100 = 0 <;> by_cases h400 : y % 400 = 0 <;>
    simp [h4, h100, h400] <;> omega

/-- C03_range (gregorian instance) -/
theorem rangeG_spec (s e : Int) : rangeG s e = if s ≤ e then dby (e+1) - dby s else 0 := by
  unfold rangeG
  by_cases h1 : s = e
  · subst h1; simp [dby_succ]; omega
  · by_cases h2 : s > e
    · have : ¬ s ≤ e := by omega
      simp [h1, h2, this]
    · have hlt : s < e := by omega
      have : s ≤ e := by omega
      simp only [h1, h2, this, ↓reduceIte, numCorr4 s e hlt, numCorr100 s e hlt, numCorr400 s e hlt]
      unfold dby; omega
#print axioms rangeG_spec
