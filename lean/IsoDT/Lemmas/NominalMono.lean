/-
  IsoDT.Lemmas.NominalMono — nominal (month/year) addition is strictly monotone.

  A duration all of whose components are `≥ 0`, with years or months non-zero, moves every valid
  point strictly forward (by at least one day more than its exact part); its negation moves every
  valid point strictly backward.  The reason: calendar dates are laid out in month order, so a
  clamped month step to the next (previous) month lands after (before) every day of the current
  month, and likewise for years in each of the three date representations.
-/
import IsoDT.Lemmas.Nominal

namespace IsoDT.Lemmas
open IsoDT IsoDT.Model
open IsoDT.Spec (Date TZ TP)

/-! ### the durations concerned -/

/-- A single-signed, non-negative nominal interval: unit form, every component `≥ 0`, years or
    months non-zero (so it is not the zero duration and not exact). -/
def NominalNonneg : Dur → Prop
  | .weeks _ => False
  | .units y mo d h mi s => 0 ≤ y ∧ 0 ≤ mo ∧ 0 ≤ d ∧ 0 ≤ h ∧ 0 ≤ mi ∧ 0 ≤ s ∧ (y ≠ 0 ∨ mo ≠ 0)

instance (d : Dur) : Decidable (NominalNonneg d) := by
  cases d <;> unfold NominalNonneg <;> infer_instance

theorem nominalNonneg_units (d : Dur) (h : NominalNonneg d) :
    ∃ y mo dd hh mi s, d = .units y mo dd hh mi s ∧ 0 ≤ y ∧ 0 ≤ mo ∧ 0 ≤ dd ∧ 0 ≤ hh ∧ 0 ≤ mi ∧ 0 ≤ s ∧
      (y ≠ 0 ∨ mo ≠ 0) := by
  cases d with
  | weeks w => exact absurd h (by simp [NominalNonneg])
  | units y mo dd hh mi s => exact ⟨y, mo, dd, hh, mi, s, rfl, h⟩

/-! ### calendar dates are laid out in month order -/

/-- A valid calendar date in an earlier month (of any year) has a smaller day number than every
    valid date of a later month. -/
theorem dayNumCal_lt_of_monthIdx_lt (m : Mode) (y1 mo1 d1 y2 mo2 d2 : Int)
    (h1 : Spec.ValidCal m y1 mo1 d1) (h2 : Spec.ValidCal m y2 mo2 d2)
    (hlt : 12 * y1 + mo1 < 12 * y2 + mo2) :
    Spec.dayNumCal m y1 mo1 d1 < Spec.dayNumCal m y2 mo2 d2 := by
  by_cases hy : y1 = y2
  · subst hy
    obtain ⟨a1, a2, a3, a4⟩ := h1
    obtain ⟨b1, b2, b3, b4⟩ := h2
    have := dbmB_mono m (Spec.leap m y1) mo1 mo2 a1 (by omega) b2
    unfold Spec.dayNumCal Spec.dbm
    unfold Spec.monthLen at a4
    omega
  · have r1 := dayNumCal_range m y1 mo1 d1 h1
    have r2 := dayNumCal_range m y2 mo2 d2 h2
    have := dby_mono m (y1 + 1) y2 (by have := h1.1; have := h1.2.1; have := h2.1; have := h2.2.1; omega)
    omega

/-- `k ≥ 1` clamped month steps forward land strictly later, backward strictly earlier. -/
theorem specMonthSteps_dayNum (m : Mode) (fwd : Bool) (k : Nat) (hk : 1 ≤ k) (y mo d : Int)
    (h : Spec.ValidCal m y mo d) :
    (fwd = true → Spec.dayNumCal m y mo d <
      Spec.dayNumCal m (specMonthSteps m fwd k (y, mo, d)).1 (specMonthSteps m fwd k (y, mo, d)).2.1
        (specMonthSteps m fwd k (y, mo, d)).2.2) ∧
    (fwd = false → Spec.dayNumCal m (specMonthSteps m fwd k (y, mo, d)).1
        (specMonthSteps m fwd k (y, mo, d)).2.1 (specMonthSteps m fwd k (y, mo, d)).2.2 <
      Spec.dayNumCal m y mo d) := by
  obtain ⟨_, v, idx, _⟩ := monthSteps_spec m fwd k (y, mo, d) h
  constructor
  · intro hf
    subst hf
    simp only [↓reduceIte] at idx
    exact dayNumCal_lt_of_monthIdx_lt m _ _ _ _ _ _ h v (by omega)
  · intro hf
    subst hf
    simp only [Bool.false_eq_true, ↓reduceIte] at idx
    exact dayNumCal_lt_of_monthIdx_lt m _ _ _ _ _ _ v h (by omega)

/-! ### `add_months` and the year branch move the day number in the direction of the sign -/

theorem addMonths_dayNum (m : Mode) (p : TP) (n : Int) (hp : p.Strict m) :
    ∃ q, addMonths m p n = some q ∧ q.Strict m ∧ q.date.rep = p.date.rep ∧ q.tz = p.tz ∧
      q.hh = p.hh ∧ q.mi = p.mi ∧ q.ss = p.ss ∧
      (0 < n → p.date.dayNum m < q.date.dayNum m) ∧
      (n < 0 → q.date.dayNum m < p.date.dayNum m) ∧
      (n = 0 → q = p) := by
  by_cases hn : n = 0
  · subst hn
    exact ⟨p, addMonths_zero m p, hp, rfl, rfl, rfl, rfl, rfl, fun h => absurd h (by omega),
      fun h => absurd h (by omega), fun _ => rfl⟩
  · obtain ⟨y, mo, d, q, ec, vc, eq', ecq, sq, rq, tq, hq, miq, ssq⟩ := addMonths_spec m p n hn hp
    have np := (convert_back m 0 (by omega) p.date _ hp.1.1 ec).2.2.2
    have nq := (convert_back m 0 (by omega) q.date _ sq.1.1 ecq).2.2.2
    have hk : 1 ≤ n.natAbs := by omega
    obtain ⟨f1, f2⟩ := specMonthSteps_dayNum m (decide (n > 0)) n.natAbs hk y mo d vc
    refine ⟨q, eq', sq, rq, tq, hq, miq, ssq, ?_, ?_, fun h => absurd h hn⟩
    · intro hpos
      have := f1 (decide_eq_true hpos)
      rw [← np, ← nq]; exact this
    · intro hneg
      have := f2 (decide_eq_false (by omega))
      rw [← np, ← nq]; exact this

theorem addYears_dayNum (m : Mode) (p : TP) (n : Int) (hp : p.Strict m) :
    (0 < n → p.date.dayNum m < (addYears m p n).date.dayNum m) ∧
    (n < 0 → (addYears m p n).date.dayNum m < p.date.dayNum m) ∧
    (n = 0 → addYears m p n = p) := by
  obtain ⟨sq, _, _, _, _, _, hd⟩ := addYears_spec m p n hp
  have vq := sq.1.1
  have vp := hp.1.1
  refine ⟨?_, ?_, ?_⟩
  · intro hpos
    rw [hd] at vq ⊢
    cases hdt : p.date with
    | cal y mo d =>
      rw [hdt] at vq vp
      exact dayNumCal_lt_of_monthIdx_lt m _ _ _ _ _ _ vp vq (by omega)
    | ord y doy =>
      rw [hdt] at vq vp
      have vp' : Spec.ValidOrd m y doy := vp
      have vq' : Spec.ValidOrd m (y + n) (min doy (Spec.yearLen m (y + n))) := vq
      have r1 := dayNumOrd_range m _ _ vp'
      have r2 := dayNumOrd_range m _ _ vq'
      have := dby_mono m (y + 1) (y + n) (by omega)
      show Spec.dayNumOrd m y doy < Spec.dayNumOrd m (y + n) _
      omega
    | week y w d =>
      rw [hdt] at vq vp
      have vp' : Spec.ValidWeek m y w d := vp
      have vq' : Spec.ValidWeek m (y + n) (min w (Spec.weeksInYear m (y + n))) d := vq
      have := weekYearStart_le_of_lt m y (y + n) (by omega)
      have := weekYearStart_succ m y
      obtain ⟨a1, a2, a3, a4⟩ := vp'
      obtain ⟨b1, b2, b3, b4⟩ := vq'
      show Spec.dayNumWeek m y w d < Spec.dayNumWeek m (y + n) _ d
      unfold Spec.dayNumWeek
      omega
  · intro hneg
    rw [hd] at vq ⊢
    cases hdt : p.date with
    | cal y mo d =>
      rw [hdt] at vq vp
      exact dayNumCal_lt_of_monthIdx_lt m _ _ _ _ _ _ vq vp (by omega)
    | ord y doy =>
      rw [hdt] at vq vp
      have vp' : Spec.ValidOrd m y doy := vp
      have vq' : Spec.ValidOrd m (y + n) (min doy (Spec.yearLen m (y + n))) := vq
      have r1 := dayNumOrd_range m _ _ vp'
      have r2 := dayNumOrd_range m _ _ vq'
      have := dby_mono m (y + n + 1) y (by omega)
      show Spec.dayNumOrd m (y + n) _ < Spec.dayNumOrd m y doy
      omega
    | week y w d =>
      rw [hdt] at vq vp
      have vp' : Spec.ValidWeek m y w d := vp
      have vq' : Spec.ValidWeek m (y + n) (min w (Spec.weeksInYear m (y + n))) d := vq
      have := weekYearStart_le_of_lt m (y + n) y (by omega)
      have := weekYearStart_succ m (y + n)
      obtain ⟨a1, a2, a3, a4⟩ := vp'
      obtain ⟨b1, b2, b3, b4⟩ := vq'
      show Spec.dayNumWeek m (y + n) _ d < Spec.dayNumWeek m y w d
      unfold Spec.dayNumWeek
      omega
  · intro h0
    subst h0
    unfold addYears; rw [if_pos rfl]

/-! ### `p + d` for a single-signed nominal `d` -/

/-- `p + PyYmoMdDThHmiMsS` on a valid point: defined, strict, same representation and offset; if
    years and months are `≥ 0` and not both zero the result is at least one day later than `p`
    moved by the exact part alone, if they are `≤ 0` and not both zero at least one day earlier. -/
theorem addDur_units_mono (m : Mode) (p : TP) (y mo d h mi s : Int) (hv : p.Valid m) :
    ∃ q, addDur m p (.units y mo d h mi s) = some q ∧ q.Strict m ∧ q.date.rep = p.date.rep ∧
      q.tz = p.tz ∧
      (0 ≤ y → 0 ≤ mo → (y ≠ 0 ∨ mo ≠ 0) →
        p.inst m + (86400 * d + 3600 * h + 60 * mi + s) + 86400 ≤ q.inst m) ∧
      (y ≤ 0 → mo ≤ 0 → (y ≠ 0 ∨ mo ≠ 0) →
        q.inst m + 86400 ≤ p.inst m + (86400 * d + 3600 * h + 60 * mi + s)) := by
  obtain ⟨p1, e1, g1⟩ := addUnits_spec m p d h mi s hv
  obtain ⟨p2, e2, s2, r2, t2, hh2, mi2, ss2, mpos, mneg, mzero⟩ := addMonths_dayNum m p1 mo g1.strict
  obtain ⟨s3, r3, t3, hh3, mi3, ss3, _⟩ := addYears_spec m p2 y s2
  obtain ⟨ypos, yneg, yzero⟩ := addYears_dayNum m p2 y s2
  have hq : addDur m p (.units y mo d h mi s) = some (addYears m p2 y) := by
    simp only [addDur, Dur.toDays, Option.bind_eq_bind, Option.pure_def, e1, Option.bind_some, e2]
  have htz : (addYears m p2 y).tz = p1.tz := by rw [t3, t2]
  have hi : (addYears m p2 y).inst m - p1.inst m =
      86400 * ((addYears m p2 y).date.dayNum m - p1.date.dayNum m) := by
    rw [inst_diff m _ _ htz]
    unfold TP.secOfDay
    rw [hh3, mi3, ss3, hh2, mi2, ss2]; omega
  have hp1 := g1.inst
  refine ⟨_, hq, s3, by rw [r3, r2, g1.rep], by rw [htz, g1.tz], ?_, ?_⟩
  · intro hy hmo hne
    have k1 : p1.date.dayNum m ≤ p2.date.dayNum m := by
      by_cases c : mo = 0
      · rw [mzero c]; exact Int.le_refl _
      · exact Int.le_of_lt (mpos (by omega))
    have k2 : p2.date.dayNum m ≤ (addYears m p2 y).date.dayNum m := by
      by_cases c : y = 0
      · rw [yzero c]; exact Int.le_refl _
      · exact Int.le_of_lt (ypos (by omega))
    have k3 : p1.date.dayNum m < (addYears m p2 y).date.dayNum m := by
      rcases hne with c | c
      · have := ypos (by omega); omega
      · have := mpos (by omega); omega
    omega
  · intro hy hmo hne
    have k1 : p2.date.dayNum m ≤ p1.date.dayNum m := by
      by_cases c : mo = 0
      · rw [mzero c]; exact Int.le_refl _
      · exact Int.le_of_lt (mneg (by omega))
    have k2 : (addYears m p2 y).date.dayNum m ≤ p2.date.dayNum m := by
      by_cases c : y = 0
      · rw [yzero c]; exact Int.le_refl _
      · exact Int.le_of_lt (yneg (by omega))
    have k3 : (addYears m p2 y).date.dayNum m < p1.date.dayNum m := by
      rcases hne with c | c
      · have := yneg (by omega); omega
      · have := mneg (by omega); omega
    omega

/-- The exact part of a non-negative nominal interval is non-negative. -/
theorem nominalNonneg_exactSeconds (m : Mode) (d : Dur) (hd : NominalNonneg d) :
    0 ≤ d.exactSeconds m := by
  obtain ⟨y, mo, dd, hh, mi, s, rfl, _, _, h3, h4, h5, h6, _⟩ := nominalNonneg_units d hd
  simp only [Dur.exactSeconds, secondsInDay_eq, secondsInHour_eq, secondsInMinute_eq]
  omega

/-- **Monotonicity of nominal addition.**  For every valid point `p` (24:00 allowed) and every
    non-negative nominal interval `d` (years or months non-zero): `p + d` is defined, is a strict
    valid point in `p`'s representation and offset, and is strictly later than `p` — in fact at
    least one day later than `p` moved by the exact part of `d` alone. -/
theorem addDur_nominal_lt (m : Mode) (p : TP) (d : Dur) (hp : p.Valid m) (hd : NominalNonneg d) :
    ∃ q, addDur m p d = some q ∧ q.Strict m ∧ q.date.rep = p.date.rep ∧ q.tz = p.tz ∧
      p.inst m < q.inst m ∧ p.inst m + d.exactSeconds m + 86400 ≤ q.inst m := by
  have hnn := nominalNonneg_exactSeconds m d hd
  obtain ⟨y, mo, dd, hh, mi, s, rfl, h1, h2, _, _, _, _, h7⟩ := nominalNonneg_units d hd
  obtain ⟨q, e, sq, rq, tq, up, _⟩ := addDur_units_mono m p y mo dd hh mi s hp
  have := up h1 h2 h7
  have ex : (Dur.units y mo dd hh mi s).exactSeconds m = 86400 * dd + 3600 * hh + 60 * mi + s := by
    simp only [Dur.exactSeconds, secondsInDay_eq, secondsInHour_eq, secondsInMinute_eq]; omega
  rw [ex] at hnn ⊢
  exact ⟨q, e, sq, rq, tq, by omega, by omega⟩

/-- Subtracting a non-negative nominal interval: `p − d` is defined, strict, in `p`'s
    representation and offset, and strictly earlier than `p` (at least one day earlier than `p`
    moved back by the exact part alone). -/
theorem subDur_nominal_lt (m : Mode) (p : TP) (d : Dur) (hp : p.Valid m) (hd : NominalNonneg d) :
    ∃ q, subDur m p d = some q ∧ q.Strict m ∧ q.date.rep = p.date.rep ∧ q.tz = p.tz ∧
      q.inst m < p.inst m ∧ q.inst m + d.exactSeconds m + 86400 ≤ p.inst m := by
  have hnn := nominalNonneg_exactSeconds m d hd
  obtain ⟨y, mo, dd, hh, mi, s, rfl, h1, h2, _, _, _, _, h7⟩ := nominalNonneg_units d hd
  obtain ⟨q, e, sq, rq, tq, _, dn⟩ :=
    addDur_units_mono m p (y * -1) (mo * -1) (dd * -1) (hh * -1) (mi * -1) (s * -1) hp
  have := dn (by omega) (by omega) (by omega)
  have ex : (Dur.units y mo dd hh mi s).exactSeconds m = 86400 * dd + 3600 * hh + 60 * mi + s := by
    simp only [Dur.exactSeconds, secondsInDay_eq, secondsInHour_eq, secondsInMinute_eq]; omega
  rw [ex] at hnn ⊢
  exact ⟨q, e, sq, rq, tq, by omega, by omega⟩

/-- A positive integer multiple of a non-negative nominal interval is one. -/
theorem nominalNonneg_mul (d : Dur) (n : Int) (hd : NominalNonneg d) (hn : 1 ≤ n) :
    NominalNonneg (d.mul n) := by
  obtain ⟨y, mo, dd, hh, mi, s, rfl, h1, h2, h3, h4, h5, h6, h7⟩ := nominalNonneg_units d hd
  have hn0 : (0 : Int) ≤ n := by omega
  refine ⟨Int.mul_nonneg h1 hn0, Int.mul_nonneg h2 hn0, Int.mul_nonneg h3 hn0, Int.mul_nonneg h4 hn0,
    Int.mul_nonneg h5 hn0, Int.mul_nonneg h6 hn0, ?_⟩
  rcases h7 with c | c
  · exact Or.inl (Int.mul_ne_zero c (by omega))
  · exact Or.inr (Int.mul_ne_zero c (by omega))

end IsoDT.Lemmas
