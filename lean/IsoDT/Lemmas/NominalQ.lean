/-
  IsoDT.Lemmas.NominalQ — month and year arithmetic over rational hour / minute / second slots
  (`Model.TimePointQ3`).  The nominal part of `__add__` never looks at the time slots: the date of
  the result is the date the whole-second model gives on the point's date at midnight
  (`TPQ.midnight`), and the slots are carried over unchanged (projection lemmas), so the theorems
  of `Lemmas/Nominal.lean` transfer.
-/
import IsoDT.Lemmas.Nominal
import IsoDT.Lemmas.CmpQ
import IsoDT.Model.TimePointQ3

namespace IsoDT.Model
open IsoDT.Spec (Date TZ TP)

/-- The whole-second point on `p`'s date, at 00:00:00, in `p`'s offset: all that the nominal part
    of `__add__` reads of `p`. -/
def TPQ.midnight (p : TPQ) : TP := ⟨p.date, 0, 0, 0, p.tz⟩

/-- `p` with its date slots replaced (time slots, offset kept). -/
def TPQ.withDate (p : TPQ) (dt : Date) : TPQ := { p with date := dt }

end IsoDT.Model

namespace IsoDT.Lemmas
open IsoDT IsoDT.Model
open IsoDT.Spec (Date TZ TP)

/-! ### the year branch -/

/-- The whole-second year branch touches the date only, by `addYearsDate`. -/
theorem addYears_eq_date (m : Mode) (p : TP) (n : Int) :
    addYears m p n = if n = 0 then p else { p with date := addYearsDate m p.date n } := by
  obtain ⟨date, hh, mi, ss, tz⟩ := p
  unfold addYears addYearsDate
  by_cases c : n = 0
  · rw [if_pos c, if_pos c]
  · rw [if_neg c, if_neg c]; cases date <;> rfl

theorem addYears_date (m : Mode) (p : TP) (n : Int) (hn : n ≠ 0) :
    (addYears m p n).date = addYearsDate m p.date n := by
  rw [addYears_eq_date, if_neg hn]

/-- Projection for years: the rational year branch is the whole-second one on the date. -/
theorem addYearsQ_proj (m : Mode) (p : TPQ) (n : Int) :
    addYearsQ m p n = p.withDate (addYears m p.midnight n).date := by
  unfold addYearsQ TPQ.withDate
  by_cases c : n = 0
  · rw [if_pos c, addYears_eq_date, if_pos c]; rfl
  · rw [if_neg c, addYears_date m _ n c]; rfl

theorem addYearsQ_ofTP (m : Mode) (p : TP) (n : Int) :
    addYearsQ m (TPQ.ofTP p) n = TPQ.ofTP (addYears m p n) := by
  unfold addYearsQ
  rw [addYears_eq_date]
  by_cases c : n = 0
  · rw [if_pos c, if_pos c]
  · rw [if_neg c, if_neg c]; rfl

/-! ### `_tick_over` on in-range slots -/

theorem divmodQ_small (x : Rat) (n : Int) (hn : 0 < n) (h0 : 0 ≤ x) (h1 : x < (n : Rat)) :
    divmodQ x n = (0, x) := by
  have hn' : (0 : Rat) < (n : Rat) := Rat.intCast_pos.2 hn
  have hf : (x / (n : Rat)).floor = 0 := by
    apply floor_eq_of
    · apply Rat.not_lt.1
      rw [Rat.div_lt_iff hn']
      apply Rat.not_lt.2
      simpa using h0
    · rw [Rat.div_lt_iff hn', Rat.intCast_zero, Rat.zero_add, Rat.one_mul]
      exact h1
  simp only [divmodQ, hf]
  congr 1
  rw [Rat.intCast_zero, Rat.zero_mul, rat_sub_zero]

/-- On legal slots with `hh < 24` the time-of-day statements of `_tick_over` change nothing and
    carry no day. -/
theorem tickTimeQ_ok_id (m : Mode) (t : HMS) (hok : t.Ok) (hlt : t.hh < 24) :
    tickTimeQ m t = some (0, t) := by
  have c60 : ((60 : Int) : Rat) = 60 := rfl
  have c24 : ((24 : Int) : Rat) = 24 := rfl
  obtain ⟨hh, mi, ss⟩ := t
  cases mi with
  | none =>
    cases ss with
    | some s => simp [HMS.Ok] at hok
    | none =>
      simp only [HMS.Ok] at hok
      simp only [tickTimeQ, hoursInDay_eq, Option.map_some]
      rw [divmodQ_small hh 24 (by omega) hok.1 (by rw [c24]; exact hlt)]
  | some mi =>
    cases ss with
    | none =>
      simp only [HMS.Ok] at hok
      obtain ⟨ih, h0, _, m0, m1, _⟩ := hok
      rw [ih.eq_intCast] at h0 hlt ⊢
      generalize hh.num = a at h0 hlt ⊢
      simp only [tickTimeQ, hoursInDay_eq, minutesInHour_eq, Option.map_some, truncQ_intCast,
        Rat.sub_self, Rat.zero_mul, Rat.add_zero, rat_sub_zero]
      rw [divmodQ_small mi 60 (by omega) m0 (by rw [c60]; exact m1)]
      simp only [Rat.intCast_zero, Rat.add_zero]
      rw [divmodQ_small (a : Rat) 24 (by omega) h0 (by rw [c24]; exact hlt)]
    | some ss =>
      simp only [HMS.Ok] at hok
      obtain ⟨ih, im, h0, _, m0, m1, s0, s1, _⟩ := hok
      rw [ih.eq_intCast] at h0 hlt ⊢
      rw [im.eq_intCast] at m0 m1 ⊢
      generalize hh.num = a at h0 hlt ⊢
      generalize mi.num = b at m0 m1 ⊢
      simp only [tickTimeQ, hoursInDay_eq, minutesInHour_eq, secondsInMinute_eq, Option.map_some,
        truncQ_intCast, Rat.sub_self, Rat.zero_mul, Rat.add_zero, rat_sub_zero]
      rw [divmodQ_small ss 60 (by omega) s0 (by rw [c60]; exact s1)]
      simp only [Rat.intCast_zero, Rat.add_zero]
      rw [divmodQ_small (b : Rat) 60 (by omega) m0 (by rw [c60]; exact m1)]
      simp only [Rat.intCast_zero, Rat.add_zero]
      rw [divmodQ_small (a : Rat) 24 (by omega) h0 (by rw [c24]; exact hlt)]

/-! ### `add_months` -/

/-- Projection for months, unconditional form: whatever the slots hold, `add_months(n)`, `n ≠ 0`,
    is the whole-second `add_months` on the point's date at `24·nd:00:00`, where `nd` is the
    number of days the final `_tick_over()` carries out of the slots, and the slots of the result
    are the ticked-over slots. -/
theorem addMonthsQ_carry (m : Mode) (p : TPQ) (n : Int) (hn : n ≠ 0) (nd : Int) (t : HMS)
    (ht : tickTimeQ m ⟨p.hh, p.mi, p.ss⟩ = some (nd, t)) :
    addMonthsQ m p n =
      (addMonths m ⟨p.date, (calOf m).hoursInDay * nd, 0, 0, p.tz⟩ n).map
        fun q => ⟨q.date, t.hh, t.mi, t.ss, p.tz⟩ := by
  unfold addMonthsQ addMonths
  rw [if_neg hn, if_neg hn]
  cases convert m 0 p.date with
  | none => rfl
  | some c =>
    cases c with
    | ord y doy => rfl
    | week y w d => rfl
    | cal y mo d =>
      simp only [tickOverQ, ht, carryDays]
      have htz : ∀ x : TP, tickOver m x = none ∨ ∃ q, tickOver m x = some q ∧ q.tz = x.tz := by
        intro x
        unfold tickOver
        cases x.date with
        | ord y doy => exact Or.inr ⟨_, rfl, rfl⟩
        | week y w d => exact Or.inr ⟨_, rfl, rfl⟩
        | cal y mo d =>
          dsimp only
          cases tickDayOfMonth m y mo _ with
          | none => exact Or.inl rfl
          | some r => obtain ⟨a, b, c⟩ := r; exact Or.inr ⟨_, rfl, rfl⟩
      rcases htz ⟨Date.cal (monthSteps m (decide (n > 0)) n.natAbs (y, mo, d)).1
          (monthSteps m (decide (n > 0)) n.natAbs (y, mo, d)).2.1
          (monthSteps m (decide (n > 0)) n.natAbs (y, mo, d)).2.2, (calOf m).hoursInDay * nd, 0, 0, p.tz⟩ with e | ⟨q, e, _⟩
      · rw [e]; rfl
      · rw [e]
        simp only [Option.map_some]
        cases convert m p.date.rep q.date <;> rfl

/-- Projection for months on a legal point with `hh < 24` (every point `__add__` hands to
    `add_months`): the date is the whole-second model's on the point's date at midnight, the time
    slots and the offset are the input's. -/
theorem addMonthsQ_proj (m : Mode) (p : TPQ) (n : Int) (hok : p.hms.Ok) (hlt : p.hh < 24) :
    addMonthsQ m p n = (addMonths m p.midnight n).map fun q => p.withDate q.date := by
  by_cases hn : n = 0
  · subst hn
    unfold addMonthsQ
    rw [if_pos rfl, addMonths_zero]; rfl
  · rw [addMonthsQ_carry m p n hn 0 p.hms (tickTimeQ_ok_id m p.hms hok hlt)]
    have : (calOf m).hoursInDay * 0 = 0 := Int.mul_zero _
    rw [this]; rfl

theorem addMonthsQ_zero (m : Mode) (p : TPQ) : addMonthsQ m p 0 = some p := by
  unfold addMonthsQ; rw [if_pos rfl]

theorem addMonthsQ_ofTP (m : Mode) (p : TP) (n : Int) :
    addMonthsQ m (TPQ.ofTP p) n = (addMonths m p n).map TPQ.ofTP := by
  unfold addMonthsQ addMonths
  by_cases hn : n = 0
  · rw [if_pos hn, if_pos hn]; rfl
  · rw [if_neg hn, if_neg hn]
    have hd : (TPQ.ofTP p).date = p.date := rfl
    rw [hd]
    cases convert m 0 p.date with
    | none => rfl
    | some c =>
      cases c with
      | ord y doy => rfl
      | week y w d => rfl
      | cal y mo d =>
        dsimp only
        have e : ∀ dt : Date, ({ TPQ.ofTP p with date := dt } : TPQ) = TPQ.ofTP { p with date := dt } :=
          fun _ => rfl
        rw [e, tickOverQ_ofTP]
        cases tickOver m _ with
        | none => rfl
        | some q =>
          simp only [Option.map_some]
          have hq : (TPQ.ofTP q).date = q.date := rfl
          rw [hq]
          cases convert m p.date.rep q.date <;> rfl

/-! ### the whole `__add__` -/

theorem addDurQ_ofTP (m : Mode) (p : TP) (d : Dur) :
    addDurQ m (TPQ.ofTP p) (d.toNQ m) = (addDur m p d).map TPQ.ofTP := by
  have key : ∀ y mo dd h mi s : Int,
      addDurQ m (TPQ.ofTP p) ⟨y, mo, ⟨dd, (h : Rat), (mi : Rat), (s : Rat)⟩⟩ =
        (addDur m p (.units y mo dd h mi s)).map TPQ.ofTP := by
    intro y mo dd h mi s
    simp only [addDurQ, addDur, Dur.toDays, addExactQ_ofTP, Option.bind_eq_bind, Option.pure_def]
    cases addUnits m p dd h mi s with
    | none => rfl
    | some p1 =>
      simp only [Option.map_some, Option.bind_some, addMonthsQ_ofTP]
      cases addMonths m p1 mo with
      | none => rfl
      | some p2 => simp only [Option.map_some, Option.bind_some, addYearsQ_ofTP]
  cases d with
  | units y mo dd h mi s => exact key y mo dd h mi s
  | weeks w =>
    have e : addDur m p (.weeks w) = addDur m p (.units 0 0 (w * (calOf m).daysInWeek) 0 0 0) := rfl
    rw [e]
    exact key 0 0 (w * (calOf m).daysInWeek) 0 0 0

end IsoDT.Lemmas
