/-
  IsoDT.Lemmas.RecMM — recurrences with `min_point`/`max_point` (`Model.RecurrenceMM`) in terms of
  the recurrence without them: the bounds test splits, the neighbours filter, the iteration is a
  `takeWhile` of the unrestricted iteration.  No assumption on the interval or on validity here.
-/
import IsoDT.Lemmas.RecQuery
import IsoDT.Model.RecurrenceMM

namespace IsoDT.Lemmas
open IsoDT IsoDT.Model
open IsoDT.Spec (Date TZ TP)

/-- `_get_is_in_bounds` = the start/end tests and the min/max tests. -/
theorem inBoundsMM_eq (m : Mode) (r : RecMM) (p : TP) :
    inBoundsMM m r p = (inBounds m r.base p && withinMM m r p) := by
  unfold inBoundsMM inBounds withinMM
  ac_rfl

theorem withinMM_none (m : Mode) (b : Rec) (p : TP) : withinMM m ⟨b, none, none⟩ p = true := rfl

/-- The min/max tests as instants. -/
theorem withinMM_iff (m : Mode) (r : RecMM) (p : TP) (hp : p.Valid m)
    (hmin : ∀ a, r.minP = some a → a.Valid m) (hmax : ∀ b, r.maxP = some b → b.Valid m) :
    withinMM m r p = true ↔
      (∀ a, r.minP = some a → a.inst m ≤ p.inst m) ∧ (∀ b, r.maxP = some b → p.inst m ≤ b.inst m) := by
  unfold withinMM
  rw [Bool.and_eq_true]
  constructor
  · rintro ⟨h1, h2⟩
    constructor
    · intro a ha
      rw [ha] at h1
      simp only [Bool.not_eq_true'] at h1
      have := tpLt_iff m p a hp (hmin a ha)
      rw [h1] at this; simp at this; omega
    · intro b hb
      rw [hb] at h2
      simp only [Bool.not_eq_true'] at h2
      have := tpGt_iff m p b hp (hmax b hb)
      rw [h2] at this; simp at this; omega
  · rintro ⟨h1, h2⟩
    constructor
    · cases ha : r.minP with
      | none => rfl
      | some a =>
        simp only [Bool.not_eq_true']
        have h3 := tpLt_iff m p a hp (hmin a ha)
        have h4 := h1 a ha
        cases hlt : tpLt m p a
        · rfl
        · have := h3.mp hlt; omega
    · cases hb : r.maxP with
      | none => rfl
      | some b =>
        simp only [Bool.not_eq_true']
        have h3 := tpGt_iff m p b hp (hmax b hb)
        have h4 := h2 b hb
        cases hgt : tpGt m p b
        · rfl
        · have := h3.mp hgt; omega

/-- `get_next` with min/max = `get_next` without, kept only if the point is within [min, max]. -/
theorem getNextMM_eq (m : Mode) (r : RecMM) (p : TP) :
    getNextMM m r p = (getNext m r.base p).filter (withinMM m r) := by
  unfold getNextMM getNext
  by_cases h1 : r.base.reps = some 1
  · simp only [h1, ↓reduceIte, Option.filter_none]
  · simp only [h1, ↓reduceIte]
    cases hd : r.base.dur with
    | none => simp only [Option.filter_none]
    | some d =>
      simp only
      cases ha : addDur m p d with
      | none => simp only [Option.filter_none]
      | some q =>
        simp only [inBoundsMM_eq]
        cases hb : inBounds m r.base q <;> cases hw : withinMM m r q <;> simp [Option.filter, hw]

theorem getPrevMM_eq (m : Mode) (r : RecMM) (p : TP) :
    getPrevMM m r p = (getPrev m r.base p).filter (withinMM m r) := by
  unfold getPrevMM getPrev
  by_cases h1 : r.base.reps = some 1
  · simp only [h1, ↓reduceIte, Option.filter_none]
  · simp only [h1, ↓reduceIte]
    cases hd : r.base.dur with
    | none => simp only [Option.filter_none]
    | some d =>
      simp only
      cases ha : subDur m p d with
      | none => simp only [Option.filter_none]
      | some q =>
        simp only [inBoundsMM_eq]
        cases hb : inBounds m r.base q <;> cases hw : withinMM m r q <;> simp [Option.filter, hw]

/-- The unrestricted loop starts with its first point if it yields anything. -/
theorem iterFrom_head_inBounds (m : Mode) (r : Rec) (rev : Bool) (fuel : Nat) (q : TP)
    (hq : inBounds m r q = true) :
    iterFrom m r rev (fuel + 1) q =
      q :: (match (if rev then getPrev m r q else getNext m r q) with
            | some q' => iterFrom m r rev fuel q'
            | none => []) := by
  simp only [iterFrom, hq, ↓reduceIte]
  rfl

/-- The points `get_next`/`get_prev` return are within the start/end bounds. -/
theorem step_inBounds (m : Mode) (r : Rec) (rev : Bool) (p q : TP)
    (h : (if rev then getPrev m r p else getNext m r p) = some q) : inBounds m r q = true := by
  cases rev with
  | true =>
    simp only [↓reduceIte] at h
    unfold getPrev at h
    split at h
    · cases h
    · split at h
      · cases h
      · split at h
        · split at h
          · cases h; assumption
          · cases h
        · cases h
  | false =>
    simp only [Bool.false_eq_true, ↓reduceIte] at h
    unfold getNext at h
    split at h
    · cases h
    · split at h
      · cases h
      · split at h
        · split at h
          · cases h; assumption
          · cases h
        · cases h

/-- **The loop of `__iter__` with min/max is the longest prefix of the loop without them whose
    points are all within [min, max]** (any interval, any points). -/
theorem iterFromMM_eq_takeWhile (m : Mode) (r : RecMM) (rev : Bool) : ∀ (fuel : Nat) (p : TP),
    iterFromMM m r rev fuel p = (iterFrom m r.base rev fuel p).takeWhile (withinMM m r) := by
  intro fuel
  induction fuel with
  | zero => intro p; rfl
  | succ fuel ih =>
    intro p
    simp only [iterFromMM, iterFrom, inBoundsMM_eq]
    cases hb : inBounds m r.base p with
    | false => simp
    | true =>
      cases hw : withinMM m r p with
      | false => simp [hw]
      | true =>
        simp only [Bool.and_self, ↓reduceIte, List.takeWhile_cons, hw]
        congr 1
        have hstep : (if rev = true then getPrevMM m r p else getNextMM m r p) =
            (if rev = true then getPrev m r.base p else getNext m r.base p).filter (withinMM m r) := by
          cases rev
          · simp only [Bool.false_eq_true, ↓reduceIte, getNextMM_eq]
          · simp only [↓reduceIte, getPrevMM_eq]
        rw [hstep]
        cases hn : (if rev = true then getPrev m r.base p else getNext m r.base p) with
        | none => simp
        | some q =>
          have hqb := step_inBounds m r.base rev p q hn
          cases hwq : withinMM m r q with
          | true => simp only [Option.filter, hwq, ↓reduceIte]; exact ih q
          | false =>
            simp only [Option.filter, hwq, Bool.false_eq_true, ↓reduceIte]
            cases fuel with
            | zero => rfl
            | succ k =>
              rw [iterFrom_head_inBounds m r.base rev k q hqb]
              simp [hwq]

/-- **`__iter__` with min/max = the longest prefix of `__iter__` without them whose points are all
    within [min, max]** (any recurrence, any amount of iteration). -/
theorem iterMM_eq_takeWhile (m : Mode) (r : RecMM) (fuel : Nat) :
    iterMM m r fuel = (iter m r.base fuel).takeWhile (withinMM m r) := by
  cases hp : (if r.base.start.isNone = true then r.base.end_ else r.base.start) with
  | none => unfold iterMM iter; simp only [hp, List.takeWhile_nil]
  | some p =>
    unfold iterMM iter
    simp only [hp]
    have single : (if fuel = 0 then [] else if inBoundsMM m r p = true then [p] else []) =
        List.takeWhile (withinMM m r) (if fuel = 0 then [] else if inBounds m r.base p = true then [p] else []) := by
      by_cases hf : fuel = 0
      · simp [hf]
      · simp only [hf, ↓reduceIte, inBoundsMM_eq]
        cases inBounds m r.base p <;> cases hw : withinMM m r p <;> simp [hw]
    cases hd : r.base.dur with
    | none => simp only [Bool.or_true, ↓reduceIte]; exact single
    | some d =>
      simp only
      cases hc : (r.base.reps == some 1 || !d.nonzero) with
      | true => simp only [↓reduceIte]; exact single
      | false =>
        simp only [Bool.false_eq_true, ↓reduceIte]
        exact iterFromMM_eq_takeWhile m r _ fuel p

/-! ### list facts -/

theorem takeWhile_all {α : Type} (f : α → Bool) (hf : ∀ x, f x = true) : ∀ l : List α, l.takeWhile f = l := by
  intro l
  induction l with
  | nil => rfl
  | cons x rest ih => rw [List.takeWhile_cons, hf x]; simp only [↓reduceIte, ih]

/-- Reading `takeWhile` pointwise: index `k` survives iff all of `0..k` satisfy the test. -/
theorem takeWhile_getElem?_iff {α : Type} (f : α → Bool) : ∀ (l : List α) (k : Nat) (p : α),
    (l.takeWhile f)[k]? = some p ↔
      l[k]? = some p ∧ ∀ j, j ≤ k → ∀ q, l[j]? = some q → f q = true := by
  intro l
  induction l with
  | nil => intro k p; simp
  | cons x rest ih =>
    intro k p
    rw [List.takeWhile_cons]
    cases hx : f x with
    | false =>
      simp only [Bool.false_eq_true, ↓reduceIte, List.getElem?_nil, reduceCtorEq, false_iff, not_and]
      intro _ hall
      have := hall 0 (Nat.zero_le k) x (by simp)
      rw [hx] at this; cases this
    | true =>
      simp only [↓reduceIte]
      cases k with
      | zero =>
        simp only [List.getElem?_cons_zero, Option.some.injEq, Nat.le_zero_eq]
        constructor
        · intro h; refine ⟨h, ?_⟩
          intro j hj q hq; subst hj
          simp only [List.getElem?_cons_zero, Option.some.injEq] at hq
          rw [← hq]; exact hx
        · intro h; exact h.1
      | succ k =>
        simp only [List.getElem?_cons_succ]
        rw [ih k p]
        constructor
        · rintro ⟨h1, h2⟩
          refine ⟨h1, ?_⟩
          intro j hj q hq
          cases j with
          | zero => simp only [List.getElem?_cons_zero, Option.some.injEq] at hq; rw [← hq]; exact hx
          | succ j => simp only [List.getElem?_cons_succ] at hq; exact h2 j (by omega) q hq
        · rintro ⟨h1, h2⟩
          refine ⟨h1, ?_⟩
          intro j hj q hq
          exact h2 (j + 1) (by omega) q (by simp only [List.getElem?_cons_succ]; exact hq)

theorem mem_takeWhile_true {α : Type} (f : α → Bool) : ∀ (l : List α) (x : α),
    x ∈ l.takeWhile f → f x = true := by
  intro l
  induction l with
  | nil => intro x h; cases h
  | cons y rest ih =>
    intro x h
    rw [List.takeWhile_cons] at h
    cases hy : f y with
    | false => rw [hy] at h; cases h
    | true =>
      rw [hy] at h
      rcases List.mem_cons.mp h with rfl | h
      · exact hy
      · exact ih x h

theorem takeWhile_head_false {α : Type} (f : α → Bool) (l : List α) (x : α) (h : l.head? = some x)
    (hx : f x = false) : l.takeWhile f = [] := by
  cases l with
  | nil => rfl
  | cons y rest =>
    simp only [List.head?_cons, Option.some.injEq] at h
    subst h
    rw [List.takeWhile_cons, hx]; rfl

/-! ### prefixes of a series -/

theorem seriesOK_takeWhile (m : Mode) (rep : Nat) (tz : TZ) (f : TP → Bool) : ∀ (l : List TP) (i0 step : Int),
    SeriesOK m rep tz l i0 step → SeriesOK m rep tz (l.takeWhile f) i0 step := by
  intro l
  induction l with
  | nil => intro _ _ h; exact h
  | cons p rest ih =>
    intro i0 step hs
    obtain ⟨h1, h2, h3, h4, h5⟩ := hs
    rw [List.takeWhile_cons]
    cases f p with
    | true => exact ⟨h1, h2, h3, h4, ih _ _ h5⟩
    | false => trivial

theorem seriesOK_take (m : Mode) (rep : Nat) (tz : TZ) : ∀ (k : Nat) (l : List TP) (i0 step : Int),
    SeriesOK m rep tz l i0 step → SeriesOK m rep tz (l.take k) i0 step := by
  intro k
  induction k with
  | zero => intro l _ _ _; trivial
  | succ k ih =>
    intro l i0 step hs
    cases l with
    | nil => trivial
    | cons p rest =>
      obtain ⟨h1, h2, h3, h4, h5⟩ := hs
      exact ⟨h1, h2, h3, h4, ih _ _ _ h5⟩

end IsoDT.Lemmas
