/-
  IsoDT.Lemmas.TextCustomZone — the LITERAL zone of a custom dump format, in all its spellings
  (`±hh:mm`, `±hhmm`, `±hh`): how `_get_expression_and_properties` cuts it off the time
  (`tzSplit_lit`), what `get_time_zone` reads it as (`getTimeZone_litZone`: exactly the offset,
  `-00:30` / `-0030` included), and what the zone substitution rules make of it
  (`compile_zone_lit`: a leading `+` becomes the point's zone sign, `-` and the digits stay).
  The digits are symbolic throughout: the lemmas are about a sign followed by any non-empty string of
  digits and colons.
-/
import IsoDT.Lemmas.TextCustomDefs
import IsoDT.Lemmas.TextDumpZone

namespace IsoDT.Text.Custom
open IsoDT IsoDT.Model IsoDT.Lemmas IsoDT.Text
open IsoDT.Spec (Date TZ TP)
open _root_.IsoDT.Gen.Templates (timeDesignator dumper_0 dumper_2 dumper_3 dumpTables parserTables)

/-! ## Strings of digits and colons -/

/-- A digit or a colon: the characters of a literal zone after its sign. -/
def ZChar (c : Char) : Prop := isDigit c = true ∨ c = ':'

theorem ZChar.ne {c : Char} (h : ZChar c) (x : Char) (hx : isDigit x = false) (hx' : x ≠ ':') : c ≠ x := by
  rcases h with h | h
  · intro e; subst e; rw [h] at hx; cases hx
  · intro e; subst e; exact hx' h

theorem zchars_of_digits (l : List Char) (h : l.all isDigit = true) : ∀ c ∈ l, ZChar c :=
  fun c hc => Or.inl (all_digits_mem l h c hc)

theorem zoneDigits_zchars (ext : Bool) (s : ZStyle) (z : TZ) : ∀ c ∈ zoneDigits ext s z, ZChar c := by
  intro c hc
  unfold zoneDigits at hc
  cases s with
  | h =>
    simp only [List.append_nil] at hc
    exact zchars_of_digits _ (renderNat_digits _ _) c hc
  | hm =>
    simp only [List.mem_append] at hc
    rcases hc with hc | hc | hc
    · exact zchars_of_digits _ (renderNat_digits _ _) c hc
    · cases ext
      · simp at hc
      · simp only [if_true, List.mem_singleton] at hc; exact Or.inr hc
    · exact zchars_of_digits _ (renderNat_digits _ _) c hc

theorem zoneDigits_cons (ext : Bool) (s : ZStyle) (z : TZ) :
    ∃ d rest, zoneDigits ext s z = d :: rest := by
  obtain ⟨a, b, hab, _, _⟩ := renderNat_two z.h.natAbs
  unfold zoneDigits
  rw [hab]
  exact ⟨a, _, rfl⟩

theorem zsign_cases (z : TZ) : zsign z = '+' ∨ zsign z = '-' := by
  unfold zsign; split
  · exact Or.inr rfl
  · exact Or.inl rfl

theorem notMem_lit (sg : Char) (hsg : sg = '+' ∨ sg = '-') (L : List Char) (hL : ∀ c ∈ L, ZChar c)
    (x : Char) (hx : isDigit x = false) (h1 : x ≠ '+') (h2 : x ≠ '-') (h3 : x ≠ ':') : x ∉ sg :: L := by
  intro h
  rcases List.mem_cons.mp h with h | h
  · rcases hsg with e | e <;> rw [e] at h
    · exact h1 h
    · exact h2 h
  · exact (hL x h).ne x hx h3 rfl

/-! ## `get_time_zone` on the three spellings -/

def zTmplBasic : Template := [.sign .tzSign, .digits .tzHour 2, .digits .tzMinute 2]
def zTmplHour : Template := [.sign .tzSign, .digits .tzHour 2]

/-- The regular expression a numeric zone of the given notation and style matches. -/
def zoneTmplOf (ext : Bool) : ZStyle → Template
  | .hm => if ext then zTmplOff else zTmplBasic
  | .h => zTmplHour

/-- The groups a numeric zone spells. -/
def zoneEnvOf' (s : ZStyle) (z : TZ) : Env :=
  match s with
  | .hm => litZoneEnv z
  | .h => [(.tzSign, [zsign z]), (.tzHour, renderNat 2 z.h.natAbs)]

theorem litZone_render (ext : Bool) (s : ZStyle) (z : TZ) :
    zsign z :: zoneDigits ext s z = trender (zoneTmplOf ext s) (zoneEnvOf' s z) := by
  cases s <;> cases ext <;>
    simp [zoneDigits, zoneTmplOf, zoneEnvOf', zTmplOff, zTmplBasic, zTmplHour, litZoneEnv, trender, zsign]

theorem fits_zoneOf (ext : Bool) (s : ZStyle) (z : TZ) :
    fits (zoneTmplOf ext s) (zoneEnvOf' s z) = true := by
  cases s <;> cases ext <;>
    simp [zoneTmplOf, zoneEnvOf', zTmplOff, zTmplBasic, zTmplHour, litZoneEnv, fits, renderNat_length,
      renderNat_digits, zsign] <;> omega

/-- The processed zone: hours and minutes carry the sign; the hours-only style has NO minutes. -/
theorem processZone_zoneOf (zd : ZoneDefault) (s : ZStyle) (z : TZ) (hz : z.Valid) :
    processZone zd (zoneEnvOf' s z) =
      some ⟨some z.h, match s with | .hm => some z.mi | .h => none⟩ := by
  cases s with
  | hm => exact processZone_litZoneEnv zd z hz
  | h =>
    unfold TZ.Valid at hz
    have hh : intOf? (renderNat 2 z.h.natAbs) = some (z.h.natAbs : Int) :=
      intOf_renderNat 2 _ (by decide) (by omega)
    unfold zoneEnvOf' zsign
    by_cases hneg : z.h < 0 ∨ z.mi < 0
    · simp [processZone, Env.has, Env.get?, hh, hneg]
      omega
    · simp [processZone, Env.has, Env.get?, hh, hneg]
      omega

/-- The default parser (the one `get_time_zone` uses) lists the three numeric zone forms. -/
theorem defaultTables_zone (ext : Bool) (s : ZStyle) :
    ∃ ze ∈ defaultTables.zoneEntries, ze.tmpl = zoneTmplOf ext s := by
  cases s <;> cases ext <;> decide +kernel

/-- **`get_time_zone`** reads a literal numeric zone — `±hh:mm`, `±hhmm` or `±hh`; every legal offset,
    `-00:30` / `-0030` (zero hours, negative minutes) included — as exactly that offset. -/
theorem getTimeZone_litZone (ext : Bool) (s : ZStyle) (z : TZ) (hz : z.Valid) (hs : s = .h → z.mi = 0) :
    getTimeZone (zsign z :: zoneDigits ext s z) = some (z.h, z.mi) := by
  obtain ⟨ze, hze, hzt⟩ := defaultTables_zone ext s
  obtain ⟨e', he', _⟩ := getZoneInfo_rendered defaultTables (tableFacts _ defaultTables_mem) ze hze []
    rfl (zoneEnvOf' s z) (by rw [hzt]; exact fits_zoneOf ext s z)
  unfold getTimeZone
  rw [litZone_render, ← hzt, he']
  simp only [processZone_zoneOf .unknown s z hz]
  cases s with
  | hm => rfl
  | h => simp [hs rfl]

/-- `get_time_zone("Z")`. -/
theorem getTimeZone_Z : getTimeZone ['Z'] = some (0, 0) := by decide +kernel

/-! ## Cutting the literal zone off the time -/

theorem hasInfix_notMem (p : Char) (ps l : List Char) (h : p ∉ l) : hasInfix (p :: ps) l = false := by
  induction l with
  | nil => rfl
  | cons c l ih =>
    simp only [List.mem_cons, not_or] at h
    simp [hasInfix, stripPrefix, h.1, ih h.2]

theorem hasInfix_append (p : Char) (ps T R : List Char) (h : p ∉ T) :
    hasInfix (p :: ps) (T ++ R) = hasInfix (p :: ps) R := by
  induction T with
  | nil => rfl
  | cons c T ih =>
    simp only [List.mem_cons, not_or] at h
    show hasInfix (p :: ps) (c :: (T ++ R)) = _
    simp [hasInfix, stripPrefix, h.1, ih h.2]

/-- **The split** of the text after the `T`: a time expression without `Z`, `+`, `-` followed by a
    literal zone — a sign and a non-empty string of digits and colons — is cut exactly at the sign, and
    the zone text is handed to `get_time_zone`. -/
theorem tzSplit_lit (t0 : Char) (T : List Char) (hT : ∀ c ∈ t0 :: T, Plain c)
    (sg : Char) (hsg : sg = '+' ∨ sg = '-') (d : Char) (L : List Char) (hL : ∀ c ∈ d :: L, ZChar c) :
    tzSplit ((t0 :: T) ++ sg :: d :: L) = some (t0 :: T, sg :: d :: L, getTimeZone (sg :: d :: L)) := by
  have hTZ : 'Z' ∉ t0 :: T := fun h => (hT _ h).1 rfl
  have hTp : '+' ∉ t0 :: T := fun h => (hT _ h).2.1 rfl
  have hTm : '-' ∉ t0 :: T := fun h => (hT _ h).2.2 rfl
  have hLZ : 'Z' ∉ d :: L := fun h => (hL _ h).ne 'Z' (by decide) (by decide) rfl
  have hLp : '+' ∉ d :: L := fun h => (hL _ h).ne '+' (by decide) (by decide) rfl
  have hLm : '-' ∉ d :: L := fun h => (hL _ h).ne '-' (by decide) (by decide) rfl
  have hdh : d ≠ 'h' := (hL d List.mem_cons_self).ne 'h' (by decide) (by decide)
  have hlast : ¬ (((t0 :: T) ++ sg :: d :: L).getLast? = some 'Z') := by
    obtain ⟨c, h1, h2⟩ := getLast_cons_mem sg (d :: L)
    have : ((t0 :: T) ++ sg :: d :: L).getLast? = some c := by
      rw [List.getLast?_append, h1]; rfl
    rw [this]
    intro h
    injection h with h
    subst h
    rcases List.mem_cons.mp h2 with h | h
    · rcases hsg with h' | h' <;> rw [h'] at h <;> exact absurd h (by decide)
    · exact hLZ h
  have hinfix : hasInfix ['+', 'h', 'h'] ((t0 :: T) ++ sg :: d :: L) = false := by
    rw [hasInfix_append _ _ _ _ hTp]
    have h2 : hasInfix ['+', 'h', 'h'] (d :: L) = false := hasInfix_notMem _ _ _ hLp
    have hd' : ¬ 'h' = d := fun e => hdh e.symm
    show ((stripPrefix ['+', 'h', 'h'] (sg :: d :: L)).isSome || hasInfix ['+', 'h', 'h'] (d :: L)) = false
    rw [h2]
    simp [stripPrefix, hd']
  unfold tzSplit
  rw [if_neg hlast, hinfix]
  simp only [Bool.false_eq_true, if_false]
  rcases hsg with rfl | rfl
  · have hc : ((t0 :: T) ++ '+' :: d :: L).contains '+' = true := by simp
    rw [hc, splitOnChar_one '+' _ _ hTp hLp]
    simp
  · have hc : ((t0 :: T) ++ '-' :: d :: L).contains '+' = false := by
      simp only [List.contains_eq_mem, List.mem_append, List.mem_cons, decide_eq_false_iff_not, not_or]
      simp only [List.mem_cons, not_or] at hTp hLp
      exact ⟨⟨hTp.1, hTp.2⟩, by decide, hLp.1, hLp.2⟩
    have ht0 : t0 ≠ '-' := fun e => hTm (by rw [e]; exact List.mem_cons_self)
    have hd : (((t0 :: T) ++ '-' :: d :: L).dropWhile (· = '-')).contains '-' = true := by
      simp [ht0]
    rw [hc, hd, splitOnChar_one '-' _ _ hTm hLm]
    simp

/-! ## The zone substitution rules on the literal zone -/

theorem matchesAt_head_ne (r : DumpRule) (c : Char) (cs : List Char) (hp : r.pat = c :: cs) (s : Seg)
    (hs : s ≠ Seg.raw c) (rest : List Seg) : matchesAt r (s :: rest) = false := by
  unfold matchesAt
  rw [hp]
  cases s with
  | dir o => simp [matchRaw]
  | raw x =>
    have : ¬ c = x := fun e => hs (by rw [e])
    simp [matchRaw, this]

theorem scan_absent (r : DumpRule) (c : Char) (cs : List Char) (hp : r.pat = c :: cs)
    (S : List Seg) (hS : ∀ s ∈ S, s ≠ Seg.raw c) : scan r 0 S = S := by
  induction S with
  | nil => rfl
  | cons s rest ih =>
    have hm := matchesAt_head_ne r c cs hp s (hS s List.mem_cons_self) rest
    simp only [scan, hm, Bool.false_eq_true, if_false]
    rw [ih (fun x hx => hS x (List.mem_cons_of_mem _ hx))]

theorem occurs_absent (r : DumpRule) (c : Char) (cs : List Char) (hp : r.pat = c :: cs)
    (S : List Seg) (hS : ∀ s ∈ S, s ≠ Seg.raw c) : occurs r S = false := by
  induction S with
  | nil => rfl
  | cons s rest ih =>
    have hm := matchesAt_head_ne r c cs hp s (hS s List.mem_cons_self) rest
    simp only [occurs, hm, Bool.false_or]
    exact ih (fun x hx => hS x (List.mem_cons_of_mem _ hx))

/-- An unanchored rule whose first pattern character does not occur leaves the string alone. -/
theorem applyRule_absent (r : DumpRule) (c : Char) (cs : List Char) (hp : r.pat = c :: cs)
    (ha : r.anchored = false) (S : List Seg) (hS : ∀ s ∈ S, s ≠ Seg.raw c) :
    applyRule r S = (S, false) := by
  unfold applyRule
  simp [hp, ha, scan_absent r c cs hp S hS, occurs_absent r c cs hp S hS]

theorem zone_rules_same : ∀ dt ∈ dumpTables, dt.zone = dumper_0.zone := by decide +kernel

/-- What the zone rules make of a literal zone: a leading `+` becomes the point's zone sign; a `-`
    and the digits (and colon) stay as they are. -/
def litSegs (sg : Char) (L : List Char) : List Seg :=
  (if sg = '+' then Seg.dir (.str .tzSign) else Seg.raw sg) :: L.map Seg.raw

def litProps (sg : Char) : List DProp := if sg = '+' then [.tzSign] else []

theorem raw_ne_of_zchars (L : List Char) (hL : ∀ c ∈ L, ZChar c) (x : Char) (hx : isDigit x = false)
    (hx' : x ≠ ':') : ∀ s ∈ L.map Seg.raw, s ≠ Seg.raw x := by
  intro s hs
  obtain ⟨c, hc, rfl⟩ := List.mem_map.mp hs
  intro e
  injection e with e
  exact (hL c hc).ne x hx hx' e

theorem compile_zone_lit (dt : DumpTables) (hdt : dt ∈ dumpTables) (sg : Char) (hsg : sg = '+' ∨ sg = '-')
    (L : List Char) (hL : ∀ c ∈ L, ZChar c) :
    compile dt.zone ((sg :: L).map Seg.raw) = (litSegs sg L, litProps sg) := by
  rw [zone_rules_same dt hdt]
  have nm := raw_ne_of_zchars L hL 'm' (by decide) (by decide)
  have nh := raw_ne_of_zchars L hL 'h' (by decide) (by decide)
  have np := raw_ne_of_zchars L hL '+' (by decide) (by decide)
  have nZ := raw_ne_of_zchars L hL 'Z' (by decide) (by decide)
  rcases hsg with rfl | rfl
  · -- `+`: the sign rule fires at the head
    have all (x : Char) (hx : x ≠ '+') (h : ∀ s ∈ L.map Seg.raw, s ≠ Seg.raw x) :
        ∀ s ∈ ('+' :: L).map Seg.raw, s ≠ Seg.raw x := by
      intro s hs
      simp only [List.map_cons, List.mem_cons] at hs
      rcases hs with rfl | hs
      · intro e; injection e with e; exact hx e.symm
      · exact h s hs
    have r1 := applyRule_absent ⟨false, [], ['m', 'm'], [], [.int .tzMinuteAbs 2], some .tzMinuteAbs⟩
      'm' ['m'] rfl rfl _ (all 'm' (by decide) nm)
    have r3 := applyRule_absent ⟨false, [], ['h', 'h'], [], [.int .tzHourAbs 2], some .tzHourAbs⟩
      'h' ['h'] rfl rfl _ (all 'h' (by decide) nh)
    have r4 : applyRule ⟨false, [], ['+'], [], [.str .tzSign], some .tzSign⟩ (('+' :: L).map Seg.raw) =
        (Seg.dir (.str .tzSign) :: L.map Seg.raw, true) := by
      have hsc := (applyRule_absent ⟨false, [], ['+'], [], [.str .tzSign], some .tzSign⟩
        '+' [] rfl rfl _ np)
      simp only [applyRule, List.isEmpty_cons, Bool.false_eq_true, if_false, Prod.mk.injEq] at hsc
      simp [applyRule, scan, occurs, matchesAt, matchRaw, outSegs, hsc.1]
    have r5 := applyRule_absent ⟨false, [], ['Z'], [], [.lit 'Z'], none⟩
      'Z' [] rfl rfl (Seg.dir (.str .tzSign) :: L.map Seg.raw) (by
        intro s hs
        rcases List.mem_cons.mp hs with rfl | hs
        · intro e; cases e
        · exact nZ s hs)
    simp only [dumper_0, compile, r1, r3, r4, r5, litSegs, litProps, if_true]
    rfl
  · have all (x : Char) (hx : x ≠ '-') (h : ∀ s ∈ L.map Seg.raw, s ≠ Seg.raw x) :
        ∀ s ∈ ('-' :: L).map Seg.raw, s ≠ Seg.raw x := by
      intro s hs
      simp only [List.map_cons, List.mem_cons] at hs
      rcases hs with rfl | hs
      · intro e; injection e with e; exact hx e.symm
      · exact h s hs
    have r1 := applyRule_absent ⟨false, [], ['m', 'm'], [], [.int .tzMinuteAbs 2], some .tzMinuteAbs⟩
      'm' ['m'] rfl rfl _ (all 'm' (by decide) nm)
    have r3 := applyRule_absent ⟨false, [], ['h', 'h'], [], [.int .tzHourAbs 2], some .tzHourAbs⟩
      'h' ['h'] rfl rfl _ (all 'h' (by decide) nh)
    have r4 := applyRule_absent ⟨false, [], ['+'], [], [.str .tzSign], some .tzSign⟩
      '+' [] rfl rfl _ (all '+' (by decide) np)
    have r5 := applyRule_absent ⟨false, [], ['Z'], [], [.lit 'Z'], none⟩
      'Z' [] rfl rfl _ (all 'Z' (by decide) nZ)
    simp only [dumper_0, compile, r1, r3, r4, r5, litSegs, litProps]
    simp

/-- **The text after the `T`** of a format with a literal zone: the time tokens compiled, the literal
    zone kept (its `+` turned into the zone sign), and the offset it spells handed on as
    `custom_time_zone`. -/
theorem timeZonePart_lit (dt : DumpTables) (hdt : dt ∈ dumpTables) (t0 : Char) (T : List Char)
    (hT : ∀ c ∈ t0 :: T, Plain c) (sg : Char) (hsg : sg = '+' ∨ sg = '-') (d : Char) (L : List Char)
    (hL : ∀ c ∈ d :: L, ZChar c) :
    timeZonePart dt ((t0 :: T) ++ sg :: d :: L) =
      some ((compile dt.time ((t0 :: T).map Seg.raw)).1 ++ litSegs sg (d :: L),
            (compile dt.time ((t0 :: T).map Seg.raw)).2 ++ litProps sg, getTimeZone (sg :: d :: L)) := by
  unfold timeZonePart
  rw [tzSplit_lit t0 T hT sg hsg d L hL]
  simp only
  rw [compile_zone_lit dt hdt sg hsg (d :: L) hL]

end IsoDT.Text.Custom
