/-
  IsoDT.Lemmas.DurTextQFloat — the concrete `pyFloat` / `reprDec` of `Model.DurTextQ` on decimal
  texts `digits` and `digits.digits`, and the instances of the float laws on the eighths
  `k/8, k < 2^20` (`floatText_eighths`, `floatDec_eighths`): the hypotheses of the C10 theorems on
  decimal components are satisfiable by the functions the driver is validated with.
-/
import IsoDT.Lemmas.DurTextQ

namespace IsoDT.Lemmas.DurTextQFloat
open IsoDT IsoDT.Model IsoDT.Model.DurText IsoDT.Model.DurTextQ IsoDT.Gen IsoDT.Lemmas IsoDT.Lemmas.DurText
  IsoDT.Lemmas.DurTextQ

/-! ### `float(text)` on a clean decimal text -/

/-- A character of a plain decimal text: a digit or the point. -/
def DecCh (c : Char) : Prop := isDig c = true ∨ c = '.'

theorem decCh_not_ws (c : Char) (h : DecCh c) : isWs c = false := by
  rcases h with h | rfl
  · have := (isDig_iff c).mp h
    simp only [isWs, Bool.or_eq_false_iff, Bool.and_eq_false_iff, decide_eq_false_iff_not, beq_eq_false_iff_ne]
    omega
  · decide

theorem decCh_ne_us (c : Char) (h : DecCh c) : c ≠ '_' := by
  rcases h with h | rfl
  · exact dig_ne_of c _ h (by decide)
  · decide

theorem dropWhile_ws_id (t : List Char) (h : ∀ c ∈ t, DecCh c) : t.dropWhile isWs = t := by
  cases t with
  | nil => rfl
  | cons c cs => simp [List.dropWhile, decCh_not_ws c (h c (by simp))]

theorem dropTrailWs_id (t : List Char) (h : ∀ c ∈ t, DecCh c) : dropTrailWs t = t := by
  induction t with
  | nil => rfl
  | cons c cs ih =>
    have ih' := ih (fun x hx => h x (by simp [hx]))
    have hc := decCh_not_ws c (h c (by simp))
    unfold dropTrailWs
    rw [ih']
    cases cs with
    | nil => simp [hc]
    | cons d ds => rfl

theorem stripWs_id (t : List Char) (h : ∀ c ∈ t, DecCh c) : stripWs t = t := by
  unfold stripWs
  rw [dropWhile_ws_id t h, dropTrailWs_id t h]

theorem deUnderscore_id (t : List Char) (h : ∀ c ∈ t, DecCh c) (prev : Char) (hp : prev ≠ '_') :
    deUnderscore prev t = some t := by
  induction t generalizing prev with
  | nil => simp [deUnderscore, hp]
  | cons c cs ih =>
    have hc := decCh_ne_us c (h c (by simp))
    have := ih (fun x hx => h x (by simp [hx])) c hc
    simp [deUnderscore, hc, hp, this]

theorem takeWhile_digs (a : List Char) (c : Char) (r : List Char) (ha : Digs a) (hc : isDig c = false) :
    (a ++ c :: r).takeWhile isDig = a ∧ (a ++ c :: r).dropWhile isDig = c :: r := by
  induction a with
  | nil => simp [hc]
  | cons d ds ih =>
    have := ih ha.tail
    simp [ha.head, this]

theorem takeWhile_digs_all (a : List Char) (ha : Digs a) :
    a.takeWhile isDig = a ∧ a.dropWhile isDig = [] := by
  induction a with
  | nil => simp
  | cons d ds ih =>
    have := ih ha.tail
    simp [ha.head, this]

theorem takeSign_dig (d : Char) (r : List Char) (h : isDig d = true) : takeSign (d :: r) = (false, d :: r) := by
  have h1 : d ≠ '-' := dig_ne_of d _ h (by decide)
  have h2 : d ≠ '+' := dig_ne_of d _ h (by decide)
  unfold takeSign
  split
  · rename_i heq; injection heq with e _; exact absurd e h1
  · rename_i heq; injection heq with e _; exact absurd e h2
  · rfl

theorem parseDecLit_point (a b : List Char) (ha : Digs a) (hne : a ≠ []) (hb : Digs b) :
    parseDecLit (a ++ '.' :: b) = some ⟨false, a, b, 0⟩ := by
  cases a with
  | nil => exact absurd rfl hne
  | cons d a' =>
    have t1 := takeWhile_digs (d :: a') '.' b ha (by decide)
    have t2 := takeWhile_digs_all b hb
    unfold parseDecLit
    rw [show (d :: a') ++ '.' :: b = d :: (a' ++ '.' :: b) from rfl, takeSign_dig d _ ha.head]
    simp only [List.cons_append] at t1
    simp only [t1.1, t1.2, t2.1, t2.2]
    simp

theorem parseDecLit_digits (a : List Char) (ha : Digs a) (hne : a ≠ []) :
    parseDecLit a = some ⟨false, a, [], 0⟩ := by
  cases a with
  | nil => exact absurd rfl hne
  | cons d a' =>
    have t2 := takeWhile_digs_all (d :: a') ha
    unfold parseDecLit
    rw [takeSign_dig d _ ha.head]
    simp only [t2.1, t2.2]
    simp

theorem pyFloat_point (a b : List Char) (ha : Digs a) (hne : a ≠ []) (hb : Digs b) :
    pyFloat (a ++ '.' :: b) = decToF64 false (digitsVal (a ++ b)) (a ++ b).length (0 - (b.length : Int)) := by
  have hch : ∀ c ∈ a ++ '.' :: b, DecCh c := by
    intro c hc
    simp only [List.mem_append, List.mem_cons] at hc
    rcases hc with hc | hc | hc
    · exact Or.inl (ha c hc)
    · exact Or.inr hc
    · exact Or.inl (hb c hc)
  unfold pyFloat
  rw [stripWs_id _ hch, deUnderscore_id _ hch _ (by decide)]
  simp only [parseDecLit_point a b ha hne hb]

theorem pyFloat_digits (a : List Char) (ha : Digs a) (hne : a ≠ []) :
    pyFloat a = decToF64 false (digitsVal a) a.length 0 := by
  have hch : ∀ c ∈ a, DecCh c := fun c hc => Or.inl (ha c hc)
  unfold pyFloat
  rw [stripWs_id _ hch, deUnderscore_id _ hch _ (by decide)]
  simp only [parseDecLit_digits a ha hne, List.append_nil, List.length_nil]
  rfl

/-! ### the value of a decimal text -/

theorem pow10_neg (k : Nat) : pow10 (0 - (k : Int)) = mkRat 1 (10 ^ k) := by
  unfold pow10
  by_cases hk : k = 0
  · subst hk; simp only [Nat.pow_zero]
    exact (Rat.mkRat_self 1).symm
  · rw [if_neg (by omega)]
    congr 2
    omega

theorem mul_pow10_neg (m k : Nat) : (m : Rat) * pow10 (0 - (k : Int)) = mkRat m (10 ^ k) := by
  rw [pow10_neg, Rat.mkRat_eq_div, Rat.mkRat_eq_div]
  simp only [Rat.intCast_natCast]
  grind

/-- On a decimal text whose value is a binary64 value (`isF64`), `decToF64` is exact. -/
theorem decToF64_exact (m len k : Nat) (hk : k ≤ len) (hx : isF64 (mkRat m (10 ^ k)) = true) :
    decToF64 false m len (0 - (k : Int)) = .val (mkRat m (10 ^ k)) := by
  unfold decToF64
  by_cases hm : m = 0
  · subst hm; simp
  · rw [if_neg hm]
    have h1 : ¬ (310 : Int) < 0 - (k : Int) := by omega
    have h2 : ¬ (0 - (k : Int) < -(330 + (len : Int))) := by omega
    simp only [h1, h2, ↓reduceIte, Bool.false_eq_true, mul_pow10_neg]
    unfold roundPos
    rw [if_pos hx]

theorem pyFloat_point_exact (a b : List Char) (ha : Digs a) (hne : a ≠ []) (hb : Digs b)
    (hx : isF64 (decVal a b) = true) : pyFloat (a ++ '.' :: b) = .val (decVal a b) := by
  rw [pyFloat_point a b ha hne hb]
  exact decToF64_exact _ _ _ (by simp) hx

theorem pyFloat_digits_exact (a : List Char) (ha : Digs a) (hne : a ≠ [])
    (hx : isF64 (digitsVal a : Rat) = true) : pyFloat a = .val (digitsVal a : Rat) := by
  rw [pyFloat_digits a ha hne]
  have e : ((digitsVal a : Nat) : Rat) = mkRat (digitsVal a) (10 ^ 0) := by
    rw [Rat.mkRat_eq_div]; simp only [Nat.pow_zero, Rat.intCast_natCast]; grind
  have := decToF64_exact (digitsVal a) a.length 0 (by omega) (by rw [← e]; exact hx)
  rw [e]
  exact this


/-! ### the eighths `k/8`, `k < 2^20` -/

/-- The domain of the non-vacuity instance: `0, 1/8, 2/8, …` below `2^17` (binary64 values, inside the
    plain-layout range of `repr`, at most 9 significant digits). -/
def Eighth (q : Rat) : Prop := ∃ k : Nat, k < 2 ^ 20 ∧ q = mkRat k 8

theorem eighth_den (q : Rat) (h : Eighth q) : q.den ∣ 8 := by
  obtain ⟨k, _, rfl⟩ := h
  rw [Rat.den_mkRat]
  simp only [Nat.reduceEqDiff, ↓reduceIte]
  exact Nat.div_dvd_of_dvd (Nat.gcd_dvd_left 8 _)

theorem eighth_cross (q : Rat) (k : Nat) (h : q = mkRat k 8) : q.num * 8 = (k : Int) * q.den := by
  have := (Rat.mkRat_eq_iff (n₁ := q.num) (n₂ := k) (d₁ := q.den) (d₂ := 8) q.den_nz (by decide)).mp
    (by rw [Rat.mkRat_self]; exact h)
  exact_mod_cast this

theorem eighth_num (q : Rat) (h : Eighth q) : 0 ≤ q.num ∧ q.num.natAbs < 2 ^ 20 := by
  have hd := eighth_den q h
  obtain ⟨k, hk, e⟩ := h
  have hc := eighth_cross q k e
  have hle : q.den ≤ 8 := Nat.le_of_dvd (by decide) hd
  have hpos : 0 < q.den := q.den_pos
  have h2 : (k : Int) * q.den ≤ (k : Int) * 8 := Int.mul_le_mul_of_nonneg_left (by omega) (by omega)
  have h3 : 0 ≤ (k : Int) * q.den := Int.mul_nonneg (by omega) (by omega)
  omega

theorem eighth_nonneg (q : Rat) (h : Eighth q) : 0 ≤ q := Rat.num_nonneg.mp (eighth_num q h).1

set_option exponentiation.threshold 2000 in
theorem eighth_isF64 (q : Rat) (h : Eighth q) : isF64 q = true := by
  have hd := eighth_den q h
  have hn := (eighth_num q h).2
  unfold isF64
  have h8 : (8 : Nat) ∣ 2 ^ 1074 := ⟨2 ^ 1071, by rw [show (8 : Nat) = 2 ^ 3 by decide, ← Nat.pow_add]⟩
  have : 2 ^ 1074 % q.den = 0 := Nat.mod_eq_zero_of_dvd (Nat.dvd_trans hd h8)
  simp only [this, beq_self_eq_true, Bool.true_and, decide_eq_true_eq]
  have : (2 : Nat) ^ 20 ≤ 2 ^ 53 := Nat.pow_le_pow_right (by decide) (by decide)
  omega

theorem eighth_den_mem (q : Rat) (h : Eighth q) : q.den ∈ [1, 2, 4, 8] := by
  have hd := eighth_den q h
  have hle : q.den ≤ 8 := Nat.le_of_dvd (by decide) hd
  have : ∀ d, d ≤ 8 → d ∣ 8 → d ∈ [1, 2, 4, 8] := by decide
  exact this _ hle hd

/-! ### `reprDec` on the eighths -/

theorem foldl_digits (b : List Char) (x : Nat) :
    b.foldl (fun a c => 10 * a + (c.toNat - 48)) x =
      x * 10 ^ b.length + b.foldl (fun a c => 10 * a + (c.toNat - 48)) 0 := by
  induction b generalizing x with
  | nil => simp
  | cons c cs ih =>
    simp only [List.foldl_cons, List.length_cons]
    rw [ih (10 * x + (c.toNat - 48)), ih (10 * 0 + (c.toNat - 48))]
    rw [Nat.pow_succ]
    grind

theorem digitsVal_append (a b : List Char) :
    digitsVal (a ++ b) = digitsVal a * 10 ^ b.length + digitsVal b := by
  unfold digitsVal
  rw [List.foldl_append, foldl_digits]

/-- The fraction digits `reprDec` prints (`0` for a whole value). -/
def fracB (den r : Nat) : List Char :=
  let fr := fracDigits (Nat.log2 den + 1) r den
  if fr = [] then ['0'] else fr

/-- The long division of `r/den`, `den ∈ {1, 2, 4, 8}`, terminates within its fuel and is exact. -/
theorem frac_table : ∀ den ∈ [1, 2, 4, 8], ∀ r, r < den →
    (∀ c ∈ fracB den r, isDig c = true) ∧ fracB den r ≠ [] ∧
      digitsVal (fracB den r) * den = r * 10 ^ (fracB den r).length := by decide +kernel

theorem reprDec_eighth (q : Rat) (h : Eighth q) :
    ∃ a b, reprDec q = a ++ '.' :: b ∧ Digs a ∧ a ≠ [] ∧ Digs b ∧ b ≠ [] ∧ decVal a b = q := by
  have hnn := eighth_nonneg q h
  have hnum := (eighth_num q h).1
  obtain ⟨t1, t2, t3⟩ := frac_table q.den (eighth_den_mem q h) (q.num.natAbs % q.den)
    (Nat.mod_lt _ q.den_pos)
  refine ⟨natDigits (q.num.natAbs / q.den), fracB q.den (q.num.natAbs % q.den), ?_, natDigits_digs _,
    natDigits_ne_nil _, t1, t2, ?_⟩
  · unfold reprDec decExpansion
    simp only
    rw [if_neg (by grind)]
    rfl
  · unfold decVal
    have hq : mkRat q.num q.den = q := Rat.mkRat_self q
    refine Eq.trans ?_ hq
    rw [Rat.mkRat_eq_iff (by exact Nat.ne_of_gt (Nat.pow_pos (by decide))) q.den_nz]
    rw [digitsVal_append, digitsVal_natDigits]
    have hn : q.num.natAbs / q.den * q.den + q.num.natAbs % q.den = q.num.natAbs := Nat.div_add_mod' _ _
    have key : (q.num.natAbs / q.den * 10 ^ (fracB q.den (q.num.natAbs % q.den)).length +
        digitsVal (fracB q.den (q.num.natAbs % q.den))) * q.den =
        q.num.natAbs * 10 ^ (fracB q.den (q.num.natAbs % q.den)).length := by
      generalize (fracB q.den (q.num.natAbs % q.den)).length = L at t3 ⊢
      generalize digitsVal (fracB q.den (q.num.natAbs % q.den)) = vb at t3 ⊢
      generalize 10 ^ L = T at t3 ⊢
      grind
    have e : (q.num.natAbs : Int) = q.num := by omega
    rw [← e]
    exact_mod_cast key

/-! ### the instances -/

/-- `pyFloat` is exact on decimal texts denoting eighths. -/
theorem floatDec_eighths : FloatDec pyFloat Eighth where
  read_digits := fun ds hd hne hD => pyFloat_digits_exact ds hd hne (eighth_isF64 _ hD)
  read_point := fun a b ha hne hb hD => pyFloat_point_exact a b ha hne hb (eighth_isF64 _ hD)

/-- `reprDec` prints the eighths in the plain layout `digits.digits`. -/
theorem floatPlain_eighths : FloatPlain reprDec Eighth := by
  intro q hq _
  obtain ⟨a, b, e, ha, hne, hb, hbne, _⟩ := reprDec_eighth q hq
  exact ⟨a, b, e, ha, hne, hb, hbne⟩

/-- The float laws hold for the exact decimal expansion `reprDec` and `pyFloat` on the eighths. -/
theorem floatText_eighths : FloatText reprDec pyFloat Eighth where
  read_repr := by
    intro q hq
    obtain ⟨a, b, e, ha, hne, hb, _, hv⟩ := reprDec_eighth q hq
    rw [e, floatDec_eighths.read_point a b ha hne hb (by rw [hv]; exact hq), hv]
  repr_chars := by
    intro q hq _
    obtain ⟨a, b, e, ha, hne, hb, _, _⟩ := reprDec_eighth q hq
    cases a with
    | nil => exact absurd rfl hne
    | cons d0 a' =>
      refine ⟨d0, a' ++ '.' :: b, by rw [e]; rfl, ha.head, ?_⟩
      intro c hc
      simp only [List.mem_append, List.mem_cons] at hc
      rcases hc with hc | hc | hc
      · exact Or.inl (ha.tail c hc)
      · exact Or.inr (Or.inl hc)
      · exact Or.inl (hb c hc)
  read_nat := by
    intro n hn
    have := floatDec_eighths.read_digits (natDigits n) (natDigits_digs n) (natDigits_ne_nil n)
      (by rw [digitsVal_natDigits]; exact hn)
    rw [digitsVal_natDigits] at this
    exact this


end IsoDT.Lemmas.DurTextQFloat
