/-
  IsoDT.Lemmas.TickQ — `_tick_over` and the exact part of `__add__` over rational hour / minute /
  second slots (`Model.TimePointQ`): the meaning of a `TPQ` (`TPQ.inst`), legal `TPQ`s
  (`TPQ.Valid`), and the carry lemmas.  Every statement of `_tick_over` keeps the instant; at the
  end every slot is in range and every slot that must hold a whole number does.
-/
import IsoDT.Lemmas.Tick
import IsoDT.Model.TimePointQ

namespace IsoDT.Lemmas
open IsoDT IsoDT.Model
open IsoDT.Spec (Date TZ TP)

def IsInt (x : Rat) : Prop := x.den = 1
instance (x : Rat) : Decidable (IsInt x) := by unfold IsInt; infer_instance

theorem isInt_intCast (n : Int) : IsInt (n : Rat) := Rat.den_intCast n

theorem IsInt.eq_intCast {x : Rat} (h : IsInt x) : x = ((x.num : Int) : Rat) :=
  Rat.ext (by simp) (by simpa [IsInt] using h)

theorem floor_eq_of {x : Rat} {k : Int} (h1 : (k : Rat) ≤ x) (h2 : x < (k : Rat) + 1) : x.floor = k := by
  have a : k ≤ x.floor := Rat.le_floor_iff.2 h1
  have b : x.floor < k + 1 := Rat.floor_lt_iff.2 (by simpa using h2)
  omega

theorem divmodQ_spec (x : Rat) (n : Int) (hn : 0 < n) :
    x = ((divmodQ x n).1 : Rat) * (n : Rat) + (divmodQ x n).2 ∧ 0 ≤ (divmodQ x n).2 ∧
      (divmodQ x n).2 < (n : Rat) := by
  have hn' : (0 : Rat) < (n : Rat) := Rat.intCast_pos.2 hn
  have hne : (n : Rat) ≠ 0 := Rat.ne_of_gt hn'
  simp only [divmodQ]
  have h1 := Rat.floor_le (x / (n : Rat))
  have h2 := Rat.lt_floor_add_one (x / (n : Rat))
  have h3 := Rat.mul_le_mul_of_nonneg_right h1 (Rat.le_of_lt hn')
  have h4 := Rat.mul_lt_mul_of_pos_right h2 hn'
  rw [Rat.div_mul_cancel hne] at h3 h4
  rw [Rat.intCast_add, Rat.add_mul] at h4
  refine ⟨by grind, by grind, by grind⟩

theorem divmodQ_intCast (a n : Int) (hn : 0 < n) :
    divmodQ (a : Rat) n = (a / n, ((a % n : Int) : Rat)) := by
  have hn' : (0 : Rat) < (n : Rat) := Rat.intCast_pos.2 hn
  have hne : (n : Rat) ≠ 0 := Rat.ne_of_gt hn'
  have e : a = n * (a / n) + a % n := (Int.mul_ediv_add_emod a n).symm
  have hm0 : 0 ≤ a % n := Int.emod_nonneg a (by omega)
  have hm1 : a % n < n := Int.emod_lt_of_pos a hn
  have hf : ((a : Rat) / (n : Rat)).floor = a / n := by
    apply floor_eq_of
    · apply Rat.not_lt.1
      rw [Rat.div_lt_iff hn']
      apply Rat.not_lt.2
      rw [← Rat.intCast_mul, Rat.intCast_le_intCast]
      rw [Int.mul_comm]; omega
    · rw [Rat.div_lt_iff hn', show ((a / n : Int) : Rat) + 1 = ((a / n + 1 : Int) : Rat) by simp,
        ← Rat.intCast_mul, Rat.intCast_lt_intCast]
      rw [Int.add_mul, Int.mul_comm]; omega
  simp only [divmodQ, hf]
  congr 1
  rw [← Rat.intCast_mul, ← Rat.intCast_sub]
  congr 1
  rw [Int.mul_comm]; omega

theorem sub_sub_self' (x y : Rat) : x - (x - y) = y := by grind

theorem emod_cast (x n : Int) (hn : 0 < n) :
    ((x % n : Int) : Rat) = (x : Rat) - (n : Rat) * ((x / n : Int) : Rat) ∧ 0 ≤ ((x % n : Int) : Rat) ∧
      ((x % n : Int) : Rat) < (n : Rat) := by
  refine ⟨?_, Rat.intCast_le_intCast.2 (Int.emod_nonneg _ (by omega)),
    Rat.intCast_lt_intCast.2 (Int.emod_lt_of_pos _ hn)⟩
  rw [← Rat.intCast_mul, ← Rat.intCast_sub]; congr 1
  have := Int.mul_ediv_add_emod x n; omega

theorem truncQ_intCast (a : Int) : truncQ (a : Rat) = a := by
  unfold truncQ
  split
  · exact Rat.ceil_intCast a
  · exact Rat.floor_intCast a
end IsoDT.Lemmas
namespace IsoDT.Model
open IsoDT.Lemmas
def HMS.secs (t : HMS) : Rat := 3600 * t.hh + 60 * t.mi.getD 0 + t.ss.getD 0

def HMS.Ok (t : HMS) : Prop :=
  match t.mi, t.ss with
  | some mi, some ss =>
    IsInt t.hh ∧ IsInt mi ∧ 0 ≤ t.hh ∧ t.hh ≤ 24 ∧ 0 ≤ mi ∧ mi < 60 ∧ 0 ≤ ss ∧ ss < 60 ∧
      (t.hh = 24 → mi = 0 ∧ ss = 0)
  | some mi, none => IsInt t.hh ∧ 0 ≤ t.hh ∧ t.hh ≤ 24 ∧ 0 ≤ mi ∧ mi < 60 ∧ (t.hh = 24 → mi = 0)
  | none, none => 0 ≤ t.hh ∧ t.hh ≤ 24
  | none, some _ => False

instance (t : HMS) : Decidable t.Ok := by
  unfold HMS.Ok; split <;> infer_instance

def TPQ.hms (p : TPQ) : HMS := ⟨p.hh, p.mi, p.ss⟩

/-- The instant `p` denotes, in seconds since 0001-01-01T00:00:00Z: linear in every slot (a
    `None` slot counts 0), so also the meaning of a point whose slots are out of range mid-carry
    and of the 24:00 form. -/
def TPQ.inst (m : Mode) (p : TPQ) : Rat :=
  86400 * ((p.date.dayNum m : Int) : Rat) + p.hms.secs - ((p.tz.seconds : Int) : Rat)

/-- Legal input: a real date, a legal offset, legal time-of-day slots (`HMS.Ok`). -/
def TPQ.Valid (m : Mode) (p : TPQ) : Prop := p.date.Valid m ∧ p.tz.Valid ∧ p.hms.Ok

instance (m : Mode) (p : TPQ) : Decidable (p.Valid m) := by unfold TPQ.Valid; infer_instance

/-- Length of the exact units in seconds. -/
def DurQ.seconds (d : DurQ) : Rat := 86400 * (d.days : Rat) + 3600 * d.h + 60 * d.mi + d.s
end IsoDT.Model
namespace IsoDT.Lemmas
open IsoDT IsoDT.Model
open IsoDT.Spec (Date TZ TP)

theorem tickTimeQ_spec (m : Mode) (t0 : HMS) (hs : t0.ss.isSome = true → t0.mi.isSome = true) :
    ∃ nd t, tickTimeQ m t0 = some (nd, t) ∧ t.secs + 86400 * (nd : Rat) = t0.secs ∧ t.Ok ∧ t.hh < 24 ∧
      t.mi.isSome = t0.mi.isSome ∧ t.ss.isSome = t0.ss.isSome := by
  obtain ⟨hh, mi, ss⟩ := t0
  cases mi with
  | none =>
    cases ss with
    | some s => simp at hs
    | none =>
      simp only [tickTimeQ, hoursInDay_eq, Option.map_some]
      obtain ⟨e, l, u⟩ := divmodQ_spec hh 24 (by omega)
      generalize divmodQ hh 24 = r at e l u
      refine ⟨_, _, rfl, ?_, ?_, ?_, rfl, rfl⟩
      · simp only [HMS.secs, Option.getD_none]
        have : ((24 : Int) : Rat) = 24 := rfl
        grind
      · simp only [HMS.Ok]
        have : ((24 : Int) : Rat) = 24 := rfl
        grind
      · have : ((24 : Int) : Rat) = 24 := rfl
        grind
  | some mi =>
    have c60 : ((60 : Int) : Rat) = 60 := rfl
    have c24 : ((24 : Int) : Rat) = 24 := rfl
    cases ss with
    | none =>
      simp only [tickTimeQ, hoursInDay_eq, minutesInHour_eq, Option.map_some, sub_sub_self']
      generalize truncQ hh = a
      obtain ⟨e1, l1, u1⟩ := divmodQ_spec (mi + (hh - (a : Rat)) * ((60 : Int) : Rat)) 60 (by omega)
      generalize divmodQ (mi + (hh - (a : Rat)) * ((60 : Int) : Rat)) 60 = r1 at e1 l1 u1
      rw [← Rat.intCast_add, divmodQ_intCast _ _ (by omega)]
      refine ⟨_, _, rfl, ?_, ?_, ?_, rfl, rfl⟩
      · simp only [HMS.secs, Option.getD_some, Option.getD_none]
        have := Int.mul_ediv_add_emod (a + r1.1) 24
        have : (((a + r1.1) % 24 : Int) : Rat) = (a : Rat) + (r1.1 : Rat) - 24 * (((a + r1.1) / 24 : Int) : Rat) := by
          rw [← Rat.intCast_add, ← c24, ← Rat.intCast_mul, ← Rat.intCast_sub]; congr 1; omega
        grind
      · simp only [HMS.Ok]
        have h0 : 0 ≤ (a + r1.1) % 24 := Int.emod_nonneg _ (by omega)
        have h1 : (a + r1.1) % 24 < 24 := Int.emod_lt_of_pos _ (by omega)
        have h0' := Rat.intCast_le_intCast.2 h0
        have h1' := Rat.intCast_lt_intCast.2 h1
        refine ⟨isInt_intCast _, by grind, by grind, l1, by grind, by grind⟩
      · have h1 : (a + r1.1) % 24 < 24 := Int.emod_lt_of_pos _ (by omega)
        have h1' := Rat.intCast_lt_intCast.2 h1
        grind
    | some ss =>
      simp only [tickTimeQ, hoursInDay_eq, minutesInHour_eq, secondsInMinute_eq, Option.map_some, sub_sub_self']
      generalize truncQ hh = a
      generalize truncQ (mi + (hh - (a : Rat)) * ((60 : Int) : Rat)) = b
      obtain ⟨e1, l1, u1⟩ := divmodQ_spec
        (ss + (mi + (hh - (a : Rat)) * ((60 : Int) : Rat) - (b : Rat)) * ((60 : Int) : Rat)) 60 (by omega)
      generalize divmodQ
        (ss + (mi + (hh - (a : Rat)) * ((60 : Int) : Rat) - (b : Rat)) * ((60 : Int) : Rat)) 60 = r1 at e1 l1 u1
      rw [← Rat.intCast_add, divmodQ_intCast _ _ (by omega)]
      dsimp only
      rw [← Rat.intCast_add, divmodQ_intCast _ _ (by omega)]
      obtain ⟨m1, m2, m3⟩ := emod_cast (b + r1.1) 60 (by omega)
      obtain ⟨h1, h2, h3⟩ := emod_cast (a + (b + r1.1) / 60) 24 (by omega)
      rw [Rat.intCast_add] at m1 h1
      refine ⟨_, _, rfl, ?_, ?_, ?_, rfl, rfl⟩
      · simp only [HMS.secs, Option.getD_some]
        grind
      · simp only [HMS.Ok]
        refine ⟨isInt_intCast _, isInt_intCast _, h2, by grind, m2, by grind, l1, by grind, by grind⟩
      · grind

/-! ### the date carry -/

theorem carryDays_spec (m : Mode) (date : Date) (tz : TZ) (n : Int) (hp : PreValid date) :
    ∃ dt, carryDays m date tz n = some dt ∧ dt.Valid m ∧ dt.dayNum m = date.dayNum m + n ∧
      dt.rep = date.rep := by
  obtain ⟨q, he, hi, hv, a1, a2, a3, a4, a5, a6, htz, hr⟩ :=
    tickOver_spec m ⟨date, (calOf m).hoursInDay * n, 0, 0, tz⟩ hp
  refine ⟨q.date, by simp only [carryDays, he, Option.map_some], hv, ?_, hr⟩
  simp only [TP.inst, TP.secOfDay, hoursInDay_eq, htz] at hi
  omega

/-! ### `_tick_over` -/

theorem tickOverQ_spec (m : Mode) (p : TPQ) (hp : PreValid p.date)
    (hs : p.ss.isSome = true → p.mi.isSome = true) :
    ∃ q, tickOverQ m p = some q ∧ q.inst m = p.inst m ∧ q.date.Valid m ∧ q.hms.Ok ∧ q.hh < 24 ∧
      q.tz = p.tz ∧ q.date.rep = p.date.rep ∧ q.mi.isSome = p.mi.isSome ∧
      q.ss.isSome = p.ss.isSome := by
  obtain ⟨nd, ⟨th, tm, ts⟩, e1, hsec, hok, hlt, hmi, hss⟩ := tickTimeQ_spec m ⟨p.hh, p.mi, p.ss⟩ hs
  obtain ⟨dt, e2, hv, hn, hr⟩ := carryDays_spec m p.date p.tz nd hp
  refine ⟨{ p with date := dt, hh := th, mi := tm, ss := ts },
    by simp only [tickOverQ, e1, e2, Option.map_some], ?_, hv, hok, hlt, rfl, hr, hmi, hss⟩
  simp only [TPQ.inst, TPQ.hms, hn, Rat.intCast_add]
  grind

/-! ### the exact part of `__add__` -/

/-- What `__add__` threads from statement to statement: the instant moved by `delta` so far, a
    legal point with `hh < 24`, offset, representation and `None` pattern kept. -/
structure GoodQ (m : Mode) (p q : TPQ) (delta : Rat) : Prop where
  inst : q.inst m = p.inst m + delta
  valid : q.Valid m
  lt24 : q.hh < 24
  tz : q.tz = p.tz
  rep : q.date.rep = p.date.rep
  mi : q.mi.isSome = p.mi.isSome
  ss : q.ss.isSome = p.ss.isSome

theorem ok_pattern {t : HMS} (h : t.Ok) : t.ss.isSome = true → t.mi.isSome = true := by
  obtain ⟨hh, mi, ss⟩ := t
  cases mi <;> cases ss <;> simp_all [HMS.Ok]

theorem normalise24Q_spec (m : Mode) (p : TPQ) (h : p.Valid m) :
    ∃ q, normalise24Q m p = some q ∧ GoodQ m p q 0 := by
  have c24 : ((24 : Int) : Rat) = 24 := rfl
  unfold normalise24Q
  rw [hoursInDay_eq, c24]
  by_cases c : p.hh = 24
  · rw [if_pos c]
    obtain ⟨q, he, hi, hv, hok, hlt, htz, hr, hmi, hss⟩ :=
      tickOverQ_spec m p (preValid_of_valid m _ h.1) (ok_pattern h.2.2)
    exact ⟨q, he, ⟨by rw [hi]; grind, ⟨hv, by rw [htz]; exact h.2.1, hok⟩, hlt, htz, hr, hmi, hss⟩⟩
  · rw [if_neg c]
    refine ⟨p, rfl, ⟨by grind, h, ?_, rfl, rfl, rfl, rfl⟩⟩
    have hok := h.2.2
    obtain ⟨date, hh, mi, ss, tz⟩ := p
    cases mi <;> cases ss <;> simp only [TPQ.hms, HMS.Ok] at hok <;> grind

/-- One `slot += x; self._tick_over()` statement pair of `__add__`, from a good point. -/
theorem bump_tickQ (m : Mode) (p0 p p' : TPQ) (delta x : Rat) (g : GoodQ m p0 p delta)
    (hpre : PreValid p'.date) (htz : p'.tz = p.tz) (hrep : p'.date.rep = p.date.rep)
    (hmi : p'.mi.isSome = p.mi.isSome) (hss : p'.ss.isSome = p.ss.isSome)
    (hinst : p'.inst m = p.inst m + x) :
    ∃ q, tickOverQ m p' = some q ∧ GoodQ m p0 q (delta + x) := by
  have hpat : p'.ss.isSome = true → p'.mi.isSome = true := by
    rw [hmi, hss]; exact ok_pattern g.valid.2.2
  obtain ⟨q, he, hi, hv, hok, hlt, qtz, qr, qmi, qss⟩ := tickOverQ_spec m p' hpre hpat
  refine ⟨q, he, ⟨?_, ⟨hv, by rw [qtz, htz]; exact g.valid.2.1, hok⟩, hlt, by rw [qtz, htz, g.tz],
    by rw [qr, hrep, g.rep], by rw [qmi, hmi, g.mi], by rw [qss, hss, g.ss]⟩⟩
  rw [hi, hinst, g.inst]; grind

theorem stepSQ_spec (m : Mode) (p p0 : TPQ) (delta s : Rat) (g : GoodQ m p p0 delta) :
    ∃ q, stepSQ m p0 s = some q ∧ GoodQ m p q (delta + s) := by
  have c60 : ((60 : Int) : Rat) = 60 := rfl
  have c3600 : ((3600 : Int) : Rat) = 3600 := rfl
  unfold stepSQ
  by_cases c : s ≠ 0
  · rw [if_pos c]
    have hpre := preValid_of_valid m _ g.valid.1
    have hok := g.valid.2.2
    obtain ⟨date, hh, mi, ss, tz⟩ := p0
    cases ss with
    | some ss =>
      exact bump_tickQ m p _ _ delta s g hpre rfl rfl rfl rfl
        (by cases mi <;> simp only [TPQ.inst, TPQ.hms, HMS.secs, Option.getD_some, Option.getD_none] <;> grind)
    | none =>
      cases mi with
      | some mi =>
        exact bump_tickQ m p _ _ delta s g hpre rfl rfl rfl rfl
          (by simp only [TPQ.inst, TPQ.hms, HMS.secs, Option.getD_some, Option.getD_none,
                secondsInMinute_eq, c60]; grind)
      | none =>
        exact bump_tickQ m p _ _ delta s g hpre rfl rfl rfl rfl
          (by simp only [TPQ.inst, TPQ.hms, HMS.secs, Option.getD_none, secondsInHour_eq, c3600]; grind)
  · rw [if_neg c]
    have e : delta + s = delta := by grind
    rw [e]; exact ⟨p0, rfl, g⟩

theorem stepMQ_spec (m : Mode) (p p0 : TPQ) (delta x : Rat) (g : GoodQ m p p0 delta) :
    ∃ q, stepMQ m p0 x = some q ∧ GoodQ m p q (delta + 60 * x) := by
  have c60 : ((60 : Int) : Rat) = 60 := rfl
  unfold stepMQ
  by_cases c : x ≠ 0
  · rw [if_pos c]
    have hpre := preValid_of_valid m _ g.valid.1
    obtain ⟨date, hh, mi, ss, tz⟩ := p0
    cases mi with
    | some mi =>
      exact bump_tickQ m p _ _ delta (60 * x) g hpre rfl rfl rfl rfl
        (by simp only [TPQ.inst, TPQ.hms, HMS.secs, Option.getD_some]; grind)
    | none =>
      exact bump_tickQ m p _ _ delta (60 * x) g hpre rfl rfl rfl rfl
        (by simp only [TPQ.inst, TPQ.hms, HMS.secs, Option.getD_none, minutesInHour_eq, c60]; grind)
  · rw [if_neg c]
    have e : delta + 60 * x = delta := by grind
    rw [e]; exact ⟨p0, rfl, g⟩

theorem stepHQ_spec (m : Mode) (p p0 : TPQ) (delta x : Rat) (g : GoodQ m p p0 delta) :
    ∃ q, stepHQ m p0 x = some q ∧ GoodQ m p q (delta + 3600 * x) := by
  unfold stepHQ
  by_cases c : x ≠ 0
  · rw [if_pos c]
    exact bump_tickQ m p _ _ delta (3600 * x) g (preValid_of_valid m _ g.valid.1) rfl rfl rfl rfl
      (by simp only [TPQ.inst, TPQ.hms, HMS.secs]; grind)
  · rw [if_neg c]
    have e : delta + 3600 * x = delta := by grind
    rw [e]; exact ⟨p0, rfl, g⟩

theorem stepDQ_spec (m : Mode) (p p0 : TPQ) (delta : Rat) (x : Int) (g : GoodQ m p p0 delta) :
    ∃ q, stepDQ m p0 x = some q ∧ GoodQ m p q (delta + 86400 * (x : Rat)) := by
  unfold stepDQ
  by_cases c : x ≠ 0
  · rw [if_pos c]
    exact bump_tickQ m p _ _ delta (86400 * (x : Rat)) g
      (preValid_bumpDay _ _ (preValid_of_valid m _ g.valid.1)) rfl (rep_bumpDay _ _) rfl rfl
      (by simp only [TPQ.inst, TPQ.hms, dayNum_bumpDay, Rat.intCast_add]; grind)
  · rw [if_neg c]
    have e : delta + 86400 * (x : Rat) = delta := by
      have : x = 0 := by omega
      subst this; simp [Rat.mul_zero, Rat.add_zero]
    rw [e]; exact ⟨p0, rfl, g⟩

theorem addExactQ_spec (m : Mode) (p : TPQ) (d : DurQ) (hv : p.Valid m) :
    ∃ q, addExactQ m p d = some q ∧ GoodQ m p q d.seconds := by
  unfold addExactQ
  obtain ⟨p0, e0, g0⟩ := normalise24Q_spec m p hv
  obtain ⟨p1, e1, g1⟩ := stepSQ_spec m p p0 0 d.s g0
  obtain ⟨p2, e2, g2⟩ := stepMQ_spec m p p1 _ d.mi g1
  obtain ⟨p3, e3, g3⟩ := stepHQ_spec m p p2 _ d.h g2
  obtain ⟨p4, e4, g4⟩ := stepDQ_spec m p p3 _ d.days g3
  rw [e0, Option.bind_some, e1, Option.bind_some, e2, Option.bind_some, e3, Option.bind_some, e4]
  refine ⟨p4, rfl, ?_⟩
  have e : d.seconds = 0 + d.s + 60 * d.mi + 3600 * d.h + 86400 * (d.days : Rat) := by
    simp only [DurQ.seconds]; grind
  rw [e]; exact g4

/-! ### the rational model extends the whole-second model -/

theorem rat_sub_zero (x : Rat) : x - 0 = x := by grind

theorem tickTimeQ_ofInt (m : Mode) (hh mi ss : Int) :
    tickTimeQ m ⟨(hh : Rat), some (mi : Rat), some (ss : Rat)⟩ =
      some ((hh + (mi + ss / 60) / 60) / 24,
        ⟨(((hh + (mi + ss / 60) / 60) % 24 : Int) : Rat), some (((mi + ss / 60) % 60 : Int) : Rat),
          some ((ss % 60 : Int) : Rat)⟩) := by
  simp only [tickTimeQ, hoursInDay_eq, minutesInHour_eq, secondsInMinute_eq, Option.map_some,
    truncQ_intCast, Rat.sub_self, Rat.zero_mul, Rat.add_zero, rat_sub_zero]
  rw [divmodQ_intCast _ _ (by omega)]
  dsimp only
  rw [← Rat.intCast_add, divmodQ_intCast _ _ (by omega)]
  dsimp only
  rw [← Rat.intCast_add, divmodQ_intCast _ _ (by omega)]

theorem tickOverQ_ofTP (m : Mode) (p : TP) : tickOverQ m (TPQ.ofTP p) = (tickOver m p).map TPQ.ofTP := by
  obtain ⟨date, hh, mi, ss, tz⟩ := p
  simp only [tickOverQ, TPQ.ofTP, tickTimeQ_ofInt, carryDays]
  have e : ((calOf m).hoursInDay * ((hh + (mi + ss / 60) / 60) / 24) + (0 + 0 / 60) / 60) / 24
      = (hh + (mi + ss / 60) / 60) / 24 := by rw [hoursInDay_eq]; omega
  unfold tickOver
  simp only [secondsInMinute_eq, minutesInHour_eq, hoursInDay_eq] at e ⊢
  rw [e]
  cases date with
  | cal y mo d =>
    dsimp only
    cases tickDayOfMonth m y mo (d + (hh + (mi + ss / 60) / 60) / 24) with
    | none => rfl
    | some r => obtain ⟨a, b, c⟩ := r; rfl
  | ord y doy => rfl
  | week y w d => rfl

theorem ofTP_map_bind {α : Type} (o : Option TP) (f : TPQ → Option α) :
    (o.map TPQ.ofTP).bind f = o.bind fun p => f (TPQ.ofTP p) := by cases o <;> rfl

theorem normalise24Q_ofTP (m : Mode) (p : TP) :
    normalise24Q m (TPQ.ofTP p) = (normalise24 m p).map TPQ.ofTP := by
  unfold normalise24Q normalise24
  have : ((TPQ.ofTP p).hh = (((calOf m).hoursInDay : Int) : Rat)) ↔ p.hh = (calOf m).hoursInDay := by
    simp only [TPQ.ofTP, Rat.intCast_inj]
  by_cases c : p.hh = (calOf m).hoursInDay
  · rw [if_pos c, if_pos (this.2 c)]; exact tickOverQ_ofTP m p
  · rw [if_neg c, if_neg (fun h => c (this.1 h))]; rfl

theorem stepSQ_ofTP (m : Mode) (p : TP) (s : Int) :
    stepSQ m (TPQ.ofTP p) (s : Rat) = (stepS m p s).map TPQ.ofTP := by
  unfold stepSQ stepS
  by_cases c : s ≠ 0
  · have c' : (s : Rat) ≠ 0 := fun h => c (Rat.intCast_eq_zero_iff.1 h)
    rw [if_pos c, if_pos c']
    simp only [TPQ.ofTP, ← Rat.intCast_add]
    exact tickOverQ_ofTP m { p with ss := p.ss + s }
  · have c' : ¬ (s : Rat) ≠ 0 := fun h => c (fun e => h (by rw [e]; rfl))
    rw [if_neg c, if_neg c']; rfl

theorem stepMQ_ofTP (m : Mode) (p : TP) (s : Int) :
    stepMQ m (TPQ.ofTP p) (s : Rat) = (stepM m p s).map TPQ.ofTP := by
  unfold stepMQ stepM
  by_cases c : s ≠ 0
  · have c' : (s : Rat) ≠ 0 := fun h => c (Rat.intCast_eq_zero_iff.1 h)
    rw [if_pos c, if_pos c']
    simp only [TPQ.ofTP, ← Rat.intCast_add]
    exact tickOverQ_ofTP m { p with mi := p.mi + s }
  · have c' : ¬ (s : Rat) ≠ 0 := fun h => c (fun e => h (by rw [e]; rfl))
    rw [if_neg c, if_neg c']; rfl

theorem stepHQ_ofTP (m : Mode) (p : TP) (s : Int) :
    stepHQ m (TPQ.ofTP p) (s : Rat) = (stepH m p s).map TPQ.ofTP := by
  unfold stepHQ stepH
  by_cases c : s ≠ 0
  · have c' : (s : Rat) ≠ 0 := fun h => c (Rat.intCast_eq_zero_iff.1 h)
    rw [if_pos c, if_pos c']
    simp only [TPQ.ofTP, ← Rat.intCast_add]
    exact tickOverQ_ofTP m { p with hh := p.hh + s }
  · have c' : ¬ (s : Rat) ≠ 0 := fun h => c (fun e => h (by rw [e]; rfl))
    rw [if_neg c, if_neg c']; rfl

theorem stepDQ_ofTP (m : Mode) (p : TP) (d : Int) :
    stepDQ m (TPQ.ofTP p) d = (stepD m p d).map TPQ.ofTP := by
  unfold stepDQ stepD
  by_cases c : d ≠ 0
  · rw [if_pos c, if_pos c]
    exact tickOverQ_ofTP m { p with date := bumpDay p.date d }
  · rw [if_neg c, if_neg c]; rfl

theorem addExactQ_ofTP (m : Mode) (p : TP) (d h mi s : Int) :
    addExactQ m (TPQ.ofTP p) ⟨d, (h : Rat), (mi : Rat), (s : Rat)⟩ =
      (addUnits m p d h mi s).map TPQ.ofTP := by
  unfold addExactQ addUnits
  simp only [normalise24Q_ofTP, ofTP_map_bind, stepSQ_ofTP, stepMQ_ofTP, stepHQ_ofTP, stepDQ_ofTP]
  cases normalise24 m p with
  | none => rfl
  | some p0 =>
    simp only [Option.bind_some]
    cases stepS m p0 s with
    | none => rfl
    | some p1 =>
      simp only [Option.bind_some]
      cases stepM m p1 mi with
      | none => rfl
      | some p2 =>
        simp only [Option.bind_some]
        cases stepH m p2 h with
        | none => rfl
        | some p3 => simp only [Option.bind_some]
end IsoDT.Lemmas
