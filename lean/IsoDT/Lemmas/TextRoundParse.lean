/-
  IsoDT.Lemmas.TextRoundParse — the parser half of the text round trip: `parse` of the specified text
  (`stdText`) of a valid whole-second point is that point, field for field.
-/
import IsoDT.Lemmas.TextRoundDefs
import IsoDT.Lemmas.TextDecode
import IsoDT.Lemmas.Conv
import IsoDT.Lemmas.Strftime

namespace IsoDT.Text
open IsoDT IsoDT.Model IsoDT.Lemmas
open IsoDT.Spec (Date TZ TP)
open _root_.IsoDT.Gen.Templates (timeDesignator dateTypeOrder parserTables)

/-! ## The tables list the standard forms -/

def zTmplUtc : Template := [.group .tzUtc ['Z']]
def zTmplOff : Template := [.sign .tzSign, .digits .tzHour 2, .lit ':', .digits .tzMinute 2]

def hasDate (pt : ParserTables) (d : Date) : Bool :=
  pt.dateEntries.any fun e => decide (e.tmpl = dateTmpl pt.ned d) && decide (e.typ = .complete) &&
    decide (e.fmt = .extended)

def hasZone (pt : ParserTables) (t : Template) : Bool :=
  pt.zoneEntries.any fun e => decide (e.tmpl = t) && decide (e.fmt = .extended)

/-- Every configuration that allows extended notation lists the three complete extended date forms,
    `hh:mm:ss`, `Z` and `±hh:mm`. -/
def stdOK (pt : ParserTables) : Bool :=
  pt.basicOnly ||
    (hasDate pt (.cal 0 0 0) && hasDate pt (.ord 0 0) && hasDate pt (.week 0 0 0) &&
     (pt.timeEntries.any fun e => decide (e.tmpl = timeTmpl) && decide (e.typ = .complete) &&
        decide (e.fmt = .extended)) &&
     hasZone pt zTmplUtc && hasZone pt zTmplOff)

set_option maxRecDepth 100000 in
theorem std_tables : parserTables.all stdOK = true := by decide +kernel


theorem dateTmpl_rep (ned : Nat) (d : Date) :
    dateTmpl ned d = dateTmpl ned (.cal 0 0 0) ∨ dateTmpl ned d = dateTmpl ned (.ord 0 0) ∨
      dateTmpl ned d = dateTmpl ned (.week 0 0 0) := by
  cases d
  · exact Or.inl rfl
  · exact Or.inr (Or.inl rfl)
  · exact Or.inr (Or.inr rfl)

/-- The standard entries of a configuration with extended notation. -/
theorem std_entries (pt : ParserTables) (h : pt ∈ parserTables) (hb : pt.basicOnly = false) (d : Date) :
    (∃ de ∈ pt.dateEntries, de.tmpl = dateTmpl pt.ned d ∧ de.typ = .complete ∧ de.fmt = .extended) ∧
    (∃ te ∈ pt.timeEntries, te.tmpl = timeTmpl ∧ te.typ = .complete ∧ te.fmt = .extended) ∧
    (∃ ze ∈ pt.zoneEntries, ze.tmpl = zTmplUtc ∧ ze.fmt = .extended) ∧
    (∃ ze ∈ pt.zoneEntries, ze.tmpl = zTmplOff ∧ ze.fmt = .extended) := by
  have hk := List.all_eq_true.mp std_tables pt h
  simp only [stdOK, hb, Bool.false_or, Bool.and_eq_true, hasDate, hasZone, List.any_eq_true,
    decide_eq_true_eq] at hk
  obtain ⟨⟨⟨⟨⟨h1, h2⟩, h3⟩, h4⟩, h5⟩, h6⟩ := hk
  refine ⟨?_, ?_, ?_, ?_⟩
  · rcases dateTmpl_rep pt.ned d with e | e | e <;> rw [e]
    · obtain ⟨x, hx, ⟨a, b⟩, c⟩ := h1; exact ⟨x, hx, a, b, c⟩
    · obtain ⟨x, hx, ⟨a, b⟩, c⟩ := h2; exact ⟨x, hx, a, b, c⟩
    · obtain ⟨x, hx, ⟨a, b⟩, c⟩ := h3; exact ⟨x, hx, a, b, c⟩
  · obtain ⟨x, hx, ⟨a, b⟩, c⟩ := h4; exact ⟨x, hx, a, b, c⟩
  · obtain ⟨x, hx, a, c⟩ := h5; exact ⟨x, hx, a, c⟩
  · obtain ⟨x, hx, a, c⟩ := h6; exact ⟨x, hx, a, c⟩

/-! ## The group texts fit their templates -/

theorem fits_date (ned : Nat) (d : Date) : fits (dateTmpl ned d) (dateEnv ned d) = true := by
  cases d <;> by_cases h0 : ned = 0 <;>
    simp [dateTmpl, dateEnv, yearTmpl, yearEnv, h0, fits, renderNat_length, renderNat_digits] <;>
    omega

theorem fits_time (p : TP) : fits timeTmpl (timeEnv p) = true := by
  simp [timeTmpl, timeEnv, fits, renderNat_length, renderNat_digits]

theorem fits_zone (z : TZ) : fits (zoneTmpl z) (zoneEnv z) = true := by
  by_cases h : z.h = 0 ∧ z.mi = 0
  · simp [zoneTmpl, zoneEnv, h, fits]
  · simp only [zoneTmpl, zoneEnv, if_neg h]
    simp [fits, renderNat_length, renderNat_digits]
    omega

theorem zoneTmpl_cases (z : TZ) :
    zoneTmpl z = (if z.h = 0 ∧ z.mi = 0 then zTmplUtc else zTmplOff) := rfl

/-! ## The zone -/

theorem processZone_zoneEnv (zd : ZoneDefault) (z : TZ) (hz : z.Valid) :
    processZone zd (zoneEnv z) = some ⟨some z.h, some z.mi⟩ := by
  unfold TZ.Valid at hz
  by_cases h : z.h = 0 ∧ z.mi = 0
  · simp [zoneEnv, h, processZone, Env.has, Env.get?]
  · have hh : intOf? (renderNat 2 z.h.natAbs) = some (z.h.natAbs : Int) :=
      intOf_renderNat 2 _ (by decide) (by omega)
    have hm : intOf? (renderNat 2 z.mi.natAbs) = some (z.mi.natAbs : Int) :=
      intOf_renderNat 2 _ (by decide) (by omega)
    simp only [zoneEnv, if_neg h]
    by_cases hneg : z.h < 0 ∨ z.mi < 0
    · simp [processZone, Env.has, Env.get?, hh, hm, hneg]
      constructor <;> omega
    · simp [processZone, Env.has, Env.get?, hh, hm, hneg]
      constructor <;> omega

/-! ## `get_info` on the specified text -/

theorem std_zone_entry (pt : ParserTables) (h : pt ∈ parserTables) (hb : pt.basicOnly = false) (z : TZ) :
    ∃ ze ∈ pt.zoneEntries, ze.tmpl = zoneTmpl z ∧ ze.fmt = .extended := by
  obtain ⟨_, _, hu, ho⟩ := std_entries pt h hb (.cal 0 0 0)
  rw [zoneTmpl_cases]
  by_cases hz : z.h = 0 ∧ z.mi = 0
  · rw [if_pos hz]; exact hu
  · rw [if_neg hz]; exact ho

/-- `get_info` on the specified text finds exactly the specified groups and the point's offset. -/
theorem getInfo_stdText (cfg : Cfg) (hpt : cfg.pt ∈ parserTables) (hb : cfg.pt.basicOnly = false)
    (p : TP) (hz : p.tz.Valid) :
    ∃ e, getInfo cfg (stdText cfg.pt.ned p) =
      some { dateEnv := dateEnv cfg.pt.ned p.date, dateTrunc := false, timeEnv := timeEnv p,
             zone := ⟨some p.tz.h, some p.tz.mi⟩, expr := e } := by
  obtain ⟨⟨de, hde, hdt, hdc, hdf⟩, ⟨te, hte, htt, htc, htf⟩, _, _⟩ := std_entries cfg.pt hpt hb p.date
  obtain ⟨ze, hze, hzt, hzf⟩ := std_zone_entry cfg.pt hpt hb p.tz
  have key := getInfo_rendered cfg hpt de hde hdc te hte (by rw [htc]; decide) (htf.trans hdf.symm)
    (some (ze, zoneEnv p.tz))
    (by
      intro ze' zenv' h
      simp only [Option.some.injEq, Prod.mk.injEq] at h
      obtain ⟨rfl, rfl⟩ := h
      exact ⟨hze, hzf.trans hdf.symm, by rw [hzt]; exact fits_zone _⟩)
    (dateEnv cfg.pt.ned p.date) (timeEnv p) (by rw [hdt]; exact fits_date _ _)
    (by rw [htt]; exact fits_time p)
  simp only [zoneTextOf, zoneEnvOf, zoneExprOf] at key
  rw [hdt, htt, hzt, designator_eq, processZone_zoneEnv cfg.zone p.tz hz] at key
  exact ⟨_, key⟩

/-! ## The keyword arguments -/

/-- What `_create_timepoint_from_info` hands to `TimePoint(...)` for the specified text of `p`. -/
def stdArgs (ned : Nat) (p : TP) : Args :=
  let base : Args := { ned := ned, hour := some p.hh, minute := some p.mi, second := some p.ss,
                       tzHour := some p.tz.h, tzMinute := some p.tz.mi }
  match p.date with
  | .cal y mo d => { base with year := some y, month := some mo, day := some d }
  | .ord y doy => { base with year := some y, doy := some doy }
  | .week y w d => { base with year := some y, week := some w, dow := some d }

/-- The fields are spelled by their digit groups without loss. -/
def FieldsFit (p : TP) : Prop :=
  (match p.date with
   | .cal _ mo d => 0 ≤ mo ∧ mo < 100 ∧ 0 ≤ d ∧ d < 100
   | .ord _ doy => 0 ≤ doy ∧ doy < 1000
   | .week _ w d => 0 ≤ w ∧ w < 100 ∧ 0 ≤ d ∧ d < 10) ∧
  0 ≤ p.hh ∧ p.hh < 100 ∧ 0 ≤ p.mi ∧ p.mi < 100 ∧ 0 ≤ p.ss ∧ p.ss < 100

theorem intOf_render_int (w : Nat) (v : Int) (hw : 0 < w) (h0 : 0 ≤ v) (h1 : v.toNat < 10 ^ w) :
    intOf? (renderNat w v.toNat) = some v := by
  rw [intOf_renderNat w _ hw h1, Int.toNat_of_nonneg h0]

theorem year_digits0 (y : Int) (hy : 0 ≤ y ∧ y ≤ 9999) :
    intOf? (renderNat 2 (y.natAbs / 100)) = some ((y.natAbs / 100 : Nat) : Int) ∧
    intOf? (renderNat 2 (y.natAbs % 100)) = some ((y.natAbs % 100 : Nat) : Int) :=
  ⟨intOf_renderNat 2 _ (by decide) (by omega), intOf_renderNat 2 _ (by decide) (by omega)⟩

theorem year_digitsX (ned : Nat) (h0 : ¬ ned = 0) (y : Int) (hy : y.natAbs < 10 ^ (4 + ned)) :
    intOf? (renderNat ned (y.natAbs / 10000)) = some ((y.natAbs / 10000 : Nat) : Int) ∧
    intOf? (renderNat 2 (y.natAbs / 100 % 100)) = some ((y.natAbs / 100 % 100 : Nat) : Int) ∧
    intOf? (renderNat 2 (y.natAbs % 100)) = some ((y.natAbs % 100 : Nat) : Int) := by
  have hlt : y.natAbs / 10000 < 10 ^ ned := by
    rw [Nat.pow_add] at hy
    generalize 10 ^ ned = K at hy ⊢
    omega
  exact ⟨intOf_renderNat ned _ (by omega) hlt, intOf_renderNat 2 _ (by decide) (by omega),
    intOf_renderNat 2 _ (by decide) (by omega)⟩

theorem assemble_std (cfg : Cfg) (p : TP) (hf : FieldsFit p)
    (hy : YearInRange cfg.pt.ned (dateYear p.date)) (e : List Char) :
    assemble cfg { dateEnv := dateEnv cfg.pt.ned p.date, dateTrunc := false, timeEnv := timeEnv p,
                   zone := ⟨some p.tz.h, some p.tz.mi⟩, expr := e } none =
      some (stdArgs cfg.pt.ned p) := by
  obtain ⟨date, hh, mi, ss, tz⟩ := p
  obtain ⟨hd, a1, a2, a3, a4, a5, a6⟩ := hf
  simp only at hd a1 a2 a3 a4 a5 a6
  have ehh : intOf? (renderNat 2 hh.toNat) = some hh := intOf_render_int 2 hh (by decide) a1 (by omega)
  have emi : intOf? (renderNat 2 mi.toNat) = some mi := intOf_render_int 2 mi (by decide) a3 (by omega)
  have ess : intOf? (renderNat 2 ss.toNat) = some ss := intOf_render_int 2 ss (by decide) a5 (by omega)
  cases date with
  | cal y mo d =>
    simp only at hd
    have emo : intOf? (renderNat 2 mo.toNat) = some mo := intOf_render_int 2 mo (by decide) hd.1 (by omega)
    have edd : intOf? (renderNat 2 d.toNat) = some d := intOf_render_int 2 d (by decide) hd.2.2.1 (by omega)
    by_cases h0 : cfg.pt.ned = 0
    · simp only [YearInRange, dateYear, h0, if_true] at hy
      obtain ⟨ecc, eyy⟩ := year_digits0 y hy
      simp [assemble, stdArgs, optInt, Env.has, Env.get?, dateEnv, yearEnv, timeEnv, h0, ecc, eyy, emo, edd,
        ehh, emi, ess]
      omega
    · simp only [YearInRange, dateYear, h0, if_false] at hy
      obtain ⟨exx, ecc, eyy⟩ := year_digitsX _ h0 y hy
      simp [assemble, stdArgs, optInt, Env.has, Env.get?, dateEnv, yearEnv, timeEnv, h0, exx, ecc, eyy, emo,
        edd, ehh, emi, ess]
      split <;> omega
  | ord y doy =>
    simp only at hd
    have edoy : intOf? (renderNat 3 doy.toNat) = some doy := intOf_render_int 3 doy (by decide) hd.1 (by omega)
    by_cases h0 : cfg.pt.ned = 0
    · simp only [YearInRange, dateYear, h0, if_true] at hy
      obtain ⟨ecc, eyy⟩ := year_digits0 y hy
      simp [assemble, stdArgs, optInt, Env.has, Env.get?, dateEnv, yearEnv, timeEnv, h0, ecc, eyy, edoy,
        ehh, emi, ess]
      omega
    · simp only [YearInRange, dateYear, h0, if_false] at hy
      obtain ⟨exx, ecc, eyy⟩ := year_digitsX _ h0 y hy
      simp [assemble, stdArgs, optInt, Env.has, Env.get?, dateEnv, yearEnv, timeEnv, h0, exx, ecc, eyy, edoy,
        ehh, emi, ess]
      split <;> omega
  | week y w d =>
    simp only at hd
    have ew : intOf? (renderNat 2 w.toNat) = some w := intOf_render_int 2 w (by decide) hd.1 (by omega)
    have edd : intOf? (renderNat 1 d.toNat) = some d := intOf_render_int 1 d (by decide) hd.2.2.1 (by omega)
    by_cases h0 : cfg.pt.ned = 0
    · simp only [YearInRange, dateYear, h0, if_true] at hy
      obtain ⟨ecc, eyy⟩ := year_digits0 y hy
      simp [assemble, stdArgs, optInt, Env.has, Env.get?, dateEnv, yearEnv, timeEnv, h0, ecc, eyy, ew, edd,
        ehh, emi, ess]
      omega
    · simp only [YearInRange, dateYear, h0, if_false] at hy
      obtain ⟨exx, ecc, eyy⟩ := year_digitsX _ h0 y hy
      simp [assemble, stdArgs, optInt, Env.has, Env.get?, dateEnv, yearEnv, timeEnv, h0, exx, ecc, eyy, ew,
        edd, ehh, emi, ess]
      split <;> omega

/-! ## The constructor -/

theorem checkBounds_std (m : Mode) (ned : Nat) (p : TP) (hv : p.Valid m) :
    checkBounds m (XTP.ofTP ned p) = true := by
  obtain ⟨date, hh, mi, ss, tz⟩ := p
  obtain ⟨hd, b1, b2, b3, b4, b5, b6, b7, _⟩ := hv
  simp only at hd b1 b2 b3 b4 b5 b6 b7
  have htime : (0 ≤ hh ∧ (hh < 24 ∨ hh = 24)) ∧
      (if hh = 24 then mi = 0 ∧ ss = 0 else (0 ≤ mi ∧ mi < 60) ∧ 0 ≤ ss ∧ ss < 60) := by
    refine ⟨⟨b1, by omega⟩, ?_⟩
    by_cases h24 : hh = 24
    · rw [if_pos h24]; exact b7 h24
    · rw [if_neg h24]; exact ⟨⟨b3, b4⟩, b5, b6⟩
  cases date with
  | cal y mo d =>
    obtain ⟨v1, v2, v3, v4⟩ := hd
    simp [XTP.ofTP, checkBounds, inBounds, monthsInYear_eq, hoursInDay_eq, minutesInHour_eq,
      secondsInMinute_eq, daysInMonth_eq m y mo v1 v2]
    exact ⟨⟨⟨⟨v1, v2⟩, v3, v4⟩, htime.1⟩, htime.2⟩
  | ord y doy =>
    obtain ⟨v1, v2⟩ := hd
    simp [XTP.ofTP, checkBounds, inBounds, hoursInDay_eq, minutesInHour_eq,
      secondsInMinute_eq, daysInYear_eq]
    exact ⟨⟨⟨v1, v2⟩, htime.1⟩, htime.2⟩
  | week y w d =>
    obtain ⟨v1, v2, v3, v4⟩ := hd
    simp [XTP.ofTP, checkBounds, inBounds, hoursInDay_eq, minutesInHour_eq,
      secondsInMinute_eq, daysInWeek_eq, weeksInYear_eq]
    exact ⟨⟨⟨⟨v1, v2⟩, v3, v4⟩, htime.1⟩, htime.2⟩

/-- `TimePoint(...)` on the assembled arguments of a valid point is that point. -/
theorem ctor_std (m : Mode) (ned : Nat) (p : TP) (hv : p.Valid m) :
    ctor m (stdArgs ned p) = some (XTP.ofTP ned p) := by
  have hc := checkBounds_std m ned p hv
  obtain ⟨date, hh, mi, ss, tz⟩ := p
  have htz := Lemmas.Strf.mkTZ_valid m tz hv.2.2.2.2.2.2.2.2
  have hd := hv.1
  cases date with
  | cal y mo d =>
    simp only [XTP.ofTP] at hc
    simp [ctor, stdArgs, XTP.ofTP, htz, truthy, hc]
  | ord y doy =>
    simp only [XTP.ofTP] at hc
    simp [ctor, stdArgs, XTP.ofTP, htz, truthy, hc]
  | week y w d =>
    have hw : w ≠ 0 := by have := hd.1; omega
    simp only [XTP.ofTP] at hc
    simp [ctor, stdArgs, XTP.ofTP, htz, truthy, hw, hc]

/-! ## The round trip -/

theorem fieldsFit_of_valid (m : Mode) (p : TP) (hv : p.Valid m) : FieldsFit p := by
  obtain ⟨date, hh, mi, ss, tz⟩ := p
  obtain ⟨hd, b1, b2, b3, b4, b5, b6, _, _⟩ := hv
  simp only at hd b1 b2 b3 b4 b5 b6
  unfold FieldsFit
  simp only
  refine ⟨?_, b1, by omega, b3, by omega, b5, by omega⟩
  cases date with
  | cal y mo d =>
    obtain ⟨v1, v2, v3, v4⟩ := hd
    have := (monthLen_bounds m y mo v1 v2).2
    exact ⟨by omega, by omega, by omega, by omega⟩
  | ord y doy =>
    obtain ⟨v1, v2⟩ := hd
    have := (yearLen_bounds m y).2
    exact ⟨by omega, by omega⟩
  | week y w d =>
    obtain ⟨v1, v2, v3, v4⟩ := hd
    have := (weeksInYear_bounds m y).2
    exact ⟨by omega, by omega, by omega, by omega⟩

/-- **Parser half of the round trip**: the parser — with the matching number of expanded year digits,
    extended notation allowed, any `allow_truncated`, any default-zone configuration, any calendar
    mode — decodes the specified text of a valid whole-second point to exactly that point. -/
theorem parse_stdText (cfg : Cfg) (hpt : cfg.pt ∈ Gen.Templates.parserTables) (hb : cfg.pt.basicOnly = false)
    (p : TP) (hv : p.Valid cfg.mode) (hy : YearInRange cfg.pt.ned (dateYear p.date)) :
    parse cfg (stdText cfg.pt.ned p) false = some (XTP.ofTP cfg.pt.ned p) := by
  obtain ⟨e, hi⟩ := getInfo_stdText cfg hpt hb p hv.2.2.2.2.2.2.2.2
  unfold parse
  rw [hi]
  simp only [Bool.false_eq_true, if_false]
  rw [assemble_std cfg p (fieldsFit_of_valid cfg.mode p hv) hy e]
  exact ctor_std cfg.mode cfg.pt.ned p hv

/-! ## Non-vacuity: the hypotheses are met by concrete configurations and points
    (the texts are `2000-02-29T24:00:00-00:30`, `-000400-W51-7T00:05:09Z`, `+9999999-366T23:59:59+99:59`,
    cf. the examples in `TextRoundDefs`) -/

example : parse ⟨Gen.Templates.parser_0_all, true, .unknown, .greg⟩
      (stdText 0 ⟨.cal 2000 2 29, 24, 0, 0, ⟨0, -30⟩⟩) false =
    some (XTP.ofTP 0 ⟨.cal 2000 2 29, 24, 0, 0, ⟨0, -30⟩⟩) :=
  parse_stdText ⟨Gen.Templates.parser_0_all, true, .unknown, .greg⟩ (.head _) rfl
    ⟨.cal 2000 2 29, 24, 0, 0, ⟨0, -30⟩⟩ (by decide +kernel) (by decide +kernel)

example : parse ⟨Gen.Templates.parser_2_all, false, .assumed 5 30, .d360⟩
      (stdText 2 ⟨.week (-400) 51 7, 0, 5, 9, ⟨0, 0⟩⟩) false =
    some (XTP.ofTP 2 ⟨.week (-400) 51 7, 0, 5, 9, ⟨0, 0⟩⟩) :=
  parse_stdText ⟨Gen.Templates.parser_2_all, false, .assumed 5 30, .d360⟩ (.tail _ (.tail _ (.head _))) rfl
    ⟨.week (-400) 51 7, 0, 5, 9, ⟨0, 0⟩⟩ (by decide +kernel) (by decide +kernel)

example : parse ⟨Gen.Templates.parser_3_all, true, .localOffset 1 0, .d366⟩
      (stdText 3 ⟨.ord 9999999 366, 23, 59, 59, ⟨99, 59⟩⟩) false =
    some (XTP.ofTP 3 ⟨.ord 9999999 366, 23, 59, 59, ⟨99, 59⟩⟩) :=
  parse_stdText ⟨Gen.Templates.parser_3_all, true, .localOffset 1 0, .d366⟩
    (.tail _ (.tail _ (.tail _ (.tail _ (.head _))))) rfl
    ⟨.ord 9999999 366, 23, 59, 59, ⟨99, 59⟩⟩ (by decide +kernel) (by decide +kernel)

end IsoDT.Text
