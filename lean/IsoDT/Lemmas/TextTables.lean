/-
  IsoDT.Lemmas.TextTables — the structural facts about the regenerated tables (`Gen.Templates`) that the
  text-layer theorems rest on, each decided by kernel evaluation over all parser configurations.
  A change of a token, width, character or of the order of a table re-runs these.
-/
import IsoDT.Lemmas.TextParse

namespace IsoDT.Text
open IsoDT
open _root_.IsoDT.Gen.Templates (timeDesignator dateTypeOrder parserTables)

def noT (t : Template) : Bool := !(litChars t).contains timeDesignator

def otherFormat : FormatKey → FormatKey
  | .basic => .extended
  | .extended => .basic

/-- A zone regular expression is `Z`, or a sign followed by digits and colons only. -/
def zoneShapeOK : Template → Bool
  | [.group .tzUtc ['Z']] => true
  | .sign .tzSign :: rest => (litChars rest).all (· == ':')
  | _ => false

def completeDateOK (e : Entry) : Bool :=
  !(groupFields e.tmpl).contains .truncated && (groupFields e.tmpl).contains .century &&
    (tmatch e.tmpl []).isNone

def plainTimeOK (e : Entry) : Bool :=
  !(groupFields e.tmpl).contains .truncated &&
    (litChars e.tmpl).all (fun c => c == ':' || c == ',' || c == '.') && (tmatch e.tmpl []).isNone

/-- Everything the generic theorems need to know about one configuration's tables. -/
def tableOK (pt : ParserTables) : Bool :=
  pt.dateEntries.all (fun e => wf e.tmpl && noT e.tmpl && pt.formats.contains e.fmt) &&
  pt.timeEntries.all (fun e => wf e.tmpl && noT e.tmpl) &&
  pt.zoneEntries.all (fun e => wf e.tmpl && noT e.tmpl && zoneShapeOK e.tmpl) &&
  allAfter okPair (dateOrder pt (dateTypes false [.reduced])) &&
  allAfter okPair (dateOrder pt (dateTypes true [.reduced])) &&
  allAfter okPair (dateOrder pt (dateTypes false [])) &&
  allAfter okPairT pt.timeEntries &&
  allAfter okPairZ pt.zoneEntries &&
  pt.dateEntries.all (fun e => e.typ != .complete || completeDateOK e) &&
  pt.timeEntries.all (fun e => e.typ == .truncated || plainTimeOK e) &&
  pt.formats.all (fun f => pt.formats.count f == 1)

set_option maxRecDepth 100000 in
theorem tables_ok : parserTables.all tableOK = true := by decide +kernel

theorem tableOK_of_mem (pt : ParserTables) (h : pt ∈ parserTables) : tableOK pt = true :=
  List.all_eq_true.mp tables_ok pt h

theorem designator_eq : timeDesignator = 'T' := by decide

end IsoDT.Text
