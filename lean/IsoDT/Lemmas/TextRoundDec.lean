/-
  IsoDT.Lemmas.TextRoundDec — the text round trip for the three DECIMAL forms of a time point
  (`Thh,ii`, `Thh:mm,nn`, `Thh:mm:ss,tt`): the points concerned (`DTP`), their text-layer value
  (`DTP.toXTP`), the text they are specified to print as (`decText`, in the style of `stdText`), the
  point the parser is specified to read back (`DTP.reparsed`: the fraction as printed, i.e. without
  its trailing zeros; a decimal-second point with a zero fraction prints no fraction and reads back as
  the whole-second point), and the two halves `str = decText`, `parse decText = reparsed`.

  The dumper half reuses the opaque-digit-block machinery of `TextRoundStr` for the year; the time
  part of the format is concrete per form.  The parser half reuses `getInfo_rendered` (`TextDecode`)
  and the `_check_bounds` split of `TextDecodeAll`.
-/
import IsoDT.Lemmas.TextRoundStr
import IsoDT.Lemmas.TextRoundParse
import IsoDT.Lemmas.TextDecodeAll

namespace IsoDT.Text
open IsoDT IsoDT.Model IsoDT.Lemmas
open IsoDT.Spec (Date TZ TP)
open _root_.IsoDT.Gen.Templates (timeDesignator dumper_0 dumper_2 dumper_3 dumpTables parserTables)

/-! ## Trailing zeros of a fraction -/

/-- The significant digits of a fraction: trailing zeros dropped (possibly nothing left). -/
def sig (s : List Char) : List Char := (s.reverse.dropWhile (· = '0')).reverse

theorem stripZeros_eq (s : List Char) : stripZeros s = if sig s = [] then ['0'] else sig s := by
  unfold stripZeros sig
  simp only [List.isEmpty_iff]

theorem snoc_induction {P : List Char → Prop} (h0 : P []) (h1 : ∀ s c, P s → P (s ++ [c])) :
    ∀ s, P s := by
  intro s
  have : ∀ l : List Char, P l.reverse := by
    intro l
    induction l with
    | nil => exact h0
    | cons c l ih => rw [List.reverse_cons]; exact h1 _ _ ih
  simpa using this s.reverse

theorem sig_snoc (s : List Char) (c : Char) : sig (s ++ [c]) = if c = '0' then sig s else s ++ [c] := by
  unfold sig
  by_cases h : c = '0'
  · simp [h]
  · simp [h]

theorem sig_nil : sig [] = [] := rfl

/-- A fraction is its significant digits followed by zeros. -/
theorem sig_decomp : ∀ s : List Char, ∃ k, s = sig s ++ List.replicate k '0' := by
  refine snoc_induction ⟨0, rfl⟩ ?_
  intro s c ⟨k, hk⟩
  rw [sig_snoc]
  by_cases h : c = '0'
  · subst h
    refine ⟨k + 1, ?_⟩
    rw [if_pos rfl, List.replicate_succ', ← List.append_assoc, ← hk]
  · exact ⟨0, by simp [h]⟩

/-- The significant digits do not end in a zero. -/
theorem sig_last : ∀ s : List Char, sig s = [] ∨ ∃ r c, sig s = r ++ [c] ∧ c ≠ '0' := by
  refine snoc_induction (Or.inl rfl) ?_
  intro s c ih
  rw [sig_snoc]
  by_cases h : c = '0'
  · rw [if_pos h]; exact ih
  · rw [if_neg h]; exact Or.inr ⟨s, c, rfl, h⟩

theorem sig_sig (s : List Char) : sig (sig s) = sig s := by
  rcases sig_last s with h | ⟨r, c, h, hc⟩
  · rw [h]; rfl
  · rw [h, sig_snoc, if_neg hc]

theorem fracZero_snoc (s : List Char) (c : Char) : fracZero (s ++ [c]) = (fracZero s && decide (c = '0')) := by
  simp [fracZero]

theorem sig_eq_nil_iff : ∀ s : List Char, sig s = [] ↔ fracZero s = true := by
  refine snoc_induction (by simp [sig_nil, fracZero]) ?_
  intro s c ih
  rw [sig_snoc, fracZero_snoc]
  by_cases h : c = '0'
  · simp [h, ih]
  · simp [h]

theorem sig_digits (s : List Char) (h : s.all isDigit = true) : (sig s).all isDigit = true := by
  obtain ⟨k, hk⟩ := sig_decomp s
  rw [hk, List.all_append, Bool.and_eq_true] at h
  exact h.1

theorem sig_length (s : List Char) : (sig s).length ≤ s.length := by
  obtain ⟨k, hk⟩ := sig_decomp s
  have := congrArg List.length hk
  simp at this
  omega

theorem digitsVal_snoc (s : List Char) (c : Char) :
    digitsVal (s ++ [c]) = 10 * digitsVal s + (c.toNat - 48) := by
  simp [digitsVal]

theorem digitsVal_zeros (s : List Char) (k : Nat) :
    digitsVal (s ++ List.replicate k '0') = digitsVal s * 10 ^ k := by
  induction k with
  | zero => simp
  | succ k ih =>
    rw [List.replicate_succ', ← List.append_assoc, digitsVal_snoc, ih, Nat.pow_succ]
    have : ('0' : Char).toNat - 48 = 0 := by decide
    rw [this, Nat.add_zero, Nat.mul_comm 10, Nat.mul_assoc]

/-! ### `_decimal_string` -/

theorem stripZeros_ne (s : List Char) : stripZeros s ≠ [] := by
  rw [stripZeros_eq]
  split
  · simp
  · assumption

theorem stripZeros_digits (s : List Char) (h : s.all isDigit = true) :
    (stripZeros s).all isDigit = true := by
  rw [stripZeros_eq]
  split
  · decide
  · exact sig_digits s h

theorem stripZeros_length (s : List Char) (h : s ≠ []) : (stripZeros s).length ≤ s.length := by
  rw [stripZeros_eq]
  split
  · cases s with
    | nil => exact absurd rfl h
    | cons _ _ => simp
  · exact sig_length s

theorem sig_zero : sig ['0'] = [] := by decide

/-- Printing is idempotent: the printed fraction prints as itself. -/
theorem stripZeros_idem (s : List Char) : stripZeros (stripZeros s) = stripZeros s := by
  rw [stripZeros_eq s]
  split
  · decide
  · rename_i h
    rw [stripZeros_eq, sig_sig, if_neg h]

/-- The printed fraction is zero exactly when the fraction is. -/
theorem fracZero_stripZeros (s : List Char) : fracZero (stripZeros s) = fracZero s := by
  rw [stripZeros_eq]
  split
  · rename_i h
    rw [(sig_eq_nil_iff s).mp h]; rfl
  · rename_i h
    have h1 : fracZero s = false := by
      cases hf : fracZero s with
      | false => rfl
      | true => exact absurd ((sig_eq_nil_iff s).mpr hf) h
    have h2 : fracZero (sig s) = false := by
      cases hf : fracZero (sig s) with
      | false => rfl
      | true =>
        have := (sig_eq_nil_iff (sig s)).mpr hf
        rw [sig_sig] at this
        exact absurd this h
    rw [h1, h2]

/-- The printed fraction is the same NUMBER as the fraction (numerators cross-multiplied by the
    powers of ten of the two lengths). -/
theorem stripZeros_value (s : List Char) :
    digitsVal (stripZeros s) * 10 ^ s.length = digitsVal s * 10 ^ (stripZeros s).length := by
  obtain ⟨k, hk⟩ := sig_decomp s
  rw [stripZeros_eq]
  split
  · rename_i h
    rw [h, List.nil_append] at hk
    have h0 : digitsVal s = 0 := by
      have := digitsVal_zeros [] k
      rw [List.nil_append, ← hk] at this
      rw [this]; simp [digitsVal]
    rw [h0]
    simp [digitsVal]
  · have hv : digitsVal s = digitsVal (sig s) * 10 ^ k := by
      have := digitsVal_zeros (sig s) k
      rw [← hk] at this; exact this
    have hl : s.length = (sig s).length + k := by
      have := congrArg List.length hk
      simpa using this
    rw [hv, hl, Nat.pow_add, Nat.mul_assoc, Nat.mul_comm (10 ^ k)]

/-! ## The points with a decimal fraction -/

/-- The time of day of a point whose LAST given unit carries a decimal fraction `ds` (the digit
    string after the decimal sign); the lower units are absent. -/
inductive DTime where
  /-- `hh,ds`: a decimal hour -/
  | hour (hh : Int) (ds : List Char)
  /-- `hh:mm,ds`: a decimal minute -/
  | minute (hh mi : Int) (ds : List Char)
  /-- `hh:mm:ss,ds`: a decimal second -/
  | second (hh mi ss : Int) (ds : List Char)
  deriving DecidableEq, Repr, Inhabited

/-- A non-truncated point with a decimal hour, minute or second. -/
structure DTP where
  date : Date
  time : DTime
  tz : TZ
  deriving DecidableEq, Repr, Inhabited

def DTime.hh : DTime → Int
  | .hour hh _ => hh
  | .minute hh _ _ => hh
  | .second hh _ _ _ => hh

def DTime.ds : DTime → List Char
  | .hour _ ds => ds
  | .minute _ _ ds => ds
  | .second _ _ _ ds => ds

/-- A fraction the dumper's six decimal digits can spell: a non-empty string of at most six digits. -/
def FracOK (ds : List Char) : Prop := ds ≠ [] ∧ ds.all isDigit = true ∧ ds.length ≤ 6

instance (ds : List Char) : Decidable (FracOK ds) := by unfold FracOK; infer_instance

/-- Legal time of day: hour 0..23 with minute and second 0..59 and any fraction, or exactly 24 with
    every given lower unit zero and a zero fraction. -/
def DTime.Valid : DTime → Prop
  | .hour hh ds => FracOK ds ∧ 0 ≤ hh ∧ hh ≤ 24 ∧ (hh = 24 → fracZero ds = true)
  | .minute hh mi ds =>
    FracOK ds ∧ 0 ≤ hh ∧ hh ≤ 24 ∧ 0 ≤ mi ∧ mi < 60 ∧ (hh = 24 → mi = 0 ∧ fracZero ds = true)
  | .second hh mi ss ds =>
    FracOK ds ∧ 0 ≤ hh ∧ hh ≤ 24 ∧ 0 ≤ mi ∧ mi < 60 ∧ 0 ≤ ss ∧ ss < 60 ∧
      (hh = 24 → mi = 0 ∧ ss = 0 ∧ fracZero ds = true)

instance (t : DTime) : Decidable t.Valid := by cases t <;> unfold DTime.Valid <;> infer_instance

/-- Legal input: a real date (in its own representation), a legal time of day, a legal offset. -/
def DTP.Valid (m : Mode) (d : DTP) : Prop := d.date.Valid m ∧ d.time.Valid ∧ d.tz.Valid

instance (m : Mode) (d : DTP) : Decidable (d.Valid m) := by unfold DTP.Valid; infer_instance

/-- Replace the time-of-day fields. -/
def XTP.withTime (p : XTP) (h mi s : Option Int) (hd md sd : Option (List Char)) : XTP :=
  { p with hour := h, minute := mi, second := s, hourDec := hd, minuteDec := md, secondDec := sd }

/-- The date and zone fields of a non-truncated point (time 00:00:00). -/
def dateBase (ned : Nat) (date : Date) (tz : TZ) : XTP := XTP.ofTP ned ⟨date, 0, 0, 0, tz⟩

/-- The text-layer value of a decimal point carrying `ned` expanded year digits: the fraction is
    attached to its unit and the lower units are absent. -/
def DTP.toXTP (ned : Nat) (d : DTP) : XTP :=
  match d.time with
  | .hour hh ds => (dateBase ned d.date d.tz).withTime (some hh) none none (some ds) none none
  | .minute hh mi ds => (dateBase ned d.date d.tz).withTime (some hh) (some mi) none none (some ds) none
  | .second hh mi ss ds =>
    (dateBase ned d.date d.tz).withTime (some hh) (some mi) (some ss) none none (some ds)

theorem ofTP_withTime (ned : Nat) (date : Date) (hh mi ss : Int) (tz : TZ) :
    XTP.ofTP ned ⟨date, hh, mi, ss, tz⟩ =
      (dateBase ned date tz).withTime (some hh) (some mi) (some ss) none none none := by
  cases date <;> rfl

/-! ## The specified text -/

/-- `hh,FFF` / `hh:mm,FFF` / `hh:mm:ss,FFF` — and `hh:mm:ss` for a decimal second whose fraction is
    zero (`_get_dump_format` then chooses the whole-second format). -/
def dtimeTmpl : DTime → Template
  | .hour .. => [.digits .hourOfDay 2, .lit ',', .digitsPlus .hourDec]
  | .minute .. => [.digits .hourOfDay 2, .lit ':', .digits .minuteOfHour 2, .lit ',', .digitsPlus .minuteDec]
  | .second _ _ _ ds =>
    if fracZero ds then timeTmpl
    else [.digits .hourOfDay 2, .lit ':', .digits .minuteOfHour 2, .lit ':', .digits .secondOfMinute 2,
          .lit ',', .digitsPlus .secondDec]

/-- The group texts: two-digit units, and the fraction as `_decimal_string` prints it (trailing zeros
    stripped, at least one digit). -/
def dtimeEnv : DTime → Env
  | .hour hh ds => [(.hourOfDay, renderNat 2 hh.toNat), (.hourDec, stripZeros ds)]
  | .minute hh mi ds =>
    [(.hourOfDay, renderNat 2 hh.toNat), (.minuteOfHour, renderNat 2 mi.toNat), (.minuteDec, stripZeros ds)]
  | .second hh mi ss ds =>
    if fracZero ds then
      [(.hourOfDay, renderNat 2 hh.toNat), (.minuteOfHour, renderNat 2 mi.toNat),
       (.secondOfMinute, renderNat 2 ss.toNat)]
    else
      [(.hourOfDay, renderNat 2 hh.toNat), (.minuteOfHour, renderNat 2 mi.toNat),
       (.secondOfMinute, renderNat 2 ss.toNat), (.secondDec, stripZeros ds)]

/-- The specified text of a decimal point carrying `ned` expanded year digits: date and zone as
    `stdText`, the time with its fraction. -/
def decText (ned : Nat) (d : DTP) : List Char :=
  trender (dateTmpl ned d.date) (dateEnv ned d.date) ++
    'T' :: (trender (dtimeTmpl d.time) (dtimeEnv d.time) ++ trender (zoneTmpl d.tz) (zoneEnv d.tz))

example : decText 0 ⟨.cal 2000 2 29, .hour 12 "500".toList, ⟨0, -30⟩⟩ = "2000-02-29T12,5-00:30".toList := by
  decide +kernel
example : decText 2 ⟨.week (-400) 53 7, .minute 0 5 "0250".toList, ⟨0, 0⟩⟩ = "-000400-W53-7T00:05,025Z".toList := by
  decide +kernel
example : decText 3 ⟨.ord 9999999 366, .second 23 59 59 "999999".toList, ⟨99, 59⟩⟩ =
    "+9999999-366T23:59:59,999999+99:59".toList := by decide +kernel
example : decText 0 ⟨.cal 2000 2 29, .second 24 0 0 "000".toList, ⟨1, 0⟩⟩ = "2000-02-29T24:00:00+01:00".toList := by
  decide +kernel
example : decText 0 ⟨.cal 2000 2 29, .hour 24 "000".toList, ⟨0, 0⟩⟩ = "2000-02-29T24,0Z".toList := by
  decide +kernel

/-! ## What the parser reads back -/

/-- The fraction as printed. -/
def DTime.norm : DTime → DTime
  | .hour hh ds => .hour hh (stripZeros ds)
  | .minute hh mi ds => .minute hh mi (stripZeros ds)
  | .second hh mi ss ds => .second hh mi ss (stripZeros ds)

def DTP.norm (d : DTP) : DTP := { d with time := d.time.norm }

/-- The point the text of `d` denotes: `d` with its fraction as printed (without trailing zeros) — the
    same unit values and the same fraction as a number (`stripZeros_value`); a decimal-second point
    with a zero fraction prints as, and reads back as, the whole-second point. -/
def DTP.reparsed (ned : Nat) (d : DTP) : XTP :=
  match d.time with
  | .second hh mi ss ds =>
    if fracZero ds then XTP.ofTP ned ⟨d.date, hh, mi, ss, d.tz⟩ else d.norm.toXTP ned
  | _ => d.norm.toXTP ned

/-! ## Dumper half: pieces that do not read the time of day -/

/-- A piece of a compiled expression that does not read the time-of-day fields. -/
def timeFree : Seg → Bool
  | .dir (.int pr _) => !(pr == .hourOfDay || pr == .minuteOfHour || pr == .secondOfMinute)
  | .dir (.str pr) => !(pr == .hourDecStr || pr == .minuteDecStr || pr == .secondDecStr)
  | _ => true

theorem intProp_withTime (m : Mode) (p : XTP) (h mi s : Option Int) (hd md sd : Option (List Char))
    (pr : DProp) (w : Nat) (hp : timeFree (.dir (.int pr w)) = true) :
    intProp m (p.withTime h mi s hd md sd) pr = intProp m p pr := by
  cases pr <;> first | rfl | (revert hp; simp [timeFree])

theorem strProp_withTime (p : XTP) (h mi s : Option Int) (hd md sd : Option (List Char))
    (pr : DProp) (hp : timeFree (.dir (.str pr)) = true) :
    strProp (p.withTime h mi s hd md sd) pr = strProp p pr := by
  cases pr <;> first | rfl | exact absurd hp (by decide)

theorem renderSegs_withTime (m : Mode) (p : XTP) (h mi s : Option Int) (hd md sd : Option (List Char))
    (segs : List Seg) (hs : segs.all timeFree = true) :
    renderSegs m (p.withTime h mi s hd md sd) segs = renderSegs m p segs := by
  induction segs with
  | nil => rfl
  | cons sg rest ih =>
    simp only [List.all_cons, Bool.and_eq_true] at hs
    have ih := ih hs.2
    cases sg with
    | raw c => simp only [renderSegs, ih]
    | dir o =>
      cases o with
      | lit c => simp only [renderSegs, ih]
      | int pr w => simp only [renderSegs, ih, intProp_withTime m p h mi s hd md sd pr w hs.1]
      | str pr => simp only [renderSegs, ih, strProp_withTime p h mi s hd md sd pr hs.1]

theorem dateSegsK_timeFree : ∀ k ∈ [0, 1, 2], (dateSegsK k).all timeFree = true := by decide

theorem zoneSegs_timeFree (z : TZ) : (zoneSegs z).all timeFree = true := by
  unfold zoneSegs; split <;> decide

/-! ## `_get_dump_format` of a point with any time-of-day fields -/

/-- The time part of the default format, by which units are present. -/
def timeFmt (mi s : Option Int) (sd : Option (List Char)) : List Char :=
  ['h', 'h'] ++
    (if mi.isNone then [',', 'i', 'i']
     else [':', 'm', 'm'] ++
       (if s.isNone then [',', 'n', 'n']
        else [':', 's', 's'] ++
          (if (sd.map fun s => !fracZero s).getD false then [',', 't', 't'] else [])))

theorem dumpFormat_withTime (ned : Nat) (date : Date) (tz : TZ) (hy : YearInRange ned (dateYear date))
    (h mi s : Option Int) (hd md sd : Option (List Char)) :
    getDumpFormat ((dateBase ned date tz).withTime h mi s hd md sd) =
      .ok ((ySign ned (dateYear date) ++ yDigits ned (dateYear date) ++ dateSuffixK date.rep) ++
        'T' :: (timeFmt mi s sd ++ zoneSuffix tz)) := by
  obtain ⟨hlt, hpos⟩ := yearInRange_lt ned _ hy
  have hp := padNat_eq _ _ hlt
  cases date <;>
  · simp only [dateYear] at hlt hpos hp
    simp only [getDumpFormat, XTP.ofTP, XTP.withTime, dateBase, dateYear, ySign, yDigits, dateSuffixK,
      Date.rep, zoneSuffix, timeFmt]
    by_cases hn : ned = 0
    · subst hn
      have hneg := hpos rfl
      simp only [Nat.add_zero] at hp
      by_cases hz : tz.h = 0 ∧ tz.mi = 0 <;> simp [hz, hp, Int.not_lt.mpr hneg] <;> congr
    · by_cases hz : tz.h = 0 ∧ tz.mi = 0 <;> simp [hn, hz, hp] <;> (constructor <;> congr)


/-! ## `_dump_expression_with_properties` when nothing has to change (any non-truncated point) -/

theorem dumpExpr_plain (m : Mode) (dt : DumpTables) (p : XTP) (y : Int) (segs : List Seg)
    (props : List DProp) (custom : Option (Int × Int))
    (htr : p.truncated = false) (hyr : p.year = some y) (hunk : p.tzUnknown = false)
    (hW : (props.contains .weekOfYear || props.contains .dayOfWeek) = p.isWeek)
    (hC : (p.isWeek &&
      (props.contains .monthOfYear || props.contains .dayOfMonth || props.contains .dayOfYear)) = false)
    (hZ : custom = none ∨ (custom = some (0, 0) ∧ p.tz = ⟨0, 0⟩))
    (hcent : props.contains .century = false) (hx : props.contains .expandedYearDigits = false) :
    dumpExpr m dt p ⟨segs, props, custom⟩ =
      match renderSegs m p segs with
      | some s => .ok s
      | none => .error .unsupported := by
  have hsame : p.tz = ⟨0, 0⟩ → p.toTimeZone m ⟨0, 0⟩ = .ok p := by
    intro htz
    unfold XTP.toTimeZone
    simp [hunk, htz]
  unfold dumpExpr
  simp only [htr, Bool.false_eq_true, if_false, hW, hcent, hx, Bool.false_and]
  cases hw : p.isWeek
  · rw [hw] at hC
    simp only [Bool.false_eq_true, if_false, Bool.false_and]
    rcases hZ with rfl | ⟨rfl, htz⟩
    · simp only [bind, Except.bind, hyr]; rfl
    · simp only [bind, Except.bind, mkTZ_zero, hsame htz, hyr]; rfl
  · rw [hw] at hC
    simp only [Bool.true_and] at hC
    simp only [hC, Bool.or_true, if_true]
    rcases hZ with rfl | ⟨rfl, htz⟩
    · simp only [bind, Except.bind, hyr]; rfl
    · simp only [bind, Except.bind, mkTZ_zero, hsame htz, hyr]; rfl

/-! ## The time and zone halves of the decimal formats (concrete) -/

/-- `hh,ii` -/
def fmtH : List Char := ['h', 'h', ',', 'i', 'i']
/-- `hh:mm,nn` -/
def fmtM : List Char := ['h', 'h', ':', 'm', 'm', ',', 'n', 'n']
/-- `hh:mm:ss,tt` -/
def fmtS : List Char := ['h', 'h', ':', 'm', 'm', ':', 's', 's', ',', 't', 't']

def segsH : List Seg := [.dir (.int .hourOfDay 2), .raw ',', .dir (.str .hourDecStr)]
def segsM : List Seg :=
  [.dir (.int .hourOfDay 2), .raw ':', .dir (.int .minuteOfHour 2), .raw ',', .dir (.str .minuteDecStr)]
def segsS : List Seg :=
  [.dir (.int .hourOfDay 2), .raw ':', .dir (.int .minuteOfHour 2), .raw ':', .dir (.int .secondOfMinute 2),
   .raw ',', .dir (.str .secondDecStr)]

def propsH : List DProp := [.hourOfDay, .hourDecStr]
def propsM : List DProp := [.minuteOfHour, .hourOfDay, .minuteDecStr]
def propsS : List DProp := [.minuteOfHour, .hourOfDay, .secondOfMinute, .secondDecStr]

def offFmt : List Char := ['+', 'h', 'h', ':', 'm', 'm']
def offSegs : List Seg := [.dir (.str .tzSign), .dir (.int .tzHourAbs 2), .raw ':', .dir (.int .tzMinuteAbs 2)]
def offProps : List DProp := [.tzMinuteAbs, .tzHourAbs, .tzSign]

/-- What the dumper makes of one time format followed by `Z` / by `+hh:mm`, for every table. -/
def timeCompiles (F : List Char) (TS : List Seg) (TPr : List DProp) : Bool :=
  dumpTables.all fun dt =>
    decide (timeZonePart dt (F ++ ['Z']) = some (TS ++ [.raw 'Z'], TPr ++ [], some (0, 0))) &&
    decide (timeZonePart dt (F ++ offFmt) = some (TS ++ offSegs, TPr ++ offProps, none))

theorem compiles_H : timeCompiles fmtH segsH propsH = true := by decide +kernel
theorem compiles_M : timeCompiles fmtM segsM propsM = true := by decide +kernel
theorem compiles_S : timeCompiles fmtS segsS propsS = true := by decide +kernel
theorem compiles_W : timeCompiles hmsFmt timeSegs timeProps = true := by decide +kernel

theorem timeZonePart_of (F : List Char) (TS : List Seg) (TPr : List DProp) (hc : timeCompiles F TS TPr = true)
    (dt : DumpTables) (hdt : dt ∈ dumpTables) (z : TZ) :
    timeZonePart dt (F ++ zoneSuffix z) = some (TS ++ zoneSegs z, TPr ++ zoneProps z, zoneCustom z) := by
  have hc := List.all_eq_true.mp hc dt hdt
  simp only [Bool.and_eq_true, decide_eq_true_eq] at hc
  unfold zoneSuffix zoneSegs zoneProps zoneCustom
  by_cases hz : z.h = 0 ∧ z.mi = 0
  · simp only [hz, and_self, if_true]; exact hc.1
  · simp only [hz, if_false]; exact hc.2

/-- The properties a time format contributes do not disturb the representation / year checks of
    `_dump_expression_with_properties`. -/
def propsOK (TPr : List DProp) : Bool :=
  [0, 1, 2].all fun k => [[], offProps].all fun zp =>
    let ps := datePropsK k ++ (TPr ++ zp)
    ((ps.contains .weekOfYear || ps.contains .dayOfWeek) == decide (k = 2)) &&
    ((decide (k = 2) &&
      (ps.contains .monthOfYear || ps.contains .dayOfMonth || ps.contains .dayOfYear)) == false) &&
    (ps.contains .century == false) && (ps.contains .expandedYearDigits == false)

theorem zoneProps_mem (z : TZ) : zoneProps z ∈ [[], offProps] := by
  unfold zoneProps; split <;> simp [offProps]

theorem propsOK_spec (TPr : List DProp) (h : propsOK TPr = true) (d : Date) (z : TZ) :
    ((datePropsK d.rep ++ (TPr ++ zoneProps z)).contains .weekOfYear ||
      (datePropsK d.rep ++ (TPr ++ zoneProps z)).contains .dayOfWeek) = decide (d.rep = 2) ∧
    (decide (d.rep = 2) &&
      ((datePropsK d.rep ++ (TPr ++ zoneProps z)).contains .monthOfYear ||
       (datePropsK d.rep ++ (TPr ++ zoneProps z)).contains .dayOfMonth ||
       (datePropsK d.rep ++ (TPr ++ zoneProps z)).contains .dayOfYear)) = false ∧
    (datePropsK d.rep ++ (TPr ++ zoneProps z)).contains .century = false ∧
    (datePropsK d.rep ++ (TPr ++ zoneProps z)).contains .expandedYearDigits = false := by
  unfold propsOK at h
  have h1 := List.all_eq_true.mp h d.rep (rep_mem d)
  have h2 := List.all_eq_true.mp h1 (zoneProps z) (zoneProps_mem z)
  simp only [Bool.and_eq_true, beq_iff_eq] at h2
  obtain ⟨⟨⟨a, b⟩, c⟩, e⟩ := h2
  exact ⟨a, b, c, e⟩


/-! ## `str` of a non-truncated point with any time-of-day fields -/

/-- The date and zone of the specified text around a given time text. -/
def textAround (ned : Nat) (date : Date) (tz : TZ) (T : List Char) : List Char :=
  trender (dateTmpl ned date) (dateEnv ned date) ++ 'T' :: (T ++ trender (zoneTmpl tz) (zoneEnv tz))

/-- `str` of a point made of a valid date, a legal zone and ANY time-of-day fields whose default
    format has the time part `F`: if the dumper compiles `F` to `TS` and `TS` renders as the text
    `T`, the result is the specified date, the designator, `T`, and the specified zone. -/
theorem str_withTime (m : Mode) (ned : Nat) (dt : DumpTables) (hdt : dt ∈ dumpTables)
    (htab : dumpTablesFor ned = some dt) (date : Date) (tz : TZ) (hdate : date.Valid m) (hz : tz.Valid)
    (hy : YearInRange ned (dateYear date))
    (h mi s : Option Int) (hd md sd : Option (List Char))
    (F : List Char) (TS : List Seg) (TPr : List DProp) (T : List Char)
    (hF : timeFmt mi s sd = F) (hFT : 'T' ∉ F) (hFp : '%' ∉ F)
    (hc : timeCompiles F TS TPr = true) (hprops : propsOK TPr = true)
    (hrender : renderSegs m ((dateBase ned date tz).withTime h mi s hd md sd) TS = some T) :
    str m ((dateBase ned date tz).withTime h mi s hd md sd) = .ok (textAround ned date tz T) := by
  have hk := rep_mem date
  let P : TP := ⟨date, 0, 0, 0, tz⟩
  -- the format
  have hT_D : 'T' ∉ ySign ned (dateYear date) ++ yDigits ned (dateYear date) ++ dateSuffixK date.rep :=
    notMem_D 'T' (by decide) (by decide) (by decide) (by decide) _ _ _ hk
  have hzs : ∀ c : Char, c ∉ ['Z'] → c ∉ offFmt → c ∉ zoneSuffix tz := by
    intro c h1 h2; unfold zoneSuffix; split
    · exact h1
    · exact h2
  have hT_R : 'T' ∉ F ++ zoneSuffix tz := by
    simp only [List.mem_append, not_or]
    exact ⟨hFT, hzs 'T' (by decide) (by decide)⟩
  have hcont : ((ySign ned (dateYear date) ++ yDigits ned (dateYear date) ++ dateSuffixK date.rep) ++
      'T' :: (F ++ zoneSuffix tz)).contains '%' = false := by
    have a := notMem_D '%' (by decide) (by decide) (by decide) (by decide) ned (dateYear date) _ hk
    have b := hzs '%' (by decide) (by decide)
    have : '%' ∉ (ySign ned (dateYear date) ++ yDigits ned (dateYear date) ++ dateSuffixK date.rep) ++
        'T' :: (F ++ zoneSuffix tz) := by
      simp only [List.mem_append, List.mem_cons, not_or] at a ⊢
      exact ⟨a, by decide, hFp, b⟩
    simpa using this
  -- the rendering
  have hrd : renderSegs m ((dateBase ned date tz).withTime h mi s hd md sd) (dateSegsK date.rep) =
      some (trender (dateRestTmpl date) (dateRestEnv date)) := by
    rw [renderSegs_withTime _ _ _ _ _ _ _ _ _ (dateSegsK_timeFree _ hk)]
    exact render_date m ned P hdate
  have hrz : renderSegs m ((dateBase ned date tz).withTime h mi s hd md sd) (zoneSegs tz) =
      some (trender (zoneTmpl tz) (zoneEnv tz)) := by
    rw [renderSegs_withTime _ _ _ _ _ _ _ _ _ (zoneSegs_timeFree tz)]
    exact render_zone m ned P hz
  have hr : renderSegs m ((dateBase ned date tz).withTime h mi s hd md sd)
      (((ySign ned (dateYear date)).map Seg.raw ++ (yDigits ned (dateYear date)).map Seg.raw ++
          dateSegsK date.rep) ++ Seg.raw 'T' :: (TS ++ zoneSegs tz)) = some (textAround ned date tz T) := by
    have e : textAround ned date tz T =
        ((ySign ned (dateYear date) ++ yDigits ned (dateYear date)) ++
          trender (dateRestTmpl date) (dateRestEnv date)) ++
        ('T' :: (T ++ trender (zoneTmpl tz) (zoneEnv tz))) := by
      unfold textAround
      rw [dateTmpl_eq, dateEnv_eq, trender_year]
    rw [e]
    refine renderSegs_append _ _ _ _ _ _
      (renderSegs_append _ _ _ _ _ _
        (renderSegs_append _ _ _ _ _ _ (renderSegs_raw _ _ _) (renderSegs_raw _ _ _)) hrd) ?_
    have := renderSegs_append m _ _ _ _ _ hrender hrz
    simp only [renderSegs, this, Option.map_some]
  obtain ⟨pW, pC, pcent, px⟩ := propsOK_spec TPr hprops date tz
  have hned : ((dateBase ned date tz).withTime h mi s hd md sd).ned = ned := ofTP_ned ned P
  unfold str
  rw [hned, htab]
  have hfm : ((dateBase ned date tz).withTime h mi s hd md sd).dumpFmt = none := ofTP_dumpFmt ned P
  have htr : ((dateBase ned date tz).withTime h mi s hd md sd).truncated = false := ofTP_truncated ned P
  simp only [hfm, htr, Bool.false_eq_true, if_false]
  rw [dumpFormat_withTime ned date tz hy, hF]
  show dump m dt _ _ = _
  unfold dump
  rw [hcont, getExpr_T dt _ _ hT_D hT_R, timeZonePart_of F TS TPr hc dt hdt,
    compile_date dt hdt _ (ySign_mem _ _) _ hk _ (yDigits_ne _ _) (yDigits_digits _ _)]
  simp only [Bool.false_eq_true, if_false, Option.map_some]
  rw [dumpExpr_plain m dt _ (dateYear date) _ _ _ htr (ofTP_year ned P) (ofTP_tzUnknown ned P)
    (by rw [show ((dateBase ned date tz).withTime h mi s hd md sd).isWeek = decide (date.rep = 2) from
          ofTP_isWeek ned P]; exact pW)
    (by rw [show ((dateBase ned date tz).withTime h mi s hd md sd).isWeek = decide (date.rep = 2) from
          ofTP_isWeek ned P]; exact pC)
    (by have := zoneCustom_ok tz
        rcases this with h | ⟨h1, h2⟩
        · exact Or.inl h
        · exact Or.inr ⟨h1, by rw [← h2]; exact ofTP_tz ned P⟩)
    pcent px, hr]

/-! ## The time part, rendered, per form -/

theorem pad2 (v : Int) (h0 : 0 ≤ v) (h1 : v < 100) : padNat 2 v.toNat = renderNat 2 v.toNat :=
  padNat_eq _ _ (by simp only [Nat.reducePow]; omega)

theorem decimalString_short (ds : List Char) (hl : ds.length ≤ 6) :
    decimalString (some ds) = stripZeros ds := by
  simp [decimalString, hl]

theorem render_H (m : Mode) (B : XTP) (hh : Int) (ds : List Char) (h0 : 0 ≤ hh) (h1 : hh ≤ 24)
    (hl : ds.length ≤ 6) :
    renderSegs m (B.withTime (some hh) none none (some ds) none none) segsH =
      some (trender (dtimeTmpl (.hour hh ds)) (dtimeEnv (.hour hh ds))) := by
  have e1 := pad2 hh h0 (by omega)
  simp [segsH, renderSegs, intProp, strProp, XTP.withTime, decimalString_short ds hl, dtimeTmpl, dtimeEnv,
    trender, e1, h0]

theorem render_M (m : Mode) (B : XTP) (hh mi : Int) (ds : List Char) (h0 : 0 ≤ hh) (h1 : hh ≤ 24)
    (h2 : 0 ≤ mi) (h3 : mi < 60) (hl : ds.length ≤ 6) :
    renderSegs m (B.withTime (some hh) (some mi) none none (some ds) none) segsM =
      some (trender (dtimeTmpl (.minute hh mi ds)) (dtimeEnv (.minute hh mi ds))) := by
  have e1 := pad2 hh h0 (by omega)
  have e2 := pad2 mi h2 (by omega)
  simp [segsM, renderSegs, intProp, strProp, XTP.withTime, decimalString_short ds hl, dtimeTmpl, dtimeEnv,
    trender, e1, e2, h0, h2]

theorem render_S (m : Mode) (B : XTP) (hh mi ss : Int) (ds : List Char) (h0 : 0 ≤ hh) (h1 : hh ≤ 24)
    (h2 : 0 ≤ mi) (h3 : mi < 60) (h4 : 0 ≤ ss) (h5 : ss < 60) (hl : ds.length ≤ 6)
    (hf : fracZero ds = false) :
    renderSegs m (B.withTime (some hh) (some mi) (some ss) none none (some ds)) segsS =
      some (trender (dtimeTmpl (.second hh mi ss ds)) (dtimeEnv (.second hh mi ss ds))) := by
  have e1 := pad2 hh h0 (by omega)
  have e2 := pad2 mi h2 (by omega)
  have e3 := pad2 ss h4 (by omega)
  simp [segsS, renderSegs, intProp, strProp, XTP.withTime, decimalString_short ds hl, dtimeTmpl, dtimeEnv,
    trender, e1, e2, e3, h0, h2, h4, hf]

theorem render_W (m : Mode) (B : XTP) (hh mi ss : Int) (ds : List Char) (h0 : 0 ≤ hh) (h1 : hh ≤ 24)
    (h2 : 0 ≤ mi) (h3 : mi < 60) (h4 : 0 ≤ ss) (h5 : ss < 60) (hf : fracZero ds = true) :
    renderSegs m (B.withTime (some hh) (some mi) (some ss) none none (some ds)) timeSegs =
      some (trender (dtimeTmpl (.second hh mi ss ds)) (dtimeEnv (.second hh mi ss ds))) := by
  have e1 := pad2 hh h0 (by omega)
  have e2 := pad2 mi h2 (by omega)
  have e3 := pad2 ss h4 (by omega)
  simp [timeSegs, timeTmpl, renderSegs, intProp, XTP.withTime, dtimeTmpl, dtimeEnv,
    trender, e1, e2, e3, h0, h2, h4, hf]

/-! ## Dumper half, assembled -/

theorem decText_eq (ned : Nat) (d : DTP) :
    decText ned d = textAround ned d.date d.tz (trender (dtimeTmpl d.time) (dtimeEnv d.time)) := rfl

theorem str_eq_decText_of_table (m : Mode) (ned : Nat) (dt : DumpTables) (hdt : dt ∈ dumpTables)
    (htab : dumpTablesFor ned = some dt) (d : DTP) (hv : d.Valid m)
    (hy : YearInRange ned (dateYear d.date)) :
    str m (d.toXTP ned) = .ok (decText ned d) := by
  obtain ⟨date, time, tz⟩ := d
  obtain ⟨hdate, htime, hz⟩ := hv
  simp only at hdate htime hz hy
  rw [decText_eq]
  cases time with
  | hour hh ds =>
    obtain ⟨⟨_, _, hl⟩, h0, h1, _⟩ := htime
    exact str_withTime m ned dt hdt htab date tz hdate hz hy _ _ _ _ _ _ fmtH segsH propsH _ rfl
      (by decide) (by decide) compiles_H (by decide) (render_H m _ hh ds h0 h1 hl)
  | minute hh mi ds =>
    obtain ⟨⟨_, _, hl⟩, h0, h1, h2, h3, _⟩ := htime
    exact str_withTime m ned dt hdt htab date tz hdate hz hy _ _ _ _ _ _ fmtM segsM propsM _ rfl
      (by decide) (by decide) compiles_M (by decide) (render_M m _ hh mi ds h0 h1 h2 h3 hl)
  | second hh mi ss ds =>
    obtain ⟨⟨_, _, hl⟩, h0, h1, h2, h3, h4, h5, _⟩ := htime
    cases hf : fracZero ds with
    | false =>
      exact str_withTime m ned dt hdt htab date tz hdate hz hy _ _ _ _ _ _ fmtS segsS propsS _
        (by simp [timeFmt, hf, fmtS])
        (by decide) (by decide) compiles_S (by decide) (render_S m _ hh mi ss ds h0 h1 h2 h3 h4 h5 hl hf)
    | true =>
      exact str_withTime m ned dt hdt htab date tz hdate hz hy _ _ _ _ _ _ hmsFmt timeSegs timeProps _
        (by simp [timeFmt, hf, hmsFmt])
        (by decide) (by decide) compiles_W (by decide) (render_W m _ hh mi ss ds h0 h1 h2 h3 h4 h5 hf)

/-- **C08, dumper half, decimal forms**: `str` of a valid point with a decimal hour, minute or second
    of at most six digits — any date representation, calendar mode, legal offset, hour 24 with a zero
    fraction included — is exactly the specified text. -/
theorem str_eq_decText (m : Mode) (ned : Nat) (hned : ned = 0 ∨ ned = 2 ∨ ned = 3) (d : DTP)
    (hv : d.Valid m) (hy : YearInRange ned (dateYear d.date)) :
    str m (d.toXTP ned) = .ok (decText ned d) := by
  rcases hned with rfl | rfl | rfl
  · exact str_eq_decText_of_table m 0 dumper_0 (by simp [dumpTables]) rfl d hv hy
  · exact str_eq_decText_of_table m 2 dumper_2 (by simp [dumpTables]) rfl d hv hy
  · exact str_eq_decText_of_table m 3 dumper_3 (by simp [dumpTables]) rfl d hv hy

/-! ## Parser half: the tables list the decimal forms -/

def tmplH : Template := [.digits .hourOfDay 2, .lit ',', .digitsPlus .hourDec]
def tmplM : Template :=
  [.digits .hourOfDay 2, .lit ':', .digits .minuteOfHour 2, .lit ',', .digitsPlus .minuteDec]
def tmplS : Template :=
  [.digits .hourOfDay 2, .lit ':', .digits .minuteOfHour 2, .lit ':', .digits .secondOfMinute 2,
   .lit ',', .digitsPlus .secondDec]

def hasTime (pt : ParserTables) (t : Template) : Bool :=
  pt.timeEntries.any fun e => decide (e.tmpl = t) && decide (e.typ = .complete) && decide (e.fmt = .extended)

/-- Every configuration that allows extended notation lists `hh,ii`, `hh:mm,nn`, `hh:mm:ss,tt` (and
    `hh:mm:ss`) as complete extended time forms. -/
def decOK (pt : ParserTables) : Bool :=
  pt.basicOnly || (hasTime pt tmplH && hasTime pt tmplM && hasTime pt tmplS && hasTime pt timeTmpl)

set_option maxRecDepth 100000 in
theorem dec_tables : parserTables.all decOK = true := by decide +kernel

theorem dtimeTmpl_cases (t : DTime) :
    dtimeTmpl t = tmplH ∨ dtimeTmpl t = tmplM ∨ dtimeTmpl t = tmplS ∨ dtimeTmpl t = timeTmpl := by
  cases t with
  | hour => exact Or.inl rfl
  | minute => exact Or.inr (Or.inl rfl)
  | second hh mi ss ds =>
    cases hf : fracZero ds
    · exact Or.inr (Or.inr (Or.inl (by simp [dtimeTmpl, hf, tmplS])))
    · exact Or.inr (Or.inr (Or.inr (by simp [dtimeTmpl, hf])))

theorem dec_entry (pt : ParserTables) (h : pt ∈ parserTables) (hb : pt.basicOnly = false) (t : DTime) :
    ∃ te ∈ pt.timeEntries, te.tmpl = dtimeTmpl t ∧ te.typ = .complete ∧ te.fmt = .extended := by
  have hk := List.all_eq_true.mp dec_tables pt h
  simp only [decOK, hb, Bool.false_or, Bool.and_eq_true, hasTime, List.any_eq_true, decide_eq_true_eq] at hk
  obtain ⟨⟨⟨h1, h2⟩, h3⟩, h4⟩ := hk
  rcases dtimeTmpl_cases t with e | e | e | e <;> rw [e]
  · obtain ⟨x, hx, ⟨a, b⟩, c⟩ := h1; exact ⟨x, hx, a, b, c⟩
  · obtain ⟨x, hx, ⟨a, b⟩, c⟩ := h2; exact ⟨x, hx, a, b, c⟩
  · obtain ⟨x, hx, ⟨a, b⟩, c⟩ := h3; exact ⟨x, hx, a, b, c⟩
  · obtain ⟨x, hx, ⟨a, b⟩, c⟩ := h4; exact ⟨x, hx, a, b, c⟩

/-- The group texts fit the template (the printed fraction is a non-empty digit string). -/
theorem fits_dtime (t : DTime) (hd : t.ds.all isDigit = true) : fits (dtimeTmpl t) (dtimeEnv t) = true := by
  cases t with
  | hour hh ds =>
    simp [dtimeTmpl, dtimeEnv, fits, renderNat_length, renderNat_digits, stripZeros_ne]
    exact List.all_eq_true.mp (stripZeros_digits ds hd)
  | minute hh mi ds =>
    simp [dtimeTmpl, dtimeEnv, fits, renderNat_length, renderNat_digits, stripZeros_ne]
    exact List.all_eq_true.mp (stripZeros_digits ds hd)
  | second hh mi ss ds =>
    cases hf : fracZero ds
    · simp [dtimeTmpl, dtimeEnv, hf, fits, renderNat_length, renderNat_digits, stripZeros_ne]
      exact List.all_eq_true.mp (stripZeros_digits ds hd)
    · simp [dtimeTmpl, dtimeEnv, hf, fits, timeTmpl, renderNat_length, renderNat_digits]

/-- `get_info` on the specified text finds exactly the specified groups and the point's offset. -/
theorem getInfo_decText (cfg : Cfg) (hpt : cfg.pt ∈ parserTables) (hb : cfg.pt.basicOnly = false)
    (d : DTP) (hd : d.time.ds.all isDigit = true) (hz : d.tz.Valid) :
    ∃ e, getInfo cfg (decText cfg.pt.ned d) =
      some { dateEnv := dateEnv cfg.pt.ned d.date, dateTrunc := false, timeEnv := dtimeEnv d.time,
             zone := ⟨some d.tz.h, some d.tz.mi⟩, expr := e } := by
  obtain ⟨⟨de, hde, hdt, hdc, hdf⟩, _, _, _⟩ := std_entries cfg.pt hpt hb d.date
  obtain ⟨te, hte, htt, htc, htf⟩ := dec_entry cfg.pt hpt hb d.time
  obtain ⟨ze, hze, hzt, hzf⟩ := std_zone_entry cfg.pt hpt hb d.tz
  have key := getInfo_rendered cfg hpt de hde hdc te hte (by rw [htc]; decide) (htf.trans hdf.symm)
    (some (ze, zoneEnv d.tz))
    (by
      intro ze' zenv' h
      simp only [Option.some.injEq, Prod.mk.injEq] at h
      obtain ⟨rfl, rfl⟩ := h
      exact ⟨hze, hzf.trans hdf.symm, by rw [hzt]; exact fits_zone _⟩)
    (dateEnv cfg.pt.ned d.date) (dtimeEnv d.time) (by rw [hdt]; exact fits_date _ _)
    (by rw [htt]; exact fits_dtime d.time hd)
  simp only [zoneTextOf, zoneEnvOf, zoneExprOf] at key
  rw [hdt, htt, hzt, designator_eq, processZone_zoneEnv cfg.zone d.tz hz] at key
  exact ⟨_, key⟩

/-! ## The keyword arguments, for any time groups -/

/-- The date fields are spelled by their digit groups without loss. -/
def DateFit : Date → Prop
  | .cal _ mo d => 0 ≤ mo ∧ mo < 100 ∧ 0 ≤ d ∧ d < 100
  | .ord _ doy => 0 ≤ doy ∧ doy < 1000
  | .week _ w d => 0 ≤ w ∧ w < 100 ∧ 0 ≤ d ∧ d < 10

theorem dateFit_of_valid (m : Mode) (date : Date) (hd : date.Valid m) : DateFit date := by
  cases date with
  | cal y mo d =>
    obtain ⟨v1, v2, v3, v4⟩ := hd
    have := (monthLen_bounds m y mo v1 v2).2
    exact ⟨by omega, by omega, by omega, by omega⟩
  | ord y doy =>
    obtain ⟨v1, v2⟩ := hd
    have := (yearLen_bounds m y).2
    exact ⟨by omega, by omega⟩
  | week y w d =>
    obtain ⟨v1, v2, v3, v4⟩ := hd
    have := (weeksInYear_bounds m y).2
    exact ⟨by omega, by omega, by omega, by omega⟩

/-- The keyword arguments for a complete date in its own representation, given time-of-day
    arguments and a processed zone. -/
def dateArgs (ned : Nat) (date : Date) (hh mi ss : Option Int) (hd md sd : Option (List Char))
    (z : ZoneInfo) : Args :=
  let base : Args := { ned := ned, hour := hh, minute := mi, second := ss, hourDec := hd,
                       minuteDec := md, secondDec := sd, tzHour := z.hour, tzMinute := z.minute }
  match date with
  | .cal y mo d => { base with year := some y, month := some mo, day := some d }
  | .ord y doy => { base with year := some y, doy := some doy }
  | .week y w d => { base with year := some y, week := some w, dow := some d }

/-- `_create_timepoint_from_info` on the specified date groups and ANY non-truncated time groups:
    the date fields of the point, the time fields as the time groups decode. -/
theorem assemble_date (cfg : Cfg) (date : Date) (hf : DateFit date)
    (hy : YearInRange cfg.pt.ned (dateYear date)) (tenv : Env) (z : ZoneInfo) (e : List Char)
    (hh mi ss : Option Int)
    (h1 : optInt tenv .hourOfDay = some hh) (h2 : optInt tenv .minuteOfHour = some mi)
    (h3 : optInt tenv .secondOfMinute = some ss) (ht : Env.has tenv .truncated = false) :
    assemble cfg { dateEnv := dateEnv cfg.pt.ned date, dateTrunc := false, timeEnv := tenv,
                   zone := z, expr := e } none =
      some (dateArgs cfg.pt.ned date hh mi ss (Env.get? tenv .hourDec) (Env.get? tenv .minuteDec)
        (Env.get? tenv .secondDec) z) := by
  cases date with
  | cal y mo d =>
    simp only [DateFit] at hf
    have emo : intOf? (renderNat 2 mo.toNat) = some mo := intOf_render_int 2 mo (by decide) hf.1 (by omega)
    have edd : intOf? (renderNat 2 d.toNat) = some d := intOf_render_int 2 d (by decide) hf.2.2.1 (by omega)
    by_cases h0 : cfg.pt.ned = 0
    · simp only [YearInRange, dateYear, h0, if_true] at hy
      obtain ⟨ecc, eyy⟩ := year_digits0 y hy
      simp only [assemble, h1, h2, h3, ht]
      simp [dateArgs, optInt, Env.has, Env.get?, dateEnv, yearEnv, h0, ecc, eyy, emo, edd]
      omega
    · simp only [YearInRange, dateYear, h0, if_false] at hy
      obtain ⟨exx, ecc, eyy⟩ := year_digitsX _ h0 y hy
      simp only [assemble, h1, h2, h3, ht]
      simp [dateArgs, optInt, Env.has, Env.get?, dateEnv, yearEnv, h0, exx, ecc, eyy, emo, edd]
      split <;> omega
  | ord y doy =>
    simp only [DateFit] at hf
    have edoy : intOf? (renderNat 3 doy.toNat) = some doy := intOf_render_int 3 doy (by decide) hf.1 (by omega)
    by_cases h0 : cfg.pt.ned = 0
    · simp only [YearInRange, dateYear, h0, if_true] at hy
      obtain ⟨ecc, eyy⟩ := year_digits0 y hy
      simp only [assemble, h1, h2, h3, ht]
      simp [dateArgs, optInt, Env.has, Env.get?, dateEnv, yearEnv, h0, ecc, eyy, edoy]
      omega
    · simp only [YearInRange, dateYear, h0, if_false] at hy
      obtain ⟨exx, ecc, eyy⟩ := year_digitsX _ h0 y hy
      simp only [assemble, h1, h2, h3, ht]
      simp [dateArgs, optInt, Env.has, Env.get?, dateEnv, yearEnv, h0, exx, ecc, eyy, edoy]
      split <;> omega
  | week y w d =>
    simp only [DateFit] at hf
    have ew : intOf? (renderNat 2 w.toNat) = some w := intOf_render_int 2 w (by decide) hf.1 (by omega)
    have edd : intOf? (renderNat 1 d.toNat) = some d := intOf_render_int 1 d (by decide) hf.2.2.1 (by omega)
    by_cases h0 : cfg.pt.ned = 0
    · simp only [YearInRange, dateYear, h0, if_true] at hy
      obtain ⟨ecc, eyy⟩ := year_digits0 y hy
      simp only [assemble, h1, h2, h3, ht]
      simp [dateArgs, optInt, Env.has, Env.get?, dateEnv, yearEnv, h0, ecc, eyy, ew, edd]
      omega
    · simp only [YearInRange, dateYear, h0, if_false] at hy
      obtain ⟨exx, ecc, eyy⟩ := year_digitsX _ h0 y hy
      simp only [assemble, h1, h2, h3, ht]
      simp [dateArgs, optInt, Env.has, Env.get?, dateEnv, yearEnv, h0, exx, ecc, eyy, ew, edd]
      split <;> omega

/-! ## The constructor -/

/-- `_check_bounds` of a valid date with any time-of-day fields is the time-of-day check. -/
theorem checkBounds_withTime (m : Mode) (ned : Nat) (date : Date) (tz : TZ) (hdate : date.Valid m)
    (h mi s : Option Int) (hd md sd : Option (List Char)) :
    checkBounds m ((dateBase ned date tz).withTime h mi s hd md sd) = timeBounds m h mi s hd md sd := by
  rw [checkBounds_split]
  cases date with
  | cal y mo d =>
    show (dateBounds m (some y) (some mo) (some d) none none none && timeBounds m h mi s hd md sd) = _
    rw [(dateBounds_cal m y mo d).mpr hdate, Bool.true_and]
  | ord y doy =>
    show (dateBounds m (some y) none none none (some doy) none && timeBounds m h mi s hd md sd) = _
    rw [(dateBounds_ord m y doy).mpr hdate, Bool.true_and]
  | week y w d =>
    show (dateBounds m (some y) none none (some w) none (some d) && timeBounds m h mi s hd md sd) = _
    rw [(dateBounds_week m y w d).mpr hdate, Bool.true_and]

theorem timeBounds_H (m : Mode) (hh : Int) (ds : List Char) (h0 : 0 ≤ hh) (h1 : hh ≤ 24)
    (h24 : hh = 24 → fracZero ds = true) :
    timeBounds m (some hh) none none (some ds) none none = true := by
  by_cases e : hh = 24
  · subst e; simp [timeBounds, hoursInDay_eq, h24 rfl]
  · simp [timeBounds, hoursInDay_eq, e, h0]; omega

theorem timeBounds_M (m : Mode) (hh mi : Int) (ds : List Char) (h0 : 0 ≤ hh) (h1 : hh ≤ 24)
    (h2 : 0 ≤ mi) (h3 : mi < 60) (h24 : hh = 24 → mi = 0 ∧ fracZero ds = true) :
    timeBounds m (some hh) (some mi) none none (some ds) none = true := by
  by_cases e : hh = 24
  · subst e; simp [timeBounds, hoursInDay_eq, (h24 rfl).1, (h24 rfl).2]
  · simp [timeBounds, hoursInDay_eq, minutesInHour_eq, e, h0, h2, h3]; omega

theorem timeBounds_S (m : Mode) (hh mi ss : Int) (sd : Option (List Char)) (h0 : 0 ≤ hh) (h1 : hh ≤ 24)
    (h2 : 0 ≤ mi) (h3 : mi < 60) (h4 : 0 ≤ ss) (h5 : ss < 60)
    (h24 : hh = 24 → mi = 0 ∧ ss = 0 ∧ (sd.map fracZero).getD true = true) :
    timeBounds m (some hh) (some mi) (some ss) none none sd = true := by
  by_cases e : hh = 24
  · subst e; simp [timeBounds, hoursInDay_eq, (h24 rfl).1, (h24 rfl).2.1, (h24 rfl).2.2]
  · simp [timeBounds, hoursInDay_eq, minutesInHour_eq, secondsInMinute_eq, e, h0, h2, h3, h4, h5]; omega

theorem week_ne_zero (m : Mode) (y w d : Int) (h : (Date.week y w d).Valid m) : w ≠ 0 := by
  have := h.1; omega

/-- `TimePoint(...)` on a valid date, a legal zone and a decimal hour. -/
theorem ctor_H (m : Mode) (ned : Nat) (date : Date) (tz : TZ) (hdate : date.Valid m) (hz : tz.Valid)
    (hh : Int) (ds : List Char) (hb : timeBounds m (some hh) none none (some ds) none none = true) :
    ctor m (dateArgs ned date (some hh) none none (some ds) none none ⟨some tz.h, some tz.mi⟩) =
      some ((dateBase ned date tz).withTime (some hh) none none (some ds) none none) := by
  have hc := checkBounds_withTime m ned date tz hdate (some hh) none none (some ds) none none
  rw [hb] at hc
  have htz := Lemmas.Strf.mkTZ_valid m tz hz
  cases date with
  | cal y mo d =>
    simp only [dateBase, XTP.ofTP, XTP.withTime] at hc
    simp [ctor, dateArgs, dateBase, XTP.ofTP, XTP.withTime, htz, truthy, hc]
  | ord y doy =>
    simp only [dateBase, XTP.ofTP, XTP.withTime] at hc
    simp [ctor, dateArgs, dateBase, XTP.ofTP, XTP.withTime, htz, truthy, hc]
  | week y w d =>
    have hw := week_ne_zero m y w d hdate
    simp only [dateBase, XTP.ofTP, XTP.withTime] at hc
    simp [ctor, dateArgs, dateBase, XTP.ofTP, XTP.withTime, htz, truthy, hw, hc]

theorem ctor_M (m : Mode) (ned : Nat) (date : Date) (tz : TZ) (hdate : date.Valid m) (hz : tz.Valid)
    (hh mi : Int) (ds : List Char) (hb : timeBounds m (some hh) (some mi) none none (some ds) none = true) :
    ctor m (dateArgs ned date (some hh) (some mi) none none (some ds) none ⟨some tz.h, some tz.mi⟩) =
      some ((dateBase ned date tz).withTime (some hh) (some mi) none none (some ds) none) := by
  have hc := checkBounds_withTime m ned date tz hdate (some hh) (some mi) none none (some ds) none
  rw [hb] at hc
  have htz := Lemmas.Strf.mkTZ_valid m tz hz
  cases date with
  | cal y mo d =>
    simp only [dateBase, XTP.ofTP, XTP.withTime] at hc
    simp [ctor, dateArgs, dateBase, XTP.ofTP, XTP.withTime, htz, truthy, hc]
  | ord y doy =>
    simp only [dateBase, XTP.ofTP, XTP.withTime] at hc
    simp [ctor, dateArgs, dateBase, XTP.ofTP, XTP.withTime, htz, truthy, hc]
  | week y w d =>
    have hw := week_ne_zero m y w d hdate
    simp only [dateBase, XTP.ofTP, XTP.withTime] at hc
    simp [ctor, dateArgs, dateBase, XTP.ofTP, XTP.withTime, htz, truthy, hw, hc]

/-- … and a second with (`sd = some ds`) or without (`sd = none`) a decimal fraction. -/
theorem ctor_S (m : Mode) (ned : Nat) (date : Date) (tz : TZ) (hdate : date.Valid m) (hz : tz.Valid)
    (hh mi ss : Int) (sd : Option (List Char))
    (hb : timeBounds m (some hh) (some mi) (some ss) none none sd = true) :
    ctor m (dateArgs ned date (some hh) (some mi) (some ss) none none sd ⟨some tz.h, some tz.mi⟩) =
      some ((dateBase ned date tz).withTime (some hh) (some mi) (some ss) none none sd) := by
  have hc := checkBounds_withTime m ned date tz hdate (some hh) (some mi) (some ss) none none sd
  rw [hb] at hc
  have htz := Lemmas.Strf.mkTZ_valid m tz hz
  cases date with
  | cal y mo d =>
    simp only [dateBase, XTP.ofTP, XTP.withTime] at hc
    simp [ctor, dateArgs, dateBase, XTP.ofTP, XTP.withTime, htz, truthy, hc]
  | ord y doy =>
    simp only [dateBase, XTP.ofTP, XTP.withTime] at hc
    simp [ctor, dateArgs, dateBase, XTP.ofTP, XTP.withTime, htz, truthy, hc]
  | week y w d =>
    have hw := week_ne_zero m y w d hdate
    simp only [dateBase, XTP.ofTP, XTP.withTime] at hc
    simp [ctor, dateArgs, dateBase, XTP.ofTP, XTP.withTime, htz, truthy, hw, hc]

/-! ## Parser half, assembled -/

/-- **C08, parser half, decimal forms**: the parser — matching expanded year digits, extended notation
    allowed, any `allow_truncated`, default zone and calendar mode — decodes the specified text of a
    valid decimal point to that point with its fraction as printed; a decimal second with a zero
    fraction (printed without fraction) to the whole-second point. -/
theorem parse_decText (cfg : Cfg) (hpt : cfg.pt ∈ parserTables) (hb : cfg.pt.basicOnly = false)
    (d : DTP) (hv : d.Valid cfg.mode) (hy : YearInRange cfg.pt.ned (dateYear d.date)) :
    parse cfg (decText cfg.pt.ned d) false = some (d.reparsed cfg.pt.ned) := by
  obtain ⟨date, time, tz⟩ := d
  obtain ⟨hdate, htime, hz⟩ := hv
  simp only at hdate htime hz hy
  have hfit := dateFit_of_valid cfg.mode date hdate
  have hdig : time.ds.all isDigit = true := by
    cases time <;> exact htime.1.2.1
  obtain ⟨e, hi⟩ := getInfo_decText cfg hpt hb ⟨date, time, tz⟩ hdig hz
  unfold parse
  rw [hi]
  simp only [Bool.false_eq_true, if_false]
  cases time with
  | hour hh ds =>
    obtain ⟨_, h0, h1, h24⟩ := htime
    have ehh : intOf? (renderNat 2 hh.toNat) = some hh := intOf_render_int 2 hh (by decide) h0 (by omega)
    have ha := assemble_date cfg date hfit hy (dtimeEnv (.hour hh ds)) ⟨some tz.h, some tz.mi⟩ e
      (some hh) none none (by simp [optInt, Env.get?, dtimeEnv, ehh]) (by simp [optInt, Env.get?, dtimeEnv])
      (by simp [optInt, Env.get?, dtimeEnv]) (by simp [Env.has, Env.get?, dtimeEnv])
    have g1 : Env.get? (dtimeEnv (.hour hh ds)) .hourDec = some (stripZeros ds) := by
      simp [Env.get?, dtimeEnv]
    have g2 : Env.get? (dtimeEnv (.hour hh ds)) .minuteDec = none := by simp [Env.get?, dtimeEnv]
    have g3 : Env.get? (dtimeEnv (.hour hh ds)) .secondDec = none := by simp [Env.get?, dtimeEnv]
    rw [g1, g2, g3] at ha
    rw [ha]
    exact ctor_H cfg.mode _ date tz hdate hz hh (stripZeros ds)
      (timeBounds_H _ hh _ h0 h1 (fun e24 => by rw [fracZero_stripZeros]; exact h24 e24))
  | minute hh mi ds =>
    obtain ⟨_, h0, h1, h2, h3, h24⟩ := htime
    have ehh : intOf? (renderNat 2 hh.toNat) = some hh := intOf_render_int 2 hh (by decide) h0 (by omega)
    have emi : intOf? (renderNat 2 mi.toNat) = some mi := intOf_render_int 2 mi (by decide) h2 (by omega)
    have ha := assemble_date cfg date hfit hy (dtimeEnv (.minute hh mi ds)) ⟨some tz.h, some tz.mi⟩ e
      (some hh) (some mi) none (by simp [optInt, Env.get?, dtimeEnv, ehh])
      (by simp [optInt, Env.get?, dtimeEnv, emi])
      (by simp [optInt, Env.get?, dtimeEnv]) (by simp [Env.has, Env.get?, dtimeEnv])
    have g1 : Env.get? (dtimeEnv (.minute hh mi ds)) .hourDec = none := by simp [Env.get?, dtimeEnv]
    have g2 : Env.get? (dtimeEnv (.minute hh mi ds)) .minuteDec = some (stripZeros ds) := by
      simp [Env.get?, dtimeEnv]
    have g3 : Env.get? (dtimeEnv (.minute hh mi ds)) .secondDec = none := by simp [Env.get?, dtimeEnv]
    rw [g1, g2, g3] at ha
    rw [ha]
    exact ctor_M cfg.mode _ date tz hdate hz hh mi (stripZeros ds)
      (timeBounds_M _ hh mi _ h0 h1 h2 h3
        (fun e24 => ⟨(h24 e24).1, by rw [fracZero_stripZeros]; exact (h24 e24).2⟩))
  | second hh mi ss ds =>
    obtain ⟨_, h0, h1, h2, h3, h4, h5, h24⟩ := htime
    have ehh : intOf? (renderNat 2 hh.toNat) = some hh := intOf_render_int 2 hh (by decide) h0 (by omega)
    have emi : intOf? (renderNat 2 mi.toNat) = some mi := intOf_render_int 2 mi (by decide) h2 (by omega)
    have ess : intOf? (renderNat 2 ss.toNat) = some ss := intOf_render_int 2 ss (by decide) h4 (by omega)
    cases hf : fracZero ds with
    | false =>
      have ha := assemble_date cfg date hfit hy (dtimeEnv (.second hh mi ss ds)) ⟨some tz.h, some tz.mi⟩ e
        (some hh) (some mi) (some ss) (by simp [optInt, Env.get?, dtimeEnv, hf, ehh])
        (by simp [optInt, Env.get?, dtimeEnv, hf, emi]) (by simp [optInt, Env.get?, dtimeEnv, hf, ess])
        (by simp [Env.has, Env.get?, dtimeEnv, hf])
      have g1 : Env.get? (dtimeEnv (.second hh mi ss ds)) .hourDec = none := by
        simp [Env.get?, dtimeEnv, hf]
      have g2 : Env.get? (dtimeEnv (.second hh mi ss ds)) .minuteDec = none := by
        simp [Env.get?, dtimeEnv, hf]
      have g3 : Env.get? (dtimeEnv (.second hh mi ss ds)) .secondDec = some (stripZeros ds) := by
        simp [Env.get?, dtimeEnv, hf]
      rw [g1, g2, g3] at ha
      rw [ha]
      have hr : DTP.reparsed cfg.pt.ned ⟨date, .second hh mi ss ds, tz⟩ =
          (dateBase cfg.pt.ned date tz).withTime (some hh) (some mi) (some ss) none none
            (some (stripZeros ds)) := by
        simp only [DTP.reparsed, hf]; rfl
      rw [hr]
      exact ctor_S cfg.mode _ date tz hdate hz hh mi ss (some (stripZeros ds))
        (timeBounds_S _ hh mi ss _ h0 h1 h2 h3 h4 h5
          (fun e24 => ⟨(h24 e24).1, (h24 e24).2.1, by
            simp only [Option.map_some, Option.getD_some]
            rw [fracZero_stripZeros]; exact (h24 e24).2.2⟩))
    | true =>
      have ha := assemble_date cfg date hfit hy (dtimeEnv (.second hh mi ss ds)) ⟨some tz.h, some tz.mi⟩ e
        (some hh) (some mi) (some ss) (by simp [optInt, Env.get?, dtimeEnv, hf, ehh])
        (by simp [optInt, Env.get?, dtimeEnv, hf, emi]) (by simp [optInt, Env.get?, dtimeEnv, hf, ess])
        (by simp [Env.has, Env.get?, dtimeEnv, hf])
      have g1 : Env.get? (dtimeEnv (.second hh mi ss ds)) .hourDec = none := by
        simp [Env.get?, dtimeEnv, hf]
      have g2 : Env.get? (dtimeEnv (.second hh mi ss ds)) .minuteDec = none := by
        simp [Env.get?, dtimeEnv, hf]
      have g3 : Env.get? (dtimeEnv (.second hh mi ss ds)) .secondDec = none := by
        simp [Env.get?, dtimeEnv, hf]
      rw [g1, g2, g3] at ha
      rw [ha]
      have hr : DTP.reparsed cfg.pt.ned ⟨date, .second hh mi ss ds, tz⟩ =
          (dateBase cfg.pt.ned date tz).withTime (some hh) (some mi) (some ss) none none none := by
        simp only [DTP.reparsed, hf, if_true]; exact ofTP_withTime _ _ _ _ _ _
      rw [hr]
      exact ctor_S cfg.mode _ date tz hdate hz hh mi ss none
        (timeBounds_S _ hh mi ss _ h0 h1 h2 h3 h4 h5
          (fun e24 => ⟨(h24 e24).1, (h24 e24).2.1, rfl⟩))

/-! ## The fraction as a number; the printed point -/

/-- The number a fraction's digit string spells: `0.d₁d₂…`. -/
def fracValue (s : List Char) : Rat := mkRat (digitsVal s) (10 ^ s.length)

/-- `_decimal_string` keeps the value of the fraction. -/
theorem fracValue_stripZeros (s : List Char) : fracValue (stripZeros s) = fracValue s := by
  unfold fracValue
  rw [Rat.mkRat_eq_iff (Nat.ne_of_gt (Nat.pow_pos (by decide))) (Nat.ne_of_gt (Nat.pow_pos (by decide)))]
  have := stripZeros_value s
  exact_mod_cast this

theorem fracOK_stripZeros (ds : List Char) (h : FracOK ds) : FracOK (stripZeros ds) := by
  obtain ⟨h1, h2, h3⟩ := h
  exact ⟨stripZeros_ne ds, stripZeros_digits ds h2, Nat.le_trans (stripZeros_length ds h1) h3⟩

/-- The point with its fraction as printed is a valid point. -/
theorem norm_valid (m : Mode) (d : DTP) (hv : d.Valid m) : d.norm.Valid m := by
  obtain ⟨date, time, tz⟩ := d
  obtain ⟨hdate, htime, hz⟩ := hv
  refine ⟨hdate, ?_, hz⟩
  cases time with
  | hour hh ds =>
    obtain ⟨hf, h0, h1, h24⟩ := htime
    exact ⟨fracOK_stripZeros ds hf, h0, h1, fun e => by rw [fracZero_stripZeros]; exact h24 e⟩
  | minute hh mi ds =>
    obtain ⟨hf, h0, h1, h2, h3, h24⟩ := htime
    exact ⟨fracOK_stripZeros ds hf, h0, h1, h2, h3,
      fun e => ⟨(h24 e).1, by rw [fracZero_stripZeros]; exact (h24 e).2⟩⟩
  | second hh mi ss ds =>
    obtain ⟨hf, h0, h1, h2, h3, h4, h5, h24⟩ := htime
    exact ⟨fracOK_stripZeros ds hf, h0, h1, h2, h3, h4, h5,
      fun e => ⟨(h24 e).1, (h24 e).2.1, by rw [fracZero_stripZeros]; exact (h24 e).2.2⟩⟩

/-- … and prints as the same text. -/
theorem decText_norm (ned : Nat) (d : DTP) : decText ned d.norm = decText ned d := by
  obtain ⟨date, time, tz⟩ := d
  cases time <;>
    simp [decText, DTP.norm, DTime.norm, dtimeTmpl, dtimeEnv, stripZeros_idem, fracZero_stripZeros]

/-- The whole-second point a decimal second with zero fraction collapses to. -/
def DTP.whole (d : DTP) : Option TP :=
  match d.time with
  | .second hh mi ss ds => if fracZero ds then some ⟨d.date, hh, mi, ss, d.tz⟩ else none
  | _ => none

theorem reparsed_of_whole (ned : Nat) (d : DTP) (p : TP) (h : d.whole = some p) :
    d.reparsed ned = XTP.ofTP ned p ∧ decText ned d = stdText ned p ∧
      ∀ m, d.Valid m → p.Valid m := by
  obtain ⟨date, time, tz⟩ := d
  cases time with
  | hour hh ds => simp [DTP.whole] at h
  | minute hh mi ds => simp [DTP.whole] at h
  | second hh mi ss ds =>
    cases hf : fracZero ds with
    | false => simp [DTP.whole, hf] at h
    | true =>
      simp only [DTP.whole, hf, if_true, Option.some.injEq] at h
      subst h
      refine ⟨by simp [DTP.reparsed, hf], ?_, ?_⟩
      · simp [decText, stdText, dtimeTmpl, dtimeEnv, hf, timeEnv]
      · rintro m ⟨hdate, ⟨_, h0, h1, h2, h3, h4, h5, h24⟩, hz⟩
        exact ⟨hdate, h0, h1, h2, h3, h4, h5, fun e => ⟨(h24 e).1, (h24 e).2.1⟩, hz⟩

theorem reparsed_of_not_whole (ned : Nat) (d : DTP) (h : d.whole = none) :
    d.reparsed ned = d.norm.toXTP ned := by
  obtain ⟨date, time, tz⟩ := d
  cases time with
  | hour hh ds => rfl
  | minute hh mi ds => rfl
  | second hh mi ss ds =>
    cases hf : fracZero ds with
    | false => simp [DTP.reparsed, hf]
    | true => simp [DTP.whole, hf] at h

/-- **Fixpoint**: `str` of the point read back is the same text again. -/
theorem str_reparsed (m : Mode) (ned : Nat) (hned : ned = 0 ∨ ned = 2 ∨ ned = 3) (d : DTP)
    (hv : d.Valid m) (hy : YearInRange ned (dateYear d.date)) :
    str m (d.reparsed ned) = .ok (decText ned d) := by
  cases hw : d.whole with
  | none =>
    rw [reparsed_of_not_whole ned d hw, ← decText_norm]
    exact str_eq_decText m ned hned d.norm (norm_valid m d hv) hy
  | some p =>
    obtain ⟨h1, h2, h3⟩ := reparsed_of_whole ned d p hw
    rw [h1, h2]
    have hpd : p.date = d.date := by
      obtain ⟨date, time, tz⟩ := d
      cases time with
      | hour hh ds => simp [DTP.whole] at hw
      | minute hh mi ds => simp [DTP.whole] at hw
      | second hh mi ss ds =>
        simp only [DTP.whole] at hw
        split at hw
        · simp only [Option.some.injEq] at hw; subst hw; rfl
        · cases hw
    exact str_eq_stdText m ned hned p (h3 m hv) (by rw [hpd]; exact hy)

end IsoDT.Text
