/-
  IsoDT.Lemmas.TruncDay — the day-designator loops of `add_truncated` (weekday, day-of-month,
  day-of-year, week): each lands on the FIRST day not earlier than its start whose designator has the
  target value (for the week loop: the first such day with the start's weekday), keeping the time
  of day and the offset.  `add_truncated` itself is cut into its eight parts (`addTruncated_parts`)
  and each part gets a relation between the point it receives and the point it hands on.
-/
import IsoDT.Lemmas.TruncTerm

namespace IsoDT.Lemmas
open IsoDT IsoDT.Model
open IsoDT.Spec (Date TZ TP)

/-! ### what it means for a day (by its day number) to carry a designator value -/

/-- Day number `n` is day `d` of some month. -/
def DomOf (m : Mode) (n d : Int) : Prop := ∃ y mo, Spec.ValidCal m y mo d ∧ Spec.dayNumCal m y mo d = n
/-- Day number `n` is day `k` of some year. -/
def DoyOf (m : Mode) (n k : Int) : Prop := ∃ y, Spec.ValidOrd m y k ∧ Spec.dayNumOrd m y k = n
/-- Day number `n` lies in week `w` of some week-year. -/
def WeekOf (m : Mode) (n w : Int) : Prop := ∃ y k, Spec.ValidWeek m y w k ∧ Spec.dayNumWeek m y w k = n

theorem getDom_of (m : Mode) (x : TP) (hx : x.Strict m) (hk : x.date.rep = 0) (d : Int)
    (h : DomOf m (x.date.dayNum m) d) : getDom x = d := by
  obtain ⟨y, mo, dd, e⟩ := rep0_cal x.date hk
  obtain ⟨Y, M, hv, hn⟩ := h
  have hv' : Spec.ValidCal m y mo dd := by have := hx.1.1; rw [e] at this; exact this
  rw [e] at hn; simp only [Date.dayNum] at hn
  have := cal_unique m y mo dd Y M d hv' hv hn.symm
  unfold getDom; rw [e]; exact this.2.2

theorem domOf_get (m : Mode) (x : TP) (hx : x.Strict m) (hk : x.date.rep = 0) :
    DomOf m (x.date.dayNum m) (getDom x) := by
  obtain ⟨y, mo, dd, e⟩ := rep0_cal x.date hk
  have hv' : Spec.ValidCal m y mo dd := by have := hx.1.1; rw [e] at this; exact this
  unfold getDom; rw [e]; exact ⟨y, mo, hv', rfl⟩

theorem getDoy_of (m : Mode) (x : TP) (hx : x.Strict m) (hk : x.date.rep = 1) (k : Int)
    (h : DoyOf m (x.date.dayNum m) k) : getDoy x = k := by
  obtain ⟨y, n, e⟩ := rep1_ord x.date hk
  obtain ⟨Y, hv, hn⟩ := h
  have hv' : Spec.ValidOrd m y n := by have := hx.1.1; rw [e] at this; exact this
  rw [e] at hn; simp only [Date.dayNum] at hn
  have := ord_unique m y n Y k hv' hv hn.symm
  unfold getDoy; rw [e]; exact this.2

theorem doyOf_get (m : Mode) (x : TP) (hx : x.Strict m) (hk : x.date.rep = 1) :
    DoyOf m (x.date.dayNum m) (getDoy x) := by
  obtain ⟨y, n, e⟩ := rep1_ord x.date hk
  have hv' : Spec.ValidOrd m y n := by have := hx.1.1; rw [e] at this; exact this
  unfold getDoy; rw [e]; exact ⟨y, hv', rfl⟩

theorem getWeek_of (m : Mode) (x : TP) (hx : x.Strict m) (hk : x.date.rep = 2) (w : Int)
    (h : WeekOf m (x.date.dayNum m) w) : getWeek x = w := by
  obtain ⟨y, w0, d, e⟩ := rep2_week x.date hk
  obtain ⟨Y, K, hv, hn⟩ := h
  have hv' : Spec.ValidWeek m y w0 d := by have := hx.1.1; rw [e] at this; exact this
  rw [e] at hn; simp only [Date.dayNum] at hn
  have := week_unique m y w0 d Y w K hv' hv hn.symm
  unfold getWeek; rw [e]; exact this.2.1

theorem weekOf_get (m : Mode) (x : TP) (hx : x.Strict m) (hk : x.date.rep = 2) :
    WeekOf m (x.date.dayNum m) (getWeek x) := by
  obtain ⟨y, w0, d, e⟩ := rep2_week x.date hk
  have hv' : Spec.ValidWeek m y w0 d := by have := hx.1.1; rw [e] at this; exact this
  unfold getWeek; rw [e]; exact ⟨y, d, hv', rfl⟩

/-! ### `to_calendar_date` / `to_ordinal_date` / `to_week_date` -/

theorem toRep_ok (m : Mode) (k : Nat) (hk : k < 3) (p : TP) (hp : p.Strict m) :
    ∃ q, toRep m k p = some q ∧ q.Strict m ∧ q.tz = p.tz ∧ q.date.rep = k ∧
      q.date.dayNum m = p.date.dayNum m ∧ q.hh = p.hh ∧ q.mi = p.mi ∧ q.ss = p.ss := by
  obtain ⟨r, e, v, rr, n⟩ := convert_spec m k hk p.date hp.1.1
  refine ⟨{ p with date := r }, by simp only [toRep, e, Option.map_some], ?_, rfl, rr, n, rfl, rfl, rfl⟩
  obtain ⟨⟨_, a1, a2, a3, a4, a5, a6, a7, a8⟩, a9⟩ := hp
  exact ⟨⟨v, a1, a2, a3, a4, a5, a6, a7, a8⟩, a9⟩

/-- A point already in the wanted representation is returned as it is. -/
theorem toRep_self (m : Mode) (p : TP) : toRep m p.date.rep p = some p := by
  simp only [toRep, convert_self, Option.map_some]

theorem loopField_fix (m : Mode) (get : TP → Int) (bump : TP → TP) (target : Int) (fuel : Nat) (p : TP)
    (h : get p = target) : loopField m get bump target fuel p = some p := by
  cases fuel <;> simp only [loopField, h, ↓reduceIte]

/-! ### the day-stepping loops find the first matching day -/

/-- What a day-designator loop hands on: a valid point in the same offset, in representation `k`,
    at the same time of day, on a day not earlier. -/
def DayStage (m : Mode) (a b : TP) (k : Nat) : Prop :=
  b.Strict m ∧ b.tz = a.tz ∧ b.date.rep = k ∧ b.hh = a.hh ∧ b.mi = a.mi ∧ b.ss = a.ss ∧
  a.date.dayNum m ≤ b.date.dayNum m

theorem dayStage_inst (m : Mode) (a b : TP) (k : Nat) (h : DayStage m a b k) : a.inst m ≤ b.inst m := by
  obtain ⟨_, h1, _, h2, h3, h4, h5⟩ := h
  unfold TP.inst TP.secOfDay; rw [h1, h2, h3, h4]; omega

theorem week_steps_all (m : Mode) (p x : TP) (hp : p.Strict m) (hx : x.Strict m) (htz : x.tz = p.tz)
    (j : Nat) (hi : x.inst m = p.inst m + (j : Int) * 604800) :
    x.date.dayNum m = p.date.dayNum m + 7 * (j : Int) ∧ x.hh = p.hh ∧ x.mi = p.mi ∧ x.ss = p.ss := by
  have a := strict_fields m p hp
  have b := strict_fields m x hx
  have := inst_fields m p x htz _ hi
  omega

/-- **A loop stepping whole days** from a strict point `r` lands on the first day `≥ r`'s whose
    field (as read in `r`'s representation) is the target; time of day and offset are kept. -/
theorem day_loop_min (m : Mode) (kr : Nat) (get : TP → Int) (target : Int) (fuel : Nat) (r q : TP)
    (hr : r.Strict m) (hk : r.date.rep = kr)
    (h : loopField m get (fun q => { q with date := bumpDay q.date 1 }) target fuel r = some q) :
    DayStage m r q kr ∧ get q = target ∧
    ∀ n : Int, r.date.dayNum m ≤ n →
      (∀ x : TP, x.Strict m → x.date.rep = kr → x.date.dayNum m = n → get x = target) →
      q.date.dayNum m ≤ n := by
  obtain ⟨k, _, hs, hg, hmin⟩ := loopField_spec m get _ target fuel r q h
  obtain ⟨x, hx, xs, xi, xt, xr⟩ := stepsFrom_spec m _ 86400 kr (stepOK_day m kr) k r hr hk
  rw [hs] at hx; cases hx
  obtain ⟨e0, e1, e2, e3⟩ := day_steps_dayNum m r q hr xs xt k xi
  refine ⟨⟨xs, xt, by rw [xr, hk], e1, e2, e3, by omega⟩, hg, ?_⟩
  intro n hn hmatch
  by_cases c : q.date.dayNum m ≤ n
  · exact c
  · exfalso
    obtain ⟨y, hy, ys, yi, yt, yr⟩ :=
      stepsFrom_spec m _ 86400 kr (stepOK_day m kr) (n - r.date.dayNum m).toNat r hr hk
    have hd := (day_steps_dayNum m r y hr ys yt _ yi).1
    exact hmin _ (by omega) y hy (hmatch y ys (by rw [yr, hk]) (by omega))

/-- **The week loop** (stepping whole weeks from a strict week-date point `r`) lands on the first
    day `≥ r`'s, a whole number of weeks after it, whose week number is the target; weekday, time of
    day and offset are kept. -/
theorem week_loop_min (m : Mode) (target : Int) (fuel : Nat) (r q : TP)
    (hr : r.Strict m) (hk : r.date.rep = 2)
    (h : loopField m getWeek bumpWeek target fuel r = some q) :
    DayStage m r q 2 ∧ getWeek q = target ∧
    Spec.weekday m (q.date.dayNum m) = Spec.weekday m (r.date.dayNum m) ∧
    ∀ n : Int, r.date.dayNum m ≤ n → Spec.weekday m n = Spec.weekday m (r.date.dayNum m) →
      (∀ x : TP, x.Strict m → x.date.rep = 2 → x.date.dayNum m = n → getWeek x = target) →
      q.date.dayNum m ≤ n := by
  obtain ⟨k, _, hs, hg, hmin⟩ := loopField_spec m getWeek _ target fuel r q h
  obtain ⟨x, hx, xs, xi, xt, xr⟩ := stepsFrom_spec m _ 604800 2 (stepOK_week m) k r hr hk
  rw [hs] at hx; cases hx
  obtain ⟨e0, e1, e2, e3⟩ := week_steps_all m r q hr xs xt k xi
  refine ⟨⟨xs, xt, by rw [xr, hk], e1, e2, e3, by omega⟩, hg, by rw [e0, weekday_add7], ?_⟩
  intro n hn hw hmatch
  by_cases c : q.date.dayNum m ≤ n
  · exact c
  · exfalso
    have hdiv : (n - r.date.dayNum m) % 7 = 0 := by unfold Spec.weekday at hw; omega
    obtain ⟨y, hy, ys, yi, yt, yr⟩ :=
      stepsFrom_spec m _ 604800 2 (stepOK_week m) ((n - r.date.dayNum m) / 7).toNat r hr hk
    have hd := (week_steps_all m r y hr ys yt _ yi).1
    exact hmin _ (by omega) y hy (hmatch y ys (by rw [yr, hk]) (by omega))

/-! ### `add_truncated` cut into its parts -/

/-- The minute `add_truncated` aims for: the given one, or 0 when only the hour was given. -/
def effMI (t : Trunc) : Option Int := match t.hh, t.mi with | some _, none => some 0 | _, x => x
/-- The second `add_truncated` aims for: the given one, or 0 when an hour or minute was given. -/
def effSS (t : Trunc) : Option Int :=
  match t.ss with
  | some s => some s
  | none => if t.hh.isSome ∨ (effMI t).isSome then some 0 else none

def ssPart (m : Mode) : Option Int → TP → Option TP
  | some s, p => loopField m (·.ss) (fun q => { q with ss := q.ss + 1 }) s fuelTime p
  | none, p => some p
def miPart (m : Mode) : Option Int → TP → Option TP
  | some x, p => loopField m (·.mi) (fun q => { q with mi := q.mi + 1 }) x fuelTime p
  | none, p => some p
def hhPart (m : Mode) : Option Int → TP → Option TP
  | some x, p => loopField m (·.hh) (fun q => { q with hh := q.hh + 1 }) x fuelTime p
  | none, p => some p
def dowPart (m : Mode) : Option Int → TP → Option TP
  | some x, p => (toRep m 2 p).bind (loopField m getDow (fun q => { q with date := bumpDay q.date 1 }) x fuelDow)
  | none, p => some p
def domPart (m : Mode) : Option Int → TP → Option TP
  | some x, p => (toRep m 0 p).bind (loopField m getDom (fun q => { q with date := bumpDay q.date 1 }) x fuelDom)
  | none, p => some p
def doyPart (m : Mode) : Option Int → TP → Option TP
  | some x, p => (toRep m 1 p).bind (loopField m getDoy (fun q => { q with date := bumpDay q.date 1 }) x fuelDoy)
  | none, p => some p
def weekPart (m : Mode) : Option Int → TP → Option TP
  | some x, p => (toRep m 2 p).bind (loopField m getWeek bumpWeek x fuelWeek)
  | none, p => some p

/-- `add_truncated` is the chain of its eight parts. -/
theorem addTruncated_parts (m : Mode) (p : TP) (t : Trunc) :
    addTruncated m p t =
    (normalise24 m p).bind fun p0 => (ssPart m (effSS t) p0).bind fun p1 =>
    (miPart m (effMI t) p1).bind fun p2 => (hhPart m t.hh p2).bind fun p3 =>
    (dowPart m t.dow p3).bind fun p4 => (domPart m t.dom p4).bind fun p5 =>
    (doyPart m t.doy p5).bind fun p6 => weekPart m t.week p6 := by
  obtain ⟨week, dow, dom, doy, hh, mi, ss, tz⟩ := t
  unfold addTruncated
  cases normalise24 m p with
  | none => rfl
  | some p0 =>
    cases week <;> cases dow <;> cases dom <;> cases doy <;> cases hh <;> cases mi <;> cases ss <;> rfl

/-! ### what each part hands on -/

def SsRel (m : Mode) : Option Int → TP → TP → Prop
  | none, a, b => b = a
  | some s, a, b => b.Strict m ∧ b.tz = a.tz ∧ b.date.rep = a.date.rep ∧
      b.inst m = a.inst m + (s - a.ss) % 60 ∧ b.ss = s
def MiRel (m : Mode) : Option Int → TP → TP → Prop
  | none, a, b => b = a
  | some x, a, b => b.Strict m ∧ b.tz = a.tz ∧ b.date.rep = a.date.rep ∧
      b.inst m = a.inst m + 60 * ((x - a.mi) % 60) ∧ b.mi = x ∧ b.ss = a.ss
def HhRel (m : Mode) : Option Int → TP → TP → Prop
  | none, a, b => b = a
  | some x, a, b => b.Strict m ∧ b.tz = a.tz ∧ b.date.rep = a.date.rep ∧
      b.inst m = a.inst m + 3600 * ((x - a.hh) % 24) ∧ b.hh = x ∧ b.mi = a.mi ∧ b.ss = a.ss

def DowRel (m : Mode) : Option Int → TP → TP → Prop
  | none, a, b => b = a
  | some k, a, b => DayStage m a b 2 ∧ getDow b = k ∧
      ∀ n, a.date.dayNum m ≤ n → Spec.weekday m n = k → b.date.dayNum m ≤ n
def DomRel (m : Mode) : Option Int → TP → TP → Prop
  | none, a, b => b = a
  | some d, a, b => DayStage m a b 0 ∧ getDom b = d ∧
      ∀ n, a.date.dayNum m ≤ n → DomOf m n d → b.date.dayNum m ≤ n
def DoyRel (m : Mode) : Option Int → TP → TP → Prop
  | none, a, b => b = a
  | some k, a, b => DayStage m a b 1 ∧ getDoy b = k ∧
      ∀ n, a.date.dayNum m ≤ n → DoyOf m n k → b.date.dayNum m ≤ n
def WeekRel (m : Mode) : Option Int → TP → TP → Prop
  | none, a, b => b = a
  | some w, a, b => DayStage m a b 2 ∧ getWeek b = w ∧
      Spec.weekday m (b.date.dayNum m) = Spec.weekday m (a.date.dayNum m) ∧
      ∀ n, a.date.dayNum m ≤ n → Spec.weekday m n = Spec.weekday m (a.date.dayNum m) → WeekOf m n w →
        b.date.dayNum m ≤ n

theorem ss_stage (m : Mode) (a : TP) (ha : a.Strict m) (o : Option Int) (ho : ∀ s, o = some s → 0 ≤ s ∧ s < 60) :
    ∃ b, ssPart m o a = some b ∧ SsRel m o a b := by
  cases o with
  | none => exact ⟨a, rfl, rfl⟩
  | some s =>
    obtain ⟨q, e, qs, qi, qt, qr, qf⟩ := loop_ss m a ha s (ho s rfl)
    exact ⟨q, e, qs, qt, qr, qi, qf⟩

theorem mi_stage (m : Mode) (a : TP) (ha : a.Strict m) (o : Option Int) (ho : ∀ s, o = some s → 0 ≤ s ∧ s < 60) :
    ∃ b, miPart m o a = some b ∧ MiRel m o a b := by
  cases o with
  | none => exact ⟨a, rfl, rfl⟩
  | some s =>
    obtain ⟨q, e, qs, qi, qt, qr, qf, qg⟩ := loop_mi m a ha s (ho s rfl)
    exact ⟨q, e, qs, qt, qr, qi, qf, qg⟩

theorem hh_stage (m : Mode) (a : TP) (ha : a.Strict m) (o : Option Int) (ho : ∀ s, o = some s → 0 ≤ s ∧ s < 24) :
    ∃ b, hhPart m o a = some b ∧ HhRel m o a b := by
  cases o with
  | none => exact ⟨a, rfl, rfl⟩
  | some s =>
    obtain ⟨q, e, qs, qi, qt, qr, qf, qg, qh⟩ := loop_hh m a ha s (ho s rfl)
    exact ⟨q, e, qs, qt, qr, qi, qf, qg, qh⟩

/-- The three time-of-day parts together: less than a day forward, the targeted fields set. -/
theorem time_summary (m : Mode) (ss mi hh : Option Int) (p0 p1 p2 p3 : TP) (h0 : p0.Strict m)
    (r1 : SsRel m ss p0 p1) (r2 : MiRel m mi p1 p2) (r3 : HhRel m hh p2 p3) :
    p3.Strict m ∧ p3.tz = p0.tz ∧ p3.date.rep = p0.date.rep ∧ p0.inst m ≤ p3.inst m ∧
    p3.inst m < p0.inst m + 86400 ∧
    (∀ s, ss = some s → p3.ss = s) ∧ (∀ x, mi = some x → p3.mi = x) ∧ (∀ h, hh = some h → p3.hh = h) ∧
    (ss = none → mi = none → hh = none → p3 = p0) := by
  have s1 : p1.Strict m ∧ p1.tz = p0.tz ∧ p1.date.rep = p0.date.rep ∧ p0.inst m ≤ p1.inst m ∧
      p1.inst m ≤ p0.inst m + 59 ∧ (∀ s, ss = some s → p1.ss = s) ∧ (ss = none → p1 = p0) := by
    cases ss with
    | none => cases r1; exact ⟨h0, rfl, rfl, Int.le_refl _, by omega, (fun _ h => by cases h), fun _ => rfl⟩
    | some s =>
      obtain ⟨a, b, c, d, e⟩ := r1
      exact ⟨a, b, c, by omega, by omega, (fun _ h => by cases h; exact e), fun h => by cases h⟩
  obtain ⟨a1, b1, c1, d1, e1, f1, g1⟩ := s1
  have s2 : p2.Strict m ∧ p2.tz = p1.tz ∧ p2.date.rep = p1.date.rep ∧ p1.inst m ≤ p2.inst m ∧
      p2.inst m ≤ p1.inst m + 3540 ∧ p2.ss = p1.ss ∧ (∀ x, mi = some x → p2.mi = x) ∧ (mi = none → p2 = p1) := by
    cases mi with
    | none => cases r2; exact ⟨a1, rfl, rfl, Int.le_refl _, by omega, rfl, (fun _ h => by cases h), fun _ => rfl⟩
    | some s =>
      obtain ⟨a, b, c, d, e, f⟩ := r2
      exact ⟨a, b, c, by omega, by omega, f, (fun _ h => by cases h; exact e), fun h => by cases h⟩
  obtain ⟨a2, b2, c2, d2, e2, f2, g2, k2⟩ := s2
  have s3 : p3.Strict m ∧ p3.tz = p2.tz ∧ p3.date.rep = p2.date.rep ∧ p2.inst m ≤ p3.inst m ∧
      p3.inst m ≤ p2.inst m + 82800 ∧ p3.ss = p2.ss ∧ p3.mi = p2.mi ∧ (∀ x, hh = some x → p3.hh = x) ∧
      (hh = none → p3 = p2) := by
    cases hh with
    | none => cases r3; exact ⟨a2, rfl, rfl, Int.le_refl _, by omega, rfl, rfl, (fun _ h => by cases h), fun _ => rfl⟩
    | some s =>
      obtain ⟨a, b, c, d, e, f, g⟩ := r3
      exact ⟨a, b, c, by omega, by omega, g, f, (fun _ h => by cases h; exact e), fun h => by cases h⟩
  obtain ⟨a3, b3, c3, d3, e3, f3, g3, k3, l3⟩ := s3
  refine ⟨a3, by rw [b3, b2, b1], by rw [c3, c2, c1], by omega, by omega, ?_, ?_, k3, ?_⟩
  · intro s hs; rw [f3, f2]; exact f1 s hs
  · intro x hx; rw [g3]; exact g2 x hx
  · intro x y z; rw [l3 z, k2 y, g1 x]

theorem dow_stage (m : Mode) (a : TP) (ha : a.Strict m) (o : Option Int) (ho : ∀ k, o = some k → 1 ≤ k ∧ k ≤ 7) :
    ∃ b, dowPart m o a = some b ∧ DowRel m o a b := by
  cases o with
  | none => exact ⟨a, rfl, rfl⟩
  | some k =>
    obtain ⟨r, er, rs, rt, rr, rn, r1, r2, r3⟩ := toRep_ok m 2 (by omega) a ha
    obtain ⟨q, e, _⟩ := loop_dow m r rs rr k (ho k rfl)
    obtain ⟨⟨b1, b2, b3, b4, b5, b6, b7⟩, hg, hmin⟩ := day_loop_min m 2 getDow k fuelDow r q rs rr e
    refine ⟨q, by simp only [dowPart, er, Option.bind_some, e],
      ⟨b1, by rw [b2, rt], b3, by rw [b4, r1], by rw [b5, r2], by rw [b6, r3], by omega⟩, hg, ?_⟩
    intro n hn hw
    exact hmin n (by omega) (fun x xs xr xn => by rw [getDow_eq m x xs xr, xn]; exact hw)

theorem dom_stage (m : Mode) (a : TP) (ha : a.Strict m) (o : Option Int)
    (ho : ∀ d, o = some d → 1 ≤ d ∧ d ≤ maxDom m) :
    ∃ b, domPart m o a = some b ∧ DomRel m o a b := by
  cases o with
  | none => exact ⟨a, rfl, rfl⟩
  | some d =>
    obtain ⟨r, er, rs, rt, rr, rn, r1, r2, r3⟩ := toRep_ok m 0 (by omega) a ha
    obtain ⟨q, e⟩ := loop_dom_terminates m r rs rr d (ho d rfl).1 (ho d rfl).2
    obtain ⟨⟨b1, b2, b3, b4, b5, b6, b7⟩, hg, hmin⟩ := day_loop_min m 0 getDom d fuelDom r q rs rr e
    refine ⟨q, by simp only [domPart, er, Option.bind_some, e],
      ⟨b1, by rw [b2, rt], b3, by rw [b4, r1], by rw [b5, r2], by rw [b6, r3], by omega⟩, hg, ?_⟩
    intro n hn hw
    exact hmin n (by omega) (fun x xs xr xn => getDom_of m x xs xr d (by rw [xn]; exact hw))

theorem doy_stage (m : Mode) (a : TP) (ha : a.Strict m) (o : Option Int)
    (ho : ∀ d, o = some d → 1 ≤ d ∧ d ≤ Spec.yearLenB m true) :
    ∃ b, doyPart m o a = some b ∧ DoyRel m o a b := by
  cases o with
  | none => exact ⟨a, rfl, rfl⟩
  | some d =>
    obtain ⟨r, er, rs, rt, rr, rn, r1, r2, r3⟩ := toRep_ok m 1 (by omega) a ha
    obtain ⟨q, e⟩ := loop_doy_terminates m r rs rr d (ho d rfl).1 (ho d rfl).2
    obtain ⟨⟨b1, b2, b3, b4, b5, b6, b7⟩, hg, hmin⟩ := day_loop_min m 1 getDoy d fuelDoy r q rs rr e
    refine ⟨q, by simp only [doyPart, er, Option.bind_some, e],
      ⟨b1, by rw [b2, rt], b3, by rw [b4, r1], by rw [b5, r2], by rw [b6, r3], by omega⟩, hg, ?_⟩
    intro n hn hw
    exact hmin n (by omega) (fun x xs xr xn => getDoy_of m x xs xr d (by rw [xn]; exact hw))

theorem week_stage (m : Mode) (a : TP) (ha : a.Strict m) (o : Option Int)
    (ho : ∀ d, o = some d → 1 ≤ d ∧ d ≤ maxW m) :
    ∃ b, weekPart m o a = some b ∧ WeekRel m o a b := by
  cases o with
  | none => exact ⟨a, rfl, rfl⟩
  | some d =>
    obtain ⟨r, er, rs, rt, rr, rn, r1, r2, r3⟩ := toRep_ok m 2 (by omega) a ha
    obtain ⟨q, e⟩ := loop_week_terminates m r rs rr d (ho d rfl).1 (ho d rfl).2
    obtain ⟨⟨b1, b2, b3, b4, b5, b6, b7⟩, hg, hwd, hmin⟩ := week_loop_min m d fuelWeek r q rs rr e
    refine ⟨q, by simp only [weekPart, er, Option.bind_some, e],
      ⟨b1, by rw [b2, rt], b3, by rw [b4, r1], by rw [b5, r2], by rw [b6, r3], by omega⟩, hg,
      by rw [hwd, rn], ?_⟩
    intro n hn hw hwk
    exact hmin n (by omega) (by rw [rn]; exact hw)
      (fun x xs xr xn => getWeek_of m x xs xr d (by rw [xn]; exact hwk))

/-! ### a point that already matches passes every part unchanged -/

theorem ssPart_fix (m : Mode) (o : Option Int) (q : TP) (h : ∀ s, o = some s → q.ss = s) :
    ssPart m o q = some q := by
  cases o with
  | none => rfl
  | some s => exact loopField_fix m _ _ s _ q (h s rfl)

theorem miPart_fix (m : Mode) (o : Option Int) (q : TP) (h : ∀ s, o = some s → q.mi = s) :
    miPart m o q = some q := by
  cases o with
  | none => rfl
  | some s => exact loopField_fix m _ _ s _ q (h s rfl)

theorem hhPart_fix (m : Mode) (o : Option Int) (q : TP) (h : ∀ s, o = some s → q.hh = s) :
    hhPart m o q = some q := by
  cases o with
  | none => rfl
  | some s => exact loopField_fix m _ _ s _ q (h s rfl)

theorem dowPart_fix (m : Mode) (o : Option Int) (q : TP) (h : ∀ s, o = some s → q.date.rep = 2 ∧ getDow q = s) :
    dowPart m o q = some q := by
  cases o with
  | none => rfl
  | some s =>
    have e := toRep_self m q; rw [(h s rfl).1] at e
    simp only [dowPart, e, Option.bind_some]
    exact loopField_fix m _ _ s _ q (h s rfl).2

theorem domPart_fix (m : Mode) (o : Option Int) (q : TP) (h : ∀ s, o = some s → q.date.rep = 0 ∧ getDom q = s) :
    domPart m o q = some q := by
  cases o with
  | none => rfl
  | some s =>
    have e := toRep_self m q; rw [(h s rfl).1] at e
    simp only [domPart, e, Option.bind_some]
    exact loopField_fix m _ _ s _ q (h s rfl).2

theorem doyPart_fix (m : Mode) (o : Option Int) (q : TP) (h : ∀ s, o = some s → q.date.rep = 1 ∧ getDoy q = s) :
    doyPart m o q = some q := by
  cases o with
  | none => rfl
  | some s =>
    have e := toRep_self m q; rw [(h s rfl).1] at e
    simp only [doyPart, e, Option.bind_some]
    exact loopField_fix m _ _ s _ q (h s rfl).2

theorem weekPart_fix (m : Mode) (o : Option Int) (q : TP) (h : ∀ s, o = some s → q.date.rep = 2 ∧ getWeek q = s) :
    weekPart m o q = some q := by
  cases o with
  | none => rfl
  | some s =>
    have e := toRep_self m q; rw [(h s rfl).1] at e
    simp only [weekPart, e, Option.bind_some]
    exact loopField_fix m _ _ s _ q (h s rfl).2

end IsoDT.Lemmas
