/-
  IsoDT.Lemmas.DurTextAltForms — the concrete spellings of the date-time-like alternative form of a
  duration (`DateSp`, `TimeSp`, `ZoneSp`, `WeekSp`: texts built from field values, with the table entry
  each one instantiates), the fallback on each of them (`alt_year`, `alt_century`, `alt_year_month`,
  `alt_date`, `alt_date_time_zone`: instances of the table-driven `parseAltDur_rendered` /
  `parseAltDur_date`), and the packaging used by `Props/C10c` (`AltSpelling`, `altSpelling_of`).
-/
import IsoDT.Lemmas.DurTextAlt

namespace IsoDT.Lemmas.DurTextAlt
open IsoDT IsoDT.Model IsoDT.Text IsoDT.Gen
open IsoDT.Model.DurText (toText renderW)
open IsoDT.Model.DurTextAlt
open IsoDT.Lemmas.DurText (Digs ascii_append ascii_cons ascii_digs)
open IsoDT.Props.C07 (zoneText)
open IsoDT.Props.C10 (normal SingleSigned TimeExact timeExact_of_lt C10_roundtrip)
open _root_.IsoDT.Gen.Templates (parser_2_all)

/-! ## Spellings and the fallback on them -/

/-- The field values of one alternative text: year `0000`–`9999` split into `CC` and `YY`. -/
def valsOf (y mo d ddd h mi s : Nat) : Vals :=
  { cc := y / 100, yy := y % 100, month := mo, day := d, doy := ddd, hour := h, minute := mi, second := s }

theorem valsOf_fit (y mo d ddd h mi s : Nat) (hy : y < 10000) (hmo : mo < 100) (hd : d < 100)
    (hddd : ddd < 1000) (hh : h < 100) (hmi : mi < 100) (hs : s < 100) : (valsOf y mo d ddd h mi s).Fit 2 := by
  simp only [Vals.Fit, valsOf]
  refine ⟨by decide, by omega, by omega, hmo, hd, hddd, by decide, by decide, hh, hmi, hs, by decide, by decide,
    ⟨by decide, by decide⟩, ⟨by decide, by decide⟩, ⟨by decide, by decide⟩⟩

theorem render_year_app (y : Nat) (X : List Char) :
    renderNat 2 (y / 100) ++ (renderNat 2 (y % 100) ++ X) = renderNat 4 y ++ X := by
  rw [← List.append_assoc, render_year]

theorem year_join (y : Nat) : (100 * ((y / 100 : Nat) : Int) + ((y % 100 : Nat) : Int)) = (y : Int) := by
  omega

/-- The complete date spellings: calendar / ordinal, extended / basic. -/
inductive DateSp where
  | xc | bc | xo | bo
  deriving DecidableEq, Repr

/-- The date form of the live table. -/
def DateSp.entry : DateSp → Entry
  | .xc => ⟨.extended, .complete, ['C', 'C', 'Y', 'Y', '-', 'M', 'M', '-', 'D', 'D'],
      [.digits .century 2, .digits .yearOfCentury 2, .lit '-', .digits .monthOfYear 2, .lit '-',
       .digits .dayOfMonth 2]⟩
  | .bc => ⟨.basic, .complete, ['C', 'C', 'Y', 'Y', 'M', 'M', 'D', 'D'],
      [.digits .century 2, .digits .yearOfCentury 2, .digits .monthOfYear 2, .digits .dayOfMonth 2]⟩
  | .xo => ⟨.extended, .complete, ['C', 'C', 'Y', 'Y', '-', 'D', 'D', 'D'],
      [.digits .century 2, .digits .yearOfCentury 2, .lit '-', .digits .dayOfYear 3]⟩
  | .bo => ⟨.basic, .complete, ['C', 'C', 'Y', 'Y', 'D', 'D', 'D'],
      [.digits .century 2, .digits .yearOfCentury 2, .digits .dayOfYear 3]⟩

/-- `YYYY-MM-DD`, `YYYYMMDD`, `YYYY-DDD`, `YYYYDDD`. -/
def DateSp.text (sp : DateSp) (y mo d ddd : Nat) : List Char :=
  match sp with
  | .xc => renderW 4 y ++ '-' :: (renderW 2 mo ++ '-' :: renderW 2 d)
  | .bc => renderW 4 y ++ (renderW 2 mo ++ renderW 2 d)
  | .xo => renderW 4 y ++ '-' :: renderW 3 ddd
  | .bo => renderW 4 y ++ renderW 3 ddd

def DateSp.ext : DateSp → Bool
  | .xc | .xo => true
  | _ => false

/-- Months of the duration: as written in a calendar form, ZERO in an ordinal form. -/
def DateSp.months (sp : DateSp) (mo : Nat) : Nat :=
  match sp with
  | .xc | .bc => mo
  | _ => 0

/-- Days of the duration: the day of month, or the ordinal day. -/
def DateSp.days (sp : DateSp) (d ddd : Nat) : Nat :=
  match sp with
  | .xc | .bc => d
  | _ => ddd

/-- The time spellings without a fraction: `hh`, `hh:mm` / `hhmm`, `hh:mm:ss` / `hhmmss`. -/
inductive TimeSp where
  | h | hm | hms
  deriving DecidableEq, Repr

def TimeSp.entry : Bool → TimeSp → Entry
  | true, .h => ⟨.extended, .reduced, ['h', 'h'], [.digits .hourOfDay 2]⟩
  | false, .h => ⟨.basic, .reduced, ['h', 'h'], [.digits .hourOfDay 2]⟩
  | true, .hm => ⟨.extended, .reduced, ['h', 'h', ':', 'm', 'm'],
      [.digits .hourOfDay 2, .lit ':', .digits .minuteOfHour 2]⟩
  | false, .hm => ⟨.basic, .reduced, ['h', 'h', 'm', 'm'], [.digits .hourOfDay 2, .digits .minuteOfHour 2]⟩
  | true, .hms => ⟨.extended, .complete, ['h', 'h', ':', 'm', 'm', ':', 's', 's'],
      [.digits .hourOfDay 2, .lit ':', .digits .minuteOfHour 2, .lit ':', .digits .secondOfMinute 2]⟩
  | false, .hms => ⟨.basic, .complete, ['h', 'h', 'm', 'm', 's', 's'],
      [.digits .hourOfDay 2, .digits .minuteOfHour 2, .digits .secondOfMinute 2]⟩

def TimeSp.text (ext : Bool) (t : TimeSp) (h mi s : Nat) : List Char :=
  match t with
  | .h => renderW 2 h
  | .hm => if ext then renderW 2 h ++ ':' :: renderW 2 mi else renderW 2 h ++ renderW 2 mi
  | .hms => if ext then renderW 2 h ++ ':' :: (renderW 2 mi ++ ':' :: renderW 2 s)
      else renderW 2 h ++ (renderW 2 mi ++ renderW 2 s)

/-- Minutes / seconds of the duration: as written, ZERO when the form stops before them. -/
def TimeSp.minutes (t : TimeSp) (mi : Nat) : Nat :=
  match t with
  | .h => 0
  | _ => mi

def TimeSp.seconds (t : TimeSp) (s : Nat) : Nat :=
  match t with
  | .hms => s
  | _ => 0

/-- A zone spelling: none, `Z`, `±hh`, `±hhmm` (basic) / `±hh:mm` (extended). -/
inductive ZoneSp where
  | none | utc | hh (neg : Bool) (zh : Nat) | hhmm (neg : Bool) (zh zm : Nat)
  deriving DecidableEq, Repr

def ZoneSp.entry : Bool → ZoneSp → Option ZEntry
  | _, .none => Option.none
  | true, .utc => some ⟨.extended, ['Z'], [.group .tzUtc ['Z']]⟩
  | false, .utc => some ⟨.basic, ['Z'], [.group .tzUtc ['Z']]⟩
  | true, .hh _ _ => some ⟨.extended, ['+', 'h', 'h'], [.sign .tzSign, .digits .tzHour 2]⟩
  | false, .hh _ _ => some ⟨.basic, ['+', 'h', 'h'], [.sign .tzSign, .digits .tzHour 2]⟩
  | true, .hhmm _ _ _ => some ⟨.extended, ['+', 'h', 'h', ':', 'm', 'm'],
      [.sign .tzSign, .digits .tzHour 2, .lit ':', .digits .tzMinute 2]⟩
  | false, .hhmm _ _ _ => some ⟨.basic, ['+', 'h', 'h', 'm', 'm'],
      [.sign .tzSign, .digits .tzHour 2, .digits .tzMinute 2]⟩

def sgnChar (neg : Bool) : Char := if neg then '-' else '+'

def ZoneSp.text (ext : Bool) : ZoneSp → List Char
  | .none => []
  | .utc => ['Z']
  | .hh neg zh => sgnChar neg :: renderW 2 zh
  | .hhmm neg zh zm => if ext then sgnChar neg :: (renderW 2 zh ++ ':' :: renderW 2 zm)
      else sgnChar neg :: (renderW 2 zh ++ renderW 2 zm)

/-- `TimeZone(...)` accepts it: the minutes, if written, are below 60. -/
def ZoneSp.ok : ZoneSp → Bool
  | .hhmm _ _ zm => decide (zm < 60)
  | _ => true

/-- The zone's digits fit their two-digit groups. -/
def ZoneSp.Fit : ZoneSp → Prop
  | .hh _ zh => zh < 100
  | .hhmm _ zh zm => zh < 100 ∧ zm < 100
  | _ => True

def ZoneSp.vals (z : ZoneSp) (v : Vals) : Vals :=
  match z with
  | .hh neg zh => { v with tzNeg := neg, tzHour := zh }
  | .hhmm neg zh zm => { v with tzNeg := neg, tzHour := zh, tzMinute := zm }
  | _ => v

/-- **The fallback on `date T time [zone]`, concretely**: every complete date spelling × `hh`,
    `hh:mm` / `hhmm`, `hh:mm:ss` / `hhmmss` × no zone, `Z`, `±hh`, `±hhmm` / `±hh:mm`, all field values
    of the right width. -/
theorem alt_date_time_zone (m : Mode) (sp : DateSp) (t : TimeSp) (z : ZoneSp) (y mo d ddd h mi s : Nat)
    (hy : y < 10000) (hmo : mo < 100) (hd : d < 100) (hddd : ddd < 1000) (hh : h < 100) (hmi : mi < 100)
    (hs : s < 100) (hz : z.Fit) :
    parseAltDur m (sp.text y mo d ddd ++ 'T' :: (t.text sp.ext h mi s ++ z.text sp.ext)) =
      if z.ok then .ok (.units y (sp.months mo) (sp.days d ddd) h (t.minutes mi) (t.seconds s)) else .err := by
  have hv : (z.vals (valsOf y mo d ddd h mi s)).Fit 2 := by
    have := valsOf_fit y mo d ddd h mi s hy hmo hd hddd hh hmi hs
    obtain ⟨f1, f2, f3, f4, f5, f6, f7, f8, f9, f10, f11, f12, f13, f14⟩ := this
    cases z with
    | none => exact ⟨f1, f2, f3, f4, f5, f6, f7, f8, f9, f10, f11, f12, f13, f14⟩
    | utc => exact ⟨f1, f2, f3, f4, f5, f6, f7, f8, f9, f10, f11, f12, f13, f14⟩
    | hh neg zh => exact ⟨f1, f2, f3, f4, f5, f6, f7, f8, f9, f10, f11, hz, f13, f14⟩
    | hhmm neg zh zm => exact ⟨f1, f2, f3, f4, f5, f6, f7, f8, f9, f10, f11, hz.1, hz.2, f14⟩
  have key := parseAltDur_rendered m sp.entry (by cases sp <;> decide +kernel) (by cases sp <;> rfl)
    (t.entry sp.ext) (by cases sp <;> cases t <;> decide +kernel) (by cases sp <;> cases t <;> decide)
    (by cases sp <;> cases t <;> rfl) (by cases sp <;> cases t <;> decide)
    (z.entry sp.ext) (by
      intro ze hze
      cases sp <;> cases z <;> cases hze <;> exact ⟨by decide +kernel, rfl⟩)
    (z.vals (valsOf y mo d ddd h mi s)) hv
  have htext : trender sp.entry.tmpl (envOf sp.entry.tmpl (z.vals (valsOf y mo d ddd h mi s))) ++
      'T' :: (trender (t.entry sp.ext).tmpl (envOf (t.entry sp.ext).tmpl (z.vals (valsOf y mo d ddd h mi s))) ++
        zoneText (z.entry sp.ext) (z.vals (valsOf y mo d ddd h mi s))) =
      sp.text y mo d ddd ++ 'T' :: (t.text sp.ext h mi s ++ z.text sp.ext) := by
    cases sp <;> cases t <;> cases z <;>
      simp [DateSp.entry, DateSp.text, DateSp.ext, TimeSp.entry, TimeSp.text, ZoneSp.entry, ZoneSp.text,
        ZoneSp.vals, zoneText, trender, envOf, valsOf, Vals.nat, Vals.neg, renderW_eq, render_year_app, sgnChar]
    all_goals first
      | (rename_i neg _; cases neg <;> rfl)
      | (rename_i neg _ _; cases neg <;> rfl)
  rw [htext] at key
  rw [key]
  have hacc : zoneAccepted (z.entry sp.ext) (z.vals (valsOf y mo d ddd h mi s)) = z.ok := by
    cases sp <;> cases z <;> simp [zoneAccepted, ZoneSp.entry, ZoneSp.ok, ZoneSp.vals, DateSp.ext, hasGroup,
      groupFields]
    all_goals congr
  have hweek : hasGroup sp.entry.tmpl .weekOfYear = false := by cases sp <;> rfl
  have hdur : durOfVals sp.entry.tmpl (t.entry sp.ext).tmpl (z.vals (valsOf y mo d ddd h mi s)) =
      .units y (sp.months mo) (sp.days d ddd) h (t.minutes mi) (t.seconds s) := by
    have hj := year_join y
    cases sp <;> cases t <;> cases z <;>
      simp [durOfVals, yearOf, monthOf, daysOf, hourOf, minuteOf, secondOf, hasGroup, groupFields, DateSp.entry,
        TimeSp.entry, DateSp.ext, DateSp.months, DateSp.days, TimeSp.minutes, TimeSp.seconds, ZoneSp.vals,
        valsOf] <;> omega
  rw [hacc, hweek, hdur]
  simp

/-- The same for a date alone. -/
theorem alt_date (m : Mode) (sp : DateSp) (y mo d ddd : Nat)
    (hy : y < 10000) (hmo : mo < 100) (hd : d < 100) (hddd : ddd < 1000) :
    parseAltDur m (sp.text y mo d ddd) = .ok (.units y (sp.months mo) (sp.days d ddd) 0 0 0) := by
  have hv := valsOf_fit y mo d ddd 0 0 0 hy hmo hd hddd (by decide) (by decide) (by decide)
  have key := parseAltDur_date m sp.entry (by cases sp <;> decide +kernel) (valsOf y mo d ddd 0 0 0) hv
  have htext : trender sp.entry.tmpl (envOf sp.entry.tmpl (valsOf y mo d ddd 0 0 0)) = sp.text y mo d ddd := by
    cases sp <;>
      simp [DateSp.entry, DateSp.text, trender, envOf, valsOf, Vals.nat, renderW_eq, render_year_app]
    all_goals (rw [← render_year y]; simp)
  have hweek : hasGroup sp.entry.tmpl .weekOfYear = false := by cases sp <;> rfl
  have hdur : durOfVals sp.entry.tmpl [] (valsOf y mo d ddd 0 0 0) =
      .units y (sp.months mo) (sp.days d ddd) 0 0 0 := by
    have hj := year_join y
    cases sp <;>
      simp [durOfVals, yearOf, monthOf, daysOf, hourOf, minuteOf, secondOf, hasGroup, groupFields, DateSp.entry,
        DateSp.months, DateSp.days, valsOf] <;> omega
  rw [htext, hweek, hdur] at key
  simpa using key

/-- `YYYY`: years only. -/
theorem alt_year (m : Mode) (y : Nat) (hy : y < 10000) :
    parseAltDur m (renderW 4 y) = .ok (.units y 0 0 0 0 0) := by
  have hv := valsOf_fit y 0 0 0 0 0 0 hy (by decide) (by decide) (by decide) (by decide) (by decide) (by decide)
  have key := parseAltDur_date m
    ⟨.basic, .reduced, ['C', 'C', 'Y', 'Y'], [.digits .century 2, .digits .yearOfCentury 2]⟩
    (by decide +kernel) (valsOf y 0 0 0 0 0 0) hv
  have hj := year_join y
  simp [trender, envOf, valsOf, Vals.nat, render_year, durOfVals, yearOf, monthOf, daysOf, hourOf, minuteOf,
    secondOf, hasGroup, groupFields] at key
  rw [renderW_eq, key]
  congr 2

/-- `CC`: a two-digit text is a CENTURY — `P20` is 2000 years. -/
theorem alt_century (m : Mode) (c : Nat) (hc : c < 100) :
    parseAltDur m (renderW 2 c) = .ok (.units (100 * c) 0 0 0 0 0) := by
  have hv : ({ cc := c } : Vals).Fit 2 := by
    simp only [Vals.Fit]
    refine ⟨by decide, hc, by decide, by decide, by decide, by decide, by decide, by decide, by decide, by decide,
      by decide, by decide, by decide, ⟨by decide, by decide⟩, ⟨by decide, by decide⟩, ⟨by decide, by decide⟩⟩
  have key := parseAltDur_date m ⟨.basic, .reduced, ['C', 'C'], [.digits .century 2]⟩
    (by decide +kernel) { cc := c } hv
  simp [trender, envOf, Vals.nat, durOfVals, yearOf, monthOf, daysOf, hourOf, minuteOf,
    secondOf, hasGroup, groupFields] at key
  rw [renderW_eq, key]

/-- `YYYY-MM`: years and months; the days are ZERO (Python passes `days=None`, which
    `Duration.__init__` turns into `DAYS_IN_WEEK * weeks = 0`). -/
theorem alt_year_month (m : Mode) (y mo : Nat) (hy : y < 10000) (hmo : mo < 100) :
    parseAltDur m (renderW 4 y ++ '-' :: renderW 2 mo) = .ok (.units y mo 0 0 0 0) := by
  have hv := valsOf_fit y mo 0 0 0 0 0 hy hmo (by decide) (by decide) (by decide) (by decide) (by decide)
  have key := parseAltDur_date m
    ⟨.basic, .reduced, ['C', 'C', 'Y', 'Y', '-', 'M', 'M'],
      [.digits .century 2, .digits .yearOfCentury 2, .lit '-', .digits .monthOfYear 2]⟩
    (by decide +kernel) (valsOf y mo 0 0 0 0 0) hv
  have hj := year_join y
  simp [trender, envOf, valsOf, Vals.nat, render_year_app, durOfVals, yearOf, monthOf, daysOf, hourOf, minuteOf,
    secondOf, hasGroup, groupFields] at key
  rw [renderW_eq, renderW_eq, key]
  congr 2

/-! ## Through `DurationParser.parse`, next to the designator spelling -/

theorem normal_units (y mo d h mi s : Int) : normal (.units y mo d h mi s) = .units y mo d h mi s := by
  unfold normal
  split
  · rfl
  · rename_i hz
    simp only [Dur.nonzero, Bool.or_eq_true, bne_iff_ne, ne_eq, not_or, Decidable.not_not] at hz
    obtain ⟨⟨⟨⟨⟨rfl, rfl⟩, rfl⟩, rfl⟩, rfl⟩, rfl⟩ := hz
    rfl

/-- What it means for the alternative text `P<text>` to spell the duration `D`:
    * `DurationParser.parse("P" + text)` is `D` (every component a number, omitted ones 0);
    * the designator spelling `str(D)` parses to the same `D` — so the two spellings denote EQUAL
      durations (`==`, `hash`, `get_seconds`, `+` see the same object state);
    * with a leading `-` or `+` the alternative text is refused. -/
structure AltSpelling (m : Mode) (text : List Char) (D : Dur) : Prop where
  alt : parseA m ('P' :: text) = .ok D
  desig : parseA m (toText D) = .ok D ∧ DurText.parse m (toText D) = .ok D
  minus : parseA m ('-' :: 'P' :: text) = .err
  plus : parseA m ('+' :: 'P' :: text) = .err

/-- The designator half, for non-negative components below 2^53. -/
theorem desig_units (m : Mode) (y mo d h mi s : Nat) (hh : h < 2 ^ 53) (hmi : mi < 2 ^ 53) (hs : s < 2 ^ 53) :
    parseA m (toText (.units y mo d h mi s)) = .ok (.units y mo d h mi s) ∧
    DurText.parse m (toText (.units y mo d h mi s)) = .ok (.units y mo d h mi s) := by
  have hss : SingleSigned (.units y mo d h mi s) :=
    Or.inl ⟨Int.natCast_nonneg _, Int.natCast_nonneg _, Int.natCast_nonneg _, Int.natCast_nonneg _,
      Int.natCast_nonneg _, Int.natCast_nonneg _⟩
  have hx : TimeExact (.units y mo d h mi s) :=
    timeExact_of_lt _ _ _ _ _ _ (by simpa using hh) (by simpa using hmi) (by simpa using hs)
  have h1 := parseA_str m _ hss hx
  have h2 := (C10_roundtrip m _ hss hx).1
  rw [normal_units] at h1 h2
  exact ⟨h1, h2⟩

/-- From the fallback's answer to the full statement, for a text that starts with at least two digits
    followed by nothing, `-` or `T`. -/
theorem altSpelling_of (m : Mode) (ds tl : List Char) (y mo d h mi s : Nat)
    (hd : Digs ds) (hl : 2 ≤ ds.length) (htl : tl = [] ∨ ∃ c t, tl = c :: t ∧ (c = '-' ∨ c = 'T'))
    (hasc : ∀ c ∈ tl, c.toNat < 128) (hh : h < 100) (hmi : mi < 100) (hs : s < 100)
    (hp : parseAltDur m (ds ++ tl) = .ok (.units y mo d h mi s)) :
    AltSpelling m (ds ++ tl) (.units y mo d h mi s) := by
  obtain ⟨h1, h2, h3⟩ := parseA_of_alt m ds tl _ hd hl htl hasc hp
  exact ⟨h1, desig_units m y mo d h mi s (by omega) (by omega) (by omega), h2, h3⟩

/-- ASCII-ness of the concrete texts below. -/
macro "ascii_tac" : tactic =>
  `(tactic| repeat (first
      | exact ascii_digs (digs_renderNat _ _)
      | apply ascii_append
      | apply ascii_cons (by decide)
      | (intro c hc; cases hc)))

/-! ## Leading digits and ASCII-ness of the spellings -/

/-- The leading digit run of a date spelling, and what follows it. -/
def DateSp.lead (sp : DateSp) (y mo d ddd : Nat) : List Char :=
  match sp with
  | .xc | .xo => renderNat 4 y
  | .bc => renderNat 4 y ++ (renderNat 2 mo ++ renderNat 2 d)
  | .bo => renderNat 4 y ++ renderNat 3 ddd

def DateSp.trail (sp : DateSp) (mo d ddd : Nat) : List Char :=
  match sp with
  | .xc => '-' :: (renderNat 2 mo ++ '-' :: renderNat 2 d)
  | .xo => '-' :: renderNat 3 ddd
  | _ => []

theorem DateSp.text_split (sp : DateSp) (y mo d ddd : Nat) (X : List Char) :
    sp.text y mo d ddd ++ X = sp.lead y mo d ddd ++ (sp.trail mo d ddd ++ X) := by
  cases sp <;> simp [DateSp.text, DateSp.lead, DateSp.trail, renderW_eq]

theorem DateSp.lead_digs (sp : DateSp) (y mo d ddd : Nat) :
    Digs (sp.lead y mo d ddd) ∧ 2 ≤ (sp.lead y mo d ddd).length := by
  cases sp <;> simp only [DateSp.lead]
  · exact ⟨digs_renderNat _ _, by rw [renderNat_length]; decide⟩
  · exact ⟨(digs_renderNat _ _).append ((digs_renderNat _ _).append (digs_renderNat _ _)),
      by simp [renderNat_length]⟩
  · exact ⟨digs_renderNat _ _, by rw [renderNat_length]; decide⟩
  · exact ⟨(digs_renderNat _ _).append (digs_renderNat _ _), by simp [renderNat_length]⟩

theorem DateSp.trail_ascii (sp : DateSp) (mo d ddd : Nat) : ∀ c ∈ sp.trail mo d ddd, c.toNat < 128 := by
  cases sp <;> simp only [DateSp.trail] <;> ascii_tac

theorem DateSp.trail_shape (sp : DateSp) (mo d ddd : Nat) (X : List Char) :
    sp.trail mo d ddd ++ 'T' :: X = 'T' :: X ∨
      ∃ c t, sp.trail mo d ddd ++ 'T' :: X = c :: t ∧ (c = '-' ∨ c = 'T') := by
  cases sp <;> simp [DateSp.trail]

theorem TimeSp.text_ascii (ext : Bool) (t : TimeSp) (h mi s : Nat) : ∀ c ∈ t.text ext h mi s, c.toNat < 128 := by
  cases ext <;> cases t <;> simp only [TimeSp.text, renderW_eq, ↓reduceIte, Bool.false_eq_true] <;> ascii_tac

theorem sgnChar_ascii (neg : Bool) : (sgnChar neg).toNat < 128 := by cases neg <;> decide

theorem ZoneSp.text_ascii (ext : Bool) (z : ZoneSp) : ∀ c ∈ z.text ext, c.toNat < 128 := by
  cases ext <;> cases z <;> simp only [ZoneSp.text, renderW_eq, ↓reduceIte, Bool.false_eq_true] <;>
    first
      | (intro c hc; cases hc; done)
      | (apply ascii_cons (by decide); ascii_tac)
      | (apply ascii_cons (sgnChar_ascii _); ascii_tac)

/-! ## Week dates -/

/-- The week-date spellings: `YYYY-Www-D`, `YYYYWwwD`, `YYYY-Www`, `YYYYWww`. -/
inductive WeekSp where
  | xw | bw | xwr | bwr
  deriving DecidableEq, Repr

def WeekSp.entry : WeekSp → Entry
  | .xw => ⟨.extended, .complete, ['C', 'C', 'Y', 'Y', '-', 'W', 'w', 'w', '-', 'D'],
      [.digits .century 2, .digits .yearOfCentury 2, .lit '-', .lit 'W', .digits .weekOfYear 2, .lit '-',
       .digits .dayOfWeek 1]⟩
  | .bw => ⟨.basic, .complete, ['C', 'C', 'Y', 'Y', 'W', 'w', 'w', 'D'],
      [.digits .century 2, .digits .yearOfCentury 2, .lit 'W', .digits .weekOfYear 2, .digits .dayOfWeek 1]⟩
  | .xwr => ⟨.extended, .reduced, ['C', 'C', 'Y', 'Y', '-', 'W', 'w', 'w'],
      [.digits .century 2, .digits .yearOfCentury 2, .lit '-', .lit 'W', .digits .weekOfYear 2]⟩
  | .bwr => ⟨.basic, .reduced, ['C', 'C', 'Y', 'Y', 'W', 'w', 'w'],
      [.digits .century 2, .digits .yearOfCentury 2, .lit 'W', .digits .weekOfYear 2]⟩

def WeekSp.text (sp : WeekSp) (y w k : Nat) : List Char :=
  match sp with
  | .xw => renderW 4 y ++ '-' :: 'W' :: (renderW 2 w ++ '-' :: renderW 1 k)
  | .bw => renderW 4 y ++ 'W' :: (renderW 2 w ++ renderW 1 k)
  | .xwr => renderW 4 y ++ '-' :: 'W' :: renderW 2 w
  | .bwr => renderW 4 y ++ 'W' :: renderW 2 w

end IsoDT.Lemmas.DurTextAlt
