/-
  IsoDT.Lemmas.Dur — facts about `Duration` equality and ordering used by the recurrence lemmas.
-/
import IsoDT.Model.Recurrence
import IsoDT.Lemmas.Tables

namespace IsoDT.Lemmas
open IsoDT IsoDT.Model

/-- Years and months of a duration (none in week form). -/
def durYm : Dur → Int × Int
  | .weeks _ => (0, 0)
  | .units y mo _ _ _ _ => (y, mo)

theorem dur_isExact_iff (a : Dur) : a.isExact = true ↔ durYm a = (0, 0) := by
  cases a <;> simp [Dur.isExact, durYm]

theorem dur_eq_iff (m : Mode) (a b : Dur) :
    Dur.eq m a b = true ↔ durYm a = durYm b ∧ a.exactSeconds m = b.exactSeconds m := by
  cases a <;> cases b <;>
    simp only [Dur.eq, Dur.isExact, durYm, Bool.and_eq_true, beq_iff_eq, Prod.mk.injEq] <;>
    (repeat' split) <;> simp_all <;> omega

theorem roughDaysInYear_eq' (m : Mode) : (calOf m).roughDaysInYear = Spec.yearLenB m false := by
  cases m <;> decide
theorem roughDaysInMonth_eq' (m : Mode) : (calOf m).roughDaysInMonth = 30 := by cases m <;> decide

/-- For an exact duration `get_days_and_seconds` is the floor split of its length. -/
theorem das_exact (m : Mode) (a : Dur) (h : a.isExact = true) :
    (a.daysAndSeconds m).1 * 86400 + (a.daysAndSeconds m).2 = a.exactSeconds m ∧
    0 ≤ (a.daysAndSeconds m).2 ∧ (a.daysAndSeconds m).2 < 86400 := by
  cases a with
  | weeks w =>
    simp only [Dur.daysAndSeconds, Dur.exactSeconds, daysInWeek_eq, secondsInDay_eq]; omega
  | units y mo d hh mi s =>
    simp only [Dur.isExact, Bool.and_eq_true, beq_iff_eq] at h
    obtain ⟨rfl, rfl⟩ := h
    simp only [Dur.daysAndSeconds, Dur.exactSeconds, secondsInDay_eq, secondsInHour_eq, secondsInMinute_eq,
      Int.zero_mul, Int.zero_add]
    omega

theorem pairLt_iff' (a b : Int × Int) (ha : 0 ≤ a.2 ∧ a.2 < 86400) (hb : 0 ≤ b.2 ∧ b.2 < 86400) :
    pairLt a b = true ↔ a.1 * 86400 + a.2 < b.1 * 86400 + b.2 := by
  unfold pairLt
  simp only [Bool.or_eq_true, Bool.and_eq_true, decide_eq_true_eq, beq_iff_eq]
  omega

theorem zero_exact : Dur.zero.isExact = true := rfl
theorem zero_seconds (m : Mode) : Dur.zero.exactSeconds m = 0 := by
  simp [Dur.zero, Dur.exactSeconds]

/-- An exact duration is `< P0Y` exactly when its length is negative. -/
theorem lt_zero_iff (m : Mode) (a : Dur) (h : a.isExact = true) :
    Dur.lt m a Dur.zero = true ↔ a.exactSeconds m < 0 := by
  obtain ⟨e1, r1⟩ := das_exact m a h
  obtain ⟨e2, r2⟩ := das_exact m Dur.zero zero_exact
  unfold Dur.lt
  rw [pairLt_iff' _ _ r1 r2, e1, e2, zero_seconds]

theorem isZeroDur_iff (m : Mode) (a : Dur) (h : a.isExact = true) :
    isZeroDur m a = true ↔ a.exactSeconds m = 0 := by
  unfold isZeroDur
  rw [dur_eq_iff, zero_seconds]
  have := (dur_isExact_iff a).mp h
  constructor
  · intro x; exact x.2
  · intro x; exact ⟨by rw [this]; rfl, x⟩

/-- `get_seconds` of an exact duration is its length. -/
theorem seconds_exact (m : Mode) (a : Dur) (h : a.isExact = true) : a.seconds m = a.exactSeconds m := by
  unfold Dur.seconds; rw [if_pos h]

end IsoDT.Lemmas
