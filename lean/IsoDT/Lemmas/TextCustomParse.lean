/-
  IsoDT.Lemmas.TextCustomParse — the parser half of the custom-format clause of C08 / C06: the
  specified text `customText` of a valid whole-second point, in ANY of the complete custom formats, is
  read back by `TimePointParser.parse` as exactly that point (`parse_customText`) — with a `0`
  fraction on the second when the format has a decimal part.

  The text is recognised as a rendering of three listed regular expressions of the parser's tables
  (found by kernel evaluation over the regenerated tables, `date_entry_all` …), spelling the values
  `valsOf q`; `C07_parse` (every documented non-truncated form decodes to the spelled values) does
  the rest.
-/
import IsoDT.Lemmas.TextCustomDefs
import IsoDT.Lemmas.TextCustomZone
import IsoDT.Lemmas.TextRoundDec
import IsoDT.Props.C07b

namespace IsoDT.Text.Custom
open IsoDT IsoDT.Model IsoDT.Lemmas IsoDT.Text
open IsoDT.Spec (Date TZ TP)
open _root_.IsoDT.Gen.Templates (timeDesignator parserTables)

/-! ## The regular expressions of the class -/

def fmtKey (ext : Bool) : FormatKey := if ext then .extended else .basic

def yearTmplC (x : Bool) (n : Nat) : Template :=
  if x then [.sign .yearSign, .digits .expandedYear n, .digits .century 2, .digits .yearOfCentury 2]
  else [.digits .century 2, .digits .yearOfCentury 2]

def bodyTmpl : Bool → DateKind → Template
  | true, .cal => [.lit '-', .digits .monthOfYear 2, .lit '-', .digits .dayOfMonth 2]
  | true, .ord => [.lit '-', .digits .dayOfYear 3]
  | true, .week => [.lit '-', .lit 'W', .digits .weekOfYear 2, .lit '-', .digits .dayOfWeek 1]
  | false, .cal => [.digits .monthOfYear 2, .digits .dayOfMonth 2]
  | false, .ord => [.digits .dayOfYear 3]
  | false, .week => [.lit 'W', .digits .weekOfYear 2, .digits .dayOfWeek 1]

def dateTmplC (x : Bool) (n : Nat) (ext : Bool) (k : DateKind) : Template := yearTmplC x n ++ bodyTmpl ext k

def clockTmpl (ext : Bool) : Template :=
  if ext then [.digits .hourOfDay 2, .lit ':', .digits .minuteOfHour 2, .lit ':', .digits .secondOfMinute 2]
  else [.digits .hourOfDay 2, .digits .minuteOfHour 2, .digits .secondOfMinute 2]

def fracTmpl : Frac → Template
  | .none => []
  | .comma => [.lit ',', .digitsPlus .secondDec]
  | .point => [.lit '.', .digitsPlus .secondDec]

def timeTmplC (ext : Bool) (fr : Frac) : Template := clockTmpl ext ++ fracTmpl fr

/-- The style of a zone expression: `none` for `Z`. -/
def ZSpec.style : ZSpec → Option ZStyle
  | .utc => none
  | .own s => some s
  | .lit s _ => some s

def zoneTmplS (ext : Bool) : Option ZStyle → Template
  | none => zTmplUtc
  | some s => zoneTmplOf ext s

/-! ## The tables list them -/

set_option maxRecDepth 100000 in
theorem date_entry_all : ∀ pt ∈ parserTables, ∀ x ∈ [true, false], ∀ ext ∈ [true, false],
    ∀ k ∈ [DateKind.cal, .ord, .week], (ext = true → pt.basicOnly = false) →
    ∃ e ∈ pt.dateEntries, e.tmpl = dateTmplC x pt.ned ext k ∧ e.typ = .complete ∧ e.fmt = fmtKey ext := by
  decide +kernel

set_option maxRecDepth 100000 in
theorem time_entry_all : ∀ pt ∈ parserTables, ∀ ext ∈ [true, false], ∀ fr ∈ [Frac.none, .comma, .point],
    (ext = true → pt.basicOnly = false) →
    ∃ e ∈ pt.timeEntries, e.tmpl = timeTmplC ext fr ∧ e.typ = .complete ∧ e.fmt = fmtKey ext := by
  decide +kernel

set_option maxRecDepth 100000 in
theorem zone_entry_all : ∀ pt ∈ parserTables, ∀ ext ∈ [true, false],
    ∀ s ∈ [none, some ZStyle.hm, some ZStyle.h], (ext = true → pt.basicOnly = false) →
    ∃ e ∈ pt.zoneEntries, e.tmpl = zoneTmplS ext s ∧ e.fmt = fmtKey ext := by
  decide +kernel

/-! ## The values a point spells -/

/-- The field values of a whole-second point, as digit groups spell them. -/
def valsOf (q : TP) : Vals :=
  let y := dateYear q.date
  let base : Vals :=
    { yearNeg := decide (y < 0), x := y.natAbs / 10000, cc := y.natAbs / 100 % 100, yy := y.natAbs % 100,
      hour := q.hh.toNat, minute := q.mi.toNat, second := q.ss.toNat,
      tzNeg := decide (q.tz.h < 0 ∨ q.tz.mi < 0), tzHour := q.tz.h.natAbs, tzMinute := q.tz.mi.natAbs }
  match q.date with
  | .cal _ mo d => { base with month := mo.toNat, day := d.toNat }
  | .ord _ doy => { base with doy := doy.toNat }
  | .week _ w d => { base with week := w.toNat, dow := d.toNat }

theorem trender_envOf_append (a b : Template) (v : Vals) :
    trender (a ++ b) (envOf (a ++ b) v) = trender a (envOf a v) ++ trender b (envOf b v) := by
  induction a with
  | nil => rfl
  | cons it a ih => cases it <;> simp [trender, envOf, ih]

section projections
variable (q : TP)

theorem valsOf_yearNeg : (valsOf q).yearNeg = decide (dateYear q.date < 0) := by
  obtain ⟨d, hh, mi, ss, tz⟩ := q; cases d <;> rfl
theorem valsOf_x : (valsOf q).x = (dateYear q.date).natAbs / 10000 := by
  obtain ⟨d, hh, mi, ss, tz⟩ := q; cases d <;> rfl
theorem valsOf_cc : (valsOf q).cc = (dateYear q.date).natAbs / 100 % 100 := by
  obtain ⟨d, hh, mi, ss, tz⟩ := q; cases d <;> rfl
theorem valsOf_yy : (valsOf q).yy = (dateYear q.date).natAbs % 100 := by
  obtain ⟨d, hh, mi, ss, tz⟩ := q; cases d <;> rfl
theorem valsOf_hour : (valsOf q).hour = q.hh.toNat := by
  obtain ⟨d, hh, mi, ss, tz⟩ := q; cases d <;> rfl
theorem valsOf_minute : (valsOf q).minute = q.mi.toNat := by
  obtain ⟨d, hh, mi, ss, tz⟩ := q; cases d <;> rfl
theorem valsOf_second : (valsOf q).second = q.ss.toNat := by
  obtain ⟨d, hh, mi, ss, tz⟩ := q; cases d <;> rfl
theorem valsOf_hourDec : (valsOf q).hourDec = ['0'] := by
  obtain ⟨d, hh, mi, ss, tz⟩ := q; cases d <;> rfl
theorem valsOf_minuteDec : (valsOf q).minuteDec = ['0'] := by
  obtain ⟨d, hh, mi, ss, tz⟩ := q; cases d <;> rfl
theorem valsOf_secondDec : (valsOf q).secondDec = ['0'] := by
  obtain ⟨d, hh, mi, ss, tz⟩ := q; cases d <;> rfl
theorem valsOf_tzNeg : (valsOf q).tzNeg = decide (q.tz.h < 0 ∨ q.tz.mi < 0) := by
  obtain ⟨d, hh, mi, ss, tz⟩ := q; cases d <;> rfl
theorem valsOf_tzHour : (valsOf q).tzHour = q.tz.h.natAbs := by
  obtain ⟨d, hh, mi, ss, tz⟩ := q; cases d <;> rfl
theorem valsOf_tzMinute : (valsOf q).tzMinute = q.tz.mi.natAbs := by
  obtain ⟨d, hh, mi, ss, tz⟩ := q; cases d <;> rfl

end projections

theorem renderNat_mod100 (v : Nat) : renderNat 2 (v % 100) = renderNat 2 v := by
  have := renderNat_mod 2 v; simpa using this

/-! ## The specified text is a rendering of these expressions -/

theorem yearText_render (x : Bool) (n : Nat) (hxn : x = true → n ≠ 0) (q : TP)
    (hy : YearInRange (if x then n else 0) (dateYear q.date)) :
    yearText (if x then n else 0) (dateYear q.date) =
      trender (yearTmplC x n) (envOf (yearTmplC x n) (valsOf q)) := by
  cases x with
  | false =>
    simp [yearText, yearTmplC, trender, envOf, Vals.nat, valsOf_cc, valsOf_yy, renderNat_four, renderNat_mod100]
  | true =>
    have hn := hxn rfl
    by_cases hneg : dateYear q.date < 0 <;>
      simp [yearText, yearTmplC, trender, envOf, Vals.nat, Vals.neg, valsOf_x, valsOf_cc, valsOf_yy,
        valsOf_yearNeg, renderNat_year, hn, hneg]

theorem bodyText_render (ext : Bool) (k : DateKind) (q : TP) (hr : q.date.rep = k.k) :
    bodyText ext q.date = trender (bodyTmpl ext k) (envOf (bodyTmpl ext k) (valsOf q)) := by
  obtain ⟨d, hh, mi, ss, tz⟩ := q
  cases d <;> cases k <;> simp [Date.rep, DateKind.k] at hr <;> cases ext <;>
    simp [bodyText, bodyTmpl, dsep, trender, envOf, valsOf, Vals.nat]

theorem clockText_render (ext : Bool) (fr : Frac) (q : TP) :
    clockText ext q ++ fracText fr = trender (timeTmplC ext fr) (envOf (timeTmplC ext fr) (valsOf q)) := by
  cases ext <;> cases fr <;>
    simp [clockText, fracText, timeTmplC, clockTmpl, fracTmpl, csep, trender, envOf, Vals.nat, Vals.dec,
      valsOf_hour, valsOf_minute, valsOf_second, valsOf_secondDec]

theorem zoneText_render (ext : Bool) (zs : ZSpec) (q : TP) :
    zoneText ext zs q.tz = trender (zoneTmplS ext zs.style) (envOf (zoneTmplS ext zs.style) (valsOf q)) := by
  have key : ∀ s, zsign q.tz :: zoneDigits ext s q.tz =
      trender (zoneTmplOf ext s) (envOf (zoneTmplOf ext s) (valsOf q)) := by
    intro s
    by_cases hneg : q.tz.h < 0 ∨ q.tz.mi < 0 <;> cases s <;> cases ext <;>
      simp [zsign, zoneDigits, zoneTmplOf, zTmplOff, zTmplBasic, zTmplHour, trender, envOf, Vals.nat, Vals.neg,
        valsOf_tzNeg, valsOf_tzHour, valsOf_tzMinute, hneg]
  cases zs with
  | utc => simp [zoneText, ZSpec.style, zoneTmplS, zTmplUtc, trender, envOf]
  | own s => exact key s
  | lit s z => exact key s


theorem customText_render (ned : Nat) (f : CFmt) (hxn : f.expanded = true → ned ≠ 0) (q : TP)
    (hr : q.date.rep = f.kind.k) (hy : YearInRange (f.yd ned) (dateYear q.date)) :
    customText ned f q =
      trender (dateTmplC f.expanded ned f.ext f.kind) (envOf (dateTmplC f.expanded ned f.ext f.kind) (valsOf q)) ++
        'T' :: (trender (timeTmplC f.ext f.frac) (envOf (timeTmplC f.ext f.frac) (valsOf q)) ++
          trender (zoneTmplS f.ext f.zone.style) (envOf (zoneTmplS f.ext f.zone.style) (valsOf q))) := by
  unfold customText dateTmplC CFmt.yd
  rw [trender_envOf_append, ← yearText_render f.expanded ned hxn q hy, ← bodyText_render f.ext f.kind q hr,
    ← clockText_render, ← zoneText_render]

/-! ## The groups of the expressions -/

def yearFlds (x : Bool) : List Fld :=
  if x then [.yearSign, .expandedYear, .century, .yearOfCentury] else [.century, .yearOfCentury]

def bodyFlds : DateKind → List Fld
  | .cal => [.monthOfYear, .dayOfMonth]
  | .ord => [.dayOfYear]
  | .week => [.weekOfYear, .dayOfWeek]

def fracFlds : Frac → List Fld
  | .none => []
  | _ => [.secondDec]

theorem groupFields_date (x : Bool) (n : Nat) (ext : Bool) (k : DateKind) :
    groupFields (dateTmplC x n ext k) = yearFlds x ++ bodyFlds k := by
  cases x <;> cases ext <;> cases k <;> rfl

theorem groupFields_time (ext : Bool) (fr : Frac) :
    groupFields (timeTmplC ext fr) = [.hourOfDay, .minuteOfHour, .secondOfMinute] ++ fracFlds fr := by
  cases ext <;> cases fr <;> rfl

theorem groupFields_zone (ext : Bool) (s : Option ZStyle) :
    groupFields (zoneTmplS ext s) =
      match s with
      | none => [.tzUtc]
      | some .hm => [.tzSign, .tzHour, .tzMinute]
      | some .h => [.tzSign, .tzHour] := by
  cases s with
  | none => rfl
  | some s => cases s <;> cases ext <;> rfl

/-! ## What is read back -/

/-- The zone of the text is the zone of the point: `Z` spells a zero offset, the hours-only style an
    offset of whole hours. -/
def ZoneFaithful (f : CFmt) (q : TP) : Prop :=
  match f.zone.style with
  | none => q.tz = ⟨0, 0⟩
  | some .hm => True
  | some .h => q.tz.mi = 0

/-- The point the text denotes: `q` itself — with a decimal part in the format, `q` with the fraction
    `0` attached to its second (the same number of seconds). -/
def readBack (n : Nat) (fr : Frac) (q : TP) : XTP :=
  match fr with
  | .none => XTP.ofTP n q
  | _ => DTP.toXTP n ⟨q.date, .second q.hh q.mi q.ss ['0'], q.tz⟩

theorem yearOf_custom (x : Bool) (n : Nat) (ext : Bool) (k : DateKind) (q : TP)
    (hy : YearInRange (if x then n else 0) (dateYear q.date)) :
    yearOf (dateTmplC x n ext k) (valsOf q) = dateYear q.date := by
  unfold yearOf
  simp only [hasGroup, groupFields_date, valsOf_x, valsOf_cc, valsOf_yy, valsOf_yearNeg]
  cases x with
  | false =>
    simp only [Bool.false_eq_true, if_false, YearInRange, if_true] at hy
    cases k <;> simp [yearFlds, bodyFlds] <;> omega
  | true =>
    cases k <;> simp [yearFlds, bodyFlds] <;> split <;> omega

theorem dateOf_custom (x : Bool) (n : Nat) (ext : Bool) (k : DateKind) (q : TP) (hr : q.date.rep = k.k)
    (hy : YearInRange (if x then n else 0) (dateYear q.date)) (hf : FieldsFit q) :
    dateOf (dateTmplC x n ext k) (valsOf q) = q.date := by
  unfold dateOf
  rw [yearOf_custom x n ext k q hy]
  simp only [hasGroup, groupFields_date]
  obtain ⟨d, hh, mi, ss, tz⟩ := q
  obtain ⟨hd, _⟩ := hf
  cases d <;> cases k <;> simp [Date.rep, DateKind.k] at hr <;> cases x <;>
    simp [yearFlds, bodyFlds, valsOf, dateYear] <;> simp only at hd <;> omega

theorem pointOf_custom (cfg : Cfg) (x : Bool) (ext : Bool) (k : DateKind) (fr : Frac) (q : TP)
    (hr : q.date.rep = k.k) (hy : YearInRange (if x then cfg.pt.ned else 0) (dateYear q.date))
    (hf : FieldsFit q) :
    pointOf cfg (dateTmplC x cfg.pt.ned ext k) (timeTmplC ext fr) (valsOf q) q.tz =
      readBack (if x then cfg.pt.ned else 0) fr q := by
  unfold pointOf
  rw [yearOf_custom x cfg.pt.ned ext k q hy]
  simp only [hasGroup, fieldOf, decOf, groupFields_date, groupFields_time, valsOf_hour, valsOf_minute,
    valsOf_second, valsOf_hourDec, valsOf_minuteDec, valsOf_secondDec]
  obtain ⟨d, hh, mi, ss, tz⟩ := q
  obtain ⟨hd, h1, _, h2, _, h3, _⟩ := hf
  simp only at hd h1 h2 h3
  have e1 : ((hh.toNat : Nat) : Int) = hh := Int.toNat_of_nonneg h1
  have e2 : ((mi.toNat : Nat) : Int) = mi := Int.toNat_of_nonneg h2
  have e3 : ((ss.toNat : Nat) : Int) = ss := Int.toNat_of_nonneg h3
  cases d with
  | cal y mo dd =>
    simp only at hd
    have a1 : max mo 0 = mo := by omega
    have a2 : max dd 0 = dd := by omega
    cases k with
    | cal =>
      cases x <;> cases fr <;>
        simp [yearFlds, bodyFlds, fracFlds, valsOf, readBack, XTP.ofTP, DTP.toXTP, dateBase, XTP.withTime,
          dateYear, e1, e2, e3, a1, a2]
    | ord => simp [Date.rep, DateKind.k] at hr
    | week => simp [Date.rep, DateKind.k] at hr
  | ord y doy =>
    simp only at hd
    have a1 : max doy 0 = doy := by omega
    cases k with
    | cal => simp [Date.rep, DateKind.k] at hr
    | ord =>
      cases x <;> cases fr <;>
        simp [yearFlds, bodyFlds, fracFlds, valsOf, readBack, XTP.ofTP, DTP.toXTP, dateBase, XTP.withTime,
          dateYear, e1, e2, e3, a1]
    | week => simp [Date.rep, DateKind.k] at hr
  | week y w dd =>
    simp only at hd
    have a1 : max w 0 = w := by omega
    have a2 : max dd 0 = dd := by omega
    cases k with
    | cal => simp [Date.rep, DateKind.k] at hr
    | ord => simp [Date.rep, DateKind.k] at hr
    | week =>
      cases x <;> cases fr <;>
        simp [yearFlds, bodyFlds, fracFlds, valsOf, readBack, XTP.ofTP, DTP.toXTP, dateBase, XTP.withTime,
          dateYear, e1, e2, e3, a1, a2]


theorem valsOf_fit (m : Mode) (n : Nat) (q : TP) (hv : q.Valid m)
    (hx : (dateYear q.date).natAbs / 10000 < 10 ^ n) : (valsOf q).Fit n := by
  have hf := fieldsFit_of_valid m q hv
  obtain ⟨_, _, _, _, _, _, _, _, hz⟩ := hv
  obtain ⟨z1, z2, z3, z4, _, _⟩ := hz
  unfold Vals.Fit
  rw [valsOf_x, valsOf_cc, valsOf_yy, valsOf_hour, valsOf_minute, valsOf_second, valsOf_tzHour,
    valsOf_tzMinute, valsOf_hourDec, valsOf_minuteDec, valsOf_secondDec]
  obtain ⟨d, hh, mi, ss, tz⟩ := q
  obtain ⟨hd, a1, a2, a3, a4, a5, a6⟩ := hf
  simp only at hd a1 a2 a3 a4 a5 a6 z1 z2 z3 z4 hx ⊢
  refine ⟨hx, by omega, by omega, ?_, ?_, ?_, ?_, ?_, by omega, by omega, by omega, by omega, by omega,
    by decide, by decide, by decide⟩ <;>
  (cases d <;> simp only [valsOf] <;> simp only at hd <;> omega)

theorem zoneOf_custom (zd : ZoneDefault) (ext : Bool) (f : CFmt) (q : TP) (hz : q.tz.Valid)
    (hzf : ZoneFaithful f q) :
    (zoneOf zd (some (zoneTmplS ext f.zone.style)) (valsOf q)).hour.getD 0 = q.tz.h ∧
    (zoneOf zd (some (zoneTmplS ext f.zone.style)) (valsOf q)).minute.getD 0 = q.tz.mi := by
  obtain ⟨z1, z2, z3, z4, z5, z6⟩ := hz
  unfold ZoneFaithful at hzf
  unfold zoneOf
  simp only [hasGroup, groupFields_zone, valsOf_tzNeg, valsOf_tzHour, valsOf_tzMinute]
  cases hs : f.zone.style with
  | none =>
    rw [hs] at hzf
    simp [hzf]
  | some s =>
    rw [hs] at hzf
    cases s with
    | hm =>
      by_cases hneg : q.tz.h < 0 ∨ q.tz.mi < 0
      · simp [hneg]; constructor <;> omega
      · simp [hneg]; constructor <;> omega
    | h =>
      simp only at hzf
      by_cases hneg : q.tz.h < 0 ∨ q.tz.mi < 0
      · simp [hzf]; omega
      · simp [hzf]; omega

/-- **Parser half**: the specified text of a valid whole-second point `q` in any complete custom format
    — `q` in the format's representation, its zone faithfully spelled, its year within the format's
    digits — is decoded by every parser configuration that knows the notation (extended notation
    allowed for an extended format; expanded digits configured for a `+X` format; any `allow_truncated`,
    any default zone, any calendar mode) to exactly `q`: same representation, fields and offset. -/
theorem parse_customText (cfg : Cfg) (hpt : cfg.pt ∈ parserTables) (f : CFmt)
    (hb : f.ext = true → cfg.pt.basicOnly = false) (hx : f.expanded = true → cfg.pt.ned ≠ 0)
    (q : TP) (hv : q.Valid cfg.mode) (hr : q.date.rep = f.kind.k)
    (hy : YearInRange (f.yd cfg.pt.ned) (dateYear q.date)) (hzf : ZoneFaithful f q) :
    parse cfg (customText cfg.pt.ned f q) false = some (readBack (f.yd cfg.pt.ned) f.frac q) := by
  obtain ⟨de, hde, hdt, hdc, hdf⟩ := date_entry_all cfg.pt hpt f.expanded (by cases f.expanded <;> simp)
    f.ext (by cases f.ext <;> simp) f.kind (by cases f.kind <;> simp) hb
  obtain ⟨te, hte, htt, htc, htf⟩ := time_entry_all cfg.pt hpt f.ext (by cases f.ext <;> simp)
    f.frac (by cases f.frac <;> simp) hb
  obtain ⟨ze, hze, hzt, hzf'⟩ := zone_entry_all cfg.pt hpt f.ext (by cases f.ext <;> simp)
    f.zone.style (by cases f.zone.style with | none => simp | some s => cases s <;> simp) hb
  have hff := fieldsFit_of_valid cfg.mode q hv
  have hxlt : (dateYear q.date).natAbs / 10000 < 10 ^ cfg.pt.ned := by
    unfold CFmt.yd YearInRange at hy
    cases hxe : f.expanded with
    | false =>
      rw [hxe] at hy
      simp only [Bool.false_eq_true, if_false, if_true] at hy
      have : (dateYear q.date).natAbs / 10000 = 0 := by omega
      rw [this]; exact Nat.pow_pos (by decide)
    | true =>
      rw [hxe] at hy
      simp only [if_true, hx hxe, if_false] at hy
      rw [Nat.pow_add] at hy
      generalize 10 ^ cfg.pt.ned = K at hy ⊢
      omega
  have hfit := valsOf_fit cfg.mode cfg.pt.ned q hv hxlt
  obtain ⟨zh, zm⟩ := zoneOf_custom cfg.zone f.ext f q hv.2.2.2.2.2.2.2.2 hzf
  have hX : cfg.pt.ned = 0 → hasGroup de.tmpl .expandedYear = false := by
    intro h0
    rw [hdt]
    cases hxe : f.expanded with
    | false => simp only [hasGroup, groupFields_date]; cases f.kind <;> rfl
    | true => exact absurd h0 (hx hxe)
  have key := Props.C07.C07_parse cfg hpt de hde hdc hX te hte (by rw [htc]; decide) (htf.trans hdf.symm)
    (some ze) (by intro z hz; obtain rfl := Option.some.inj hz; exact ⟨hze, hzf'.trans hdf.symm⟩)
    (valsOf q) hfit q.tz (by
      simp only [Option.map_some, hzt, zh, zm]
      exact Lemmas.Strf.mkTZ_valid cfg.mode q.tz hv.2.2.2.2.2.2.2.2)
  rw [customText_render cfg.pt.ned f hx q hr hy, ← hdt, ← htt, ← hzt]
  have hzt' : Props.C07.zoneText (some ze) (valsOf q) = trender ze.tmpl (envOf ze.tmpl (valsOf q)) := rfl
  rw [← hzt', key, hdt, htt]
  have hyd : YearInRange (if f.expanded then cfg.pt.ned else 0) (dateYear q.date) := hy
  rw [dateOf_custom f.expanded cfg.pt.ned f.ext f.kind q hr hyd hff,
    pointOf_custom cfg f.expanded f.ext f.kind f.frac q hr hyd hff]
  have htv : TimeValid (timeTmplC f.ext f.frac) (valsOf q) := by
    obtain ⟨_, b1, b2, b3, b4, b5, b6, b7, _⟩ := hv
    unfold TimeValid hourOf minuteOf secondOf
    simp only [hasGroup, groupFields_time, valsOf_hour, valsOf_minute, valsOf_second, valsOf_hourDec,
      valsOf_minuteDec, valsOf_secondDec]
    by_cases h24 : q.hh = 24
    · right
      obtain ⟨c1, c2⟩ := b7 h24
      cases f.frac <;> simp [fracFlds, h24, c1, c2, fracZero]
    · left
      cases f.frac <;> simp [fracFlds] <;> omega
  rw [if_pos ⟨hv.1, htv⟩]
  rfl

end IsoDT.Text.Custom
