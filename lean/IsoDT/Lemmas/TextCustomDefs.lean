/-
  IsoDT.Lemmas.TextCustomDefs — the class of COMPLETE CUSTOM DUMP FORMATS of properties C08 (last
  clause) and C06 (literal-zone spellings), the point such a format is specified to print
  (`CFmt.target`) and the text it is specified to print (`customText`), spelled out field by field.

  A complete custom format is
    * a complete date expression: `CCYY-MM-DD` / `CCYY-DDD` / `CCYY-Www-D` (extended) or `CCYYMMDD` /
      `CCYYDDD` / `CCYYWwwD` (basic), optionally preceded by the expanded-year token `+X`;
    * `T`;
    * the time down to the second, `hh:mm:ss` (extended) or `hhmmss` (basic), optionally followed by a
      decimal part `,tt` or `.tt`;
    * a zone expression: `Z`; a placeholder `+hh:mm` (extended) / `+hhmm` (basic) / `+hh` that prints
      the point's own offset; or a LITERAL numeric offset `±hh:mm` (extended) / `±hhmm` (basic) / `±hh`
      that the point is first converted to.
  Date, time and zone are basic or extended together — that is what a parser reads back.
  No proofs here.
-/
import IsoDT.Lemmas.TextRoundDefs

namespace IsoDT.Text.Custom
open IsoDT IsoDT.Model IsoDT.Text
open IsoDT.Spec (Date TZ TP)

/-! ## The formats -/

/-- The date representation a format asks for. -/
inductive DateKind where
  | cal | ord | week
  deriving DecidableEq, Repr, Inhabited

/-- The representation number of `Spec.Date.rep` / `Model.convert`. -/
def DateKind.k : DateKind → Nat
  | .cal => 0 | .ord => 1 | .week => 2

/-- The decimal part of the seconds: none, `,tt` or `.tt`. -/
inductive Frac where
  | none | comma | point
  deriving DecidableEq, Repr, Inhabited

/-- How a numeric zone is spelled: hours and minutes (`±hh:mm` extended, `±hhmm` basic), or hours
    alone (`±hh`). -/
inductive ZStyle where
  | hm | h
  deriving DecidableEq, Repr, Inhabited

/-- The zone expression of a format. -/
inductive ZSpec where
  /-- `Z`: print in UTC -/
  | utc
  /-- the placeholder `+hh:mm` / `+hhmm` / `+hh`: print the point's own offset -/
  | own (s : ZStyle)
  /-- a literal offset, e.g. `+05:30`, `-0030`, `+05`: convert to it, then print it -/
  | lit (s : ZStyle) (z : TZ)
  deriving DecidableEq, Repr, Inhabited

/-- A complete custom dump format. -/
structure CFmt where
  /-- the expanded-year token `+X` precedes `CCYY` -/
  expanded : Bool
  kind : DateKind
  /-- extended (`-`, `:` separators) or basic notation, for date, time and zone alike -/
  ext : Bool
  frac : Frac
  zone : ZSpec
  deriving DecidableEq, Repr, Inhabited

/-! ## The format string -/

def yearFmt (expanded : Bool) : List Char :=
  if expanded then ['+', 'X', 'C', 'C', 'Y', 'Y'] else ['C', 'C', 'Y', 'Y']

def bodyFmt : Bool → DateKind → List Char
  | true, .cal => ['-', 'M', 'M', '-', 'D', 'D']
  | true, .ord => ['-', 'D', 'D', 'D']
  | true, .week => ['-', 'W', 'w', 'w', '-', 'D']
  | false, .cal => ['M', 'M', 'D', 'D']
  | false, .ord => ['D', 'D', 'D']
  | false, .week => ['W', 'w', 'w', 'D']

def clockFmt (ext : Bool) : List Char :=
  if ext then ['h', 'h', ':', 'm', 'm', ':', 's', 's'] else ['h', 'h', 'm', 'm', 's', 's']

def fracFmt : Frac → List Char
  | .none => []
  | .comma => [',', 't', 't']
  | .point => ['.', 't', 't']

/-- The sign a numeric zone is written with: `-` iff the offset is negative (hours or, with zero
    hours, minutes). -/
def zsign (z : TZ) : Char := if z.h < 0 ∨ z.mi < 0 then '-' else '+'

/-- The digits of a numeric zone after its sign: two of the hours, then — in the `hm` style — two of
    the minutes, separated by `:` in extended notation. -/
def zoneDigits (ext : Bool) (s : ZStyle) (z : TZ) : List Char :=
  renderNat 2 z.h.natAbs ++
    match s with
    | .h => []
    | .hm => (if ext then [':'] else []) ++ renderNat 2 z.mi.natAbs

def ZSpec.fmt (ext : Bool) : ZSpec → List Char
  | .utc => ['Z']
  | .own .hm => if ext then ['+', 'h', 'h', ':', 'm', 'm'] else ['+', 'h', 'h', 'm', 'm']
  | .own .h => ['+', 'h', 'h']
  | .lit s z => zsign z :: zoneDigits ext s z

/-- The formatting string handed to `TimePointDumper.dump`. -/
def CFmt.text (f : CFmt) : List Char :=
  (yearFmt f.expanded ++ bodyFmt f.ext f.kind) ++
    'T' :: ((clockFmt f.ext ++ fracFmt f.frac) ++ f.zone.fmt f.ext)

/-- What a format needs to make sense for a dumper with `ned` expanded year digits: the `+X` token
    only with expanded digits (with none, `X` prints one zero-padded digit no parser reads back); a
    literal zone is a legal offset, and the hours-only spelling spells an offset of whole hours. -/
def CFmt.WF (f : CFmt) (ned : Nat) : Prop :=
  (f.expanded = true → ned ≠ 0) ∧
  match f.zone with
  | .lit s z => z.Valid ∧ (s = .h → z.mi = 0)
  | _ => True

instance (f : CFmt) (ned : Nat) : Decidable (f.WF ned) := by
  unfold CFmt.WF; cases f.zone <;> infer_instance

/-- The number of expanded year digits the format's year is written with. -/
def CFmt.yd (f : CFmt) (ned : Nat) : Nat := if f.expanded then ned else 0

/-! ## The point a format prints -/

/-- The offset the dumped text carries. -/
def ZSpec.target (p : TP) : ZSpec → TZ
  | .utc => ⟨0, 0⟩
  | .own _ => p.tz
  | .lit _ z => z

/-- `p` converted to the format's zone (`to_time_zone`; the identity for a placeholder zone) and then
    re-expressed in the format's date representation. -/
def CFmt.target (m : Mode) (f : CFmt) (p : TP) : Option TP :=
  (toTimeZone m p (f.zone.target p)).bind fun q =>
    (convert m f.kind.k q.date).map fun d => { q with date := d }

/-! ## The specified text -/

/-- Sign (only with expanded digits) and `4 + n` digits of the year. -/
def yearText (n : Nat) (y : Int) : List Char :=
  (if n = 0 then [] else [if y < 0 then '-' else '+']) ++ renderNat (4 + n) y.natAbs

def dsep (ext : Bool) : List Char := if ext then ['-'] else []
def csep (ext : Bool) : List Char := if ext then [':'] else []

/-- The date after the year: `-MM-DD` / `-DDD` / `-Www-D`, without the hyphens in basic notation. -/
def bodyText (ext : Bool) : Date → List Char
  | .cal _ mo d => dsep ext ++ renderNat 2 mo.toNat ++ dsep ext ++ renderNat 2 d.toNat
  | .ord _ doy => dsep ext ++ renderNat 3 doy.toNat
  | .week _ w d => dsep ext ++ 'W' :: renderNat 2 w.toNat ++ dsep ext ++ renderNat 1 d.toNat

/-- `hh:mm:ss` / `hhmmss`. -/
def clockText (ext : Bool) (q : TP) : List Char :=
  renderNat 2 q.hh.toNat ++ csep ext ++ renderNat 2 q.mi.toNat ++ csep ext ++ renderNat 2 q.ss.toNat

/-- The decimal part of a whole second: the decimal sign and one `0`. -/
def fracText : Frac → List Char
  | .none => []
  | .comma => [',', '0']
  | .point => ['.', '0']

/-- `Z`, or sign and digits of the offset in the format's style. -/
def zoneText (ext : Bool) : ZSpec → TZ → List Char
  | .utc, _ => ['Z']
  | .own s, z => zsign z :: zoneDigits ext s z
  | .lit s _, z => zsign z :: zoneDigits ext s z

/-- **The text a complete custom format is specified to print** for the (converted) whole-second
    point `q`, by a dumper with `ned` expanded year digits. -/
def customText (ned : Nat) (f : CFmt) (q : TP) : List Char :=
  (yearText (f.yd ned) (dateYear q.date) ++ bodyText f.ext q.date) ++
    'T' :: ((clockText f.ext q ++ fracText f.frac) ++ zoneText f.ext f.zone q.tz)

/-! ## Examples -/

example : (CFmt.mk false .cal true .none (.lit .hm ⟨5, 30⟩)).text = "CCYY-MM-DDThh:mm:ss+05:30".toList := by
  decide +kernel
example : (CFmt.mk true .week false .point (.lit .hm ⟨0, -30⟩)).text = "+XCCYYWwwDThhmmss.tt-0030".toList := by
  decide +kernel
example : (CFmt.mk false .ord true .comma (.lit .h ⟨-5, 0⟩)).text = "CCYY-DDDThh:mm:ss,tt-05".toList := by
  decide +kernel
example : (CFmt.mk false .ord false .none (.own .hm)).text = "CCYYDDDThhmmss+hhmm".toList := by decide +kernel
example : (CFmt.mk false .week true .none .utc).text = "CCYY-Www-DThh:mm:ss".toList ++ ['Z'] := by decide +kernel

example : customText 0 (CFmt.mk false .cal false .none (.lit .hm ⟨0, -30⟩))
    ⟨.cal 2000 2 29, 23, 40, 0, ⟨0, -30⟩⟩ = "20000229T234000-0030".toList := by decide +kernel
example : customText 2 (CFmt.mk true .week true .comma (.own .h))
    ⟨.week (-396) 53 7, 24, 0, 0, ⟨-5, 0⟩⟩ = "-000396-W53-7T24:00:00,0-05".toList := by decide +kernel
example : customText 2 (CFmt.mk false .ord true .none .utc)
    ⟨.ord 2000 61, 0, 10, 0, ⟨0, 0⟩⟩ = "2000-061T00:10:00Z".toList := by decide +kernel

example : (CFmt.mk false .ord true .none (.lit .hm ⟨0, -30⟩)).target .greg
    ⟨.week 2020 53 5, 0, 10, 0, ⟨0, 0⟩⟩ = some ⟨.ord 2020 366, 23, 40, 0, ⟨0, -30⟩⟩ := by decide +kernel

end IsoDT.Text.Custom
