/-
  IsoDT.Lemmas.TextDumpZone — dumping with a format that carries a LITERAL `±hh:mm` zone
  (`CCYY-MM-DDThh:mm:ss+05:30` and its ordinal / week siblings), without expanded year digits.

  `_get_expression_and_properties` splits the zone off the time, asks the default parser for the
  offset it spells (`get_time_zone`), and runs the zone substitution rules over the literal text
  (which only turn a leading `+` into the point's zone sign); `_dump_expression_with_properties`
  re-zones the point to that offset (`to_time_zone`), checks the year and prints.  The four zone
  digits are symbolic; the rest is evaluation of the concrete tables.
-/
import IsoDT.Lemmas.TextRoundStr
import IsoDT.Lemmas.TextRoundParse

namespace IsoDT.Text
open IsoDT IsoDT.Model IsoDT.Lemmas
open IsoDT.Spec (Date TZ TP)
open _root_.IsoDT.Gen.Templates (timeDesignator dumper_0 parserTables)

/-! ## The format and the text -/

/-- The literal zone of a format string: sign (`-` iff the offset is negative), two digits of the
    hours, `:`, two digits of the minutes. -/
def litZoneText (z : TZ) : List Char :=
  (if z.h < 0 ∨ z.mi < 0 then '-' else '+') ::
    (renderNat 2 z.h.natAbs ++ ':' :: renderNat 2 z.mi.natAbs)

/-- The complete extended date tokens for the representation of `d`. -/
def litDateFmt : Date → List Char
  | .cal .. => ['C', 'C', 'Y', 'Y', '-', 'M', 'M', '-', 'D', 'D']
  | .ord .. => ['C', 'C', 'Y', 'Y', '-', 'D', 'D', 'D']
  | .week .. => ['C', 'C', 'Y', 'Y', '-', 'W', 'w', 'w', '-', 'D']

/-- `CCYY-MM-DDThh:mm:ss±hh:mm` (resp. `CCYY-DDD…`, `CCYY-Www-D…`) with the literal zone `z`. -/
def litFormat (d : Date) (z : TZ) : List Char :=
  litDateFmt d ++ ['T', 'h', 'h', ':', 'm', 'm', ':', 's', 's'] ++ litZoneText z

/-- Date and time of `q` as `stdText ned q` spells them, followed by the literal zone `z`. -/
def zonedTextN (ned : Nat) (q : TP) (z : TZ) : List Char :=
  trender (dateTmpl ned q.date) (dateEnv ned q.date) ++
    'T' :: (trender timeTmpl (timeEnv q) ++ litZoneText z)

/-- Date and time of `q` as `stdText 0 q` spells them (four year digits), followed by the literal
    zone `z`. -/
def zonedText (q : TP) (z : TZ) : List Char := zonedTextN 0 q z

example : zonedText ⟨.cal 2000 2 29, 5, 7, 9, ⟨0, 0⟩⟩ ⟨0, 0⟩ = "2000-02-29T05:07:09+00:00".toList := by
  decide +kernel

example : litFormat (.cal 0 0 0) ⟨5, 30⟩ = "CCYY-MM-DDThh:mm:ss+05:30".toList := by decide +kernel
example : litFormat (.week 0 0 0) ⟨0, -30⟩ = "CCYY-Www-DThh:mm:ss-00:30".toList := by decide +kernel
example : litFormat (.ord 0 0) ⟨0, 0⟩ = "CCYY-DDDThh:mm:ss+00:00".toList := by decide +kernel

/-- The literal zone is the `±hh:mm` form of `stdText` whenever that form is used (non-zero offset). -/
theorem litZoneText_eq (z : TZ) (h0 : ¬ (z.h = 0 ∧ z.mi = 0)) :
    litZoneText z = trender (zoneTmpl z) (zoneEnv z) := by
  simp [litZoneText, zoneTmpl, zoneEnv, h0, trender]

theorem zonedTextN_eq_stdText (ned : Nat) (q : TP) (h0 : ¬ (q.tz.h = 0 ∧ q.tz.mi = 0)) :
    zonedTextN ned q q.tz = stdText ned q := by
  unfold zonedTextN stdText
  rw [litZoneText_eq q.tz h0]

/-- For a non-zero offset the literal-zone text is the specified text of the re-zoned point. -/
theorem zonedText_eq_stdText (q : TP) (h0 : ¬ (q.tz.h = 0 ∧ q.tz.mi = 0)) :
    zonedText q q.tz = stdText 0 q := zonedTextN_eq_stdText 0 q h0

/-! ## Two-digit blocks -/

theorem renderNat_two (v : Nat) :
    ∃ a b, renderNat 2 v = [a, b] ∧ isDigit a = true ∧ isDigit b = true := by
  have hl := renderNat_length 2 v
  have hd := renderNat_digits 2 v
  match h : renderNat 2 v, hl, hd with
  | [a, b], _, hd =>
    simp only [List.all_cons, List.all_nil, Bool.and_true, Bool.and_eq_true] at hd
    exact ⟨a, b, rfl, hd.1, hd.2⟩

/-- A digit is none of the characters the dumper's rules and splits look for. -/
theorem digit_ne (a : Char) (ha : isDigit a = true) (c : Char) (hc : isDigit c = false) : ¬ c = a := by
  intro e; subst e; rw [ha] at hc; exact absurd hc (by simp)

/-! ## `get_time_zone` on the literal text -/

def litZoneEnv (z : TZ) : Env :=
  [(.tzSign, [if z.h < 0 ∨ z.mi < 0 then '-' else '+']), (.tzHour, renderNat 2 z.h.natAbs),
   (.tzMinute, renderNat 2 z.mi.natAbs)]

theorem litZoneText_render (z : TZ) : litZoneText z = trender zTmplOff (litZoneEnv z) := by
  simp [litZoneText, zTmplOff, litZoneEnv, trender]

theorem fits_litZone (z : TZ) : fits zTmplOff (litZoneEnv z) = true := by
  simp [zTmplOff, litZoneEnv, fits, renderNat_length, renderNat_digits]
  omega

theorem processZone_litZoneEnv (zd : ZoneDefault) (z : TZ) (hz : z.Valid) :
    processZone zd (litZoneEnv z) = some ⟨some z.h, some z.mi⟩ := by
  unfold TZ.Valid at hz
  have hh : intOf? (renderNat 2 z.h.natAbs) = some (z.h.natAbs : Int) :=
    intOf_renderNat 2 _ (by decide) (by omega)
  have hm : intOf? (renderNat 2 z.mi.natAbs) = some (z.mi.natAbs : Int) :=
    intOf_renderNat 2 _ (by decide) (by omega)
  unfold litZoneEnv
  by_cases hneg : z.h < 0 ∨ z.mi < 0
  · simp [processZone, Env.has, Env.get?, hh, hm, hneg]
    constructor <;> omega
  · simp [processZone, Env.has, Env.get?, hh, hm, hneg]
    constructor <;> omega

theorem defaultTables_eq : defaultTables = Gen.Templates.parser_2_all := rfl

theorem defaultTables_mem : defaultTables ∈ parserTables := by
  rw [defaultTables_eq]; exact .tail _ (.tail _ (.head _))

theorem defaultTables_ext : defaultTables.basicOnly = false := by decide +kernel

/-- **`get_time_zone`** reads a literal `±hh:mm` — every legal offset, −99:59 … +99:59, `-00:30`
    included — as exactly that offset. -/
theorem getTimeZone_lit (z : TZ) (hz : z.Valid) : getTimeZone (litZoneText z) = some (z.h, z.mi) := by
  obtain ⟨_, _, _, ze, hze, hzt, hzf⟩ :=
    std_entries defaultTables defaultTables_mem defaultTables_ext (.cal 0 0 0)
  obtain ⟨e', he', _⟩ := getZoneInfo_rendered defaultTables (tableFacts _ defaultTables_mem) ze hze []
    rfl (litZoneEnv z) (by rw [hzt]; exact fits_litZone z)
  unfold getTimeZone
  rw [litZoneText_render, ← hzt, he']
  simp only [processZone_litZoneEnv .unknown z hz, Option.getD_some]

/-! ## The zone rules on the literal text -/

/-- What the zone rules make of the literal zone: a `+` becomes the point's zone sign, a `-` and the
    digits stay as they are. -/
def litZoneSegs (z : TZ) : List Seg :=
  (if z.h < 0 ∨ z.mi < 0 then Seg.raw '-' else Seg.dir (.str .tzSign)) ::
    ((renderNat 2 z.h.natAbs).map Seg.raw ++ Seg.raw ':' :: (renderNat 2 z.mi.natAbs).map Seg.raw)

def litZoneProps (z : TZ) : List DProp := if z.h < 0 ∨ z.mi < 0 then [] else [.tzSign]

section digits
variable (a b c d : Char) (ha : isDigit a = true) (hb : isDigit b = true) (hc : isDigit c = true)
  (hd : isDigit d = true)
include ha hb hc hd

theorem compile_zone_plus :
    compile dumper_0.zone (['+', a, b, ':', c, d].map Seg.raw) =
      ([.dir (.str .tzSign), .raw a, .raw b, .raw ':', .raw c, .raw d], [.tzSign]) := by
  have a1 := digit_ne a ha 'm' (by decide); have a2 := digit_ne a ha 'h' (by decide)
  have a3 := digit_ne a ha '+' (by decide); have a4 := digit_ne a ha 'Z' (by decide)
  have b1 := digit_ne b hb 'm' (by decide); have b2 := digit_ne b hb 'h' (by decide)
  have b3 := digit_ne b hb '+' (by decide); have b4 := digit_ne b hb 'Z' (by decide)
  have c1 := digit_ne c hc 'm' (by decide); have c2 := digit_ne c hc 'h' (by decide)
  have c3 := digit_ne c hc '+' (by decide); have c4 := digit_ne c hc 'Z' (by decide)
  have d1 := digit_ne d hd 'm' (by decide); have d2 := digit_ne d hd 'h' (by decide)
  have d3 := digit_ne d hd '+' (by decide); have d4 := digit_ne d hd 'Z' (by decide)
  simp [dumper_0, compile, applyRule, scan, occurs, matchesAt, matchRaw, outSegs,
    a1, a2, a3, a4, b1, b2, b3, b4, c1, c2, c3, c4, d1, d2, d3, d4]

theorem compile_zone_minus :
    compile dumper_0.zone (['-', a, b, ':', c, d].map Seg.raw) =
      ([.raw '-', .raw a, .raw b, .raw ':', .raw c, .raw d], []) := by
  have a1 := digit_ne a ha 'm' (by decide); have a2 := digit_ne a ha 'h' (by decide)
  have a3 := digit_ne a ha '+' (by decide); have a4 := digit_ne a ha 'Z' (by decide)
  have b1 := digit_ne b hb 'm' (by decide); have b2 := digit_ne b hb 'h' (by decide)
  have b3 := digit_ne b hb '+' (by decide); have b4 := digit_ne b hb 'Z' (by decide)
  have c1 := digit_ne c hc 'm' (by decide); have c2 := digit_ne c hc 'h' (by decide)
  have c3 := digit_ne c hc '+' (by decide); have c4 := digit_ne c hc 'Z' (by decide)
  have d1 := digit_ne d hd 'm' (by decide); have d2 := digit_ne d hd 'h' (by decide)
  have d3 := digit_ne d hd '+' (by decide); have d4 := digit_ne d hd 'Z' (by decide)
  simp [dumper_0, compile, applyRule, scan, occurs, matchesAt, matchRaw,
    a1, a2, a3, a4, b1, b2, b3, b4, c1, c2, c3, c4, d1, d2, d3, d4]

/-! ## The split of the text after the `T` -/

theorem tzSplit_plus :
    tzSplit (hmsFmt ++ ['+', a, b, ':', c, d]) =
      some (hmsFmt, ['+', a, b, ':', c, d], getTimeZone ['+', a, b, ':', c, d]) := by
  have a1 := digit_ne a ha 'h' (by decide); have a3 := digit_ne a ha '+' (by decide)
  have b3 := digit_ne b hb '+' (by decide); have c3 := digit_ne c hc '+' (by decide)
  have d3 := digit_ne d hd '+' (by decide); have d4 := digit_ne d hd 'Z' (by decide)
  have hsp : splitOnChar '+' (hmsFmt ++ '+' :: [a, b, ':', c, d]) = [hmsFmt, [a, b, ':', c, d]] :=
    splitOnChar_one '+' _ _ (by decide) (by simp [a3, b3, c3, d3])
  unfold tzSplit
  rw [hsp]
  have h1 : (hmsFmt ++ ['+', a, b, ':', c, d]).getLast? = some d := by simp [hmsFmt]
  have h2 : hasInfix ['+', 'h', 'h'] (hmsFmt ++ ['+', a, b, ':', c, d]) = false := by
    simp [hmsFmt, hasInfix, stripPrefix, a1, a3, b3, c3, d3]
  have h3 : (hmsFmt ++ ['+', a, b, ':', c, d]).contains '+' = true := by simp
  rw [h1, h2, h3]
  simp [Ne.symm d4]

theorem tzSplit_minus :
    tzSplit (hmsFmt ++ ['-', a, b, ':', c, d]) =
      some (hmsFmt, ['-', a, b, ':', c, d], getTimeZone ['-', a, b, ':', c, d]) := by
  have a3 := digit_ne a ha '+' (by decide); have a5 := digit_ne a ha '-' (by decide)
  have b3 := digit_ne b hb '+' (by decide); have b5 := digit_ne b hb '-' (by decide)
  have c3 := digit_ne c hc '+' (by decide); have c5 := digit_ne c hc '-' (by decide)
  have d3 := digit_ne d hd '+' (by decide); have d5 := digit_ne d hd '-' (by decide)
  have d4 := digit_ne d hd 'Z' (by decide)
  have hsp : splitOnChar '-' (hmsFmt ++ '-' :: [a, b, ':', c, d]) = [hmsFmt, [a, b, ':', c, d]] :=
    splitOnChar_one '-' _ _ (by decide) (by simp [a5, b5, c5, d5])
  unfold tzSplit
  rw [hsp]
  have h1 : (hmsFmt ++ ['-', a, b, ':', c, d]).getLast? = some d := by simp [hmsFmt]
  have h2 : hasInfix ['+', 'h', 'h'] (hmsFmt ++ ['-', a, b, ':', c, d]) = false := by
    simp [hmsFmt, hasInfix, stripPrefix, a3, b3, c3, d3]
  have h3 : (hmsFmt ++ ['-', a, b, ':', c, d]).contains '+' = false := by
    simp [hmsFmt, a3, b3, c3, d3]
  have h4 : ((hmsFmt ++ ['-', a, b, ':', c, d]).dropWhile (· = '-')).contains '-' = true := by
    simp [hmsFmt]
  rw [h1, h2, h3, h4]
  simp [Ne.symm d4]

end digits


/-! ## `_get_expression_and_properties` on the format -/

theorem compile_time_hms : compile dumper_0.time (hmsFmt.map Seg.raw) = (timeSegs, timeProps) := by
  decide +kernel

/-- The text after the `T`: time tokens compiled, the literal zone kept (its `+` turned into the zone
    sign), and the offset it spells handed on as `custom_time_zone`. -/
theorem timeZonePart_lit (z : TZ) (hz : z.Valid) :
    timeZonePart dumper_0 (hmsFmt ++ litZoneText z) =
      some (timeSegs ++ litZoneSegs z, timeProps ++ litZoneProps z, some (z.h, z.mi)) := by
  have hg := getTimeZone_lit z hz
  obtain ⟨a, b, hab, ha, hb⟩ := renderNat_two z.h.natAbs
  obtain ⟨c, d, hcd, hc, hd⟩ := renderNat_two z.mi.natAbs
  unfold litZoneText at hg ⊢
  unfold litZoneSegs litZoneProps timeZonePart
  rw [hab, hcd] at hg ⊢
  by_cases hneg : z.h < 0 ∨ z.mi < 0
  · simp only [hneg, if_true] at hg ⊢
    simp only [List.cons_append, List.nil_append] at hg ⊢
    rw [tzSplit_minus a b c d ha hb hc hd]
    simp only
    rw [compile_time_hms, compile_zone_minus a b c d ha hb hc hd, hg]
    rfl
  · simp only [hneg, if_false] at hg ⊢
    simp only [List.cons_append, List.nil_append] at hg ⊢
    rw [tzSplit_plus a b c d ha hb hc hd]
    simp only
    rw [compile_time_hms, compile_zone_plus a b c d ha hb hc hd, hg]
    rfl

def yearSegs : List Seg := [.dir (.int .century 2), .dir (.int .yearOfCentury 2)]

def yearProps : List DProp := [.century, .yearOfCentury]

theorem litDateFmt_eq (d : Date) : litDateFmt d = ['C', 'C', 'Y', 'Y'] ++ dateSuffixK d.rep := by
  cases d <;> rfl

theorem compile_date_lit : ∀ k ∈ [0, 1, 2],
    compile dumper_0.date ((['C', 'C', 'Y', 'Y'] ++ dateSuffixK k).map Seg.raw) =
      (yearSegs ++ dateSegsK k, yearProps ++ datePropsK k) := by decide +kernel

theorem notMem_litZone (z : TZ) (x : Char) (hx : isDigit x = false) (h1 : x ≠ '+') (h2 : x ≠ '-')
    (h3 : x ≠ ':') : x ∉ litZoneText z := by
  obtain ⟨a, b, hab, ha, hb⟩ := renderNat_two z.h.natAbs
  obtain ⟨c, d, hcd, hc, hd⟩ := renderNat_two z.mi.natAbs
  unfold litZoneText
  rw [hab, hcd]
  have := digit_ne a ha x hx; have := digit_ne b hb x hx
  have := digit_ne c hc x hx; have := digit_ne d hd x hx
  split <;> simp [*]

theorem litFormat_eq (d : Date) (z : TZ) :
    litFormat d z = litDateFmt d ++ 'T' :: (hmsFmt ++ litZoneText z) := by
  simp [litFormat, hmsFmt]

/-- The compiled format. -/
def litExpr (d : Date) (z : TZ) : Expr :=
  { segs := (yearSegs ++ dateSegsK d.rep) ++ Seg.raw 'T' :: (timeSegs ++ litZoneSegs z),
    props := (yearProps ++ datePropsK d.rep) ++ (timeProps ++ litZoneProps z),
    customTZ := some (z.h, z.mi) }

theorem getExpr_lit (d : Date) (z : TZ) (hz : z.Valid) :
    getExpr dumper_0 (litFormat d z) = some (litExpr d z) := by
  have hD : 'T' ∉ litDateFmt d := by cases d <;> simp [litDateFmt]
  have hR : 'T' ∉ hmsFmt ++ litZoneText z := by
    have := notMem_litZone z 'T' (by decide) (by decide) (by decide) (by decide)
    simp only [List.mem_append, not_or]
    exact ⟨by decide, this⟩
  rw [litFormat_eq, getExpr_T dumper_0 _ _ hD hR, timeZonePart_lit z hz, litDateFmt_eq,
    compile_date_lit d.rep (rep_mem d)]
  rfl

theorem litFormat_noPercent (d : Date) (z : TZ) : (litFormat d z).contains '%' = false := by
  have h1 : '%' ∉ litDateFmt d := by cases d <;> simp [litDateFmt]
  have h2 := notMem_litZone z '%' (by decide) (by decide) (by decide) (by decide)
  have : '%' ∉ litFormat d z := by
    rw [litFormat_eq]
    simp only [List.mem_append, List.mem_cons, not_or]
    exact ⟨h1, by decide, by decide, h2⟩
  simpa using this

/-! ## `_dump_expression_with_properties`: re-zoning and the year check -/

theorem ofTP_toTP (ned : Nat) (P : TP) : (XTP.ofTP ned P).toTP? = some P := by
  obtain ⟨d, hh, mi, ss, tz⟩ := P; cases d <;> rfl

/-- The dumper's `to_time_zone` on a whole-second point is the integer model's. -/
theorem xtp_toTimeZone (m : Mode) (ned : Nat) (P Q : TP) (z : TZ)
    (hq : Model.toTimeZone m P z = some Q) :
    (XTP.ofTP ned P).toTimeZone m z = .ok (XTP.ofTP ned Q) := by
  unfold XTP.toTimeZone
  rw [ofTP_tzUnknown, ofTP_tz]
  by_cases h : P.tz = z
  · have hQ : Q = P := by
      unfold Model.toTimeZone at hq
      rw [if_pos ⟨by rw [h], by rw [h]⟩] at hq
      exact (Option.some.inj hq).symm
    subst hQ
    simp [h]
  · simp only [h, Bool.not_false, Bool.true_and, decide_false, Bool.false_eq_true, if_false]
    simp only [ofTP_toTP, hq, ofTP_ned, ofTP_dumpFmt]
    congr 1
    obtain ⟨d, hh, mi, ss, tz⟩ := Q; cases d <;> rfl

/-- With a literal zone and the `CC` token in the format: re-zone, check the year of the re-zoned
    point against 0000–9999, print the re-zoned point. -/
theorem dumpExpr_rezone (m : Mode) (P Q : TP) (z : TZ) (hz : z.Valid)
    (hq : Model.toTimeZone m P z = some Q) (segs : List Seg) (props : List DProp)
    (hW : (props.contains .weekOfYear || props.contains .dayOfWeek) = (XTP.ofTP 0 P).isWeek)
    (hC : ((XTP.ofTP 0 P).isWeek &&
      (props.contains .monthOfYear || props.contains .dayOfMonth || props.contains .dayOfYear)) = false)
    (hcent : props.contains .century = true) (hx : props.contains .expandedYearDigits = false) :
    dumpExpr m dumper_0 (XTP.ofTP 0 P) ⟨segs, props, some (z.h, z.mi)⟩ =
      if 0 ≤ dateYear Q.date ∧ dateYear Q.date ≤ 9999 then
        match renderSegs m (XTP.ofTP 0 Q) segs with
        | some s => .ok s
        | none => .error .unsupported
      else .error .err := by
  have hmk := Lemmas.Strf.mkTZ_valid m z hz
  have htz := xtp_toTimeZone m 0 P Q z hq
  unfold dumpExpr
  simp only [ofTP_truncated, Bool.false_eq_true, if_false, hW, hcent, hx, Bool.false_and]
  cases hw : (XTP.ofTP 0 P).isWeek
  · rw [hw] at hC
    simp only [Bool.false_eq_true, if_false, Bool.false_and]
    simp only [bind, Except.bind, hmk, htz, ofTP_year]
    by_cases hy : 0 ≤ dateYear Q.date ∧ dateYear Q.date ≤ 9999
    · simp [hy]; rfl
    · simp only [hy, if_false]
      simp only [Classical.not_and_iff_not_or_not] at hy
      rcases hy with hy | hy <;> simp [hy]
  · rw [hw] at hC
    simp only [Bool.true_and] at hC
    simp only [hC, Bool.or_true, if_true]
    simp only [bind, Except.bind, hmk, htz, ofTP_year]
    by_cases hy : 0 ≤ dateYear Q.date ∧ dateYear Q.date ≤ 9999
    · simp [hy]; rfl
    · simp only [hy, if_false]
      simp only [Classical.not_and_iff_not_or_not] at hy
      rcases hy with hy | hy <;> simp [hy]

/-! ## Printing the re-zoned point -/

theorem render_year (m : Mode) (Q : TP) (hy : 0 ≤ dateYear Q.date ∧ dateYear Q.date ≤ 9999) :
    renderSegs m (XTP.ofTP 0 Q) yearSegs = some (yDigits 0 (dateYear Q.date)) := by
  have hn : (dateYear Q.date).natAbs ≤ 9999 := by omega
  have e0 : (dateYear Q.date).natAbs % 10000 = (dateYear Q.date).natAbs := Nat.mod_eq_of_lt (by omega)
  have e1 : padNat 2 ((dateYear Q.date).natAbs / 100) = renderNat 2 ((dateYear Q.date).natAbs / 100) :=
    padNat_eq _ _ (by simp only [Nat.reducePow]; omega)
  have e2 : padNat 2 ((dateYear Q.date).natAbs % 100) = renderNat 2 ((dateYear Q.date).natAbs % 100) :=
    padNat_eq _ _ (by simp only [Nat.reducePow]; omega)
  simp [yearSegs, renderSegs, intProp, ofTP_year, yDigits, renderNat_four, e0, e1, e2]

theorem render_litZone (m : Mode) (ned : Nat) (Q : TP) :
    renderSegs m (XTP.ofTP ned Q) (litZoneSegs Q.tz) = some (litZoneText Q.tz) := by
  unfold litZoneSegs litZoneText
  by_cases hneg : Q.tz.h < 0 ∨ Q.tz.mi < 0
  · simp only [hneg, if_true]
    have := renderSegs_raw m (XTP.ofTP ned Q)
      ('-' :: (renderNat 2 Q.tz.h.natAbs ++ ':' :: renderNat 2 Q.tz.mi.natAbs))
    simpa only [List.map_append, List.map_cons] using this
  · simp only [hneg, if_false]
    have := renderSegs_raw m (XTP.ofTP ned Q) (renderNat 2 Q.tz.h.natAbs ++ ':' :: renderNat 2 Q.tz.mi.natAbs)
    simp only [List.map_append, List.map_cons] at this
    simp [renderSegs, strProp, ofTP_tz, hneg, this]

theorem litProps_week (d : Date) (z : TZ) :
    (((litExpr d z).props.contains .weekOfYear || (litExpr d z).props.contains .dayOfWeek)) =
      decide (d.rep = 2) := by
  unfold litExpr litZoneProps; cases d <;> split <;> rfl

theorem litProps_cal (d : Date) (z : TZ) :
    (decide (d.rep = 2) &&
      ((litExpr d z).props.contains .monthOfYear || (litExpr d z).props.contains .dayOfMonth ||
       (litExpr d z).props.contains .dayOfYear)) = false := by
  unfold litExpr litZoneProps; cases d <;> split <;> rfl

theorem litProps_century (d : Date) (z : TZ) : (litExpr d z).props.contains .century = true := by
  unfold litExpr litZoneProps; cases d <;> split <;> rfl

theorem litProps_expanded (d : Date) (z : TZ) :
    (litExpr d z).props.contains .expandedYearDigits = false := by
  unfold litExpr litZoneProps; cases d <;> split <;> rfl

/-- The re-zoned point printed through the compiled format. -/
theorem render_litExpr (m : Mode) (Q : TP) (hv : Q.Valid m)
    (hy : 0 ≤ dateYear Q.date ∧ dateYear Q.date ≤ 9999) :
    renderSegs m (XTP.ofTP 0 Q) (litExpr Q.date Q.tz).segs = some (zonedText Q Q.tz) := by
  obtain ⟨hdate, h0, h1, h2, h3, h4, h5, _, _⟩ := hv
  have e : zonedText Q Q.tz =
      (yDigits 0 (dateYear Q.date) ++ trender (dateRestTmpl Q.date) (dateRestEnv Q.date)) ++
        ('T' :: (trender timeTmpl (timeEnv Q) ++ litZoneText Q.tz)) := by
    unfold zonedText zonedTextN
    rw [dateTmpl_eq, dateEnv_eq, trender_year]
    simp [ySign]
  rw [e]
  unfold litExpr
  refine renderSegs_append _ _ _ _ _ _
    (renderSegs_append _ _ _ _ _ _ (render_year m Q hy) (render_date m 0 Q hdate)) ?_
  have := renderSegs_append m (XTP.ofTP 0 Q) _ _ _ _ (render_time m 0 Q h0 h1 h2 h3 h4 h5)
    (render_litZone m 0 Q)
  simp only [renderSegs, this, Option.map_some]

/-- **Dump with a literal zone**: the format `CCYY-MM-DDThh:mm:ss±hh:mm` (or its ordinal / week
    sibling, matching the point's representation) prints the point re-zoned to the literal offset,
    date and time as `stdText` spells them, followed by the literal zone text — provided the year of
    the RE-ZONED point is within 0000–9999; otherwise it is the dumper's bounds error. -/
theorem dump_litZone (m : Mode) (p q : TP) (hv : p.Valid m) (z : TZ) (hz : z.Valid)
    (hq : Model.toTimeZone m p z = some q) :
    dump m dumper_0 (XTP.ofTP 0 p) (litFormat p.date z) =
      if 0 ≤ dateYear q.date ∧ dateYear q.date ≤ 9999 then .ok (zonedText q z) else .error .err := by
  obtain ⟨q', hq', _, htz, hrep, hvq, _⟩ := toTimeZone_spec m p z hv hz
  rw [hq] at hq'
  obtain rfl := Option.some.inj hq'
  unfold dump
  rw [litFormat_noPercent, getExpr_lit p.date z hz]
  simp only [Bool.false_eq_true, if_false]
  have hd := dumpExpr_rezone m p q z hz hq (litExpr p.date z).segs (litExpr p.date z).props
    (by rw [ofTP_isWeek]; exact litProps_week _ _) (by rw [ofTP_isWeek]; exact litProps_cal _ _)
    (litProps_century _ _) (litProps_expanded _ _)
  have he : litExpr p.date z = ⟨(litExpr p.date z).segs, (litExpr p.date z).props, some (z.h, z.mi)⟩ := rfl
  rw [he, hd]
  by_cases hy : 0 ≤ dateYear q.date ∧ dateYear q.date ≤ 9999
  · simp only [hy, and_self, if_true]
    have hs : (litExpr p.date z).segs = (litExpr q.date q.tz).segs := by
      unfold litExpr; rw [htz, hrep]
    rw [hs, render_litExpr m q hvq hy, htz]
  · simp only [hy, if_false]

/-! ## Reading the text back -/

/-- `get_info` on date, time and a `±hh:mm` zone — `+00:00` included — finds the specified groups
    and the offset. -/
theorem getInfo_zonedText (cfg : Cfg) (hpt : cfg.pt ∈ parserTables) (hb : cfg.pt.basicOnly = false)
    (p : TP) (hz : p.tz.Valid) :
    ∃ e, getInfo cfg (zonedTextN cfg.pt.ned p p.tz) =
      some { dateEnv := dateEnv cfg.pt.ned p.date, dateTrunc := false, timeEnv := timeEnv p,
             zone := ⟨some p.tz.h, some p.tz.mi⟩, expr := e } := by
  obtain ⟨⟨de, hde, hdt, hdc, hdf⟩, ⟨te, hte, htt, htc, htf⟩, _, ⟨ze, hze, hzt, hzf⟩⟩ :=
    std_entries cfg.pt hpt hb p.date
  have key := getInfo_rendered cfg hpt de hde hdc te hte (by rw [htc]; decide) (htf.trans hdf.symm)
    (some (ze, litZoneEnv p.tz))
    (by
      intro ze' zenv' h
      simp only [Option.some.injEq, Prod.mk.injEq] at h
      obtain ⟨rfl, rfl⟩ := h
      exact ⟨hze, hzf.trans hdf.symm, by rw [hzt]; exact fits_litZone _⟩)
    (dateEnv cfg.pt.ned p.date) (timeEnv p) (by rw [hdt]; exact fits_date _ _)
    (by rw [htt]; exact fits_time p)
  simp only [zoneTextOf, zoneEnvOf, zoneExprOf] at key
  rw [hdt, htt, hzt, designator_eq, processZone_litZoneEnv cfg.zone p.tz hz,
    ← litZoneText_render] at key
  exact ⟨_, key⟩

/-- The parser decodes date, time and a `±hh:mm` zone (also spelled `+00:00`) to exactly the point
    carrying that offset. -/
theorem parse_zonedText (cfg : Cfg) (hpt : cfg.pt ∈ parserTables) (hb : cfg.pt.basicOnly = false)
    (p : TP) (hv : p.Valid cfg.mode) (hy : YearInRange cfg.pt.ned (dateYear p.date)) :
    parse cfg (zonedTextN cfg.pt.ned p p.tz) false = some (XTP.ofTP cfg.pt.ned p) := by
  obtain ⟨e, hi⟩ := getInfo_zonedText cfg hpt hb p hv.2.2.2.2.2.2.2.2
  unfold parse
  rw [hi]
  simp only [Bool.false_eq_true, if_false]
  rw [assemble_std cfg p (fieldsFit_of_valid cfg.mode p hv) hy e]
  exact ctor_std cfg.mode cfg.pt.ned p hv

end IsoDT.Text
