/-
  IsoDT.Lemmas.Nominal — month and year arithmetic (`add_months`, the year branch of `__add__`).
-/
import IsoDT.Lemmas.Cmp

namespace IsoDT.Lemmas
open IsoDT IsoDT.Model
open IsoDT.Spec (Date TZ TP)

/-- The calendar rule for one month step: the adjacent month, same day or that month's last. -/
def specMonthStep (m : Mode) (fwd : Bool) (x : Int × Int × Int) : Int × Int × Int :=
  let ym : Int × Int :=
    if fwd then (if x.2.1 + 1 > 12 then (x.1 + 1, x.2.1 + 1 - 12) else (x.1, x.2.1 + 1))
    else (if x.2.1 - 1 < 1 then (x.1 - 1, x.2.1 - 1 + 12) else (x.1, x.2.1 - 1))
  (ym.1, ym.2, if x.2.2 > Spec.monthLen m ym.1 ym.2 then Spec.monthLen m ym.1 ym.2 else x.2.2)

theorem daysInMonthB_idx (m : Mode) (y mo : Int) (h1 : 1 ≤ mo) (h2 : mo ≤ 12) :
    daysInMonthB m (isLeapYear y) ((mo - 1) % 12 + 1) = Spec.monthLen m y mo := by
  have hm : (mo - 1) % 12 + 1 = mo := by omega
  rw [hm]
  exact daysInMonth_eq m y mo h1 h2

theorem monthStep_eq (m : Mode) (fwd : Bool) (x : Int × Int × Int)
    (h : Spec.ValidCal m x.1 x.2.1 x.2.2) : monthStep m fwd x = specMonthStep m fwd x := by
  obtain ⟨y, mo, d⟩ := x
  obtain ⟨h1, h2, h3, h4⟩ := h
  simp only at h1 h2 h3 h4
  unfold monthStep specMonthStep
  simp only [monthsInYear_eq]
  cases fwd
  · simp only [Bool.false_eq_true, ↓reduceIte]
    by_cases c : mo - 1 < 1
    · simp only [c, ↓reduceIte]
      rw [daysInMonthB_idx m (y - 1) (mo - 1 + 12) (by omega) (by omega)]
    · simp only [c, ↓reduceIte]
      rw [daysInMonthB_idx m y (mo - 1) (by omega) (by omega)]
  · simp only [↓reduceIte]
    by_cases c : mo + 1 > 12
    · simp only [c, ↓reduceIte]
      rw [daysInMonthB_idx m (y + 1) (mo + 1 - 12) (by omega) (by omega)]
    · simp only [c, ↓reduceIte]
      rw [daysInMonthB_idx m y (mo + 1) (by omega) (by omega)]

/-- One step lands in the adjacent month, on the same day or on that month's last day, and on a
    real date. -/
theorem specMonthStep_spec (m : Mode) (fwd : Bool) (x : Int × Int × Int)
    (h : Spec.ValidCal m x.1 x.2.1 x.2.2) :
    Spec.ValidCal m (specMonthStep m fwd x).1 (specMonthStep m fwd x).2.1 (specMonthStep m fwd x).2.2 ∧
    12 * (specMonthStep m fwd x).1 + (specMonthStep m fwd x).2.1 =
      12 * x.1 + x.2.1 + (if fwd then 1 else -1) ∧
    (specMonthStep m fwd x).2.2 =
      min x.2.2 (Spec.monthLen m (specMonthStep m fwd x).1 (specMonthStep m fwd x).2.1) := by
  obtain ⟨y, mo, d⟩ := x
  obtain ⟨h1, h2, h3, h4⟩ := h
  simp only at h1 h2 h3 h4
  unfold specMonthStep
  cases fwd
  · simp only [Bool.false_eq_true, ↓reduceIte]
    by_cases c : mo - 1 < 1
    · simp only [c, ↓reduceIte]
      have := monthLen_bounds m (y - 1) (mo - 1 + 12) (by omega) (by omega)
      refine ⟨⟨by omega, by omega, ?_, ?_⟩, by omega, ?_⟩ <;> (split <;> omega)
    · simp only [c, ↓reduceIte]
      have := monthLen_bounds m y (mo - 1) (by omega) (by omega)
      refine ⟨⟨by omega, by omega, ?_, ?_⟩, by omega, ?_⟩ <;> (split <;> omega)
  · simp only [↓reduceIte]
    by_cases c : mo + 1 > 12
    · simp only [c, ↓reduceIte]
      have := monthLen_bounds m (y + 1) (mo + 1 - 12) (by omega) (by omega)
      refine ⟨⟨by omega, by omega, ?_, ?_⟩, by omega, ?_⟩ <;> (split <;> omega)
    · simp only [c, ↓reduceIte]
      have := monthLen_bounds m y (mo + 1) (by omega) (by omega)
      refine ⟨⟨by omega, by omega, ?_, ?_⟩, by omega, ?_⟩ <;> (split <;> omega)

def specMonthSteps (m : Mode) (fwd : Bool) : Nat → Int × Int × Int → Int × Int × Int
  | 0, x => x
  | k + 1, x => specMonthSteps m fwd k (specMonthStep m fwd x)

theorem monthSteps_spec (m : Mode) (fwd : Bool) : ∀ (k : Nat) (x : Int × Int × Int),
    Spec.ValidCal m x.1 x.2.1 x.2.2 →
    monthSteps m fwd k x = specMonthSteps m fwd k x ∧
    Spec.ValidCal m (specMonthSteps m fwd k x).1 (specMonthSteps m fwd k x).2.1 (specMonthSteps m fwd k x).2.2 ∧
    12 * (specMonthSteps m fwd k x).1 + (specMonthSteps m fwd k x).2.1 =
      12 * x.1 + x.2.1 + (if fwd then (k : Int) else -(k : Int)) ∧
    (specMonthSteps m fwd k x).2.2 ≤ x.2.2 := by
  intro k
  induction k with
  | zero =>
    intro x h
    refine ⟨rfl, h, ?_, Int.le_refl _⟩
    simp only [specMonthSteps]; split <;> omega
  | succ k ih =>
    intro x h
    obtain ⟨sv, si, sd⟩ := specMonthStep_spec m fwd x h
    obtain ⟨i1, i2, i3, i4⟩ := ih (specMonthStep m fwd x) sv
    simp only [monthSteps, specMonthSteps]
    rw [monthStep_eq m fwd x h]
    refine ⟨i1, i2, ?_, ?_⟩
    · rw [i3, si]; cases fwd <;> simp only [Bool.false_eq_true, ↓reduceIte] <;> omega
    · have : (specMonthStep m fwd x).2.2 ≤ x.2.2 := by rw [sd]; omega
      omega

theorem specMonthSteps_succ' (m : Mode) (fwd : Bool) : ∀ (k : Nat) (x : Int × Int × Int),
    specMonthSteps m fwd (k + 1) x = specMonthStep m fwd (specMonthSteps m fwd k x) := by
  intro k
  induction k with
  | zero => intro x; rfl
  | succ k ih => intro x; simp only [specMonthSteps]; exact ih (specMonthStep m fwd x)

/-! ### `add_months` on a point -/

theorem rep0_cal' (d : Date) (h : d.rep = 0) : ∃ y mo dd, d = .cal y mo dd := rep0_cal d h

/-- `add_months(n)`, `n ≠ 0`, on a strict point: the calendar form of the result is the calendar
    form of the input moved by `|n|` single clamping steps; time, offset, representation kept. -/
theorem addMonths_spec (m : Mode) (p : TP) (n : Int) (hn : n ≠ 0) (hp : p.Strict m) :
    ∃ y mo d q, convert m 0 p.date = some (.cal y mo d) ∧ Spec.ValidCal m y mo d ∧
      addMonths m p n = some q ∧
      convert m 0 q.date = some (.cal (specMonthSteps m (decide (n > 0)) n.natAbs (y, mo, d)).1
        (specMonthSteps m (decide (n > 0)) n.natAbs (y, mo, d)).2.1
        (specMonthSteps m (decide (n > 0)) n.natAbs (y, mo, d)).2.2) ∧
      q.Strict m ∧ q.date.rep = p.date.rep ∧ q.tz = p.tz ∧ q.hh = p.hh ∧ q.mi = p.mi ∧ q.ss = p.ss := by
  obtain ⟨c, ec, vc, rc, nc⟩ := convert_spec m 0 (by omega) p.date hp.1.1
  obtain ⟨y, mo, d, e⟩ := rep0_cal c rc
  subst e
  have vc' : Spec.ValidCal m y mo d := vc
  obtain ⟨s1, s2, _, _⟩ := monthSteps_spec m (decide (n > 0)) n.natAbs (y, mo, d) vc'
  -- the point after the loop: a strict point on a valid calendar date, so `_tick_over` is the identity
  have hstrict : (⟨Date.cal (specMonthSteps m (decide (n > 0)) n.natAbs (y, mo, d)).1
      (specMonthSteps m (decide (n > 0)) n.natAbs (y, mo, d)).2.1
      (specMonthSteps m (decide (n > 0)) n.natAbs (y, mo, d)).2.2, p.hh, p.mi, p.ss, p.tz⟩ : TP).Strict m := by
    obtain ⟨⟨_, a1, a2, a3, a4, a5, a6, a7, a8⟩, a9⟩ := hp
    exact ⟨⟨s2, a1, a2, a3, a4, a5, a6, a7, a8⟩, a9⟩
  have htick := tickOver_valid_id m _ hstrict
  obtain ⟨r, er, vr, rr, nr⟩ := convert_spec m p.date.rep (rep_lt_three _)
    (Date.cal (specMonthSteps m (decide (n > 0)) n.natAbs (y, mo, d)).1
      (specMonthSteps m (decide (n > 0)) n.natAbs (y, mo, d)).2.1
      (specMonthSteps m (decide (n > 0)) n.natAbs (y, mo, d)).2.2) s2
  have hback := convert_back m p.date.rep (rep_lt_three _)
    (Date.cal (specMonthSteps m (decide (n > 0)) n.natAbs (y, mo, d)).1
      (specMonthSteps m (decide (n > 0)) n.natAbs (y, mo, d)).2.1
      (specMonthSteps m (decide (n > 0)) n.natAbs (y, mo, d)).2.2) r s2 er
  refine ⟨y, mo, d, { p with date := r }, ec, vc', ?_, ?_, ?_, rr, rfl, rfl, rfl, rfl⟩
  · unfold addMonths
    rw [if_neg hn, ec]
    simp only [s1, htick, er, Option.map_some]
  · exact hback.1
  · obtain ⟨⟨_, a1, a2, a3, a4, a5, a6, a7, a8⟩, a9⟩ := hp
    exact ⟨⟨vr, a1, a2, a3, a4, a5, a6, a7, a8⟩, a9⟩

theorem addMonths_zero (m : Mode) (p : TP) : addMonths m p 0 = some p := by
  unfold addMonths; simp

/-! ### the year branch of `__add__` -/

theorem addYears_spec (m : Mode) (p : TP) (n : Int) (hp : p.Strict m) :
    (addYears m p n).Strict m ∧ (addYears m p n).date.rep = p.date.rep ∧ (addYears m p n).tz = p.tz ∧
    (addYears m p n).hh = p.hh ∧ (addYears m p n).mi = p.mi ∧ (addYears m p n).ss = p.ss ∧
    (addYears m p n).date =
      match p.date with
      | .cal y mo d => .cal (y + n) mo (min d (Spec.monthLen m (y + n) mo))
      | .ord y doy => .ord (y + n) (min doy (Spec.yearLen m (y + n)))
      | .week y w d => .week (y + n) (min w (Spec.weeksInYear m (y + n))) d := by
  obtain ⟨date, hh, mi, ss, tz⟩ := p
  obtain ⟨⟨hd, a1, a2, a3, a4, a5, a6, a7, a8⟩, a9⟩ := hp
  simp only at hd a1 a2 a3 a4 a5 a6 a7 a8 a9
  by_cases c : n = 0
  · subst c
    have e : addYears m ⟨date, hh, mi, ss, tz⟩ 0 = ⟨date, hh, mi, ss, tz⟩ := by
      unfold addYears; rw [if_pos rfl]
    rw [e]
    refine ⟨⟨⟨hd, a1, a2, a3, a4, a5, a6, a7, a8⟩, a9⟩, rfl, rfl, rfl, rfl, rfl, ?_⟩
    cases date with
    | cal y mo d =>
      have hv : Spec.ValidCal m y mo d := hd
      have : min d (Spec.monthLen m (y + 0) mo) = d := by
        rw [Int.add_zero]; have := hv.2.2.2; omega
      show Date.cal y mo d = Date.cal (y + 0) mo (min d (Spec.monthLen m (y + 0) mo))
      rw [this, Int.add_zero]
    | ord y doy =>
      have hv : Spec.ValidOrd m y doy := hd
      have : min doy (Spec.yearLen m (y + 0)) = doy := by
        rw [Int.add_zero]; have := hv.2; omega
      show Date.ord y doy = Date.ord (y + 0) (min doy (Spec.yearLen m (y + 0)))
      rw [this, Int.add_zero]
    | week y w d =>
      have hv : Spec.ValidWeek m y w d := hd
      have : min w (Spec.weeksInYear m (y + 0)) = w := by
        rw [Int.add_zero]; have := hv.2.1; omega
      show Date.week y w d = Date.week (y + 0) (min w (Spec.weeksInYear m (y + 0))) d
      rw [this, Int.add_zero]
  · cases date with
    | cal y mo d =>
      have hv : Spec.ValidCal m y mo d := hd
      obtain ⟨v1, v2, v3, v4⟩ := hv
      have hl : daysInMonthB m (isLeapYear (y + n)) ((mo - 1) % (calOf m).monthsInYear + 1) =
          Spec.monthLen m (y + n) mo := by rw [monthsInYear_eq]; exact daysInMonthB_idx m (y + n) mo v1 v2
      have hb := monthLen_bounds m (y + n) mo v1 v2
      have e : addYears m ⟨.cal y mo d, hh, mi, ss, tz⟩ n =
          ⟨.cal (y + n) mo (min d (Spec.monthLen m (y + n) mo)), hh, mi, ss, tz⟩ := by
        unfold addYears; rw [if_neg c]; simp only [hl]
        congr 2; split <;> omega
      rw [e]
      refine ⟨⟨⟨?_, a1, a2, a3, a4, a5, a6, a7, a8⟩, a9⟩, rfl, rfl, rfl, rfl, rfl, rfl⟩
      show Spec.ValidCal m (y + n) mo _
      exact ⟨v1, v2, by omega, by omega⟩
    | ord y doy =>
      have hv : Spec.ValidOrd m y doy := hd
      obtain ⟨v1, v2⟩ := hv
      have hb := yearLen_bounds m (y + n)
      have e : addYears m ⟨.ord y doy, hh, mi, ss, tz⟩ n =
          ⟨.ord (y + n) (min doy (Spec.yearLen m (y + n))), hh, mi, ss, tz⟩ := by
        unfold addYears; rw [if_neg c]; simp only [daysInYear_eq]
        congr 2; split <;> omega
      rw [e]
      refine ⟨⟨⟨?_, a1, a2, a3, a4, a5, a6, a7, a8⟩, a9⟩, rfl, rfl, rfl, rfl, rfl, rfl⟩
      show Spec.ValidOrd m (y + n) _
      exact ⟨by omega, by omega⟩
    | week y w d =>
      have hv : Spec.ValidWeek m y w d := hd
      obtain ⟨v1, v2, v3, v4⟩ := hv
      have hb := weeksInYear_bounds m (y + n)
      have e : addYears m ⟨.week y w d, hh, mi, ss, tz⟩ n =
          ⟨.week (y + n) (min w (Spec.weeksInYear m (y + n))) d, hh, mi, ss, tz⟩ := by
        unfold addYears; rw [if_neg c]; simp only [weeksInYear_eq]
        congr 2; split <;> omega
      rw [e]
      refine ⟨⟨⟨?_, a1, a2, a3, a4, a5, a6, a7, a8⟩, a9⟩, rfl, rfl, rfl, rfl, rfl, rfl⟩
      show Spec.ValidWeek m (y + n) _ d
      exact ⟨by omega, by omega, v3, v4⟩

end IsoDT.Lemmas
