/-
  IsoDT.Lemmas.TextCustomDec — complete custom formats for points with a DECIMAL hour, minute or second
  (`DTP` of `Lemmas/TextRoundDec`): "the time down to p's precision".

  The format (`DFmt`) is a complete date expression as in `CFmt`, `T`, the time form of the point's own
  precision with its decimal token — `hh,ii` for a decimal hour, `hh:mm,nn` / `hhmm,nn` for a decimal
  minute, `hh:mm:ss,tt` / `hhmmss,tt` for a decimal second (comma or point) — and a zone expression
  that spells the point's OWN offset (a placeholder; `Z` for a UTC point; a literal equal to the point's
  offset).  Re-zoning a decimal point is float arithmetic in the Python and outside the model (the model
  answers `unsupported`), so a literal zone different from the point's is not covered.

  `dump_dec`: the dump is the specified text `decCustomText` of the point re-expressed in the format's
  date representation; `parse_decCustomText`: that text is read back as that point with its fraction
  as printed (trailing zeros dropped — the same number).
-/
import IsoDT.Lemmas.TextCustomDump
import IsoDT.Lemmas.TextCustomParse

namespace IsoDT.Text.Custom
open IsoDT IsoDT.Model IsoDT.Lemmas IsoDT.Text
open IsoDT.Spec (Date TZ TP)
open _root_.IsoDT.Gen.Templates (timeDesignator dumper_0 dumper_2 dumper_3 dumpTables parserTables)

/-! ## The formats -/

/-- The decimal sign. -/
inductive Sep where
  | comma | point
  deriving DecidableEq, Repr, Inhabited

def Sep.c : Sep → Char
  | .comma => ','
  | .point => '.'

/-- The unit that carries the fraction. -/
inductive DUnit where
  | hour | minute | second
  deriving DecidableEq, Repr, Inhabited

def DTimeUnit : DTime → DUnit
  | .hour .. => .hour
  | .minute .. => .minute
  | .second .. => .second

/-- A complete custom format for decimal points (the time form follows the point's precision). -/
structure DFmt where
  expanded : Bool
  kind : DateKind
  ext : Bool
  sep : Sep
  zone : ZSpec
  deriving DecidableEq, Repr, Inhabited

/-- `hh,ii` / `hh:mm,nn` / `hh:mm:ss,tt` (basic: without the colons). -/
def dtimeFmt (ext : Bool) (sep : Sep) : DUnit → List Char
  | .hour => ['h', 'h', sep.c, 'i', 'i']
  | .minute => (if ext then ['h', 'h', ':', 'm', 'm'] else ['h', 'h', 'm', 'm']) ++ [sep.c, 'n', 'n']
  | .second => clockFmt ext ++ [sep.c, 't', 't']

def DFmt.text (f : DFmt) (u : DUnit) : List Char :=
  (yearFmt f.expanded ++ bodyFmt f.ext f.kind) ++ 'T' :: (dtimeFmt f.ext f.sep u ++ f.zone.fmt f.ext)

def DFmt.WF (f : DFmt) (ned : Nat) : Prop :=
  (f.expanded = true → ned ≠ 0) ∧
  match f.zone with
  | .lit s z => z.Valid ∧ (s = .h → z.mi = 0)
  | _ => True

instance (f : DFmt) (ned : Nat) : Decidable (f.WF ned) := by
  unfold DFmt.WF; cases f.zone <;> infer_instance

def DFmt.yd (f : DFmt) (ned : Nat) : Nat := if f.expanded then ned else 0

/-- The zone expression spells the offset `tz` itself: no re-zoning. -/
def ZSpec.Same (tz : TZ) : ZSpec → Prop
  | .utc => tz = ⟨0, 0⟩
  | .own _ => True
  | .lit _ z => z = tz

instance (tz : TZ) (zs : ZSpec) : Decidable (zs.Same tz) := by
  cases zs <;> unfold ZSpec.Same <;> infer_instance

/-! ## The specified text -/

/-- The time with its fraction as `_decimal_string` prints it (trailing zeros dropped, at least one
    digit — also for a zero fraction: a custom format never drops the decimal part). -/
def dclockText (ext : Bool) (sep : Sep) : DTime → List Char
  | .hour hh ds => renderNat 2 hh.toNat ++ sep.c :: stripZeros ds
  | .minute hh mi ds => renderNat 2 hh.toNat ++ csep ext ++ renderNat 2 mi.toNat ++ sep.c :: stripZeros ds
  | .second hh mi ss ds =>
    renderNat 2 hh.toNat ++ csep ext ++ renderNat 2 mi.toNat ++ csep ext ++ renderNat 2 ss.toNat ++
      sep.c :: stripZeros ds

/-- **The text a complete custom format is specified to print** for the decimal point `d` (already in
    the format's representation). -/
def decCustomText (ned : Nat) (f : DFmt) (d : DTP) : List Char :=
  (yearText (f.yd ned) (dateYear d.date) ++ bodyText f.ext d.date) ++
    'T' :: (dclockText f.ext f.sep d.time ++ zoneText f.ext f.zone d.tz)

example : (DFmt.mk false .cal true .comma (.own .hm)).text .hour = "CCYY-MM-DDThh,ii+hh:mm".toList := by
  decide +kernel
example : (DFmt.mk true .week false .point .utc).text .minute = "+XCCYYWwwDThhmm.nn".toList ++ ['Z'] := by
  decide +kernel
example : decCustomText 0 (DFmt.mk false .ord false .point (.own .hm))
    ⟨.ord 2000 60, .second 23 59 59 "0250".toList, ⟨0, -30⟩⟩ = "2000060T235959.025-0030".toList := by
  decide +kernel
example : decCustomText 2 (DFmt.mk true .cal true .comma .utc)
    ⟨.cal (-1) 12 31, .hour 24 "00".toList, ⟨0, 0⟩⟩ = "-000001-12-31T24,0Z".toList := by decide +kernel

/-! ## `_get_expression_and_properties` -/

def dtimeSegs (ext : Bool) (sep : Sep) : DUnit → List Seg
  | .hour => [.dir (.int .hourOfDay 2), .raw sep.c, .dir (.str .hourDecStr)]
  | .minute =>
    (if ext then [.dir (.int .hourOfDay 2), .raw ':', .dir (.int .minuteOfHour 2)]
     else [.dir (.int .hourOfDay 2), .dir (.int .minuteOfHour 2)]) ++ [.raw sep.c, .dir (.str .minuteDecStr)]
  | .second => clockSegs ext ++ [.raw sep.c, .dir (.str .secondDecStr)]

def dtimeProps : DUnit → List DProp
  | .hour => [.hourOfDay, .hourDecStr]
  | .minute => [.minuteOfHour, .hourOfDay, .minuteDecStr]
  | .second => [.minuteOfHour, .hourOfDay, .secondOfMinute, .secondDecStr]

def DFmt.expr (f : DFmt) (u : DUnit) (ned : Nat) : Expr :=
  { segs := (yearSegsC f.expanded ned ++ bodySegs f.ext f.kind) ++
      Seg.raw 'T' :: (dtimeSegs f.ext f.sep u ++ zoneSegsC f.ext f.zone)
    props := datePropsC f.expanded f.kind ++ (dtimeProps u ++ zonePropsC f.zone)
    customTZ := customC f.zone }

theorem compile_dtimeFmt_all : ∀ dt ∈ dumpTables, ∀ e ∈ [true, false], ∀ sp ∈ [Sep.comma, .point],
    ∀ u ∈ [DUnit.hour, .minute, .second],
    compile dt.time ((dtimeFmt e sp u).map Seg.raw) = (dtimeSegs e sp u, dtimeProps u) := by decide +kernel

theorem timeZonePart_dsym_all : ∀ dt ∈ dumpTables, ∀ e ∈ [true, false], ∀ sp ∈ [Sep.comma, .point],
    ∀ u ∈ [DUnit.hour, .minute, .second], ∀ zs ∈ [ZSpec.utc, .own .hm, .own .h],
    timeZonePart dt (dtimeFmt e sp u ++ zs.fmt e) =
      some (dtimeSegs e sp u ++ zoneSegsC e zs, dtimeProps u ++ zonePropsC zs, customC zs) := by
  decide +kernel

theorem dtimeFmt_cons (e : Bool) (sp : Sep) (u : DUnit) : ∃ T, dtimeFmt e sp u = 'h' :: T := by
  cases e <;> cases u <;> exact ⟨_, rfl⟩

theorem dtimeFmt_plain (e : Bool) (sp : Sep) (u : DUnit) : ∀ c ∈ dtimeFmt e sp u, Plain c := by
  cases e <;> cases sp <;> cases u <;> decide

theorem timeZonePart_dec (dt : DumpTables) (hdt : dt ∈ dumpTables) (e : Bool) (sp : Sep) (u : DUnit)
    (zs : ZSpec) (hz : match zs with | .lit s z => z.Valid ∧ (s = .h → z.mi = 0) | _ => True) :
    timeZonePart dt (dtimeFmt e sp u ++ zs.fmt e) =
      some (dtimeSegs e sp u ++ zoneSegsC e zs, dtimeProps u ++ zonePropsC zs, customC zs) := by
  have he : e ∈ [true, false] := by cases e <;> simp
  have hsp : sp ∈ [Sep.comma, .point] := by cases sp <;> simp
  have hu : u ∈ [DUnit.hour, .minute, .second] := by cases u <;> simp
  cases zs with
  | utc => exact timeZonePart_dsym_all dt hdt e he sp hsp u hu _ (by simp)
  | own s => cases s <;> exact timeZonePart_dsym_all dt hdt e he sp hsp u hu _ (by simp)
  | lit s z =>
    obtain ⟨T, hT⟩ := dtimeFmt_cons e sp u
    obtain ⟨d, L, hL⟩ := zoneDigits_cons e s z
    have hp := dtimeFmt_plain e sp u
    have hzc := zoneDigits_zchars e s z
    simp only [ZSpec.fmt, zoneSegsC, zonePropsC, customC]
    rw [hT] at hp ⊢
    rw [hL] at hzc ⊢
    rw [timeZonePart_lit dt hdt 'h' T hp (zsign z) (zsign_cases z) d L hzc, ← hT,
      compile_dtimeFmt_all dt hdt e he sp hsp u hu, ← hL, getTimeZone_litZone e s z hz.1 hz.2]

theorem dtimeFmt_notMem (e : Bool) (sp : Sep) (u : DUnit) (zs : ZSpec) (c : Char) (hc : isDigit c = false)
    (hcs : c ∉ ['+', '-', ':', 'Z', 'h', 'm', 's', 't', ',', '.', 'i', 'n']) :
    c ∉ dtimeFmt e sp u ++ zs.fmt e := by
  simp only [List.mem_cons, List.not_mem_nil, or_false, not_or] at hcs
  obtain ⟨h1, h2, h3, h4, h5, h6, h7, h8, h9, h10, h11, h12⟩ := hcs
  have hz := zoneFmt_notMem e zs c hc h1 h2 h3 h4 h5 h6
  simp only [List.mem_append, not_or]
  refine ⟨?_, hz⟩
  cases e <;> cases sp <;> cases u <;> simp [dtimeFmt, clockFmt, Sep.c, h3, h5, h6, h7, h8, h9, h10, h11, h12]

theorem getExpr_dec (dt : DumpTables) (hdt : dt ∈ dumpTables) (f : DFmt) (u : DUnit) (hf : f.WF dt.ned) :
    getExpr dt (f.text u) = some (f.expr u dt.ned) := by
  unfold DFmt.text
  rw [getExpr_T dt _ _ (dateFmt_noT _ _ _) (dtimeFmt_notMem _ _ _ _ 'T' (by decide) (by decide)),
    timeZonePart_dec dt hdt f.ext f.sep u f.zone hf.2, compile_dateFmt dt hdt]
  rfl

theorem dtext_noPercent (f : DFmt) (u : DUnit) : (f.text u).contains '%' = false := by
  have h1 : '%' ∉ yearFmt f.expanded ++ bodyFmt f.ext f.kind := by
    cases f.expanded <;> cases f.ext <;> cases f.kind <;> decide
  have h2 := dtimeFmt_notMem f.ext f.sep u f.zone '%' (by decide) (by decide)
  have : '%' ∉ f.text u := by
    unfold DFmt.text
    simp only [List.mem_append, List.mem_cons, not_or] at h1 h2 ⊢
    exact ⟨h1, by decide, h2⟩
  simpa using this


/-! ## `_dump_expression_with_properties` on a point with any time-of-day fields -/

section withTime
variable (h mi s : Option Int) (hd md sd : Option (List Char))

theorem withRep_withTime (m : Mode) (B : XTP) (k : Nat) :
    (B.withTime h mi s hd md sd).withRep m k = (B.withRep m k).map (·.withTime h mi s hd md sd) := by
  unfold XTP.withRep
  have hv : (B.withTime h mi s hd md sd).view m k = B.view m k := rfl
  rw [hv]
  cases B.view m k with
  | none => rfl
  | some d => cases d <;> rfl

theorem repStep_withTime (m : Mode) (n : Nat) (P : TP) (k : Nat) (d1 : Date) (props : List DProp)
    (hW : (props.contains .weekOfYear || props.contains .dayOfWeek) = decide (k = 2))
    (hC : (props.contains .monthOfYear || props.contains .dayOfMonth || props.contains .dayOfYear) =
      decide (k ≠ 2))
    (hd1 : convert m (interRep k P.date.rep) P.date = some d1) :
    repStep m ((XTP.ofTP n P).withTime h mi s hd md sd) props =
      .ok ((XTP.ofTP n { P with date := d1 }).withTime h mi s hd md sd) := by
  unfold repStep
  have ht : ((XTP.ofTP n P).withTime h mi s hd md sd).truncated = false := ofTP_truncated n P
  have hw : ((XTP.ofTP n P).withTime h mi s hd md sd).isWeek = decide (P.date.rep = 2) := ofTP_isWeek n P
  simp only [hW, hC, ht, hw, Bool.false_eq_true, if_false, withRep_withTime]
  by_cases hk : k = 2
  · by_cases hr : P.date.rep = 2
    · have : d1 = P.date := by
        have := convert_self m P.date
        rw [interRep, if_pos hk, ← hr, this] at hd1
        exact (Option.some.inj hd1).symm
      subst this
      simp [hk, hr]
    · rw [interRep, if_pos hk] at hd1
      simp [hk, hr, withRep_ofTP m n P 2 d1 hd1]
  · by_cases hr : P.date.rep = 2
    · rw [interRep, if_neg hk, if_pos hr] at hd1
      simp [hk, hr, withRep_ofTP m n P 0 d1 hd1]
    · have : d1 = P.date := by
        have := convert_self m P.date
        rw [interRep, if_neg hk, if_neg hr, this] at hd1
        exact (Option.some.inj hd1).symm
      subst this
      simp [hk, hr]

/-- No re-zoning: the custom zone is absent or is the point's own. -/
theorem zoneStep_same (m : Mode) (X : XTP) (hunk : X.tzUnknown = false) (hz : X.tz.Valid)
    (custom : Option (Int × Int)) (hZ : custom = none ∨ custom = some (X.tz.h, X.tz.mi)) :
    zoneStep m X custom = .ok X := by
  unfold zoneStep
  rcases hZ with rfl | rfl
  · rfl
  · simp only [Lemmas.Strf.mkTZ_valid m X.tz hz]
    unfold XTP.toTimeZone
    simp [hunk]

end withTime

/-! ## Printing the time with its fraction -/

theorem dtime_render_hour (m : Mode) (B : XTP) (ext : Bool) (sep : Sep) (hh : Int) (ds : List Char)
    (h0 : 0 ≤ hh) (h1 : hh ≤ 24) (hl : ds.length ≤ 6) :
    renderSegs m (B.withTime (some hh) none none (some ds) none none) (dtimeSegs ext sep .hour) =
      some (dclockText ext sep (.hour hh ds)) := by
  have e1 := pad2 hh h0 (by omega)
  simp [dtimeSegs, dclockText, renderSegs, intProp, strProp, XTP.withTime, decimalString_short ds hl, e1, h0]

theorem dtime_render_minute (m : Mode) (B : XTP) (ext : Bool) (sep : Sep) (hh mi : Int) (ds : List Char)
    (h0 : 0 ≤ hh) (h1 : hh ≤ 24) (h2 : 0 ≤ mi) (h3 : mi < 60) (hl : ds.length ≤ 6) :
    renderSegs m (B.withTime (some hh) (some mi) none none (some ds) none) (dtimeSegs ext sep .minute) =
      some (dclockText ext sep (.minute hh mi ds)) := by
  have e1 := pad2 hh h0 (by omega)
  have e2 := pad2 mi h2 (by omega)
  cases ext <;>
    simp [dtimeSegs, dclockText, csep, renderSegs, intProp, strProp, XTP.withTime, decimalString_short ds hl,
      e1, e2, h0, h2]

theorem dtime_render_second (m : Mode) (B : XTP) (ext : Bool) (sep : Sep) (hh mi ss : Int) (ds : List Char)
    (h0 : 0 ≤ hh) (h1 : hh ≤ 24) (h2 : 0 ≤ mi) (h3 : mi < 60) (h4 : 0 ≤ ss) (h5 : ss < 60)
    (hl : ds.length ≤ 6) :
    renderSegs m (B.withTime (some hh) (some mi) (some ss) none none (some ds)) (dtimeSegs ext sep .second) =
      some (dclockText ext sep (.second hh mi ss ds)) := by
  have e1 := pad2 hh h0 (by omega)
  have e2 := pad2 mi h2 (by omega)
  have e3 := pad2 ss h4 (by omega)
  cases ext <;>
    simp [dtimeSegs, clockSegs, dclockText, csep, renderSegs, intProp, strProp, XTP.withTime,
      decimalString_short ds hl, e1, e2, e3, h0, h2, h4]

/-- The time-of-day fields of a decimal point, as `DTP.toXTP` sets them. -/
def tH (t : DTime) : Option Int := some t.hh
def tMi : DTime → Option Int
  | .hour .. => none
  | .minute _ mi _ => some mi
  | .second _ mi _ _ => some mi
def tS : DTime → Option Int
  | .second _ _ ss _ => some ss
  | _ => none
def tHd : DTime → Option (List Char)
  | .hour _ ds => some ds
  | _ => none
def tMd : DTime → Option (List Char)
  | .minute _ _ ds => some ds
  | _ => none
def tSd : DTime → Option (List Char)
  | .second _ _ _ ds => some ds
  | _ => none

theorem toXTP_eq (n : Nat) (d : DTP) :
    d.toXTP n = (XTP.ofTP n ⟨d.date, 0, 0, 0, d.tz⟩).withTime (tH d.time) (tMi d.time) (tS d.time) (tHd d.time)
      (tMd d.time) (tSd d.time) := by
  obtain ⟨date, time, tz⟩ := d
  cases time <;> rfl

theorem dtime_render (m : Mode) (B : XTP) (ext : Bool) (sep : Sep) (t : DTime) (hv : t.Valid) :
    renderSegs m (B.withTime (tH t) (tMi t) (tS t) (tHd t) (tMd t) (tSd t)) (dtimeSegs ext sep (DTimeUnit t)) =
      some (dclockText ext sep t) := by
  cases t with
  | hour hh ds =>
    obtain ⟨⟨_, _, hl⟩, h0, h1, _⟩ := hv
    exact dtime_render_hour m B ext sep hh ds h0 h1 hl
  | minute hh mi ds =>
    obtain ⟨⟨_, _, hl⟩, h0, h1, h2, h3, _⟩ := hv
    exact dtime_render_minute m B ext sep hh mi ds h0 h1 h2 h3 hl
  | second hh mi ss ds =>
    obtain ⟨⟨_, _, hl⟩, h0, h1, h2, h3, h4, h5, _⟩ := hv
    exact dtime_render_second m B ext sep hh mi ss ds h0 h1 h2 h3 h4 h5 hl

theorem dateSegs_timeFree (x : Bool) (ned : Nat) (ext : Bool) (k : DateKind) :
    (yearSegsC x ned ++ bodySegs ext k).all timeFree = true := by
  cases x <;> cases ext <;> cases k <;> rfl

theorem zoneSegsC_timeFree (ext : Bool) (zs : ZSpec) : (zoneSegsC ext zs).all timeFree = true := by
  cases zs with
  | utc => rfl
  | own s => cases s <;> cases ext <;> rfl
  | lit s z =>
    simp only [zoneSegsC, litSegs, List.all_cons, Bool.and_eq_true]
    refine ⟨by split <;> rfl, ?_⟩
    simp [List.all_map, timeFree]


/-! ## The property lists -/

theorem dexpr_wantsWeek (f : DFmt) (u : DUnit) (ned : Nat) :
    ((f.expr u ned).props.contains .weekOfYear || (f.expr u ned).props.contains .dayOfWeek) =
      decide (f.kind.k = 2) := by
  obtain ⟨x, kind, ext, sp, zs⟩ := f
  cases zs with
  | utc => cases x <;> cases kind <;> cases u <;> rfl
  | own s => cases s <;> cases x <;> cases kind <;> cases u <;> rfl
  | lit s z =>
    simp only [DFmt.expr, zonePropsC, litProps]
    rcases zsign_cases z with h | h <;> rw [h] <;> cases x <;> cases kind <;> cases u <;> rfl

theorem dexpr_wantsCal (f : DFmt) (u : DUnit) (ned : Nat) :
    ((f.expr u ned).props.contains .monthOfYear || (f.expr u ned).props.contains .dayOfMonth ||
      (f.expr u ned).props.contains .dayOfYear) = decide (f.kind.k ≠ 2) := by
  obtain ⟨x, kind, ext, sp, zs⟩ := f
  cases zs with
  | utc => cases x <;> cases kind <;> cases u <;> rfl
  | own s => cases s <;> cases x <;> cases kind <;> cases u <;> rfl
  | lit s z =>
    simp only [DFmt.expr, zonePropsC, litProps]
    rcases zsign_cases z with h | h <;> rw [h] <;> cases x <;> cases kind <;> cases u <;> rfl

theorem dexpr_century (f : DFmt) (u : DUnit) (ned : Nat) : (f.expr u ned).props.contains .century = true := by
  obtain ⟨x, kind, ext, sp, zs⟩ := f
  cases x <;> rfl

theorem dexpr_expanded (f : DFmt) (u : DUnit) (ned : Nat) :
    (f.expr u ned).props.contains .expandedYearDigits = f.expanded := by
  obtain ⟨x, kind, ext, sp, zs⟩ := f
  cases zs with
  | utc => cases x <;> cases kind <;> cases u <;> rfl
  | own s => cases s <;> cases x <;> cases kind <;> cases u <;> rfl
  | lit s z =>
    simp only [DFmt.expr, zonePropsC, litProps]
    rcases zsign_cases z with h | h <;> rw [h] <;> cases x <;> cases kind <;> cases u <;> rfl

/-! ## The compiled format printed -/

theorem render_dec (m : Mode) (n ned : Nat) (f : DFmt) (hf : f.WF ned) (d1 : Date) (tz : TZ) (t : DTime)
    (hd1 : d1.Valid m) (hz : tz.Valid) (ht : t.Valid) (dQ : Date)
    (hc : convert m f.kind.k d1 = some dQ) (hyear : dateYear dQ = dateYear d1)
    (hy : YearInRange (f.yd ned) (dateYear dQ)) (hs : f.zone.Same tz) :
    renderSegs m ((XTP.ofTP n ⟨d1, 0, 0, 0, tz⟩).withTime (tH t) (tMi t) (tS t) (tHd t) (tMd t) (tSd t))
      (f.expr (DTimeUnit t) ned).segs = some (decCustomText ned f ⟨dQ, t, tz⟩) := by
  rw [hyear] at hy
  unfold DFmt.expr decCustomText
  simp only
  rw [hyear]
  have hdate : renderSegs m ((XTP.ofTP n ⟨d1, 0, 0, 0, tz⟩).withTime (tH t) (tMi t) (tS t) (tHd t) (tMd t) (tSd t))
      (yearSegsC f.expanded ned ++ bodySegs f.ext f.kind) =
      some (yearText (f.yd ned) (dateYear d1) ++ bodyText f.ext dQ) := by
    rw [renderSegs_withTime _ _ _ _ _ _ _ _ _ (dateSegs_timeFree _ _ _ _)]
    exact renderSegs_append _ _ _ _ _ _ (render_yearC m n ⟨d1, 0, 0, 0, tz⟩ f.expanded ned hf.1 hy)
      (render_body m n ⟨d1, 0, 0, 0, tz⟩ f.ext f.kind dQ hd1 hc)
  have hzone : renderSegs m ((XTP.ofTP n ⟨d1, 0, 0, 0, tz⟩).withTime (tH t) (tMi t) (tS t) (tHd t) (tMd t) (tSd t))
      (zoneSegsC f.ext f.zone) = some (zoneText f.ext f.zone tz) := by
    rw [renderSegs_withTime _ _ _ _ _ _ _ _ _ (zoneSegsC_timeFree _ _)]
    exact render_zoneC m n ⟨d1, 0, 0, 0, tz⟩ f.ext f.zone hz (by
      intro s z hzs
      rw [hzs] at hs
      exact hs.symm)
  refine renderSegs_append _ _ _ _ _ _ hdate ?_
  have := renderSegs_append m _ _ _ _ _ (dtime_render m (XTP.ofTP n ⟨d1, 0, 0, 0, tz⟩) f.ext f.sep t ht) hzone
  simp only [renderSegs, this, Option.map_some]

/-! ## `TimePointDumper.dump` on a complete custom format, decimal point -/

/-- **Dump of a decimal point with a complete custom format of its own precision** whose zone
    expression spells the point's own offset: the specified text of the point re-expressed in the
    format's date representation, provided that date's year is within the digits the format prints;
    otherwise the dumper's bounds error. -/
theorem dump_dec (m : Mode) (dt : DumpTables) (hdt : dt ∈ dumpTables) (n : Nat) (f : DFmt)
    (hf : f.WF dt.ned) (d : DTP) (hv : d.Valid m) (hs : f.zone.Same d.tz) (dQ : Date)
    (hc : convert m f.kind.k d.date = some dQ) :
    dump m dt (d.toXTP n) (f.text (DTimeUnit d.time)) =
      if YearInRange (f.yd dt.ned) (dateYear dQ) then .ok (decCustomText dt.ned f { d with date := dQ })
      else .error .err := by
  obtain ⟨hdate, htime, hz⟩ := hv
  obtain ⟨_, hvQ, hrQ, hnQ⟩ := convert_back m f.kind.k (kind_lt _) d.date dQ hdate hc
  obtain ⟨d1, hd1, hvd1, hrd1, hnd1⟩ :=
    convert_spec m (interRep f.kind.k d.date.rep) (interRep_lt _ _ (rep_lt_three _)) d.date hdate
  obtain ⟨r, hr, hvr, hrr, hnr⟩ := convert_spec m f.kind.k (kind_lt _) d1 hvd1
  have hrd : r = dQ := date_unique m r dQ hvr hvQ (by rw [hrr, hrQ]) (by rw [hnr, hnd1, hnQ])
  rw [hrd] at hr
  have hyear : dateYear dQ = dateYear d1 := by
    apply dateYear_convert m f.kind.k d1 dQ hvd1 hr
    rw [hrd1]
    unfold interRep
    by_cases hk : f.kind.k = 2
    · simp [hk]
    · by_cases hr' : d.date.rep = 2 <;> simp [hk, hr']
  unfold dump
  rw [dtext_noPercent, getExpr_dec dt hdt f _ hf]
  simp only [Bool.false_eq_true, if_false]
  rw [toXTP_eq, dumpExpr_steps,
    repStep_withTime _ _ _ _ _ _ m n ⟨d.date, 0, 0, 0, d.tz⟩ f.kind.k d1 _
      (dexpr_wantsWeek f _ dt.ned) (dexpr_wantsCal f _ dt.ned) hd1]
  simp only [Except.bind]
  have hXtz : ((XTP.ofTP n ⟨d1, 0, 0, 0, d.tz⟩).withTime (tH d.time) (tMi d.time) (tS d.time) (tHd d.time)
      (tMd d.time) (tSd d.time)).tz = d.tz := ofTP_tz n ⟨d1, 0, 0, 0, d.tz⟩
  rw [zoneStep_same m ((XTP.ofTP n ⟨d1, 0, 0, 0, d.tz⟩).withTime (tH d.time) (tMi d.time) (tS d.time)
      (tHd d.time) (tMd d.time) (tSd d.time)) (ofTP_tzUnknown n ⟨d1, 0, 0, 0, d.tz⟩) (by rw [hXtz]; exact hz) _ (by
    rw [hXtz]
    show customC f.zone = none ∨ customC f.zone = some (d.tz.h, d.tz.mi)
    cases hzs : f.zone with
    | utc => rw [hzs] at hs; right; simp only [ZSpec.Same] at hs; simp [customC, hs]
    | own s => left; rfl
    | lit s z => rw [hzs] at hs; right; simp only [ZSpec.Same] at hs; simp [customC, hs])]
  dsimp only
  rw [finishStep_year m dt _ (dateYear d1) (ofTP_year n _) _ (dexpr_century f _ dt.ned) f.expanded
    (dexpr_expanded f _ dt.ned) hf.1, ← hyear]
  by_cases hy : YearInRange (f.yd dt.ned) (dateYear dQ)
  · have hy' : YearInRange (if f.expanded = true then dt.ned else 0) (dateYear dQ) := hy
    rw [if_pos hy, if_pos hy', render_dec m n dt.ned f hf d1 d.tz d.time hvd1 hz htime dQ hr hyear hy hs]
  · have hy' : ¬ YearInRange (if f.expanded = true then dt.ned else 0) (dateYear dQ) := hy
    rw [if_neg hy, if_neg hy']


/-! ## Parser half -/

def dtimeTmplC (ext : Bool) (sep : Sep) : DUnit → Template
  | .hour => [.digits .hourOfDay 2, .lit sep.c, .digitsPlus .hourDec]
  | .minute =>
    (if ext then [.digits .hourOfDay 2, .lit ':', .digits .minuteOfHour 2]
     else [.digits .hourOfDay 2, .digits .minuteOfHour 2]) ++ [.lit sep.c, .digitsPlus .minuteDec]
  | .second => clockTmpl ext ++ [.lit sep.c, .digitsPlus .secondDec]

set_option maxRecDepth 100000 in
theorem dtime_entry_all : ∀ pt ∈ parserTables, ∀ ext ∈ [true, false], ∀ sp ∈ [Sep.comma, .point],
    ∀ u ∈ [DUnit.hour, .minute, .second], (ext = true → pt.basicOnly = false) →
    ∃ e ∈ pt.timeEntries, e.tmpl = dtimeTmplC ext sp u ∧ e.typ = .complete ∧ e.fmt = fmtKey ext := by
  decide +kernel

/-- The whole-second point with the same date, units and offset (absent units 0). -/
def dbase (d : DTP) : TP :=
  match d.time with
  | .hour hh _ => ⟨d.date, hh, 0, 0, d.tz⟩
  | .minute hh mi _ => ⟨d.date, hh, mi, 0, d.tz⟩
  | .second hh mi ss _ => ⟨d.date, hh, mi, ss, d.tz⟩

theorem dbase_date (d : DTP) : (dbase d).date = d.date := by
  obtain ⟨date, time, tz⟩ := d; cases time <;> rfl
theorem dbase_tz (d : DTP) : (dbase d).tz = d.tz := by
  obtain ⟨date, time, tz⟩ := d; cases time <;> rfl

theorem dbase_valid (m : Mode) (d : DTP) (hv : d.Valid m) : (dbase d).Valid m := by
  obtain ⟨date, time, tz⟩ := d
  obtain ⟨hdate, htime, hz⟩ := hv
  cases time with
  | hour hh ds =>
    obtain ⟨_, h0, h1, _⟩ := htime
    exact ⟨hdate, h0, h1, by simp [dbase], by simp [dbase], by simp [dbase], by simp [dbase],
      fun _ => ⟨rfl, rfl⟩, hz⟩
  | minute hh mi ds =>
    obtain ⟨_, h0, h1, h2, h3, h24⟩ := htime
    exact ⟨hdate, h0, h1, h2, h3, by simp [dbase], by simp [dbase], fun e => ⟨(h24 e).1, rfl⟩, hz⟩
  | second hh mi ss ds =>
    obtain ⟨_, h0, h1, h2, h3, h4, h5, h24⟩ := htime
    exact ⟨hdate, h0, h1, h2, h3, h4, h5, fun e => ⟨(h24 e).1, (h24 e).2.1⟩, hz⟩

/-- The values a decimal point spells: those of `dbase`, the fraction as printed. -/
def valsOfD (d : DTP) : Vals :=
  { valsOf (dbase d) with
    hourDec := stripZeros d.time.ds, minuteDec := stripZeros d.time.ds, secondDec := stripZeros d.time.ds }

def noDec : Template → Bool
  | [] => true
  | .digitsPlus _ :: _ => false
  | _ :: t => noDec t

theorem envOf_noDec (t : Template) (h : noDec t = true) (v : Vals) (a b c : List Char) :
    envOf t { v with hourDec := a, minuteDec := b, secondDec := c } = envOf t v := by
  induction t with
  | nil => rfl
  | cons it t ih =>
    cases it with
    | lit x => simp only [noDec] at h; simp only [envOf, ih h]
    | digits f n =>
      simp only [noDec] at h
      have : Vals.nat { v with hourDec := a, minuteDec := b, secondDec := c } f = Vals.nat v f := by cases f <;> rfl
      simp only [envOf, ih h, this]
    | digitsPlus f => simp [noDec] at h
    | sign f =>
      simp only [noDec] at h
      have : Vals.neg { v with hourDec := a, minuteDec := b, secondDec := c } f = Vals.neg v f := by cases f <;> rfl
      simp only [envOf, ih h, this]
    | group f ls => simp only [noDec] at h; simp only [envOf, ih h]

theorem noDec_date (x : Bool) (n : Nat) (ext : Bool) (k : DateKind) : noDec (dateTmplC x n ext k) = true := by
  cases x <;> cases ext <;> cases k <;> rfl

theorem noDec_zone (ext : Bool) (s : Option ZStyle) : noDec (zoneTmplS ext s) = true := by
  cases s with
  | none => rfl
  | some s => cases s <;> cases ext <;> rfl

theorem dclockText_render (ext : Bool) (sep : Sep) (d : DTP) :
    dclockText ext sep d.time =
      trender (dtimeTmplC ext sep (DTimeUnit d.time)) (envOf (dtimeTmplC ext sep (DTimeUnit d.time)) (valsOfD d)) := by
  obtain ⟨date, time, tz⟩ := d
  cases time <;> cases ext <;>
    simp [dclockText, dtimeTmplC, clockTmpl, DTimeUnit, csep, trender, envOf, Vals.nat, Vals.dec, valsOfD,
      valsOf_hour, valsOf_minute, valsOf_second, dbase, DTime.ds]

theorem decCustomText_render (ned : Nat) (f : DFmt) (hxn : f.expanded = true → ned ≠ 0) (d : DTP)
    (hr : d.date.rep = f.kind.k) (hy : YearInRange (f.yd ned) (dateYear d.date)) :
    decCustomText ned f d =
      trender (dateTmplC f.expanded ned f.ext f.kind) (envOf (dateTmplC f.expanded ned f.ext f.kind) (valsOfD d)) ++
        'T' :: (trender (dtimeTmplC f.ext f.sep (DTimeUnit d.time))
            (envOf (dtimeTmplC f.ext f.sep (DTimeUnit d.time)) (valsOfD d)) ++
          trender (zoneTmplS f.ext f.zone.style) (envOf (zoneTmplS f.ext f.zone.style) (valsOfD d))) := by
  have e1 : envOf (dateTmplC f.expanded ned f.ext f.kind) (valsOfD d) =
      envOf (dateTmplC f.expanded ned f.ext f.kind) (valsOf (dbase d)) := envOf_noDec _ (noDec_date _ _ _ _) _ _ _ _
  have e2 : envOf (zoneTmplS f.ext f.zone.style) (valsOfD d) =
      envOf (zoneTmplS f.ext f.zone.style) (valsOf (dbase d)) := envOf_noDec _ (noDec_zone _ _) _ _ _ _
  rw [e1, e2]
  unfold decCustomText dateTmplC DFmt.yd
  rw [trender_envOf_append, ← dbase_date d, ← dbase_tz d,
    ← yearText_render f.expanded ned hxn (dbase d) (by rw [dbase_date]; exact hy),
    ← bodyText_render f.ext f.kind (dbase d) (by rw [dbase_date]; exact hr), ← dclockText_render,
    ← zoneText_render]

theorem groupFields_dtime (ext : Bool) (sep : Sep) (u : DUnit) :
    groupFields (dtimeTmplC ext sep u) =
      match u with
      | .hour => [.hourOfDay, .hourDec]
      | .minute => [.hourOfDay, .minuteOfHour, .minuteDec]
      | .second => [.hourOfDay, .minuteOfHour, .secondOfMinute, .secondDec] := by
  cases ext <;> cases u <;> rfl

theorem yearOf_valsOfD (t : Template) (d : DTP) : yearOf t (valsOfD d) = yearOf t (valsOf (dbase d)) := rfl

theorem dateOf_valsOfD (t : Template) (d : DTP) : dateOf t (valsOfD d) = dateOf t (valsOf (dbase d)) := rfl

theorem pointOf_dec (cfg : Cfg) (x : Bool) (ext : Bool) (k : DateKind) (sep : Sep) (d : DTP)
    (hr : d.date.rep = k.k) (hy : YearInRange (if x then cfg.pt.ned else 0) (dateYear d.date))
    (hf : FieldsFit (dbase d)) :
    pointOf cfg (dateTmplC x cfg.pt.ned ext k) (dtimeTmplC ext sep (DTimeUnit d.time)) (valsOfD d) d.tz =
      DTP.toXTP (if x then cfg.pt.ned else 0) d.norm := by
  have hyb : YearInRange (if x then cfg.pt.ned else 0) (dateYear (dbase d).date) := by rw [dbase_date]; exact hy
  unfold pointOf
  rw [yearOf_valsOfD, yearOf_custom x cfg.pt.ned ext k (dbase d) hyb]
  simp only [hasGroup, fieldOf, decOf, groupFields_date, groupFields_dtime]
  obtain ⟨date, time, tz⟩ := d
  obtain ⟨hd, h1, _, h2, _, h3, _⟩ := hf
  cases time with
  | hour hh ds =>
    simp only [dbase] at hd h1
    have e1 : ((hh.toNat : Nat) : Int) = hh := Int.toNat_of_nonneg h1
    cases date with
    | cal y mo dd =>
      simp only at hd
      have a1 : max mo 0 = mo := by omega
      have a2 : max dd 0 = dd := by omega
      cases k with
      | cal =>
        cases x <;>
          simp [yearFlds, bodyFlds, DTimeUnit, valsOfD, valsOf, dbase, DTP.toXTP, DTP.norm, DTime.norm, dateBase,
            XTP.ofTP, XTP.withTime, dateYear, DTime.ds, e1, a1, a2]
      | ord => simp [Date.rep, DateKind.k] at hr
      | week => simp [Date.rep, DateKind.k] at hr
    | ord y doy =>
      simp only at hd
      have a1 : max doy 0 = doy := by omega
      cases k with
      | cal => simp [Date.rep, DateKind.k] at hr
      | ord =>
        cases x <;>
          simp [yearFlds, bodyFlds, DTimeUnit, valsOfD, valsOf, dbase, DTP.toXTP, DTP.norm, DTime.norm, dateBase,
            XTP.ofTP, XTP.withTime, dateYear, DTime.ds, e1, a1]
      | week => simp [Date.rep, DateKind.k] at hr
    | week y w dd =>
      simp only at hd
      have a1 : max w 0 = w := by omega
      have a2 : max dd 0 = dd := by omega
      cases k with
      | cal => simp [Date.rep, DateKind.k] at hr
      | ord => simp [Date.rep, DateKind.k] at hr
      | week =>
        cases x <;>
          simp [yearFlds, bodyFlds, DTimeUnit, valsOfD, valsOf, dbase, DTP.toXTP, DTP.norm, DTime.norm, dateBase,
            XTP.ofTP, XTP.withTime, dateYear, DTime.ds, e1, a1, a2]
  | minute hh mi ds =>
    simp only [dbase] at hd h1 h2
    have e1 : ((hh.toNat : Nat) : Int) = hh := Int.toNat_of_nonneg h1
    have e2 : ((mi.toNat : Nat) : Int) = mi := Int.toNat_of_nonneg h2
    cases date with
    | cal y mo dd =>
      simp only at hd
      have a1 : max mo 0 = mo := by omega
      have a2 : max dd 0 = dd := by omega
      cases k with
      | cal =>
        cases x <;>
          simp [yearFlds, bodyFlds, DTimeUnit, valsOfD, valsOf, dbase, DTP.toXTP, DTP.norm, DTime.norm, dateBase,
            XTP.ofTP, XTP.withTime, dateYear, DTime.ds, e1, e2, a1, a2]
      | ord => simp [Date.rep, DateKind.k] at hr
      | week => simp [Date.rep, DateKind.k] at hr
    | ord y doy =>
      simp only at hd
      have a1 : max doy 0 = doy := by omega
      cases k with
      | cal => simp [Date.rep, DateKind.k] at hr
      | ord =>
        cases x <;>
          simp [yearFlds, bodyFlds, DTimeUnit, valsOfD, valsOf, dbase, DTP.toXTP, DTP.norm, DTime.norm, dateBase,
            XTP.ofTP, XTP.withTime, dateYear, DTime.ds, e1, e2, a1]
      | week => simp [Date.rep, DateKind.k] at hr
    | week y w dd =>
      simp only at hd
      have a1 : max w 0 = w := by omega
      have a2 : max dd 0 = dd := by omega
      cases k with
      | cal => simp [Date.rep, DateKind.k] at hr
      | ord => simp [Date.rep, DateKind.k] at hr
      | week =>
        cases x <;>
          simp [yearFlds, bodyFlds, DTimeUnit, valsOfD, valsOf, dbase, DTP.toXTP, DTP.norm, DTime.norm, dateBase,
            XTP.ofTP, XTP.withTime, dateYear, DTime.ds, e1, e2, a1, a2]
  | second hh mi ss ds =>
    simp only [dbase] at hd h1 h2 h3
    have e1 : ((hh.toNat : Nat) : Int) = hh := Int.toNat_of_nonneg h1
    have e2 : ((mi.toNat : Nat) : Int) = mi := Int.toNat_of_nonneg h2
    have e3 : ((ss.toNat : Nat) : Int) = ss := Int.toNat_of_nonneg h3
    cases date with
    | cal y mo dd =>
      simp only at hd
      have a1 : max mo 0 = mo := by omega
      have a2 : max dd 0 = dd := by omega
      cases k with
      | cal =>
        cases x <;>
          simp [yearFlds, bodyFlds, DTimeUnit, valsOfD, valsOf, dbase, DTP.toXTP, DTP.norm, DTime.norm, dateBase,
            XTP.ofTP, XTP.withTime, dateYear, DTime.ds, e1, e2, e3, a1, a2]
      | ord => simp [Date.rep, DateKind.k] at hr
      | week => simp [Date.rep, DateKind.k] at hr
    | ord y doy =>
      simp only at hd
      have a1 : max doy 0 = doy := by omega
      cases k with
      | cal => simp [Date.rep, DateKind.k] at hr
      | ord =>
        cases x <;>
          simp [yearFlds, bodyFlds, DTimeUnit, valsOfD, valsOf, dbase, DTP.toXTP, DTP.norm, DTime.norm, dateBase,
            XTP.ofTP, XTP.withTime, dateYear, DTime.ds, e1, e2, e3, a1]
      | week => simp [Date.rep, DateKind.k] at hr
    | week y w dd =>
      simp only at hd
      have a1 : max w 0 = w := by omega
      have a2 : max dd 0 = dd := by omega
      cases k with
      | cal => simp [Date.rep, DateKind.k] at hr
      | ord => simp [Date.rep, DateKind.k] at hr
      | week =>
        cases x <;>
          simp [yearFlds, bodyFlds, DTimeUnit, valsOfD, valsOf, dbase, DTP.toXTP, DTP.norm, DTime.norm, dateBase,
            XTP.ofTP, XTP.withTime, dateYear, DTime.ds, e1, e2, e3, a1, a2]


theorem ds_digits (t : DTime) (hv : t.Valid) : t.ds.all isDigit = true := by
  cases t with
  | hour hh ds => exact hv.1.2.1
  | minute hh mi ds => exact hv.1.2.1
  | second hh mi ss ds => exact hv.1.2.1

theorem valsOfD_fit (m : Mode) (n : Nat) (d : DTP) (hv : d.Valid m)
    (hx : (dateYear d.date).natAbs / 10000 < 10 ^ n) : (valsOfD d).Fit n := by
  have hb := valsOf_fit m n (dbase d) (dbase_valid m d hv) (by rw [dbase_date]; exact hx)
  obtain ⟨a1, a2, a3, a4, a5, a6, a7, a8, a9, a10, a11, a12, a13, _, _, _⟩ := hb
  have hdig := stripZeros_digits d.time.ds (ds_digits d.time hv.2.1)
  have hne := stripZeros_ne d.time.ds
  exact ⟨a1, a2, a3, a4, a5, a6, a7, a8, a9, a10, a11, a12, a13, ⟨hne, hdig⟩, ⟨hne, hdig⟩, ⟨hne, hdig⟩⟩

/-- The zone of the text is the zone of the point. -/
def DZoneFaithful (f : DFmt) (tz : TZ) : Prop :=
  match f.zone.style with
  | none => tz = ⟨0, 0⟩
  | some .hm => True
  | some .h => tz.mi = 0

theorem timeValid_dec (ext : Bool) (sep : Sep) (d : DTP) (ht : d.time.Valid) :
    TimeValid (dtimeTmplC ext sep (DTimeUnit d.time)) (valsOfD d) := by
  obtain ⟨date, time, tz⟩ := d
  unfold TimeValid hourOf minuteOf secondOf
  simp only [hasGroup, groupFields_dtime]
  cases time with
  | hour hh ds =>
    obtain ⟨_, h0, h1, h24⟩ := ht
    by_cases e24 : hh = 24
    · right; simp [DTimeUnit, valsOfD, valsOf_hour, dbase, DTime.ds, e24, fracZero_stripZeros, h24 e24]
    · left; simp [DTimeUnit, valsOfD, valsOf_hour, dbase]; omega
  | minute hh mi ds =>
    obtain ⟨_, h0, h1, h2, h3, h24⟩ := ht
    by_cases e24 : hh = 24
    · right
      obtain ⟨c1, c2⟩ := h24 e24
      simp [DTimeUnit, valsOfD, valsOf_hour, valsOf_minute, dbase, DTime.ds, e24, fracZero_stripZeros, c1, c2]
    · left; simp [DTimeUnit, valsOfD, valsOf_hour, valsOf_minute, dbase]; omega
  | second hh mi ss ds =>
    obtain ⟨_, h0, h1, h2, h3, h4, h5, h24⟩ := ht
    by_cases e24 : hh = 24
    · right
      obtain ⟨c1, c2, c3⟩ := h24 e24
      simp [DTimeUnit, valsOfD, valsOf_hour, valsOf_minute, valsOf_second, dbase, DTime.ds, e24,
        fracZero_stripZeros, c1, c2, c3]
    · left; simp [DTimeUnit, valsOfD, valsOf_hour, valsOf_minute, valsOf_second, dbase]; omega

/-- **Parser half, decimal points**: the specified text of a valid decimal point `d` in the format's
    representation, its zone faithfully spelled, its year within the format's digits, is decoded — by
    every parser configuration that knows the notation — to `d` with its fraction as printed (`d.norm`:
    the same unit values, the fraction without trailing zeros, i.e. the same number). -/
theorem parse_decCustomText (cfg : Cfg) (hpt : cfg.pt ∈ parserTables) (f : DFmt)
    (hb : f.ext = true → cfg.pt.basicOnly = false) (hx : f.expanded = true → cfg.pt.ned ≠ 0)
    (d : DTP) (hv : d.Valid cfg.mode) (hr : d.date.rep = f.kind.k)
    (hy : YearInRange (f.yd cfg.pt.ned) (dateYear d.date)) (hzf : DZoneFaithful f d.tz) :
    parse cfg (decCustomText cfg.pt.ned f d) false = some (DTP.toXTP (f.yd cfg.pt.ned) d.norm) := by
  obtain ⟨de, hde, hdt, hdc, hdf⟩ := date_entry_all cfg.pt hpt f.expanded (by cases f.expanded <;> simp)
    f.ext (by cases f.ext <;> simp) f.kind (by cases f.kind <;> simp) hb
  obtain ⟨te, hte, htt, htc, htf⟩ := dtime_entry_all cfg.pt hpt f.ext (by cases f.ext <;> simp)
    f.sep (by cases f.sep <;> simp) (DTimeUnit d.time) (by cases DTimeUnit d.time <;> simp) hb
  obtain ⟨ze, hze, hzt, hzf'⟩ := zone_entry_all cfg.pt hpt f.ext (by cases f.ext <;> simp)
    f.zone.style (by cases f.zone.style with | none => simp | some s => cases s <;> simp) hb
  have hvb := dbase_valid cfg.mode d hv
  have hff := fieldsFit_of_valid cfg.mode (dbase d) hvb
  have hxlt : (dateYear d.date).natAbs / 10000 < 10 ^ cfg.pt.ned := by
    unfold DFmt.yd YearInRange at hy
    cases hxe : f.expanded with
    | false =>
      rw [hxe] at hy
      simp only [Bool.false_eq_true, if_false, if_true] at hy
      have : (dateYear d.date).natAbs / 10000 = 0 := by omega
      rw [this]; exact Nat.pow_pos (by decide)
    | true =>
      rw [hxe] at hy
      simp only [if_true, hx hxe, if_false] at hy
      rw [Nat.pow_add] at hy
      generalize 10 ^ cfg.pt.ned = K at hy ⊢
      omega
  have hfit := valsOfD_fit cfg.mode cfg.pt.ned d hv hxlt
  obtain ⟨zh, zm⟩ := zoneOf_custom cfg.zone f.ext ⟨false, .cal, f.ext, .none, f.zone⟩ (dbase d)
    hvb.2.2.2.2.2.2.2.2 (by
      unfold ZoneFaithful
      unfold DZoneFaithful at hzf
      rw [dbase_tz]
      exact hzf)
  rw [dbase_tz] at zh zm
  have hX : cfg.pt.ned = 0 → hasGroup de.tmpl .expandedYear = false := by
    intro h0
    rw [hdt]
    cases hxe : f.expanded with
    | false => simp only [hasGroup, groupFields_date]; cases f.kind <;> rfl
    | true => exact absurd h0 (hx hxe)
  have hzo : zoneOf cfg.zone (some (zoneTmplS f.ext f.zone.style)) (valsOfD d) =
      zoneOf cfg.zone (some (zoneTmplS f.ext f.zone.style)) (valsOf (dbase d)) := rfl
  have key := Props.C07.C07_parse cfg hpt de hde hdc hX te hte (by rw [htc]; decide) (htf.trans hdf.symm)
    (some ze) (by intro z hz; obtain rfl := Option.some.inj hz; exact ⟨hze, hzf'.trans hdf.symm⟩)
    (valsOfD d) hfit d.tz (by
      simp only [Option.map_some, hzt, hzo, zh, zm]
      exact Lemmas.Strf.mkTZ_valid cfg.mode d.tz hv.2.2)
  rw [decCustomText_render cfg.pt.ned f hx d hr hy, ← hdt, ← htt, ← hzt]
  have hzt' : Props.C07.zoneText (some ze) (valsOfD d) = trender ze.tmpl (envOf ze.tmpl (valsOfD d)) := rfl
  rw [← hzt', key, hdt, htt]
  have hyd : YearInRange (if f.expanded then cfg.pt.ned else 0) (dateYear d.date) := hy
  have hyb : YearInRange (if f.expanded then cfg.pt.ned else 0) (dateYear (dbase d).date) := by
    rw [dbase_date]; exact hyd
  rw [dateOf_valsOfD, dateOf_custom f.expanded cfg.pt.ned f.ext f.kind (dbase d) (by rw [dbase_date]; exact hr)
      hyb hff, dbase_date,
    pointOf_dec cfg f.expanded f.ext f.kind f.sep d hr hyd hff]
  rw [if_pos ⟨hv.1, timeValid_dec f.ext f.sep d hv.2.1⟩]
  rfl

end IsoDT.Text.Custom
