/-
  IsoDT.Lemmas.Tables — the regenerated tables coincide with the Spec tables, and the finite
  within-year facts (month walks) hold for every (mode, leap flag, month, day).  Everything here is
  a finite statement discharged by kernel evaluation (`decide`), i.e. these are the obligations
  that stop compiling when a table, the leap factors or the week reference change in the source.
-/
import IsoDT.Model.Calendar

namespace IsoDT.Lemmas
open IsoDT IsoDT.Model

theorem mode_mem_all (m : Mode) : m ∈ Mode.all := by cases m <;> simp [Mode.all]

/-- Lift a statement checked on `Fin n` to the integers `0 ≤ x < n`. -/
theorem forall_fin_int {P : Int → Prop} (n : Nat) (h : ∀ k : Fin n, P (k.val : Int))
    (x : Int) (h0 : 0 ≤ x) (h1 : x < n) : P x := by
  have := h ⟨x.toNat, by omega⟩
  simpa [Int.toNat_of_nonneg h0] using this

/-! ### Gen = Spec on the data -/

theorem gen_leapFactors : Gen.leapFactors = [(4, true), (100, false), (400, true)] := by decide
theorem gen_weekRefCal : Gen.weekRefCal = (2000, 1, 3) := by decide
theorem gen_weekRefOrd : Gen.weekRefOrd = (2000, 3) := by decide

theorem table_eq (m : Mode) (lp : Bool) : table m lp = Spec.monthTab m lp := by
  cases m <;> cases lp <;> decide

theorem daysInWeek_eq (m : Mode) : (calOf m).daysInWeek = 7 := by cases m <;> decide
theorem monthsInYear_eq (m : Mode) : (calOf m).monthsInYear = 12 := by cases m <;> decide
theorem secondsInMinute_eq (m : Mode) : (calOf m).secondsInMinute = 60 := by cases m <;> decide
theorem minutesInHour_eq (m : Mode) : (calOf m).minutesInHour = 60 := by cases m <;> decide
theorem hoursInDay_eq (m : Mode) : (calOf m).hoursInDay = 24 := by cases m <;> decide
theorem secondsInHour_eq (m : Mode) : (calOf m).secondsInHour = 3600 := by cases m <;> decide
theorem secondsInDay_eq (m : Mode) : (calOf m).secondsInDay = 86400 := by cases m <;> decide

theorem daysInYearRec_eq (m : Mode) :
    (calOf m).daysInYear = Spec.yearLenB m false ∧ (calOf m).daysInYearLeap = Spec.yearLenB m true := by
  cases m <;> decide

theorem yearLenB_vals (m : Mode) (lp : Bool) :
    Spec.yearLenB m lp =
      match m, lp with
      | .greg, false => 365 | .greg, true => 366
      | .d360, _ => 360 | .d365, _ => 365 | .d366, _ => 366 := by
  cases m <;> cases lp <;> decide

theorem yearLenB_bounds (m : Mode) (lp : Bool) : 360 ≤ Spec.yearLenB m lp ∧ Spec.yearLenB m lp ≤ 366 := by
  cases m <;> cases lp <;> decide

/-- In the fixed-length calendars the flag does not matter. -/
theorem monthTab_fixed (m : Mode) (h : m ≠ .greg) (a b : Bool) : Spec.monthTab m a = Spec.monthTab m b := by
  cases m <;> simp_all [Spec.monthTab]

/-! ### within-year facts, finite -/

theorem dbmB_one (m : Mode) (lp : Bool) : Spec.dbmB m lp 1 = 0 := by cases m <;> cases lp <;> decide
theorem dbmB_thirteen (m : Mode) (lp : Bool) : Spec.dbmB m lp 13 = Spec.yearLenB m lp := by
  cases m <;> cases lp <;> decide

theorem dbmB_succ_fin : ∀ m ∈ Mode.all, ∀ lp : Bool, ∀ mo : Fin 13, 1 ≤ mo.val →
    Spec.dbmB m lp ((mo.val : Int) + 1) = Spec.dbmB m lp mo.val + Spec.monthLenB m lp mo.val := by
  decide +kernel

theorem dbmB_succ (m : Mode) (lp : Bool) (mo : Int) (h1 : 1 ≤ mo) (h2 : mo ≤ 12) :
    Spec.dbmB m lp (mo + 1) = Spec.dbmB m lp mo + Spec.monthLenB m lp mo := by
  refine forall_fin_int (P := fun mo => 1 ≤ mo → Spec.dbmB m lp (mo + 1) = Spec.dbmB m lp mo + Spec.monthLenB m lp mo)
    13 ?_ mo (by omega) (by omega) h1
  intro k hk
  exact dbmB_succ_fin m (mode_mem_all m) lp k (by omega)

theorem monthLenB_bounds_fin : ∀ m ∈ Mode.all, ∀ lp : Bool, ∀ mo : Fin 13, 1 ≤ mo.val →
    28 ≤ Spec.monthLenB m lp mo.val ∧ Spec.monthLenB m lp mo.val ≤ 31 := by
  decide +kernel

theorem monthLenB_bounds (m : Mode) (lp : Bool) (mo : Int) (h1 : 1 ≤ mo) (h2 : mo ≤ 12) :
    28 ≤ Spec.monthLenB m lp mo ∧ Spec.monthLenB m lp mo ≤ 31 := by
  refine forall_fin_int (P := fun mo => 1 ≤ mo → 28 ≤ Spec.monthLenB m lp mo ∧ Spec.monthLenB m lp mo ≤ 31)
    13 ?_ mo (by omega) (by omega) h1
  intro k hk
  exact monthLenB_bounds_fin m (mode_mem_all m) lp k (by omega)

/-- Months are laid out in order: everything in month `a` precedes the first of month `b > a`. -/
theorem dbmB_mono_fin : ∀ m ∈ Mode.all, ∀ lp : Bool, ∀ a b : Fin 13, 1 ≤ a.val → a.val < b.val →
    Spec.dbmB m lp a.val + Spec.monthLenB m lp a.val ≤ Spec.dbmB m lp b.val := by
  decide +kernel

theorem dbmB_mono (m : Mode) (lp : Bool) (a b : Int) (h1 : 1 ≤ a) (h2 : a < b) (h3 : b ≤ 12) :
    Spec.dbmB m lp a + Spec.monthLenB m lp a ≤ Spec.dbmB m lp b := by
  have key : ∀ a : Int, 0 ≤ a → a < 13 → ∀ b : Int, 0 ≤ b → b < 13 → 1 ≤ a → a < b →
      Spec.dbmB m lp a + Spec.monthLenB m lp a ≤ Spec.dbmB m lp b := by
    intro a ha0 ha1
    refine forall_fin_int (P := fun a => ∀ b : Int, 0 ≤ b → b < 13 → 1 ≤ a → a < b →
      Spec.dbmB m lp a + Spec.monthLenB m lp a ≤ Spec.dbmB m lp b) 13 ?_ a ha0 ha1
    intro ka b hb0 hb1
    refine forall_fin_int (P := fun b => 1 ≤ (ka.val : Int) → (ka.val : Int) < b →
      Spec.dbmB m lp ka.val + Spec.monthLenB m lp ka.val ≤ Spec.dbmB m lp b) 13 ?_ b hb0 hb1
    intro kb h1 h2
    exact dbmB_mono_fin m (mode_mem_all m) lp ka kb (by omega) (by omega)
  exact key a (by omega) (by omega) b (by omega) (by omega) h1 h2

theorem dbmB_nonneg_fin : ∀ m ∈ Mode.all, ∀ lp : Bool, ∀ a : Fin 13, 1 ≤ a.val →
    0 ≤ Spec.dbmB m lp a.val ∧ Spec.dbmB m lp a.val + Spec.monthLenB m lp a.val ≤ Spec.yearLenB m lp := by
  decide +kernel

theorem dbmB_range (m : Mode) (lp : Bool) (a : Int) (h1 : 1 ≤ a) (h2 : a ≤ 12) :
    0 ≤ Spec.dbmB m lp a ∧ Spec.dbmB m lp a + Spec.monthLenB m lp a ≤ Spec.yearLenB m lp := by
  refine forall_fin_int (P := fun a => 1 ≤ a → 0 ≤ Spec.dbmB m lp a ∧
    Spec.dbmB m lp a + Spec.monthLenB m lp a ≤ Spec.yearLenB m lp) 13 ?_ a (by omega) (by omega) h1
  intro k hk
  exact dbmB_nonneg_fin m (mode_mem_all m) lp k (by omega)

/-- `posOf` (the walk of `get_ordinal_date_from_calendar_date`) on a valid calendar date. -/
def posOfOk (m : Mode) (lp : Bool) (mo d : Int) : Bool :=
  if 1 ≤ mo ∧ 1 ≤ d ∧ d ≤ Spec.monthLenB m lp mo then
    posOf (indexed m lp) mo d == some (Spec.dbmB m lp mo + d)
  else true

theorem posOf_fin : ∀ m ∈ Mode.all, ∀ lp : Bool, ∀ mo : Fin 13, ∀ d : Fin 32,
    posOfOk m lp mo.val d.val = true := by
  decide +kernel

theorem posOf_spec (m : Mode) (lp : Bool) (mo d : Int) (h1 : 1 ≤ mo) (h2 : mo ≤ 12)
    (h3 : 1 ≤ d) (h4 : d ≤ Spec.monthLenB m lp mo) :
    posOf (indexed m lp) mo d = some (Spec.dbmB m lp mo + d) := by
  have hb := monthLenB_bounds m lp mo h1 h2
  have key : posOfOk m lp mo d = true := by
    refine forall_fin_int (P := fun mo => posOfOk m lp mo d = true) 13 ?_ mo (by omega) (by omega)
    intro kmo
    refine forall_fin_int (P := fun d => posOfOk m lp kmo.val d = true) 32 ?_ d (by omega) (by omega)
    intro kd
    exact posOf_fin m (mode_mem_all m) lp kmo kd
  unfold posOfOk at key
  simp only [h1, h3, h4, and_self, ↓reduceIte, beq_iff_eq] at key
  exact key

/-- `posOf` refuses anything that is not a valid calendar date (months 0..13, days 0..32 checked
    exhaustively; the general statement follows because `posOf` only compares for equality). -/
def posOfNoneOk (m : Mode) (lp : Bool) (mo d : Int) : Bool :=
  if 1 ≤ mo ∧ mo ≤ 12 ∧ 1 ≤ d ∧ d ≤ Spec.monthLenB m lp mo then true
  else posOf (indexed m lp) mo d == none

theorem posOfNone_fin : ∀ m ∈ Mode.all, ∀ lp : Bool, ∀ mo : Fin 14, ∀ d : Fin 33,
    posOfNoneOk m lp mo.val d.val = true := by
  decide +kernel

/-- `walkFwd` (the walk of `get_calendar_date_from_ordinal_date`) on a valid ordinal day. -/
def walkFwdOk (m : Mode) (lp : Bool) (doy : Int) : Bool :=
  if 1 ≤ doy ∧ doy ≤ Spec.yearLenB m lp then
    match walkFwd (indexed m lp) doy with
    | some (mo, d) =>
      decide (1 ≤ mo ∧ mo ≤ 12 ∧ 1 ≤ d ∧ d ≤ Spec.monthLenB m lp mo ∧ Spec.dbmB m lp mo + d = doy)
    | none => false
  else walkFwd (indexed m lp) doy == none

theorem walkFwd_fin : ∀ m ∈ Mode.all, ∀ lp : Bool, ∀ doy : Fin 368, walkFwdOk m lp doy.val = true := by
  decide +kernel

theorem walkFwd_spec (m : Mode) (lp : Bool) (doy : Int) (h1 : 1 ≤ doy) (h2 : doy ≤ Spec.yearLenB m lp) :
    ∃ mo d, walkFwd (indexed m lp) doy = some (mo, d) ∧ 1 ≤ mo ∧ mo ≤ 12 ∧ 1 ≤ d ∧
      d ≤ Spec.monthLenB m lp mo ∧ Spec.dbmB m lp mo + d = doy := by
  have hb := yearLenB_bounds m lp
  have key : walkFwdOk m lp doy = true := by
    refine forall_fin_int (P := fun doy => walkFwdOk m lp doy = true) 368 ?_ doy (by omega) (by omega)
    intro k
    exact walkFwd_fin m (mode_mem_all m) lp k
  unfold walkFwdOk at key
  simp only [h1, h2, and_self, ↓reduceIte] at key
  split at key
  · rename_i mo d heq
    exact ⟨mo, d, heq, by simpa using key⟩
  · simp at key

/-- The reverse walk used by the week-start routine: `k`-th day from the end of the year. -/
def walkRevOk (m : Mode) (lp : Bool) (k : Int) : Bool :=
  if 1 ≤ k ∧ k ≤ 3 then
    walkRev (indexed m lp).reverse k == some (12, Spec.monthLenB m lp 12 - k + 1)
  else true

theorem walkRev_fin : ∀ m ∈ Mode.all, ∀ lp : Bool, ∀ k : Fin 4, walkRevOk m lp k.val = true := by
  decide +kernel

theorem walkRev_spec (m : Mode) (lp : Bool) (k : Int) (h1 : 1 ≤ k) (h2 : k ≤ 3) :
    walkRev (indexed m lp).reverse k = some (12, Spec.monthLenB m lp 12 - k + 1) := by
  have key : walkRevOk m lp k = true := by
    refine forall_fin_int (P := fun k => walkRevOk m lp k = true) 4 ?_ k (by omega) (by omega)
    intro kk
    exact walkRev_fin m (mode_mem_all m) lp kk
  unfold walkRevOk at key
  simpa [h1, h2] using key

theorem dbmB_twelve (m : Mode) (lp : Bool) :
    Spec.dbmB m lp 12 + Spec.monthLenB m lp 12 = Spec.yearLenB m lp := by
  cases m <;> cases lp <;> decide

end IsoDT.Lemmas
