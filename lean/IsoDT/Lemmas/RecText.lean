/-
  IsoDT.Lemmas.RecText — helper lemmas for the text round trip of recurrences (C14, last clause):
  the characters `str(point)` and `str(duration)` can print, and what the three recurrence
  regexes (`RecText.header`, `regex1/2/3`) capture on a text assembled from such pieces.
-/
import IsoDT.Model.RecText
import IsoDT.Lemmas.DurText
import IsoDT.Lemmas.TextRoundParse

namespace IsoDT.Lemmas.RecText
open IsoDT IsoDT.Model IsoDT.Text IsoDT.RecText
open IsoDT.Spec (Date TZ TP)
open IsoDT.Model.DurText (isDig intText toText)
open IsoDT.Lemmas.DurText

/-! ## Characters -/

/-- The characters a printed whole-second point consists of. -/
def PtChar (c : Char) : Prop := Text.isDigit c = true ∨ c ∈ ['+', '-', 'W', ':', 'Z', 'T']

/-- The characters a printed non-negative integer duration consists of. -/
def DuChar (c : Char) : Prop := isDig c = true ∨ c ∈ ['P', 'Y', 'M', 'D', 'T', 'H', 'S', 'W']

theorem isDigit_bounds (c : Char) (h : Text.isDigit c = true) : 48 ≤ c.toNat ∧ c.toNat ≤ 57 := by
  simpa [Text.isDigit] using h

theorem PtChar.facts {c : Char} (h : PtChar c) : c ≠ '/' ∧ c ≠ '\n' ∧ c ≠ 'P' ∧ c.toNat < 128 := by
  rcases h with h | h
  · have := isDigit_bounds c h
    refine ⟨?_, ?_, ?_, by omega⟩ <;> (intro e; subst e; revert this; decide)
  · simp only [List.mem_cons, List.not_mem_nil, or_false] at h
    rcases h with rfl | rfl | rfl | rfl | rfl | rfl <;> decide

theorem DuChar.facts {c : Char} (h : DuChar c) : c ≠ '/' ∧ c ≠ '\n' ∧ c.toNat < 128 := by
  rcases h with h | h
  · have := (isDig_iff c).mp h
    refine ⟨?_, ?_, by omega⟩ <;> (intro e; subst e; revert this; decide)
  · simp only [List.mem_cons, List.not_mem_nil, or_false] at h
    rcases h with rfl | rfl | rfl | rfl | rfl | rfl | rfl | rfl <;> decide

theorem litChars_append (a b : Template) : litChars (a ++ b) = litChars a ++ litChars b := by
  induction a with
  | nil => rfl
  | cons x a ih => cases x <;> simp [litChars, ih]

theorem stdText_chars (ned : Nat) (p : TP) : ∀ c ∈ stdText ned p, PtChar c := by
  intro c hc
  simp only [stdText, List.mem_append, List.mem_cons] at hc
  rcases hc with hc | rfl | hc | hc
  · rcases trender_chars _ _ (fits_date ned p.date) c hc with h | h
    · exact Or.inl h
    · right
      cases hd : p.date <;> rw [hd] at h <;> by_cases h0 : ned = 0 <;>
        simp [dateTmpl, yearTmpl, h0, litChars] at h <;> simp only [List.mem_cons, List.not_mem_nil, or_false] <;> grind
  · right; simp
  · rcases trender_chars _ _ (fits_time p) c hc with h | h
    · exact Or.inl h
    · right
      simp [timeTmpl, litChars] at h
      simp [h]
  · rcases trender_chars _ _ (fits_zone p.tz) c hc with h | h
    · exact Or.inl h
    · right
      by_cases hz : p.tz.h = 0 ∧ p.tz.mi = 0
      · simp [zoneTmpl, hz, litChars] at h
        simp [h]
      · simp only [zoneTmpl, if_neg hz] at h
        simp [litChars] at h
        simp only [List.mem_cons, List.not_mem_nil, or_false]
        grind

theorem stdText_ne_nil (ned : Nat) (p : TP) : stdText ned p ≠ [] := by
  intro h
  have : 'T' ∈ stdText ned p := by simp [stdText]
  rw [h] at this
  cases this

/-! ## A parser with expanded year digits still reads four-digit years

  `parse_stdText` (C08) is about texts spelled with the parser's own number of expanded year
  digits.  A point that carries none (`num_expanded_year_digits = 0`, e.g. one the parser itself
  read from a four-digit text) prints four digits; every configuration reads that as well. -/

open _root_.IsoDT.Gen.Templates (timeDesignator parserTables) in
def hasDate0 (pt : ParserTables) (d : Date) : Bool :=
  pt.dateEntries.any fun e => decide (e.tmpl = dateTmpl 0 d) && decide (e.typ = .complete) &&
    decide (e.fmt = .extended)

def std0OK (pt : ParserTables) : Bool :=
  pt.basicOnly || (hasDate0 pt (.cal 0 0 0) && hasDate0 pt (.ord 0 0) && hasDate0 pt (.week 0 0 0))

set_option maxRecDepth 100000 in
theorem std0_tables : Gen.Templates.parserTables.all std0OK = true := by decide +kernel

theorem std0_entry (pt : ParserTables) (h : pt ∈ Gen.Templates.parserTables) (hb : pt.basicOnly = false) (d : Date) :
    ∃ de ∈ pt.dateEntries, de.tmpl = dateTmpl 0 d ∧ de.typ = .complete ∧ de.fmt = .extended := by
  have hk := List.all_eq_true.mp std0_tables pt h
  simp only [std0OK, hb, Bool.false_or, Bool.and_eq_true, hasDate0, List.any_eq_true,
    decide_eq_true_eq] at hk
  obtain ⟨⟨h1, h2⟩, h3⟩ := hk
  rcases dateTmpl_rep 0 d with e | e | e <;> rw [e]
  · obtain ⟨x, hx, ⟨a, b⟩, c⟩ := h1; exact ⟨x, hx, a, b, c⟩
  · obtain ⟨x, hx, ⟨a, b⟩, c⟩ := h2; exact ⟨x, hx, a, b, c⟩
  · obtain ⟨x, hx, ⟨a, b⟩, c⟩ := h3; exact ⟨x, hx, a, b, c⟩

theorem getInfo_stdText0 (cfg : Cfg) (hpt : cfg.pt ∈ Gen.Templates.parserTables) (hb : cfg.pt.basicOnly = false)
    (p : TP) (hz : p.tz.Valid) :
    ∃ e, getInfo cfg (stdText 0 p) =
      some { dateEnv := dateEnv 0 p.date, dateTrunc := false, timeEnv := timeEnv p,
             zone := ⟨some p.tz.h, some p.tz.mi⟩, expr := e } := by
  obtain ⟨de, hde, hdt, hdc, hdf⟩ := std0_entry cfg.pt hpt hb p.date
  obtain ⟨_, ⟨te, hte, htt, htc, htf⟩, _, _⟩ := std_entries cfg.pt hpt hb p.date
  obtain ⟨ze, hze, hzt, hzf⟩ := std_zone_entry cfg.pt hpt hb p.tz
  have key := getInfo_rendered cfg hpt de hde hdc te hte (by rw [htc]; decide) (htf.trans hdf.symm)
    (some (ze, zoneEnv p.tz))
    (by
      intro ze' zenv' h
      simp only [Option.some.injEq, Prod.mk.injEq] at h
      obtain ⟨rfl, rfl⟩ := h
      exact ⟨hze, hzf.trans hdf.symm, by rw [hzt]; exact fits_zone _⟩)
    (dateEnv 0 p.date) (timeEnv p) (by rw [hdt]; exact fits_date _ _)
    (by rw [htt]; exact fits_time p)
  simp only [zoneTextOf, zoneEnvOf, zoneExprOf] at key
  rw [hdt, htt, hzt, designator_eq, processZone_zoneEnv cfg.zone p.tz hz] at key
  exact ⟨_, key⟩

theorem assemble_std0 (cfg : Cfg) (p : TP) (hf : FieldsFit p)
    (hy : YearInRange 0 (dateYear p.date)) (e : List Char) :
    assemble cfg { dateEnv := dateEnv 0 p.date, dateTrunc := false, timeEnv := timeEnv p,
                   zone := ⟨some p.tz.h, some p.tz.mi⟩, expr := e } none =
      some (stdArgs 0 p) := by
  obtain ⟨date, hh, mi, ss, tz⟩ := p
  obtain ⟨hd, a1, a2, a3, a4, a5, a6⟩ := hf
  simp only at hd a1 a2 a3 a4 a5 a6
  have ehh : intOf? (renderNat 2 hh.toNat) = some hh := intOf_render_int 2 hh (by decide) a1 (by omega)
  have emi : intOf? (renderNat 2 mi.toNat) = some mi := intOf_render_int 2 mi (by decide) a3 (by omega)
  have ess : intOf? (renderNat 2 ss.toNat) = some ss := intOf_render_int 2 ss (by decide) a5 (by omega)
  cases date with
  | cal y mo d =>
    simp only at hd
    have emo : intOf? (renderNat 2 mo.toNat) = some mo := intOf_render_int 2 mo (by decide) hd.1 (by omega)
    have edd : intOf? (renderNat 2 d.toNat) = some d := intOf_render_int 2 d (by decide) hd.2.2.1 (by omega)
    simp only [YearInRange, dateYear, if_true] at hy
    obtain ⟨ecc, eyy⟩ := year_digits0 y hy
    simp [assemble, stdArgs, optInt, Env.has, Env.get?, dateEnv, yearEnv, timeEnv, ecc, eyy, emo, edd,
      ehh, emi, ess]
    omega
  | ord y doy =>
    simp only at hd
    have edoy : intOf? (renderNat 3 doy.toNat) = some doy := intOf_render_int 3 doy (by decide) hd.1 (by omega)
    simp only [YearInRange, dateYear, if_true] at hy
    obtain ⟨ecc, eyy⟩ := year_digits0 y hy
    simp [assemble, stdArgs, optInt, Env.has, Env.get?, dateEnv, yearEnv, timeEnv, ecc, eyy, edoy,
      ehh, emi, ess]
    omega
  | week y w d =>
    simp only at hd
    have ew : intOf? (renderNat 2 w.toNat) = some w := intOf_render_int 2 w (by decide) hd.1 (by omega)
    have edd : intOf? (renderNat 1 d.toNat) = some d := intOf_render_int 1 d (by decide) hd.2.2.1 (by omega)
    simp only [YearInRange, dateYear, if_true] at hy
    obtain ⟨ecc, eyy⟩ := year_digits0 y hy
    simp [assemble, stdArgs, optInt, Env.has, Env.get?, dateEnv, yearEnv, timeEnv, ecc, eyy, ew, edd,
      ehh, emi, ess]
    omega

/-- **Any parser that allows extended notation reads the four-digit-year text of a point**
    (whatever its own number of expanded year digits), giving the point without expanded digits. -/
theorem parse_stdText0 (cfg : Cfg) (hpt : cfg.pt ∈ Gen.Templates.parserTables) (hb : cfg.pt.basicOnly = false)
    (p : TP) (hv : p.Valid cfg.mode) (hy : YearInRange 0 (dateYear p.date)) :
    Text.parse cfg (stdText 0 p) false = some (XTP.ofTP 0 p) := by
  obtain ⟨e, hi⟩ := getInfo_stdText0 cfg hpt hb p hv.2.2.2.2.2.2.2.2
  unfold Text.parse
  rw [hi]
  simp only [Bool.false_eq_true, if_false]
  rw [assemble_std0 cfg p (fieldsFit_of_valid cfg.mode p hv) hy e]
  exact ctor_std cfg.mode 0 p hv

/-! ## The printed interval -/

/-- No negative component (what `TimeRecurrence` accepts as an interval, cf. `mkRec`). -/
def NonNeg : Dur → Prop
  | .weeks w => 0 ≤ w
  | .units y mo d h mi s => 0 ≤ y ∧ 0 ≤ mo ∧ 0 ≤ d ∧ 0 ≤ h ∧ 0 ≤ mi ∧ 0 ≤ s

instance (d : Dur) : Decidable (NonNeg d) := by cases d <;> unfold NonNeg <;> infer_instance

theorem fld_nil_iff (v : Int) (u : Char) : fld (ofv v) u = [] ↔ v = 0 := by
  unfold ofv fld
  split <;> simp_all

/-- `str(d)` of a non-negative integer duration: `P`, then at least one more character, all of
    them digits or unit letters. -/
theorem toText_shape (d : Dur) (h : NonNeg d) :
    ∃ c body, toText d = 'P' :: c :: body ∧ ∀ x ∈ c :: body, DuChar x := by
  by_cases hnz : d.nonzero = true
  · cases d with
    | weeks w =>
      have hw : w ≠ 0 := by simpa [Dur.nonzero] using hnz
      have hpos : 0 < w := by unfold NonNeg at h; omega
      rw [toText_weeks_pos w hpos]
      unfold desigW
      have hne := natDigits_ne_nil w.natAbs
      have hd := natDigits_digs w.natAbs
      cases hx : DurText.natDigits w.natAbs with
      | nil => exact absurd hx hne
      | cons c t =>
        refine ⟨c, t ++ ['W'], by simp, ?_⟩
        intro x hx'
        rw [hx] at hd
        have : x ∈ (c :: t) ∨ x = 'W' := by
          simp only [List.mem_cons, List.mem_append, List.not_mem_nil, or_false] at hx' ⊢
          grind
        rcases this with h1 | rfl
        · exact Or.inl (hd x h1)
        · right; simp
    | units y mo dd hh mi ss =>
      obtain ⟨a1, a2, a3, a4, a5, a6⟩ := h
      rw [toText_units_pos y mo dd hh mi ss a1 a2 a3 a4 a5 a6 hnz]
      have hch := desig_chars (ofv y) (ofv mo) (ofv dd) (tOf hh mi ss) (ofv_good y) (ofv_good mo) (ofv_good dd)
        (tOf_good hh mi ss)
      unfold desig at hch ⊢
      cases hb : fld (ofv y) 'Y' ++ (fld (ofv mo) 'M' ++ (fld (ofv dd) 'D' ++ timePart (tOf hh mi ss))) with
      | nil =>
        exfalso
        simp only [List.append_eq_nil_iff, fld_nil_iff] at hb
        obtain ⟨rfl, rfl, rfl, ht⟩ := hb
        have : hh = 0 ∧ mi = 0 ∧ ss = 0 := by
          unfold tOf at ht
          split at ht
          · assumption
          · simp [timePart] at ht
        obtain ⟨rfl, rfl, rfl⟩ := this
        simp [Dur.nonzero] at hnz
      | cons c t =>
        refine ⟨c, t, rfl, ?_⟩
        intro x hx
        rw [hb] at hch
        rcases hch x (by simp only [List.mem_cons] at hx ⊢; exact Or.inr hx) with h1 | h1
        · exact Or.inl h1
        · right
          simp only [List.mem_cons, List.not_mem_nil, or_false] at h1 ⊢
          grind
  · have hz : d.nonzero = false := by simpa using hnz
    rw [toText_zero d hz]
    refine ⟨'0', ['Y'], rfl, ?_⟩
    intro x hx
    simp only [List.mem_cons, List.not_mem_nil, or_false] at hx
    rcases hx with rfl | rfl
    · left; decide
    · right; simp

/-! ## The head `^R(\d+)?/` -/

theorem digitRun_digs (ds rest : List Char) (h : Digs ds) :
    digitRun (ds ++ '/' :: rest) = (ds, '/' :: rest) := by
  induction ds with
  | nil => simp [digitRun, show isDig '/' = false by decide]
  | cons c t ih =>
    have hc := h.head
    simp [digitRun, hc, ih h.tail]

/-- What `int(reps)` gives back for the repetitions `__str__` printed. -/
theorem header_strPrefix (reps : Option Int) (hpos : ∀ n, reps = some n → 0 < n) (rest : List Char) :
    ∃ g, header (strPrefix reps ++ rest) = .ok g rest ∧ repsVal g = reps := by
  cases reps with
  | none =>
    refine ⟨none, ?_, rfl⟩
    simp [strPrefix, header, digitRun, show isDig '/' = false by decide]
  | some n =>
    have hn := hpos n rfl
    have hne := natDigits_ne_nil n.natAbs
    refine ⟨some (DurText.natDigits n.natAbs), ?_, ?_⟩
    · have e : strPrefix (some n) ++ rest = 'R' :: (DurText.natDigits n.natAbs ++ '/' :: rest) := by
        simp [strPrefix, intText, show ¬ n < 0 by omega]
      rw [e]
      simp only [header, digitRun_digs _ _ (natDigits_digs _)]
      simp [hne]
    · simp only [repsVal, digitsVal_natDigits]
      congr 1
      omega

/-! ## The groups -/

theorem toSlash_split (a rest : List Char) (h : '/' ∉ a) : toSlash (a ++ '/' :: rest) = some (a, rest) := by
  induction a with
  | nil => simp [toSlash]
  | cons c t ih =>
    have hc : c ≠ '/' := by intro e; exact h (by simp [e])
    have ht : '/' ∉ t := by intro e; exact h (by simp [e])
    simp [toSlash, hc, ih ht]

theorem startGroup_split (a rest : List Char) (hne : a ≠ []) (hP : a.head? ≠ some 'P') (h : '/' ∉ a) :
    startGroup (a ++ '/' :: rest) = some (a, rest) := by
  cases a with
  | nil => exact absurd rfl hne
  | cons x t =>
    have hx : x ≠ 'P' := by intro e; exact hP (by simp [e])
    have ht : '/' ∉ t := by intro e; exact h (by simp [e])
    simp [startGroup, hx, toSlash_split t rest ht]

theorem startGroup_P (t : List Char) : startGroup ('P' :: t) = none := by simp [startGroup]

theorem dotTail_id (e : List Char) (h : '\n' ∉ e) : dotTail e = some e := by
  induction e with
  | nil => rfl
  | cons c t ih =>
    have hc : c ≠ '\n' := by intro e; exact h (by simp [e])
    have ht : '\n' ∉ t := by intro e; exact h (by simp [e])
    simp [dotTail, hc, ih ht]

theorem endGroup_id (e : List Char) (hne : e ≠ []) (hP : e.head? ≠ some 'P') (h : '\n' ∉ e) :
    endGroup e = some e := by
  cases e with
  | nil => exact absurd rfl hne
  | cons x t =>
    have hx : x ≠ 'P' := by intro e; exact hP (by simp [e])
    have ht : '\n' ∉ t := by intro e; exact h (by simp [e])
    simp [endGroup, hx, dotTail_id t ht]

theorem endGroup_P (t : List Char) : endGroup ('P' :: t) = none := by simp [endGroup]

theorem intvGroup_id (c : Char) (body : List Char) (h : '\n' ∉ c :: body) :
    intvGroup ('P' :: c :: body) = some ('P' :: c :: body) := by
  have hc : c ≠ '\n' := by intro e; exact h (by simp [e])
  have ht : '\n' ∉ body := by intro e; exact h (by simp [e])
  simp [intvGroup, hc, dotTail_id body ht]

theorem lastSlash_none (e : List Char) (h : '/' ∉ e) : lastSlash e = none := by
  induction e with
  | nil => rfl
  | cons c t ih =>
    have hc : c ≠ '/' := by intro e; exact h (by simp [e])
    have ht : '/' ∉ t := by intro e; exact h (by simp [e])
    simp [lastSlash, hc, ih ht]

/-- The greedy `.*` of the third pattern stops at the last `/`: here the only one that leaves a
    well-formed `end` group. -/
theorem lastSlash_split (a e : List Char) (ha : '\n' ∉ a) (hne : e ≠ []) (hP : e.head? ≠ some 'P')
    (hs : '/' ∉ e) (hn : '\n' ∉ e) : lastSlash (a ++ '/' :: e) = some (a, e) := by
  induction a with
  | nil =>
    simp [lastSlash, lastSlash_none e hs, endGroup_id e hne hP hn]
  | cons c t ih =>
    have hc : c ≠ '\n' := by intro e; exact ha (by simp [e])
    have ht : '\n' ∉ t := by intro e; exact ha (by simp [e])
    simp [lastSlash, hc, ih ht]

/-! ## The three patterns on a text assembled from printed pieces -/

theorem pt_facts (a : List Char) (ha : ∀ c ∈ a, PtChar c) :
    '/' ∉ a ∧ '\n' ∉ a ∧ a.head? ≠ some 'P' := by
  refine ⟨fun h => (ha _ h).facts.1 rfl, fun h => (ha _ h).facts.2.1 rfl, ?_⟩
  intro h
  cases a with
  | nil => cases h
  | cons x t =>
    simp only [List.head?_cons, Option.some.injEq] at h
    exact (ha x (by simp)).facts.2.2.1 h

theorem du_facts (a : List Char) (ha : ∀ c ∈ a, DuChar c) : '/' ∉ a ∧ '\n' ∉ a :=
  ⟨fun h => (ha _ h).facts.1 rfl, fun h => (ha _ h).facts.2.1 rfl⟩

/-- `start/second`: the first pattern. -/
theorem firstRegex_pt_pt (a b : List Char) (ha : ∀ c ∈ a, PtChar c) (hb : ∀ c ∈ b, PtChar c)
    (hane : a ≠ []) (hbne : b ≠ []) :
    firstRegex (a ++ '/' :: b) = some ⟨some a, some b, none⟩ := by
  obtain ⟨a1, _, a3⟩ := pt_facts a ha
  obtain ⟨_, b2, b3⟩ := pt_facts b hb
  simp [firstRegex, regex1, startGroup_split a b hane a3 a1, endGroup_id b hbne b3 b2]

/-- `start/interval`: the first pattern refuses the `P`, the second takes it. -/
theorem firstRegex_pt_du (a : List Char) (c : Char) (body : List Char) (ha : ∀ x ∈ a, PtChar x)
    (hd : ∀ x ∈ c :: body, DuChar x) (hane : a ≠ []) :
    firstRegex (a ++ '/' :: 'P' :: c :: body) = some ⟨some a, none, some ('P' :: c :: body)⟩ := by
  obtain ⟨a1, _, a3⟩ := pt_facts a ha
  obtain ⟨_, d2⟩ := du_facts _ hd
  simp [firstRegex, regex1, regex2, startGroup_split a _ hane a3 a1, endGroup_P, intvGroup_id c body d2]

/-- `interval/end`: the first two patterns refuse the leading `P`, the third splits at the `/`. -/
theorem firstRegex_du_pt (c : Char) (body b : List Char) (hd : ∀ x ∈ c :: body, DuChar x)
    (hb : ∀ x ∈ b, PtChar x) (hbne : b ≠ []) :
    firstRegex ('P' :: c :: (body ++ '/' :: b)) = some ⟨none, some b, some ('P' :: c :: body)⟩ := by
  obtain ⟨b1, b2, b3⟩ := pt_facts b hb
  obtain ⟨_, d2⟩ := du_facts _ hd
  have hc : c ≠ '\n' := by intro e; exact d2 (by simp [e])
  have ht : '\n' ∉ body := by intro e; exact d2 (by simp [e])
  simp [firstRegex, regex1, regex2, regex3, startGroup_P, hc, lastSlash_split body b ht hbne b3 b1 b2]

/-- Printed pieces are ASCII (so the interval parser does not answer `outside` for that reason). -/
theorem du_ascii (a : List Char) (ha : ∀ c ∈ a, DuChar c) : ∀ c ∈ a, c.toNat < 128 :=
  fun c h => (ha c h).facts.2.2

end IsoDT.Lemmas.RecText
