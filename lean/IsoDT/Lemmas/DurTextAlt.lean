/-
  IsoDT.Lemmas.DurTextAlt — the date-time-like alternative spelling of durations (`Model.DurTextAlt`):

    * the fallback on a text rendered from ANY listed non-truncated date form (complete, reduced, signed)
      and any listed time form / zone form of the regenerated tables, through the generic decoding
      theorems of the time point parser (`Props/C07`, `C07b`): `parseAltTP_rendered`,
      `parseAltTP_date`, `ctorDur_argsOf`, `parseAltDur_rendered`, `parseAltDur_date`;
    * when the designator regexes of `DurationParser.parse` do not match (`firstMatch_alt_none`), so
      that the fallback is reached, and the sign rule (`parseA_alt`, `parseA_minus_alt`, `parseA_plus`);
    * `parseA` on the text `str()` prints (`parseA_str`).
-/
import IsoDT.Props.C07b
import IsoDT.Props.C10
import IsoDT.Model.DurTextAlt

namespace IsoDT.Model.DurTextAlt
open IsoDT IsoDT.Model IsoDT.Text IsoDT.Gen
open IsoDT.Props.C07 (zoneText decodeFacts decodable_of C07_groups C07_groups_date)
open _root_.IsoDT.Gen.Templates (timeDesignator dateTypeOrder parserTables parser_2_all)

/-! ## The parser of the fallback -/

theorem altCfg_mem (m : Mode) : (altCfg m).pt ∈ parserTables := .tail _ (.tail _ (.head _))

theorem ned_ne (m : Mode) : ¬ (altCfg m).pt.ned = 0 := by
  show ¬ (2 = 0)
  decide

/-- `TimePointParser.parse` and the fallback's parse differ in the constructor only. -/
theorem parseAltTP_eq (m : Mode) (s : List Char) :
    parseAltTP m s =
      (getInfo (altCfg m) s).bind fun info => (assemble (altCfg m) info none).bind (ctorDur m) := by
  unfold parseAltTP
  cases getInfo (altCfg m) s with
  | none => rfl
  | some info =>
    simp only [Option.bind_some]
    cases assemble (altCfg m) info none <;> rfl

/-- **Decode, date T time zone**: for every COMPLETE date form of the table, every non-truncated time
    form of the same format, every zone form of that format or none, and all values that fit the group
    widths, the time point of the fallback is `ctorDur` on exactly the spelled fields. -/
theorem parseAltTP_rendered (m : Mode)
    (de : Entry) (hde : de ∈ parser_2_all.dateEntries) (hdc : de.typ = .complete)
    (te : Entry) (hte : te ∈ parser_2_all.timeEntries) (htt : te.typ ≠ .truncated) (htf : te.fmt = de.fmt)
    (zo : Option ZEntry) (hzo : ∀ ze, zo = some ze → ze ∈ parser_2_all.zoneEntries ∧ ze.fmt = de.fmt)
    (v : Vals) (hv : v.Fit 2) :
    parseAltTP m (trender de.tmpl (envOf de.tmpl v) ++
        'T' :: (trender te.tmpl (envOf te.tmpl v) ++ zoneText zo v)) =
      ctorDur m (argsOf (altCfg m) de.tmpl te.tmpl (zoneOf (.assumed 0 0) (zo.map (·.tmpl)) v) v) := by
  have hpt := altCfg_mem m
  have tf := tableFacts (altCfg m).pt hpt
  have df := decodeFacts (altCfg m).pt hpt
  obtain ⟨hdi, hdcc, _⟩ := df.dates de hde (by rw [hdc]; decide)
  obtain ⟨hti, _⟩ := df.times te hte htt
  have hfd := fits_envOf (altCfg m).pt.ned de.tmpl (tf.dates de hde).1 hdi v hv
  have hft := fits_envOf (altCfg m).pt.ned te.tmpl (tf.times te hte).1 hti v hv
  have key := C07_groups (altCfg m) hpt de hde hdc te hte htt htf (zo.map fun ze => (ze, envOf ze.tmpl v))
    (by
      intro ze zenv h
      cases zo with
      | none => cases h
      | some z =>
        simp only [Option.map_some, Option.some.injEq, Prod.mk.injEq] at h
        obtain ⟨rfl, rfl⟩ := h
        obtain ⟨h1, h2⟩ := hzo z rfl
        have hz := df.zones z h1
        simp only [zoneOK, Bool.and_eq_true] at hz
        exact ⟨h1, h2, fits_envOf (altCfg m).pt.ned z.tmpl (tf.zones z h1).1 hz.1 v hv⟩)
    (envOf de.tmpl v) (envOf te.tmpl v) hfd hft
  have hzone : processZone (altCfg m).zone (zoneEnvOf (zo.map fun ze => (ze, envOf ze.tmpl v))) =
      some (zoneOf (.assumed 0 0) (zo.map (·.tmpl)) v) := by
    cases zo with
    | none => exact processZone_none _ v
    | some z => exact processZone_envOf (altCfg m).pt.ned _ z.tmpl (df.zones z (hzo z rfl).1) v hv
  have htext : zoneTextOf (zo.map fun ze => (ze, envOf ze.tmpl v)) = zoneText zo v := by
    cases zo <;> rfl
  rw [hzone, htext] at key
  rw [parseAltTP_eq, show ('T' : Char) = timeDesignator from rfl, key]
  simp only [Option.map_some, Option.bind_some]
  rw [assemble_envOf (altCfg m) de.tmpl te.tmpl _ _ v (decodable_of _ _ _ hdi hti hdcc (fun h => absurd h (ned_ne m))) hv]
  rfl

/-- **Decode, date alone**: likewise for a text that is one date form, complete or reduced. -/
theorem parseAltTP_date (m : Mode) (de : Entry)
    (hmem : de ∈ dateOrder parser_2_all (dateTypes false [])) (v : Vals) (hv : v.Fit 2) :
    parseAltTP m (trender de.tmpl (envOf de.tmpl v)) =
      ctorDur m (argsOf (altCfg m) de.tmpl [] ⟨some 0, some 0⟩ v) := by
  have hpt := altCfg_mem m
  have tf := tableFacts (altCfg m).pt hpt
  have df := decodeFacts (altCfg m).pt hpt
  have hde := dateOrder_sub _ _ de hmem
  have hnt : de.typ ≠ .truncated := by
    have : de.typ ∈ dateTypes false [] := by
      unfold dateOrder at hmem
      simp only [List.mem_flatMap, List.mem_filter, Bool.and_eq_true, decide_eq_true_eq] at hmem
      obtain ⟨_, _, t, ht, _, _, h⟩ := hmem
      exact h ▸ ht
    intro h
    rw [h] at this
    revert this
    decide
  obtain ⟨hdi, hdcc, _⟩ := df.dates de hde hnt
  have hfd := fits_envOf (altCfg m).pt.ned de.tmpl (tf.dates de hde).1 hdi v hv
  have key := C07_groups_date (altCfg m) hpt de hmem (Or.inl rfl) (envOf de.tmpl v) hfd
  have htr : Env.has (envOf de.tmpl v) .truncated = false := by
    rw [has_envOf]; exact hasGroup_unclassed _ _ hdi _ rfl rfl rfl (by decide)
  rw [processZone_none (altCfg m).zone v, htr] at key
  have ha := assemble_envOf (altCfg m) de.tmpl [] (zoneOf (altCfg m).zone none v) de.expr v
    (decodable_of _ _ _ hdi rfl hdcc (fun h => absurd h (ned_ne m))) hv
  rw [show envOf [] v = [] from rfl] at ha
  rw [parseAltTP_eq, key]
  simp only [Option.map_some, Option.bind_some]
  rw [ha]
  rfl

/-! ## The constructor with `is_duration=True` and the duration, on the decoded arguments -/

/-- The time patterns without a decimal fraction: no time, `hh`, `hhmm`, `hhmmss`. -/
def timeWholeOK (te : Template) : Bool :=
  [(false, false, false, false, false, false), (true, false, false, false, false, false),
   (true, true, false, false, false, false), (true, true, true, false, false, false)].contains (timePattern te)

/-- Months of the duration: the month group, else 0 (NOT 1: no defaults with `is_duration`). -/
def monthOf (de : Template) (v : Vals) : Nat := if hasGroup de .monthOfYear then v.month else 0

/-- Days of the duration: the ordinal day, else the day of month, else 0. -/
def daysOf (de : Template) (v : Vals) : Nat :=
  if hasGroup de .dayOfYear then v.doy else if hasGroup de .dayOfMonth then v.day else 0

/-- The duration a (date form, time form) spells for the values `v`: every present field as written,
    every omitted field ZERO. -/
def durOfVals (de te : Template) (v : Vals) : Dur :=
  .units (yearOf de v) (monthOf de v) (daysOf de v) (hourOf te v) (minuteOf te v) (secondOf te v)

theorem timeWhole_cases (te : Template) (h : timeWholeOK te = true) :
    timePattern te = (false, false, false, false, false, false) ∨
    timePattern te = (true, false, false, false, false, false) ∨
    timePattern te = (true, true, false, false, false, false) ∨
    timePattern te = (true, true, true, false, false, false) := by
  simpa [timeWholeOK] using h

/-- **Constructor and duration**: on the decoded arguments of any documented date pattern and any time
    pattern without a fraction, `TimePoint(..., is_duration=True)` never fails except through the zone,
    no bound is checked, and the duration built from it is `durOfVals` — or an error for a week date. -/
theorem durOf_ctorDur (m : Mode) (cfg : Cfg) (de te : Template) (zone : ZoneInfo) (v : Vals)
    (hd : dateShapeOK de = true) (ht : timeWholeOK te = true) :
    altOfTP m (ctorDur m (argsOf cfg de te zone v)) =
      match mkTZ m (zone.hour.getD 0) (zone.minute.getD 0) with
      | none => .err
      | some _ => if hasGroup de .weekOfYear then .err else .ok (durOfVals de te v) := by
  have hd := dateShape_cases de hd
  have ht := timeWhole_cases te ht
  simp only [datePattern, timePattern, Prod.mk.injEq] at hd ht
  cases hz : mkTZ m (zone.hour.getD 0) (zone.minute.getD 0) with
  | none => simp [ctorDur, argsOf, altOfTP, hz]
  | some tz =>
    rcases ht with ⟨t1, t2, t3, t4, t5, t6⟩ | ⟨t1, t2, t3, t4, t5, t6⟩ | ⟨t1, t2, t3, t4, t5, t6⟩ |
      ⟨t1, t2, t3, t4, t5, t6⟩ <;>
    rcases hd with ⟨d1, d2, d3, d4, d5⟩ | ⟨d1, d2, d3, d4, d5⟩ | ⟨d1, d2, d3, d4, d5⟩ | ⟨d1, d2, d3, d4, d5⟩ |
      ⟨d1, d2, d3, d4, d5⟩ | ⟨d1, d2, d3, d4, d5⟩ <;>
    simp [ctorDur, argsOf, altOfTP, durOf, durOfVals, monthOf, daysOf, hourOf, minuteOf, secondOf, fieldOf, decOf,
      decOk, truthy, IsoDT.Lemmas.DurText.mkDur_units, hz, t1, t2, t3, t4, t5, t6, d1, d2, d3, d4, d5]

/-- Does `TimeZone(...)` accept the zone the text spells?  No zone, `Z`, `±hh`: always; `±hhmm` /
    `±hh:mm`: iff the minutes are below 60. -/
def zoneAccepted (zo : Option ZEntry) (v : Vals) : Bool :=
  match zo with
  | none => true
  | some ze => hasGroup ze.tmpl .tzUtc || !hasGroup ze.tmpl .tzMinute || decide (v.tzMinute < 60)

theorem mkTZ_zero (m : Mode) : mkTZ m 0 0 = some ⟨0, 0⟩ := by
  unfold mkTZ
  rw [IsoDT.Lemmas.minutesInHour_eq]
  simp

theorem mkTZ_zo (m : Mode) (zo : Option ZEntry) (v : Vals) (hH : v.tzHour < 100) :
    (mkTZ m ((zoneOf (.assumed 0 0) (zo.map (·.tmpl)) v).hour.getD 0)
      ((zoneOf (.assumed 0 0) (zo.map (·.tmpl)) v).minute.getD 0)).isSome = zoneAccepted zo v := by
  cases zo with
  | none => simp [zoneOf, zoneAccepted, mkTZ_zero]
  | some ze =>
    simp only [Option.map_some, zoneAccepted]
    rw [mkTZ_zoneOf m _ ze.tmpl v hH]
    cases hasGroup ze.tmpl .tzUtc <;> cases hasGroup ze.tmpl .tzMinute <;>
      by_cases h60 : v.tzMinute < 60 <;> simp [h60]

theorem timeWhole_of (te : Template) (ht : timeShapeOK te = true)
    (hnd : hasGroup te .hourDec = false ∧ hasGroup te .minuteDec = false ∧ hasGroup te .secondDec = false) :
    timeWholeOK te = true := by
  have ht := timeShape_cases te ht
  obtain ⟨h1, h2, h3⟩ := hnd
  simp only [timePattern, h1, h2, h3, Prod.mk.injEq] at ht
  simp only [timeWholeOK, timePattern, h1, h2, h3]
  rcases ht with ⟨t1, t2, t3, _⟩ | ⟨t1, t2, t3, _⟩ | ⟨t1, t2, t3, _⟩ | ⟨t1, t2, t3, _⟩ | ⟨_, _, _, h, _⟩ |
    ⟨_, _, _, _, h, _⟩ | ⟨_, _, _, _, _, h⟩ <;> first | (rw [t1, t2, t3]; decide) | cases h

/-- **The fallback on `date T time zone`**: every complete date form × every time form without a
    fraction × every zone form (or none) of the table, all values that fit the group widths — in
    particular month 00..99, day 00..99, ordinal day 000..999, hour 00..99, minute / second 00..99: the
    result is the duration with exactly the spelled components (`durOfVals`), whatever the zone says;
    an error exactly when the date is a week date or the zone minutes are 60 or more. -/
theorem parseAltDur_rendered (m : Mode)
    (de : Entry) (hde : de ∈ parser_2_all.dateEntries) (hdc : de.typ = .complete)
    (te : Entry) (hte : te ∈ parser_2_all.timeEntries) (htt : te.typ ≠ .truncated) (htf : te.fmt = de.fmt)
    (hnd : hasGroup te.tmpl .hourDec = false ∧ hasGroup te.tmpl .minuteDec = false ∧
      hasGroup te.tmpl .secondDec = false)
    (zo : Option ZEntry) (hzo : ∀ ze, zo = some ze → ze ∈ parser_2_all.zoneEntries ∧ ze.fmt = de.fmt)
    (v : Vals) (hv : v.Fit 2) :
    parseAltDur m (trender de.tmpl (envOf de.tmpl v) ++
        'T' :: (trender te.tmpl (envOf te.tmpl v) ++ zoneText zo v)) =
      if zoneAccepted zo v = true ∧ hasGroup de.tmpl .weekOfYear = false then
        .ok (durOfVals de.tmpl te.tmpl v)
      else .err := by
  have df := decodeFacts (altCfg m).pt (altCfg_mem m)
  obtain ⟨_, _, hds⟩ := df.dates de hde (by rw [hdc]; decide)
  obtain ⟨_, hts⟩ := df.times te hte htt
  unfold parseAltDur
  rw [parseAltTP_rendered m de hde hdc te hte htt htf zo hzo v hv,
    durOf_ctorDur m (altCfg m) de.tmpl te.tmpl _ v hds (timeWhole_of _ hts hnd)]
  have hz := mkTZ_zo m zo v hv.2.2.2.2.2.2.2.2.2.2.2.1
  cases hm : mkTZ m ((zoneOf (.assumed 0 0) (zo.map (·.tmpl)) v).hour.getD 0)
      ((zoneOf (.assumed 0 0) (zo.map (·.tmpl)) v).minute.getD 0) with
  | none => rw [hm] at hz; simp [← hz]
  | some tz =>
    rw [hm] at hz
    cases hw : hasGroup de.tmpl .weekOfYear <;> simp [← hz]

/-- **The fallback on a date alone**: every complete or reduced date form of the table (`CC`, `CCYY`,
    `CCYY-MM`, `CCYYMMDD`, `CCYY-MM-DD`, `CCYYDDD`, `CCYY-DDD`, their signed variants with two expanded
    digits, and the week forms, which are refused). -/
theorem parseAltDur_date (m : Mode) (de : Entry)
    (hmem : de ∈ dateOrder parser_2_all (dateTypes false [])) (v : Vals) (hv : v.Fit 2) :
    parseAltDur m (trender de.tmpl (envOf de.tmpl v)) =
      if hasGroup de.tmpl .weekOfYear = false then .ok (durOfVals de.tmpl [] v) else .err := by
  have df := decodeFacts (altCfg m).pt (altCfg_mem m)
  have hde := dateOrder_sub _ _ de hmem
  have hnt : de.typ ≠ .truncated := by
    have : de.typ ∈ dateTypes false [] := by
      unfold dateOrder at hmem
      simp only [List.mem_flatMap, List.mem_filter, Bool.and_eq_true, decide_eq_true_eq] at hmem
      obtain ⟨_, _, t, ht, _, _, h⟩ := hmem
      exact h ▸ ht
    intro h
    rw [h] at this
    revert this
    decide
  obtain ⟨_, _, hds⟩ := df.dates de hde hnt
  unfold parseAltDur
  rw [parseAltTP_date m de hmem v hv, durOf_ctorDur m (altCfg m) de.tmpl [] _ v hds (by decide)]
  simp only [Option.getD_some, mkTZ_zero]
  cases hasGroup de.tmpl .weekOfYear <;> simp

/-! ## Reaching the fallback: the designator regexes do not match -/

section Regex
open IsoDT.Model.DurText IsoDT.Lemmas.DurText

/-- `DURATION_REGEXES[0]` needs designator letters: a text whose first non-digit is none of `Y`, `M`,
    `D` and that is not empty (or a lone newline) is not matched. -/
theorem search0_none (s : List Char) (hY : fnd s ≠ some 'Y') (hM : fnd s ≠ some 'M') (hD : fnd s ≠ some 'D')
    (hE : DurText.atEnd s = false) : durRegex0.search ('P' :: s) = none := by
  rw [search_eq]
  unfold durRegex0
  rw [run_seq, run_lit, run_seq, opt_skip _ _ _ _ (run_digUnit_none .years 'Y' (by decide) s _ _ hY),
    run_seq, opt_skip _ _ _ _ (run_digUnit_none .months 'M' (by decide) s _ _ hM),
    opt_skip _ _ _ _ (run_digUnit_none .days 'D' (by decide) s _ _ hD)]
  simp [kEnd, hE]

/-- `DURATION_REGEXES[2]` is `^P\d+W$`: after the digits and the `W` the text must end. -/
theorem search2_none' (s : List Char)
    (h : fnd s ≠ some 'W' ∨ ∃ ds rest, s = ds ++ 'W' :: rest ∧ Digs ds ∧ ds ≠ [] ∧ DurText.atEnd rest = false) :
    durRegex2.search ('P' :: s) = none := by
  rcases h with h | ⟨ds, rest, rfl, hd, hne, hE⟩
  · exact search2_none s h
  · rw [search_eq]
    unfold durRegex2
    rw [run_seq, run_lit, run_digUnit .weeks 'W' (by decide) ds rest capEmpty kEnd hd hne]
    simp [kEnd, hE]

/-- **No designator regex matches** a text `P…` whose first non-digit character is none of the
    designator letters, that does not start with `T` and is not empty. -/
theorem firstMatch_alt_none (s : List Char)
    (hY : fnd s ≠ some 'Y') (hM : fnd s ≠ some 'M') (hD : fnd s ≠ some 'D')
    (hW : fnd s ≠ some 'W' ∨ ∃ ds rest, s = ds ++ 'W' :: rest ∧ Digs ds ∧ ds ≠ [] ∧ DurText.atEnd rest = false)
    (hT : ∀ t, s ≠ 'T' :: t) (hE : DurText.atEnd s = false) :
    DurText.firstMatch durRegexes ('P' :: s) = none := by
  simp only [durRegexes, DurText.firstMatch, search0_none s hY hM hD hE, search1_none s hY hM hD hT,
    search2_none' s hW]

/-- The usual case: the first non-digit character (if any) is `-`, `+` or `T`. -/
theorem firstMatch_alt_none' (s : List Char)
    (hf : fnd s = none ∨ fnd s = some '-' ∨ fnd s = some '+' ∨ fnd s = some 'T')
    (hT : ∀ t, s ≠ 'T' :: t) (hE : DurText.atEnd s = false) :
    DurText.firstMatch durRegexes ('P' :: s) = none := by
  apply firstMatch_alt_none s _ _ _ (Or.inl _) hT hE <;>
    rcases hf with hf | hf | hf | hf <;> rw [hf] <;> decide

/-- No designator regex matches a text that does not start with `P`. -/
theorem firstMatch_not_P (c : Char) (s : List Char) (hc : c ≠ 'P') :
    DurText.firstMatch durRegexes (c :: s) = none := by
  have h0 : durRegex0.search (c :: s) = none := by
    rw [search_eq]; unfold durRegex0; rw [run_seq, run_lit_ne _ _ _ _ _ hc]
  have h1 : durRegex1.search (c :: s) = none := by
    rw [search_eq]; unfold durRegex1; rw [run_seq, run_lit_ne _ _ _ _ _ hc]
  have h2 : durRegex2.search (c :: s) = none := by
    rw [search_eq]; unfold durRegex2; rw [run_seq, run_lit_ne _ _ _ _ _ hc]
  simp only [durRegexes, DurText.firstMatch, h0, h1, h2]

theorem parseA_pos (m : Mode) (t : List Char) (h : ∀ c ∈ t, c.toNat < 128) :
    parseA m ('P' :: t) = parseBodyA m 1 ('P' :: t) := by
  unfold parseA
  rw [any_ge128_false _ (ascii_cons (by decide) h)]
  rfl

theorem parseA_neg (m : Mode) (s : List Char) (h : ∀ c ∈ s, c.toNat < 128) :
    parseA m ('-' :: s) = parseBodyA m (-1) s := by
  unfold parseA
  rw [any_ge128_false _ (ascii_cons (by decide) h)]
  rfl

/-- **The fallback is reached**: `DurationParser.parse("P" + s)` is the fallback on `s` when no
    designator regex matches. -/
theorem parseA_alt (m : Mode) (s : List Char) (hasc : ∀ c ∈ s, c.toNat < 128)
    (hnone : DurText.firstMatch durRegexes ('P' :: s) = none) :
    parseA m ('P' :: s) = (parseAltDur m s).toAR := by
  rw [parseA_pos m s hasc]
  simp [parseBodyA, hnone]

/-- **Sign rule, minus**: with a leading `-` the fallback is skipped — whatever follows the `P`. -/
theorem parseA_minus_alt (m : Mode) (s : List Char) (hasc : ∀ c ∈ s, c.toNat < 128)
    (hnone : DurText.firstMatch durRegexes ('P' :: s) = none) :
    parseA m ('-' :: 'P' :: s) = .err := by
  rw [parseA_neg m _ (ascii_cons (by decide) hasc)]
  simp [parseBodyA, hnone]

/-- **Sign rule, plus**: a leading `+` is never accepted (no regex and not the fallback: the text does
    not start with `P`). -/
theorem parseA_plus (m : Mode) (s : List Char) (hasc : ∀ c ∈ s, c.toNat < 128) :
    parseA m ('+' :: s) = .err := by
  unfold parseA
  rw [any_ge128_false _ (ascii_cons (by decide) hasc)]
  simp [parseBodyA, firstMatch_not_P '+' s (by decide)]

/-- A doubled minus, or a minus after the `P`… : `--P1Y` is refused as well. -/
theorem parseA_minus_not_P (m : Mode) (c : Char) (s : List Char) (hc : c ≠ 'P')
    (hasc : ∀ x ∈ c :: s, x.toNat < 128) : parseA m ('-' :: c :: s) = .err := by
  rw [parseA_neg m _ hasc]
  simp only [parseBodyA, firstMatch_not_P c s hc]
  split <;> simp

/-! ## `parseA` on designator texts: as `DurText.parse` -/

/-- Where a designator regex matches, `parseA` is `DurText.parse`. -/
theorem parseBodyA_of_match (m : Mode) (sg : Int) (e : List Char)
    (h : (DurText.firstMatch durRegexes e).isSome = true) :
    parseBodyA m sg e = AR.ofPR (parseBody m sg e) := by
  unfold parseBodyA parseBody
  cases hf : DurText.firstMatch durRegexes e with
  | none => rw [hf] at h; cases h
  | some x =>
    obtain ⟨gs, cp⟩ := x
    simp only
    cases hc : DurText.convert sg cp gs Fields.zero with
    | ok f => rfl
    | error r => rfl

theorem firstMatch_desig (fy fmo fd : Option (List Char)) (ft : Option TimeF)
    (hy : GoodF fy) (hmo : GoodF fmo) (hd : GoodF fd) (ht : GoodT ft) :
    (DurText.firstMatch durRegexes (desig fy fmo fd ft)).isSome = true := by
  cases ft with
  | none => simp [durRegexes, DurText.firstMatch, search0_date fy fmo fd hy hmo hd]
  | some t =>
    obtain ⟨fh, fmi, fs⟩ := t
    obtain ⟨hh, hmi, hs⟩ := ht
    simp [durRegexes, DurText.firstMatch, search0_time_none fy fmo fd (fh, fmi, fs),
      search1_time fy fmo fd fh fmi fs hy hmo hd hh hmi hs]

theorem firstMatch_desigW (ds : List Char) (h : Digs ds) (hne : ds ≠ []) :
    (DurText.firstMatch durRegexes (desigW ds)).isSome = true := by
  unfold desigW
  cases h0 : durRegex0.search ('P' :: (ds ++ ['W'])) <;> cases h1 : durRegex1.search ('P' :: (ds ++ ['W'])) <;>
    simp [durRegexes, DurText.firstMatch, h0, h1, search2_weeks ds h hne]

/-- **`str()` output through `parseA`**: for every single-signed duration with binary64-exact time
    units, `parseA (str d)` is what `DurText.parse` gives (`C10_roundtrip`): `normal d`. -/
theorem parseA_str (m : Mode) (d : Dur) (hs : IsoDT.Props.C10.SingleSigned d) (hx : IsoDT.Props.C10.TimeExact d) :
    parseA m (toText d) = .ok (IsoDT.Props.C10.normal d) := by
  have hrt := (IsoDT.Props.C10.C10_roundtrip m d hs hx).1
  have key : ∀ t : List Char, toText d = t →
      ((∃ r, t = 'P' :: r ∧ (DurText.firstMatch durRegexes t).isSome = true) ∨
       (∃ e, t = '-' :: e ∧ (DurText.firstMatch durRegexes e).isSome = true)) →
      parseA m (toText d) = .ok (IsoDT.Props.C10.normal d) := by
    intro t ht hm
    rw [ht] at hrt ⊢
    rcases hm with ⟨r, rfl, hm⟩ | ⟨e, rfl, hm⟩
    · unfold parseA
      unfold DurText.parse at hrt
      split
      · rename_i hna; rw [if_pos hna] at hrt; cases hrt
      · rename_i hna
        rw [if_neg hna] at hrt
        show parseBodyA m 1 ('P' :: r) = _
        rw [parseBodyA_of_match m 1 _ hm]
        have : parseBody m 1 ('P' :: r) = .ok (IsoDT.Props.C10.normal d) := hrt
        rw [this]; rfl
    · unfold parseA
      unfold DurText.parse at hrt
      split
      · rename_i hna; rw [if_pos hna] at hrt; cases hrt
      · rename_i hna
        rw [if_neg hna] at hrt
        show parseBodyA m (-1) e = _
        rw [parseBodyA_of_match m (-1) _ hm]
        have : parseBody m (-1) e = .ok (IsoDT.Props.C10.normal d) := hrt
        rw [this]; rfl
  by_cases hnz : d.nonzero = true
  · cases d with
    | weeks w =>
      have hw : w ≠ 0 := by simpa [Dur.nonzero] using hnz
      by_cases hpos : 0 < w
      · exact key (desigW (DurText.natDigits w.natAbs)) (toText_weeks_pos w hpos)
          (Or.inl ⟨_, rfl, firstMatch_desigW _ (natDigits_digs _) (natDigits_ne_nil _)⟩)
      · exact key ('-' :: desigW (DurText.natDigits w.natAbs)) (toText_weeks_neg w (by omega))
          (Or.inr ⟨_, rfl, firstMatch_desigW _ (natDigits_digs _) (natDigits_ne_nil _)⟩)
    | units y mo dd h mi s =>
      rcases hs with ⟨a1, a2, a3, a4, a5, a6⟩ | ⟨a1, a2, a3, a4, a5, a6⟩
      · exact key (desig (ofv y) (ofv mo) (ofv dd) (tOf h mi s)) (toText_units_pos y mo dd h mi s a1 a2 a3 a4 a5 a6 hnz)
          (Or.inl ⟨_, rfl, firstMatch_desig _ _ _ _ (ofv_good y) (ofv_good mo) (ofv_good dd) (tOf_good h mi s)⟩)
      · exact key ('-' :: desig (ofv (-y)) (ofv (-mo)) (ofv (-dd)) (tOf (-h) (-mi) (-s))) (toText_units_neg y mo dd h mi s a1 a2 a3 a4 a5 a6 hnz)
          (Or.inr ⟨_, rfl, firstMatch_desig _ _ _ _ (ofv_good _) (ofv_good _) (ofv_good _) (tOf_good _ _ _)⟩)
  · have hz : d.nonzero = false := by simpa using hnz
    have g : GoodF (some ['0']) := GoodF.some (Digs.cons (by decide) Digs.nil) (by simp)
    exact key ['P', '0', 'Y'] (toText_zero d hz)
      (Or.inl ⟨_, rfl, firstMatch_desig (some ['0']) none none none g GoodF.none GoodF.none trivial⟩)

/-! ## Concrete shapes: digits, ASCII, first non-digit -/

theorem renderW_eq (w v : Nat) : renderW w v = renderNat w v := by
  induction w with
  | zero => rfl
  | succ w ih => simp only [renderW, renderNat, ih, dch]

theorem digs_renderNat (w v : Nat) : Digs (renderNat w v) :=
  fun c hc => List.all_eq_true.mp (renderNat_digits w v) c hc

theorem renderNat_mod (w v : Nat) : renderNat w (v % 10 ^ w) = renderNat w v := by
  induction w generalizing v with
  | zero => rfl
  | succ w ih =>
    simp only [renderNat]
    have h1 : v % 10 ^ (w + 1) / 10 ^ w % 10 = v / 10 ^ w % 10 := by
      rw [Nat.pow_succ, Nat.mod_mul_right_div_self, Nat.mod_mod]
    have h2 : renderNat w (v % 10 ^ (w + 1)) = renderNat w v := by
      rw [← ih v, ← ih (v % 10 ^ (w + 1)), Nat.pow_succ, Nat.mod_mul_right_mod]
    rw [h1, h2]

/-- `CC` then `YY` is the four-digit year. -/
theorem render_year (y : Nat) : renderNat 2 (y / 100) ++ renderNat 2 (y % 100) = renderNat 4 y := by
  rw [renderNat_split 2 2 y, show (10 : Nat) ^ 2 = 100 from rfl]
  congr 1
  exact renderNat_mod 2 y

theorem fnd_digs (ds : List Char) (h : Digs ds) : fnd ds = none := by
  have := fnd_digs_append ds [] h
  simpa [fnd] using this

theorem fnd_digs_cons (ds : List Char) (c : Char) (t : List Char) (h : Digs ds) (hc : isDig c = false) :
    fnd (ds ++ c :: t) = some c := by
  rw [fnd_digs_append ds _ h, fnd_cons_nondig c t hc]

theorem renderNat_succ_ne_T (w v : Nat) (r t : List Char) : renderNat (w + 1) v ++ r ≠ 'T' :: t :=
  head_of_len_pos _ _ (digs_renderNat _ _) (by rw [renderNat_length]; omega) t

theorem atEnd_long (a b : Char) (r : List Char) : DurText.atEnd (a :: b :: r) = false := rfl

theorem atEnd_render (w v : Nat) (r : List Char) : DurText.atEnd (renderNat (w + 2) v ++ r) = false := by
  simp [renderNat, atEnd_long]

/-- **An alternative text through `DurationParser.parse`**: a text that starts with at least two digits
    followed by nothing, `-` or `T` reaches the fallback; with a leading `-` it is refused (the fallback is
    skipped), with a leading `+` as well. -/
theorem parseA_of_alt (m : Mode) (ds tl : List Char) (r : AltR) (hd : Digs ds) (hl : 2 ≤ ds.length)
    (htl : tl = [] ∨ ∃ c t, tl = c :: t ∧ (c = '-' ∨ c = 'T'))
    (hasc : ∀ c ∈ tl, c.toNat < 128) (h : parseAltDur m (ds ++ tl) = r) :
    parseA m ('P' :: (ds ++ tl)) = r.toAR ∧ parseA m ('-' :: 'P' :: (ds ++ tl)) = .err ∧
      parseA m ('+' :: 'P' :: (ds ++ tl)) = .err := by
  have hasc' : ∀ c ∈ ds ++ tl, c.toNat < 128 := ascii_append (ascii_digs hd) hasc
  have hT : ∀ t, ds ++ tl ≠ 'T' :: t := head_of_len_pos ds tl hd (by omega)
  have hE : DurText.atEnd (ds ++ tl) = false := by
    match ds, hl with
    | a :: b :: r, _ => rfl
  have hf : fnd (ds ++ tl) = none ∨ fnd (ds ++ tl) = some '-' ∨ fnd (ds ++ tl) = some '+' ∨
      fnd (ds ++ tl) = some 'T' := by
    rcases htl with rfl | ⟨c, t, rfl, rfl | rfl⟩
    · left; rw [List.append_nil]; exact fnd_digs ds hd
    · right; left; exact fnd_digs_cons ds '-' t hd (by decide)
    · right; right; right; exact fnd_digs_cons ds 'T' t hd (by decide)
  have hnone := firstMatch_alt_none' (ds ++ tl) hf hT hE
  refine ⟨?_, parseA_minus_alt m _ hasc' hnone, parseA_plus m _ (ascii_cons (by decide) hasc')⟩
  rw [parseA_alt m _ hasc' hnone, h]

/-- Likewise for a text that starts with the sign of an expanded year (`P+000004-03`, `P-000004`). -/
theorem parseA_of_alt_signed (m : Mode) (sg : Char) (rest : List Char) (r : AltR) (hsg : sg = '+' ∨ sg = '-')
    (hne : rest ≠ []) (hasc : ∀ c ∈ rest, c.toNat < 128) (h : parseAltDur m (sg :: rest) = r) :
    parseA m ('P' :: sg :: rest) = r.toAR ∧ parseA m ('-' :: 'P' :: sg :: rest) = .err ∧
      parseA m ('+' :: 'P' :: sg :: rest) = .err := by
  have hasc' : ∀ c ∈ sg :: rest, c.toNat < 128 :=
    ascii_cons (by rcases hsg with rfl | rfl <;> decide) hasc
  have hT : ∀ t, sg :: rest ≠ 'T' :: t := by
    intro t e; injection e with e _; rcases hsg with rfl | rfl <;> exact absurd e (by decide)
  have hE : DurText.atEnd (sg :: rest) = false := by
    match rest, hne with
    | a :: r, _ => rfl
  have hf : fnd (sg :: rest) = none ∨ fnd (sg :: rest) = some '-' ∨ fnd (sg :: rest) = some '+' ∨
      fnd (sg :: rest) = some 'T' := by
    rcases hsg with rfl | rfl
    · right; right; left; exact fnd_cons_nondig '+' rest (by decide)
    · right; left; exact fnd_cons_nondig '-' rest (by decide)
  have hnone := firstMatch_alt_none' (sg :: rest) hf hT hE
  refine ⟨?_, parseA_minus_alt m _ hasc' hnone, parseA_plus m _ (ascii_cons (by decide) hasc')⟩
  rw [parseA_alt m _ hasc' hnone, h]

/-- Likewise for a basic week form `YYYYWww…`: the first non-digit is a `W`, but the text does not end
    after it, so `^P\d+W$` does not match either. -/
theorem parseA_of_alt_W (m : Mode) (ds X : List Char) (w : Nat) (r : AltR) (hd : Digs ds) (hl : 2 ≤ ds.length)
    (hasc : ∀ c ∈ X, c.toNat < 128) (h : parseAltDur m (ds ++ 'W' :: (renderNat 2 w ++ X)) = r) :
    parseA m ('P' :: (ds ++ 'W' :: (renderNat 2 w ++ X))) = r.toAR ∧
      parseA m ('-' :: 'P' :: (ds ++ 'W' :: (renderNat 2 w ++ X))) = .err := by
  have hasc' : ∀ c ∈ ds ++ 'W' :: (renderNat 2 w ++ X), c.toNat < 128 :=
    ascii_append (ascii_digs hd) (ascii_cons (by decide) (ascii_append (ascii_digs (digs_renderNat 2 w)) hasc))
  have hT : ∀ t, ds ++ 'W' :: (renderNat 2 w ++ X) ≠ 'T' :: t := head_of_len_pos ds _ hd (by omega)
  have hE : DurText.atEnd (ds ++ 'W' :: (renderNat 2 w ++ X)) = false := by
    match ds, hl with
    | a :: b :: r, _ => rfl
  have hf : fnd (ds ++ 'W' :: (renderNat 2 w ++ X)) = some 'W' := fnd_digs_cons ds 'W' _ hd (by decide)
  have hne : ds ≠ [] := by intro e; rw [e] at hl; simp at hl
  have hnone := firstMatch_alt_none _ (by rw [hf]; decide) (by rw [hf]; decide) (by rw [hf]; decide)
    (Or.inr ⟨ds, _, rfl, hd, hne, atEnd_render 0 w X⟩) hT hE
  refine ⟨?_, parseA_minus_alt m _ hasc' hnone⟩
  rw [parseA_alt m _ hasc' hnone, h]

end Regex

/-! ## Texts no listed date form matches -/

theorem dateOrder_mono (pt : ParserTables) (t1 t2 : List TypeKey) (h : ∀ t ∈ t1, t ∈ t2) (e : Entry)
    (he : e ∈ dateOrder pt t1) : e ∈ dateOrder pt t2 := by
  unfold dateOrder at he ⊢
  simp only [List.mem_flatMap, List.mem_filter] at he ⊢
  obtain ⟨f, hf, t, ht, hmem⟩ := he
  exact ⟨f, hf, t, h t ht, hmem⟩

/-- A date text that no listed complete or reduced date form matches is refused — alone, and in front of
    a `T` and anything (truncated forms are never tried: `allow_truncated=False`). -/
theorem parseAltDur_refused_date (m : Mode) (date : List Char) (hT : timeDesignator ∉ date)
    (h : ∀ e ∈ dateOrder parser_2_all (dateTypes false []), tmatch e.tmpl date = none) :
    parseAltDur m date = .err ∧
      ∀ tail, timeDesignator ∉ tail → parseAltDur m (date ++ 'T' :: tail) = .err := by
  constructor
  · unfold parseAltDur
    rw [parseAltTP_eq]
    have : getInfo (altCfg m) date = none := by
      unfold getInfo
      rw [splitOnChar_none _ _ hT]
      have hn : firstMatch (dateOrder (altCfg m).pt (dateTypes (altCfg m).allowTruncated [])) date = none :=
        firstMatch_none _ _ h
      simp only [getDateInfo, hn]
    rw [this]; rfl
  · intro tail htail
    unfold parseAltDur
    rw [parseAltTP_eq]
    have : getInfo (altCfg m) (date ++ 'T' :: tail) = none := by
      unfold getInfo
      rw [show ('T' : Char) = timeDesignator from rfl, splitOnChar_one _ _ _ hT htail]
      have hg : getDateInfo (altCfg m) date [.reduced] = none := by
        unfold getDateInfo
        apply firstMatch_none
        intro e he
        have he' : e ∈ dateOrder parser_2_all (dateTypes false [.reduced]) := he
        exact h e (dateOrder_mono _ _ _ (by decide) e he')
      have ha : (altCfg m).allowTruncated = false := rfl
      simp only [ha, Bool.and_false, hg, Bool.false_eq_true, if_false]
    rw [this]; rfl

/-- The decidable check on a template `T`: no listed complete or reduced date form can match a text that
    `T` matches. -/
def refusedShape (T : Template) : Bool :=
  wf T && noT T && (dateOrder parser_2_all (dateTypes false [])).all (fun e => shapeDisjoint e.tmpl T)

/-- **Refused shapes**: every text spelled by a template that passes `refusedShape` (digit groups
    filled with any digits) is refused by the fallback, alone and in front of `T…`. -/
theorem parseAltDur_refused_shape (m : Mode) (T : Template) (hs : refusedShape T = true) (env : Env)
    (hf : fits T env = true) :
    parseAltDur m (trender T env) = .err ∧
      ∀ tail, timeDesignator ∉ tail → parseAltDur m (trender T env ++ 'T' :: tail) = .err := by
  simp only [refusedShape, Bool.and_eq_true, List.all_eq_true] at hs
  obtain ⟨⟨hw, hn⟩, hdis⟩ := hs
  have tf := tableFacts (altCfg m).pt (altCfg_mem m)
  apply parseAltDur_refused_date m _ (no_designator T hn env hf)
  intro e he
  exact shapeDisjoint_sound e.tmpl T (tf.dates e (dateOrder_sub _ _ e he)).1 hw (hdis e he) _ env
    (tmatch_trender T env hf)

end IsoDT.Model.DurTextAlt
