/-
  IsoDT.Lemmas.TextCustomExpr — `_get_expression_and_properties` on every complete custom format:
  the printf expression, the property list and the custom time zone (`getExpr_custom`).  The date and
  time tokens and the placeholder zones are concrete and evaluated over the regenerated rule tables by
  the kernel; the literal zone is symbolic (`Lemmas/TextCustomZone`).
-/
import IsoDT.Lemmas.TextCustomZone

namespace IsoDT.Text.Custom
open IsoDT IsoDT.Model IsoDT.Lemmas IsoDT.Text
open IsoDT.Spec (Date TZ TP)
open _root_.IsoDT.Gen.Templates (timeDesignator dumper_0 dumper_2 dumper_3 dumpTables parserTables)

/-! ## The compiled pieces -/

def yearSegsC (x : Bool) (ned : Nat) : List Seg :=
  if x then [.dir (.str .yearSign), .dir (.int .expandedYearDigits ned), .dir (.int .century 2),
             .dir (.int .yearOfCentury 2)]
  else [.dir (.int .century 2), .dir (.int .yearOfCentury 2)]

def bodySegs : Bool → DateKind → List Seg
  | true, .cal => [.raw '-', .dir (.int .monthOfYear 2), .raw '-', .dir (.int .dayOfMonth 2)]
  | true, .ord => [.raw '-', .dir (.int .dayOfYear 3)]
  | true, .week => [.raw '-', .raw 'W', .dir (.int .weekOfYear 2), .raw '-', .dir (.int .dayOfWeek 1)]
  | false, .cal => [.dir (.int .monthOfYear 2), .dir (.int .dayOfMonth 2)]
  | false, .ord => [.dir (.int .dayOfYear 3)]
  | false, .week => [.raw 'W', .dir (.int .weekOfYear 2), .dir (.int .dayOfWeek 1)]

def kindProps : DateKind → List DProp
  | .cal => [.monthOfYear, .dayOfMonth]
  | .ord => [.dayOfYear]
  | .week => [.weekOfYear, .dayOfWeek]

def datePropsC (x : Bool) (k : DateKind) : List DProp :=
  (if x then [.yearSign] else []) ++ [.century, .yearOfCentury] ++ kindProps k ++
    (if x then [.expandedYearDigits] else [])

def clockSegs (ext : Bool) : List Seg :=
  if ext then
    [.dir (.int .hourOfDay 2), .raw ':', .dir (.int .minuteOfHour 2), .raw ':', .dir (.int .secondOfMinute 2)]
  else [.dir (.int .hourOfDay 2), .dir (.int .minuteOfHour 2), .dir (.int .secondOfMinute 2)]

def fracSegs : Frac → List Seg
  | .none => []
  | .comma => [.raw ',', .dir (.str .secondDecStr)]
  | .point => [.raw '.', .dir (.str .secondDecStr)]

def timePropsC : Frac → List DProp
  | .none => [.minuteOfHour, .hourOfDay, .secondOfMinute]
  | _ => [.minuteOfHour, .hourOfDay, .secondOfMinute, .secondDecStr]

def zoneSegsC (ext : Bool) : ZSpec → List Seg
  | .utc => [.raw 'Z']
  | .own .hm =>
    if ext then [.dir (.str .tzSign), .dir (.int .tzHourAbs 2), .raw ':', .dir (.int .tzMinuteAbs 2)]
    else [.dir (.str .tzSign), .dir (.int .tzHourAbs 2), .dir (.int .tzMinuteAbs 2)]
  | .own .h => [.dir (.str .tzSign), .dir (.int .tzHourAbs 2)]
  | .lit s z => litSegs (zsign z) (zoneDigits ext s z)

def zonePropsC : ZSpec → List DProp
  | .utc => []
  | .own .hm => [.tzMinuteAbs, .tzHourAbs, .tzSign]
  | .own .h => [.tzHourAbs, .tzSign]
  | .lit _ z => litProps (zsign z)

def customC : ZSpec → Option (Int × Int)
  | .utc => some (0, 0)
  | .own _ => none
  | .lit _ z => some (z.h, z.mi)

/-- The compiled format: what `_get_expression_and_properties` returns. -/
def CFmt.expr (f : CFmt) (ned : Nat) : Expr :=
  { segs := (yearSegsC f.expanded ned ++ bodySegs f.ext f.kind) ++
      Seg.raw 'T' :: ((clockSegs f.ext ++ fracSegs f.frac) ++ zoneSegsC f.ext f.zone)
    props := datePropsC f.expanded f.kind ++ (timePropsC f.frac ++ zonePropsC f.zone)
    customTZ := customC f.zone }

/-! ## The concrete tables on the concrete tokens -/

theorem compile_dateFmt_all : ∀ dt ∈ dumpTables, ∀ x ∈ [true, false], ∀ e ∈ [true, false],
    ∀ k ∈ [DateKind.cal, .ord, .week],
    compile dt.date ((yearFmt x ++ bodyFmt e k).map Seg.raw) =
      (yearSegsC x dt.ned ++ bodySegs e k, datePropsC x k) := by decide +kernel

theorem compile_dateFmt (dt : DumpTables) (hdt : dt ∈ dumpTables) (x e : Bool) (k : DateKind) :
    compile dt.date ((yearFmt x ++ bodyFmt e k).map Seg.raw) =
      (yearSegsC x dt.ned ++ bodySegs e k, datePropsC x k) :=
  compile_dateFmt_all dt hdt x (by cases x <;> simp) e (by cases e <;> simp) k (by cases k <;> simp)

theorem compile_timeFmt_all : ∀ dt ∈ dumpTables, ∀ e ∈ [true, false], ∀ fr ∈ [Frac.none, .comma, .point],
    compile dt.time ((clockFmt e ++ fracFmt fr).map Seg.raw) =
      (clockSegs e ++ fracSegs fr, timePropsC fr) := by decide +kernel

theorem compile_timeFmt (dt : DumpTables) (hdt : dt ∈ dumpTables) (e : Bool) (fr : Frac) :
    compile dt.time ((clockFmt e ++ fracFmt fr).map Seg.raw) = (clockSegs e ++ fracSegs fr, timePropsC fr) :=
  compile_timeFmt_all dt hdt e (by cases e <;> simp) fr (by cases fr <;> simp)

/-- The text after the `T` with `Z` or a placeholder zone. -/
theorem timeZonePart_sym_all : ∀ dt ∈ dumpTables, ∀ e ∈ [true, false], ∀ fr ∈ [Frac.none, .comma, .point],
    ∀ zs ∈ [ZSpec.utc, .own .hm, .own .h],
    timeZonePart dt ((clockFmt e ++ fracFmt fr) ++ zs.fmt e) =
      some ((clockSegs e ++ fracSegs fr) ++ zoneSegsC e zs, timePropsC fr ++ zonePropsC zs, customC zs) := by
  decide +kernel

theorem timeFmt_cons (e : Bool) (fr : Frac) : ∃ T, clockFmt e ++ fracFmt fr = 'h' :: T := by
  cases e <;> exact ⟨_, rfl⟩

theorem timeFmt_plain (e : Bool) (fr : Frac) : ∀ c ∈ clockFmt e ++ fracFmt fr, Plain c := by
  cases e <;> cases fr <;> decide

/-- The text after the `T`, for every zone expression of the class. -/
theorem timeZonePart_custom (dt : DumpTables) (hdt : dt ∈ dumpTables) (e : Bool) (fr : Frac) (zs : ZSpec)
    (hz : match zs with | .lit s z => z.Valid ∧ (s = .h → z.mi = 0) | _ => True) :
    timeZonePart dt ((clockFmt e ++ fracFmt fr) ++ zs.fmt e) =
      some ((clockSegs e ++ fracSegs fr) ++ zoneSegsC e zs, timePropsC fr ++ zonePropsC zs, customC zs) := by
  have he : e ∈ [true, false] := by cases e <;> simp
  have hfr : fr ∈ [Frac.none, .comma, .point] := by cases fr <;> simp
  cases zs with
  | utc => exact timeZonePart_sym_all dt hdt e he fr hfr _ (by simp)
  | own s => cases s <;> exact timeZonePart_sym_all dt hdt e he fr hfr _ (by simp)
  | lit s z =>
    obtain ⟨T, hT⟩ := timeFmt_cons e fr
    obtain ⟨d, L, hL⟩ := zoneDigits_cons e s z
    have hp := timeFmt_plain e fr
    have hzc := zoneDigits_zchars e s z
    simp only [ZSpec.fmt, zoneSegsC, zonePropsC, customC]
    rw [hT] at hp ⊢
    rw [hL] at hzc ⊢
    rw [timeZonePart_lit dt hdt 'h' T hp (zsign z) (zsign_cases z) d L hzc, ← hT, compile_timeFmt dt hdt,
      ← hL, getTimeZone_litZone e s z hz.1 hz.2]

/-! ## `_get_expression_and_properties` -/

theorem dateFmt_noT (x e : Bool) (k : DateKind) : 'T' ∉ yearFmt x ++ bodyFmt e k := by
  cases x <;> cases e <;> cases k <;> decide

theorem zoneFmt_notMem (e : Bool) (zs : ZSpec) (c : Char) (hc : isDigit c = false) (h1 : c ≠ '+')
    (h2 : c ≠ '-') (h3 : c ≠ ':') (h4 : c ≠ 'Z') (h5 : c ≠ 'h') (h6 : c ≠ 'm') : c ∉ zs.fmt e := by
  cases zs with
  | utc => simp [ZSpec.fmt, h4]
  | own s => cases s <;> cases e <;> simp [ZSpec.fmt, h1, h3, h5, h6]
  | lit s z => exact notMem_lit _ (zsign_cases z) _ (zoneDigits_zchars e s z) c hc h1 h2 h3

theorem restFmt_notMem (e : Bool) (fr : Frac) (zs : ZSpec) (c : Char) (hc : isDigit c = false)
    (hcs : c ∉ ['+', '-', ':', 'Z', 'h', 'm', 's', 't', ',', '.']) :
    c ∉ (clockFmt e ++ fracFmt fr) ++ zs.fmt e := by
  simp only [List.mem_cons, List.not_mem_nil, or_false, not_or] at hcs
  obtain ⟨h1, h2, h3, h4, h5, h6, h7, h8, h9, h10⟩ := hcs
  have hz := zoneFmt_notMem e zs c hc h1 h2 h3 h4 h5 h6
  simp only [List.mem_append, not_or]
  refine ⟨⟨?_, ?_⟩, hz⟩
  · cases e <;> simp [clockFmt, h3, h5, h6, h7]
  · cases fr <;> simp [fracFmt, h8, h9, h10]

/-- **`_get_expression_and_properties`** on a complete custom format. -/
theorem getExpr_custom (dt : DumpTables) (hdt : dt ∈ dumpTables) (f : CFmt) (hf : f.WF dt.ned) :
    getExpr dt f.text = some (f.expr dt.ned) := by
  unfold CFmt.text
  rw [getExpr_T dt _ _ (dateFmt_noT _ _ _) (restFmt_notMem _ _ _ 'T' (by decide) (by decide)),
    timeZonePart_custom dt hdt f.ext f.frac f.zone hf.2, compile_dateFmt dt hdt]
  rfl

theorem text_noPercent (f : CFmt) : f.text.contains '%' = false := by
  have h1 : '%' ∉ yearFmt f.expanded ++ bodyFmt f.ext f.kind := by
    cases f.expanded <;> cases f.ext <;> cases f.kind <;> decide
  have h2 := restFmt_notMem f.ext f.frac f.zone '%' (by decide) (by decide)
  have : '%' ∉ f.text := by
    unfold CFmt.text
    simp only [List.mem_append, List.mem_cons, not_or] at h1 h2 ⊢
    exact ⟨h1, by decide, h2⟩
  simpa using this

end IsoDT.Text.Custom
