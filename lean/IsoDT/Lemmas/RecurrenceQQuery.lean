/-
  IsoDT.Lemmas.RecurrenceQQuery — `get_is_valid` and `__getitem__` on rational recurrences with an
  exact interval (`Model.RecurrenceQ`): the scan with its two early exits decides membership of
  the iterated series by rational instant.  Follows `Props/C13.lean` / `Lemmas/RecQuery.lean`.
-/
import IsoDT.Lemmas.RecurrenceQ

namespace IsoDT.Lemmas
open IsoDT IsoDT.Model IsoDT.Lemmas.DQ
open IsoDT.Spec (Date TZ TP)

theorem seriesQ_inst_ne_of_gt (m : Mode) (p0 : TPQ) : ∀ (l : List TPQ) (i0 step x : Rat),
    SeriesOKQ m p0 l i0 step → 0 < step → x < i0 → ∀ q ∈ l, q.inst m ≠ x := by
  intro l
  induction l with
  | nil => intro _ _ _ _ _ _ q hq; cases hq
  | cons p rest ih =>
    intro i0 step x hs hpos hx q hq
    obtain ⟨h1, _, _, h5⟩ := hs
    rcases List.mem_cons.mp hq with rfl | hq
    · grind
    · exact ih (i0 + step) step x h5 hpos (by grind) q hq

theorem seriesQ_inst_ne_of_lt (m : Mode) (p0 : TPQ) : ∀ (l : List TPQ) (i0 step x : Rat),
    SeriesOKQ m p0 l i0 step → step < 0 → i0 < x → ∀ q ∈ l, q.inst m ≠ x := by
  intro l
  induction l with
  | nil => intro _ _ _ _ _ _ q hq; cases hq
  | cons p rest ih =>
    intro i0 step x hs hneg hx q hq
    obtain ⟨h1, _, _, h5⟩ := hs
    rcases List.mem_cons.mp hq with rfl | hq
    · grind
    · exact ih (i0 + step) step x h5 hneg (by grind) q hq

/-- The scan of `get_is_valid` over an increasing series (a recurrence that has a start point):
    true exactly when some listed point is at the probe's instant.  The early exit (taken only
    when there is no end point) is sound because the later points are later still. -/
theorem scan_fwdQ (m : Mode) (r : RecQ) (hst : r.start.isNone = false) (p : TPQ) (hp : p.Valid m)
    (p0 : TPQ) : ∀ (l : List TPQ) (i0 step : Rat), SeriesOKQ m p0 l i0 step → 0 < step →
      (scanValidQ m r p l = true ↔ ∃ q ∈ l, q.inst m = p.inst m) := by
  intro l
  induction l with
  | nil => intro _ _ _ _; simp [scanValidQ]
  | cons q rest ih =>
    intro i0 step hs hpos
    obtain ⟨h1, hv, _, h5⟩ := hs
    have he := tpEqQ_iff m q p hv hp
    have hg := tpGtQ_iff m q p hv hp
    unfold scanValidQ
    by_cases c1 : tpEqQ m q p = true
    · rw [if_pos c1]
      exact ⟨fun _ => ⟨q, List.mem_cons_self, he.mp c1⟩, fun _ => rfl⟩
    · rw [if_neg c1]
      simp only [hst, Bool.false_and, Bool.false_eq_true, ↓reduceIte]
      have hne : q.inst m ≠ p.inst m := fun h => c1 (he.mpr h)
      by_cases c2 : (r.end_.isNone && tpGtQ m q p) = true
      · rw [if_pos c2]
        simp only [Bool.and_eq_true] at c2
        have hgt := hg.mp c2.2
        constructor
        · intro h; cases h
        · rintro ⟨x, hx, hxe⟩
          rcases List.mem_cons.mp hx with rfl | hx
          · exact absurd hxe hne
          · exact absurd hxe (seriesQ_inst_ne_of_gt m p0 rest (i0 + step) step (p.inst m) h5 hpos
              (by grind) x hx)
      · rw [if_neg c2, ih (i0 + step) step h5 hpos]
        constructor
        · rintro ⟨x, hx, hxe⟩; exact ⟨x, List.mem_cons_of_mem _ hx, hxe⟩
        · rintro ⟨x, hx, hxe⟩
          rcases List.mem_cons.mp hx with rfl | hx
          · exact absurd hxe hne
          · exact ⟨x, hx, hxe⟩

/-- The same for the backward iteration of an unbounded duration/end recurrence. -/
theorem scan_revQ (m : Mode) (r : RecQ) (hst : r.start.isNone = true) (hen : r.end_.isNone = false) (p : TPQ)
    (hp : p.Valid m) (p0 : TPQ) : ∀ (l : List TPQ) (i0 step : Rat),
      SeriesOKQ m p0 l i0 step → step < 0 →
      (scanValidQ m r p l = true ↔ ∃ q ∈ l, q.inst m = p.inst m) := by
  intro l
  induction l with
  | nil => intro _ _ _ _; simp [scanValidQ]
  | cons q rest ih =>
    intro i0 step hs hneg
    obtain ⟨h1, hv, _, h5⟩ := hs
    have he := tpEqQ_iff m q p hv hp
    have hl := tpLtQ_iff m q p hv hp
    unfold scanValidQ
    by_cases c1 : tpEqQ m q p = true
    · rw [if_pos c1]
      exact ⟨fun _ => ⟨q, List.mem_cons_self, he.mp c1⟩, fun _ => rfl⟩
    · rw [if_neg c1]
      have hne : q.inst m ≠ p.inst m := fun h => c1 (he.mpr h)
      simp only [hst, hen, Bool.true_and, Bool.false_and, Bool.false_eq_true, ↓reduceIte]
      by_cases c2 : tpLtQ m q p = true
      · rw [if_pos c2]
        have hlt := hl.mp c2
        constructor
        · intro h; cases h
        · rintro ⟨x, hx, hxe⟩
          rcases List.mem_cons.mp hx with rfl | hx
          · exact absurd hxe hne
          · exact absurd hxe (seriesQ_inst_ne_of_lt m p0 rest (i0 + step) step (p.inst m) h5 hneg
              (by grind) x hx)
      · rw [if_neg c2, ih (i0 + step) step h5 hneg]
        constructor
        · rintro ⟨x, hx, hxe⟩; exact ⟨x, List.mem_cons_of_mem _ hx, hxe⟩
        · rintro ⟨x, hx, hxe⟩
          rcases List.mem_cons.mp hx with rfl | hx
          · exact absurd hxe hne
          · exact ⟨x, hx, hxe⟩

/-- The bounds verdict depends on the instant only. -/
theorem inBoundsQ_congr (m : Mode) (r : RecQ) (p q : TPQ) (hp : p.Valid m) (hq : q.Valid m)
    (hsv : ∀ s, r.start = some s → s.Valid m) (hev : ∀ e, r.end_ = some e → e.Valid m)
    (h : q.inst m = p.inst m) : inBoundsQ m r q = inBoundsQ m r p := by
  have a := inBoundsQ_iff m r p hp hsv hev
  have b := inBoundsQ_iff m r q hq hsv hev
  rw [h] at b
  rw [Bool.eq_iff_iff, a, b]

/-- What `__iter__` yields on a recurrence with an exact positive interval: a series from the
    start forwards, or (no start) from the end backwards. -/
theorem iterQ_series (m : Mode) (r : RecQ) (d : DurationQ) (L : Rat) (hr : ExactRecQ m r d L) (fuel : Nat) :
    (∀ s, r.start = some s → SeriesOKQ m s (iterQ m r fuel) (s.inst m) L) ∧
    (∀ e, r.start = none → r.end_ = some e → SeriesOKQ m e (iterQ m r fuel) (e.inst m) (-L)) := by
  constructor
  · intro s hs
    rw [iterQ_fwd m r d L hr s hs fuel]
    exact (iterFromQ_fwd m r d L hr fuel s (hr.startValid s hs)
      (fun s' h => by rw [hs] at h; cases h; exact Rat.le_refl)).1
  · intro e hs he
    rw [iterQ_rev m r d L hr e hs he fuel]
    exact (iterFromQ_rev m r d L hr fuel e (hr.endValid e he)
      (fun e' h => by rw [he] at h; cases h; exact Rat.le_refl)).1

/-- **`get_is_valid`** on a recurrence with an exact positive interval (any notation, bounded or
    not): true exactly when one of the iterated points is at the probe's instant. -/
theorem getIsValidQ_iff (m : Mode) (r : RecQ) (d : DurationQ) (L : Rat) (hr : ExactRecQ m r d L)
    (hanchor : r.start.isSome = true ∨ r.end_.isSome = true) (p : TPQ) (hp : p.Valid m) (fuel : Nat) :
    getIsValidQ m r p fuel = true ↔ ∃ q ∈ iterQ m r fuel, q.inst m = p.inst m := by
  obtain ⟨sf, sr⟩ := iterQ_series m r d L hr fuel
  have hpos := hr.pos
  have hscan : scanValidQ m r p (iterQ m r fuel) = true ↔ ∃ q ∈ iterQ m r fuel, q.inst m = p.inst m := by
    cases hs : r.start with
    | some s => exact scan_fwdQ m r (by rw [hs]; rfl) p hp s _ _ _ (sf s hs) hpos
    | none =>
      cases he : r.end_ with
      | none => rw [hs, he] at hanchor; simp at hanchor
      | some e =>
        exact scan_revQ m r (by rw [hs]; rfl) (by rw [he]; rfl) p hp e _ _ _ (sr e hs he) (by grind)
  have hvalid : ∀ q ∈ iterQ m r fuel, q.Valid m := by
    cases hs : r.start with
    | some s => exact seriesQ_mem_valid m s _ _ _ (sf s hs)
    | none =>
      cases he : r.end_ with
      | none => rw [hs, he] at hanchor; simp at hanchor
      | some e => exact seriesQ_mem_valid m e _ _ _ (sr e hs he)
  unfold getIsValidQ
  by_cases cb : inBoundsQ m r p = true
  · simp only [cb, Bool.not_true, Bool.false_eq_true, ↓reduceIte]
    exact hscan
  · have cb' : inBoundsQ m r p = false := by cases h : inBoundsQ m r p <;> simp_all
    simp only [cb', Bool.not_false, ↓reduceIte, Bool.false_eq_true, false_iff]
    rintro ⟨q, hq, hqe⟩
    apply cb
    rw [← inBoundsQ_congr m r p q hp (hvalid q hq) hr.startValid hr.endValid hqe]
    exact iterQ_mem_inBounds m r fuel q hq

/-! ### `__getitem__` walks a prefix -/

theorem iterFromQ_prefix (m : Mode) (r : RecQ) (rev : Bool) : ∀ (i fuel : Nat) (p : TPQ), i < fuel →
    (iterFromQ m r rev fuel p)[i]? = (iterFromQ m r rev (i + 1) p)[i]? := by
  intro i
  induction i with
  | zero =>
    intro fuel p h
    cases fuel with
    | zero => omega
    | succ f =>
      simp only [iterFromQ]
      by_cases cb : inBoundsQ m r p = true
      · simp only [cb, ↓reduceIte, List.getElem?_cons_zero]
      · simp only [cb, Bool.false_eq_true, ↓reduceIte]
  | succ i ih =>
    intro fuel p h
    cases fuel with
    | zero => omega
    | succ f =>
      rw [iterFromQ, iterFromQ]
      by_cases cb : inBoundsQ m r p = true
      · simp only [cb, ↓reduceIte, List.getElem?_cons_succ]
        cases (if rev = true then getPrevQ m r p else getNextQ m r p) with
        | none => rfl
        | some q => exact ih f q (by omega)
      · simp only [cb, Bool.false_eq_true, ↓reduceIte]

end IsoDT.Lemmas
