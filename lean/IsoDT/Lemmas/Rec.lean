/-
  IsoDT.Lemmas.Rec — recurrences with an exact interval: bounds, neighbours and iteration in
  terms of instants.
-/
import IsoDT.Lemmas.Nominal
import IsoDT.Lemmas.Dur

namespace IsoDT.Lemmas
open IsoDT IsoDT.Model
open IsoDT.Spec (Date TZ TP)

/-! ### point comparisons -/

theorem tpLt_iff (m : Mode) (a b : TP) (ha : a.Valid m) (hb : b.Valid m) :
    tpLt m a b = true ↔ a.inst m < b.inst m := by
  unfold tpLt; rw [cmp_spec m a b ha hb]
  simp only [beq_iff_eq, Option.some.injEq, sgn_neg_iff]; omega

theorem tpGt_iff (m : Mode) (a b : TP) (ha : a.Valid m) (hb : b.Valid m) :
    tpGt m a b = true ↔ a.inst m > b.inst m := by
  unfold tpGt; rw [cmp_spec m a b ha hb]
  simp only [beq_iff_eq, Option.some.injEq, sgn_one_iff]; omega

theorem tpEq_iff (m : Mode) (a b : TP) (ha : a.Valid m) (hb : b.Valid m) :
    tpEq m a b = true ↔ a.inst m = b.inst m := by
  unfold tpEq; rw [cmp_spec m a b ha hb]
  simp only [beq_iff_eq, Option.some.injEq, sgn_zero_iff]; omega

theorem tpLe_iff (m : Mode) (a b : TP) (ha : a.Valid m) (hb : b.Valid m) :
    tpLe m a b = true ↔ a.inst m ≤ b.inst m := by
  unfold tpLe
  rw [Bool.or_eq_true, tpLt_iff m a b ha hb, tpEq_iff m a b ha hb]; omega

/-! ### exact durations -/

theorem addDur_exact (m : Mode) (p : TP) (d : Dur) (hv : p.Valid m) (hex : d.isExact = true) :
    ∃ q, addDur m p d = some q ∧ Good m p q (d.exactSeconds m) := by
  cases d with
  | weeks w =>
    obtain ⟨q, he, g⟩ := addUnits_spec m p (w * (calOf m).daysInWeek) 0 0 0 hv
    refine ⟨q, ?_, ?_⟩
    · simp only [addDur, Dur.toDays, he, Option.bind_eq_bind, Option.bind_some, addMonths, addYears,
        ↓reduceIte, Option.pure_def]
    · have e : (Dur.weeks w).exactSeconds m = 86400 * (w * (calOf m).daysInWeek) + 3600 * 0 + 60 * 0 + 0 := by
        simp only [Dur.exactSeconds, daysInWeek_eq, secondsInDay_eq]; omega
      rw [e]; exact g
  | units y mo dd h mi s =>
    simp only [Dur.isExact, Bool.and_eq_true, beq_iff_eq] at hex
    obtain ⟨hy, hmo⟩ := hex
    subst hy hmo
    obtain ⟨q, he, g⟩ := addDur_exact_units m p dd h mi s hv
    refine ⟨q, he, ?_⟩
    have e : (Dur.units 0 0 dd h mi s).exactSeconds m = 86400 * dd + 3600 * h + 60 * mi + s := by
      simp only [Dur.exactSeconds, secondsInDay_eq, secondsInHour_eq, secondsInMinute_eq]; omega
    rw [e]; exact g

theorem mul_exact (d : Dur) (n : Int) (h : d.isExact = true) : (d.mul n).isExact = true := by
  cases d with
  | weeks w => rfl
  | units y mo dd hh mi s =>
    simp only [Dur.isExact, Bool.and_eq_true, beq_iff_eq] at h
    simp only [Dur.mul, Dur.isExact, h.1, h.2]; simp

theorem mul_exactSeconds (m : Mode) (d : Dur) (n : Int) : (d.mul n).exactSeconds m = d.exactSeconds m * n := by
  cases d <;> simp only [Dur.mul, Dur.exactSeconds, daysInWeek_eq, secondsInDay_eq, secondsInHour_eq,
    secondsInMinute_eq]
  · rw [Int.mul_assoc, Int.mul_assoc, Int.mul_assoc, Int.mul_assoc]
    congr 1
    rw [Int.mul_comm n, Int.mul_assoc]
  · simp only [Int.add_mul]
    congr 1
    · congr 1
      · congr 1
        all_goals (rw [Int.mul_assoc, Int.mul_assoc]; congr 1; rw [Int.mul_comm])
      · rw [Int.mul_assoc, Int.mul_assoc]; congr 1; rw [Int.mul_comm]

theorem subDur_exact (m : Mode) (p : TP) (d : Dur) (hv : p.Valid m) (hex : d.isExact = true) :
    ∃ q, subDur m p d = some q ∧ Good m p q (-(d.exactSeconds m)) := by
  obtain ⟨q, e, g⟩ := addDur_exact m p (d.mul (-1)) hv (mul_exact d (-1) hex)
  refine ⟨q, e, ?_⟩
  have : (d.mul (-1)).exactSeconds m = -(d.exactSeconds m) := by rw [mul_exactSeconds]; omega
  rw [← this]; exact g

/-! ### a recurrence with an exact positive interval -/

/-- The facts about a constructed recurrence the iteration lemmas need: interval `d` exact of
    length `L > 0`, more than one repetition, and instants of its (optional) bounds. -/
structure ExactRec (m : Mode) (r : Rec) (d : Dur) (L : Int) : Prop where
  dur : r.dur = some d
  exact : d.isExact = true
  len : d.exactSeconds m = L
  pos : 0 < L
  multi : r.reps ≠ some 1
  startValid : ∀ s, r.start = some s → s.Valid m
  endValid : ∀ e, r.end_ = some e → e.Valid m

theorem nonzero_of_pos (m : Mode) (d : Dur) (h : 0 < d.exactSeconds m) : d.nonzero = true := by
  cases d with
  | weeks w =>
    simp only [Dur.exactSeconds, daysInWeek_eq, secondsInDay_eq] at h
    simp only [Dur.nonzero, bne_iff_ne, ne_eq]; omega
  | units y mo dd hh mi s =>
    simp only [Dur.exactSeconds, secondsInDay_eq, secondsInHour_eq, secondsInMinute_eq] at h
    simp only [Dur.nonzero, Bool.or_eq_true, bne_iff_ne, ne_eq]; omega

/-- In bounds ⇔ between the instants of the bounds that exist. -/
theorem inBounds_iff (m : Mode) (r : Rec) (d : Dur) (L : Int) (hr : ExactRec m r d L) (p : TP)
    (hp : p.Valid m) :
    inBounds m r p = true ↔
      (∀ s, r.start = some s → s.inst m ≤ p.inst m) ∧ (∀ e, r.end_ = some e → p.inst m ≤ e.inst m) := by
  unfold inBounds
  rw [Bool.and_eq_true]
  constructor
  · rintro ⟨h1, h2⟩
    constructor
    · intro s hs
      rw [hs] at h1
      simp only [Bool.not_eq_true'] at h1
      have := tpLt_iff m p s hp (hr.startValid s hs)
      rw [h1] at this; simp at this; omega
    · intro e he
      rw [he] at h2
      simp only [Bool.not_eq_true'] at h2
      have := tpGt_iff m p e hp (hr.endValid e he)
      rw [h2] at this; simp at this; omega
  · rintro ⟨h1, h2⟩
    constructor
    · cases hs : r.start with
      | none => rfl
      | some s =>
        simp only [Bool.not_eq_true']
        have h3 := tpLt_iff m p s hp (hr.startValid s hs)
        have h4 := h1 s hs
        cases hlt : tpLt m p s
        · rfl
        · have := h3.mp hlt; omega
    · cases he : r.end_ with
      | none => rfl
      | some e =>
        simp only [Bool.not_eq_true']
        have h3 := tpGt_iff m p e hp (hr.endValid e he)
        have h4 := h2 e he
        cases hgt : tpGt m p e
        · rfl
        · have := h3.mp hgt; omega

/-- `get_next` from any valid point: the point one interval later, if it is within bounds. -/
theorem getNext_exact (m : Mode) (r : Rec) (d : Dur) (L : Int) (hr : ExactRec m r d L) (p : TP)
    (hp : p.Valid m) :
    ∃ q, addDur m p d = some q ∧ Good m p q L ∧
      getNext m r p = if inBounds m r q then some q else none := by
  obtain ⟨q, e, g⟩ := addDur_exact m p d hp hr.exact
  rw [hr.len] at g
  refine ⟨q, e, g, ?_⟩
  unfold getNext
  rw [if_neg hr.multi, hr.dur]
  simp only [e]

theorem getPrev_exact (m : Mode) (r : Rec) (d : Dur) (L : Int) (hr : ExactRec m r d L) (p : TP)
    (hp : p.Valid m) :
    ∃ q, subDur m p d = some q ∧ Good m p q (-L) ∧
      getPrev m r p = if inBounds m r q then some q else none := by
  obtain ⟨q, e, g⟩ := subDur_exact m p d hp hr.exact
  rw [hr.len] at g
  refine ⟨q, e, g, ?_⟩
  unfold getPrev
  rw [if_neg hr.multi, hr.dur]
  simp only [e]

/-- A list of points is the arithmetic series `i0, i0 + step, i0 + 2·step, …` of valid points in
    one representation and offset. -/
def SeriesOK (m : Mode) (rep : Nat) (tz : TZ) : List TP → Int → Int → Prop
  | [], _, _ => True
  | p :: rest, i0, step =>
    p.inst m = i0 ∧ p.Valid m ∧ p.date.rep = rep ∧ p.tz = tz ∧ SeriesOK m rep tz rest (i0 + step) step

/-- Forward iteration from a valid point `p` at or after the start: yields `p, p+d, p+2d, …` while
    not past the end. `cnt` is the number of points from `p` to the end (if there is an end). -/
theorem iterFrom_fwd (m : Mode) (r : Rec) (d : Dur) (L : Int) (hr : ExactRec m r d L) :
    ∀ (fuel : Nat) (p : TP), p.Valid m →
      (∀ s, r.start = some s → s.inst m ≤ p.inst m) →
      SeriesOK m p.date.rep p.tz (iterFrom m r false fuel p) (p.inst m) L ∧
      (∀ e, r.end_ = some e → p.inst m ≤ e.inst m →
        ((iterFrom m r false fuel p).length : Int) = min (fuel : Int) ((e.inst m - p.inst m) / L + 1)) ∧
      (r.end_ = none → (iterFrom m r false fuel p).length = fuel) := by
  intro fuel
  induction fuel with
  | zero =>
    intro p _ _
    refine ⟨trivial, ?_, fun _ => rfl⟩
    intro e _ hle
    have : 0 ≤ (e.inst m - p.inst m) / L := Int.ediv_nonneg (by omega) (by have := hr.pos; omega)
    simp only [iterFrom, List.length_nil]; omega
  | succ fuel ih =>
    intro p hp hs
    obtain ⟨q, eq', g, hn⟩ := getNext_exact m r d L hr p hp
    have hb := inBounds_iff m r d L hr p hp
    have hbq := inBounds_iff m r d L hr q g.strict.1
    have hpos := hr.pos
    simp only [iterFrom, Bool.false_eq_true, ↓reduceIte, hn]
    by_cases cp : inBounds m r p = true
    · rw [if_pos cp]
      have hqs : ∀ s, r.start = some s → s.inst m ≤ q.inst m := by
        intro s h; have := hs s h; have := g.inst; omega
      by_cases cq : inBounds m r q = true
      · rw [if_pos cq]
        obtain ⟨i1, i2, i3⟩ := ih q g.strict.1 hqs
        refine ⟨⟨rfl, hp, rfl, rfl, ?_⟩, ?_, ?_⟩
        · rw [g.rep, g.tz, g.inst] at i1; exact i1
        · intro e he hle
          have hqe := (hbq.mp cq).2 e he
          have := i2 e he hqe
          simp only [List.length_cons]
          rw [g.inst] at this hqe
          have e1 : (e.inst m - p.inst m) / L = (e.inst m - (p.inst m + L)) / L + 1 := by
            have : e.inst m - p.inst m = (e.inst m - (p.inst m + L)) + L := by omega
            rw [this, Int.add_ediv_of_dvd_right (Int.dvd_refl L), Int.ediv_self (by omega)]
          omega
        · intro hne
          simp only [List.length_cons, i3 hne]
      · rw [if_neg cq]
        refine ⟨⟨rfl, hp, rfl, rfl, trivial⟩, ?_, ?_⟩
        · intro e he hle
          -- q is out of bounds although it is after the start: it is past the end
          have hq_end : ¬ (q.inst m ≤ e.inst m) := by
            intro hqe
            apply cq
            rw [hbq]
            refine ⟨hqs, ?_⟩
            intro e' he'; rw [he] at he'; cases he'; exact hqe
          rw [g.inst] at hq_end
          have : (e.inst m - p.inst m) / L = 0 := Int.ediv_eq_zero_of_lt (by omega) (by omega)
          simp only [iterFrom, List.length_cons, List.length_nil, this]; omega
        · intro hne
          exfalso; apply cq; rw [hbq]
          exact ⟨hqs, fun e he => by rw [hne] at he; cases he⟩
    · rw [if_neg cp]
      refine ⟨trivial, ?_, ?_⟩
      · intro e he hle
        exfalso; apply cp; rw [hb]
        exact ⟨hs, fun e' he' => by rw [he] at he'; cases he'; exact hle⟩
      · intro hne
        exfalso; apply cp; rw [hb]
        exact ⟨hs, fun e he => by rw [hne] at he; cases he⟩

/-- Backward iteration (unbounded duration/end notation) from a valid point `p` at or before the
    end: yields `p, p-d, p-2d, …` while not before the start. -/
theorem iterFrom_rev (m : Mode) (r : Rec) (d : Dur) (L : Int) (hr : ExactRec m r d L) :
    ∀ (fuel : Nat) (p : TP), p.Valid m →
      (∀ e, r.end_ = some e → p.inst m ≤ e.inst m) →
      SeriesOK m p.date.rep p.tz (iterFrom m r true fuel p) (p.inst m) (-L) ∧
      (∀ s, r.start = some s → s.inst m ≤ p.inst m →
        ((iterFrom m r true fuel p).length : Int) = min (fuel : Int) ((p.inst m - s.inst m) / L + 1)) ∧
      (r.start = none → (iterFrom m r true fuel p).length = fuel) := by
  intro fuel
  induction fuel with
  | zero =>
    intro p _ _
    refine ⟨trivial, ?_, fun _ => rfl⟩
    intro s _ hle
    have : 0 ≤ (p.inst m - s.inst m) / L := Int.ediv_nonneg (by omega) (by have := hr.pos; omega)
    simp only [iterFrom, List.length_nil]; omega
  | succ fuel ih =>
    intro p hp he
    obtain ⟨q, eq', g, hn⟩ := getPrev_exact m r d L hr p hp
    have hb := inBounds_iff m r d L hr p hp
    have hbq := inBounds_iff m r d L hr q g.strict.1
    have hpos := hr.pos
    simp only [iterFrom, ↓reduceIte, hn]
    by_cases cp : inBounds m r p = true
    · rw [if_pos cp]
      have hqe : ∀ e, r.end_ = some e → q.inst m ≤ e.inst m := by
        intro e h; have := he e h; have := g.inst; omega
      by_cases cq : inBounds m r q = true
      · rw [if_pos cq]
        obtain ⟨i1, i2, i3⟩ := ih q g.strict.1 hqe
        refine ⟨⟨rfl, hp, rfl, rfl, ?_⟩, ?_, ?_⟩
        · rw [g.rep, g.tz, g.inst] at i1; exact i1
        · intro s hs hle
          have hqs := (hbq.mp cq).1 s hs
          have := i2 s hs hqs
          simp only [List.length_cons]
          rw [g.inst] at this hqs
          have e1 : (p.inst m - s.inst m) / L = (p.inst m + -L - s.inst m) / L + 1 := by
            have : p.inst m - s.inst m = (p.inst m + -L - s.inst m) + L := by omega
            rw [this, Int.add_ediv_of_dvd_right (Int.dvd_refl L), Int.ediv_self (by omega)]
          omega
        · intro hne
          simp only [List.length_cons, i3 hne]
      · rw [if_neg cq]
        refine ⟨⟨rfl, hp, rfl, rfl, trivial⟩, ?_, ?_⟩
        · intro s hs hle
          have hq_start : ¬ (s.inst m ≤ q.inst m) := by
            intro hqs
            apply cq
            rw [hbq]
            refine ⟨?_, hqe⟩
            intro s' hs'; rw [hs] at hs'; cases hs'; exact hqs
          rw [g.inst] at hq_start
          have : (p.inst m - s.inst m) / L = 0 := Int.ediv_eq_zero_of_lt (by omega) (by omega)
          simp only [List.length_cons, List.length_nil, this]; omega
        · intro hne
          exfalso; apply cq; rw [hbq]
          exact ⟨fun s hs => (by rw [hne] at hs; cases hs), hqe⟩
    · rw [if_neg cp]
      refine ⟨trivial, ?_, ?_⟩
      · intro s hs hle
        exfalso; apply cp; rw [hb]
        exact ⟨fun s' hs' => (by rw [hs] at hs'; cases hs'; exact hle), he⟩
      · intro hne
        exfalso; apply cp; rw [hb]
        exact ⟨fun s hs => (by rw [hne] at hs; cases hs), he⟩

/-! ### `__iter__` on a recurrence with an exact positive interval -/

theorem iter_fwd (m : Mode) (r : Rec) (d : Dur) (L : Int) (hr : ExactRec m r d L) (s : TP)
    (hs : r.start = some s) (fuel : Nat) : iter m r fuel = iterFrom m r false fuel s := by
  unfold iter
  simp only [hs, Option.isNone_some, Bool.false_eq_true, ↓reduceIte, hr.dur]
  have h1 : (r.reps == some 1) = false := by
    cases h : r.reps == some 1
    · rfl
    · exact absurd (by simpa using h) hr.multi
  have h2 : (!d.nonzero) = false := by
    rw [nonzero_of_pos m d (by rw [hr.len]; exact hr.pos)]; rfl
  simp only [h1, h2, Bool.or_self, Bool.false_eq_true, ↓reduceIte]

theorem iter_rev (m : Mode) (r : Rec) (d : Dur) (L : Int) (hr : ExactRec m r d L) (e : TP)
    (hs : r.start = none) (he : r.end_ = some e) (fuel : Nat) : iter m r fuel = iterFrom m r true fuel e := by
  unfold iter
  simp only [hs, Option.isNone_none, ↓reduceIte, he, hr.dur]
  have h1 : (r.reps == some 1) = false := by
    cases h : r.reps == some 1
    · rfl
    · exact absurd (by simpa using h) hr.multi
  have h2 : (!d.nonzero) = false := by
    rw [nonzero_of_pos m d (by rw [hr.len]; exact hr.pos)]; rfl
  simp only [h1, h2, Bool.or_self, Bool.false_eq_true, ↓reduceIte]

/-! ### what the constructor builds -/

theorem lt_zero_false (m : Mode) (d : Dur) (hex : d.isExact = true) (hpos : 0 ≤ d.exactSeconds m) :
    Dur.lt m d Dur.zero = false := by
  cases h : Dur.lt m d Dur.zero
  · rfl
  · have := (lt_zero_iff m d hex).mp h; omega

theorem isZeroDur_false (m : Mode) (d : Dur) (hex : d.isExact = true) (hpos : 0 < d.exactSeconds m) :
    isZeroDur m d = false := by
  cases h : isZeroDur m d
  · rfl
  · have := (isZeroDur_iff m d hex).mp h; omega

/-- start/duration notation, `n ≥ 2` repetitions. -/
theorem mkRec_fmt3_bounded (m : Mode) (n : Int) (s : TP) (d : Dur) (hn : 2 ≤ n) (hs : s.Valid m)
    (hex : d.isExact = true) (hpos : 0 < d.exactSeconds m) :
    ∃ e, mkRec m (some n) (some s) (some d) none = some ⟨some n, some s, some d, some e, none, 3⟩ ∧
      e.Strict m ∧ e.inst m = s.inst m + d.exactSeconds m * (n - 1) ∧
      e.date.rep = s.date.rep ∧ e.tz = s.tz := by
  obtain ⟨e, he, g⟩ := addDur_exact m s (d.mul (n - 1)) hs (mul_exact d _ hex)
  refine ⟨e, ?_, g.strict, by rw [g.inst, mul_exactSeconds], g.rep, g.tz⟩
  unfold mkRec
  have c1 : ¬ n ≤ 0 := by omega
  have c2 : ¬ (n = 1) := by omega
  simp only [c1, decide_false, Bool.false_eq_true, ↓reduceIte, lt_zero_false m d hex (by omega),
    isZeroDur_false m d hex hpos, Option.some.injEq, c2, or_self, he, Option.map_some]

/-- start/duration notation, unbounded. -/
theorem mkRec_fmt3_unbounded (m : Mode) (s : TP) (d : Dur) (hex : d.isExact = true)
    (hpos : 0 < d.exactSeconds m) :
    mkRec m none (some s) (some d) none = some ⟨none, some s, some d, none, none, 3⟩ := by
  unfold mkRec
  simp only [Bool.false_eq_true, ↓reduceIte, lt_zero_false m d hex (by omega),
    isZeroDur_false m d hex hpos, reduceCtorEq, or_self]

/-- duration/end notation, `n ≥ 2` repetitions: the derived start. -/
theorem mkRec_fmt4_bounded (m : Mode) (n : Int) (e : TP) (d : Dur) (hn : 2 ≤ n) (he : e.Valid m)
    (hex : d.isExact = true) (hpos : 0 < d.exactSeconds m) :
    ∃ s, mkRec m (some n) none (some d) (some e) = some ⟨some n, some s, some d, some e, none, 4⟩ ∧
      s.Strict m ∧ s.inst m = e.inst m - d.exactSeconds m * (n - 1) ∧
      s.date.rep = e.date.rep ∧ s.tz = e.tz := by
  obtain ⟨s, hs, g⟩ := subDur_exact m e (d.mul (n - 1)) he (mul_exact d _ hex)
  refine ⟨s, ?_, g.strict, by rw [g.inst, mul_exactSeconds]; omega, g.rep, g.tz⟩
  unfold mkRec
  have c1 : ¬ n ≤ 0 := by omega
  have c2 : ¬ (n = 1) := by omega
  simp only [c1, decide_false, Bool.false_eq_true, ↓reduceIte, lt_zero_false m d hex (by omega),
    isZeroDur_false m d hex hpos, Option.some.injEq, c2, or_self, hs, Option.map_some]

theorem mkRec_fmt4_unbounded (m : Mode) (e : TP) (d : Dur) (hex : d.isExact = true)
    (hpos : 0 < d.exactSeconds m) :
    mkRec m none none (some d) (some e) = some ⟨none, none, some d, some e, none, 4⟩ := by
  unfold mkRec
  simp only [Bool.false_eq_true, ↓reduceIte, lt_zero_false m d hex (by omega),
    isZeroDur_false m d hex hpos, reduceCtorEq, or_self]

/-- start/second-point notation: the interval is the exact difference of the two points. -/
theorem mkRec_fmt1 (m : Mode) (reps : Option Int) (s e2 : TP) (hs : s.Valid m) (he : e2.Valid m)
    (hlt : s.inst m < e2.inst m) (hreps : ∀ n, reps = some n → 2 ≤ n) :
    ∃ d, subTP m e2 s = some d ∧ d.isExact = true ∧ d.exactSeconds m = e2.inst m - s.inst m ∧
      (reps = none → mkRec m none (some s) none (some e2) = some ⟨none, some s, some d, none, some e2, 1⟩) ∧
      (∀ n, reps = some n → ∃ e, mkRec m (some n) (some s) none (some e2) =
          some ⟨some n, some s, some d, some e, some e2, 1⟩ ∧ e.Strict m ∧
          e.inst m = s.inst m + (e2.inst m - s.inst m) * (n - 1) ∧ e.date.rep = s.date.rep ∧ e.tz = s.tz) := by
  obtain ⟨dd, hh, mm, ss, hd, hl, _, _⟩ := subTP_spec m e2 s he hs
  have hex : (Dur.units 0 0 dd hh mm ss).isExact = true := rfl
  have hsec : (Dur.units 0 0 dd hh mm ss).exactSeconds m = e2.inst m - s.inst m := by
    simp only [Dur.exactSeconds, secondsInDay_eq, secondsInHour_eq, secondsInMinute_eq]; omega
  have c1 : tpEq m s e2 = false := by
    cases h : tpEq m s e2
    · rfl
    · have := (tpEq_iff m s e2 hs he).mp h; omega
  have c2 : tpLt m e2 s = false := by
    cases h : tpLt m e2 s
    · rfl
    · have := (tpLt_iff m e2 s he hs).mp h; omega
  refine ⟨_, hd, hex, hsec, ?_, ?_⟩
  · intro _
    unfold mkRec
    simp only [Bool.false_eq_true, ↓reduceIte, reduceCtorEq, c1, c2, hd]
  · intro n hn
    have h2 := hreps n hn
    obtain ⟨e, he', g⟩ := addDur_exact m s ((Dur.units 0 0 dd hh mm ss).mul (n - 1)) hs (mul_exact _ _ hex)
    refine ⟨e, ?_, g.strict, by rw [g.inst, mul_exactSeconds, hsec], g.rep, g.tz⟩
    unfold mkRec
    have k1 : ¬ n ≤ 0 := by omega
    have k2 : ¬ (n = 1) := by omega
    simp only [k1, decide_false, Bool.false_eq_true, ↓reduceIte, Option.some.injEq, k2, c1, c2, hd, he',
      Option.map_some]

end IsoDT.Lemmas
