/-
  IsoDT.Lemmas.Week — ISO week-years: Spec facts (for every year in `Int`, every mode) and the
  refinement of the code-shaped week-start routine to them.
-/
import IsoDT.Lemmas.Calendar

namespace IsoDT.Lemmas
open IsoDT IsoDT.Model

/-! ### Spec facts -/

/-- ISO weekday of 1 January of year `y`. -/
def dowJan1 (m : Mode) (y : Int) : Int := Spec.weekday m (Spec.dby m y)

theorem weekday_range (m : Mode) (n : Int) : 1 ≤ Spec.weekday m n ∧ Spec.weekday m n ≤ 7 := by
  unfold Spec.weekday; omega

theorem weekday_succ (m : Mode) (n : Int) : Spec.weekday m (n + 1) = Spec.weekday m n % 7 + 1 := by
  unfold Spec.weekday; omega

theorem weekday_add7 (m : Mode) (n k : Int) : Spec.weekday m (n + 7 * k) = Spec.weekday m n := by
  unfold Spec.weekday; omega

theorem dowJan1_range (m : Mode) (y : Int) : 1 ≤ dowJan1 m y ∧ dowJan1 m y ≤ 7 := weekday_range m _

/-- The week-year starts on the Monday on or before 4 January: in terms of 1 January's weekday. -/
theorem weekYearStart_of_dow (m : Mode) (y : Int) :
    Spec.weekYearStart m y =
      if dowJan1 m y ≤ 4 then Spec.dby m y - (dowJan1 m y - 1) else Spec.dby m y + 8 - dowJan1 m y := by
  unfold dowJan1 Spec.weekYearStart Spec.weekday Spec.dayNumOrd
  split <;> omega

theorem weekYearStart_bounds (m : Mode) (y : Int) :
    Spec.dby m y - 3 ≤ Spec.weekYearStart m y ∧ Spec.weekYearStart m y ≤ Spec.dby m y + 3 := by
  have := dowJan1_range m y
  rw [weekYearStart_of_dow]; split <;> omega

theorem weekday_weekYearStart (m : Mode) (y : Int) : Spec.weekday m (Spec.weekYearStart m y) = 1 := by
  unfold Spec.weekYearStart Spec.weekday Spec.dayNumOrd; omega

theorem weekYearStart_mod (m : Mode) (y : Int) : (Spec.weekYearStart m y - Spec.weekRef m) % 7 = 0 := by
  have := weekday_weekYearStart m y
  unfold Spec.weekday at this; omega

/-- A week-year is a whole number of weeks: 52 or 53 (51 or 52 in the 360-day calendar). -/
theorem weekYearStart_succ (m : Mode) (y : Int) :
    Spec.weekYearStart m (y + 1) = Spec.weekYearStart m y + 7 * Spec.weeksInYear m y := by
  have h1 := weekYearStart_mod m y
  have h2 := weekYearStart_mod m (y + 1)
  unfold Spec.weeksInYear; omega

theorem weeksInYear_bounds (m : Mode) (y : Int) : 51 ≤ Spec.weeksInYear m y ∧ Spec.weeksInYear m y ≤ 53 := by
  have h1 := weekYearStart_bounds m y
  have h2 := weekYearStart_bounds m (y + 1)
  have h3 := dby_succ m y
  have h4 := yearLen_bounds m y
  have h5 := weekYearStart_succ m y
  omega

theorem weeksInYear_bounds_long (m : Mode) (h : m ≠ .d360) (y : Int) : 52 ≤ Spec.weeksInYear m y := by
  have h1 := weekYearStart_bounds m y
  have h2 := weekYearStart_bounds m (y + 1)
  have h3 := dby_succ m y
  have h5 := weekYearStart_succ m y
  have h4 : 365 ≤ Spec.yearLen m y := by
    rw [yearLen_fixed]; cases m <;> simp_all <;> split <;> omega
  omega

/-- Every day number lies in exactly one week-year. -/
theorem weekYearStart_strictMono (m : Mode) (y : Int) : Spec.weekYearStart m y < Spec.weekYearStart m (y + 1) := by
  have := weekYearStart_succ m y
  have := weeksInYear_bounds m y
  omega

/-! ### month-level day numbers -/

theorem dayNumCal_jan (m : Mode) (y d : Int) : Spec.dayNumCal m y 1 d = Spec.dby m y + d - 1 := by
  unfold Spec.dayNumCal Spec.dbm; rw [dbmB_one]; omega

theorem monthLen_bounds (m : Mode) (y mo : Int) (h1 : 1 ≤ mo) (h2 : mo ≤ 12) :
    28 ≤ Spec.monthLen m y mo ∧ Spec.monthLen m y mo ≤ 31 := monthLenB_bounds m _ mo h1 h2

theorem dayNumCal_dec (m : Mode) (y k : Int) :
    Spec.dayNumCal m y 12 (Spec.monthLen m y 12 - k + 1) = Spec.dby m (y + 1) - k := by
  have := dbmB_twelve m (Spec.leap m y)
  have := dby_succ m y
  unfold Spec.dayNumCal Spec.dbm Spec.monthLen Spec.yearLen at *; omega

/-- A valid calendar date lies inside its year. -/
theorem dayNumCal_range (m : Mode) (y mo d : Int) (h : Spec.ValidCal m y mo d) :
    Spec.dby m y ≤ Spec.dayNumCal m y mo d ∧ Spec.dayNumCal m y mo d < Spec.dby m (y + 1) := by
  obtain ⟨h1, h2, h3, h4⟩ := h
  have := dbmB_range m (Spec.leap m y) mo h1 h2
  have := dby_succ m y
  unfold Spec.dayNumCal Spec.dbm Spec.monthLen Spec.yearLen at *; omega

theorem dayNumOrd_range (m : Mode) (y doy : Int) (h : Spec.ValidOrd m y doy) :
    Spec.dby m y ≤ Spec.dayNumOrd m y doy ∧ Spec.dayNumOrd m y doy < Spec.dby m (y + 1) := by
  obtain ⟨h1, h2⟩ := h
  have := dby_succ m y
  unfold Spec.dayNumOrd; omega

/-! ### `get_calendar_date_week_date_start` -/

/-- The weekday of 1 January that the code computes from the 2000-01-03 reference. -/
def codeDow (m : Mode) (y : Int) : Int :=
  if y > 2000 then (1 - 3 + daysInYearRange m 2000 (y - 1)) % 7 + 1
  else 7 - (3 - 2 + daysInYearRange m y (2000 - 1)) % 7

theorem codeDow_eq (m : Mode) (y : Int) (h : y ≠ 2000) : codeDow m y = dowJan1 m y := by
  unfold codeDow dowJan1 Spec.weekday Spec.weekRef Spec.dayNumOrd
  rw [daysInYearRange_eq, daysInYearRange_eq]
  by_cases hy : y > 2000
  · have : (2000 : Int) ≤ y - 1 := by omega
    simp only [hy, this, ↓reduceIte]
    have : y - 1 + 1 = y := by omega
    rw [this]; omega
  · have : y ≤ 2000 - 1 := by omega
    simp only [hy, this, ↓reduceIte]
    have : (2000 : Int) - 1 + 1 = 2000 := by omega
    rw [this]; omega

theorem weekStartCal_unfold (m : Mode) (y : Int) :
    weekStartCal m y =
      if y = 2000 then (2000, 1, 3)
      else if codeDow m y = 1 then (y, 1, 1)
      else if codeDow m y > 4 then (y, 1, 1 + (8 - codeDow m y))
      else match walkRev (indexed m (isLeapYear (y - 1))).reverse (codeDow m y - 1) with
        | some (mo, d) => (y - 1, mo, d)
        | none => (y - 1, 0, 0) := by
  unfold weekStartCal codeDow
  simp only [gen_weekRefCal, gen_weekRefOrd, daysInWeek_eq]
  by_cases h0 : y = 2000
  · simp [h0]
  · by_cases hy : y > 2000 <;> simp only [h0, hy, ↓reduceIte] <;> rfl

/-- `get_calendar_date_week_date_start(y)` is a valid calendar date, and it is the Monday that
    starts week-year `y`. -/
theorem weekStartCal_spec (m : Mode) (y : Int) :
    Spec.ValidCal m (weekStartCal m y).1 (weekStartCal m y).2.1 (weekStartCal m y).2.2 ∧
    Spec.dayNumCal m (weekStartCal m y).1 (weekStartCal m y).2.1 (weekStartCal m y).2.2 =
      Spec.weekYearStart m y := by
  rw [weekStartCal_unfold]
  have hj := monthLen_bounds m y 1 (by omega) (by omega)
  by_cases h0 : y = 2000
  · subst h0
    simp only [↓reduceIte]
    refine ⟨⟨by omega, by omega, by omega, by omega⟩, ?_⟩
    rw [dayNumCal_jan]
    unfold Spec.weekYearStart Spec.weekday Spec.weekRef Spec.dayNumOrd; omega
  · simp only [h0, ↓reduceIte]
    rw [codeDow_eq m y h0]
    have hr := dowJan1_range m y
    have hw := weekYearStart_of_dow m y
    by_cases h1 : dowJan1 m y = 1
    · simp only [h1, ↓reduceIte]
      refine ⟨⟨by omega, by omega, by omega, by omega⟩, ?_⟩
      rw [dayNumCal_jan, hw]; simp [h1]
    · by_cases h4 : dowJan1 m y > 4
      · simp only [h1, h4, ↓reduceIte]
        refine ⟨⟨by omega, by omega, by omega, by omega⟩, ?_⟩
        rw [dayNumCal_jan, hw]
        have : ¬ dowJan1 m y ≤ 4 := by omega
        simp only [this, ↓reduceIte]; omega
      · simp only [h1, h4, ↓reduceIte]
        rw [walkRev_spec m _ _ (by omega) (by omega)]
        simp only
        rw [monthLenB_leapYear]
        have hd := monthLen_bounds m (y - 1) 12 (by omega) (by omega)
        refine ⟨⟨by omega, by omega, by omega, by omega⟩, ?_⟩
        rw [dayNumCal_dec, hw]
        have : dowJan1 m y ≤ 4 := by omega
        simp only [this, ↓reduceIte]
        have : y - 1 + 1 = y := by omega
        rw [this]

end IsoDT.Lemmas
