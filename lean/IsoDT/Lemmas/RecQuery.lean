/-
  IsoDT.Lemmas.RecQuery — helper lemmas for the recurrence queries (`get_is_valid`, `r[i]`,
  `get_first_after`): reading an arithmetic series pointwise and as a set of instants, the points
  iteration yields are within bounds, prefixes of the iteration, probes outside the bounds.
-/
import IsoDT.Lemmas.Rec

namespace IsoDT.Lemmas
open IsoDT IsoDT.Model
open IsoDT.Spec (Date TZ TP)

/-! ### reading a series -/

/-- The `i`-th element of a series. -/
theorem series_getElem? (m : Mode) (rep : Nat) (tz : TZ) : ∀ (l : List TP) (i0 step : Int),
    SeriesOK m rep tz l i0 step → ∀ i : Nat, i < l.length →
      ∃ p, l[i]? = some p ∧ p.inst m = i0 + (i : Int) * step ∧ p.Valid m ∧ p.date.rep = rep ∧ p.tz = tz := by
  intro l
  induction l with
  | nil => intro _ _ _ i h; simp at h
  | cons p rest ih =>
    intro i0 step hs i h
    obtain ⟨h1, h2, h3, h4, h5⟩ := hs
    cases i with
    | zero => exact ⟨p, by simp only [List.getElem?_cons_zero], by rw [h1]; omega, h2, h3, h4⟩
    | succ k =>
      obtain ⟨q, e1, e2, e3⟩ := ih (i0 + step) step h5 k (by simpa using h)
      refine ⟨q, by simp only [List.getElem?_cons_succ]; exact e1, ?_, e3⟩
      rw [e2]
      have e : ((k + 1 : Nat) : Int) = (k : Int) + 1 := by omega
      rw [e, Int.add_mul]; omega

/-- The instants of a series are exactly `i0 + k·step` for `k` below its length. -/
theorem series_mem_iff (m : Mode) (rep : Nat) (tz : TZ) (l : List TP) (i0 step : Int)
    (hs : SeriesOK m rep tz l i0 step) (x : Int) :
    (∃ q ∈ l, q.inst m = x) ↔ ∃ k : Nat, k < l.length ∧ x = i0 + (k : Int) * step := by
  constructor
  · rintro ⟨q, hq, hqe⟩
    obtain ⟨i, hi, hget⟩ := List.getElem_of_mem hq
    obtain ⟨p, e1, e2, _⟩ := series_getElem? m rep tz l i0 step hs i hi
    rw [List.getElem?_eq_getElem hi, hget] at e1
    cases e1
    exact ⟨i, hi, by rw [← hqe, e2]⟩
  · rintro ⟨k, hk, hke⟩
    obtain ⟨p, e1, e2, _⟩ := series_getElem? m rep tz l i0 step hs k hk
    exact ⟨p, List.mem_of_getElem? e1, by rw [e2, hke]⟩

/-- Every point of a series is a valid point. -/
theorem series_mem_valid (m : Mode) (rep : Nat) (tz : TZ) : ∀ (l : List TP) (i0 step : Int),
    SeriesOK m rep tz l i0 step → ∀ q ∈ l, q.Valid m := by
  intro l
  induction l with
  | nil => intro _ _ _ q hq; cases hq
  | cons p rest ih =>
    intro i0 step hs q hq
    obtain ⟨_, h2, _, _, h5⟩ := hs
    rcases List.mem_cons.mp hq with rfl | hq
    · exact h2
    · exact ih (i0 + step) step h5 q hq

/-! ### integer division by the interval length -/

/-- Index `i` from the derived start is index `k = n − 1 − i` back from the end. -/
theorem rev_index (L : Int) (n i k : Nat) (h : i + k + 1 = n) (e : Int) :
    e - L * ((n : Int) - 1) + (i : Int) * L = e - (k : Int) * L := by
  have : (n : Int) - 1 = (i : Int) + (k : Int) := by omega
  rw [this, Int.mul_add, Int.mul_comm L i, Int.mul_comm L k]; omega

theorem natmul_ediv (L : Int) (hpos : 0 < L) (k : Nat) : ((k : Int) * L) / L = (k : Int) :=
  Int.mul_ediv_cancel _ (by omega)

/-- `x` is a non-negative multiple of `L` iff `0 ≤ x` and `L ∣ x` (as a remainder). -/
theorem nonneg_multiple_iff (L : Int) (hpos : 0 < L) (x : Int) :
    (∃ k : Nat, x = (k : Int) * L) ↔ 0 ≤ x ∧ x % L = 0 := by
  constructor
  · rintro ⟨k, rfl⟩
    exact ⟨Int.mul_nonneg (Int.natCast_nonneg k) (Int.le_of_lt hpos), Int.mul_emod_left _ _⟩
  · rintro ⟨h0, hm⟩
    have hdm := Int.emod_add_mul_ediv x L
    have hq : 0 ≤ x / L := Int.ediv_nonneg h0 (Int.le_of_lt hpos)
    refine ⟨(x / L).toNat, ?_⟩
    rw [Int.toNat_of_nonneg hq, Int.mul_comm]; omega

/-- The member `s + J·L` that is at most one interval after `p` is not later than any member
    `s + k·L` strictly later than `p`. -/
theorem least_member (L : Int) (hpos : 0 < L) (s p q J : Int) (hq : q = s + J * L) (hle : q ≤ p + L)
    (k : Nat) (hk : p < s + (k : Int) * L) : q ≤ s + (k : Int) * L := by
  by_cases h : J ≤ (k : Int)
  · have := Int.mul_le_mul_of_nonneg_right h (Int.le_of_lt hpos); omega
  · have h1 : (k : Int) + 1 ≤ J := by omega
    have := Int.mul_le_mul_of_nonneg_right h1 (Int.le_of_lt hpos)
    rw [Int.add_mul] at this; omega

/-! ### the points iteration yields are within the bounds -/

theorem iterFrom_mem_inBounds (m : Mode) (r : Rec) (rev : Bool) : ∀ (fuel : Nat) (p q : TP),
    q ∈ iterFrom m r rev fuel p → inBounds m r q = true := by
  intro fuel
  induction fuel with
  | zero => intro p q h; simp only [iterFrom] at h; cases h
  | succ fuel ih =>
    intro p q h
    simp only [iterFrom] at h
    by_cases cp : inBounds m r p = true
    · rw [if_pos cp] at h
      rcases List.mem_cons.mp h with rfl | h
      · exact cp
      · cases hn : (if rev = true then getPrev m r p else getNext m r p) with
        | none => rw [hn] at h; cases h
        | some q' => rw [hn] at h; exact ih q' q h
    · rw [if_neg cp] at h; cases h

/-- The three shapes of `__iter__`: nothing to start from; the single-point case; the loop. -/
theorem iter_shape (m : Mode) (r : Rec) :
    (∀ fuel, iter m r fuel = []) ∨
    (∃ p, ∀ fuel, iter m r fuel = if fuel = 0 then [] else if inBounds m r p = true then [p] else []) ∨
    (∃ p, ∀ fuel, iter m r fuel = iterFrom m r r.start.isNone fuel p) := by
  cases hp : (if r.start.isNone = true then r.end_ else r.start) with
  | none => left; intro fuel; unfold iter; simp only [hp]
  | some p =>
    right
    cases hd : r.dur with
    | none =>
      left; refine ⟨p, fun fuel => ?_⟩; unfold iter; simp only [hp, hd, Bool.or_true, ↓reduceIte]
    | some d =>
      by_cases c : (r.reps == some 1 || !d.nonzero) = true
      · left; refine ⟨p, fun fuel => ?_⟩; unfold iter; simp only [hp, hd, c, ↓reduceIte]
      · right; refine ⟨p, fun fuel => ?_⟩; unfold iter
        simp only [hp, hd, c, Bool.false_eq_true, ↓reduceIte]

theorem iter_mem_inBounds (m : Mode) (r : Rec) (fuel : Nat) (q : TP) (h : q ∈ iter m r fuel) :
    inBounds m r q = true := by
  rcases iter_shape m r with h0 | ⟨p, h1⟩ | ⟨p, h2⟩
  · rw [h0] at h; cases h
  · rw [h1] at h
    by_cases c0 : fuel = 0
    · rw [if_pos c0] at h; cases h
    · rw [if_neg c0] at h
      by_cases cb : inBounds m r p = true
      · rw [if_pos cb] at h
        rcases List.mem_cons.mp h with rfl | h
        · exact cb
        · cases h
      · rw [if_neg cb] at h; cases h
  · rw [h2] at h
    exact iterFrom_mem_inBounds m r _ fuel p q h

/-- Being within the bounds depends on the instant only. -/
theorem inBounds_congr (m : Mode) (r : Rec) (d : Dur) (L : Int) (hr : ExactRec m r d L) (p q : TP)
    (hp : p.Valid m) (hq : q.Valid m) (h : q.inst m = p.inst m) : inBounds m r q = inBounds m r p := by
  have a := inBounds_iff m r d L hr p hp
  have b := inBounds_iff m r d L hr q hq
  rw [h] at b
  rw [Bool.eq_iff_iff, a, b]

/-! ### prefixes of the iteration: `r[i]` is the `i`-th point of any longer run -/

theorem iterFrom_prefix (m : Mode) (r : Rec) (rev : Bool) : ∀ (i fuel : Nat) (p : TP), i < fuel →
    (iterFrom m r rev fuel p)[i]? = (iterFrom m r rev (i + 1) p)[i]? := by
  intro i
  induction i with
  | zero =>
    intro fuel p h
    cases fuel with
    | zero => omega
    | succ f =>
      simp only [iterFrom]
      by_cases cp : inBounds m r p = true
      · simp only [cp, ↓reduceIte, List.getElem?_cons_zero]
      · simp only [cp, Bool.false_eq_true, ↓reduceIte]
  | succ j ih =>
    intro fuel p h
    cases fuel with
    | zero => omega
    | succ f =>
      simp only [iterFrom]
      by_cases cp : inBounds m r p = true
      · simp only [cp, ↓reduceIte, List.getElem?_cons_succ]
        cases (if rev = true then getPrev m r p else getNext m r p) with
        | none => rfl
        | some q => exact ih f q (by omega)
      · simp only [cp, Bool.false_eq_true, ↓reduceIte]

theorem iter_prefix (m : Mode) (r : Rec) (i fuel : Nat) (h : i < fuel) :
    (iter m r fuel)[i]? = (iter m r (i + 1))[i]? := by
  rcases iter_shape m r with h0 | ⟨p, h1⟩ | ⟨p, h2⟩
  · rw [h0, h0]
  · rw [h1, h1]
    have c0 : ¬ fuel = 0 := by omega
    have c1 : ¬ i + 1 = 0 := by omega
    rw [if_neg c0, if_neg c1]
  · rw [h2, h2]
    exact iterFrom_prefix m r _ i fuel p h

/-! ### probes outside the bounds -/

theorem inBounds_false_of_lt_start (m : Mode) (r : Rec) (s p : TP) (hs : r.start = some s)
    (h : tpLt m p s = true) : inBounds m r p = false := by
  unfold inBounds; simp only [hs, h, Bool.not_true, Bool.false_and]

theorem inBounds_false_of_gt_end (m : Mode) (r : Rec) (e p : TP) (he : r.end_ = some e)
    (h : tpGt m p e = true) : inBounds m r p = false := by
  unfold inBounds; simp only [he, h, Bool.not_true, Bool.and_false]

theorem getFirstAfter_before_start (m : Mode) (r : Rec) (s p : TP) (hs : r.start = some s)
    (h : tpLt m p s = true) (fuel : Nat) : getFirstAfter m r p fuel = some s := by
  unfold getFirstAfter
  simp only [hs, inBounds_false_of_lt_start m r s p hs h, Bool.false_eq_true, ↓reduceIte, h]

theorem getFirstAfter_after_end (m : Mode) (r : Rec) (s e p : TP) (hs : r.start = some s)
    (he : r.end_ = some e) (h : tpGt m p e = true) (hns : tpLt m p s = false) (fuel : Nat) :
    getFirstAfter m r p fuel = none := by
  unfold getFirstAfter
  simp only [hs, inBounds_false_of_gt_end m r e p he h, Bool.false_eq_true, ↓reduceIte, hns]

end IsoDT.Lemmas
