/-
  IsoDT.Lemmas.TextTrunc — the VALUE half of parsing for the TRUNCATED date and time forms
  (`allow_truncated=True`): a specification of what the groups of a truncated template spell
  (`TVals`, `tenvOf`), of the keyword arguments `TimePoint(...)` is to receive (`targsOf`) and of the
  truncated point they denote (`tpointOf`), written without reference to `assemble` / `ctor`, and the
  generic theorems that `_create_timepoint_from_info` (`assemble`) and `TimePoint.__init__` (`ctor`)
  compute exactly these — for every pair of templates that passes decidable shape checks (`tItemOK`,
  `tdateShapeOK`, `ttimeShapeOK`), which `Props/C07d` discharges over the regenerated tables by
  kernel evaluation.

  Truncated date forms have no sign, expanded-year or century group: the year, if any, is the
  year-of-century `YY` or the year-of-decade `z` alone; a literal `truncated` group (`-`, `--`, `---`)
  marks the omitted higher-order fields.  Truncated time forms are `-mm`, `-mmss`, `--ss` (with an
  optional fraction on the last unit).
-/
import IsoDT.Lemmas.TextDecodeAll

namespace IsoDT.Text
open IsoDT IsoDT.Model IsoDT.Lemmas
open IsoDT.Spec (TZ Date)

/-! ## The specification: field values, group texts, keyword arguments -/

/-- `Vals` plus the year of decade `z` that only truncated week forms spell. -/
structure TVals extends Vals where
  /-- year of decade `z` -/
  z : Nat := 0
  deriving DecidableEq, Repr, Inhabited

/-- The number a digit group spells. -/
def TVals.nat (v : TVals) : Fld → Nat
  | .yearOfDecade => v.z
  | f => v.toVals.nat f

/-- The group texts a (truncated or not) date / time template spells for the values `v`. -/
def tenvOf : Template → TVals → Env
  | [], _ => []
  | .lit _ :: t, v => tenvOf t v
  | .digits f n :: t, v => (f, renderNat n (v.nat f)) :: tenvOf t v
  | .digitsPlus f :: t, v => (f, v.dec f) :: tenvOf t v
  | .sign f :: t, v => (f, [if v.neg f then '-' else '+']) :: tenvOf t v
  | .group f ls :: t, v => (f, ls) :: tenvOf t v

/-- The numeric groups of truncated date forms and of all time forms. -/
def isTIntFld : Fld → Bool
  | .yearOfCentury | .yearOfDecade | .monthOfYear | .dayOfMonth | .dayOfYear | .weekOfYear | .dayOfWeek
  | .hourOfDay | .minuteOfHour | .secondOfMinute => true
  | _ => false

/-- The documented width of each of these digit groups. -/
def tWidth : Fld → Nat
  | .yearOfDecade => 1
  | .dayOfYear => 3
  | .dayOfWeek => 1
  | _ => 2

/-- One item of a truncated date expression or of any time expression: a literal, a digit group of a
    numeric field with its documented width, a decimal group of a fraction field, or the literal
    `truncated` marker group.  No sign group. -/
def tItemOK : Item → Bool
  | .lit _ => true
  | .digits f n => isTIntFld f && n == tWidth f
  | .digitsPlus f => isDecFld f
  | .sign _ => false
  | .group f _ => f == .truncated

/-- The values fit the widths of their groups. -/
def TVals.Fit (ned : Nat) (v : TVals) : Prop := v.toVals.Fit ned ∧ v.z < 10

instance (ned : Nat) (v : TVals) : Decidable (v.Fit ned) := by unfold TVals.Fit; infer_instance

/-- The year a truncated date expression spells: the year of century and/or of decade alone; none if
    the form has neither. -/
def tyearOf (de : Template) (v : TVals) : Option Int :=
  if hasGroup de .yearOfCentury || hasGroup de .yearOfDecade then
    some (((if hasGroup de .yearOfDecade then v.z else 0) +
           (if hasGroup de .yearOfCentury then v.yy else 0) : Nat) : Int)
  else none

/-- `truncated_property`. -/
def tpropOf (de : Template) : Option TruncProp :=
  if hasGroup de .yearOfDecade then some .yearOfDecade
  else if hasGroup de .yearOfCentury then some .yearOfCentury
  else none

/-- The keyword arguments `TimePoint(...)` is to receive for a truncated date expression `de` (`[]`: no
    date, `T...` alone), a time expression `te` (`[]` for a date alone), the processed zone and the
    values `v`: exactly the spelled fields, `truncated=True`. -/
def targsOf (de te : Template) (zone : ZoneInfo) (v : TVals) (dump : Option (List Char)) : Args :=
  { ned := 0
    year := tyearOf de v
    month := fieldOf de .monthOfYear v.month
    day := fieldOf de .dayOfMonth v.day
    doy := fieldOf de .dayOfYear v.doy
    week := fieldOf de .weekOfYear v.week
    dow := fieldOf de .dayOfWeek v.dow
    hour := fieldOf te .hourOfDay v.hour
    minute := fieldOf te .minuteOfHour v.minute
    second := fieldOf te .secondOfMinute v.second
    hourDec := decOf te .hourDec v.hourDec
    minuteDec := decOf te .minuteDec v.minuteDec
    secondDec := decOf te .secondDec v.secondDec
    tzHour := zone.hour
    tzMinute := zone.minute
    truncated := true
    truncProp := tpropOf de
    dumpFmt := dump }

/-- The truncated point the documented semantics prescribes: exactly the spelled fields (its
    "truncated properties"), nothing defaulted, `truncated`, the zone `tz` (unknown iff `unk`). -/
def tpointOf (de te : Template) (v : TVals) (tz : TZ) (unk : Bool) (dump : Option (List Char)) : XTP :=
  { ned := 0
    year := tyearOf de v
    month := fieldOf de .monthOfYear v.month
    day := fieldOf de .dayOfMonth v.day
    doy := fieldOf de .dayOfYear v.doy
    week := fieldOf de .weekOfYear v.week
    dow := fieldOf de .dayOfWeek v.dow
    hour := fieldOf te .hourOfDay v.hour
    minute := fieldOf te .minuteOfHour v.minute
    second := fieldOf te .secondOfMinute v.second
    hourDec := decOf te .hourDec v.hourDec
    minuteDec := decOf te .minuteDec v.minuteDec
    secondDec := decOf te .secondDec v.secondDec
    tz := tz
    tzUnknown := unk
    truncated := true
    truncProp := tpropOf de
    dumpFmt := dump }

/-- The zone of a truncated point is unknown iff neither hour nor minute reached the constructor. -/
def unknownOf (zone : ZoneInfo) : Bool := zone.hour.isNone && zone.minute.isNone

/-! ## The groups of `tenvOf` -/

/-- The text of group `f` under `v`, by the class of the field alone (numeric or decimal). -/
def tfldText (v : TVals) (f : Fld) : List Char :=
  if isTIntFld f then renderNat (tWidth f) (v.nat f) else v.dec f

theorem tfit_nat (ned : Nat) (v : TVals) (hv : v.Fit ned) (f : Fld) (hf : isTIntFld f = true) :
    v.nat f < 10 ^ tWidth f := by
  obtain ⟨⟨h1, h2, h3, h4, h5, h6, h7, h8, h9, h10, h11, h12, h13, _⟩, hz⟩ := hv
  cases f <;> first | exact absurd hf (by decide) | (simp only [TVals.nat, Vals.nat, tWidth]; omega)

theorem tenvOf_fields (t : Template) (v : TVals) : (tenvOf t v).map Prod.fst = groupFields t := by
  induction t with
  | nil => rfl
  | cons it t ih => cases it <;> simp [tenvOf, groupFields, ih]

theorem has_tenvOf (t : Template) (v : TVals) (f : Fld) : Env.has (tenvOf t v) f = hasGroup t f := by
  rw [Env.has_iff, tenvOf_fields]; rfl

/-- Every numeric or decimal group of a template whose items are all `tItemOK` has the text its
    field's class prescribes. -/
theorem get_tenvOf (t : Template) (h : t.all tItemOK = true) (v : TVals) (f : Fld) (hf : f ≠ .truncated) :
    Env.get? (tenvOf t v) f = if hasGroup t f then some (tfldText v f) else none := by
  induction t with
  | nil => rfl
  | cons it t ih =>
    simp only [List.all_cons, Bool.and_eq_true] at h
    have ih := ih h.2
    have hit := h.1
    unfold hasGroup at ih ⊢
    cases it with
    | lit c => simpa [tenvOf, groupFields] using ih
    | digits g n =>
      simp only [tItemOK, Bool.and_eq_true, beq_iff_eq] at hit
      simp only [tenvOf, Env.get?, groupFields, hasGroup_cons]
      by_cases hg : g = f
      · subst hg; simp [tfldText, hit.1, hit.2]
      · have : (f == g) = false := by simp [Ne.symm hg]
        simp only [hg, if_false, this, Bool.false_or]; exact ih
    | digitsPlus g =>
      simp only [tItemOK] at hit
      simp only [tenvOf, Env.get?, groupFields, hasGroup_cons]
      by_cases hg : g = f
      · subst hg
        have h1 : isTIntFld g = false := by cases g <;> first | rfl | exact absurd hit (by decide)
        simp [tfldText, h1]
      · have : (f == g) = false := by simp [Ne.symm hg]
        simp only [hg, if_false, this, Bool.false_or]; exact ih
    | sign g => simp [tItemOK] at hit
    | group g ls =>
      simp only [tItemOK, beq_iff_eq] at hit
      subst hit
      have hg : ¬ (Fld.truncated = f) := fun e => hf e.symm
      have : (f == Fld.truncated) = false := by simp [hf]
      simp only [tenvOf, Env.get?, groupFields, hasGroup_cons, hg, if_false, this, Bool.false_or]
      exact ih

/-- A template whose items are all `tItemOK` has numeric groups of the listed fields, decimal groups and
    the `truncated` marker only (no sign, expanded year, century or zone group). -/
theorem hasGroup_tclass (t : Template) (h : t.all tItemOK = true) (f : Fld)
    (hf : hasGroup t f = true) : isTIntFld f = true ∨ isDecFld f = true ∨ f = .truncated := by
  induction t with
  | nil => simp [hasGroup, groupFields] at hf
  | cons it t ih =>
    simp only [List.all_cons, Bool.and_eq_true] at h
    have ih := ih h.2
    have hit := h.1
    unfold hasGroup at ih hf
    cases it with
    | lit c => exact ih (by simpa [groupFields] using hf)
    | digits g n =>
      simp only [tItemOK, Bool.and_eq_true, beq_iff_eq] at hit
      simp only [groupFields, hasGroup_cons, Bool.or_eq_true, beq_iff_eq] at hf
      rcases hf with rfl | hf
      · exact Or.inl hit.1
      · exact ih hf
    | digitsPlus g =>
      simp only [tItemOK] at hit
      simp only [groupFields, hasGroup_cons, Bool.or_eq_true, beq_iff_eq] at hf
      rcases hf with rfl | hf
      · exact Or.inr (Or.inl hit)
      · exact ih hf
    | sign g => simp [tItemOK] at hit
    | group g ls =>
      simp only [tItemOK, beq_iff_eq] at hit
      simp only [groupFields, hasGroup_cons, Bool.or_eq_true, beq_iff_eq] at hf
      rcases hf with rfl | hf
      · exact Or.inr (Or.inr hit)
      · exact ih hf

theorem hasGroup_tunclassed (t : Template) (h : t.all tItemOK = true) (f : Fld)
    (h1 : isTIntFld f = false) (h2 : isDecFld f = false) (h3 : f ≠ .truncated) :
    hasGroup t f = false := by
  cases hf : hasGroup t f with
  | false => rfl
  | true =>
    rcases hasGroup_tclass t h f hf with e | e | e
    · rw [h1] at e; cases e
    · rw [h2] at e; cases e
    · exact absurd e h3

/-- The rendered groups fit the template: `tmatch` recovers exactly them (`tmatch_trender`). -/
theorem fits_tenvOf (ned : Nat) (t : Template) (hw : wf t = true) (h : t.all tItemOK = true)
    (v : TVals) (hv : v.Fit ned) : fits t (tenvOf t v) = true := by
  induction t with
  | nil => rfl
  | cons it t ih =>
    simp only [List.all_cons, Bool.and_eq_true] at h
    have hit := h.1
    cases it with
    | lit c => simpa [tenvOf, fits] using ih (by simpa [wf] using hw) h.2
    | digits g n =>
      have := ih (by simpa [wf] using hw) h.2
      simp [tenvOf, fits, renderNat_length, renderNat_digits, this]
    | digitsPlus g =>
      simp only [tItemOK] at hit
      simp only [wf, List.isEmpty_iff] at hw
      subst hw
      obtain ⟨h1, h2⟩ := fit_dec ned v.toVals hv.1 g hit
      simp [tenvOf, fits, h1, h2]
    | sign g => simp [tItemOK] at hit
    | group g ls =>
      have := ih (by simpa [wf] using hw) h.2
      simp [tenvOf, fits, this]

/-! ## The integer and decimal groups, decoded -/

theorem tWidth_pos (f : Fld) : 0 < tWidth f := by cases f <;> decide

theorem optInt_tenvOf (ned : Nat) (t : Template) (h : t.all tItemOK = true) (v : TVals)
    (hv : v.Fit ned) (f : Fld) (hf : isTIntFld f = true) :
    optInt (tenvOf t v) f = some (fieldOf t f (v.nat f)) := by
  have hne : f ≠ .truncated := by intro e; subst e; cases hf
  unfold optInt fieldOf
  rw [get_tenvOf t h v f hne]
  cases hg : hasGroup t f with
  | false => simp
  | true =>
    simp only [if_true, tfldText, hf]
    rw [intOf_renderNat _ _ (tWidth_pos f) (tfit_nat ned v hv f hf)]; rfl

theorem optInt_tabsent (t : Template) (h : t.all tItemOK = true) (v : TVals) (f : Fld)
    (hne : f ≠ .truncated) (hf : hasGroup t f = false) : optInt (tenvOf t v) f = some none := by
  unfold optInt
  rw [get_tenvOf t h v f hne, hf]; rfl

theorem dec_tenvOf (t : Template) (h : t.all tItemOK = true) (v : TVals) (f : Fld)
    (hf : isDecFld f = true) : Env.get? (tenvOf t v) f = decOf t f (v.dec f) := by
  have h1 : isTIntFld f = false := by cases f <;> first | rfl | exact absurd hf (by decide)
  have hne : f ≠ .truncated := by intro e; subst e; cases hf
  rw [get_tenvOf t h v f hne]
  simp [decOf, tfldText, h1]

/-! ## `_create_timepoint_from_info` computes `targsOf` -/

/-- **Field assembly (truncated)**: on the groups `tenvOf` spells for a truncated date expression (or no
    date at all) and any time expression (or none), `_create_timepoint_from_info` assembles exactly the
    keyword arguments `targsOf` prescribes — provided the date is marked truncated (`dtr`: it has the
    marker group, or is absent) or is implicitly truncated (a year of century without century). -/
theorem assemble_tenvOf (cfg : Cfg) (de te : Template) (dtr : Bool) (zone : ZoneInfo) (expr : List Char)
    (v : TVals) (dump : Option (List Char))
    (hde : de.all tItemOK = true) (hte : te.all tItemOK = true)
    (htr : dtr = true ∨ hasGroup de .yearOfCentury = true) (hv : v.Fit cfg.pt.ned) :
    assemble cfg ⟨tenvOf de v, dtr, tenvOf te v, zone, expr⟩ dump = some (targsOf de te zone v dump) := by
  have eZ := optInt_tenvOf _ de hde v hv .yearOfDecade rfl
  have eY := optInt_tenvOf _ de hde v hv .yearOfCentury rfl
  have eM := optInt_tenvOf _ de hde v hv .monthOfYear rfl
  have eD := optInt_tenvOf _ de hde v hv .dayOfMonth rfl
  have eO := optInt_tenvOf _ de hde v hv .dayOfYear rfl
  have eW := optInt_tenvOf _ de hde v hv .weekOfYear rfl
  have eK := optInt_tenvOf _ de hde v hv .dayOfWeek rfl
  have eh := optInt_tenvOf _ te hte v hv .hourOfDay rfl
  have em := optInt_tenvOf _ te hte v hv .minuteOfHour rfl
  have es := optInt_tenvOf _ te hte v hv .secondOfMinute rfl
  have hC : hasGroup de .century = false := hasGroup_tunclassed de hde _ rfl rfl (by decide)
  have hX : hasGroup de .expandedYear = false := hasGroup_tunclassed de hde _ rfl rfl (by decide)
  have hS : hasGroup de .yearSign = false := hasGroup_tunclassed de hde _ rfl rfl (by decide)
  have eC := optInt_tabsent de hde v .century (by decide) hC
  have eX := optInt_tabsent de hde v .expandedYear (by decide) hX
  have eS : Env.get? (tenvOf de v) .yearSign = none := by
    rw [get_tenvOf de hde v .yearSign (by decide), hS]; rfl
  have dh := dec_tenvOf te hte v .hourDec rfl
  have dm := dec_tenvOf te hte v .minuteDec rfl
  have ds := dec_tenvOf te hte v .secondDec rfl
  unfold assemble
  simp only [eX, eC, eY, eM, eD, eO, eW, eK, eh, em, es, eZ, eS, dh, dm, ds, has_tenvOf, hC, hX, hS]
  simp only [targsOf, tyearOf, tpropOf, fieldOf, TVals.nat, Vals.nat, Vals.dec, Option.some.injEq]
  rcases htr with rfl | hY
  · cases hY : hasGroup de .yearOfCentury <;> cases hZ : hasGroup de .yearOfDecade <;> simp
  · rw [hY]
    cases dtr <;> cases hZ : hasGroup de .yearOfDecade <;> simp

/-! ## `TimePoint.__init__` on truncated arguments -/

/-- The point `TimePoint(truncated=True, ...)` stores: the arguments as given, nothing defaulted. -/
def pointOfArgs (a : Args) (tz : TZ) : XTP :=
  { ned := a.ned, year := a.year, month := a.month, day := a.day, doy := a.doy, week := a.week,
    dow := a.dow, hour := a.hour, minute := a.minute, second := a.second, hourDec := a.hourDec,
    minuteDec := a.minuteDec, secondDec := a.secondDec, tz := tz,
    tzUnknown := a.tzHour.isNone && a.tzMinute.isNone, truncated := true, truncProp := a.truncProp,
    dumpFmt := a.dumpFmt }

/-- **Constructor (truncated)**: with `truncated=True`, a decimal fraction only on the last given unit
    and at most one of the month/day, week/weekday, ordinal-day families, `TimePoint(...)` stores
    exactly its arguments if the zone and `_check_bounds` accept them, and is an error otherwise. -/
theorem ctor_truncated (m : Mode) (a : Args) (ht : a.truncated = true)
    (h1 : (a.hourDec.isSome && (a.hour.isNone || a.minute.isSome || a.second.isSome)) = false)
    (h2 : (a.minuteDec.isSome && (a.minute.isNone || a.second.isSome)) = false)
    (h3 : (a.secondDec.isSome && a.second.isNone) = false)
    (h5 : ((truthy a.month || truthy a.day) && (truthy a.week || truthy a.dow)) = false)
    (h6 : ((truthy a.month || truthy a.day) && a.doy.isSome) = false)
    (h7 : ((truthy a.week || truthy a.dow) && a.doy.isSome) = false) :
    ctor m a =
      match mkTZ m (a.tzHour.getD 0) (a.tzMinute.getD 0) with
      | none => none
      | some tz => if checkBounds m (pointOfArgs a tz) then some (pointOfArgs a tz) else none := by
  unfold ctor
  simp only [h1, h2, h3, ht, Bool.false_eq_true, if_false, Bool.not_true, Bool.false_and, Bool.true_and]
  cases mkTZ m (a.tzHour.getD 0) (a.tzMinute.getD 0) with
  | none => rfl
  | some tz =>
    simp only [h5, h6, h7, Bool.false_eq_true, if_false]
    rfl

/-- Which of the month / day / day-of-year / week / weekday groups a truncated date expression has: the
    documented patterns (nothing, month, month-day, day, ordinal day, week-weekday, week, weekday). -/
def tdateShapeOK (de : Template) : Bool :=
  [(false, false, false, false, false), (true, false, false, false, false),
   (true, true, false, false, false), (false, true, false, false, false),
   (false, false, true, false, false), (false, false, false, true, true),
   (false, false, false, true, false), (false, false, false, false, true)].contains (datePattern de)

/-- The time patterns: the seven non-truncated ones (`timeShapeOK`) and `-mm`, `-mmss`, `--ss`, each
    with or without a fraction on its last unit. -/
def ttimeShapeOK (te : Template) : Bool :=
  timeShapeOK te ||
  [(false, true, false, false, false, false), (false, true, true, false, false, false),
   (false, false, true, false, false, false), (false, true, false, false, true, false),
   (false, true, true, false, false, true), (false, false, true, false, false, true)].contains
    (timePattern te)

theorem tdateShape_cases (de : Template) (h : tdateShapeOK de = true) :
    datePattern de = (false, false, false, false, false) ∨ datePattern de = (true, false, false, false, false) ∨
    datePattern de = (true, true, false, false, false) ∨ datePattern de = (false, true, false, false, false) ∨
    datePattern de = (false, false, true, false, false) ∨ datePattern de = (false, false, false, true, true) ∨
    datePattern de = (false, false, false, true, false) ∨ datePattern de = (false, false, false, false, true) := by
  simpa [tdateShapeOK] using h

theorem ttimeShape_cases (te : Template) (h : ttimeShapeOK te = true) :
    timePattern te = (false, false, false, false, false, false) ∨
    timePattern te = (true, false, false, false, false, false) ∨
    timePattern te = (true, true, false, false, false, false) ∨
    timePattern te = (true, true, true, false, false, false) ∨
    timePattern te = (true, false, false, true, false, false) ∨
    timePattern te = (true, true, false, false, true, false) ∨
    timePattern te = (true, true, true, false, false, true) ∨
    timePattern te = (false, true, false, false, false, false) ∨
    timePattern te = (false, true, true, false, false, false) ∨
    timePattern te = (false, false, true, false, false, false) ∨
    timePattern te = (false, true, false, false, true, false) ∨
    timePattern te = (false, true, true, false, false, true) ∨
    timePattern te = (false, false, true, false, false, true) := by
  simp only [ttimeShapeOK, Bool.or_eq_true] at h
  rcases h with h | h
  · have := timeShape_cases te h
    rcases this with h | h | h | h | h | h | h <;> simp [h]
  · have : timePattern te = (false, true, false, false, false, false) ∨
        timePattern te = (false, true, true, false, false, false) ∨
        timePattern te = (false, false, true, false, false, false) ∨
        timePattern te = (false, true, false, false, true, false) ∨
        timePattern te = (false, true, true, false, false, true) ∨
        timePattern te = (false, false, true, false, false, true) := by simpa using h
    rcases this with h | h | h | h | h | h <;> simp [h]

theorem truthy_none : truthy none = false := rfl

/-- **Constructor on `targsOf`**: `TimePoint(...)` on the arguments of a truncated form is `tpointOf` if
    the zone and `_check_bounds` accept it, an error otherwise — for every documented truncated date
    pattern and every time pattern. -/
theorem ctor_targsOf (m : Mode) (de te : Template) (zone : ZoneInfo) (v : TVals) (dump : Option (List Char))
    (hd : tdateShapeOK de = true) (ht : ttimeShapeOK te = true) :
    ctor m (targsOf de te zone v dump) =
      match mkTZ m (zone.hour.getD 0) (zone.minute.getD 0) with
      | none => none
      | some tz =>
        if checkBounds m (tpointOf de te v tz (unknownOf zone) dump) then
          some (tpointOf de te v tz (unknownOf zone) dump)
        else none := by
  have hd := tdateShape_cases de hd
  have ht := ttimeShape_cases te ht
  simp only [datePattern, timePattern, Prod.mk.injEq] at hd ht
  rw [ctor_truncated m (targsOf de te zone v dump) rfl]
  · rfl
  · rcases ht with ⟨t1, t2, t3, t4, t5, t6⟩ | ⟨t1, t2, t3, t4, t5, t6⟩ | ⟨t1, t2, t3, t4, t5, t6⟩ |
      ⟨t1, t2, t3, t4, t5, t6⟩ | ⟨t1, t2, t3, t4, t5, t6⟩ | ⟨t1, t2, t3, t4, t5, t6⟩ | ⟨t1, t2, t3, t4, t5, t6⟩ |
      ⟨t1, t2, t3, t4, t5, t6⟩ | ⟨t1, t2, t3, t4, t5, t6⟩ | ⟨t1, t2, t3, t4, t5, t6⟩ | ⟨t1, t2, t3, t4, t5, t6⟩ |
      ⟨t1, t2, t3, t4, t5, t6⟩ | ⟨t1, t2, t3, t4, t5, t6⟩ <;>
    simp [targsOf, fieldOf, decOf, t1, t2, t3, t4, t5, t6]
  · rcases ht with ⟨t1, t2, t3, t4, t5, t6⟩ | ⟨t1, t2, t3, t4, t5, t6⟩ | ⟨t1, t2, t3, t4, t5, t6⟩ |
      ⟨t1, t2, t3, t4, t5, t6⟩ | ⟨t1, t2, t3, t4, t5, t6⟩ | ⟨t1, t2, t3, t4, t5, t6⟩ | ⟨t1, t2, t3, t4, t5, t6⟩ |
      ⟨t1, t2, t3, t4, t5, t6⟩ | ⟨t1, t2, t3, t4, t5, t6⟩ | ⟨t1, t2, t3, t4, t5, t6⟩ | ⟨t1, t2, t3, t4, t5, t6⟩ |
      ⟨t1, t2, t3, t4, t5, t6⟩ | ⟨t1, t2, t3, t4, t5, t6⟩ <;>
    simp [targsOf, fieldOf, decOf, t1, t2, t3, t4, t5, t6]
  · rcases ht with ⟨t1, t2, t3, t4, t5, t6⟩ | ⟨t1, t2, t3, t4, t5, t6⟩ | ⟨t1, t2, t3, t4, t5, t6⟩ |
      ⟨t1, t2, t3, t4, t5, t6⟩ | ⟨t1, t2, t3, t4, t5, t6⟩ | ⟨t1, t2, t3, t4, t5, t6⟩ | ⟨t1, t2, t3, t4, t5, t6⟩ |
      ⟨t1, t2, t3, t4, t5, t6⟩ | ⟨t1, t2, t3, t4, t5, t6⟩ | ⟨t1, t2, t3, t4, t5, t6⟩ | ⟨t1, t2, t3, t4, t5, t6⟩ |
      ⟨t1, t2, t3, t4, t5, t6⟩ | ⟨t1, t2, t3, t4, t5, t6⟩ <;>
    simp [targsOf, fieldOf, decOf, t1, t2, t3, t4, t5, t6]
  · rcases hd with ⟨d1, d2, d3, d4, d5⟩ | ⟨d1, d2, d3, d4, d5⟩ | ⟨d1, d2, d3, d4, d5⟩ | ⟨d1, d2, d3, d4, d5⟩ |
      ⟨d1, d2, d3, d4, d5⟩ | ⟨d1, d2, d3, d4, d5⟩ | ⟨d1, d2, d3, d4, d5⟩ | ⟨d1, d2, d3, d4, d5⟩ <;>
    simp [targsOf, fieldOf, truthy_none, d1, d2, d3, d4, d5]
  · rcases hd with ⟨d1, d2, d3, d4, d5⟩ | ⟨d1, d2, d3, d4, d5⟩ | ⟨d1, d2, d3, d4, d5⟩ | ⟨d1, d2, d3, d4, d5⟩ |
      ⟨d1, d2, d3, d4, d5⟩ | ⟨d1, d2, d3, d4, d5⟩ | ⟨d1, d2, d3, d4, d5⟩ | ⟨d1, d2, d3, d4, d5⟩ <;>
    simp [targsOf, fieldOf, truthy_none, d1, d2, d3, d4, d5]
  · rcases hd with ⟨d1, d2, d3, d4, d5⟩ | ⟨d1, d2, d3, d4, d5⟩ | ⟨d1, d2, d3, d4, d5⟩ | ⟨d1, d2, d3, d4, d5⟩ |
      ⟨d1, d2, d3, d4, d5⟩ | ⟨d1, d2, d3, d4, d5⟩ | ⟨d1, d2, d3, d4, d5⟩ | ⟨d1, d2, d3, d4, d5⟩ <;>
    simp [targsOf, fieldOf, truthy_none, d1, d2, d3, d4, d5]

/-! ## `_check_bounds` on the truncated point -/

/-- The time of day of a truncated point is legal iff `TimeValid` (an absent hour counts as 0 — so the
    minute and second must be below 60). -/
theorem timeBounds_tpointOf (m : Mode) (de te : Template) (v : TVals) (tz : TZ) (unk : Bool)
    (dump : Option (List Char)) (ht : ttimeShapeOK te = true) :
    timeBounds m (tpointOf de te v tz unk dump).hour (tpointOf de te v tz unk dump).minute
      (tpointOf de te v tz unk dump).second (tpointOf de te v tz unk dump).hourDec
      (tpointOf de te v tz unk dump).minuteDec (tpointOf de te v tz unk dump).secondDec = true ↔
    TimeValid te v.toVals := by
  have ht := ttimeShape_cases te ht
  simp only [timePattern, Prod.mk.injEq] at ht
  rcases ht with ⟨t1, t2, t3, t4, t5, t6⟩ | ⟨t1, t2, t3, t4, t5, t6⟩ | ⟨t1, t2, t3, t4, t5, t6⟩ |
      ⟨t1, t2, t3, t4, t5, t6⟩ | ⟨t1, t2, t3, t4, t5, t6⟩ | ⟨t1, t2, t3, t4, t5, t6⟩ | ⟨t1, t2, t3, t4, t5, t6⟩ |
      ⟨t1, t2, t3, t4, t5, t6⟩ | ⟨t1, t2, t3, t4, t5, t6⟩ | ⟨t1, t2, t3, t4, t5, t6⟩ | ⟨t1, t2, t3, t4, t5, t6⟩ |
      ⟨t1, t2, t3, t4, t5, t6⟩ | ⟨t1, t2, t3, t4, t5, t6⟩ <;>
    simp [timeBounds, tpointOf, TimeValid, hourOf, minuteOf, secondOf, decOf, fieldOf, hoursInDay_eq,
      minutesInHour_eq, secondsInMinute_eq, t1, t2, t3, t4, t5, t6]
  all_goals (
    first
    | omega
    | (by_cases h24 : v.hour = 24
       · simp [h24]
       · have h24' : ¬ ((v.hour : Int) = 24) := by omega
         simp [h24, h24']
         omega))

end IsoDT.Text
