/-
  IsoDT.Lemmas.RecNominalQuery — helper lemmas for the queries (`get_next`, `get_prev`, `r[i]`,
  `get_is_valid`, `get_first_after`) and for shifting of recurrences whose interval has months
  and/or years (`NominalNonneg`): point additions are total, the normal form of a point is unique,
  `get_next` walks the iteration, scans over strictly monotone lists.
-/
import IsoDT.Lemmas.RecNominal
import IsoDT.Lemmas.RecQuery
import IsoDT.Lemmas.RecShift

namespace IsoDT.Lemmas
open IsoDT IsoDT.Model
open IsoDT.Spec (Date TZ TP)

/-! ### `p + x` for any duration; uniqueness of the normal form -/

/-- `p + x` is defined for EVERY duration `x` (exact or not, any signs) and every valid point `p`,
    and is a valid point with `0 ≤ h < 24` in `p`'s representation and offset. -/
theorem addDur_total (m : Mode) (p : TP) (x : Dur) (hp : p.Valid m) :
    ∃ q, addDur m p x = some q ∧ q.Strict m ∧ q.date.rep = p.date.rep ∧ q.tz = p.tz := by
  cases x with
  | weeks w =>
    obtain ⟨q, h, g⟩ := addDur_exact m p (.weeks w) hp rfl
    exact ⟨q, h, g.strict, g.rep, g.tz⟩
  | units y mo d h mi s =>
    obtain ⟨q, e, sq, rq, tq, _⟩ := addDur_units_mono m p y mo d h mi s hp
    exact ⟨q, e, sq, rq, tq⟩

/-- Two points with `0 ≤ h < 24` in the same representation and offset that denote the same
    instant are the same point. -/
theorem strict_unique (m : Mode) (a b : TP) (ha : a.Strict m) (hb : b.Strict m)
    (hrep : a.date.rep = b.date.rep) (htz : a.tz = b.tz) (hi : a.inst m = b.inst m) : a = b := by
  obtain ⟨hd, hs⟩ := ((inst_order m a b ha hb htz).2).mp hi
  obtain ⟨⟨va, _, _, a3, a4, a5, a6, _, _⟩, _⟩ := ha
  obtain ⟨⟨vb, _, _, b3, b4, b5, b6, _, _⟩, _⟩ := hb
  obtain ⟨eh, em, es⟩ := hms_unique a.hh a.mi a.ss b.hh b.mi b.ss ⟨a3, a4, a5, a6⟩ ⟨b3, b4, b5, b6⟩
    (by unfold TP.secOfDay at hs; exact hs)
  obtain ⟨da, ah, ami, as, atz⟩ := a
  obtain ⟨db, bh, bmi, bs, btz⟩ := b
  simp only at hd va vb hrep htz eh em es
  subst htz eh em es
  have ed : da = db := by
    cases da with
    | cal y1 mo1 d1 =>
      cases db with
      | cal y2 mo2 d2 =>
        obtain ⟨e1, e2, e3⟩ := cal_unique m _ _ _ _ _ _ va vb hd
        rw [e1, e2, e3]
      | ord y2 n2 => simp [Date.rep] at hrep
      | week y2 w2 d2 => simp [Date.rep] at hrep
    | ord y1 n1 =>
      cases db with
      | cal y2 mo2 d2 => simp [Date.rep] at hrep
      | ord y2 n2 =>
        obtain ⟨e1, e2⟩ := ord_unique m _ _ _ _ va vb hd
        rw [e1, e2]
      | week y2 w2 d2 => simp [Date.rep] at hrep
    | week y1 w1 d1 =>
      cases db with
      | cal y2 mo2 d2 => simp [Date.rep] at hrep
      | ord y2 n2 => simp [Date.rep] at hrep
      | week y2 w2 d2 =>
        obtain ⟨e1, e2, e3⟩ := week_unique m _ _ _ _ _ _ va vb hd
        rw [e1, e2, e3]
  rw [ed]

/-- `p + x` depends on `p` only through its representation, offset and instant (the 24:00 form
    of a point and its normal form add alike) — for every duration `x`. -/
theorem addDur_congr (m : Mode) (p p' : TP) (x : Dur) (hp : p.Valid m) (hp' : p'.Valid m)
    (hrep : p.date.rep = p'.date.rep) (htz : p.tz = p'.tz) (hi : p.inst m = p'.inst m) :
    addDur m p x = addDur m p' x := by
  obtain ⟨q, e, g⟩ := normalise24_spec m p hp
  obtain ⟨q', e', g'⟩ := normalise24_spec m p' hp'
  have hq : q = q' := strict_unique m q q' g.strict g'.strict (by rw [g.rep, g'.rep, hrep])
    (by rw [g.tz, g'.tz, htz]) (by rw [g.inst, g'.inst, hi])
  have hu : ∀ d h mi s, addUnits m p d h mi s = addUnits m p' d h mi s := by
    intro d h mi s
    unfold addUnits
    rw [e, e', hq]
  unfold addDur
  cases x.toDays m with
  | weeks w => rfl
  | units y mo d h mi s => simp only [hu]

/-! ### the iteration of a recurrence with a non-negative nominal interval -/

/-- A recurrence that has a start point: `__iter__` is the series of repeated additions from the
    start, cut at the first point after the end bound (if any). -/
theorem iter_nominal_fwd (m : Mode) (r : Rec) (d : Dur) (hr : NomRec m r d) (s : TP)
    (hs : r.start = some s) (fuel : Nat) :
    iter m r fuel = (repeatAdd m d fuel s).takeWhile (withinEnd m r.end_) := by
  rw [iter_fwd_nominal m r d hr s hs fuel,
    iterFrom_fwd_nominal m r d hr fuel s (hr.startValid s hs)
      (fun s' h => by rw [hs] at h; cases h; exact Int.le_refl _)]

/-- A recurrence without a start point (`R/d/end`): `__iter__` is the series of repeated
    subtractions from the end. -/
theorem iter_nominal_rev (m : Mode) (r : Rec) (d : Dur) (hr : NomRec m r d) (e : TP)
    (hs : r.start = none) (he : r.end_ = some e) (fuel : Nat) :
    iter m r fuel = repeatSub m d fuel e := by
  rw [iter_rev_nominal m r d hr e hs he fuel,
    iterFrom_rev_nominal m r d hr fuel e (hr.endValid e he)
      (fun e' h => by rw [he] at h; cases h; exact Int.le_refl _), hs]
  exact takeWhile_true _ (fun _ => rfl) _

theorem nomRec_fmt3_unbounded (m : Mode) (s : TP) (d : Dur) (hs : s.Valid m) (hd : NominalNonneg d) :
    NomRec m ⟨none, some s, some d, none, none, 3⟩ d :=
  ⟨rfl, hd, by simp, fun s' h => by cases h; exact hs, fun e' h => by cases h⟩

theorem nomRec_fmt4_unbounded (m : Mode) (e : TP) (d : Dur) (he : e.Valid m) (hd : NominalNonneg d) :
    NomRec m ⟨none, none, some d, some e, none, 4⟩ d :=
  ⟨rfl, hd, by simp, fun s' h => (by cases h), fun e' h => by cases h; exact he⟩

theorem nomRec_bounded (m : Mode) (n : Int) (s e : TP) (d : Dur) (f : Nat) (hn : 2 ≤ n) (hs : s.Valid m)
    (he : e.Valid m) (hd : NominalNonneg d) :
    NomRec m ⟨some n, some s, some d, some e, none, f⟩ d :=
  ⟨rfl, hd, by simp; omega, fun s' h => by cases h; exact hs, fun e' h => by cases h; exact he⟩

/-! ### `get_next` / `get_prev` walk the iteration (any interval) -/

/-- `get_next` returns only points within the bounds. -/
theorem getNext_inBounds (m : Mode) (r : Rec) (p q : TP) (h : getNext m r p = some q) :
    inBounds m r q = true := by
  unfold getNext at h
  split at h
  · cases h
  · split at h
    · cases h
    · split at h
      · split at h
        · cases h; assumption
        · cases h
      · cases h

theorem getPrev_inBounds (m : Mode) (r : Rec) (p q : TP) (h : getPrev m r p = some q) :
    inBounds m r q = true := by
  unfold getPrev at h
  split at h
  · cases h
  · split at h
    · cases h
    · split at h
      · split at h
        · cases h; assumption
        · cases h
      · cases h

/-- In the loop of `__iter__`, the point after the `k`-th yielded point `p` is `get_next(p)`
    (`get_prev(p)` when iterating backwards) — `none` when the loop ends at `p`. -/
theorem iterFrom_getElem_succ (m : Mode) (r : Rec) (rev : Bool) : ∀ (k fuel : Nat) (p0 p : TP),
    k + 1 < fuel → (iterFrom m r rev fuel p0)[k]? = some p →
      (iterFrom m r rev fuel p0)[k + 1]? = (if rev then getPrev m r p else getNext m r p) := by
  intro k
  induction k with
  | zero =>
    intro fuel p0 p hf h
    obtain ⟨f, rfl⟩ : ∃ f, fuel = f + 2 := ⟨fuel - 2, by omega⟩
    simp only [iterFrom] at h ⊢
    by_cases cp : inBounds m r p0 = true
    · simp only [cp, ↓reduceIte, List.getElem?_cons_zero, Option.some.injEq] at h ⊢
      subst h
      simp only [List.getElem?_cons_succ]
      cases hn : (if rev = true then getPrev m r p0 else getNext m r p0) with
      | none => simp
      | some q =>
        have hb : inBounds m r q = true := by
          cases rev with
          | true => exact getPrev_inBounds m r p0 q (by simpa using hn)
          | false => exact getNext_inBounds m r p0 q (by simpa using hn)
        simp only [hb, ↓reduceIte, List.getElem?_cons_zero]
    · simp only [cp, Bool.false_eq_true, ↓reduceIte, List.getElem?_nil] at h
      cases h
  | succ j ih =>
    intro fuel p0 p hf h
    obtain ⟨f, rfl⟩ : ∃ f, fuel = f + 1 := ⟨fuel - 1, by omega⟩
    simp only [iterFrom] at h ⊢
    by_cases cp : inBounds m r p0 = true
    · simp only [cp, ↓reduceIte, List.getElem?_cons_succ] at h ⊢
      cases hn : (if rev = true then getPrev m r p0 else getNext m r p0) with
      | none => rw [hn] at h; simp at h
      | some q =>
        rw [hn] at h
        simp only at h ⊢
        exact ih f q p (by omega) h
    · simp only [cp, Bool.false_eq_true, ↓reduceIte, List.getElem?_nil] at h
      cases h

/-- The same for `__iter__` itself, read through `r[k]`: whenever `__iter__` is the loop (more
    than one repetition, a non-zero interval), `r[k] = p` gives `r[k+1] = get_next(p)`
    (`get_prev(p)` for a recurrence without a start point). -/
theorem getItem_succ_of_loop (m : Mode) (r : Rec) (p0 : TP)
    (hloop : ∀ fuel, iter m r fuel = iterFrom m r r.start.isNone fuel p0) (k : Nat) (p : TP)
    (h : getItem m r k = some p) :
    getItem m r (k + 1) = (if r.start.isNone then getPrev m r p else getNext m r p) := by
  unfold getItem at h ⊢
  rw [← iter_prefix m r k (k + 2) (by omega), hloop] at h
  rw [hloop]
  exact iterFrom_getElem_succ m r _ k (k + 2) p0 p (by omega) h

/-- A run of `__iter__` with fuel `fuel` yields at most `fuel` points. -/
theorem iter_length_le_fuel (m : Mode) (r : Rec) (fuel : Nat) : (iter m r fuel).length ≤ fuel := by
  rcases iter_shape m r with h0 | ⟨p, h1⟩ | ⟨p, h2⟩
  · rw [h0]; exact Nat.zero_le _
  · rw [h1]; split
    · exact Nat.zero_le _
    · split <;> simp <;> omega
  · rw [h2]
    generalize r.start.isNone = rev
    clear h2
    induction fuel generalizing p with
    | zero => simp [iterFrom]
    | succ f ih =>
      simp only [iterFrom]
      split
      · simp only [List.length_cons]
        split
        · have := ih ‹TP›; omega
        · simp
      · simp

/-- No run of `__iter__` is longer than `i` once `r[i]` is an `IndexError`. -/
theorem iter_length_le_of_getItem_none (m : Mode) (r : Rec) (i : Nat) (h : getItem m r i = none)
    (fuel : Nat) : (iter m r fuel).length ≤ i := by
  by_cases c : i < fuel
  · unfold getItem at h
    rw [← iter_prefix m r i fuel c] at h
    exact List.getElem?_eq_none_iff.mp h
  · have := iter_length_le_fuel m r fuel
    omega

/-! ### one step of a recurrence with a non-negative nominal interval -/

/-- `get_next` from a valid point at or after the start: the candidate is ONE nominal addition
    `p + d` — strictly later, by at least a day more than the exact part of `d` — returned iff it
    is not after the end bound. -/
theorem getNext_nominal (m : Mode) (r : Rec) (d : Dur) (hr : NomRec m r d) (p : TP) (hp : p.Valid m)
    (hs : ∀ s, r.start = some s → s.inst m ≤ p.inst m) :
    ∃ q, addDur m p d = some q ∧ q.Strict m ∧ q.date.rep = p.date.rep ∧ q.tz = p.tz ∧
      p.inst m < q.inst m ∧ p.inst m + d.exactSeconds m + 86400 ≤ q.inst m ∧
      getNext m r p = (if withinEnd m r.end_ q then some q else none) := by
  obtain ⟨q, e, sq, rq, tq, lt, lb⟩ := addDur_nominal_lt m p d hp hr.nom
  refine ⟨q, e, sq, rq, tq, lt, lb, ?_⟩
  have hqs : ∀ s, r.start = some s → s.inst m ≤ q.inst m := fun s h => by have := hs s h; omega
  have bq : inBounds m r q = withinEnd m r.end_ q := by
    rw [inBounds_eq m r hr.startValid hr.endValid q sq.1, withinStart_of_le m _ q hqs, Bool.true_and]
  unfold getNext
  rw [if_neg hr.multi, hr.dur]
  simp only [e, bq]

/-- `get_prev` from a valid point at or before the end: the candidate is ONE nominal subtraction
    `p − d`, strictly earlier, returned iff it is not before the start bound. -/
theorem getPrev_nominal (m : Mode) (r : Rec) (d : Dur) (hr : NomRec m r d) (p : TP) (hp : p.Valid m)
    (he : ∀ e, r.end_ = some e → p.inst m ≤ e.inst m) :
    ∃ q, subDur m p d = some q ∧ q.Strict m ∧ q.date.rep = p.date.rep ∧ q.tz = p.tz ∧
      q.inst m < p.inst m ∧ q.inst m + d.exactSeconds m + 86400 ≤ p.inst m ∧
      getPrev m r p = (if withinStart m r.start q then some q else none) := by
  obtain ⟨q, e, sq, rq, tq, lt, lb⟩ := subDur_nominal_lt m p d hp hr.nom
  refine ⟨q, e, sq, rq, tq, lt, lb, ?_⟩
  have hqe : ∀ e', r.end_ = some e' → q.inst m ≤ e'.inst m := fun s h => by have := he s h; omega
  have bq : inBounds m r q = withinStart m r.start q := by
    rw [inBounds_eq m r hr.startValid hr.endValid q sq.1, withinEnd_of_le m _ q hqe, Bool.and_true]
  unfold getPrev
  rw [if_neg hr.multi, hr.dur]
  simp only [e, bq]

/-! ### the `i`-th point of the series of repeated additions -/

/-- `p` plus `d`, `i` times: `p`, `p + d`, `(p + d) + d`, … (each step one `__add__`). -/
def nthAdd (m : Mode) (d : Dur) : Nat → TP → Option TP
  | 0, p => some p
  | i + 1, p => (addDur m p d).bind (nthAdd m d i)

/-- `p` minus `d`, `i` times. -/
def nthSub (m : Mode) (d : Dur) : Nat → TP → Option TP
  | 0, p => some p
  | i + 1, p => (subDur m p d).bind (nthSub m d i)

theorem repeatAdd_getElem? (m : Mode) (d : Dur) : ∀ (n : Nat) (p : TP) (i : Nat), i < n →
    (repeatAdd m d n p)[i]? = nthAdd m d i p := by
  intro n
  induction n with
  | zero => intro p i h; omega
  | succ k ih =>
    intro p i h
    cases i with
    | zero => simp only [repeatAdd, List.getElem?_cons_zero, nthAdd]
    | succ j =>
      simp only [repeatAdd, List.getElem?_cons_succ, nthAdd]
      cases e : addDur m p d with
      | none => simp
      | some q => simp only [Option.bind_some]; exact ih q j (by omega)

theorem repeatSub_getElem? (m : Mode) (d : Dur) : ∀ (n : Nat) (p : TP) (i : Nat), i < n →
    (repeatSub m d n p)[i]? = nthSub m d i p := by
  intro n
  induction n with
  | zero => intro p i h; omega
  | succ k ih =>
    intro p i h
    cases i with
    | zero => simp only [repeatSub, List.getElem?_cons_zero, nthSub]
    | succ j =>
      simp only [repeatSub, List.getElem?_cons_succ, nthSub]
      cases e : subDur m p d with
      | none => simp
      | some q => simp only [Option.bind_some]; exact ih q j (by omega)

/-- Stepping at the far end: `p + d` (`i + 1` times) is `(p + d, i times) + d`. -/
theorem nthAdd_succ (m : Mode) (d : Dur) : ∀ (i : Nat) (p : TP),
    nthAdd m d (i + 1) p = (nthAdd m d i p).bind fun q => addDur m q d := by
  intro i
  induction i with
  | zero => intro p; simp [nthAdd]
  | succ j ih =>
    intro p
    rw [nthAdd]
    cases e : addDur m p d with
    | none => simp [nthAdd, e]
    | some q => simp only [Option.bind_some, ih q]; rw [nthAdd, e, Option.bind_some]

theorem nthSub_succ (m : Mode) (d : Dur) : ∀ (i : Nat) (p : TP),
    nthSub m d (i + 1) p = (nthSub m d i p).bind fun q => subDur m q d := by
  intro i
  induction i with
  | zero => intro p; simp [nthSub]
  | succ j ih =>
    intro p
    rw [nthSub]
    cases e : subDur m p d with
    | none => simp [nthSub, e]
    | some q => simp only [Option.bind_some, ih q]; rw [nthSub, e, Option.bind_some]

/-- `p + d`, `i` times, for a non-negative nominal `d`: defined, valid (strict after the first
    step), in `p`'s representation and offset, at least `i` days after `p`. -/
theorem nthAdd_spec (m : Mode) (d : Dur) (hd : NominalNonneg d) (i : Nat) (p : TP) (hp : p.Valid m) :
    ∃ q, nthAdd m d i p = some q ∧ q.Valid m ∧ (1 ≤ i → q.Strict m) ∧ q.date.rep = p.date.rep ∧
      q.tz = p.tz ∧ p.inst m + 86400 * (i : Int) ≤ q.inst m := by
  obtain ⟨a1, a2, a3, _⟩ := repeatAdd_spec m d hd (i + 1) p hp
  have hl : i < (repeatAdd m d (i + 1) p).length := by omega
  have hget := repeatAdd_getElem? m d (i + 1) p i (by omega)
  rw [List.getElem?_eq_getElem hl] at hget
  have hmem := List.getElem_mem hl
  obtain ⟨v, rr, tt, _⟩ := a2 _ hmem
  refine ⟨_, hget.symm, v, ?_, rr, tt, repeatAdd_lower m d hd (i + 1) p hp i hl⟩
  intro hi
  apply (a3 _ _).1
  cases i with
  | zero => omega
  | succ j =>
    obtain ⟨q1, e1, _⟩ := addDur_nominal_lt m p d hp hd
    simp only [repeatAdd, e1, List.getElem_cons_succ, List.tail_cons]
    exact List.getElem_mem _

/-- The `i`-th point of the series of repeated subtractions is at least `i` days before the first. -/
theorem repeatSub_upper (m : Mode) (d : Dur) (hd : NominalNonneg d) : ∀ (n : Nat) (p : TP), p.Valid m →
    ∀ (i : Nat) (h : i < (repeatSub m d n p).length),
      ((repeatSub m d n p)[i]).inst m + 86400 * (i : Int) ≤ p.inst m := by
  intro n
  induction n with
  | zero => intro p _ i h; simp [repeatSub] at h
  | succ k ih =>
    intro p hp i h
    obtain ⟨q, e, sq, _, _, _, lb⟩ := subDur_nominal_lt m p d hp hd
    have hnn := nominalNonneg_exactSeconds m d hd
    simp only [repeatSub, e] at h ⊢
    cases i with
    | zero => simp only [List.getElem_cons_zero]; omega
    | succ j =>
      simp only [List.getElem_cons_succ]
      have := ih q sq.1 j (by simpa using h)
      omega

theorem nthSub_spec (m : Mode) (d : Dur) (hd : NominalNonneg d) (i : Nat) (p : TP) (hp : p.Valid m) :
    ∃ q, nthSub m d i p = some q ∧ q.Valid m ∧ (1 ≤ i → q.Strict m) ∧ q.date.rep = p.date.rep ∧
      q.tz = p.tz ∧ q.inst m + 86400 * (i : Int) ≤ p.inst m := by
  obtain ⟨a1, a2, a3, _⟩ := repeatSub_spec m d hd (i + 1) p hp
  have hl : i < (repeatSub m d (i + 1) p).length := by omega
  have hget := repeatSub_getElem? m d (i + 1) p i (by omega)
  rw [List.getElem?_eq_getElem hl] at hget
  have hmem := List.getElem_mem hl
  obtain ⟨v, rr, tt, _⟩ := a2 _ hmem
  refine ⟨_, hget.symm, v, ?_, rr, tt, repeatSub_upper m d hd (i + 1) p hp i hl⟩
  intro hi
  apply (a3 _ _).1
  cases i with
  | zero => omega
  | succ j =>
    obtain ⟨q1, e1, _⟩ := subDur_nominal_lt m p d hp hd
    simp only [repeatSub, e1, List.getElem_cons_succ, List.tail_cons]
    exact List.getElem_mem _

/-! ### cutting a strictly increasing list at a bound, read pointwise -/

/-- In a strictly increasing list cut at the first point after `e`, the `i`-th point is the
    `i`-th point of the list if that is not after `e`, and absent otherwise. -/
theorem takeWhile_withinEnd_getElem? (m : Mode) (eo : Option TP) : ∀ (l : List TP),
    l.Pairwise (fun a b => a.inst m < b.inst m) → ∀ i : Nat,
      (l.takeWhile (withinEnd m eo))[i]? = (l[i]?).filter (withinEnd m eo) := by
  intro l
  induction l with
  | nil => intro _ i; simp
  | cons a t ih =>
    intro hp i
    rw [List.pairwise_cons] at hp
    by_cases ca : withinEnd m eo a = true
    · rw [List.takeWhile_cons_of_pos ca]
      cases i with
      | zero => simp [Option.filter, ca]
      | succ j => simp only [List.getElem?_cons_succ]; exact ih hp.2 j
    · rw [List.takeWhile_cons_of_neg ca]
      cases i with
      | zero => simp [Option.filter, ca]
      | succ j =>
        simp only [List.getElem?_nil, List.getElem?_cons_succ]
        cases hj : t[j]? with
        | none => rfl
        | some x =>
          have hx := hp.1 x (List.mem_of_getElem? hj)
          have : withinEnd m eo x = false := by
            cases eo with
            | none => simp [withinEnd] at ca
            | some e =>
              simp only [withinEnd, decide_eq_true_eq] at ca
              simp only [withinEnd, decide_eq_false_iff_not]
              omega
          simp [Option.filter, this]

/-! ### `r[i]` and membership of the iteration -/

/-- The points of a run of `__iter__` are exactly `r[0], …, r[fuel − 1]` (those that exist). -/
theorem mem_iter_iff_getItem (m : Mode) (r : Rec) (fuel : Nat) (q : TP) :
    q ∈ iter m r fuel ↔ ∃ i, i < fuel ∧ getItem m r i = some q := by
  constructor
  · intro h
    obtain ⟨i, hi, hq⟩ := List.getElem_of_mem h
    have hl := iter_length_le_fuel m r fuel
    refine ⟨i, by omega, ?_⟩
    unfold getItem
    rw [← iter_prefix m r i fuel (by omega), List.getElem?_eq_getElem hi, hq]
  · rintro ⟨i, hi, hq⟩
    unfold getItem at hq
    rw [← iter_prefix m r i fuel hi] at hq
    exact List.mem_of_getElem? hq

/-- `r[i]` for a recurrence that has a start point and a non-negative nominal interval: the start
    plus the interval `i` times, if that is not after the end bound. -/
theorem getItem_nominal_fwd (m : Mode) (r : Rec) (d : Dur) (hr : NomRec m r d) (s : TP)
    (hs : r.start = some s) (i : Nat) :
    getItem m r i = (nthAdd m d i s).filter (withinEnd m r.end_) := by
  unfold getItem
  rw [iter_nominal_fwd m r d hr s hs (i + 1),
    takeWhile_withinEnd_getElem? m r.end_ _ (repeatAdd_spec m d hr.nom (i + 1) s (hr.startValid s hs)).2.2.2 i,
    repeatAdd_getElem? m d (i + 1) s i (by omega)]

/-- `r[i]` for `R/d/end` with a non-negative nominal interval: the end minus the interval `i` times. -/
theorem getItem_nominal_rev (m : Mode) (r : Rec) (d : Dur) (hr : NomRec m r d) (e : TP)
    (hs : r.start = none) (he : r.end_ = some e) (i : Nat) :
    getItem m r i = nthSub m d i e := by
  unfold getItem
  rw [iter_nominal_rev m r d hr e hs he (i + 1), repeatSub_getElem? m d (i + 1) e i (by omega)]

/-- What an existing `r[i]` is (forward iteration). -/
theorem getItem_nominal_fwd_some (m : Mode) (r : Rec) (d : Dur) (hr : NomRec m r d) (s : TP)
    (hs : r.start = some s) (i : Nat) (q : TP) (h : getItem m r i = some q) :
    nthAdd m d i s = some q ∧ withinEnd m r.end_ q = true ∧ q.Valid m ∧ (1 ≤ i → q.Strict m) ∧
      q.date.rep = s.date.rep ∧ q.tz = s.tz ∧ s.inst m + 86400 * (i : Int) ≤ q.inst m := by
  rw [getItem_nominal_fwd m r d hr s hs i] at h
  obtain ⟨q0, e0, v, st, rr, tt, lb⟩ := nthAdd_spec m d hr.nom i s (hr.startValid s hs)
  rw [e0] at h
  simp only [Option.filter] at h
  split at h
  · cases h; exact ⟨e0, by assumption, v, st, rr, tt, lb⟩
  · cases h

theorem getItem_nominal_rev_some (m : Mode) (r : Rec) (d : Dur) (hr : NomRec m r d) (e : TP)
    (hs : r.start = none) (he : r.end_ = some e) (i : Nat) :
    ∃ q, getItem m r i = some q ∧ nthSub m d i e = some q ∧ q.Valid m ∧ (1 ≤ i → q.Strict m) ∧
      q.date.rep = e.date.rep ∧ q.tz = e.tz ∧ q.inst m + 86400 * (i : Int) ≤ e.inst m := by
  obtain ⟨q0, e0, v, st, rr, tt, lb⟩ := nthSub_spec m d hr.nom i e (hr.endValid e he)
  exact ⟨q0, by rw [getItem_nominal_rev m r d hr e hs he i, e0], e0, v, st, rr, tt, lb⟩

/-- The series of repeated additions is strictly increasing in the index. -/
theorem nthAdd_lt (m : Mode) (d : Dur) (hd : NominalNonneg d) (p : TP) (hp : p.Valid m) (j i : Nat)
    (hji : j < i) (a b : TP) (ha : nthAdd m d j p = some a) (hb : nthAdd m d i p = some b) :
    a.inst m < b.inst m := by
  obtain ⟨a1, _, _, a4⟩ := repeatAdd_spec m d hd (i + 1) p hp
  have hj := repeatAdd_getElem? m d (i + 1) p j (by omega)
  have hi := repeatAdd_getElem? m d (i + 1) p i (by omega)
  rw [ha, List.getElem?_eq_getElem (by omega)] at hj
  rw [hb, List.getElem?_eq_getElem (by omega)] at hi
  have := (List.pairwise_iff_getElem.mp a4) j i (by omega) (by omega) hji
  rw [Option.some.inj hj, Option.some.inj hi] at this
  exact this

theorem nthSub_lt (m : Mode) (d : Dur) (hd : NominalNonneg d) (p : TP) (hp : p.Valid m) (j i : Nat)
    (hji : j < i) (a b : TP) (ha : nthSub m d j p = some a) (hb : nthSub m d i p = some b) :
    b.inst m < a.inst m := by
  obtain ⟨a1, _, _, a4⟩ := repeatSub_spec m d hd (i + 1) p hp
  have hj := repeatSub_getElem? m d (i + 1) p j (by omega)
  have hi := repeatSub_getElem? m d (i + 1) p i (by omega)
  rw [ha, List.getElem?_eq_getElem (by omega)] at hj
  rw [hb, List.getElem?_eq_getElem (by omega)] at hi
  have := (List.pairwise_iff_getElem.mp a4) j i (by omega) (by omega) hji
  rw [Option.some.inj hj, Option.some.inj hi] at this
  exact this

/-- `r[j]` is strictly earlier than `r[i]` for `j < i` (forward iteration). -/
theorem getItem_nominal_fwd_lt (m : Mode) (r : Rec) (d : Dur) (hr : NomRec m r d) (s : TP)
    (hs : r.start = some s) (j i : Nat) (hji : j < i) (a b : TP) (ha : getItem m r j = some a)
    (hb : getItem m r i = some b) : a.inst m < b.inst m :=
  nthAdd_lt m d hr.nom s (hr.startValid s hs) j i hji a b
    (getItem_nominal_fwd_some m r d hr s hs j a ha).1 (getItem_nominal_fwd_some m r d hr s hs i b hb).1

/-! ### being within the bounds depends on the instant only -/

theorem inBounds_congr_valid (m : Mode) (r : Rec) (hsv : ∀ s, r.start = some s → s.Valid m)
    (hev : ∀ e, r.end_ = some e → e.Valid m) (p q : TP) (hp : p.Valid m) (hq : q.Valid m)
    (h : q.inst m = p.inst m) : inBounds m r q = inBounds m r p := by
  rw [inBounds_eq m r hsv hev p hp, inBounds_eq m r hsv hev q hq]
  unfold withinStart withinEnd
  rw [h]

theorem inBounds_iff_valid (m : Mode) (r : Rec) (hsv : ∀ s, r.start = some s → s.Valid m)
    (hev : ∀ e, r.end_ = some e → e.Valid m) (p : TP) (hp : p.Valid m) :
    inBounds m r p = true ↔
      (∀ s, r.start = some s → s.inst m ≤ p.inst m) ∧ (∀ e, r.end_ = some e → p.inst m ≤ e.inst m) := by
  rw [inBounds_eq m r hsv hev p hp, Bool.and_eq_true]
  constructor
  · rintro ⟨h1, h2⟩
    constructor
    · intro s hs; rw [hs] at h1; simpa [withinStart] using h1
    · intro e he; rw [he] at h2; simpa [withinEnd] using h2
  · rintro ⟨h1, h2⟩
    exact ⟨withinStart_of_le m _ p h1, withinEnd_of_le m _ p h2⟩

/-! ### the scan of `get_is_valid` over a strictly monotone list of valid points -/

/-- Increasing list (a recurrence that has a start point): the scan is true exactly when some
    listed point is at the probe's instant; the early exit (no end point, current point later than
    the probe) loses nothing because the remaining points are later still. -/
theorem scan_incr (m : Mode) (r : Rec) (hst : r.start.isNone = false) (p : TP) (hp : p.Valid m) :
    ∀ (l : List TP), (∀ q ∈ l, q.Valid m) → l.Pairwise (fun a b => a.inst m < b.inst m) →
      (scanValid m r p l = true ↔ ∃ q ∈ l, q.inst m = p.inst m) := by
  intro l
  induction l with
  | nil => intro _ _; simp [scanValid]
  | cons q rest ih =>
    intro hv hpw
    rw [List.pairwise_cons] at hpw
    have hvq := hv q List.mem_cons_self
    have he := tpEq_iff m q p hvq hp
    have hg := tpGt_iff m q p hvq hp
    have ih' := ih (fun x hx => hv x (List.mem_cons_of_mem _ hx)) hpw.2
    unfold scanValid
    by_cases c1 : tpEq m q p = true
    · rw [if_pos c1]
      exact ⟨fun _ => ⟨q, List.mem_cons_self, he.mp c1⟩, fun _ => rfl⟩
    · rw [if_neg c1]
      simp only [hst, Bool.false_and, Bool.false_eq_true, ↓reduceIte]
      have hne : q.inst m ≠ p.inst m := fun h => c1 (he.mpr h)
      by_cases c2 : (r.end_.isNone && tpGt m q p) = true
      · rw [if_pos c2]
        simp only [Bool.and_eq_true] at c2
        have hgt := hg.mp c2.2
        constructor
        · intro h; cases h
        · rintro ⟨x, hx, hxe⟩
          rcases List.mem_cons.mp hx with rfl | hx
          · exact absurd hxe hne
          · have := hpw.1 x hx; omega
      · rw [if_neg c2, ih']
        constructor
        · rintro ⟨x, hx, hxe⟩; exact ⟨x, List.mem_cons_of_mem _ hx, hxe⟩
        · rintro ⟨x, hx, hxe⟩
          rcases List.mem_cons.mp hx with rfl | hx
          · exact absurd hxe hne
          · exact ⟨x, hx, hxe⟩

/-- Decreasing list (`R/d/end`: no start point, iteration runs backwards from the end). -/
theorem scan_decr (m : Mode) (r : Rec) (hst : r.start.isNone = true) (hen : r.end_.isNone = false)
    (p : TP) (hp : p.Valid m) :
    ∀ (l : List TP), (∀ q ∈ l, q.Valid m) → l.Pairwise (fun a b => a.inst m > b.inst m) →
      (scanValid m r p l = true ↔ ∃ q ∈ l, q.inst m = p.inst m) := by
  intro l
  induction l with
  | nil => intro _ _; simp [scanValid]
  | cons q rest ih =>
    intro hv hpw
    rw [List.pairwise_cons] at hpw
    have hvq := hv q List.mem_cons_self
    have he := tpEq_iff m q p hvq hp
    have hl := tpLt_iff m q p hvq hp
    have ih' := ih (fun x hx => hv x (List.mem_cons_of_mem _ hx)) hpw.2
    unfold scanValid
    by_cases c1 : tpEq m q p = true
    · rw [if_pos c1]
      exact ⟨fun _ => ⟨q, List.mem_cons_self, he.mp c1⟩, fun _ => rfl⟩
    · rw [if_neg c1]
      have hne : q.inst m ≠ p.inst m := fun h => c1 (he.mpr h)
      simp only [hst, hen, Bool.true_and, Bool.false_and, Bool.false_eq_true, ↓reduceIte]
      by_cases c2 : tpLt m q p = true
      · rw [if_pos c2]
        have hlt := hl.mp c2
        constructor
        · intro h; cases h
        · rintro ⟨x, hx, hxe⟩
          rcases List.mem_cons.mp hx with rfl | hx
          · exact absurd hxe hne
          · have := hpw.1 x hx; omega
      · rw [if_neg c2, ih']
        constructor
        · rintro ⟨x, hx, hxe⟩; exact ⟨x, List.mem_cons_of_mem _ hx, hxe⟩
        · rintro ⟨x, hx, hxe⟩
          rcases List.mem_cons.mp hx with rfl | hx
          · exact absurd hxe hne
          · exact ⟨x, hx, hxe⟩

/-! ### `get_is_valid` on a recurrence with a non-negative nominal interval -/

theorem iter_nominal_fwd_props (m : Mode) (r : Rec) (d : Dur) (hr : NomRec m r d) (s : TP)
    (hs : r.start = some s) (fuel : Nat) :
    (∀ q ∈ iter m r fuel, q.Valid m) ∧ (iter m r fuel).Pairwise (fun a b => a.inst m < b.inst m) := by
  obtain ⟨_, a2, _, a4⟩ := repeatAdd_spec m d hr.nom fuel s (hr.startValid s hs)
  rw [iter_nominal_fwd m r d hr s hs fuel]
  exact ⟨fun q hq => (a2 q ((List.takeWhile_sublist _).mem hq)).1, a4.sublist (List.takeWhile_sublist _)⟩

theorem iter_nominal_rev_props (m : Mode) (r : Rec) (d : Dur) (hr : NomRec m r d) (e : TP)
    (hs : r.start = none) (he : r.end_ = some e) (fuel : Nat) :
    (∀ q ∈ iter m r fuel, q.Valid m) ∧ (iter m r fuel).Pairwise (fun a b => a.inst m > b.inst m) := by
  obtain ⟨_, a2, _, a4⟩ := repeatSub_spec m d hr.nom fuel e (hr.endValid e he)
  rw [iter_nominal_rev m r d hr e hs he fuel]
  exact ⟨fun q hq => (a2 q hq).1, a4⟩

/-- `get_is_valid(p)` is membership of the visited points by instant — forward iteration. -/
theorem getIsValid_nominal_fwd (m : Mode) (r : Rec) (d : Dur) (hr : NomRec m r d) (s : TP)
    (hs : r.start = some s) (p : TP) (hp : p.Valid m) (fuel : Nat) :
    getIsValid m r p fuel = true ↔ ∃ q ∈ iter m r fuel, q.inst m = p.inst m := by
  obtain ⟨hv, hpw⟩ := iter_nominal_fwd_props m r d hr s hs fuel
  have hsc := scan_incr m r (by rw [hs]; rfl) p hp _ hv hpw
  unfold getIsValid
  by_cases cb : inBounds m r p = true
  · simp only [cb, Bool.not_true, Bool.false_eq_true, ↓reduceIte]
    exact hsc
  · have cb' : inBounds m r p = false := by cases h : inBounds m r p <;> simp_all
    simp only [cb', Bool.not_false, ↓reduceIte, Bool.false_eq_true, false_iff]
    rintro ⟨q, hq, hqe⟩
    apply cb
    rw [← inBounds_congr_valid m r hr.startValid hr.endValid p q hp (hv q hq) hqe]
    exact iter_mem_inBounds m r fuel q hq

/-- `get_is_valid(p)` is membership of the visited points by instant — backward iteration. -/
theorem getIsValid_nominal_rev (m : Mode) (r : Rec) (d : Dur) (hr : NomRec m r d) (e : TP)
    (hs : r.start = none) (he : r.end_ = some e) (p : TP) (hp : p.Valid m) (fuel : Nat) :
    getIsValid m r p fuel = true ↔ ∃ q ∈ iter m r fuel, q.inst m = p.inst m := by
  obtain ⟨hv, hpw⟩ := iter_nominal_rev_props m r d hr e hs he fuel
  have hsc := scan_decr m r (by rw [hs]; rfl) (by rw [he]; rfl) p hp _ hv hpw
  unfold getIsValid
  by_cases cb : inBounds m r p = true
  · simp only [cb, Bool.not_true, Bool.false_eq_true, ↓reduceIte]
    exact hsc
  · have cb' : inBounds m r p = false := by cases h : inBounds m r p <;> simp_all
    simp only [cb', Bool.not_false, ↓reduceIte, Bool.false_eq_true, false_iff]
    rintro ⟨q, hq, hqe⟩
    apply cb
    rw [← inBounds_congr_valid m r hr.startValid hr.endValid p q hp (hv q hq) hqe]
    exact iter_mem_inBounds m r fuel q hq

/-- With more than `⌊(p − start)/86400⌋` points visited, a point at the probe's instant has been
    visited if it is ever yielded: the `i`-th point is at least `i` days after the start. -/
theorem mem_iter_nominal_fwd_fuel (m : Mode) (r : Rec) (d : Dur) (hr : NomRec m r d) (s : TP)
    (hs : r.start = some s) (x : Int) (fuel : Nat) (hf : (x - s.inst m) / 86400 < (fuel : Int)) :
    (∃ q ∈ iter m r fuel, q.inst m = x) ↔ ∃ i q, getItem m r i = some q ∧ q.inst m = x := by
  constructor
  · rintro ⟨q, hq, hx⟩
    obtain ⟨i, _, hi⟩ := (mem_iter_iff_getItem m r fuel q).mp hq
    exact ⟨i, q, hi, hx⟩
  · rintro ⟨i, q, hi, hx⟩
    have lb := (getItem_nominal_fwd_some m r d hr s hs i q hi).2.2.2.2.2.2
    refine ⟨q, (mem_iter_iff_getItem m r fuel q).mpr ⟨i, ?_, hi⟩, hx⟩
    omega

theorem mem_iter_nominal_rev_fuel (m : Mode) (r : Rec) (d : Dur) (hr : NomRec m r d) (e : TP)
    (hs : r.start = none) (he : r.end_ = some e) (x : Int) (fuel : Nat)
    (hf : (e.inst m - x) / 86400 < (fuel : Int)) :
    (∃ q ∈ iter m r fuel, q.inst m = x) ↔ ∃ i q, getItem m r i = some q ∧ q.inst m = x := by
  constructor
  · rintro ⟨q, hq, hx⟩
    obtain ⟨i, _, hi⟩ := (mem_iter_iff_getItem m r fuel q).mp hq
    exact ⟨i, q, hi, hx⟩
  · rintro ⟨i, q, hi, hx⟩
    obtain ⟨q', hi', _, _, _, _, _, ub⟩ := getItem_nominal_rev_some m r d hr e hs he i
    rw [hi] at hi'; cases hi'
    refine ⟨q, (mem_iter_iff_getItem m r fuel q).mpr ⟨i, ?_, hi⟩, hx⟩
    omega

/-! ### the loop of `get_first_after` -/

theorem find?_cons_pos' {α : Type} (f : α → Bool) (a : α) (l : List α) (h : f a = true) :
    (a :: l).find? f = some a := by
  simp [h]

theorem find?_cons_neg' {α : Type} (f : α → Bool) (a : α) (l : List α) (h : ¬ f a = true) :
    (a :: l).find? f = l.find? f := by
  simp [h]

theorem firstAfterLoop_none (m : Mode) (r : Rec) (p : TP) (fuel : Nat) :
    firstAfterLoop m r p fuel none = none := by
  cases fuel <;> rfl

theorem nominal_not_exact (d : Dur) (hd : NominalNonneg d) : d.isExact = false := by
  obtain ⟨y, mo, dd, hh, mi, s, rfl, _, _, _, _, _, _, h7⟩ := nominalNonneg_units d hd
  simp only [Dur.isExact, Bool.and_eq_false_iff, beq_eq_false_iff_ne, ne_eq]
  omega

/-- The `while current <= p: current = get_next(current)` loop from a valid point `c` within the
    bounds, with enough fuel to pass the probe (`p < c + fuel days`): it returns the first point
    of the iteration from `c` that is strictly later than `p` — `none` if the iteration ends first. -/
theorem firstAfterLoop_nominal (m : Mode) (r : Rec) (d : Dur) (hr : NomRec m r d) (p : TP)
    (hp : p.Valid m) : ∀ (fuel : Nat) (c : TP), c.Valid m →
      (∀ s, r.start = some s → s.inst m ≤ c.inst m) → withinEnd m r.end_ c = true →
      p.inst m < c.inst m + 86400 * (fuel : Int) →
      firstAfterLoop m r p fuel (some c) =
        ((repeatAdd m d (fuel + 1) c).takeWhile (withinEnd m r.end_)).find?
          (fun q => decide (p.inst m < q.inst m)) := by
  intro fuel
  induction fuel with
  | zero =>
    intro c hc _ hw hlt
    obtain ⟨q, e, _⟩ := addDur_nominal_lt m c d hc hr.nom
    have hd : decide (p.inst m < c.inst m) = true := by simp only [decide_eq_true_eq]; omega
    simp only [firstAfterLoop, repeatAdd, e, List.takeWhile_cons_of_pos hw, List.takeWhile_nil]
    exact (find?_cons_pos' (fun q : TP => decide (p.inst m < q.inst m)) c [] hd).symm
  | succ f ih =>
    intro c hc hs hw hlt
    obtain ⟨q, e, sq, _, _, lt, lb, hn⟩ := getNext_nominal m r d hr c hc hs
    have hnn := nominalNonneg_exactSeconds m d hr.nom
    have hle := tpLe_iff m c p hc hp
    have hqs : ∀ s, r.start = some s → s.inst m ≤ q.inst m := fun s h => by have := hs s h; omega
    simp only [firstAfterLoop, hn]
    rw [show repeatAdd m d (f + 1 + 1) c = c :: repeatAdd m d (f + 1) q by simp only [repeatAdd, e],
      List.takeWhile_cons_of_pos hw]
    by_cases cle : tpLe m c p = true
    · have hcp := hle.mp cle
      have hd : ¬ (decide (p.inst m < c.inst m) = true) := by simp only [decide_eq_true_eq]; omega
      rw [if_pos cle, find?_cons_neg' (fun q : TP => decide (p.inst m < q.inst m)) c _ hd]
      by_cases cq : withinEnd m r.end_ q = true
      · rw [if_pos cq]
        exact ih q sq.1 hqs cq (by omega)
      · rw [if_neg cq, firstAfterLoop_none]
        simp only [repeatAdd, List.takeWhile_cons_of_neg cq, List.find?_nil]
    · have hcp : ¬ c.inst m ≤ p.inst m := fun h => cle (hle.mpr h)
      have hd : decide (p.inst m < c.inst m) = true := by simp only [decide_eq_true_eq]; omega
      rw [if_neg cle, find?_cons_pos' (fun q : TP => decide (p.inst m < q.inst m)) c _ hd]

/-- The iteration branch of `get_first_after` (a probe within the bounds, enough fuel to pass
    it): the first visited point strictly later than the probe. -/
theorem getFirstAfter_nominal (m : Mode) (r : Rec) (d : Dur) (hr : NomRec m r d) (s : TP)
    (hs : r.start = some s) (p : TP) (hp : p.Valid m) (hb : inBounds m r p = true) (fuel : Nat)
    (hf : p.inst m < s.inst m + 86400 * (fuel : Int)) :
    getFirstAfter m r p fuel =
      (iter m r (fuel + 1)).find? (fun q => decide (p.inst m < q.inst m)) := by
  have hsv := hr.startValid s hs
  obtain ⟨b1, b2⟩ := (inBounds_iff_valid m r hr.startValid hr.endValid p hp).mp hb
  have hw : withinEnd m r.end_ s = true :=
    withinEnd_of_le m _ s (fun e he => by have := b1 s hs; have := b2 e he; omega)
  unfold getFirstAfter
  simp only [hs, hb, ↓reduceIte, hr.dur, nominal_not_exact d hr.nom, Bool.false_eq_true]
  rw [firstAfterLoop_nominal m r d hr p hp fuel s hsv
    (fun s' h => by rw [hs] at h; cases h; exact Int.le_refl _) hw hf,
    iter_nominal_fwd m r d hr s hs (fuel + 1)]

/-- Searching a strictly increasing list for the first point later than `x`. -/
theorem find?_later_incr (m : Mode) (x : Int) : ∀ (l : List TP),
    l.Pairwise (fun a b => a.inst m < b.inst m) →
    (∀ q, l.find? (fun q => decide (x < q.inst m)) = some q →
      ∃ j, l[j]? = some q ∧ x < q.inst m ∧ ∀ (i : Nat) (q' : TP), i < j → l[i]? = some q' → q'.inst m ≤ x) ∧
    (l.find? (fun q => decide (x < q.inst m)) = none → ∀ q' ∈ l, q'.inst m ≤ x) := by
  intro l
  induction l with
  | nil => intro _; exact ⟨fun q h => by simp at h, fun _ q' h => by cases h⟩
  | cons a t ih =>
    intro hpw
    rw [List.pairwise_cons] at hpw
    obtain ⟨i1, i2⟩ := ih hpw.2
    by_cases ca : decide (x < a.inst m) = true
    · rw [find?_cons_pos' (fun q : TP => decide (x < q.inst m)) a t ca]
      refine ⟨?_, fun h => by cases h⟩
      intro q hq
      cases hq
      exact ⟨0, rfl, by simpa using ca, fun i q' hi _ => by omega⟩
    · rw [find?_cons_neg' (fun q : TP => decide (x < q.inst m)) a t ca]
      have hax : a.inst m ≤ x := by simpa using ca
      constructor
      · intro q hq
        obtain ⟨j, h1, h2, h3⟩ := i1 q hq
        refine ⟨j + 1, by simpa using h1, h2, ?_⟩
        intro i q' hi hq'
        cases i with
        | zero => simp only [List.getElem?_cons_zero, Option.some.injEq] at hq'; rw [← hq']; exact hax
        | succ k => exact h3 k q' (by omega) (by simpa using hq')
      · intro h q' hq'
        rcases List.mem_cons.mp hq' with rfl | hq'
        · exact hax
        · exact i2 h q' hq'

end IsoDT.Lemmas
