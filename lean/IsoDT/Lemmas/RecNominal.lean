/-
  IsoDT.Lemmas.RecNominal — recurrences with a non-negative nominal (month/year) interval:
  iteration is repeated addition (subtraction) of the interval to the previous point, cut at the
  first point beyond the far bound.
-/
import IsoDT.Lemmas.Rec
import IsoDT.Lemmas.NominalMono

namespace IsoDT.Lemmas
open IsoDT IsoDT.Model
open IsoDT.Spec (Date TZ TP)

/-! ### the series of repeated additions -/

/-- `p, p + d, (p + d) + d, …`: `n` points, each the previous one plus `d` (one `__add__`); the
    list stops early only if an addition fails. -/
def repeatAdd (m : Mode) (d : Dur) : Nat → TP → List TP
  | 0, _ => []
  | k + 1, p => p :: (match addDur m p d with
                      | some q => repeatAdd m d k q
                      | none => [])

/-- `p, p − d, (p − d) − d, …`: `n` points, each the previous one minus `d` (one `__sub__`). -/
def repeatSub (m : Mode) (d : Dur) : Nat → TP → List TP
  | 0, _ => []
  | k + 1, p => p :: (match subDur m p d with
                      | some q => repeatSub m d k q
                      | none => [])

/-- Not after the (optional) end bound / not before the (optional) start bound, as instants. -/
def withinEnd (m : Mode) (e : Option TP) (p : TP) : Bool :=
  match e with
  | none => true
  | some e => decide (p.inst m ≤ e.inst m)

def withinStart (m : Mode) (s : Option TP) (p : TP) : Bool :=
  match s with
  | none => true
  | some s => decide (s.inst m ≤ p.inst m)

/-- The series of repeated additions of a non-negative nominal interval from a valid point:
    full length, all points valid (all but the first strict) in the first point's representation
    and offset, the `i`-th at least `i` days after the first, strictly increasing. -/
theorem repeatAdd_spec (m : Mode) (d : Dur) (hd : NominalNonneg d) : ∀ (n : Nat) (p : TP), p.Valid m →
    (repeatAdd m d n p).length = n ∧
    (∀ q ∈ repeatAdd m d n p, q.Valid m ∧ q.date.rep = p.date.rep ∧ q.tz = p.tz ∧ p.inst m ≤ q.inst m) ∧
    (∀ q ∈ (repeatAdd m d n p).tail, q.Strict m ∧ p.inst m < q.inst m) ∧
    (repeatAdd m d n p).Pairwise (fun a b => a.inst m < b.inst m) := by
  intro n
  induction n with
  | zero =>
    intro p _
    exact ⟨rfl, fun q h => (by cases h), fun q h => (by cases h), List.Pairwise.nil⟩
  | succ k ih =>
    intro p hp
    obtain ⟨q, e, sq, rq, tq, lt, _⟩ := addDur_nominal_lt m p d hp hd
    obtain ⟨i1, i2, i3, i4⟩ := ih q sq.1
    simp only [repeatAdd, e]
    have hall : ∀ x ∈ repeatAdd m d k q, x.Strict m ∧ p.inst m < x.inst m := by
      intro x hx
      obtain ⟨_, _, _, le⟩ := i2 x hx
      refine ⟨?_, by omega⟩
      cases k with
      | zero => cases hx
      | succ k' =>
        obtain ⟨q', e', sq', _⟩ := addDur_nominal_lt m q d sq.1 hd
        simp only [repeatAdd, e', List.mem_cons] at hx
        rcases hx with rfl | hx
        · exact sq
        · have := i3 x (by simp only [repeatAdd, e', List.tail_cons]; exact hx)
          exact this.1
    refine ⟨by simp only [List.length_cons, i1], ?_, ?_, ?_⟩
    · intro x hx
      simp only [List.mem_cons] at hx
      rcases hx with rfl | hx
      · exact ⟨hp, rfl, rfl, Int.le_refl _⟩
      · obtain ⟨v, r, t, le⟩ := i2 x hx
        exact ⟨v, by rw [r, rq], by rw [t, tq], by omega⟩
    · intro x hx
      simp only [List.tail_cons] at hx
      exact hall x hx
    · rw [List.pairwise_cons]
      exact ⟨fun x hx => (hall x hx).2, i4⟩

/-- The `i`-th point of the series is at least `i` days after the first. -/
theorem repeatAdd_lower (m : Mode) (d : Dur) (hd : NominalNonneg d) : ∀ (n : Nat) (p : TP), p.Valid m →
    ∀ (i : Nat) (h : i < (repeatAdd m d n p).length),
      p.inst m + 86400 * (i : Int) ≤ ((repeatAdd m d n p)[i]).inst m := by
  intro n
  induction n with
  | zero => intro p _ i h; simp [repeatAdd] at h
  | succ k ih =>
    intro p hp i h
    obtain ⟨q, e, sq, _, _, _, lb⟩ := addDur_nominal_lt m p d hp hd
    have hnn := nominalNonneg_exactSeconds m d hd
    simp only [repeatAdd, e] at h ⊢
    cases i with
    | zero => simp only [List.getElem_cons_zero]; omega
    | succ j =>
      simp only [List.getElem_cons_succ]
      have := ih q sq.1 j (by simpa using h)
      omega

/-- Each point of the series after the first is the previous one plus `d`. -/
theorem repeatAdd_chain (m : Mode) (d : Dur) : ∀ (n : Nat) (p : TP)
    (i : Nat) (h : i + 1 < (repeatAdd m d n p).length),
      addDur m ((repeatAdd m d n p)[i]'(by omega)) d = some ((repeatAdd m d n p)[i + 1]) := by
  intro n
  induction n with
  | zero => intro p i h; simp [repeatAdd] at h
  | succ k ih =>
    intro p i h
    cases e : addDur m p d with
    | none => simp [repeatAdd, e] at h
    | some q =>
      simp only [repeatAdd, e] at h ⊢
      cases i with
      | zero =>
        simp only [List.getElem_cons_zero, List.getElem_cons_succ]
        cases k with
        | zero => simp [repeatAdd] at h
        | succ k' => simp only [repeatAdd, List.getElem_cons_zero]; exact e
      | succ j =>
        simp only [List.getElem_cons_succ]
        exact ih q j (by simpa using h)

theorem repeatAdd_head (m : Mode) (d : Dur) (n : Nat) (p : TP) (hn : 1 ≤ n) :
    (repeatAdd m d n p).head? = some p := by
  cases n with
  | zero => omega
  | succ k => rfl

/-- The same for repeated subtraction: strictly decreasing. -/
theorem repeatSub_spec (m : Mode) (d : Dur) (hd : NominalNonneg d) : ∀ (n : Nat) (p : TP), p.Valid m →
    (repeatSub m d n p).length = n ∧
    (∀ q ∈ repeatSub m d n p, q.Valid m ∧ q.date.rep = p.date.rep ∧ q.tz = p.tz ∧ q.inst m ≤ p.inst m) ∧
    (∀ q ∈ (repeatSub m d n p).tail, q.Strict m ∧ q.inst m < p.inst m) ∧
    (repeatSub m d n p).Pairwise (fun a b => a.inst m > b.inst m) := by
  intro n
  induction n with
  | zero =>
    intro p _
    exact ⟨rfl, fun q h => (by cases h), fun q h => (by cases h), List.Pairwise.nil⟩
  | succ k ih =>
    intro p hp
    obtain ⟨q, e, sq, rq, tq, lt, _⟩ := subDur_nominal_lt m p d hp hd
    obtain ⟨i1, i2, i3, i4⟩ := ih q sq.1
    simp only [repeatSub, e]
    have hall : ∀ x ∈ repeatSub m d k q, x.Strict m ∧ x.inst m < p.inst m := by
      intro x hx
      obtain ⟨_, _, _, le⟩ := i2 x hx
      refine ⟨?_, by omega⟩
      cases k with
      | zero => cases hx
      | succ k' =>
        obtain ⟨q', e', sq', _⟩ := subDur_nominal_lt m q d sq.1 hd
        simp only [repeatSub, e', List.mem_cons] at hx
        rcases hx with rfl | hx
        · exact sq
        · have := i3 x (by simp only [repeatSub, e', List.tail_cons]; exact hx)
          exact this.1
    refine ⟨by simp only [List.length_cons, i1], ?_, ?_, ?_⟩
    · intro x hx
      simp only [List.mem_cons] at hx
      rcases hx with rfl | hx
      · exact ⟨hp, rfl, rfl, Int.le_refl _⟩
      · obtain ⟨v, r, t, le⟩ := i2 x hx
        exact ⟨v, by rw [r, rq], by rw [t, tq], by omega⟩
    · intro x hx
      simp only [List.tail_cons] at hx
      exact hall x hx
    · rw [List.pairwise_cons]
      exact ⟨fun x hx => (hall x hx).2, i4⟩

theorem repeatSub_chain (m : Mode) (d : Dur) : ∀ (n : Nat) (p : TP)
    (i : Nat) (h : i + 1 < (repeatSub m d n p).length),
      subDur m ((repeatSub m d n p)[i]'(by omega)) d = some ((repeatSub m d n p)[i + 1]) := by
  intro n
  induction n with
  | zero => intro p i h; simp [repeatSub] at h
  | succ k ih =>
    intro p i h
    cases e : subDur m p d with
    | none => simp [repeatSub, e] at h
    | some q =>
      simp only [repeatSub, e] at h ⊢
      cases i with
      | zero =>
        simp only [List.getElem_cons_zero, List.getElem_cons_succ]
        cases k with
        | zero => simp [repeatSub] at h
        | succ k' => simp only [repeatSub, List.getElem_cons_zero]; exact e
      | succ j =>
        simp only [List.getElem_cons_succ]
        exact ih q j (by simpa using h)

/-! ### cutting the series at a bound -/

/-- Once the cut series is shorter than the fuel, more fuel changes nothing. -/
theorem repeatAdd_takeWhile_stable (m : Mode) (d : Dur) (f : TP → Bool) : ∀ (n : Nat) (p : TP),
    ((repeatAdd m d n p).takeWhile f).length < n → ∀ n', n ≤ n' →
      (repeatAdd m d n' p).takeWhile f = (repeatAdd m d n p).takeWhile f := by
  intro n
  induction n with
  | zero => intro p h; omega
  | succ k ih =>
    intro p h n' hn'
    cases n' with
    | zero => omega
    | succ k' =>
      simp only [repeatAdd] at h ⊢
      by_cases c : f p = true
      · rw [List.takeWhile_cons_of_pos c] at h
        rw [List.takeWhile_cons_of_pos c, List.takeWhile_cons_of_pos c]
        congr 1
        cases e : addDur m p d with
        | none => rfl
        | some q =>
          simp only [e] at h ⊢
          exact ih q (by simpa using h) k' (by omega)
      · rw [List.takeWhile_cons_of_neg c, List.takeWhile_cons_of_neg c]

/-- The series cut at an end bound `e` has at most one point per day from its first point to `e`. -/
theorem repeatAdd_takeWhile_length (m : Mode) (d : Dur) (hd : NominalNonneg d) (e : TP) :
    ∀ (n : Nat) (p : TP), p.Valid m →
      (((repeatAdd m d n p).takeWhile (withinEnd m (some e))).length : Int) ≤
        if p.inst m ≤ e.inst m then (e.inst m - p.inst m) / 86400 + 1 else 0 := by
  intro n
  induction n with
  | zero =>
    intro p _
    simp only [repeatAdd, List.takeWhile_nil, List.length_nil]
    split <;> omega
  | succ k ih =>
    intro p hp
    obtain ⟨q, eq', sq, _, _, _, lb⟩ := addDur_nominal_lt m p d hp hd
    have hnn := nominalNonneg_exactSeconds m d hd
    simp only [repeatAdd, eq']
    by_cases c : p.inst m ≤ e.inst m
    · have c' : withinEnd m (some e) p = true := by simp only [withinEnd, decide_eq_true_eq]; exact c
      rw [List.takeWhile_cons_of_pos c', if_pos c]
      have := ih q sq.1
      simp only [List.length_cons]
      split at this <;> omega
    · have c' : ¬ withinEnd m (some e) p = true := by simp only [withinEnd, decide_eq_true_eq]; exact c
      rw [List.takeWhile_cons_of_neg c', if_neg c]
      simp only [List.length_nil]; omega

/-! ### a recurrence with a non-negative nominal interval -/

/-- The facts about a constructed recurrence the iteration lemmas need. -/
structure NomRec (m : Mode) (r : Rec) (d : Dur) : Prop where
  dur : r.dur = some d
  nom : NominalNonneg d
  multi : r.reps ≠ some 1
  startValid : ∀ s, r.start = some s → s.Valid m
  endValid : ∀ e, r.end_ = some e → e.Valid m

/-- `_get_is_in_bounds` of a valid point, in instants. -/
theorem inBounds_eq (m : Mode) (r : Rec) (hsv : ∀ s, r.start = some s → s.Valid m)
    (hev : ∀ e, r.end_ = some e → e.Valid m) (p : TP) (hp : p.Valid m) :
    inBounds m r p = (withinStart m r.start p && withinEnd m r.end_ p) := by
  unfold inBounds withinStart withinEnd
  congr 1
  · cases hs : r.start with
    | none => rfl
    | some s =>
      have h := tpLt_iff m p s hp (hsv s hs)
      simp only
      cases hlt : tpLt m p s
      · have : ¬ (p.inst m < s.inst m) := fun x => by rw [h.mpr x] at hlt; cases hlt
        simp only [Bool.not_false]
        exact (decide_eq_true (by omega)).symm
      · have := h.mp hlt
        simp only [Bool.not_true]
        exact (decide_eq_false (by omega)).symm
  · cases he : r.end_ with
    | none => rfl
    | some e =>
      have h := tpGt_iff m p e hp (hev e he)
      simp only
      cases hgt : tpGt m p e
      · have : ¬ (p.inst m > e.inst m) := fun x => by rw [h.mpr x] at hgt; cases hgt
        simp only [Bool.not_false]
        exact (decide_eq_true (by omega)).symm
      · have := h.mp hgt
        simp only [Bool.not_true]
        exact (decide_eq_false (by omega)).symm

theorem withinStart_of_le (m : Mode) (so : Option TP) (p : TP)
    (h : ∀ s, so = some s → s.inst m ≤ p.inst m) : withinStart m so p = true := by
  cases so with
  | none => rfl
  | some s => simp only [withinStart, decide_eq_true_eq]; exact h s rfl

theorem withinEnd_of_le (m : Mode) (eo : Option TP) (p : TP)
    (h : ∀ e, eo = some e → p.inst m ≤ e.inst m) : withinEnd m eo p = true := by
  cases eo with
  | none => rfl
  | some e => simp only [withinEnd, decide_eq_true_eq]; exact h e rfl

/-- Forward iteration from a valid point at or after the start is the series of repeated
    additions, cut at the first point after the end bound. -/
theorem iterFrom_fwd_nominal (m : Mode) (r : Rec) (d : Dur) (hr : NomRec m r d) :
    ∀ (fuel : Nat) (p : TP), p.Valid m → (∀ s, r.start = some s → s.inst m ≤ p.inst m) →
      iterFrom m r false fuel p = (repeatAdd m d fuel p).takeWhile (withinEnd m r.end_) := by
  intro fuel
  induction fuel with
  | zero => intro p _ _; rfl
  | succ k ih =>
    intro p hp hs
    obtain ⟨q, e, sq, _, _, lt, _⟩ := addDur_nominal_lt m p d hp hr.nom
    have hqs : ∀ s, r.start = some s → s.inst m ≤ q.inst m := fun s h => by have := hs s h; omega
    have bp : inBounds m r p = withinEnd m r.end_ p := by
      rw [inBounds_eq m r hr.startValid hr.endValid p hp, withinStart_of_le m _ p hs, Bool.true_and]
    have bq : inBounds m r q = withinEnd m r.end_ q := by
      rw [inBounds_eq m r hr.startValid hr.endValid q sq.1, withinStart_of_le m _ q hqs, Bool.true_and]
    have hn : getNext m r p = if inBounds m r q then some q else none := by
      unfold getNext
      rw [if_neg hr.multi, hr.dur]
      simp only [e]
    simp only [iterFrom, Bool.false_eq_true, ↓reduceIte, hn, repeatAdd, e]
    by_cases cp : withinEnd m r.end_ p = true
    · rw [bp, if_pos cp, List.takeWhile_cons_of_pos cp]
      congr 1
      by_cases cq : withinEnd m r.end_ q = true
      · rw [bq, if_pos cq]
        exact ih q sq.1 hqs
      · rw [bq, if_neg cq]
        cases k with
        | zero => rfl
        | succ k' =>
          simp only [repeatAdd]
          rw [List.takeWhile_cons_of_neg cq]
    · rw [bp, if_neg cp, List.takeWhile_cons_of_neg cp]

/-- Backward iteration from a valid point at or before the end is the series of repeated
    subtractions, cut at the first point before the start bound. -/
theorem iterFrom_rev_nominal (m : Mode) (r : Rec) (d : Dur) (hr : NomRec m r d) :
    ∀ (fuel : Nat) (p : TP), p.Valid m → (∀ e, r.end_ = some e → p.inst m ≤ e.inst m) →
      iterFrom m r true fuel p = (repeatSub m d fuel p).takeWhile (withinStart m r.start) := by
  intro fuel
  induction fuel with
  | zero => intro p _ _; rfl
  | succ k ih =>
    intro p hp he
    obtain ⟨q, e, sq, _, _, lt, _⟩ := subDur_nominal_lt m p d hp hr.nom
    have hqe : ∀ e', r.end_ = some e' → q.inst m ≤ e'.inst m := fun s h => by have := he s h; omega
    have bp : inBounds m r p = withinStart m r.start p := by
      rw [inBounds_eq m r hr.startValid hr.endValid p hp, withinEnd_of_le m _ p he, Bool.and_true]
    have bq : inBounds m r q = withinStart m r.start q := by
      rw [inBounds_eq m r hr.startValid hr.endValid q sq.1, withinEnd_of_le m _ q hqe, Bool.and_true]
    have hn : getPrev m r p = if inBounds m r q then some q else none := by
      unfold getPrev
      rw [if_neg hr.multi, hr.dur]
      simp only [e]
    simp only [iterFrom, ↓reduceIte, hn, repeatSub, e]
    by_cases cp : withinStart m r.start p = true
    · rw [bp, if_pos cp, List.takeWhile_cons_of_pos cp]
      congr 1
      by_cases cq : withinStart m r.start q = true
      · rw [bq, if_pos cq]
        exact ih q sq.1 hqe
      · rw [bq, if_neg cq]
        cases k with
        | zero => rfl
        | succ k' =>
          simp only [repeatSub]
          rw [List.takeWhile_cons_of_neg cq]
    · rw [bp, if_neg cp, List.takeWhile_cons_of_neg cp]

theorem takeWhile_true {α : Type} (f : α → Bool) (hf : ∀ x, f x = true) :
    ∀ l : List α, l.takeWhile f = l := by
  intro l
  induction l with
  | nil => rfl
  | cons a t ih => rw [List.takeWhile_cons_of_pos (hf a), ih]

/-! ### `__iter__` and the constructor -/

theorem nominal_nonzero (d : Dur) (hd : NominalNonneg d) : d.nonzero = true := by
  obtain ⟨y, mo, dd, hh, mi, s, rfl, _, _, _, _, _, _, h7⟩ := nominalNonneg_units d hd
  simp only [Dur.nonzero, Bool.or_eq_true, bne_iff_ne, ne_eq]
  omega

theorem iter_fwd_nominal (m : Mode) (r : Rec) (d : Dur) (hr : NomRec m r d) (s : TP)
    (hs : r.start = some s) (fuel : Nat) : iter m r fuel = iterFrom m r false fuel s := by
  unfold iter
  simp only [hs, Option.isNone_some, Bool.false_eq_true, ↓reduceIte, hr.dur]
  have h1 : (r.reps == some 1) = false := by
    cases h : r.reps == some 1
    · rfl
    · exact absurd (by simpa using h) hr.multi
  have h2 : (!d.nonzero) = false := by rw [nominal_nonzero d hr.nom]; rfl
  simp only [h1, h2, Bool.or_self, Bool.false_eq_true, ↓reduceIte]

theorem iter_rev_nominal (m : Mode) (r : Rec) (d : Dur) (hr : NomRec m r d) (e : TP)
    (hs : r.start = none) (he : r.end_ = some e) (fuel : Nat) :
    iter m r fuel = iterFrom m r true fuel e := by
  unfold iter
  simp only [hs, Option.isNone_none, ↓reduceIte, he, hr.dur]
  have h1 : (r.reps == some 1) = false := by
    cases h : r.reps == some 1
    · rfl
    · exact absurd (by simpa using h) hr.multi
  have h2 : (!d.nonzero) = false := by rw [nominal_nonzero d hr.nom]; rfl
  simp only [h1, h2, Bool.or_self, Bool.false_eq_true, ↓reduceIte]

theorem zero_das (m : Mode) : Dur.zero.daysAndSeconds m = (0, 0) := by cases m <;> decide

/-- A non-negative nominal interval is not `< Duration()` … -/
theorem lt_zero_false_nominal (m : Mode) (d : Dur) (hd : NominalNonneg d) :
    Dur.lt m d Dur.zero = false := by
  obtain ⟨y, mo, dd, hh, mi, s, rfl, h1, h2, h3, h4, h5, h6, _⟩ := nominalNonneg_units d hd
  unfold Dur.lt
  rw [zero_das]
  have hY : 0 ≤ y * (calOf m).roughDaysInYear :=
    Int.mul_nonneg h1 (by rw [roughDaysInYear_eq']; have := yearLenB_bounds m false; omega)
  simp only [Dur.daysAndSeconds, pairLt, roughDaysInMonth_eq', secondsInDay_eq, secondsInHour_eq,
    secondsInMinute_eq, Bool.or_eq_false_iff, Bool.and_eq_false_iff, decide_eq_false_iff_not,
    beq_eq_false_iff_ne]
  constructor
  · omega
  · right; omega

/-- … and not `== Duration()`. -/
theorem isZeroDur_false_nominal (m : Mode) (d : Dur) (hd : NominalNonneg d) : isZeroDur m d = false := by
  obtain ⟨y, mo, dd, hh, mi, s, rfl, _, _, _, _, _, _, h7⟩ := nominalNonneg_units d hd
  cases h : isZeroDur m (Dur.units y mo dd hh mi s)
  · rfl
  · unfold isZeroDur at h
    have := ((dur_eq_iff m _ _).mp h).1
    simp only [durYm, Dur.zero, Prod.mk.injEq] at this
    omega

theorem mkRec_fmt3_unbounded_nominal (m : Mode) (s : TP) (d : Dur) (hd : NominalNonneg d) :
    mkRec m none (some s) (some d) none = some ⟨none, some s, some d, none, none, 3⟩ := by
  unfold mkRec
  simp only [Bool.false_eq_true, ↓reduceIte, lt_zero_false_nominal m d hd,
    isZeroDur_false_nominal m d hd, reduceCtorEq, or_self]

theorem mkRec_fmt4_unbounded_nominal (m : Mode) (e : TP) (d : Dur) (hd : NominalNonneg d) :
    mkRec m none none (some d) (some e) = some ⟨none, none, some d, some e, none, 4⟩ := by
  unfold mkRec
  simp only [Bool.false_eq_true, ↓reduceIte, lt_zero_false_nominal m d hd,
    isZeroDur_false_nominal m d hd, reduceCtorEq, or_self]

/-- start/duration notation, `n ≥ 2`: the end bound is ONE addition of the multiplied interval. -/
theorem mkRec_fmt3_bounded_nominal (m : Mode) (n : Int) (s : TP) (d : Dur) (hn : 2 ≤ n)
    (hs : s.Valid m) (hd : NominalNonneg d) :
    ∃ e, addDur m s (d.mul (n - 1)) = some e ∧
      mkRec m (some n) (some s) (some d) none = some ⟨some n, some s, some d, some e, none, 3⟩ ∧
      e.Strict m ∧ s.inst m < e.inst m ∧ e.date.rep = s.date.rep ∧ e.tz = s.tz := by
  obtain ⟨e, he, se, re, te, lt, _⟩ :=
    addDur_nominal_lt m s (d.mul (n - 1)) hs (nominalNonneg_mul d (n - 1) hd (by omega))
  refine ⟨e, he, ?_, se, lt, re, te⟩
  unfold mkRec
  have c1 : ¬ n ≤ 0 := by omega
  have c2 : ¬ (n = 1) := by omega
  simp only [c1, decide_false, Bool.false_eq_true, ↓reduceIte, lt_zero_false_nominal m d hd,
    isZeroDur_false_nominal m d hd, Option.some.injEq, c2, or_self, he, Option.map_some]

/-- duration/end notation, `n ≥ 2`: the start bound is ONE subtraction of the multiplied interval. -/
theorem mkRec_fmt4_bounded_nominal (m : Mode) (n : Int) (e : TP) (d : Dur) (hn : 2 ≤ n)
    (he : e.Valid m) (hd : NominalNonneg d) :
    ∃ s, subDur m e (d.mul (n - 1)) = some s ∧
      mkRec m (some n) none (some d) (some e) = some ⟨some n, some s, some d, some e, none, 4⟩ ∧
      s.Strict m ∧ s.inst m < e.inst m ∧ s.date.rep = e.date.rep ∧ s.tz = e.tz := by
  obtain ⟨s, hs, ss, rs, ts, lt, _⟩ :=
    subDur_nominal_lt m e (d.mul (n - 1)) he (nominalNonneg_mul d (n - 1) hd (by omega))
  refine ⟨s, hs, ?_, ss, lt, rs, ts⟩
  unfold mkRec
  have c1 : ¬ n ≤ 0 := by omega
  have c2 : ¬ (n = 1) := by omega
  simp only [c1, decide_false, Bool.false_eq_true, ↓reduceIte, lt_zero_false_nominal m d hd,
    isZeroDur_false_nominal m d hd, Option.some.injEq, c2, or_self, hs, Option.map_some]

end IsoDT.Lemmas
