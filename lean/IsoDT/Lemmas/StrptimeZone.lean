/-
  IsoDT.Lemmas.StrptimeZone — the algebra of the association-list dictionaries of
  `Model/StrptimeZone.lean` (lookup after every dict operation; distinctness of keys), and the
  evaluation of the strptime glue on the dicts a match produces:

  * `dget_*`, `nodup_*`           lookup after / distinct keys through every dict operation;
  * `dget_timeLoop_self`          the loop over `time_info` converts every value when there is no `Z`;
  * `createInfo_eval`, `ctor_eval` `_create_timepoint_from_info` and `TimePoint(**info)` by lookups;
  * `strpZone_fields`             field formats: any subset of the date / time groups, with or
                                  without `%z`, any configuration;
  * `strpZone_unix`, `strpZone_unix_point`  `%s` formats: beside any other groups, any configuration;
  * `mkPoint_eq_mkTP`, `assemble_eq_strpZone_fields`, `assemble_eq_strpZone_unix`,
    `strptime_eq_strpZone`        the summary model `Strf.assemble` / `Strf.strptime` of
                                  `Model/Strftime.lean` agrees with the glue model.
-/
import IsoDT.Model.StrptimeZone
import IsoDT.Lemmas.Strftime
import IsoDT.Props.C09
import IsoDT.Props.C18

namespace IsoDT.Lemmas.StrpZone
open IsoDT IsoDT.Model IsoDT.Model.StrpZone IsoDT.Lemmas
open IsoDT.Spec (Date TZ TP)
open IsoDT.Model.Strf (PCfg)

/-! ### lookups -/

theorem dget_nil (k : Key) : dget [] k = none := rfl

theorem dget_cons (k' : Key) (v : Val) (rest : Dict) (k : Key) :
    dget ((k', v) :: rest) k = if k' = k then some v else dget rest k := rfl

theorem dget_append (a b : Dict) (k : Key) : dget (a ++ b) k = (dget a k).or (dget b k) := by
  induction a with
  | nil => simp [dget]
  | cons e rest ih =>
    obtain ⟨k', v⟩ := e
    simp only [List.cons_append, dget_cons]
    split
    · rfl
    · exact ih

theorem dget_entry (k' : Key) (x : Option Int) (k : Key) :
    dget (entry k' x) k = if k' = k then x.map Val.num else none := by
  cases x with
  | none => simp [entry, dget]
  | some n => simp [entry, dget]

theorem dget_dset (d : Dict) (k' : Key) (v : Val) (k : Key) :
    dget (dset d k' v) k = if k' = k then some v else dget d k := by
  induction d with
  | nil => simp [dset, dget]
  | cons e rest ih =>
    obtain ⟨k1, v1⟩ := e
    simp only [dset]
    by_cases h1 : k1 = k'
    · subst h1
      simp only [↓reduceIte, dget_cons]
      by_cases h2 : k1 = k
      · simp [h2]
      · simp [h2]
    · simp only [h1, ↓reduceIte, dget_cons, ih]
      by_cases h2 : k1 = k
      · subst h2
        simp [Ne.symm h1]
      · simp [h2]

theorem dget_dpop (d : Dict) (k' k : Key) : dget (dpop d k') k = if k' = k then none else dget d k := by
  induction d with
  | nil => simp [dpop, dget]
  | cons e rest ih =>
    obtain ⟨k1, v1⟩ := e
    simp only [dpop]
    by_cases h1 : k1 = k'
    · subst h1
      simp only [↓reduceIte, ih, dget_cons]
      split <;> rfl
    · simp only [h1, ↓reduceIte, dget_cons, ih]
      by_cases h2 : k1 = k
      · subst h2
        simp [Ne.symm h1]
      · simp [h2]

theorem dget_dmapVals (f : Val → Val) (d : Dict) (k : Key) : dget (dmapVals f d) k = (dget d k).map f := by
  induction d with
  | nil => rfl
  | cons e rest ih =>
    obtain ⟨k1, v1⟩ := e
    simp only [dmapVals, dget_cons, ih]
    split <;> rfl

theorem dget_dfilter (p : Key → Bool) (d : Dict) (k : Key) :
    dget (dfilter p d) k = if p k then dget d k else none := by
  induction d with
  | nil => simp [dfilter, dget]
  | cons e rest ih =>
    obtain ⟨k1, v1⟩ := e
    simp only [dfilter]
    by_cases h1 : p k1 = true
    · simp only [h1, ↓reduceIte, dget_cons, ih]
      by_cases h2 : k1 = k
      · subst h2; simp [h1]
      · simp [h2]
    · simp only [h1, Bool.false_eq_true, ↓reduceIte, ih, dget_cons]
      by_cases h2 : k1 = k
      · subst h2; simp [h1]
      · simp [h2]

theorem dget_map_upd (b a : Dict) (k : Key) :
    dget (a.map (fun e => (e.1, (dget b e.1).getD e.2))) k = (dget a k).map fun v => (dget b k).getD v := by
  induction a with
  | nil => rfl
  | cons e rest ih =>
    obtain ⟨k1, v1⟩ := e
    simp only [List.map_cons, dget_cons, ih]
    by_cases h2 : k1 = k
    · subst h2; simp
    · simp [h2]

theorem dget_filter_new (a b : Dict) (k : Key) :
    dget (b.filter (fun e => !dhas a e.1)) k = if dhas a k then none else dget b k := by
  induction b with
  | nil => simp [dget]
  | cons e rest ih =>
    obtain ⟨k1, v1⟩ := e
    simp only [List.filter_cons]
    by_cases h1 : dhas a k1 = true
    · simp only [h1, Bool.not_true, Bool.false_eq_true, ↓reduceIte, ih, dget_cons]
      by_cases h2 : k1 = k
      · subst h2; simp [h1]
      · simp [h2]
    · simp only [h1, Bool.not_false, ↓reduceIte, dget_cons, ih]
      by_cases h2 : k1 = k
      · subst h2; simp [h1]
      · simp [h2]

/-- `a.update(b)`: `b`'s value if it has the key, else `a`'s. -/
theorem dget_dupdate (a b : Dict) (k : Key) : dget (dupdate a b) k = (dget b k).or (dget a k) := by
  unfold dupdate
  rw [dget_append, dget_map_upd, dget_filter_new]
  unfold dhas
  cases ha : dget a k <;> cases hb : dget b k <;> simp

/-! ### distinct keys -/

def keys (d : Dict) : List Key := d.map Prod.fst

/-- What a Python dict is. -/
def NodupKeys (d : Dict) : Prop := (keys d).Nodup

theorem dhas_iff (d : Dict) (k : Key) : dhas d k = true ↔ k ∈ keys d := by
  unfold dhas
  induction d with
  | nil => simp [dget, keys]
  | cons e rest ih =>
    obtain ⟨k1, v1⟩ := e
    simp only [dget_cons, keys, List.map_cons, List.mem_cons]
    by_cases h : k1 = k
    · subst h; simp
    · simp only [h, ↓reduceIte]
      rw [ih]
      constructor
      · intro hm; exact Or.inr hm
      · intro hm
        rcases hm with hm | hm
        · exact absurd hm.symm h
        · exact hm

theorem dget_none_of_not_mem (d : Dict) (k : Key) (h : k ∉ keys d) : dget d k = none := by
  cases hd : dget d k with
  | none => rfl
  | some v =>
    exfalso
    apply h
    apply (dhas_iff d k).mp
    unfold dhas
    rw [hd]
    rfl

theorem keys_dfilter_sub (p : Key → Bool) (d : Dict) : (keys (dfilter p d)).Sublist (keys d) := by
  induction d with
  | nil => exact List.Sublist.slnil
  | cons e rest ih =>
    obtain ⟨k1, v1⟩ := e
    simp only [dfilter]
    split
    · exact List.Sublist.cons_cons _ ih
    · exact List.Sublist.cons _ ih

theorem nodup_dfilter (p : Key → Bool) (d : Dict) (h : NodupKeys d) : NodupKeys (dfilter p d) :=
  List.Nodup.sublist (keys_dfilter_sub p d) h

theorem keys_dpop_sub (d : Dict) (k : Key) : (keys (dpop d k)).Sublist (keys d) := by
  induction d with
  | nil => exact List.Sublist.slnil
  | cons e rest ih =>
    obtain ⟨k1, v1⟩ := e
    simp only [dpop]
    split
    · exact List.Sublist.cons _ ih
    · exact List.Sublist.cons_cons _ ih

theorem nodup_dpop (d : Dict) (k : Key) (h : NodupKeys d) : NodupKeys (dpop d k) :=
  List.Nodup.sublist (keys_dpop_sub d k) h

theorem keys_dmapVals (f : Val → Val) (d : Dict) : keys (dmapVals f d) = keys d := by
  induction d with
  | nil => rfl
  | cons e rest ih =>
    obtain ⟨k1, v1⟩ := e
    simp only [dmapVals, keys, List.map_cons] at ih ⊢
    rw [ih]

theorem nodup_dupdate (a b : Dict) (ha : NodupKeys a) (hb : NodupKeys b) : NodupKeys (dupdate a b) := by
  unfold NodupKeys keys dupdate
  rw [List.map_append, List.map_map]
  have e1 : (Prod.fst ∘ fun e : Key × Val => (e.1, (dget b e.1).getD e.2)) = Prod.fst := rfl
  rw [e1]
  refine List.nodup_append.mpr ⟨ha, List.Nodup.sublist (List.Sublist.map _ List.filter_sublist) hb, ?_⟩
  intro x hx y hy hxy
  subst hxy
  obtain ⟨e, he, rfl⟩ := List.mem_map.mp hy
  have := (List.mem_filter.mp he).2
  have h2 := (dhas_iff a e.1).mpr hx
  rw [h2] at this
  simp at this

theorem nodup_dset (d : Dict) (k : Key) (v : Val) (h : NodupKeys d) : NodupKeys (dset d k v) := by
  induction d with
  | nil => simp [dset, NodupKeys, keys]
  | cons e rest ih =>
    obtain ⟨k1, v1⟩ := e
    have hr : NodupKeys rest := (List.nodup_cons.mp h).2
    have hn : k1 ∉ keys rest := (List.nodup_cons.mp h).1
    simp only [dset]
    by_cases h1 : k1 = k
    · subst h1
      simp only [↓reduceIte]
      exact h
    · simp only [h1, ↓reduceIte]
      refine List.nodup_cons.mpr ⟨?_, ih hr⟩
      intro hm
      have h3 := (dhas_iff _ _).mpr hm
      unfold dhas at h3
      rw [dget_dset, if_neg (Ne.symm h1)] at h3
      exact hn ((dhas_iff _ _).mp h3)

/-! ### the loop over `time_info` -/

theorem dget_timeLoop (items : Dict) (hn : NodupKeys items) (hz : dget items .tzUtc ≠ some .z) (acc : Dict)
    (k : Key) :
    dget (timeLoop items acc) k = (match dget items k with
      | some v => some (tryNum v)
      | none => dget acc k) := by
  induction items generalizing acc with
  | nil => rfl
  | cons e rest ih =>
    obtain ⟨k1, v1⟩ := e
    have hr : NodupKeys rest := (List.nodup_cons.mp hn).2
    have hnm : k1 ∉ keys rest := (List.nodup_cons.mp hn).1
    have hnot : ¬ (k1 = .tzUtc ∧ v1 = .z) := by
      rintro ⟨rfl, rfl⟩
      exact hz (by simp [dget_cons])
    have hz' : dget rest .tzUtc ≠ some .z := by
      by_cases h1 : k1 = .tzUtc
      · subst h1
        rw [dget_none_of_not_mem rest _ hnm]
        simp
      · rw [dget_cons, if_neg h1] at hz
        exact hz
    simp only [timeLoop, hnot, ↓reduceIte]
    rw [ih hr hz', dget_cons]
    by_cases h2 : k1 = k
    · subst h2
      rw [dget_none_of_not_mem rest _ hnm]
      simp [dget_dset]
    · simp only [h2, ↓reduceIte, dget_dset]

/-- Without a `Z` group the loop just converts every value it can. -/
theorem dget_timeLoop_self (t : Dict) (hn : NodupKeys t) (hz : dget t .tzUtc ≠ some .z) (k : Key) :
    dget (timeLoop t t) k = (dget t k).map tryNum := by
  rw [dget_timeLoop t hn hz]
  cases dget t k <;> rfl

/-! ### buckets, `_create_timepoint_from_info`, the constructor: by lookups -/

theorem dfilter_append (p : Key → Bool) (a b : Dict) : dfilter p (a ++ b) = dfilter p a ++ dfilter p b := by
  induction a with
  | nil => rfl
  | cons e rest ih =>
    obtain ⟨k1, v1⟩ := e
    simp only [List.cons_append, dfilter, ih]
    split <;> rfl

theorem dfilter_entry (p : Key → Bool) (k : Key) (x : Option Int) :
    dfilter p (entry k x) = if p k then entry k x else [] := by
  cases x with
  | none => simp [entry, dfilter]
  | some n => simp [entry, dfilter]

theorem dfilter_all (p : Key → Bool) (d : Dict) (h : ∀ k ∈ keys d, p k = true) : dfilter p d = d := by
  induction d with
  | nil => rfl
  | cons e rest ih =>
    obtain ⟨k1, v1⟩ := e
    have h1 : p k1 = true := h k1 (by simp [keys])
    simp only [dfilter, h1, ↓reduceIte]
    rw [ih (fun k hk => h k (by simp only [keys, List.map_cons, List.mem_cons] at hk ⊢; exact Or.inr hk))]

theorem dfilter_none (p : Key → Bool) (d : Dict) (h : ∀ k ∈ keys d, p k = false) : dfilter p d = [] := by
  induction d with
  | nil => rfl
  | cons e rest ih =>
    obtain ⟨k1, v1⟩ := e
    have h1 : p k1 = false := h k1 (by simp [keys])
    simp only [dfilter, h1, Bool.false_eq_true, ↓reduceIte]
    exact ih (fun k hk => h k (by simp only [keys, List.map_cons, List.mem_cons] at hk ⊢; exact Or.inr hk))

/-- The date groups of a match. -/
def dateEntries (y mo d n : Option Int) : Dict :=
  yearEntries y ++ entry .monthOfYear mo ++ entry .dayOfMonth d ++ entry .dayOfYear n

/-- The time groups of a match. -/
def timeEntries (hh mi ss : Option Int) : Dict :=
  entry .hourOfDay hh ++ entry .minuteOfHour mi ++ entry .secondOfMinute ss

theorem keys_dateEntries (y mo d n : Option Int) : ∀ k ∈ keys (dateEntries y mo d n), isDateKey k = true := by
  cases y <;> cases mo <;> cases d <;> cases n <;> simp [keys, dateEntries, yearEntries, entry, isDateKey]

theorem keys_timeEntries (hh mi ss : Option Int) :
    ∀ k ∈ keys (timeEntries hh mi ss), isDateKey k = false ∧ isTimeKey k = true := by
  cases hh <;> cases mi <;> cases ss <;> simp [keys, timeEntries, entry, isDateKey, isTimeKey]

theorem keys_append (a b : Dict) : keys (a ++ b) = keys a ++ keys b := by simp [keys]

/-- The partition loop on a dict that lists date groups, time groups and other keys in this order
    (any order would do: the buckets are filters). -/
theorem partition_eval (D T Z : Dict) (hD : ∀ k ∈ keys D, isDateKey k = true)
    (hT : ∀ k ∈ keys T, isDateKey k = false ∧ isTimeKey k = true)
    (hZ : ∀ k ∈ keys Z, isDateKey k = false ∧ isTimeKey k = false) :
    dateBucket (D ++ T ++ Z) = D ∧ timeBucket (D ++ T ++ Z) = T ∧ zoneBucket (D ++ T ++ Z) = Z := by
  unfold dateBucket timeBucket zoneBucket
  simp only [dfilter_append]
  refine ⟨?_, ?_, ?_⟩
  · rw [dfilter_all _ D hD, dfilter_none _ T (fun k hk => (hT k hk).1), dfilter_none _ Z (fun k hk => (hZ k hk).1)]
    simp
  · rw [dfilter_none _ D (fun k hk => by simp [hD k hk]), dfilter_all _ T (fun k hk => by simp [hT k hk]),
      dfilter_none _ Z (fun k hk => by simp [hZ k hk])]
    simp
  · rw [dfilter_none _ D (fun k hk => by simp [hD k hk]), dfilter_none _ T (fun k hk => by simp [hT k hk]),
      dfilter_all _ Z (fun k hk => by simp [hZ k hk])]
    simp

/-- What the constructor call answers. -/
def resOf : Option TP → Res
  | some p => .ok p false
  | none => .err

theorem nodup_timeEntries (hh mi ss : Option Int) : NodupKeys (timeEntries hh mi ss) := by
  cases hh <;> cases mi <;> cases ss <;> simp [NodupKeys, keys, timeEntries, entry]

theorem dget_timeEntries (hh mi ss : Option Int) (k : Key) :
    dget (timeEntries hh mi ss) k =
      if k = .hourOfDay then hh.map Val.num else if k = .minuteOfHour then mi.map Val.num
      else if k = .secondOfMinute then ss.map Val.num else none := by
  unfold timeEntries
  simp only [dget_append, dget_entry]
  cases k <;> simp

theorem dget_dateEntries (y mo d n : Option Int) (k : Key) :
    dget (dateEntries y mo d n) k =
      if k = .century then y.map (fun y => Val.num (y / 100))
      else if k = .yearOfCentury then y.map (fun y => Val.num (y % 100))
      else if k = .monthOfYear then mo.map Val.num else if k = .dayOfMonth then d.map Val.num
      else if k = .dayOfYear then n.map Val.num else none := by
  unfold dateEntries
  simp only [dget_append, dget_entry]
  cases y <;> cases k <;> simp [yearEntries, dget_cons, dget_nil]

/-- The lookups of the `info` dict `_create_timepoint_from_info` hands to `TimePoint(**info)`,
    when the time bucket has distinct keys and no `Z` group. -/
theorem createInfo_eval (m : Mode) (D T : Dict) (hn : NodupKeys T) (hz : dget T .tzUtc ≠ some .z)
    (htr : dget D .truncated = none) (hc : dhas D .yearOfCentury = true → dhas D .century = true)
    (y0 yc c : Int) (h0 : intOr0 D .year = some y0) (h1 : intOr0 D .yearOfCentury = some yc)
    (h2 : intOr0 D .century = some c) :
    ∃ info, createInfo m D T = ctor m info ∧ ∀ k, dget info k =
      if k = .truncated then
        (if ((dget T .truncated).map tryNum).any Val.truthy then some (.flag true) else none)
      else ((dget T k).map tryNum).or
        (if k = .year then some (.num (y0 + yc + 100 * c))
         else if k = .century ∨ k = .yearOfCentury then none else (dget D k).map tryNum) := by
  have c1 : ((dget D .truncated).any Val.truthy) = false := by rw [htr]; rfl
  have c2 : (!dhas D .century && dhas D .yearOfCentury) = false := by
    cases h : dhas D .yearOfCentury
    · simp
    · simp [hc h]
  have hT := dget_timeLoop_self T hn hz
  let D' := dset (dpop (dpop D .yearOfCentury) .century) .year (.num (y0 + yc + 100 * c))
  let info1 := dupdate (dupdate [] (dmapVals tryNum D')) (timeLoop T T)
  let info2 := if (dget info1 .truncated).any Val.truthy then dset (dpop info1 .truncated) .truncated (.flag true)
    else dpop info1 .truncated
  have e1 : ∀ k, dget info1 k = ((dget T k).map tryNum).or
      (if k = .year then some (.num (y0 + yc + 100 * c))
       else if k = .century ∨ k = .yearOfCentury then none else (dget D k).map tryNum) := by
    intro k
    simp only [info1, D', dget_dupdate, hT, dget_dmapVals, dget_dset, dget_dpop, dget_nil, Option.or_none]
    congr 1
    by_cases a : Key.year = k
    · subst a; simp [tryNum]
    · by_cases b : Key.century = k
      · subst b; simp
      · by_cases c' : Key.yearOfCentury = k
        · subst c'; simp
        · simp [a, b, c', Ne.symm a, Ne.symm b, Ne.symm c']
  refine ⟨info2, ?_, ?_⟩
  · unfold createInfo
    simp only [c1, c2, h0, h1, h2, Bool.false_eq_true, ↓reduceIte]
    rfl
  · intro k
    have et : dget info1 .truncated = (dget T .truncated).map tryNum := by
      rw [e1]; simp [htr]
    by_cases hk : k = .truncated
    · subst hk
      simp only [↓reduceIte, info2, et]
      split
      · simp [dget_dset]
      · simp [dget_dpop]
    · simp only [hk, ↓reduceIte, info2]
      rw [← e1]
      split
      · simp [dget_dset, dget_dpop, Ne.symm hk]
      · simp [dget_dpop, Ne.symm hk]

theorem map_tryNum_num (x : Option Int) : (x.map Val.num).map tryNum = x.map Val.num := by
  cases x <;> rfl

theorem numOfVal_map_num (x : Option Int) : numOfVal (x.map Val.num) = some x := by
  cases x <;> rfl

/-- The keys that are a `TypeError` for `TimePoint(**info)` are exactly those `__init__` does not name. -/
theorem nonCtorKeys_spec (k : Key) : isCtorKey k = !nonCtorKeys.contains k := by
  cases k <;> decide

/-- `TimePoint(**info)` from the lookups of `info`. -/
theorem ctor_eval (m : Mode) (info : Dict) (a : TPArgs)
    (hbad : ∀ k ∈ nonCtorKeys, dget info k = none)
    (htr : dget info .truncated = none)
    (hp : dget info .truncatedProperty = none ∨ dget info .truncatedProperty = some .none)
    (hd : dget info .truncatedDumpFormat = none ∨ dget info .truncatedDumpFormat = some .none)
    (hf : dget info .dumpFormat = none ∨ dget info .dumpFormat = some .none)
    (hx : dget info .numExpandedYearDigits = none ∨ ∃ e, dget info .numExpandedYearDigits = some (.num e))
    (h1 : numArg info .year = some a.year) (h2 : numArg info .monthOfYear = some a.month)
    (h3 : numArg info .weekOfYear = some a.week) (h4 : numArg info .dayOfYear = some a.doy)
    (h5 : numArg info .dayOfMonth = some a.dom) (h6 : numArg info .dayOfWeek = some a.dow)
    (h7 : numArg info .hourOfDay = some a.hh) (h8 : numArg info .minuteOfHour = some a.mi)
    (h9 : numArg info .secondOfMinute = some a.ss) (h10 : numArg info .tzHour = some a.tzh)
    (h11 : numArg info .tzMinute = some a.tzm) :
    ctor m info = resOf (mkTP m a) := by
  have b1 : nonCtorKeys.any (dhas info) = false := by
    simp only [nonCtorKeys, List.any_cons, List.any_nil, dhas]
    rw [hbad .century (by simp [nonCtorKeys]), hbad .yearOfCentury (by simp [nonCtorKeys]),
      hbad .tzSign (by simp [nonCtorKeys]), hbad .unix (by simp [nonCtorKeys]), hbad .tzUtc (by simp [nonCtorKeys])]
    rfl
  have b2 : noneOrAbsent info .truncatedProperty = true := by
    unfold noneOrAbsent; rcases hp with h | h <;> rw [h] <;> rfl
  have b3 : noneOrAbsent info .truncatedDumpFormat = true := by
    unfold noneOrAbsent; rcases hd with h | h <;> rw [h] <;> rfl
  have b4 : noneOrAbsent info .dumpFormat = true := by
    unfold noneOrAbsent; rcases hf with h | h <;> rw [h] <;> rfl
  have b5 : (dget info .numExpandedYearDigits == some .none) = false := by
    rcases hx with h | ⟨e, h⟩ <;> rw [h] <;> rfl
  have b6 : ∃ e, numArg info .numExpandedYearDigits = some e := by
    unfold numArg
    rcases hx with h | ⟨e, h⟩ <;> rw [h]
    · exact ⟨none, rfl⟩
    · exact ⟨some e, rfl⟩
  obtain ⟨e, b6⟩ := b6
  unfold ctor
  simp only [b1, htr, b2, b3, b4, b5, b6, h1, h2, h3, h4, h5, h6, h7, h8, h9, h10, h11, Option.any_none,
    Bool.false_eq_true, ↓reduceIte, Bool.and_self, Bool.not_true]
  cases mkTP m a <;> rfl

/-! ### field formats -/

theorem tryNum_comp_num : tryNum ∘ Val.num = Val.num := rfl

theorem numOfVal_some_num (n : Int) : numOfVal (some (Val.num n)) = some (some n) := rfl

theorem numOfVal_none : numOfVal none = some none := rfl

theorem entry_none (k : Key) : entry k none = [] := rfl

/-- The zone keywords `process_time_zone_info` supplies when no zone group was captured:
    `assumed_time_zone` if given, else nothing at all if `default_to_unknown_time_zone`, else the
    local zone. -/
def defaultZoneArgs (cfg : PCfg) (loc : TZ) : Option Int × Option Int :=
  match cfg.assumed with
  | some a => (some a.h, some a.mi)
  | none => if cfg.defaultUnknown then (none, none) else (some loc.h, some loc.mi)

/-- The zone keywords that reach the constructor: from the `%z` groups if captured, else what
    `process_time_zone_info` supplies. -/
def zoneArgs (cfg : PCfg) (loc : TZ) : Option (Bool × Int × Int) → Option Int × Option Int
  | none => defaultZoneArgs cfg loc
  | some (neg, h, mi) => if neg then (some (-h), some (-mi)) else (some h, some mi)

theorem processTZ_zoneEntries (cfg : PCfg) (loc : TZ) (zone : Option (Bool × Int × Int)) :
    processTZ cfg loc (zoneEntries zone) =
      some (entry .tzHour (zoneArgs cfg loc zone).1 ++ entry .tzMinute (zoneArgs cfg loc zone).2) := by
  obtain ⟨assumed, unk⟩ := cfg
  cases zone with
  | none =>
    cases assumed <;> cases unk <;> simp [processTZ, zoneEntries, zoneArgs, defaultZoneArgs, entry]
  | some z =>
    obtain ⟨neg, h, mi⟩ := z
    cases neg <;> simp [processTZ, zoneEntries, zoneArgs, entry, dget, dpop, dset]

theorem keys_zoneEntries (zone : Option (Bool × Int × Int)) :
    ∀ k ∈ keys (zoneEntries zone), isDateKey k = false ∧ isTimeKey k = false := by
  cases zone with
  | none => simp [keys, zoneEntries]
  | some z => obtain ⟨neg, h, mi⟩ := z; simp [keys, zoneEntries, isDateKey, isTimeKey]

theorem dget_zoneEntries (zone : Option (Bool × Int × Int)) (k : Key) :
    dget (zoneEntries zone) k =
      if k = .tzSign then zone.map (fun z => Val.sign z.1)
      else if k = .tzHour then zone.map (fun z => Val.num z.2.1)
      else if k = .tzMinute then zone.map (fun z => Val.num z.2.2) else none := by
  cases zone with
  | none => cases k <;> simp [zoneEntries, dget_nil]
  | some z => obtain ⟨neg, h, mi⟩ := z; cases k <;> simp [zoneEntries, dget_cons, dget_nil]

theorem dget_zoneDict (zh zm : Option Int) (k : Key) :
    dget (entry .tzHour zh ++ entry .tzMinute zm) k =
      if k = .tzHour then zh.map Val.num else if k = .tzMinute then zm.map Val.num else none := by
  simp only [dget_append, dget_entry]
  cases k <;> simp

theorem nodup_zoneDict (zh zm : Option Int) : NodupKeys (entry .tzHour zh ++ entry .tzMinute zm) := by
  cases zh <;> cases zm <;> simp [NodupKeys, keys, entry]

theorem intOr0V_map_num (x : Option Int) (f : Int → Int) :
    intOr0V (x.map fun y => Val.num (f y)) = some ((x.map f).getD 0) := by
  cases x <;> rfl

/-- **Field formats** (no `%s`, no `Z` group): the constructor receives exactly the captured
    numbers, `year = 100·century + year_of_century` (0 without `%Y`), and the zone keywords of
    `zoneArgs`. -/
theorem strpZone_fields (m : Mode) (cfg : PCfg) (loc : TZ) (year month dom doy hh mi ss : Option Int)
    (zone : Option (Bool × Int × Int)) :
    strpZone m cfg loc
        { year := year, month := month, dom := dom, doy := doy, hh := hh, mi := mi, ss := ss, zone := zone } =
      resOf (mkTP m ⟨some (year.getD 0), month, none, doy, dom, none, hh, mi, ss,
        (zoneArgs cfg loc zone).1, (zoneArgs cfg loc zone).2⟩) := by
  have hG : Matched.groupdict ⟨year, month, dom, doy, hh, mi, ss, zone, false, none⟩ =
      dateEntries year month dom doy ++ timeEntries hh mi ss ++ zoneEntries zone := by
    simp [Matched.groupdict, dateEntries, timeEntries, utcEntries, entry_none, List.append_assoc]
  obtain ⟨pd, pt, pz⟩ := partition_eval _ _ _ (keys_dateEntries year month dom doy) (keys_timeEntries hh mi ss)
    (keys_zoneEntries zone)
  have hu : dget (dateEntries year month dom doy ++ timeEntries hh mi ss ++ zoneEntries zone) .unix = none := by
    simp [dget_append, dget_dateEntries, dget_timeEntries, dget_zoneEntries]
  unfold strpZone glue
  rw [hG]
  simp only [applyTranslators, hu, pd, pt, pz, processTZ_zoneEntries]
  generalize (zoneArgs cfg loc zone).1 = zh
  generalize (zoneArgs cfg loc zone).2 = zm
  have hn : NodupKeys (dupdate (timeEntries hh mi ss) (entry .tzHour zh ++ entry .tzMinute zm)) :=
    nodup_dupdate _ _ (nodup_timeEntries hh mi ss) (nodup_zoneDict zh zm)
  have hz : dget (dupdate (timeEntries hh mi ss) (entry .tzHour zh ++ entry .tzMinute zm)) .tzUtc ≠ some .z := by
    simp [dget_dupdate, dget_timeEntries, dget_zoneDict]
  obtain ⟨info, e, hl⟩ := createInfo_eval m (dateEntries year month dom doy) _ hn hz
    (by simp [dget_dateEntries])
    (by unfold dhas; simp only [dget_dateEntries]; cases year <;> simp)
    0 ((year.map (· % 100)).getD 0) ((year.map (· / 100)).getD 0)
    (by unfold intOr0; simp [dget_dateEntries]; rfl)
    (by unfold intOr0; simp only [dget_dateEntries]; simp; exact intOr0V_map_num year (· % 100))
    (by unfold intOr0; simp only [dget_dateEntries]; simp; exact intOr0V_map_num year (· / 100))
  rw [e]
  have hy : (year.map (· % 100)).getD 0 + 100 * (year.map (· / 100)).getD 0 = year.getD 0 := by
    cases year with
    | none => rfl
    | some y => simp only [Option.map_some, Option.getD_some]; omega
  apply ctor_eval
  all_goals
    simp [numArg, hl, dget_dupdate, dget_timeEntries, dget_zoneDict, dget_dateEntries,
      numOfVal_map_num, nonCtorKeys, hy, tryNum_comp_num, numOfVal_some_num, numOfVal_none]

/-! ### `%s` formats -/

theorem nodup_append_of (a b : Dict) (ha : NodupKeys a) (hb : NodupKeys b)
    (hdis : ∀ k, k ∈ keys a → k ∉ keys b) : NodupKeys (a ++ b) := by
  unfold NodupKeys
  rw [keys_append]
  exact List.nodup_append.mpr ⟨ha, hb, fun x hx y hy hxy => hdis x hx (hxy ▸ hy)⟩

theorem nodup_dateEntries (y mo d n : Option Int) : NodupKeys (dateEntries y mo d n) := by
  cases y <;> cases mo <;> cases d <;> cases n <;> simp [NodupKeys, keys, dateEntries, yearEntries, entry]

/-- The zone groups and the `%s` group of a match. -/
def otherEntries (zone : Option (Bool × Int × Int)) (n : Option Int) : Dict := zoneEntries zone ++ entry .unix n

theorem nodup_otherEntries (zone : Option (Bool × Int × Int)) (n : Option Int) : NodupKeys (otherEntries zone n) := by
  cases zone <;> cases n <;> simp [NodupKeys, keys, otherEntries, zoneEntries, entry]

theorem keys_otherEntries (zone : Option (Bool × Int × Int)) (n : Option Int) :
    ∀ k ∈ keys (otherEntries zone n), isDateKey k = false ∧ isTimeKey k = false := by
  cases zone <;> cases n <;> simp [keys, otherEntries, zoneEntries, entry, isDateKey, isTimeKey]

theorem dget_otherEntries (zone : Option (Bool × Int × Int)) (n : Option Int) (k : Key) :
    dget (otherEntries zone n) k =
      if k = .tzSign then zone.map (fun z => Val.sign z.1)
      else if k = .tzHour then zone.map (fun z => Val.num z.2.1)
      else if k = .tzMinute then zone.map (fun z => Val.num z.2.2)
      else if k = .unix then n.map Val.num else none := by
  unfold otherEntries
  rw [dget_append, dget_zoneEntries, dget_entry]
  cases k <;> simp

theorem groupdict_split (year month dom doy hh mi ss : Option Int) (zone : Option (Bool × Int × Int))
    (n : Option Int) :
    Matched.groupdict ⟨year, month, dom, doy, hh, mi, ss, zone, false, n⟩ =
      dateEntries year month dom doy ++ timeEntries hh mi ss ++ otherEntries zone n := by
  simp [Matched.groupdict, dateEntries, timeEntries, otherEntries, utcEntries, List.append_assoc]

/-- A match is a dict: no key twice. -/
theorem nodup_groupdict (year month dom doy hh mi ss : Option Int) (zone : Option (Bool × Int × Int))
    (n : Option Int) :
    NodupKeys (dateEntries year month dom doy ++ timeEntries hh mi ss ++ otherEntries zone n) := by
  apply nodup_append_of _ _ _ (nodup_otherEntries zone n)
  · intro k hk hk2
    have h2 := keys_otherEntries zone n k hk2
    rw [keys_append] at hk
    rcases List.mem_append.mp hk with h | h
    · have := keys_dateEntries _ _ _ _ k h; rw [h2.1] at this; cases this
    · have := keys_timeEntries _ _ _ k h; rw [h2.2] at this; cases this.2
  · apply nodup_append_of _ _ (nodup_dateEntries _ _ _ _) (nodup_timeEntries _ _ _)
    intro k hk hk2
    have := keys_dateEntries _ _ _ _ k hk
    rw [(keys_timeEntries _ _ _ k hk2).1] at this
    cases this

theorem dget_props_cal (y mo d hh mi ss : Int) (tz : TZ) (k : Key) :
    dget (propsOfPoint ⟨.cal y mo d, hh, mi, ss, tz⟩) k =
      match k with
      | .numExpandedYearDigits => some (.num 0) | .year => some (.num y) | .monthOfYear => some (.num mo)
      | .dayOfYear => some .none | .dayOfMonth => some (.num d) | .dayOfWeek => some .none
      | .weekOfYear => some .none | .hourOfDay => some (.num hh) | .minuteOfHour => some (.num mi)
      | .secondOfMinute => some (.num ss) | .truncated => some (.flag false)
      | .truncatedProperty => some .none | .truncatedDumpFormat => some .none | .dumpFormat => some .none
      | .tzHour => some (.num tz.h) | .tzMinute => some (.num tz.mi)
      | _ => none := by
  cases k <;> rfl

theorem nodup_props (q : TP) : NodupKeys (propsOfPoint q) := by
  simp [NodupKeys, keys, propsOfPoint]

theorem isEmpty_false_of_dget (d : Dict) (k : Key) (v : Val) (h : dget d k = some v) : d.isEmpty = false := by
  cases d with
  | nil => simp [dget] at h
  | cons e rest => rfl


/-- The sign a captured `%z` applies to the (overwritten) offset. -/
def zsgn (zone : Option (Bool × Int × Int)) (x : Int) : Int :=
  if zone.map (·.1) = some true then -x else x

/-- **`%s` formats**: whatever other groups the format captures beside `%s` (any date and time
    fields; with or without `%z`) and whatever the parser configuration, the constructor receives
    the fields of the LOCAL-zone point of that Unix time, with the local offset (negated when a
    `%z` captured a minus sign). -/
theorem strpZone_unix (m : Mode) (cfg : PCfg) (loc : TZ) (n : Int) (y mo d h mi s : Int) (tz : TZ)
    (hmk : mkTZ m loc.h loc.mi = some loc)
    (hq : fromUnix m n (some loc) = some ⟨.cal y mo d, h, mi, s, tz⟩)
    (year month dom doy hh mi' ss : Option Int) (zone : Option (Bool × Int × Int)) :
    strpZone m cfg loc ⟨year, month, dom, doy, hh, mi', ss, zone, false, some n⟩ =
      resOf (mkTP m ⟨some y, some mo, none, none, some d, none, some h, some mi, some s,
        some (zsgn zone tz.h), some (zsgn zone tz.mi)⟩) := by
  unfold strpZone glue
  rw [groupdict_split]
  generalize hGd : dateEntries year month dom doy ++ timeEntries hh mi' ss ++ otherEntries zone (some n) = G
  have hGn : NodupKeys G := hGd ▸ nodup_groupdict year month dom doy hh mi' ss zone (some n)
  have hG : ∀ k, dget G k = (dget (dateEntries year month dom doy) k).or
      ((dget (timeEntries hh mi' ss) k).or (dget (otherEntries zone (some n)) k)) := by
    intro k; rw [← hGd, dget_append, dget_append, Option.or_assoc]
  have hGu : dget G .unix = some (.num n) := by
    rw [hG]; simp [dget_dateEntries, dget_timeEntries, dget_otherEntries]
  generalize hP : propsOfPoint ⟨.cal y mo d, h, mi, s, tz⟩ = P
  have hPl := fun k => hP ▸ dget_props_cal y mo d h mi s tz k
  have hPn : NodupKeys P := hP ▸ nodup_props _
  simp only [applyTranslators, hGu, unixProps, hmk, hq, Option.map_some, hP]
  generalize hI : dupdate (dpop G .unix) P = info
  have hIn : NodupKeys info := hI ▸ nodup_dupdate _ _ (nodup_dpop _ _ hGn) hPn
  have hIl : ∀ k, dget info k = (dget P k).or (if Key.unix = k then none else dget G k) := by
    intro k; rw [← hI, dget_dupdate, dget_dpop]
  have hZl : ∀ k, dget (zoneBucket info) k = if (!isDateKey k && !isTimeKey k) = true then dget info k else none := by
    intro k; unfold zoneBucket; rw [dget_dfilter]
  have hne : (zoneBucket info).isEmpty = false :=
    isEmpty_false_of_dget _ .year (.num y) (by rw [hZl, hIl, hPl]; rfl)
  have hsign : dget (zoneBucket info) .tzSign = zone.map (fun z => Val.sign z.1) := by
    rw [hZl, hIl, hPl, hG]; simp [isDateKey, isTimeKey, dget_dateEntries, dget_timeEntries, dget_otherEntries]
  have hzh : dget (dpop (zoneBucket info) .tzSign) .tzHour = some (.num tz.h) := by
    rw [dget_dpop, hZl, hIl, hPl]; simp [isDateKey, isTimeKey]
  have hzm : dget (dset (dpop (zoneBucket info) .tzSign) .tzHour (.num (-tz.h))) .tzMinute = some (.num tz.mi) := by
    rw [dget_dset, dget_dpop, hZl, hIl, hPl]; simp [isDateKey, isTimeKey]
  have hp : processTZ cfg loc (zoneBucket info) = some
      (if zone.map (·.1) = some true then
        dset (dset (dpop (zoneBucket info) .tzSign) .tzHour (.num (-tz.h))) .tzMinute (.num (-tz.mi))
       else dpop (zoneBucket info) .tzSign) := by
    unfold processTZ
    simp only [hne, Bool.false_eq_true, ↓reduceIte, hsign]
    rcases zone with _ | ⟨neg, zh, zm⟩
    · simp
    · cases neg
      · simp
      · simp [hzh, hzm]
  rw [hp]
  simp only
  generalize hR : (if zone.map (·.1) = some true then
        dset (dset (dpop (zoneBucket info) .tzSign) .tzHour (.num (-tz.h))) .tzMinute (.num (-tz.mi))
       else dpop (zoneBucket info) .tzSign) = tzres
  have hZn : NodupKeys (zoneBucket info) := nodup_dfilter _ _ hIn
  have hRn : NodupKeys tzres := by
    rw [← hR]; split
    · exact nodup_dset _ _ _ (nodup_dset _ _ _ (nodup_dpop _ _ hZn))
    · exact nodup_dpop _ _ hZn
  have hRl : ∀ k, dget tzres k = if k = .tzSign then none else if k = .tzHour then some (.num (zsgn zone tz.h))
      else if k = .tzMinute then some (.num (zsgn zone tz.mi)) else dget (zoneBucket info) k := by
    intro k
    rw [← hR]
    by_cases c : zone.map (·.1) = some true
    · simp only [c, ↓reduceIte, dget_dset, dget_dpop, zsgn]
      cases k <;> simp
    · simp only [c, ↓reduceIte, dget_dpop, zsgn]
      cases k <;> simp [hZl, hIl, hPl, isDateKey, isTimeKey]
  have hTl : ∀ k, dget (timeBucket info) k = if (!isDateKey k && isTimeKey k) = true then dget info k else none := by
    intro k; unfold timeBucket; rw [dget_dfilter]
  have hDl : ∀ k, dget (dateBucket info) k = if isDateKey k = true then dget info k else none := by
    intro k; unfold dateBucket; rw [dget_dfilter]
  have hn : NodupKeys (dupdate (timeBucket info) tzres) := nodup_dupdate _ _ (nodup_dfilter _ _ hIn) hRn
  have hz : dget (dupdate (timeBucket info) tzres) .tzUtc ≠ some .z := by
    rw [dget_dupdate, hRl, hTl, hZl, hIl, hPl, hG]
    simp [isDateKey, isTimeKey, dget_dateEntries, dget_timeEntries, dget_otherEntries]
  obtain ⟨info', e, hl⟩ := createInfo_eval m (dateBucket info) _ hn hz
    (by rw [hDl]; rfl)
    (by unfold dhas; rw [hDl, hDl, hIl, hIl, hPl, hPl, hG, hG]
        simp only [isDateKey, dget_dateEntries, dget_timeEntries, dget_otherEntries]; cases year <;> simp)
    0 ((year.map (· % 100)).getD 0) ((year.map (· / 100)).getD 0)
    (by unfold intOr0; rw [hDl]; rfl)
    (by unfold intOr0; rw [hDl, hIl, hPl, hG]
        simp only [isDateKey, dget_dateEntries, dget_timeEntries, dget_otherEntries]; simp
        exact intOr0V_map_num year (· % 100))
    (by unfold intOr0; rw [hDl, hIl, hPl, hG]
        simp only [isDateKey, dget_dateEntries, dget_timeEntries, dget_otherEntries]; simp
        exact intOr0V_map_num year (· / 100))
  rw [e]
  apply ctor_eval
  all_goals
    simp [numArg, hl, dget_dupdate, hRl, hTl, hZl, hDl, hIl, hPl, hG, isDateKey, isTimeKey, dget_dateEntries,
      dget_timeEntries, dget_otherEntries, nonCtorKeys, tryNum, Val.truthy, numOfVal]

/-! ### the zone the constructor builds -/

/-- The constructor puts the zone `TimeZone(hours=…, minutes=…)` built on the point. -/
theorem mkTP_tz (m : Mode) (a : TPArgs) (p : TP) (h : mkTP m a = some p) :
    mkTZOpt m a.tzh a.tzm = some p.tz := by
  unfold mkTP at h
  cases hy : a.year with
  | none => rw [hy] at h; cases h
  | some y =>
    rw [hy] at h
    simp only at h
    cases hz : mkTZOpt m a.tzh a.tzm with
    | none => rw [hz] at h; cases h
    | some tz =>
      rw [hz] at h
      simp only at h
      split at h
      · cases h
      · split at h
        · unfold finishTP at h
          split at h
          all_goals (cases h; try rfl)
        · cases h

theorem mkTZOpt_none_none (m : Mode) : mkTZOpt m none none = some ⟨0, 0⟩ := rfl

theorem mkTZOpt_zero (m : Mode) : mkTZOpt m (some 0) (some 0) = some ⟨0, 0⟩ := by
  unfold mkTZOpt
  rw [Lemmas.minutesInHour_eq]
  rfl

/-- No zone keyword at all is the zone (0, 0). -/
theorem mkTP_no_zone (m : Mode) (y mo w doy dom dow hh mi ss : Option Int) :
    mkTP m ⟨y, mo, w, doy, dom, dow, hh, mi, ss, none, none⟩ =
      mkTP m ⟨y, mo, w, doy, dom, dow, hh, mi, ss, some 0, some 0⟩ := by
  unfold mkTP
  simp only [mkTZOpt_none_none, mkTZOpt_zero]

/-! ### agreement with the summary model `Strf.assemble` of `Model/Strftime.lean` -/

open IsoDT.Model.Strf (mkPoint timeOk dateOk pickDate Err)

theorem mkTZOpt_some (m : Mode) (h mi : Int) : mkTZOpt m (some h) (some mi) = mkTZ m h mi := rfl

/-- The time-of-day part of `_check_bounds`, in the two models' spellings. -/
theorem timeOk_eq (m : Mode) (hh mi ss : Int) :
    timeOk m hh mi ss =
      (decide (0 ≤ hh ∧ hh ≤ (calOf m).hoursInDay) &&
        (if hh = (calOf m).hoursInDay then decide (mi = 0 ∧ ss = 0)
         else decide (0 ≤ mi ∧ mi < (calOf m).minutesInHour ∧ 0 ≤ ss ∧ ss < (calOf m).secondsInMinute))) := by
  unfold timeOk
  by_cases c : hh = (calOf m).hoursInDay
  · simp only [c, ↓reduceIte]
    by_cases c2 : mi = 0 ∧ ss = 0
    · simp [c2.1, c2.2]
    · simp [c2]
  · simp only [c, ↓reduceIte]
    rw [Bool.eq_iff_iff]
    simp only [Bool.and_eq_true, decide_eq_true_eq]
    constructor
    · rintro ⟨⟨a, b, c', d⟩, e, f⟩; exact ⟨⟨a, b⟩, c', e, d, f⟩
    · rintro ⟨⟨a, b⟩, c', e, d, f⟩; exact ⟨⟨a, b, c', d⟩, e, f⟩

/-- `Strf.mkPoint` (the constructor as `Model/Strftime.lean` spells it) is `Model.mkTP`. -/
theorem mkPoint_eq_mkTP (m : Mode) (year : Int) (mo d doy hh mi ss : Option Int) (tzh tzm : Int) :
    (mkPoint m year mo d doy hh mi ss tzh tzm).toOption =
      mkTP m ⟨some year, mo, none, doy, d, none, hh, mi, ss, some tzh, some tzm⟩ := by
  unfold mkPoint mkTP
  simp only [mkTZOpt_some]
  cases mkTZ m tzh tzm with
  | none => rfl
  | some tz =>
    simp only
    cases doy with
    | some n =>
      cases mo with
      | some mv =>
        cases d with
        | some dv =>
          by_cases c1 : mv = 0 <;> by_cases c2 : dv = 0 <;>
            simp [truthy, c1, c2, dflt, boundsOk, inRange, Lemmas.monthsInYear_eq, Except.toOption]
        | none =>
          by_cases c1 : mv = 0 <;>
            simp [truthy, c1, dflt, boundsOk, inRange, Lemmas.monthsInYear_eq, Except.toOption]
      | none =>
        cases d with
        | some dv =>
          by_cases c2 : dv = 0 <;>
            simp [truthy, c2, dflt, boundsOk, inRange, Except.toOption]
        | none =>
          simp only [truthy, dflt, boundsOk, inRange, pickDate, dateOk, timeOk_eq, finishTP, Option.getD_none,
            Option.isSome_some, Option.isSome_none, Option.isNone_some, ne_eq, not_true_eq_false, or_self,
            false_and, and_false, ↓reduceIte, Bool.or_self, Bool.and_false, Bool.false_eq_true,
            Bool.true_and, Bool.not_false, Bool.and_true]
          split <;> simp only [Except.toOption] <;> grind
    | none =>
      cases mo <;> cases d <;>
        simp only [truthy, dflt, boundsOk, inRange, pickDate, dateOk, timeOk_eq, finishTP, Option.getD_none,
          Option.getD_some, Option.isSome_some, Option.isSome_none, Option.isNone_none, ne_eq, not_true_eq_false,
          or_self, false_and, and_false, ↓reduceIte, Bool.or_self, Bool.and_false, Bool.false_eq_true,
          Bool.not_false, Bool.and_true, Bool.or_false, Bool.and_self] <;>
        split <;> simp only [Except.toOption] <;> grind


open IsoDT.Gen.Strftime (Fld clsOf) in
/-- The groups `Strf.matchPieces` captured (texts), as the numbers they spell. -/
def matchedOf (b : List (Fld × List Char)) (n : Option Int) : Matched :=
  { year := match Strf.numOf b .century, Strf.numOf b .yearOfCentury with
      | some c, some yc => some (100 * c + yc)
      | _, _ => none
    month := Strf.numOf b .monthOfYear, dom := Strf.numOf b .dayOfMonth, doy := Strf.numOf b .dayOfYear
    hh := Strf.numOf b .hourOfDay, mi := Strf.numOf b .minuteOfHour, ss := Strf.numOf b .secondOfMinute
    zone := match b.lookup .tzSign, Strf.numOf b .tzHourAbs, Strf.numOf b .tzMinuteAbs with
      | some s, some h, some mi => some (s == ['-'], h, mi)
      | _, _, _ => none
    utc := false, unix := n }

open IsoDT.Gen.Strftime (Fld clsOf) in
/-- **The summary model agrees with the glue model** (field formats): on the groups of a match
    without `%s`, in which `century` and `year_of_century` come together (`%Y`, `%F`) and so do the
    three zone groups (`%z`), `Strf.assemble` — `Model/Strftime.lean`'s three-line summary of the glue
    — answers what the dictionary-level model answers. -/
theorem assemble_eq_strpZone_fields (m : Mode) (cfg : PCfg) (loc : TZ) (b : List (Fld × List Char))
    (hu : b.lookup .unix = none)
    (hy : (Strf.numOf b .century).isSome = (Strf.numOf b .yearOfCentury).isSome)
    (hz1 : (b.lookup .tzSign).isSome = (Strf.numOf b .tzHourAbs).isSome)
    (hz2 : (b.lookup .tzSign).isSome = (Strf.numOf b .tzMinuteAbs).isSome)
    (hany : (b.any fun e => clsOf e.1 == .zone) = (b.lookup .tzSign).isSome) :
    resOf (Strf.assemble m cfg loc b).toOption = strpZone m cfg loc (matchedOf b none) := by
  unfold Strf.assemble matchedOf
  rw [strpZone_fields, hu]
  simp only [hany, mkPoint_eq_mkTP]
  generalize Strf.numOf b .century = c at hy ⊢
  generalize Strf.numOf b .yearOfCentury = yc at hy ⊢
  generalize Strf.numOf b .tzHourAbs = zh at hz1 ⊢
  generalize Strf.numOf b .tzMinuteAbs = zm at hz2 ⊢
  generalize b.lookup .tzSign = sg at hz1 hz2 ⊢
  have hyear : 100 * c.getD 0 + yc.getD 0 = (match c, yc with
      | some c, some yc => some (100 * c + yc)
      | _, _ => none).getD 0 := by
    cases c <;> cases yc <;> simp at hy ⊢
  rw [hyear]
  cases sg with
  | some sv =>
    cases zh with
    | none => simp at hz1
    | some hv =>
      cases zm with
      | none => simp at hz2
      | some mv =>
        by_cases cneg : sv = ['-']
        · simp [zoneArgs, cneg]
        · simp [zoneArgs, cneg]
  | none =>
    obtain ⟨assumed, unk⟩ := cfg
    cases assumed with
    | some a => simp [zoneArgs, defaultZoneArgs, PCfg.defaultZone]
    | none =>
      cases unk
      · simp [zoneArgs, defaultZoneArgs, PCfg.defaultZone]
      · simp [zoneArgs, defaultZoneArgs, PCfg.defaultZone, mkTP_no_zone]


/-- `%s` formats, at the level of points: with a legal local zone the result is the local-zone point
    `q` of the Unix time, relabelled with the negated local offset when a `%z` captured a minus. -/
theorem strpZone_unix_point (m : Mode) (cfg : PCfg) (loc : TZ) (hloc : loc.Valid) (n : Int) :
    ∃ q, fromUnix m n (some loc) = some q ∧ q.inst m = unixEpoch.inst m + n ∧ q.Strict m ∧ q.tz = loc ∧
      q.date.rep = 0 ∧
      ∀ (year month dom doy hh mi ss : Option Int) (zone : Option (Bool × Int × Int)),
        strpZone m cfg loc ⟨year, month, dom, doy, hh, mi, ss, zone, false, some n⟩ =
          .ok (if zone.map (·.1) = some true then { q with tz := ⟨-loc.h, -loc.mi⟩ } else q) false := by
  obtain ⟨q, e, hi, hs, ht, hr⟩ := Props.C18.C18_from_unix m n (some loc) (fun zz h => by cases h; exact hloc)
  have ht' : q.tz = loc := by simpa using ht
  refine ⟨q, e, hi, hs, ht', hr, ?_⟩
  intro year month dom doy hh mi ss zone
  obtain ⟨date, h, mi', s, tz⟩ := q
  simp only at ht'
  subst ht'
  cases date with
  | cal y mo d =>
    rw [strpZone_unix m cfg tz n y mo d h mi' s tz (Strf.mkTZ_valid m tz hloc) e]
    by_cases c : zone.map (·.1) = some true
    · have hv : (⟨.cal y mo d, h, mi', s, ⟨-tz.h, -tz.mi⟩⟩ : TP).Valid m := by
        obtain ⟨a, b, c, d', e', f, g, i, j⟩ := hs.1
        refine ⟨a, b, c, d', e', f, g, i, ?_⟩
        unfold TZ.Valid at j ⊢
        simp only at j ⊢
        omega
      have := Props.C09.C09_accept_complete m _ hv
      simp only [argsOf] at this
      simp only [zsgn, c, ↓reduceIte, this, resOf]
    · have := Props.C09.C09_accept_complete m ⟨.cal y mo d, h, mi', s, tz⟩ hs.1
      simp only [argsOf] at this
      simp only [zsgn, c, ↓reduceIte, this, resOf]
  | ord y k => simp [Date.rep] at hr
  | week y w k => simp [Date.rep] at hr

open IsoDT.Gen.Strftime (Fld clsOf) in
/-- **The summary model agrees with the glue model** (`%s` formats): on the groups of a match with
    `%s` whose text spells the whole number `n` (and whose zone groups, if any, come together), under
    a legal local zone. -/
theorem assemble_eq_strpZone_unix (m : Mode) (cfg : PCfg) (loc : TZ) (hloc : loc.Valid)
    (b : List (Fld × List Char)) (txt : List Char) (n : Int)
    (hu : b.lookup .unix = some txt) (hp : Strf.parseUnix txt = .ok n)
    (hz1 : (b.lookup .tzSign).isSome = (Strf.numOf b .tzHourAbs).isSome)
    (hz2 : (b.lookup .tzSign).isSome = (Strf.numOf b .tzMinuteAbs).isSome) :
    resOf (Strf.assemble m cfg loc b).toOption = strpZone m cfg loc (matchedOf b (some n)) := by
  obtain ⟨q, e, _, _, ht, _, hall⟩ := strpZone_unix_point m cfg loc hloc n
  unfold Strf.assemble matchedOf
  rw [hall]
  simp only [hu, hp, e]
  generalize Strf.numOf b .tzHourAbs = zh at hz1 ⊢
  generalize Strf.numOf b .tzMinuteAbs = zm at hz2 ⊢
  generalize b.lookup .tzSign = sg at hz1 hz2 ⊢
  cases sg with
  | none => simp [resOf, Except.toOption]
  | some sv =>
    cases zh with
    | none => simp at hz1
    | some hv =>
      cases zm with
      | none => simp at hz2
      | some mv =>
        by_cases cneg : sv = ['-']
        · simp [resOf, Except.toOption, cneg, ht]
        · simp [resOf, Except.toOption, cneg]


/-! ### the text-level model `Strf.strptime` is the glue model on the captured groups -/

section
open IsoDT.Lemmas.Strf IsoDT.Spec.Posix
open IsoDT.Gen.Strftime (Fld clsOf)

theorem lookup_isSome_iff (b : List (Fld × List Char)) (f : Fld) :
    (b.lookup f).isSome = true ↔ f ∈ b.map (·.1) := by
  constructor
  · intro h
    apply Classical.byContradiction
    intro hn
    rw [lookup_absent b f hn] at h
    cases h
  · intro h
    obtain ⟨v, hv⟩ := lookup_present b f h
    rw [hv]; rfl

theorem numOf_isSome (b : List (Fld × List Char)) (f : Fld) : (Strf.numOf b f).isSome = (b.lookup f).isSome := by
  unfold Strf.numOf
  cases b.lookup f <;> rfl

/-- **`Strf.strptime` (text level) is the glue model on the captured groups**: for a format over the
    supported directives, a text it matches with groups `b`, and a `%s` group (if any) spelling a
    whole number. -/
theorem strptime_eq_strpZone (m : Mode) (cfg : PCfg) (loc : TZ) (hloc : loc.Valid) (data fmt : List Char)
    (items : List FItem) (hf : parseFmt fmt = some items)
    (hnd : Strf.hasDup (Strf.fldsOf (piecesOfItems items)) = false)
    (b : List (Fld × List Char)) (hm : Strf.matchPieces (piecesOfItems items) data = some b)
    (n : Option Int)
    (hux : match b.lookup .unix with
      | none => n = none
      | some txt => ∃ k, Strf.parseUnix txt = .ok k ∧ n = some k) :
    resOf (Strf.strptime m cfg loc data fmt).toOption = strpZone m cfg loc (matchedOf b n) := by
  obtain ⟨ht, _⟩ := translate_scan fmt items hf
  have hkeys := keys_of_match _ _ _ hm
  have hpres : ∀ f, (b.lookup f).isSome = true ↔ sf f ∈ fieldsOf items := by
    intro f; rw [lookup_isSome_iff, hkeys, mem_fldsOf_items]
  have hsame : ∀ f g, sf f = sf g → (b.lookup f).isSome = (b.lookup g).isSome := by
    intro f g h
    rw [Bool.eq_iff_iff, hpres, hpres, h]
  unfold Strf.strptime
  simp only [ht, hnd, Bool.false_eq_true, ↓reduceIte, hm]
  have hz1 : (b.lookup .tzSign).isSome = (Strf.numOf b .tzHourAbs).isSome := by
    rw [numOf_isSome]; exact hsame _ _ rfl
  have hz2 : (b.lookup .tzSign).isSome = (Strf.numOf b .tzMinuteAbs).isSome := by
    rw [numOf_isSome]; exact hsame _ _ rfl
  cases hu : b.lookup .unix with
  | some txt =>
    rw [hu] at hux
    obtain ⟨k, hk, rfl⟩ := hux
    exact assemble_eq_strpZone_unix m cfg loc hloc b txt k hu hk hz1 hz2
  | none =>
    rw [hu] at hux
    subst hux
    have hnu : SField.unix ∉ fieldsOf items := by
      intro h
      have := (hpres .unix).mpr h
      rw [hu] at this
      cases this
    refine assemble_eq_strpZone_fields m cfg loc b hu ?_ hz1 hz2 ?_
    · rw [numOf_isSome, numOf_isSome]; exact hsame _ _ rfl
    · by_cases hz : SField.zone ∈ fieldsOf items
      · have h1 := (hpres .tzSign).mpr hz
        rw [h1, List.any_eq_true]
        obtain ⟨e, he, hek⟩ := List.mem_map.mp ((lookup_isSome_iff b .tzSign).mp h1)
        exact ⟨e, he, by rw [hek]; rfl⟩
      · rw [any_zone_false b items hkeys hz hnu]
        cases h : (b.lookup .tzSign).isSome with
        | false => rfl
        | true => exact absurd ((hpres .tzSign).mp h) hz

end

end IsoDT.Lemmas.StrpZone
