/-
  IsoDT.Lemmas.DurText — helper lemmas for C10: decimal digit strings, the greedy star of the
  backtracking matcher, the two optional-group shapes of the duration regexes
  (`(?:(\d+)u)?` and `(?:(\d.*)u)?`), a soundness lemma (a match only consumes characters the regex
  accepts), the shape of `Duration.__str__`'s output, and the search / convert results on
  designator strings.
-/
import IsoDT.Model.DurText
import IsoDT.Lemmas.Dur

namespace IsoDT.Lemmas.DurText
open IsoDT IsoDT.Model IsoDT.Model.DurText IsoDT.Gen

/-! ### digits -/

theorem isDig_iff (c : Char) : isDig c = true ↔ 48 ≤ c.toNat ∧ c.toNat ≤ 57 := by
  simp [isDig]

theorem dch_spec (d : Nat) (h : d < 10) : (dch d).toNat = 48 + d ∧ isDig (dch d) = true := by
  have : ∀ d : Fin 10, (dch d.val).toNat = 48 + d.val ∧ isDig (dch d.val) = true := by decide
  exact this ⟨d, h⟩

/-- All characters are ASCII digits. -/
def Digs (ds : List Char) : Prop := ∀ c ∈ ds, isDig c = true

theorem Digs.nil : Digs [] := by intro c h; cases h
theorem Digs.cons {c : Char} {ds : List Char} (h : isDig c = true) (t : Digs ds) : Digs (c :: ds) := by
  intro x hx
  rcases List.mem_cons.mp hx with rfl | hx
  · exact h
  · exact t x hx
theorem Digs.append {a b : List Char} (ha : Digs a) (hb : Digs b) : Digs (a ++ b) := by
  intro x hx
  rcases List.mem_append.mp hx with h | h
  · exact ha x h
  · exact hb x h
theorem Digs.head {c : Char} {ds : List Char} (h : Digs (c :: ds)) : isDig c = true := h c (by simp)
theorem Digs.tail {c : Char} {ds : List Char} (h : Digs (c :: ds)) : Digs ds := fun x hx => h x (by simp [hx])

theorem Digs.all {ds : List Char} (h : Digs ds) : ds.all isDig = true := by
  rw [List.all_eq_true]; exact h

theorem digitsVal_append_single (ds : List Char) (c : Char) :
    digitsVal (ds ++ [c]) = 10 * digitsVal ds + (c.toNat - 48) := by
  simp [digitsVal, List.foldl_append]

theorem natDigitsAux_append (f n : Nat) (acc : List Char) :
    natDigitsAux f n acc = natDigitsAux f n [] ++ acc := by
  induction f generalizing n acc with
  | zero => simp [natDigitsAux]
  | succ f ih =>
    simp only [natDigitsAux]
    split
    · simp
    · rw [ih, ih (n / 10) [dch (n % 10)]]; simp

theorem natDigitsAux_spec (f n : Nat) (h : n < f) :
    natDigitsAux f n [] ≠ [] ∧ Digs (natDigitsAux f n []) ∧ digitsVal (natDigitsAux f n []) = n := by
  induction f generalizing n with
  | zero => omega
  | succ f ih =>
    simp only [natDigitsAux]
    split
    · rename_i h10
      have := dch_spec n h10
      refine ⟨by simp, Digs.cons this.2 Digs.nil, ?_⟩
      simp [digitsVal, this.1]
    · rename_i h10
      have hlt : n / 10 < f := by omega
      obtain ⟨i1, i2, i3⟩ := ih (n / 10) hlt
      have hd := dch_spec (n % 10) (Nat.mod_lt _ (by decide))
      rw [natDigitsAux_append]
      refine ⟨by simp, Digs.append i2 (Digs.cons hd.2 Digs.nil), ?_⟩
      rw [digitsVal_append_single, i3, hd.1]
      omega

theorem natDigits_ne_nil (n : Nat) : natDigits n ≠ [] := (natDigitsAux_spec (n + 1) n (by omega)).1
theorem natDigits_digs (n : Nat) : Digs (natDigits n) := (natDigitsAux_spec (n + 1) n (by omega)).2.1
theorem digitsVal_natDigits (n : Nat) : digitsVal (natDigits n) = n :=
  (natDigitsAux_spec (n + 1) n (by omega)).2.2


/-! ### the greedy star -/

/-- If the continuation fails on every suffix that starts with a `p`-character, the greedy run over
    `p`-characters `ds` hands exactly the remainder to the continuation. -/
theorem starK_run {β : Type} (p : Char → Bool) (K : List Char → Option β) (ds : List Char) (tl : List Char)
    (hds : ∀ c ∈ ds, p c = true) (htl : ∀ c t, tl = c :: t → p c = false)
    (hK : ∀ c t, p c = true → K (c :: t) = none) :
    starK p (ds ++ tl) K = K tl := by
  induction ds with
  | nil =>
    cases tl with
    | nil => rfl
    | cons c t => simp [starK, htl c t rfl]
  | cons d ds ih =>
    have hd : p d = true := hds d (by simp)
    have := ih (fun c hc => hds c (by simp [hc]))
    simp only [List.cons_append, starK, hd, ↓reduceIte, this]
    cases h : K tl with
    | some x => rfl
    | none => exact hK d _ hd

/-- The continuation fails unless the suffix starts with `u`; a string without `u` therefore gives
    no match, however much of it the star takes. -/
theorem starK_none {β : Type} (p : Char → Bool) (K : List Char → Option β) (u : Char) (s : List Char)
    (hK : ∀ s', (∀ t, s' ≠ u :: t) → K s' = none) (hs : u ∉ s) :
    starK p s K = none := by
  induction s with
  | nil => exact hK [] (by intro t h; cases h)
  | cons c cs ih =>
    have hc : c ≠ u := by intro e; exact hs (by simp [e])
    have hk : K (c :: cs) = none := hK _ (by intro t h; injection h with h1 _; exact hc h1)
    have := ih (by intro h; exact hs (by simp [h]))
    simp only [starK, this, hk]
    split <;> rfl

/-- Greedy `.*` followed by the literal `u`, when `u` occurs exactly once before the end: the star
    backs off to that occurrence. -/
theorem starK_any_to {β : Type} (K : List Char → Option β) (u : Char) (body rest : List Char)
    (hu : u ≠ '\n')
    (hK : ∀ s', (∀ t, s' ≠ u :: t) → K s' = none)
    (hb1 : u ∉ body) (hb2 : '\n' ∉ body) (hr : u ∉ rest) :
    starK (Cls.test .any) (body ++ u :: rest) K = K (u :: rest) := by
  induction body with
  | nil =>
    have h1 : Cls.test .any u = true := by simp [Cls.test, hu]
    have h2 := starK_none (Cls.test .any) K u rest hK hr
    simp only [List.nil_append, starK, h1, ↓reduceIte, h2]
  | cons c cs ih =>
    have hc : c ≠ u := by intro e; exact hb1 (by simp [e])
    have hn : c ≠ '\n' := by intro e; exact hb2 (by simp [e])
    have h1 : Cls.test .any c = true := by simp [Cls.test, hn]
    have := ih (by intro h; exact hb1 (by simp [h])) (by intro h; exact hb2 (by simp [h]))
    have hk : K (c :: (cs ++ u :: rest)) = none :=
      hK _ (by intro t h; injection h with h1 _; exact hc h1)
    simp only [List.cons_append, starK, h1, ↓reduceIte, this]
    cases K (u :: rest) with
    | some x => rfl
    | none => exact hk


/-! ### the two optional-group shapes of the duration regexes -/

theorem run_seq {β : Type} (a b : Re) (s : List Char) (cp : Caps) (k : List Char → Caps → Option β) :
    (Re.seq a b).run s cp k = a.run s cp (fun s' cp' => b.run s' cp' k) := rfl

theorem run_opt {β : Type} (r : Re) (s : List Char) (cp : Caps) (k : List Char → Caps → Option β) :
    (Re.opt r).run s cp k = (match r.run s cp k with | some x => some x | none => k s cp) := rfl

theorem run_lit {β : Type} (c : Char) (s : List Char) (cp : Caps) (k : List Char → Caps → Option β) :
    (Re.one (.chr c)).run (c :: s) cp k = k s cp := by
  simp [Re.run, Cls.test]

theorem run_lit_ne {β : Type} (c x : Char) (s : List Char) (cp : Caps) (k : List Char → Caps → Option β)
    (h : x ≠ c) : (Re.one (.chr c)).run (x :: s) cp k = none := by
  simp [Re.run, Cls.test, h]

theorem run_lit_nil {β : Type} (c : Char) (cp : Caps) (k : List Char → Caps → Option β) :
    (Re.one (.chr c)).run [] cp k = none := rfl

/-- `(?P<n>\d+)u` -/
@[reducible] def digUnit (n : DUnit) (u : Char) : Re := .seq (.grp n (.plus .digit)) (.one (.chr u))
/-- `(?P<n>\d.*)u` -/
@[reducible] def anyUnit (n : DUnit) (u : Char) : Re :=
  .seq (.grp n (.seq (.one .digit) (.star .any))) (.one (.chr u))

/-- First character that is not an ASCII digit. -/
def fnd : List Char → Option Char
  | [] => none
  | c :: cs => if isDig c then fnd cs else some c

theorem fnd_digs_append (ds tl : List Char) (h : Digs ds) : fnd (ds ++ tl) = fnd tl := by
  induction ds with
  | nil => rfl
  | cons d ds ih => simp [fnd, h.head, ih h.tail]

theorem fnd_cons_nondig (c : Char) (t : List Char) (h : isDig c = false) : fnd (c :: t) = some c := by
  simp [fnd, h]

theorem split_digits (s : List Char) :
    ∃ ds tl, s = ds ++ tl ∧ Digs ds ∧
      ((tl = [] ∧ fnd s = none) ∨ ∃ c t, tl = c :: t ∧ isDig c = false ∧ fnd s = some c) := by
  induction s with
  | nil => exact ⟨[], [], rfl, Digs.nil, Or.inl ⟨rfl, rfl⟩⟩
  | cons c cs ih =>
    by_cases hc : isDig c = true
    · obtain ⟨ds, tl, e, hd, h⟩ := ih
      refine ⟨c :: ds, tl, by simp [e], Digs.cons hc hd, ?_⟩
      simpa [fnd, hc] using h
    · have hc' : isDig c = false := by simpa using hc
      exact ⟨[], c :: cs, rfl, Digs.nil, Or.inr ⟨c, cs, rfl, hc', fnd_cons_nondig c cs hc'⟩⟩

theorem dig_ne_of (c u : Char) (hc : isDig c = true) (hu : isDig u = false) : c ≠ u := by
  intro e; rw [e, hu] at hc; cases hc

theorem take_prefix (a b : List Char) : (a ++ b).take ((a ++ b).length - b.length) = a := by
  have : (a ++ b).length - b.length = a.length := by simp
  rw [this, List.take_left]

theorem run_grp {β : Type} (n : DUnit) (r : Re) (s : List Char) (cp : Caps) (k : List Char → Caps → Option β) :
    (Re.grp n r).run s cp k =
      r.run s cp (fun s' cp' => k s' (capSet cp' n (s.take (s.length - s'.length)))) := rfl
theorem run_plus_cons {β : Type} (c : Cls) (x : Char) (xs : List Char) (cp : Caps)
    (k : List Char → Caps → Option β) :
    (Re.plus c).run (x :: xs) cp k = if c.test x then starK c.test xs (fun s' => k s' cp) else none := rfl
theorem run_one_cons {β : Type} (c : Cls) (x : Char) (xs : List Char) (cp : Caps)
    (k : List Char → Caps → Option β) :
    (Re.one c).run (x :: xs) cp k = if c.test x then k xs cp else none := rfl
theorem run_star {β : Type} (c : Cls) (s : List Char) (cp : Caps) (k : List Char → Caps → Option β) :
    (Re.star c).run s cp k = starK c.test s (fun s' => k s' cp) := rfl
theorem test_digit (c : Char) : Cls.test .digit c = isDig c := rfl
theorem test_chr (x c : Char) : Cls.test (.chr x) c = (c == x) := rfl

/-- The continuation `lit u; k` fails on anything that does not start with `u`. -/
theorem lit_cont_none {β : Type} (u : Char) (cp : Caps) (k : List Char → Caps → Option β)
    (s' : List Char) (h : ∀ t, s' ≠ u :: t) :
    (Re.one (.chr u)).run s' cp k = none := by
  cases s' with
  | nil => rfl
  | cons c t =>
    have : c ≠ u := by intro e; exact h t (by rw [e])
    exact run_lit_ne u c t _ k this

theorem run_digUnit {β : Type} (n : DUnit) (u : Char) (hu : isDig u = false) (ds rest : List Char) (cp : Caps)
    (k : List Char → Caps → Option β) (hds : Digs ds) (hne : ds ≠ []) :
    (digUnit n u).run (ds ++ u :: rest) cp k = k rest (capSet cp n ds) := by
  cases ds with
  | nil => exact absurd rfl hne
  | cons d ds' =>
    have hd : Cls.test .digit d = true := hds.head
    rw [run_seq, run_grp, List.cons_append, run_plus_cons, if_pos hd]
    rw [starK_run (Cls.test .digit) _ ds' (u :: rest) hds.tail]
    · have := take_prefix (d :: ds') (u :: rest)
      simp only [List.cons_append] at this
      rw [run_lit, this]
    · intro c t e; injection e with e1 _; rw [← e1]; exact hu
    · intro c t hc
      exact lit_cont_none u _ k (c :: t) (by intro t' e; injection e with e1 _; exact dig_ne_of c u hc hu e1)

theorem run_digUnit_none {β : Type} (n : DUnit) (u : Char) (hu : isDig u = false) (s : List Char) (cp : Caps)
    (k : List Char → Caps → Option β) (h : fnd s ≠ some u) :
    (digUnit n u).run s cp k = none := by
  cases s with
  | nil => rfl
  | cons x xs =>
    rw [run_seq, run_grp, run_plus_cons]
    by_cases hx : isDig x = true
    · rw [if_pos (show Cls.test .digit x = true from hx)]
      have hf : fnd xs ≠ some u := by simpa [fnd, hx] using h
      obtain ⟨ds, tl, e, hd, htl⟩ := split_digits xs
      rw [e, starK_run (Cls.test .digit) _ ds tl hd]
      · apply lit_cont_none u _ k tl
        intro t e'
        rcases htl with ⟨rfl, _⟩ | ⟨c, t', rfl, hc, hfc⟩
        · cases e'
        · injection e' with e1 _
          apply hf; rw [hfc, e1]
      · intro c t e'
        rcases htl with ⟨rfl, _⟩ | ⟨c', t', rfl, hc, _⟩
        · cases e'
        · injection e' with e1 _; rw [← e1]; exact hc
      · intro c t hc
        exact lit_cont_none u _ k (c :: t) (by intro t' e; injection e with e1 _; exact dig_ne_of c u hc hu e1)
    · rw [if_neg (show ¬ Cls.test .digit x = true from hx)]

theorem run_anyUnit {β : Type} (n : DUnit) (u : Char) (hu : u ≠ '\n') (d0 : Char) (body rest : List Char)
    (cp : Caps) (k : List Char → Caps → Option β) (hd : isDig d0 = true)
    (hb1 : u ∉ body) (hb2 : '\n' ∉ body) (hr : u ∉ rest) :
    (anyUnit n u).run (d0 :: (body ++ u :: rest)) cp k = k rest (capSet cp n (d0 :: body)) := by
  rw [run_seq, run_grp, run_seq, run_one_cons, if_pos (show Cls.test .digit d0 = true from hd), run_star]
  rw [starK_any_to _ u body rest hu _ hb1 hb2 hr]
  · have := take_prefix (d0 :: body) (u :: rest)
    simp only [List.cons_append] at this
    rw [run_lit, this]
  · intro s' hs'
    exact lit_cont_none u _ k s' hs'

theorem run_anyUnit_none {β : Type} (n : DUnit) (u : Char) (s : List Char) (cp : Caps)
    (k : List Char → Caps → Option β) (h : u ∉ s) :
    (anyUnit n u).run s cp k = none := by
  cases s with
  | nil => rfl
  | cons x xs =>
    rw [run_seq, run_grp, run_seq, run_one_cons]
    split
    · rw [run_star]
      apply starK_none _ _ u xs
      · intro s' hs'
        exact lit_cont_none u _ k s' hs'
      · intro hx; exact h (by simp [hx])
    · rfl


/-! ### optional fields -/

/-- The text of an optional designator field: digits followed by the unit letter. -/
def fld (f : Option (List Char)) (u : Char) : List Char :=
  match f with
  | some ds => ds ++ [u]
  | none => []

def capAdd (cp : Caps) (n : DUnit) (f : Option (List Char)) : Caps :=
  match f with
  | some ds => capSet cp n ds
  | none => cp

/-- A present field is a non-empty run of ASCII digits. -/
def GoodF (f : Option (List Char)) : Prop := ∀ ds, f = some ds → Digs ds ∧ ds ≠ []

theorem GoodF.none : GoodF none := by intro ds h; cases h
theorem GoodF.some {ds : List Char} (h : Digs ds) (hne : ds ≠ []) : GoodF (some ds) := by
  intro ds' e; injection e with e; rw [← e]; exact ⟨h, hne⟩

theorem fnd_fld (f : Option (List Char)) (u : Char) (hu : isDig u = false) (hf : GoodF f) (tl : List Char) :
    fnd (fld f u ++ tl) = (match f with | some _ => some u | none => fnd tl) := by
  cases f with
  | none => rfl
  | some ds =>
    have := (hf ds rfl).1
    simp only [fld, List.append_assoc, List.singleton_append]
    rw [fnd_digs_append _ _ this, fnd_cons_nondig u tl hu]

theorem mem_fld (f : Option (List Char)) (u c : Char) (hf : GoodF f) (h : c ∈ fld f u) :
    isDig c = true ∨ c = u := by
  cases f with
  | none => cases h
  | some ds =>
    simp only [fld, List.mem_append, List.mem_singleton] at h
    rcases h with h | h
    · exact Or.inl ((hf ds rfl).1 c h)
    · exact Or.inr h

theorem opt_skip {β : Type} (r : Re) (s : List Char) (cp : Caps) (K : List Char → Caps → Option β)
    (h : r.run s cp K = none) : (Re.opt r).run s cp K = K s cp := by
  rw [run_opt, h]

theorem opt_take {β : Type} (r : Re) (s : List Char) (cp : Caps) (K : List Char → Caps → Option β) (x : β)
    (h : r.run s cp K = some x) : (Re.opt r).run s cp K = some x := by
  rw [run_opt, h]

theorem opt_digUnit_fld {β : Type} (n : DUnit) (u : Char) (hu : isDig u = false) (f : Option (List Char))
    (hf : GoodF f) (tl : List Char) (ht : fnd tl ≠ some u) (cp : Caps) (K : List Char → Caps → Option β) (x : β)
    (h : K tl (capAdd cp n f) = some x) :
    (Re.opt (digUnit n u)).run (fld f u ++ tl) cp K = some x := by
  cases f with
  | none =>
    rw [show fld none u ++ tl = tl from rfl, opt_skip _ _ _ _ (run_digUnit_none n u hu tl cp K ht)]
    exact h
  | some ds =>
    obtain ⟨h1, h2⟩ := hf ds rfl
    apply opt_take
    rw [show fld (some ds) u ++ tl = ds ++ u :: tl by simp [fld], run_digUnit n u hu ds tl cp K h1 h2]
    exact h

theorem opt_anyUnit_fld {β : Type} (n : DUnit) (u : Char) (hu : isDig u = false) (hn : u ≠ '\n')
    (f : Option (List Char)) (hf : GoodF f) (tl : List Char) (ht : u ∉ tl) (cp : Caps)
    (K : List Char → Caps → Option β) (x : β) (h : K tl (capAdd cp n f) = some x) :
    (Re.opt (anyUnit n u)).run (fld f u ++ tl) cp K = some x := by
  cases f with
  | none =>
    rw [show fld none u ++ tl = tl from rfl, opt_skip _ _ _ _ (run_anyUnit_none n u tl cp K ht)]
    exact h
  | some ds =>
    obtain ⟨h1, h2⟩ := hf ds rfl
    apply opt_take
    cases ds with
    | nil => exact absurd rfl h2
    | cons d0 body =>
      have hb : ∀ c, isDig c = false → c ∉ body := by
        intro c hc hm
        have := h1.tail c hm
        rw [hc] at this; cases this
      rw [show fld (some (d0 :: body)) u ++ tl = d0 :: (body ++ u :: tl) by simp [fld],
        run_anyUnit n u hn d0 body tl cp K h1.head (hb u hu) (hb '\n' (by decide)) ht]
      exact h

/-! ### which characters a regex can consume at all -/

def accepts : Re → Char → Bool
  | .eps, _ => false
  | .one k, c => k.test c
  | .star k, c => k.test c
  | .plus k, c => k.test c
  | .opt r, c => accepts r c
  | .seq a b, c => accepts a c || accepts b c
  | .grp _ r, c => accepts r c

theorem starK_sound {β : Type} (p : Char → Bool) (K : List Char → Option β) (s : List Char) (x : β)
    (h : starK p s K = some x) :
    ∃ pre s', s = pre ++ s' ∧ (∀ c ∈ pre, p c = true) ∧ K s' = some x := by
  induction s generalizing x with
  | nil => exact ⟨[], [], rfl, (by intro c hc; cases hc), h⟩
  | cons c cs ih =>
    simp only [starK] at h
    by_cases hc : p c = true
    · simp only [hc, ↓reduceIte] at h
      cases hs : starK p cs K with
      | some y =>
        rw [hs] at h
        obtain ⟨pre, s', e, hp, hk⟩ := ih y hs
        refine ⟨c :: pre, s', by simp [e], ?_, by rw [hk]; exact h⟩
        intro a ha
        rcases List.mem_cons.mp ha with rfl | ha
        · exact hc
        · exact hp a ha
      | none =>
        rw [hs] at h
        exact ⟨[], c :: cs, rfl, (by intro a ha; cases ha), h⟩
    · simp only [hc] at h
      exact ⟨[], c :: cs, rfl, (by intro a ha; cases ha), h⟩

theorem run_sound {β : Type} (r : Re) : ∀ (s : List Char) (cp : Caps) (k : List Char → Caps → Option β) (x : β),
    r.run s cp k = some x →
    ∃ pre s' cp', s = pre ++ s' ∧ (∀ c ∈ pre, accepts r c = true) ∧ k s' cp' = some x := by
  induction r with
  | eps => intro s cp k x h; exact ⟨[], s, cp, rfl, (by intro c hc; cases hc), h⟩
  | one c =>
    intro s cp k x h
    cases s with
    | nil => cases h
    | cons y ys =>
      rw [run_one_cons] at h
      by_cases hy : c.test y = true
      · rw [if_pos hy] at h
        refine ⟨[y], ys, cp, rfl, ?_, h⟩
        intro a ha; rw [List.mem_singleton.mp ha]; exact hy
      · rw [if_neg hy] at h; cases h
  | star c =>
    intro s cp k x h
    rw [run_star] at h
    obtain ⟨pre, s', e, hp, hk⟩ := starK_sound _ _ _ _ h
    exact ⟨pre, s', cp, e, hp, hk⟩
  | plus c =>
    intro s cp k x h
    cases s with
    | nil => cases h
    | cons y ys =>
      rw [run_plus_cons] at h
      by_cases hy : c.test y = true
      · rw [if_pos hy] at h
        obtain ⟨pre, s', e, hp, hk⟩ := starK_sound _ _ _ _ h
        refine ⟨y :: pre, s', cp, by simp [e], ?_, hk⟩
        intro a ha
        rcases List.mem_cons.mp ha with rfl | ha
        · exact hy
        · exact hp a ha
      · rw [if_neg hy] at h; cases h
  | opt r ih =>
    intro s cp k x h
    rw [run_opt] at h
    cases hr : r.run s cp k with
    | some y =>
      rw [hr] at h
      obtain ⟨pre, s', cp', e, hp, hk⟩ := ih s cp k y hr
      exact ⟨pre, s', cp', e, hp, by rw [hk]; exact h⟩
    | none =>
      rw [hr] at h
      exact ⟨[], s, cp, rfl, (by intro a ha; cases ha), h⟩
  | seq a b iha ihb =>
    intro s cp k x h
    rw [run_seq] at h
    obtain ⟨pre1, s1, cp1, e1, hp1, hk1⟩ := iha s cp _ x h
    obtain ⟨pre2, s2, cp2, e2, hp2, hk2⟩ := ihb s1 cp1 k x hk1
    refine ⟨pre1 ++ pre2, s2, cp2, by rw [e1, e2, List.append_assoc], ?_, hk2⟩
    intro c hc
    simp only [accepts, Bool.or_eq_true]
    rcases List.mem_append.mp hc with hc | hc
    · exact Or.inl (hp1 c hc)
    · exact Or.inr (hp2 c hc)
  | grp n r ih =>
    intro s cp k x h
    rw [run_grp] at h
    obtain ⟨pre, s', cp', e, hp, hk⟩ := ih s cp _ x h
    exact ⟨pre, s', _, e, hp, hk⟩

theorem atEnd_cases (s : List Char) (h : atEnd s = true) : s = [] ∨ s = ['\n'] := by
  match s, h with
  | [], _ => exact Or.inl rfl
  | [c], h => simp only [atEnd, beq_iff_eq] at h; exact Or.inr (by rw [h])

/-- A string containing a character the regex can never consume is not matched by `^r$`. -/
theorem search_none_of_not_accepts (r : Re) (s : List Char) (c : Char) (hc : c ∈ s) (hn : c ≠ '\n')
    (ha : accepts r c = false) : r.search s = none := by
  cases h : r.search s with
  | none => rfl
  | some cp =>
    exfalso
    unfold Re.search at h
    obtain ⟨pre, s', cp', e, hp, hk⟩ := run_sound r s capEmpty _ cp h
    by_cases he : atEnd s' = true
    · have hmem : c ∈ pre := by
        rw [e] at hc
        rcases List.mem_append.mp hc with hc | hc
        · exact hc
        · rcases atEnd_cases s' he with rfl | rfl
          · cases hc
          · exact absurd (List.mem_singleton.mp hc) hn
      have := hp c hmem
      rw [ha] at this; cases this
    · simp [he] at hk

/-! ### designator strings -/

/-- The three optional time fields after `T`. -/
abbrev TimeF := Option (List Char) × Option (List Char) × Option (List Char)

def timePart : Option TimeF → List Char
  | none => []
  | some (fh, fmi, fs) => 'T' :: (fld fh 'H' ++ (fld fmi 'M' ++ (fld fs 'S' ++ [])))

/-- `P[nY][nM][nD][T[nH][nM][nS]]` -/
def desig (fy fmo fd : Option (List Char)) (ft : Option TimeF) : List Char :=
  'P' :: (fld fy 'Y' ++ (fld fmo 'M' ++ (fld fd 'D' ++ timePart ft)))

def GoodT : Option TimeF → Prop
  | none => True
  | some (fh, fmi, fs) => GoodF fh ∧ GoodF fmi ∧ GoodF fs

theorem fnd_fld_ne (f : Option (List Char)) (u : Char) (hu : isDig u = false) (hf : GoodF f) (tl : List Char)
    (c : Char) (h1 : u ≠ c) (h2 : fnd tl ≠ some c) : fnd (fld f u ++ tl) ≠ some c := by
  rw [fnd_fld f u hu hf tl]
  cases f with
  | none => exact h2
  | some ds => intro e; injection e with e; exact h1 e

theorem not_mem_fld_append (f : Option (List Char)) (u : Char) (hf : GoodF f) (tl : List Char) (c : Char)
    (hc : isDig c = false) (h1 : c ≠ u) (h2 : c ∉ tl) : c ∉ fld f u ++ tl := by
  intro h
  rcases List.mem_append.mp h with h | h
  · rcases mem_fld f u c hf h with h | h
    · rw [hc] at h; cases h
    · exact h1 h
  · exact h2 h

theorem fnd_timePart_ne (ft : Option TimeF) (c : Char) (h : c ≠ 'T') : fnd (timePart ft) ≠ some c := by
  cases ft with
  | none => intro e; cases e
  | some t =>
    obtain ⟨fh, fmi, fs⟩ := t
    rw [timePart, fnd_cons_nondig 'T' _ (by decide)]
    intro e; injection e with e; exact h e.symm

/-- Captures after the date part. -/
def dateCaps (fy fmo fd : Option (List Char)) : Caps :=
  capAdd (capAdd (capAdd capEmpty .years fy) .months fmo) .days fd

def allCaps (fy fmo fd fh fmi fs : Option (List Char)) : Caps :=
  capAdd (capAdd (capAdd (dateCaps fy fmo fd) .hours fh) .minutes fmi) .seconds fs

def kEnd : List Char → Caps → Option Caps := fun s' cp => if atEnd s' then some cp else none

theorem search_eq (r : Re) (s : List Char) : r.search s = r.run s capEmpty kEnd := rfl

/-- `DURATION_REGEXES[0]` on a date-only designator string. -/
theorem search0_date (fy fmo fd : Option (List Char)) (hy : GoodF fy) (hmo : GoodF fmo) (hd : GoodF fd) :
    durRegex0.search (desig fy fmo fd none) = some (dateCaps fy fmo fd) := by
  rw [search_eq]
  unfold durRegex0 desig
  rw [run_seq, run_lit]
  rw [run_seq]
  refine opt_digUnit_fld .years 'Y' (by decide) fy hy _ ?_ _ _ _ ?_
  · exact fnd_fld_ne _ _ (by decide) hmo _ _ (by decide)
      (fnd_fld_ne _ _ (by decide) hd _ _ (by decide) (fnd_timePart_ne none 'Y' (by decide)))
  rw [run_seq]
  refine opt_digUnit_fld .months 'M' (by decide) fmo hmo _ ?_ _ _ _ ?_
  · exact fnd_fld_ne _ _ (by decide) hd _ _ (by decide) (fnd_timePart_ne none 'M' (by decide))
  refine opt_digUnit_fld .days 'D' (by decide) fd hd _ ?_ _ _ _ ?_
  · exact fnd_timePart_ne none 'D' (by decide)
  rfl


theorem mem_timePart_T (t : TimeF) : 'T' ∈ timePart (some t) := by
  obtain ⟨fh, fmi, fs⟩ := t
  simp [timePart]

/-- `DURATION_REGEXES[0]` does not match a designator string with a time part. -/
theorem search0_time_none (fy fmo fd : Option (List Char)) (t : TimeF) :
    durRegex0.search (desig fy fmo fd (some t)) = none := by
  apply search_none_of_not_accepts _ _ 'T' _ (by decide) (by decide)
  unfold desig
  simp only [List.mem_cons, List.mem_append]
  exact Or.inr (Or.inr (Or.inr (Or.inr (mem_timePart_T t))))

/-- `DURATION_REGEXES[1]` on a designator string with a time part. -/
theorem search1_time (fy fmo fd fh fmi fs : Option (List Char)) (hy : GoodF fy) (hmo : GoodF fmo)
    (hd : GoodF fd) (hh : GoodF fh) (hmi : GoodF fmi) (hs : GoodF fs) :
    durRegex1.search (desig fy fmo fd (some (fh, fmi, fs))) = some (allCaps fy fmo fd fh fmi fs) := by
  rw [search_eq]
  unfold durRegex1 desig
  rw [run_seq, run_lit, run_seq]
  refine opt_digUnit_fld .years 'Y' (by decide) fy hy _ ?_ _ _ _ ?_
  · exact fnd_fld_ne _ _ (by decide) hmo _ _ (by decide)
      (fnd_fld_ne _ _ (by decide) hd _ _ (by decide) (fnd_timePart_ne _ 'Y' (by decide)))
  rw [run_seq]
  refine opt_digUnit_fld .months 'M' (by decide) fmo hmo _ ?_ _ _ _ ?_
  · exact fnd_fld_ne _ _ (by decide) hd _ _ (by decide) (fnd_timePart_ne _ 'M' (by decide))
  rw [run_seq]
  refine opt_digUnit_fld .days 'D' (by decide) fd hd _ ?_ _ _ _ ?_
  · exact fnd_timePart_ne _ 'D' (by decide)
  rw [timePart, run_seq, run_lit, run_seq]
  refine opt_anyUnit_fld .hours 'H' (by decide) (by decide) fh hh _ ?_ _ _ _ ?_
  · exact not_mem_fld_append _ _ hmi _ _ (by decide) (by decide)
      (not_mem_fld_append _ _ hs _ _ (by decide) (by decide) (by simp))
  rw [run_seq]
  refine opt_anyUnit_fld .minutes 'M' (by decide) (by decide) fmi hmi _ ?_ _ _ _ ?_
  · exact not_mem_fld_append _ _ hs _ _ (by decide) (by decide) (by simp)
  refine opt_anyUnit_fld .seconds 'S' (by decide) (by decide) fs hs _ (by simp) _ _ _ ?_
  rfl

/-- `DURATION_REGEXES[1]` needs a `T` right after the date fields. -/
theorem search1_none (s : List Char) (hY : fnd s ≠ some 'Y') (hM : fnd s ≠ some 'M') (hD : fnd s ≠ some 'D')
    (hT : ∀ t, s ≠ 'T' :: t) : durRegex1.search ('P' :: s) = none := by
  rw [search_eq]
  unfold durRegex1
  rw [run_seq, run_lit, run_seq, opt_skip _ _ _ _ (run_digUnit_none .years 'Y' (by decide) s _ _ hY),
    run_seq, opt_skip _ _ _ _ (run_digUnit_none .months 'M' (by decide) s _ _ hM),
    run_seq, opt_skip _ _ _ _ (run_digUnit_none .days 'D' (by decide) s _ _ hD), run_seq]
  exact lit_cont_none 'T' _ _ s hT

/-- `DURATION_REGEXES[2]` on `PnW`. -/
theorem search2_weeks (ds : List Char) (h : Digs ds) (hne : ds ≠ []) :
    durRegex2.search ('P' :: (ds ++ ['W'])) = some (capSet capEmpty .weeks ds) := by
  rw [search_eq]
  unfold durRegex2
  rw [run_seq, run_lit]
  exact run_digUnit .weeks 'W' (by decide) ds [] capEmpty kEnd h hne

theorem search2_none (s : List Char) (h : fnd s ≠ some 'W') : durRegex2.search ('P' :: s) = none := by
  rw [search_eq]
  unfold durRegex2
  rw [run_seq, run_lit]
  exact run_digUnit_none .weeks 'W' (by decide) s capEmpty kEnd h


/-! ### captures and conversion -/

theorem capAdd_ne (cp : Caps) (n : DUnit) (f : Option (List Char)) (n' : DUnit) (h : n' ≠ n) :
    capAdd cp n f n' = cp n' := by
  cases f with
  | none => rfl
  | some ds => simp [capAdd, capSet, h]

theorem capAdd_self (cp : Caps) (n : DUnit) (f : Option (List Char)) (h : cp n = none) :
    capAdd cp n f n = f := by
  cases f with
  | none => exact h
  | some ds => simp [capAdd, capSet]

/-- `int(...)` of a field. -/
def ival (f : Option (List Char)) : Int :=
  match f with
  | some ds => digitsVal ds
  | none => 0

/-- `float(...)` of a field (the nearest binary64 value, an integer here). -/
def fval (f : Option (List Char)) : Int :=
  match f with
  | some ds => f64Nat (digitsVal ds)
  | none => 0

/-- The digit string is below the binary64 overflow threshold. -/
def FltOk (f : Option (List Char)) : Prop := ∀ ds, f = some ds → digitsVal ds < f64Over

theorem FltOk.none : FltOk none := by intro ds h; cases h

theorem set_ne (F : Fields) (n : DUnit) (v : Int) (n' : DUnit) (h : n' ≠ n) : F.set n v n' = F n' := by
  simp [Fields.set, h]
theorem set_self (F : Fields) (n : DUnit) (v : Int) : F.set n v n = v := by
  simp [Fields.set]

/-- One step of the conversion loop. -/
def stepI (F : Fields) (n : DUnit) (sg : Int) (f : Option (List Char)) : Fields :=
  match f with
  | some ds => F.set n ((digitsVal ds : Int) * sg)
  | none => F
def stepF (F : Fields) (n : DUnit) (sg : Int) (f : Option (List Char)) : Fields :=
  match f with
  | some ds => F.set n ((f64Nat (digitsVal ds) : Int) * sg)
  | none => F

theorem stepI_ne (F : Fields) (n : DUnit) (sg : Int) (f : Option (List Char)) (n' : DUnit) (h : n' ≠ n) :
    stepI F n sg f n' = F n' := by
  cases f with
  | none => rfl
  | some ds => exact set_ne _ _ _ _ h
theorem stepF_ne (F : Fields) (n : DUnit) (sg : Int) (f : Option (List Char)) (n' : DUnit) (h : n' ≠ n) :
    stepF F n sg f n' = F n' := by
  cases f with
  | none => rfl
  | some ds => exact set_ne _ _ _ _ h
def selI (f : Option (List Char)) (sg d : Int) : Int :=
  match f with
  | some ds => (digitsVal ds : Int) * sg
  | none => d
def selF (f : Option (List Char)) (sg d : Int) : Int :=
  match f with
  | some ds => (f64Nat (digitsVal ds) : Int) * sg
  | none => d
theorem selI_zero (f : Option (List Char)) (sg : Int) : selI f sg 0 = ival f * sg := by
  cases f <;> simp [selI, ival]
theorem selF_zero (f : Option (List Char)) (sg : Int) : selF f sg 0 = fval f * sg := by
  cases f <;> simp [selF, fval]
theorem zero_apply (n : DUnit) : Fields.zero n = 0 := rfl
theorem stepI_self (F : Fields) (n : DUnit) (sg : Int) (f : Option (List Char)) :
    stepI F n sg f n = selI f sg (F n) := by
  cases f with
  | none => rfl
  | some ds => exact set_self _ _ _
theorem stepF_self (F : Fields) (n : DUnit) (sg : Int) (f : Option (List Char)) :
    stepF F n sg f n = selF f sg (F n) := by
  cases f with
  | none => rfl
  | some ds => exact set_self _ _ _

theorem convert_int (sg : Int) (cp : Caps) (n : DUnit) (ns : List DUnit) (F : Fields)
    (f : Option (List Char)) (hn : n.isIntKey = true) (hcp : cp n = f) (hf : GoodF f) :
    convert sg cp (n :: ns) F = convert sg cp ns (stepI F n sg f) := by
  cases f with
  | none => simp [DurText.convert, hn, hcp, intField, stepI]
  | some ds =>
    obtain ⟨h1, h2⟩ := hf ds rfl
    simp [DurText.convert, hn, hcp, intField, stepI, h2, h1.all]

theorem convert_flt (sg : Int) (cp : Caps) (n : DUnit) (ns : List DUnit) (F : Fields)
    (f : Option (List Char)) (hn : n.isIntKey = false) (hcp : cp n = f) (hf : GoodF f) (hb : FltOk f) :
    convert sg cp (n :: ns) F = convert sg cp ns (stepF F n sg f) := by
  cases f with
  | none => simp [DurText.convert, hn, hcp, fltField, stepF]
  | some ds =>
    obtain ⟨h1, h2⟩ := hf ds rfl
    have := hb ds rfl
    simp [DurText.convert, hn, hcp, fltField, stepF, h2, h1.all, this]


/-! ### `parse` on designator strings -/

theorem any_ge128_false (s : List Char) (h : ∀ c ∈ s, c.toNat < 128) :
    s.any (fun c => decide (128 ≤ c.toNat)) = false := by
  rw [List.any_eq_false]
  intro c hc
  have := h c hc
  simp only [decide_eq_true_eq]; omega

theorem dig_ascii (c : Char) (h : isDig c = true) : c.toNat < 128 := by
  have := (isDig_iff c).mp h; omega

theorem fld_ascii (f : Option (List Char)) (u : Char) (hf : GoodF f) (hu : u.toNat < 128) :
    ∀ c ∈ fld f u, c.toNat < 128 := by
  intro c hc
  rcases mem_fld f u c hf hc with h | h
  · exact dig_ascii c h
  · rw [h]; exact hu

theorem timePart_ascii (ft : Option TimeF) (h : GoodT ft) : ∀ c ∈ timePart ft, c.toNat < 128 := by
  cases ft with
  | none => intro c hc; cases hc
  | some t =>
    obtain ⟨fh, fmi, fs⟩ := t
    obtain ⟨h1, h2, h3⟩ := h
    intro c hc
    simp only [timePart, List.mem_cons, List.mem_append, List.append_nil] at hc
    rcases hc with rfl | hc | hc | hc
    · decide
    · exact fld_ascii fh 'H' h1 (by decide) c hc
    · exact fld_ascii fmi 'M' h2 (by decide) c hc
    · exact fld_ascii fs 'S' h3 (by decide) c hc

theorem desig_ascii (fy fmo fd : Option (List Char)) (ft : Option TimeF) (hy : GoodF fy) (hmo : GoodF fmo)
    (hd : GoodF fd) (ht : GoodT ft) : ∀ c ∈ desig fy fmo fd ft, c.toNat < 128 := by
  intro c hc
  simp only [desig, List.mem_cons, List.mem_append] at hc
  rcases hc with rfl | hc | hc | hc | hc
  · decide
  · exact fld_ascii fy 'Y' hy (by decide) c hc
  · exact fld_ascii fmo 'M' hmo (by decide) c hc
  · exact fld_ascii fd 'D' hd (by decide) c hc
  · exact timePart_ascii ft ht c hc

/-- Hours, minutes, seconds denoted by the time part (all 0 without one). -/
def tvals : Option TimeF → Int × Int × Int
  | none => (0, 0, 0)
  | some (fh, fmi, fs) => (fval fh, fval fmi, fval fs)

def FltOkT : Option TimeF → Prop
  | none => True
  | some (fh, fmi, fs) => FltOk fh ∧ FltOk fmi ∧ FltOk fs

theorem dateCaps_years (fy fmo fd : Option (List Char)) : dateCaps fy fmo fd .years = fy := by
  unfold dateCaps
  rw [capAdd_ne _ _ _ _ (by decide), capAdd_ne _ _ _ _ (by decide), capAdd_self _ _ _ rfl]
theorem dateCaps_months (fy fmo fd : Option (List Char)) : dateCaps fy fmo fd .months = fmo := by
  unfold dateCaps
  rw [capAdd_ne _ _ _ _ (by decide), capAdd_self _ _ _ (by rw [capAdd_ne _ _ _ _ (by decide)]; rfl)]
theorem dateCaps_days (fy fmo fd : Option (List Char)) : dateCaps fy fmo fd .days = fd := by
  unfold dateCaps
  rw [capAdd_self _ _ _ (by rw [capAdd_ne _ _ _ _ (by decide), capAdd_ne _ _ _ _ (by decide)]; rfl)]
theorem dateCaps_other (fy fmo fd : Option (List Char)) (n : DUnit) (h1 : n ≠ .years) (h2 : n ≠ .months)
    (h3 : n ≠ .days) : dateCaps fy fmo fd n = none := by
  unfold dateCaps
  rw [capAdd_ne _ _ _ _ h3, capAdd_ne _ _ _ _ h2, capAdd_ne _ _ _ _ h1]; rfl

theorem parseBody_desig (m : Mode) (sg : Int) (fy fmo fd : Option (List Char)) (ft : Option TimeF)
    (hy : GoodF fy) (hmo : GoodF fmo) (hd : GoodF fd) (ht : GoodT ft) (hb : FltOkT ft) :
    parseBody m sg (desig fy fmo fd ft) =
      .ok (mkDur m (ival fy * sg) (ival fmo * sg) 0 (ival fd * sg)
        ((tvals ft).1 * sg) ((tvals ft).2.1 * sg) ((tvals ft).2.2 * sg)) := by
  cases ft with
  | none =>
    have hs := search0_date fy fmo fd hy hmo hd
    simp only [parseBody, durRegexes, firstMatch, hs, durGroups0]
    rw [convert_int sg _ .years _ _ fy rfl (dateCaps_years ..) hy,
      convert_int sg _ .months _ _ fmo rfl (dateCaps_months ..) hmo,
      convert_int sg _ .days _ _ fd rfl (dateCaps_days ..) hd]
    simp (disch := decide) only [DurText.convert, Fields.toDur, stepI_ne, stepI_self, zero_apply, selI_zero,
      tvals, Int.zero_mul]
  | some t =>
    obtain ⟨fh, fmi, fs⟩ := t
    obtain ⟨hh, hmi, hs⟩ := ht
    obtain ⟨bh, bmi, bs⟩ := hb
    have h0 := search0_time_none fy fmo fd (fh, fmi, fs)
    have h1 := search1_time fy fmo fd fh fmi fs hy hmo hd hh hmi hs
    simp only [parseBody, durRegexes, firstMatch, h0, h1, durGroups1]
    have cy : allCaps fy fmo fd fh fmi fs .years = fy := by
      unfold allCaps
      rw [capAdd_ne _ _ _ _ (by decide), capAdd_ne _ _ _ _ (by decide), capAdd_ne _ _ _ _ (by decide)]
      exact dateCaps_years ..
    have cmo : allCaps fy fmo fd fh fmi fs .months = fmo := by
      unfold allCaps
      rw [capAdd_ne _ _ _ _ (by decide), capAdd_ne _ _ _ _ (by decide), capAdd_ne _ _ _ _ (by decide)]
      exact dateCaps_months ..
    have cd : allCaps fy fmo fd fh fmi fs .days = fd := by
      unfold allCaps
      rw [capAdd_ne _ _ _ _ (by decide), capAdd_ne _ _ _ _ (by decide), capAdd_ne _ _ _ _ (by decide)]
      exact dateCaps_days ..
    have ch : allCaps fy fmo fd fh fmi fs .hours = fh := by
      unfold allCaps
      rw [capAdd_ne _ _ _ _ (by decide), capAdd_ne _ _ _ _ (by decide),
        capAdd_self _ _ _ (dateCaps_other _ _ _ _ (by decide) (by decide) (by decide))]
    have cmi : allCaps fy fmo fd fh fmi fs .minutes = fmi := by
      unfold allCaps
      rw [capAdd_ne _ _ _ _ (by decide), capAdd_self _ _ _ (by
        rw [capAdd_ne _ _ _ _ (by decide)]
        exact dateCaps_other _ _ _ _ (by decide) (by decide) (by decide))]
    have cs : allCaps fy fmo fd fh fmi fs .seconds = fs := by
      unfold allCaps
      rw [capAdd_self _ _ _ (by
        rw [capAdd_ne _ _ _ _ (by decide), capAdd_ne _ _ _ _ (by decide)]
        exact dateCaps_other _ _ _ _ (by decide) (by decide) (by decide))]
    rw [convert_int sg _ .years _ _ fy rfl cy hy, convert_int sg _ .months _ _ fmo rfl cmo hmo,
      convert_int sg _ .days _ _ fd rfl cd hd, convert_flt sg _ .hours _ _ fh rfl ch hh bh,
      convert_flt sg _ .minutes _ _ fmi rfl cmi hmi bmi, convert_flt sg _ .seconds _ _ fs rfl cs hs bs]
    simp (disch := decide) only [DurText.convert, Fields.toDur, stepI_ne, stepF_ne, stepI_self, stepF_self,
      zero_apply, selI_zero, selF_zero, tvals]


theorem parse_pos (m : Mode) (t : List Char) (h : ∀ c ∈ ('P' :: t), c.toNat < 128) :
    parse m ('P' :: t) = parseBody m 1 ('P' :: t) := by
  unfold parse
  rw [any_ge128_false _ h]
  rfl

theorem parse_neg (m : Mode) (s : List Char) (h : ∀ c ∈ s, c.toNat < 128) :
    parse m ('-' :: s) = parseBody m (-1) s := by
  unfold parse
  rw [any_ge128_false ('-' :: s) (by
    intro c hc
    rcases List.mem_cons.mp hc with rfl | hc
    · decide
    · exact h c hc)]
  rfl

/-- `PnW` -/
def desigW (ds : List Char) : List Char := 'P' :: (ds ++ ['W'])

theorem desigW_ascii (ds : List Char) (h : Digs ds) : ∀ c ∈ desigW ds, c.toNat < 128 := by
  intro c hc
  simp only [desigW, List.mem_cons, List.mem_append, List.not_mem_nil, or_false] at hc
  rcases hc with rfl | hc | rfl
  · decide
  · exact dig_ascii c (h c hc)
  · decide

theorem parseBody_desigW (m : Mode) (sg : Int) (ds : List Char) (h : Digs ds) (hne : ds ≠ []) :
    parseBody m sg (desigW ds) = .ok (mkDur m 0 0 ((digitsVal ds : Int) * sg) 0 0 0 0) := by
  have hf : fnd (ds ++ ['W']) = some 'W' := by
    rw [fnd_digs_append _ _ h]; exact fnd_cons_nondig 'W' [] (by decide)
  have h0 : durRegex0.search (desigW ds) = none :=
    search_none_of_not_accepts _ _ 'W' (by simp [desigW]) (by decide) (by decide)
  have h1 : durRegex1.search (desigW ds) = none := by
    apply search1_none
    · rw [hf]; decide
    · rw [hf]; decide
    · rw [hf]; decide
    · intro t e
      cases ds with
      | nil => exact hne rfl
      | cons d ds' =>
        injection e with e1 _
        have := h.head
        rw [e1] at this
        exact absurd this (by decide)
  have h2 := search2_weeks ds h hne
  unfold desigW at h0 h1 ⊢
  simp only [parseBody, durRegexes, firstMatch, h0, h1, h2, durGroups2]
  rw [convert_int sg _ .weeks _ _ (some ds) rfl (by simp [capSet]) (GoodF.some h hne)]
  simp (disch := decide) only [DurText.convert, Fields.toDur, stepI_ne, stepI_self, zero_apply, selI_zero, ival]

/-! ### the shape of `Duration.__str__` -/

/-- The field a non-negative component prints as: absent when 0. -/
def ofv (v : Int) : Option (List Char) := if v ≠ 0 then some (natDigits v.natAbs) else none

theorem ofv_good (v : Int) : GoodF (ofv v) := by
  unfold ofv
  split
  · exact GoodF.some (natDigits_digs _) (natDigits_ne_nil _)
  · exact GoodF.none

theorem unitPart_nonneg (v : Int) (u : Char) (h : 0 ≤ v) : unitPart v u = fld (ofv v) u := by
  unfold unitPart ofv intText
  by_cases hv : v ≠ 0
  · rw [if_pos hv, if_pos hv, if_neg (by omega)]; rfl
  · rw [if_neg hv, if_neg hv]; rfl

theorem ival_ofv (v : Int) (h : 0 ≤ v) : ival (ofv v) = v := by
  unfold ofv
  by_cases hv : v ≠ 0
  · rw [if_pos hv]; simp only [ival, digitsVal_natDigits]; omega
  · rw [if_neg hv]; simp only [ival]; omega

theorem stripT_T (X : List Char) : stripT (X ++ ['T']) = X := by
  simp [stripT]

theorem stripT_other (X : List Char) (u : Char) (h : u ≠ 'T') : stripT (X ++ [u]) = X ++ [u] := by
  simp [stripT, h]

theorem replaceDot_id (s : List Char) (h : '.' ∉ s) : replaceDot s = s := by
  induction s with
  | nil => rfl
  | cons c cs ih =>
    have hc : c ≠ '.' := by intro e; exact h (by simp [e])
    have := ih (by intro hm; exact h (by simp [hm]))
    simp only [replaceDot, List.map_cons, hc, ↓reduceIte, List.cons.injEq, true_and]
    exact this

/-- The time part is empty or ends in a unit letter. -/
theorem time_shape (fh fmi fs : Option (List Char)) :
    (fld fh 'H' ++ (fld fmi 'M' ++ fld fs 'S') = [] ∧ fh = none ∧ fmi = none ∧ fs = none) ∨
    ∃ X u, fld fh 'H' ++ (fld fmi 'M' ++ fld fs 'S') = X ++ [u] ∧ u ≠ 'T' := by
  cases fs with
  | some ds => exact Or.inr ⟨fld fh 'H' ++ (fld fmi 'M' ++ ds), 'S', by simp [fld], by decide⟩
  | none =>
    cases fmi with
    | some ds => exact Or.inr ⟨fld fh 'H' ++ ds, 'M', by simp [fld], by decide⟩
    | none =>
      cases fh with
      | some ds => exact Or.inr ⟨ds, 'H', by simp [fld], by decide⟩
      | none => exact Or.inl ⟨rfl, rfl, rfl, rfl⟩

/-- The time fields of a printed duration: no `T` part when all three are 0. -/
def tOf (h mi s : Int) : Option TimeF :=
  if h = 0 ∧ mi = 0 ∧ s = 0 then none else some (ofv h, ofv mi, ofv s)

theorem ofv_none_iff (v : Int) : ofv v = none ↔ v = 0 := by
  unfold ofv; split <;> simp_all

theorem desig_chars (fy fmo fd : Option (List Char)) (ft : Option TimeF) (hy : GoodF fy) (hmo : GoodF fmo)
    (hd : GoodF fd) (ht : GoodT ft) (c : Char) (hc : c ∈ desig fy fmo fd ft) :
    isDig c = true ∨ c ∈ ['P', 'Y', 'M', 'D', 'T', 'H', 'S'] := by
  simp only [desig, List.mem_cons, List.mem_append] at hc
  rcases hc with rfl | hc | hc | hc | hc
  · simp
  · rcases mem_fld _ _ _ hy hc with h | rfl <;> simp [*]
  · rcases mem_fld _ _ _ hmo hc with h | rfl <;> simp [*]
  · rcases mem_fld _ _ _ hd hc with h | rfl <;> simp [*]
  · cases ft with
    | none => cases hc
    | some t =>
      obtain ⟨fh, fmi, fs⟩ := t
      obtain ⟨h1, h2, h3⟩ := ht
      simp only [timePart, List.mem_cons, List.mem_append, List.append_nil] at hc
      rcases hc with rfl | hc | hc | hc
      · simp
      · rcases mem_fld _ _ _ h1 hc with h | rfl <;> simp [*]
      · rcases mem_fld _ _ _ h2 hc with h | rfl <;> simp [*]
      · rcases mem_fld _ _ _ h3 hc with h | rfl <;> simp [*]

theorem desig_no_dot (fy fmo fd : Option (List Char)) (ft : Option TimeF) (hy : GoodF fy) (hmo : GoodF fmo)
    (hd : GoodF fd) (ht : GoodT ft) : '.' ∉ desig fy fmo fd ft := by
  intro h
  rcases desig_chars fy fmo fd ft hy hmo hd ht '.' h with h | h
  · exact absurd h (by decide)
  · exact absurd h (by decide)

theorem tOf_good (h mi s : Int) : GoodT (tOf h mi s) := by
  unfold tOf
  split
  · trivial
  · exact ⟨ofv_good h, ofv_good mi, ofv_good s⟩

/-- `__str__` of a unit-form duration without negative components, past the sign test. -/
theorem toTextPos_units (y mo d h mi s : Int) (hy : 0 ≤ y) (hmo : 0 ≤ mo) (hd : 0 ≤ d) (hh : 0 ≤ h)
    (hmi : 0 ≤ mi) (hs : 0 ≤ s) :
    toTextPos (.units y mo d h mi s) = desig (ofv y) (ofv mo) (ofv d) (tOf h mi s) := by
  have key : 'P' :: stripT (unitPart y 'Y' ++ unitPart mo 'M' ++ (unitPart d 'D' ++ ['T']) ++
      unitPart h 'H' ++ unitPart mi 'M' ++ unitPart s 'S') = desig (ofv y) (ofv mo) (ofv d) (tOf h mi s) := by
    rw [unitPart_nonneg y _ hy, unitPart_nonneg mo _ hmo, unitPart_nonneg d _ hd, unitPart_nonneg h _ hh,
      unitPart_nonneg mi _ hmi, unitPart_nonneg s _ hs]
    rcases time_shape (ofv h) (ofv mi) (ofv s) with ⟨e, e1, e2, e3⟩ | ⟨X, u, e, hu⟩
    · have hz : h = 0 ∧ mi = 0 ∧ s = 0 :=
        ⟨(ofv_none_iff h).mp e1, (ofv_none_iff mi).mp e2, (ofv_none_iff s).mp e3⟩
      have : fld (ofv y) 'Y' ++ fld (ofv mo) 'M' ++ (fld (ofv d) 'D' ++ ['T']) ++ fld (ofv h) 'H' ++
          fld (ofv mi) 'M' ++ fld (ofv s) 'S' =
          (fld (ofv y) 'Y' ++ (fld (ofv mo) 'M' ++ fld (ofv d) 'D')) ++ ['T'] := by
        rw [e1, e2, e3]; simp [fld]
      rw [this, stripT_T]
      simp only [desig, tOf, hz, and_self, ↓reduceIte, timePart, List.append_nil]
    · have hnz : ¬ (h = 0 ∧ mi = 0 ∧ s = 0) := by
        intro ⟨a, b, c⟩
        have e1 := (ofv_none_iff h).mpr a
        have e2 := (ofv_none_iff mi).mpr b
        have e3 := (ofv_none_iff s).mpr c
        rw [e1, e2, e3] at e
        simp [fld] at e
      have : fld (ofv y) 'Y' ++ fld (ofv mo) 'M' ++ (fld (ofv d) 'D' ++ ['T']) ++ fld (ofv h) 'H' ++
          fld (ofv mi) 'M' ++ fld (ofv s) 'S' =
          (fld (ofv y) 'Y' ++ (fld (ofv mo) 'M' ++ (fld (ofv d) 'D' ++ 'T' :: X))) ++ [u] := by
        have e' : fld (ofv h) 'H' ++ fld (ofv mi) 'M' ++ fld (ofv s) 'S' = X ++ [u] := by
          rw [← e, List.append_assoc]
        simp only [List.append_assoc, List.cons_append, List.nil_append] at e' ⊢
        rw [e']
      rw [this, stripT_other _ _ hu]
      simp only [desig, tOf, hnz, ↓reduceIte, timePart, List.append_nil, List.append_assoc,
        List.cons_append, List.cons.injEq, true_and, List.append_cancel_left_eq]
      rw [← e]
  show replaceDot _ = _
  rw [key]
  exact replaceDot_id _ (desig_no_dot _ _ _ _ (ofv_good y) (ofv_good mo) (ofv_good d) (tOf_good h mi s))

/-! ### sign test, constructor -/

theorem fnl_nonneg (vs : List Int) (h : ∀ v ∈ vs, 0 ≤ v) : fullyNegLoop vs false = false := by
  induction vs with
  | nil => rfl
  | cons v vs ih =>
    have hv := h v (by simp)
    have := ih (fun x hx => h x (by simp [hx]))
    simp only [fullyNegLoop]
    split
    · rfl
    · rw [if_neg (by omega)]; exact this

theorem fnl_nonpos (vs : List Int) (acc : Bool) (h : ∀ v ∈ vs, v ≤ 0) :
    fullyNegLoop vs acc = (acc || vs.any (fun v => decide (v < 0))) := by
  induction vs generalizing acc with
  | nil => simp [fullyNegLoop]
  | cons v vs ih =>
    have hv := h v (by simp)
    have := fun a => ih a (fun x hx => h x (by simp [hx]))
    simp only [fullyNegLoop, List.any_cons]
    rw [if_neg (by omega)]
    by_cases hn : v < 0
    · rw [if_pos hn, this]; simp [hn]
    · rw [if_neg hn, this]; simp [hn]

theorem mkDur_units (m : Mode) (a b c e f g : Int) : mkDur m a b 0 c e f g = .units a b c e f g := by
  simp [mkDur]

theorem mkDur_weeks (m : Mode) (w : Int) (hw : w ≠ 0) : mkDur m 0 0 w 0 0 0 0 = .weeks w := by
  simp only [mkDur, hw, ne_eq, not_false_eq_true, and_self, ↓reduceIte, daysInWeek_eq, Int.zero_add]
  congr 1
  omega

theorem dur_eq_refl (m : Mode) (d : Dur) : Dur.eq m d d = true := by
  rw [dur_eq_iff]; exact ⟨rfl, rfl⟩

/-! ### exactly representable integers -/

/-- `n` is a binary64 value below the overflow threshold: `float(str(n)) == n`. -/
def F64Exact (n : Nat) : Prop := n < f64Over ∧ f64Nat n = n

set_option exponentiation.threshold 2000 in
theorem f64Exact_of_lt (n : Nat) (h : n < 2 ^ 53) : F64Exact n := by
  refine ⟨?_, ?_⟩
  · have : (2 : Nat) ^ 53 ≤ f64Over := by
      unfold f64Over; exact Nat.pow_le_pow_right (n := 2) (Nat.le.step Nat.le.refl) (show 53 ≤ 1023 by decide)
    omega
  · unfold f64Nat; rw [if_pos h]

theorem fval_ofv (v : Int) (h : 0 ≤ v) (hx : F64Exact v.natAbs) : fval (ofv v) = v := by
  unfold ofv
  by_cases hv : v ≠ 0
  · rw [if_pos hv]; simp only [fval, digitsVal_natDigits, hx.2]; omega
  · rw [if_neg hv]; simp only [fval]; omega

theorem fltOk_ofv (v : Int) (hx : F64Exact v.natAbs) : FltOk (ofv v) := by
  intro ds e
  unfold ofv at e
  split at e
  · injection e with e; rw [← e, digitsVal_natDigits]; exact hx.1
  · cases e

/-- Parsing the text of a non-negative unit-form duration under either sign factor. -/
theorem parseBody_units (m : Mode) (sg : Int) (y mo d h mi s : Int) (hy : 0 ≤ y) (hmo : 0 ≤ mo) (hd : 0 ≤ d)
    (hh : 0 ≤ h) (hmi : 0 ≤ mi) (hs : 0 ≤ s) (xh : F64Exact h.natAbs) (xmi : F64Exact mi.natAbs)
    (xs : F64Exact s.natAbs) :
    parseBody m sg (desig (ofv y) (ofv mo) (ofv d) (tOf h mi s)) =
      .ok (.units (y * sg) (mo * sg) (d * sg) (h * sg) (mi * sg) (s * sg)) := by
  have hb : FltOkT (tOf h mi s) := by
    unfold tOf; split
    · trivial
    · exact ⟨fltOk_ofv h xh, fltOk_ofv mi xmi, fltOk_ofv s xs⟩
  rw [parseBody_desig m sg _ _ _ _ (ofv_good y) (ofv_good mo) (ofv_good d) (tOf_good h mi s) hb,
    mkDur_units, ival_ofv y hy, ival_ofv mo hmo, ival_ofv d hd]
  have : tvals (tOf h mi s) = (h, mi, s) := by
    unfold tOf; split
    · rename_i hz; obtain ⟨rfl, rfl, rfl⟩ := hz; rfl
    · simp only [tvals, fval_ofv h hh xh, fval_ofv mi hmi xmi, fval_ofv s hs xs]
  rw [this]


/-! ### `toText` by sign -/

theorem toText_zero (d : Dur) (h : d.nonzero = false) : toText d = ['P', '0', 'Y'] := by
  unfold toText; simp [h]

theorem toText_units_pos (y mo d h mi s : Int) (hy : 0 ≤ y) (hmo : 0 ≤ mo) (hd : 0 ≤ d) (hh : 0 ≤ h)
    (hmi : 0 ≤ mi) (hs : 0 ≤ s) (hnz : (Dur.units y mo d h mi s).nonzero = true) :
    toText (.units y mo d h mi s) = desig (ofv y) (ofv mo) (ofv d) (tOf h mi s) := by
  unfold toText
  have : fullyNegLoop (comps (.units y mo d h mi s)) false = false := by
    apply fnl_nonneg
    intro v hv
    simp only [comps, List.mem_cons, List.not_mem_nil, or_false] at hv
    rcases hv with rfl | rfl | rfl | rfl | rfl | rfl <;> assumption
  simp only [hnz, this, Bool.not_true, Bool.false_eq_true, ↓reduceIte]
  exact toTextPos_units y mo d h mi s hy hmo hd hh hmi hs

theorem toText_units_neg (y mo d h mi s : Int) (hy : y ≤ 0) (hmo : mo ≤ 0) (hd : d ≤ 0) (hh : h ≤ 0)
    (hmi : mi ≤ 0) (hs : s ≤ 0) (hnz : (Dur.units y mo d h mi s).nonzero = true) :
    toText (.units y mo d h mi s) = '-' :: desig (ofv (-y)) (ofv (-mo)) (ofv (-d)) (tOf (-h) (-mi) (-s)) := by
  unfold toText
  have : fullyNegLoop (comps (.units y mo d h mi s)) false = true := by
    rw [fnl_nonpos]
    · simp only [Dur.nonzero, Bool.or_eq_true, bne_iff_ne, ne_eq] at hnz
      simp only [comps, List.any_cons, List.any_nil, Bool.or_false, Bool.false_or, Bool.or_eq_true,
        decide_eq_true_eq]
      omega
    · intro v hv
      simp only [comps, List.mem_cons, List.not_mem_nil, or_false] at hv
      rcases hv with rfl | rfl | rfl | rfl | rfl | rfl <;> assumption
  simp only [hnz, this, Bool.not_true, Bool.false_eq_true, ↓reduceIte, List.cons.injEq, true_and]
  have e : (Dur.units y mo d h mi s).abs = .units (-y) (-mo) (-d) (-h) (-mi) (-s) := by
    simp only [Dur.abs, Dur.units.injEq]; omega
  rw [e]
  exact toTextPos_units _ _ _ _ _ _ (by omega) (by omega) (by omega) (by omega) (by omega) (by omega)

theorem toTextPos_weeks (w : Int) (hw : 0 ≤ w) : toTextPos (.weeks w) = desigW (natDigits w.natAbs) := by
  show replaceDot _ = _
  have : intText w = natDigits w.natAbs := by unfold intText; rw [if_neg (by omega)]
  rw [this]
  apply replaceDot_id
  intro hm
  simp only [List.mem_cons, List.mem_append, List.not_mem_nil, or_false] at hm
  rcases hm with hm | hm | hm
  · exact absurd hm (by decide)
  · exact absurd (natDigits_digs _ _ hm) (by decide)
  · exact absurd hm (by decide)

theorem toText_weeks_pos (w : Int) (hw : 0 < w) : toText (.weeks w) = desigW (natDigits w.natAbs) := by
  unfold toText
  have h1 : (Dur.weeks w).nonzero = true := by simp [Dur.nonzero]; omega
  have h2 : fullyNegLoop (comps (.weeks w)) false = false := by
    simp only [comps, fullyNegLoop]; rw [if_pos hw]
  simp only [h1, h2, Bool.not_true, Bool.false_eq_true, ↓reduceIte]
  exact toTextPos_weeks w (by omega)

theorem toText_weeks_neg (w : Int) (hw : w < 0) : toText (.weeks w) = '-' :: desigW (natDigits w.natAbs) := by
  unfold toText
  have h1 : (Dur.weeks w).nonzero = true := by simp [Dur.nonzero]; omega
  have h2 : fullyNegLoop (comps (.weeks w)) false = true := by
    simp only [comps, fullyNegLoop]; rw [if_neg (by omega), if_pos hw]
  simp only [h1, h2, Bool.not_true, Bool.false_eq_true, ↓reduceIte, List.cons.injEq, true_and]
  have e : (Dur.weeks w).abs = .weeks (-w) := by simp only [Dur.abs, Dur.weeks.injEq]; omega
  rw [e, toTextPos_weeks (-w) (by omega)]
  congr 2
  omega

/-! ### the date-time-like spelling -/

theorem parse_alt (m : Mode) (s : List Char) (r : Nat × Nat × Nat × Nat × Nat × Nat)
    (hasc : ∀ c ∈ s, c.toNat < 128) (hT : 'T' ∈ s) (hf : fnd s = some '-' ∨ fnd s = some 'T')
    (hhead : ∀ t, s ≠ 'T' :: t) (ha : altParse s = some r) :
    parse m ('P' :: s) = .ok (.units r.1 r.2.1 r.2.2.1 r.2.2.2.1 r.2.2.2.2.1 r.2.2.2.2.2) := by
  rw [parse_pos m s (by
    intro c hc
    rcases List.mem_cons.mp hc with rfl | hc
    · decide
    · exact hasc c hc)]
  have h0 : durRegex0.search ('P' :: s) = none :=
    search_none_of_not_accepts _ _ 'T' (by simp [hT]) (by decide) (by decide)
  have h1 : durRegex1.search ('P' :: s) = none := by
    apply search1_none _ _ _ _ hhead <;> rcases hf with hf | hf <;> rw [hf] <;> decide
  have h2 : durRegex2.search ('P' :: s) = none := by
    apply search2_none; rcases hf with hf | hf <;> rw [hf] <;> decide
  obtain ⟨y, mo, d, h, mi, sec⟩ := r
  simp only [parseBody, durRegexes, firstMatch, h0, h1, h2, ↓reduceIte, altPath, ha, mkDur_units]

theorem len2 (l : List Char) (h : l.length = 2) : ∃ a b, l = [a, b] := by
  match l, h with
  | [a, b], _ => exact ⟨a, b, rfl⟩
theorem len3 (l : List Char) (h : l.length = 3) : ∃ a b c, l = [a, b, c] := by
  match l, h with
  | [a, b, c], _ => exact ⟨a, b, c, rfl⟩
theorem len4 (l : List Char) (h : l.length = 4) : ∃ a b c d, l = [a, b, c, d] := by
  match l, h with
  | [a, b, c, d], _ => exact ⟨a, b, c, d, rfl⟩

theorem dig_ne (c u : Char) (hc : isDig c = true) (hu : isDig u = false := by decide) : c ≠ u :=
  dig_ne_of c u hc hu

/-- Extended calendar form `YYYY-MM-DDThh:mm:ss`. -/
def altXC (yy mm dd hh mi ss : List Char) : List Char :=
  yy ++ '-' :: (mm ++ '-' :: (dd ++ 'T' :: (hh ++ ':' :: (mi ++ ':' :: ss))))

theorem altParse_XC (yy mm dd hh mi ss : List Char)
    (h1 : Digs yy) (l1 : yy.length = 4) (h2 : Digs mm) (l2 : mm.length = 2) (h3 : Digs dd) (l3 : dd.length = 2)
    (h4 : Digs hh) (l4 : hh.length = 2) (h5 : Digs mi) (l5 : mi.length = 2) (h6 : Digs ss) (l6 : ss.length = 2) :
    altParse (altXC yy mm dd hh mi ss) =
      some (digitsVal yy, digitsVal mm, digitsVal dd, digitsVal hh, digitsVal mi, digitsVal ss) := by
  obtain ⟨y1, y2, y3, y4, rfl⟩ := len4 yy l1
  obtain ⟨m1, m2, rfl⟩ := len2 mm l2
  obtain ⟨d1, d2, rfl⟩ := len2 dd l3
  obtain ⟨a1, a2, rfl⟩ := len2 hh l4
  obtain ⟨b1, b2, rfl⟩ := len2 mi l5
  obtain ⟨c1, c2, rfl⟩ := len2 ss l6
  have e1 := h1 y1 (by simp); have e2 := h1 y2 (by simp); have e3 := h1 y3 (by simp); have e4 := h1 y4 (by simp)
  have f1 := h2 m1 (by simp); have f2 := h2 m2 (by simp)
  have g1 := h3 d1 (by simp); have g2 := h3 d2 (by simp)
  have i1 := h4 a1 (by simp); have i2 := h4 a2 (by simp)
  have j1 := h5 b1 (by simp); have j2 := h5 b2 (by simp)
  have k1 := h6 c1 (by simp); have k2 := h6 c2 (by simp)
  simp [altParse, altForm, altXC, takeDigits, expect, sep, *]


/-- Basic calendar form `YYYYMMDDThhmmss`. -/
def altBC (yy mm dd hh mi ss : List Char) : List Char := yy ++ (mm ++ (dd ++ 'T' :: (hh ++ (mi ++ ss))))
/-- Extended ordinal form `YYYY-DDDThh:mm:ss`. -/
def altXO (yy ddd hh mi ss : List Char) : List Char :=
  yy ++ '-' :: (ddd ++ 'T' :: (hh ++ ':' :: (mi ++ ':' :: ss)))
/-- Basic ordinal form `YYYYDDDThhmmss`. -/
def altBO (yy ddd hh mi ss : List Char) : List Char := yy ++ (ddd ++ 'T' :: (hh ++ (mi ++ ss)))

theorem altParse_BC (yy mm dd hh mi ss : List Char)
    (h1 : Digs yy) (l1 : yy.length = 4) (h2 : Digs mm) (l2 : mm.length = 2) (h3 : Digs dd) (l3 : dd.length = 2)
    (h4 : Digs hh) (l4 : hh.length = 2) (h5 : Digs mi) (l5 : mi.length = 2) (h6 : Digs ss) (l6 : ss.length = 2) :
    altParse (altBC yy mm dd hh mi ss) =
      some (digitsVal yy, digitsVal mm, digitsVal dd, digitsVal hh, digitsVal mi, digitsVal ss) := by
  obtain ⟨y1, y2, y3, y4, rfl⟩ := len4 yy l1
  obtain ⟨m1, m2, rfl⟩ := len2 mm l2
  obtain ⟨d1, d2, rfl⟩ := len2 dd l3
  obtain ⟨a1, a2, rfl⟩ := len2 hh l4
  obtain ⟨b1, b2, rfl⟩ := len2 mi l5
  obtain ⟨c1, c2, rfl⟩ := len2 ss l6
  have e1 := h1 y1 (by simp); have e2 := h1 y2 (by simp); have e3 := h1 y3 (by simp); have e4 := h1 y4 (by simp)
  have f1 := h2 m1 (by simp); have f2 := h2 m2 (by simp)
  have g1 := h3 d1 (by simp); have g2 := h3 d2 (by simp)
  have i1 := h4 a1 (by simp); have i2 := h4 a2 (by simp)
  have j1 := h5 b1 (by simp); have j2 := h5 b2 (by simp)
  have k1 := h6 c1 (by simp); have k2 := h6 c2 (by simp)
  have n1 : m1 ≠ '-' := dig_ne _ _ f1
  simp [altParse, altForm, altBC, takeDigits, expect, sep, *]

theorem altParse_XO (yy ddd hh mi ss : List Char)
    (h1 : Digs yy) (l1 : yy.length = 4) (h3 : Digs ddd) (l3 : ddd.length = 3)
    (h4 : Digs hh) (l4 : hh.length = 2) (h5 : Digs mi) (l5 : mi.length = 2) (h6 : Digs ss) (l6 : ss.length = 2) :
    altParse (altXO yy ddd hh mi ss) =
      some (digitsVal yy, 0, digitsVal ddd, digitsVal hh, digitsVal mi, digitsVal ss) := by
  obtain ⟨y1, y2, y3, y4, rfl⟩ := len4 yy l1
  obtain ⟨d1, d2, d3, rfl⟩ := len3 ddd l3
  obtain ⟨a1, a2, rfl⟩ := len2 hh l4
  obtain ⟨b1, b2, rfl⟩ := len2 mi l5
  obtain ⟨c1, c2, rfl⟩ := len2 ss l6
  have e1 := h1 y1 (by simp); have e2 := h1 y2 (by simp); have e3 := h1 y3 (by simp); have e4 := h1 y4 (by simp)
  have g1 := h3 d1 (by simp); have g2 := h3 d2 (by simp); have g3 := h3 d3 (by simp)
  have i1 := h4 a1 (by simp); have i2 := h4 a2 (by simp)
  have j1 := h5 b1 (by simp); have j2 := h5 b2 (by simp)
  have k1 := h6 c1 (by simp); have k2 := h6 c2 (by simp)
  have n1 : d3 ≠ '-' := dig_ne _ _ g3
  simp [altParse, altForm, altXO, takeDigits, expect, sep, digitsVal, *]

theorem altParse_BO (yy ddd hh mi ss : List Char)
    (h1 : Digs yy) (l1 : yy.length = 4) (h3 : Digs ddd) (l3 : ddd.length = 3)
    (h4 : Digs hh) (l4 : hh.length = 2) (h5 : Digs mi) (l5 : mi.length = 2) (h6 : Digs ss) (l6 : ss.length = 2) :
    altParse (altBO yy ddd hh mi ss) =
      some (digitsVal yy, 0, digitsVal ddd, digitsVal hh, digitsVal mi, digitsVal ss) := by
  obtain ⟨y1, y2, y3, y4, rfl⟩ := len4 yy l1
  obtain ⟨d1, d2, d3, rfl⟩ := len3 ddd l3
  obtain ⟨a1, a2, rfl⟩ := len2 hh l4
  obtain ⟨b1, b2, rfl⟩ := len2 mi l5
  obtain ⟨c1, c2, rfl⟩ := len2 ss l6
  have e1 := h1 y1 (by simp); have e2 := h1 y2 (by simp); have e3 := h1 y3 (by simp); have e4 := h1 y4 (by simp)
  have g1 := h3 d1 (by simp); have g2 := h3 d2 (by simp); have g3 := h3 d3 (by simp)
  have i1 := h4 a1 (by simp); have i2 := h4 a2 (by simp)
  have j1 := h5 b1 (by simp); have j2 := h5 b2 (by simp)
  have k1 := h6 c1 (by simp); have k2 := h6 c2 (by simp)
  have n1 : d1 ≠ '-' := dig_ne _ _ g1
  have n2 : isDig 'T' = false := by decide
  simp [altParse, altForm, altBO, takeDigits, expect, sep, digitsVal, *]


theorem head_of_len_pos (yy rest : List Char) (h : Digs yy) (l : 0 < yy.length) :
    ∀ t, yy ++ rest ≠ 'T' :: t := by
  intro t e
  cases yy with
  | nil => simp at l
  | cons a as =>
    injection e with e1 _
    have := h.head; rw [e1] at this
    exact absurd this (by decide)

theorem ascii_append {a b : List Char} (ha : ∀ c ∈ a, c.toNat < 128) (hb : ∀ c ∈ b, c.toNat < 128) :
    ∀ c ∈ a ++ b, c.toNat < 128 := by
  intro c hc
  rcases List.mem_append.mp hc with h | h
  · exact ha c h
  · exact hb c h
theorem ascii_cons {x : Char} {b : List Char} (hx : x.toNat < 128) (hb : ∀ c ∈ b, c.toNat < 128) :
    ∀ c ∈ x :: b, c.toNat < 128 := by
  intro c hc
  rcases List.mem_cons.mp hc with rfl | h
  · exact hx
  · exact hb c h
theorem ascii_digs {a : List Char} (h : Digs a) : ∀ c ∈ a, c.toNat < 128 := fun c hc => dig_ascii c (h c hc)

theorem parse_altXC (m : Mode) (yy mm dd hh mi ss : List Char)
    (h1 : Digs yy) (l1 : yy.length = 4) (h2 : Digs mm) (l2 : mm.length = 2) (h3 : Digs dd) (l3 : dd.length = 2)
    (h4 : Digs hh) (l4 : hh.length = 2) (h5 : Digs mi) (l5 : mi.length = 2) (h6 : Digs ss) (l6 : ss.length = 2) :
    parse m ('P' :: altXC yy mm dd hh mi ss) =
      .ok (.units (digitsVal yy) (digitsVal mm) (digitsVal dd) (digitsVal hh) (digitsVal mi) (digitsVal ss)) := by
  refine parse_alt m _ _ ?_ ?_ ?_ ?_ (altParse_XC yy mm dd hh mi ss h1 l1 h2 l2 h3 l3 h4 l4 h5 l5 h6 l6)
  · exact ascii_append (ascii_digs h1) (ascii_cons (by decide) (ascii_append (ascii_digs h2) (ascii_cons (by decide)
      (ascii_append (ascii_digs h3) (ascii_cons (by decide) (ascii_append (ascii_digs h4) (ascii_cons (by decide)
      (ascii_append (ascii_digs h5) (ascii_cons (by decide) (ascii_digs h6))))))))))
  · simp [altXC]
  · left; unfold altXC; rw [fnd_digs_append _ _ h1]; exact fnd_cons_nondig _ _ (by decide)
  · exact head_of_len_pos yy _ h1 (by omega)

theorem parse_altBC (m : Mode) (yy mm dd hh mi ss : List Char)
    (h1 : Digs yy) (l1 : yy.length = 4) (h2 : Digs mm) (l2 : mm.length = 2) (h3 : Digs dd) (l3 : dd.length = 2)
    (h4 : Digs hh) (l4 : hh.length = 2) (h5 : Digs mi) (l5 : mi.length = 2) (h6 : Digs ss) (l6 : ss.length = 2) :
    parse m ('P' :: altBC yy mm dd hh mi ss) =
      .ok (.units (digitsVal yy) (digitsVal mm) (digitsVal dd) (digitsVal hh) (digitsVal mi) (digitsVal ss)) := by
  refine parse_alt m _ _ ?_ ?_ ?_ ?_ (altParse_BC yy mm dd hh mi ss h1 l1 h2 l2 h3 l3 h4 l4 h5 l5 h6 l6)
  · exact ascii_append (ascii_digs h1) (ascii_append (ascii_digs h2) (ascii_append (ascii_digs h3)
      (ascii_cons (by decide) (ascii_append (ascii_digs h4) (ascii_append (ascii_digs h5) (ascii_digs h6))))))
  · simp [altBC]
  · right; unfold altBC
    rw [fnd_digs_append _ _ h1, fnd_digs_append _ _ h2, fnd_digs_append _ _ h3]
    exact fnd_cons_nondig _ _ (by decide)
  · exact head_of_len_pos yy _ h1 (by omega)

theorem parse_altXO (m : Mode) (yy ddd hh mi ss : List Char)
    (h1 : Digs yy) (l1 : yy.length = 4) (h3 : Digs ddd) (l3 : ddd.length = 3)
    (h4 : Digs hh) (l4 : hh.length = 2) (h5 : Digs mi) (l5 : mi.length = 2) (h6 : Digs ss) (l6 : ss.length = 2) :
    parse m ('P' :: altXO yy ddd hh mi ss) =
      .ok (.units (digitsVal yy) 0 (digitsVal ddd) (digitsVal hh) (digitsVal mi) (digitsVal ss)) := by
  refine parse_alt m _ _ ?_ ?_ ?_ ?_ (altParse_XO yy ddd hh mi ss h1 l1 h3 l3 h4 l4 h5 l5 h6 l6)
  · exact ascii_append (ascii_digs h1) (ascii_cons (by decide)
      (ascii_append (ascii_digs h3) (ascii_cons (by decide) (ascii_append (ascii_digs h4) (ascii_cons (by decide)
      (ascii_append (ascii_digs h5) (ascii_cons (by decide) (ascii_digs h6))))))))
  · simp [altXO]
  · left; unfold altXO; rw [fnd_digs_append _ _ h1]; exact fnd_cons_nondig _ _ (by decide)
  · exact head_of_len_pos yy _ h1 (by omega)

theorem parse_altBO (m : Mode) (yy ddd hh mi ss : List Char)
    (h1 : Digs yy) (l1 : yy.length = 4) (h3 : Digs ddd) (l3 : ddd.length = 3)
    (h4 : Digs hh) (l4 : hh.length = 2) (h5 : Digs mi) (l5 : mi.length = 2) (h6 : Digs ss) (l6 : ss.length = 2) :
    parse m ('P' :: altBO yy ddd hh mi ss) =
      .ok (.units (digitsVal yy) 0 (digitsVal ddd) (digitsVal hh) (digitsVal mi) (digitsVal ss)) := by
  refine parse_alt m _ _ ?_ ?_ ?_ ?_ (altParse_BO yy ddd hh mi ss h1 l1 h3 l3 h4 l4 h5 l5 h6 l6)
  · exact ascii_append (ascii_digs h1) (ascii_append (ascii_digs h3)
      (ascii_cons (by decide) (ascii_append (ascii_digs h4) (ascii_append (ascii_digs h5) (ascii_digs h6)))))
  · simp [altBO]
  · right; unfold altBO
    rw [fnd_digs_append _ _ h1, fnd_digs_append _ _ h3]
    exact fnd_cons_nondig _ _ (by decide)
  · exact head_of_len_pos yy _ h1 (by omega)

/-! ### fixed-width fields -/

theorem renderW_length (w v : Nat) : (renderW w v).length = w := by
  induction w with
  | zero => rfl
  | succ w ih => simp [renderW, ih]

theorem renderW_digs (w v : Nat) : Digs (renderW w v) := by
  induction w with
  | zero => exact Digs.nil
  | succ w ih => exact Digs.cons (dch_spec _ (Nat.mod_lt _ (by decide))).2 ih

theorem digitsVal_cons (c : Char) (ds : List Char) :
    digitsVal (c :: ds) = (c.toNat - 48) * 10 ^ ds.length + digitsVal ds := by
  have gen : ∀ (l : List Char) (a : Nat),
      l.foldl (fun a c => 10 * a + (c.toNat - 48)) a = a * 10 ^ l.length + digitsVal l := by
    intro l
    induction l with
    | nil => intro a; simp [digitsVal]
    | cons x xs ih =>
      intro a
      simp only [List.foldl_cons, List.length_cons, digitsVal]
      rw [ih, ih (10 * 0 + (x.toNat - 48)), Nat.pow_succ]
      simp only [Nat.mul_zero, Nat.zero_add, Nat.add_mul]
      rw [Nat.mul_comm 10 a, Nat.mul_assoc, Nat.mul_comm 10 (10 ^ xs.length)]
      omega
  have := gen ds (10 * 0 + (c.toNat - 48))
  simp only [digitsVal, List.foldl_cons]
  rw [this]; simp [digitsVal]

/-- A `w`-digit field reads back as the number (below `10^w`). -/
theorem digitsVal_renderW (w v : Nat) : digitsVal (renderW w v) = v % 10 ^ w := by
  induction w with
  | zero => simp [renderW, digitsVal, Nat.mod_one]
  | succ w ih =>
    have hd := (dch_spec (v / 10 ^ w % 10) (Nat.mod_lt _ (by decide))).1
    rw [renderW, digitsVal_cons, ih, renderW_length, hd]
    have : 48 + v / 10 ^ w % 10 - 48 = v / 10 ^ w % 10 := by omega
    rw [this, Nat.pow_succ, Nat.mod_mul, Nat.add_comm, Nat.mul_comm]

end IsoDT.Lemmas.DurText
