/-
  IsoDT.Lemmas.DurText — helper lemmas for C10: decimal digit strings, the greedy star of the
  backtracking matcher, the two optional-group shapes of the duration regexes
  (`(?:(\d+)u)?` and `(?:(\d.*)u)?`), a soundness lemma (a match only consumes characters the regex
  accepts), the shape of `Duration.__str__`'s output, and the search / convert results on
  designator strings.
-/
import IsoDT.Model.DurText
import IsoDT.Lemmas.Dur

namespace IsoDT.Lemmas.DurText
open IsoDT IsoDT.Model IsoDT.Model.DurText IsoDT.Gen

/-! ### digits -/

theorem isDig_iff (c : Char) : isDig c = true ↔ 48 ≤ c.toNat ∧ c.toNat ≤ 57 := by
  simp [isDig]

theorem dch_spec (d : Nat) (h : d < 10) : (dch d).toNat = 48 + d ∧ isDig (dch d) = true := by
  have : ∀ d : Fin 10, (dch d.val).toNat = 48 + d.val ∧ isDig (dch d.val) = true := by decide
  exact this ⟨d, h⟩

/-- All characters are ASCII digits. -/
def Digs (ds : List Char) : Prop := ∀ c ∈ ds, isDig c = true

theorem Digs.nil : Digs [] := by intro c h; cases h
theorem Digs.cons {c : Char} {ds : List Char} (h : isDig c = true) (t : Digs ds) : Digs (c :: ds) := by
  intro x hx
  rcases List.mem_cons.mp hx with rfl | hx
  · exact h
  · exact t x hx
theorem Digs.append {a b : List Char} (ha : Digs a) (hb : Digs b) : Digs (a ++ b) := by
  intro x hx
  rcases List.mem_append.mp hx with h | h
  · exact ha x h
  · exact hb x h
theorem Digs.head {c : Char} {ds : List Char} (h : Digs (c :: ds)) : isDig c = true := h c (by simp)
theorem Digs.tail {c : Char} {ds : List Char} (h : Digs (c :: ds)) : Digs ds := fun x hx => h x (by simp [hx])

theorem Digs.all {ds : List Char} (h : Digs ds) : ds.all isDig = true := by
  rw [List.all_eq_true]; exact h

theorem digitsVal_append_single (ds : List Char) (c : Char) :
    digitsVal (ds ++ [c]) = 10 * digitsVal ds + (c.toNat - 48) := by
  simp [digitsVal, List.foldl_append]

theorem natDigitsAux_append (f n : Nat) (acc : List Char) :
    natDigitsAux f n acc = natDigitsAux f n [] ++ acc := by
  induction f generalizing n acc with
  | zero => simp [natDigitsAux]
  | succ f ih =>
    simp only [natDigitsAux]
    split
    · simp
    · rw [ih, ih (n / 10) [dch (n % 10)]]; simp

theorem natDigitsAux_spec (f n : Nat) (h : n < f) :
    natDigitsAux f n [] ≠ [] ∧ Digs (natDigitsAux f n []) ∧ digitsVal (natDigitsAux f n []) = n := by
  induction f generalizing n with
  | zero => omega
  | succ f ih =>
    simp only [natDigitsAux]
    split
    · rename_i h10
      have := dch_spec n h10
      refine ⟨by simp, Digs.cons this.2 Digs.nil, ?_⟩
      simp [digitsVal, this.1]
    · rename_i h10
      have hlt : n / 10 < f := by omega
      obtain ⟨i1, i2, i3⟩ := ih (n / 10) hlt
      have hd := dch_spec (n % 10) (Nat.mod_lt _ (by decide))
      rw [natDigitsAux_append]
      refine ⟨by simp, Digs.append i2 (Digs.cons hd.2 Digs.nil), ?_⟩
      rw [digitsVal_append_single, i3, hd.1]
      omega

theorem natDigits_ne_nil (n : Nat) : natDigits n ≠ [] := (natDigitsAux_spec (n + 1) n (by omega)).1
theorem natDigits_digs (n : Nat) : Digs (natDigits n) := (natDigitsAux_spec (n + 1) n (by omega)).2.1
theorem digitsVal_natDigits (n : Nat) : digitsVal (natDigits n) = n :=
  (natDigitsAux_spec (n + 1) n (by omega)).2.2


/-! ### the greedy star -/

/-- If the continuation fails on every suffix that starts with a `p`-character, the greedy run over
    `p`-characters `ds` hands exactly the remainder to the continuation. -/
theorem starK_run {β : Type} (p : Char → Bool) (K : List Char → Option β) (ds : List Char) (tl : List Char)
    (hds : ∀ c ∈ ds, p c = true) (htl : ∀ c t, tl = c :: t → p c = false)
    (hK : ∀ c t, p c = true → K (c :: t) = none) :
    starK p (ds ++ tl) K = K tl := by
  induction ds with
  | nil =>
    cases tl with
    | nil => rfl
    | cons c t => simp [starK, htl c t rfl]
  | cons d ds ih =>
    have hd : p d = true := hds d (by simp)
    have := ih (fun c hc => hds c (by simp [hc]))
    simp only [List.cons_append, starK, hd, ↓reduceIte, this]
    cases h : K tl with
    | some x => rfl
    | none => exact hK d _ hd

/-- The continuation fails unless the suffix starts with `u`; a string without `u` therefore gives
    no match, however much of it the star takes. -/
theorem starK_none {β : Type} (p : Char → Bool) (K : List Char → Option β) (u : Char) (s : List Char)
    (hK : ∀ s', (∀ t, s' ≠ u :: t) → K s' = none) (hs : u ∉ s) :
    starK p s K = none := by
  induction s with
  | nil => exact hK [] (by intro t h; cases h)
  | cons c cs ih =>
    have hc : c ≠ u := by intro e; exact hs (by simp [e])
    have hk : K (c :: cs) = none := hK _ (by intro t h; injection h with h1 _; exact hc h1)
    have := ih (by intro h; exact hs (by simp [h]))
    simp only [starK, this, hk]
    split <;> rfl

/-- Greedy `.*` followed by the literal `u`, when `u` occurs exactly once before the end: the star
    backs off to that occurrence. -/
theorem starK_any_to {β : Type} (K : List Char → Option β) (u : Char) (body rest : List Char)
    (hu : u ≠ '\n')
    (hK : ∀ s', (∀ t, s' ≠ u :: t) → K s' = none)
    (hb1 : u ∉ body) (hb2 : '\n' ∉ body) (hr : u ∉ rest) :
    starK (Cls.test .any) (body ++ u :: rest) K = K (u :: rest) := by
  induction body with
  | nil =>
    have h1 : Cls.test .any u = true := by simp [Cls.test, hu]
    have h2 := starK_none (Cls.test .any) K u rest hK hr
    simp only [List.nil_append, starK, h1, ↓reduceIte, h2]
  | cons c cs ih =>
    have hc : c ≠ u := by intro e; exact hb1 (by simp [e])
    have hn : c ≠ '\n' := by intro e; exact hb2 (by simp [e])
    have h1 : Cls.test .any c = true := by simp [Cls.test, hn]
    have := ih (by intro h; exact hb1 (by simp [h])) (by intro h; exact hb2 (by simp [h]))
    have hk : K (c :: (cs ++ u :: rest)) = none :=
      hK _ (by intro t h; injection h with h1 _; exact hc h1)
    simp only [List.cons_append, starK, h1, ↓reduceIte, this]
    cases K (u :: rest) with
    | some x => rfl
    | none => exact hk


/-! ### the two optional-group shapes of the duration regexes -/

theorem run_seq {β : Type} (a b : Re) (s : List Char) (cp : Caps) (k : List Char → Caps → Option β) :
    (Re.seq a b).run s cp k = a.run s cp (fun s' cp' => b.run s' cp' k) := rfl

theorem run_opt {β : Type} (r : Re) (s : List Char) (cp : Caps) (k : List Char → Caps → Option β) :
    (Re.opt r).run s cp k = (match r.run s cp k with | some x => some x | none => k s cp) := rfl

theorem run_lit {β : Type} (c : Char) (s : List Char) (cp : Caps) (k : List Char → Caps → Option β) :
    (Re.one (.chr c)).run (c :: s) cp k = k s cp := by
  simp [Re.run, Cls.test]

theorem run_lit_ne {β : Type} (c x : Char) (s : List Char) (cp : Caps) (k : List Char → Caps → Option β)
    (h : x ≠ c) : (Re.one (.chr c)).run (x :: s) cp k = none := by
  simp [Re.run, Cls.test, h]

theorem run_lit_nil {β : Type} (c : Char) (cp : Caps) (k : List Char → Caps → Option β) :
    (Re.one (.chr c)).run [] cp k = none := rfl

/-- `(?P<n>\d+)u` -/
@[reducible] def digUnit (n : DUnit) (u : Char) : Re := .seq (.grp n (.plus .digit)) (.one (.chr u))
/-- `(?P<n>\d.*)u` -/
@[reducible] def anyUnit (n : DUnit) (u : Char) : Re :=
  .seq (.grp n (.seq (.one .digit) (.star .any))) (.one (.chr u))

/-- First character that is not an ASCII digit. -/
def fnd : List Char → Option Char
  | [] => none
  | c :: cs => if isDig c then fnd cs else some c

theorem fnd_digs_append (ds tl : List Char) (h : Digs ds) : fnd (ds ++ tl) = fnd tl := by
  induction ds with
  | nil => rfl
  | cons d ds ih => simp [fnd, h.head, ih h.tail]

theorem fnd_cons_nondig (c : Char) (t : List Char) (h : isDig c = false) : fnd (c :: t) = some c := by
  simp [fnd, h]

theorem split_digits (s : List Char) :
    ∃ ds tl, s = ds ++ tl ∧ Digs ds ∧
      ((tl = [] ∧ fnd s = none) ∨ ∃ c t, tl = c :: t ∧ isDig c = false ∧ fnd s = some c) := by
  induction s with
  | nil => exact ⟨[], [], rfl, Digs.nil, Or.inl ⟨rfl, rfl⟩⟩
  | cons c cs ih =>
    by_cases hc : isDig c = true
    · obtain ⟨ds, tl, e, hd, h⟩ := ih
      refine ⟨c :: ds, tl, by simp [e], Digs.cons hc hd, ?_⟩
      simpa [fnd, hc] using h
    · have hc' : isDig c = false := by simpa using hc
      exact ⟨[], c :: cs, rfl, Digs.nil, Or.inr ⟨c, cs, rfl, hc', fnd_cons_nondig c cs hc'⟩⟩

theorem dig_ne_of (c u : Char) (hc : isDig c = true) (hu : isDig u = false) : c ≠ u := by
  intro e; rw [e, hu] at hc; cases hc

theorem take_prefix (a b : List Char) : (a ++ b).take ((a ++ b).length - b.length) = a := by
  have : (a ++ b).length - b.length = a.length := by simp
  rw [this, List.take_left]

theorem run_grp {β : Type} (n : DUnit) (r : Re) (s : List Char) (cp : Caps) (k : List Char → Caps → Option β) :
    (Re.grp n r).run s cp k =
      r.run s cp (fun s' cp' => k s' (capSet cp' n (s.take (s.length - s'.length)))) := rfl
theorem run_plus_cons {β : Type} (c : Cls) (x : Char) (xs : List Char) (cp : Caps)
    (k : List Char → Caps → Option β) :
    (Re.plus c).run (x :: xs) cp k = if c.test x then starK c.test xs (fun s' => k s' cp) else none := rfl
theorem run_one_cons {β : Type} (c : Cls) (x : Char) (xs : List Char) (cp : Caps)
    (k : List Char → Caps → Option β) :
    (Re.one c).run (x :: xs) cp k = if c.test x then k xs cp else none := rfl
theorem run_star {β : Type} (c : Cls) (s : List Char) (cp : Caps) (k : List Char → Caps → Option β) :
    (Re.star c).run s cp k = starK c.test s (fun s' => k s' cp) := rfl
theorem test_digit (c : Char) : Cls.test .digit c = isDig c := rfl
theorem test_chr (x c : Char) : Cls.test (.chr x) c = (c == x) := rfl

/-- The continuation `lit u; k` fails on anything that does not start with `u`. -/
theorem lit_cont_none {β : Type} (u : Char) (cp : Caps) (k : List Char → Caps → Option β)
    (s' : List Char) (h : ∀ t, s' ≠ u :: t) :
    (Re.one (.chr u)).run s' cp k = none := by
  cases s' with
  | nil => rfl
  | cons c t =>
    have : c ≠ u := by intro e; exact h t (by rw [e])
    exact run_lit_ne u c t _ k this

theorem run_digUnit {β : Type} (n : DUnit) (u : Char) (hu : isDig u = false) (ds rest : List Char) (cp : Caps)
    (k : List Char → Caps → Option β) (hds : Digs ds) (hne : ds ≠ []) :
    (digUnit n u).run (ds ++ u :: rest) cp k = k rest (capSet cp n ds) := by
  cases ds with
  | nil => exact absurd rfl hne
  | cons d ds' =>
    have hd : Cls.test .digit d = true := hds.head
    rw [run_seq, run_grp, List.cons_append, run_plus_cons, if_pos hd]
    rw [starK_run (Cls.test .digit) _ ds' (u :: rest) hds.tail]
    · have := take_prefix (d :: ds') (u :: rest)
      simp only [List.cons_append] at this
      rw [run_lit, this]
    · intro c t e; injection e with e1 _; rw [← e1]; exact hu
    · intro c t hc
      exact lit_cont_none u _ k (c :: t) (by intro t' e; injection e with e1 _; exact dig_ne_of c u hc hu e1)

theorem run_digUnit_none {β : Type} (n : DUnit) (u : Char) (hu : isDig u = false) (s : List Char) (cp : Caps)
    (k : List Char → Caps → Option β) (h : fnd s ≠ some u) :
    (digUnit n u).run s cp k = none := by
  cases s with
  | nil => rfl
  | cons x xs =>
    rw [run_seq, run_grp, run_plus_cons]
    by_cases hx : isDig x = true
    · rw [if_pos (show Cls.test .digit x = true from hx)]
      have hf : fnd xs ≠ some u := by simpa [fnd, hx] using h
      obtain ⟨ds, tl, e, hd, htl⟩ := split_digits xs
      rw [e, starK_run (Cls.test .digit) _ ds tl hd]
      · apply lit_cont_none u _ k tl
        intro t e'
        rcases htl with ⟨rfl, _⟩ | ⟨c, t', rfl, hc, hfc⟩
        · cases e'
        · injection e' with e1 _
          apply hf; rw [hfc, e1]
      · intro c t e'
        rcases htl with ⟨rfl, _⟩ | ⟨c', t', rfl, hc, _⟩
        · cases e'
        · injection e' with e1 _; rw [← e1]; exact hc
      · intro c t hc
        exact lit_cont_none u _ k (c :: t) (by intro t' e; injection e with e1 _; exact dig_ne_of c u hc hu e1)
    · rw [if_neg (show ¬ Cls.test .digit x = true from hx)]

theorem run_anyUnit {β : Type} (n : DUnit) (u : Char) (hu : u ≠ '\n') (d0 : Char) (body rest : List Char)
    (cp : Caps) (k : List Char → Caps → Option β) (hd : isDig d0 = true)
    (hb1 : u ∉ body) (hb2 : '\n' ∉ body) (hr : u ∉ rest) :
    (anyUnit n u).run (d0 :: (body ++ u :: rest)) cp k = k rest (capSet cp n (d0 :: body)) := by
  rw [run_seq, run_grp, run_seq, run_one_cons, if_pos (show Cls.test .digit d0 = true from hd), run_star]
  rw [starK_any_to _ u body rest hu _ hb1 hb2 hr]
  · have := take_prefix (d0 :: body) (u :: rest)
    simp only [List.cons_append] at this
    rw [run_lit, this]
  · intro s' hs'
    exact lit_cont_none u _ k s' hs'

theorem run_anyUnit_none {β : Type} (n : DUnit) (u : Char) (s : List Char) (cp : Caps)
    (k : List Char → Caps → Option β) (h : u ∉ s) :
    (anyUnit n u).run s cp k = none := by
  cases s with
  | nil => rfl
  | cons x xs =>
    rw [run_seq, run_grp, run_seq, run_one_cons]
    split
    · rw [run_star]
      apply starK_none _ _ u xs
      · intro s' hs'
        exact lit_cont_none u _ k s' hs'
      · intro hx; exact h (by simp [hx])
    · rfl


/-! ### optional fields -/

/-- The text of an optional designator field: digits followed by the unit letter. -/
def fld (f : Option (List Char)) (u : Char) : List Char :=
  match f with
  | some ds => ds ++ [u]
  | none => []

def capAdd (cp : Caps) (n : DUnit) (f : Option (List Char)) : Caps :=
  match f with
  | some ds => capSet cp n ds
  | none => cp

/-- A present field is a non-empty run of ASCII digits. -/
def GoodF (f : Option (List Char)) : Prop := ∀ ds, f = some ds → Digs ds ∧ ds ≠ []

theorem GoodF.none : GoodF none := by intro ds h; cases h
theorem GoodF.some {ds : List Char} (h : Digs ds) (hne : ds ≠ []) : GoodF (some ds) := by
  intro ds' e; injection e with e; rw [← e]; exact ⟨h, hne⟩

theorem fnd_fld (f : Option (List Char)) (u : Char) (hu : isDig u = false) (hf : GoodF f) (tl : List Char) :
    fnd (fld f u ++ tl) = (match f with | some _ => some u | none => fnd tl) := by
  cases f with
  | none => rfl
  | some ds =>
    have := (hf ds rfl).1
    simp only [fld, List.append_assoc, List.singleton_append]
    rw [fnd_digs_append _ _ this, fnd_cons_nondig u tl hu]

theorem mem_fld (f : Option (List Char)) (u c : Char) (hf : GoodF f) (h : c ∈ fld f u) :
    isDig c = true ∨ c = u := by
  cases f with
  | none => cases h
  | some ds =>
    simp only [fld, List.mem_append, List.mem_singleton] at h
    rcases h with h | h
    · exact Or.inl ((hf ds rfl).1 c h)
    · exact Or.inr h

theorem opt_skip {β : Type} (r : Re) (s : List Char) (cp : Caps) (K : List Char → Caps → Option β)
    (h : r.run s cp K = none) : (Re.opt r).run s cp K = K s cp := by
  rw [run_opt, h]

theorem opt_take {β : Type} (r : Re) (s : List Char) (cp : Caps) (K : List Char → Caps → Option β) (x : β)
    (h : r.run s cp K = some x) : (Re.opt r).run s cp K = some x := by
  rw [run_opt, h]

theorem opt_digUnit_fld {β : Type} (n : DUnit) (u : Char) (hu : isDig u = false) (f : Option (List Char))
    (hf : GoodF f) (tl : List Char) (ht : fnd tl ≠ some u) (cp : Caps) (K : List Char → Caps → Option β) (x : β)
    (h : K tl (capAdd cp n f) = some x) :
    (Re.opt (digUnit n u)).run (fld f u ++ tl) cp K = some x := by
  cases f with
  | none =>
    rw [show fld none u ++ tl = tl from rfl, opt_skip _ _ _ _ (run_digUnit_none n u hu tl cp K ht)]
    exact h
  | some ds =>
    obtain ⟨h1, h2⟩ := hf ds rfl
    apply opt_take
    rw [show fld (some ds) u ++ tl = ds ++ u :: tl by simp [fld], run_digUnit n u hu ds tl cp K h1 h2]
    exact h

theorem opt_anyUnit_fld {β : Type} (n : DUnit) (u : Char) (hu : isDig u = false) (hn : u ≠ '\n')
    (f : Option (List Char)) (hf : GoodF f) (tl : List Char) (ht : u ∉ tl) (cp : Caps)
    (K : List Char → Caps → Option β) (x : β) (h : K tl (capAdd cp n f) = some x) :
    (Re.opt (anyUnit n u)).run (fld f u ++ tl) cp K = some x := by
  cases f with
  | none =>
    rw [show fld none u ++ tl = tl from rfl, opt_skip _ _ _ _ (run_anyUnit_none n u tl cp K ht)]
    exact h
  | some ds =>
    obtain ⟨h1, h2⟩ := hf ds rfl
    apply opt_take
    cases ds with
    | nil => exact absurd rfl h2
    | cons d0 body =>
      have hb : ∀ c, isDig c = false → c ∉ body := by
        intro c hc hm
        have := h1.tail c hm
        rw [hc] at this; cases this
      rw [show fld (some (d0 :: body)) u ++ tl = d0 :: (body ++ u :: tl) by simp [fld],
        run_anyUnit n u hn d0 body tl cp K h1.head (hb u hu) (hb '\n' (by decide)) ht]
      exact h

/-! ### which characters a regex can consume at all -/

def accepts : Re → Char → Bool
  | .eps, _ => false
  | .one k, c => k.test c
  | .star k, c => k.test c
  | .plus k, c => k.test c
  | .opt r, c => accepts r c
  | .seq a b, c => accepts a c || accepts b c
  | .grp _ r, c => accepts r c

theorem starK_sound {β : Type} (p : Char → Bool) (K : List Char → Option β) (s : List Char) (x : β)
    (h : starK p s K = some x) :
    ∃ pre s', s = pre ++ s' ∧ (∀ c ∈ pre, p c = true) ∧ K s' = some x := by
  induction s generalizing x with
  | nil => exact ⟨[], [], rfl, (by intro c hc; cases hc), h⟩
  | cons c cs ih =>
    simp only [starK] at h
    by_cases hc : p c = true
    · simp only [hc, ↓reduceIte] at h
      cases hs : starK p cs K with
      | some y =>
        rw [hs] at h
        obtain ⟨pre, s', e, hp, hk⟩ := ih y hs
        refine ⟨c :: pre, s', by simp [e], ?_, by rw [hk]; exact h⟩
        intro a ha
        rcases List.mem_cons.mp ha with rfl | ha
        · exact hc
        · exact hp a ha
      | none =>
        rw [hs] at h
        exact ⟨[], c :: cs, rfl, (by intro a ha; cases ha), h⟩
    · simp only [hc] at h
      exact ⟨[], c :: cs, rfl, (by intro a ha; cases ha), h⟩

theorem run_sound {β : Type} (r : Re) : ∀ (s : List Char) (cp : Caps) (k : List Char → Caps → Option β) (x : β),
    r.run s cp k = some x →
    ∃ pre s' cp', s = pre ++ s' ∧ (∀ c ∈ pre, accepts r c = true) ∧ k s' cp' = some x := by
  induction r with
  | eps => intro s cp k x h; exact ⟨[], s, cp, rfl, (by intro c hc; cases hc), h⟩
  | one c =>
    intro s cp k x h
    cases s with
    | nil => cases h
    | cons y ys =>
      rw [run_one_cons] at h
      by_cases hy : c.test y = true
      · rw [if_pos hy] at h
        refine ⟨[y], ys, cp, rfl, ?_, h⟩
        intro a ha; rw [List.mem_singleton.mp ha]; exact hy
      · rw [if_neg hy] at h; cases h
  | star c =>
    intro s cp k x h
    rw [run_star] at h
    obtain ⟨pre, s', e, hp, hk⟩ := starK_sound _ _ _ _ h
    exact ⟨pre, s', cp, e, hp, hk⟩
  | plus c =>
    intro s cp k x h
    cases s with
    | nil => cases h
    | cons y ys =>
      rw [run_plus_cons] at h
      by_cases hy : c.test y = true
      · rw [if_pos hy] at h
        obtain ⟨pre, s', e, hp, hk⟩ := starK_sound _ _ _ _ h
        refine ⟨y :: pre, s', cp, by simp [e], ?_, hk⟩
        intro a ha
        rcases List.mem_cons.mp ha with rfl | ha
        · exact hy
        · exact hp a ha
      · rw [if_neg hy] at h; cases h
  | opt r ih =>
    intro s cp k x h
    rw [run_opt] at h
    cases hr : r.run s cp k with
    | some y =>
      rw [hr] at h
      obtain ⟨pre, s', cp', e, hp, hk⟩ := ih s cp k y hr
      exact ⟨pre, s', cp', e, hp, by rw [hk]; exact h⟩
    | none =>
      rw [hr] at h
      exact ⟨[], s, cp, rfl, (by intro a ha; cases ha), h⟩
  | seq a b iha ihb =>
    intro s cp k x h
    rw [run_seq] at h
    obtain ⟨pre1, s1, cp1, e1, hp1, hk1⟩ := iha s cp _ x h
    obtain ⟨pre2, s2, cp2, e2, hp2, hk2⟩ := ihb s1 cp1 k x hk1
    refine ⟨pre1 ++ pre2, s2, cp2, by rw [e1, e2, List.append_assoc], ?_, hk2⟩
    intro c hc
    simp only [accepts, Bool.or_eq_true]
    rcases List.mem_append.mp hc with hc | hc
    · exact Or.inl (hp1 c hc)
    · exact Or.inr (hp2 c hc)
  | grp n r ih =>
    intro s cp k x h
    rw [run_grp] at h
    obtain ⟨pre, s', cp', e, hp, hk⟩ := ih s cp _ x h
    exact ⟨pre, s', _, e, hp, hk⟩

theorem atEnd_cases (s : List Char) (h : atEnd s = true) : s = [] ∨ s = ['\n'] := by
  match s, h with
  | [], _ => exact Or.inl rfl
  | [c], h => simp only [atEnd, beq_iff_eq] at h; exact Or.inr (by rw [h])

/-- A string containing a character the regex can never consume is not matched by `^r$`. -/
theorem search_none_of_not_accepts (r : Re) (s : List Char) (c : Char) (hc : c ∈ s) (hn : c ≠ '\n')
    (ha : accepts r c = false) : r.search s = none := by
  cases h : r.search s with
  | none => rfl
  | some cp =>
    exfalso
    unfold Re.search at h
    obtain ⟨pre, s', cp', e, hp, hk⟩ := run_sound r s capEmpty _ cp h
    by_cases he : atEnd s' = true
    · have hmem : c ∈ pre := by
        rw [e] at hc
        rcases List.mem_append.mp hc with hc | hc
        · exact hc
        · rcases atEnd_cases s' he with rfl | rfl
          · cases hc
          · exact absurd (List.mem_singleton.mp hc) hn
      have := hp c hmem
      rw [ha] at this; cases this
    · simp [he] at hk

end IsoDT.Lemmas.DurText
