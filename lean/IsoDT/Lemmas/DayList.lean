/-
  IsoDT.Lemmas.DayList — the day list that `iter_months_days` returns (`Model.iterMonthsDays`) versus
  the indexed month table that `Model.Calendar` walks: counting along the list (`nthDay`, `dayPos`)
  is the same as `walkFwd` / `posOf` on the table, for EVERY integer argument.  Also the generic
  scanning loops (count up to a target / look for an element) that the Python conversions run over
  such lists, with their closed forms.  Nothing here depends on the regenerated `Gen/Algo.lean`.
-/
import IsoDT.Lemmas.Conv
import IsoDT.Model.CalendarAux

namespace IsoDT.Lemmas
open IsoDT IsoDT.Model

/-! ### ranges -/

theorem rangeUp_length (a : Int) (n : Nat) : (rangeUp a n).length = n := by
  induction n generalizing a with
  | zero => rfl
  | succ n ih => simp [rangeUp, ih]

theorem mem_rangeUp (a : Int) (n : Nat) (x : Int) (h1 : a ≤ x) (h2 : x < a + n) : x ∈ rangeUp a n := by
  induction n generalizing a with
  | zero => omega
  | succ n ih =>
    simp only [rangeUp, List.mem_cons]
    by_cases h : x = a
    · exact Or.inl h
    · exact Or.inr (ih (a + 1) (by omega) (by omega))

/-! ### the day list and positions in it -/

/-- The forward day list of an indexed month table: what `iter_months_days(year)` returns. -/
def dayListOf (t : List (Int × Int)) : List (Int × Int) :=
  t.flatMap fun p => monthDays p.1 (upTo 1 (p.2 + 1))

def dayList (m : Mode) (lp : Bool) : List (Int × Int) := dayListOf (indexed m lp)

/-- The reverse day list: what `iter_months_days(year, in_reverse=True)` returns. -/
def revListOf (t : List (Int × Int)) : List (Int × Int) :=
  t.reverse.flatMap fun p => monthDays p.1 (downTo p.2 0)

theorem iterMonthsDays_fwd (m : Mode) (lp : Bool) :
    iterMonthsDays m lp none none false = some (dayList m lp) := by
  simp [iterMonthsDays, dayList, dayListOf]

theorem iterMonthsDays_rev (m : Mode) (lp : Bool) :
    iterMonthsDays m lp none none true = some (revListOf (indexed m lp)) := by
  simp [iterMonthsDays, revListOf]

/-- The `n`-th element (1-based) of a day list. -/
def nthDay (l : List (Int × Int)) (n : Int) : Option (Int × Int) :=
  if 1 ≤ n then l[(n - 1).toNat]? else none

/-- The 1-based position of the first `(mo, d)` in a day list. -/
def dayPos : List (Int × Int) → Int → Int → Option Int
  | [], _, _ => none
  | p :: rest, mo, d => if p.1 = mo ∧ p.2 = d then some 1 else (dayPos rest mo d).map (· + 1)

theorem nthDay_none (l : List (Int × Int)) (n : Int) (h : ¬ (1 ≤ n ∧ n ≤ l.length)) : nthDay l n = none := by
  unfold nthDay
  by_cases h1 : 1 ≤ n
  · have : l.length ≤ (n - 1).toNat := by omega
    simp only [h1, ↓reduceIte, List.getElem?_eq_none this]
  · simp only [h1, ↓reduceIte]

theorem nthDay_drop (l : List (Int × Int)) (k : Nat) (n : Int) (h : 1 ≤ n) :
    nthDay (l.drop k) n = nthDay l (k + n) := by
  unfold nthDay
  have h' : 1 ≤ (k : Int) + n := by omega
  simp only [h, h', ↓reduceIte, List.getElem?_drop]
  congr 1; omega

theorem dayPos_some (l : List (Int × Int)) (mo d i : Int) (h : dayPos l mo d = some i) :
    1 ≤ i ∧ i ≤ l.length ∧ l[(i - 1).toNat]? = some (mo, d) := by
  induction l generalizing i with
  | nil => simp [dayPos] at h
  | cons p rest ih =>
    simp only [dayPos] at h
    by_cases hp : p.1 = mo ∧ p.2 = d
    · simp only [hp, and_self, ↓reduceIte, Option.some.injEq] at h
      subst h
      obtain ⟨a, b⟩ := p
      simp only at hp
      simp only [hp.1, hp.2, List.length_cons]
      refine ⟨by omega, by omega, ?_⟩
      simp
    · simp only [hp, ↓reduceIte] at h
      cases hr : dayPos rest mo d with
      | none => simp [hr] at h
      | some j =>
        simp only [hr, Option.map_some, Option.some.injEq] at h
        obtain ⟨h1, h2, h3⟩ := ih j hr
        subst h
        refine ⟨by omega, by simp only [List.length_cons]; omega, ?_⟩
        have e : (j + 1 - 1).toNat = (j - 1).toNat + 1 := by omega
        rw [e, List.getElem?_cons_succ]; exact h3

theorem dayPos_of_mem (l : List (Int × Int)) (mo d : Int) (h : (mo, d) ∈ l) : ∃ i, dayPos l mo d = some i := by
  induction l with
  | nil => simp at h
  | cons p rest ih =>
    simp only [dayPos]
    by_cases hp : p.1 = mo ∧ p.2 = d
    · exact ⟨1, by simp [hp]⟩
    · simp only [hp, ↓reduceIte]
      have : (mo, d) ∈ rest := by
        rcases List.mem_cons.mp h with h | h
        · exfalso; apply hp; rw [← h]; exact ⟨rfl, rfl⟩
        · exact h
      obtain ⟨i, hi⟩ := ih this
      exact ⟨i + 1, by simp [hi]⟩

theorem mem_dayListOf (t : List (Int × Int)) (mo len d : Int) (h : (mo, len) ∈ t) (h1 : 1 ≤ d) (h2 : d ≤ len) :
    (mo, d) ∈ dayListOf t := by
  unfold dayListOf
  refine List.mem_flatMap.mpr ⟨(mo, len), h, ?_⟩
  unfold monthDays upTo
  exact List.mem_map.mpr ⟨d, mem_rangeUp 1 _ d h1 (by omega), rfl⟩

/-! ### bounds on the table walks -/

theorem posOf_some_mem (t : List (Int × Int)) (mo d n : Int) (h : posOf t mo d = some n) :
    ∃ len, (mo, len) ∈ t ∧ 1 ≤ d ∧ d ≤ len := by
  induction t generalizing n with
  | nil => simp [posOf] at h
  | cons p rest ih =>
    obtain ⟨mn, len⟩ := p
    simp only [posOf] at h
    by_cases hp : mn = mo
    · subst hp
      simp only [↓reduceIte] at h
      by_cases hd : 1 ≤ d ∧ d ≤ len
      · exact ⟨len, by simp, hd.1, hd.2⟩
      · simp [hd] at h
    · simp only [hp, ↓reduceIte] at h
      cases hr : posOf rest mo d with
      | none => simp [hr] at h
      | some j =>
        obtain ⟨len', hm, h1, h2⟩ := ih j hr
        exact ⟨len', List.mem_cons_of_mem _ hm, h1, h2⟩

def sumLens : List (Int × Int) → Int
  | [] => 0
  | p :: rest => p.2 + sumLens rest

theorem sumLens_nonneg (t : List (Int × Int)) (hnn : ∀ p ∈ t, 0 ≤ p.2) : 0 ≤ sumLens t := by
  induction t with
  | nil => simp [sumLens]
  | cons p rest ih =>
    have := hnn p (by simp)
    have := ih (fun q hq => hnn q (List.mem_cons_of_mem _ hq))
    simp only [sumLens]; omega

theorem walkFwd_some_bound (t : List (Int × Int)) (hnn : ∀ p ∈ t, 0 ≤ p.2) (rem : Int) (x : Int × Int)
    (h : walkFwd t rem = some x) : 1 ≤ rem ∧ rem ≤ sumLens t := by
  induction t generalizing rem with
  | nil => simp [walkFwd] at h
  | cons p rest ih =>
    obtain ⟨mn, len⟩ := p
    have hl : 0 ≤ len := hnn (mn, len) (by simp)
    have hr := sumLens_nonneg rest (fun q hq => hnn q (List.mem_cons_of_mem _ hq))
    simp only [walkFwd] at h
    simp only [sumLens]
    by_cases c1 : rem ≤ len
    · simp only [c1, ↓reduceIte] at h
      by_cases c2 : 1 ≤ rem
      · omega
      · simp [c2] at h
    · simp only [c1, ↓reduceIte] at h
      have := ih (fun q hq => hnn q (List.mem_cons_of_mem _ hq)) _ h
      omega

/-! ### one pass over the day list checks it against the table walks -/

def checkPos (t : List (Int × Int)) : List (Int × Int) → Int → Bool
  | [], _ => true
  | p :: rest, c => posOf t p.1 p.2 == some c && checkPos t rest (c + 1)

theorem checkPos_spec (t l : List (Int × Int)) (c : Int) (h : checkPos t l c = true) (i : Nat) (p : Int × Int)
    (hp : l[i]? = some p) : posOf t p.1 p.2 = some (c + i) := by
  induction l generalizing c i with
  | nil => simp at hp
  | cons q rest ih =>
    simp only [checkPos, Bool.and_eq_true, beq_iff_eq] at h
    cases i with
    | zero => simp only [List.getElem?_cons_zero, Option.some.injEq] at hp; subst hp; simpa using h.1
    | succ i =>
      simp only [List.getElem?_cons_succ] at hp
      have := ih (c + 1) h.2 i hp
      rw [this]; congr 1; simp only [Int.natCast_add, Int.cast_ofNat_Int]; omega

def checkWalk (t : List (Int × Int)) : List (Int × Int) → Int → Bool
  | [], _ => true
  | p :: rest, c => walkFwd t c == some p && checkWalk t rest (c + 1)

theorem checkWalk_spec (t l : List (Int × Int)) (c : Int) (h : checkWalk t l c = true) (i : Nat) (hi : i < l.length) :
    walkFwd t (c + i) = l[i]? := by
  induction l generalizing c i with
  | nil => simp at hi
  | cons q rest ih =>
    simp only [checkWalk, Bool.and_eq_true, beq_iff_eq] at h
    cases i with
    | zero => simpa using h.1
    | succ i =>
      simp only [List.getElem?_cons_succ]
      have := ih (c + 1) h.2 i (by simpa using hi)
      rw [← this]; congr 1; simp only [Int.natCast_add, Int.cast_ofNat_Int]; omega

/-- Everything the kernel has to evaluate about the eight day lists, in one pass each. -/
theorem dayList_fin : ∀ m ∈ Mode.all, ∀ lp : Bool,
    checkPos (indexed m lp) (dayList m lp) 1 = true ∧
    checkWalk (indexed m lp) (dayList m lp) 1 = true ∧
    (∀ p ∈ indexed m lp, 0 ≤ p.2) ∧
    sumLens (indexed m lp) = (dayList m lp).length ∧
    ((dayList m lp).length : Int) = (if lp then (calOf m).daysInYearLeap else (calOf m).daysInYear) := by
  decide +kernel

theorem dayList_length (m : Mode) (y : Int) : ((dayList m (isLeapYear y)).length : Int) = daysInYear m y := by
  rw [(dayList_fin m (mode_mem_all m) _).2.2.2.2]; rfl

/-- `get_calendar_date_from_ordinal_date`'s table walk is indexing the day list, for every integer. -/
theorem walkFwd_eq_nthDay (m : Mode) (lp : Bool) (doy : Int) :
    walkFwd (indexed m lp) doy = nthDay (dayList m lp) doy := by
  obtain ⟨_, hw, hnn, hs, _⟩ := dayList_fin m (mode_mem_all m) lp
  by_cases h : 1 ≤ doy ∧ doy ≤ (dayList m lp).length
  · have := checkWalk_spec _ _ 1 hw (doy - 1).toNat (by omega)
    have e : (1 : Int) + ((doy - 1).toNat : Nat) = doy := by omega
    rw [e] at this
    rw [this]; unfold nthDay; simp [h.1]
  · rw [nthDay_none _ _ h]
    cases hx : walkFwd (indexed m lp) doy with
    | none => rfl
    | some x =>
      have := walkFwd_some_bound _ hnn _ _ hx
      omega

/-- `get_ordinal_date_from_calendar_date`'s table walk is searching the day list, for all integers. -/
theorem posOf_eq_dayPos (m : Mode) (lp : Bool) (mo d : Int) :
    posOf (indexed m lp) mo d = dayPos (dayList m lp) mo d := by
  obtain ⟨hp, _⟩ := dayList_fin m (mode_mem_all m) lp
  cases hd : dayPos (dayList m lp) mo d with
  | some i =>
    obtain ⟨h1, h2, h3⟩ := dayPos_some _ _ _ _ hd
    have := checkPos_spec _ _ 1 hp _ _ h3
    rw [this]; congr 1; omega
  | none =>
    cases hx : posOf (indexed m lp) mo d with
    | none => rfl
    | some n =>
      obtain ⟨len, hm, h1, h2⟩ := posOf_some_mem _ _ _ _ hx
      obtain ⟨i, hi⟩ := dayPos_of_mem _ mo d (mem_dayListOf _ mo len d hm h1 h2)
      unfold dayList at hd
      rw [hd] at hi; simp at hi

/-- The first three days of the reverse list are what `walkRev` finds (the week-start routine
    looks at most three days back into the previous year). -/
theorem revList_fin : ∀ m ∈ Mode.all, ∀ lp : Bool, 3 ≤ (revListOf (indexed m lp)).length ∧ ∀ j : Fin 3,
    (revListOf (indexed m lp))[j.val]? = walkRev (indexed m lp).reverse ((j.val : Int) + 1) := by
  decide +kernel

theorem revList_walkRev (m : Mode) (lp : Bool) (k : Int) (h1 : 1 ≤ k) (h2 : k ≤ 3) :
    (revListOf (indexed m lp))[(k - 1).toNat]? = walkRev (indexed m lp).reverse k := by
  have := (revList_fin m (mode_mem_all m) lp).2 ⟨(k - 1).toNat, by omega⟩
  simp only at this
  rw [this]; congr 1; omega

/-- Searching the rest of a year's day list: a date occurs once, so it is found iff it lies in the rest. -/
theorem dayPos_drop (m : Mode) (lp : Bool) (k : Nat) (mo d : Int) :
    dayPos ((dayList m lp).drop k) mo d =
      match dayPos (dayList m lp) mo d with
      | some od => if (k : Int) < od then some (od - k) else none
      | none => none := by
  obtain ⟨hp, _⟩ := dayList_fin m (mode_mem_all m) lp
  cases hd : dayPos ((dayList m lp).drop k) mo d with
  | some i =>
    obtain ⟨h1, h2, h3⟩ := dayPos_some _ _ _ _ hd
    rw [List.getElem?_drop] at h3
    have := checkPos_spec _ _ 1 hp _ _ h3
    rw [posOf_eq_dayPos] at this
    simp only [this]
    have c : (k : Int) < 1 + ((k + (i - 1).toNat : Nat) : Int) := by omega
    simp only [c, ↓reduceIte]
    congr 1; omega
  | none =>
    cases hx : dayPos (dayList m lp) mo d with
    | none => rfl
    | some od =>
      simp only
      by_cases c : (k : Int) < od
      · exfalso
        obtain ⟨h1, h2, h3⟩ := dayPos_some _ _ _ _ hx
        have hm : (mo, d) ∈ (dayList m lp).drop k := by
          apply List.mem_iff_getElem?.mpr
          refine ⟨(od - 1).toNat - k, ?_⟩
          rw [List.getElem?_drop]
          have e : k + ((od - 1).toNat - k) = (od - 1).toNat := by omega
          rw [e]; exact h3
        obtain ⟨i, hi⟩ := dayPos_of_mem _ mo d hm
        rw [hd] at hi; simp at hi
      · simp only [c, ↓reduceIte]

/-- The (month, day) pairs a week-year can start on: 1..4 January, 26..31 December. -/
def startDay (c : Fin 10) : Int × Int := if c.val < 4 then (1, (c.val : Int) + 1) else (12, (c.val : Int) + 22)

/-- `iter_months_days(year, month_of_year=mo, day_of_month=d)` from such a day (or the day after it)
    is the rest of the year's day list. -/
def partialOk (m : Mode) (lp : Bool) (mo d : Int) : Option Int → Bool
  | some so =>
    iterMonthsDays m lp (some mo) (some d) false == some ((dayList m lp).drop (so - 1).toNat) &&
    iterMonthsDays m lp (some mo) (some (d + 1)) false == some ((dayList m lp).drop so.toNat)
  | none => true

theorem partial_fin : ∀ m ∈ Mode.all, ∀ lp : Bool, ∀ c : Fin 10,
    partialOk m lp (startDay c).1 (startDay c).2 (dayPos (dayList m lp) (startDay c).1 (startDay c).2) = true := by
  decide +kernel

theorem partial_lists (m : Mode) (lp : Bool) (mo d so : Int)
    (hs : (mo = 1 ∧ 1 ≤ d ∧ d ≤ 4) ∨ (mo = 12 ∧ 26 ≤ d ∧ d ≤ 31))
    (hp : dayPos (dayList m lp) mo d = some so) :
    iterMonthsDays m lp (some mo) (some d) false = some ((dayList m lp).drop (so - 1).toNat) ∧
    iterMonthsDays m lp (some mo) (some (d + 1)) false = some ((dayList m lp).drop so.toNat) := by
  have key : ∃ c : Fin 10, startDay c = (mo, d) := by
    rcases hs with ⟨h1, h2, h3⟩ | ⟨h1, h2, h3⟩
    · refine ⟨⟨(d - 1).toNat, by omega⟩, ?_⟩
      have : (d - 1).toNat < 4 := by omega
      simp only [startDay, this, ↓reduceIte, h1, Prod.mk.injEq, true_and]; omega
    · refine ⟨⟨(d - 22).toNat, by omega⟩, ?_⟩
      have : ¬ (d - 22).toNat < 4 := by omega
      simp only [startDay, this, ↓reduceIte, h1, Prod.mk.injEq, true_and]; omega
  obtain ⟨c, hc⟩ := key
  have := partial_fin m (mode_mem_all m) lp c
  rw [hc] at this
  simp only [hp, partialOk, Bool.and_eq_true, beq_iff_eq] at this
  exact this

/-- The shape of a week-year start (besides being a valid date). -/
theorem weekStartCal_shape (m : Mode) (y : Int) :
    ((weekStartCal m y).2.1 = 1 ∧ 1 ≤ (weekStartCal m y).2.2 ∧ (weekStartCal m y).2.2 ≤ 4) ∨
    ((weekStartCal m y).2.1 = 12 ∧ 26 ≤ (weekStartCal m y).2.2 ∧ (weekStartCal m y).2.2 ≤ 31) := by
  rw [weekStartCal_unfold]
  by_cases h0 : y = 2000
  · simp [h0]
  · have hc : 1 ≤ codeDow m y ∧ codeDow m y ≤ 7 := by unfold codeDow; split <;> omega
    simp only [h0, ↓reduceIte]
    by_cases h1 : codeDow m y = 1
    · simp [h1]
    · by_cases h4 : codeDow m y > 4
      · simp only [h1, h4, ↓reduceIte]; left; exact ⟨trivial, by omega, by omega⟩
      · simp only [h1, h4, ↓reduceIte]
        rw [walkRev_spec m _ _ (by omega) (by omega)]
        have := monthLenB_bounds m (isLeapYear (y - 1)) 12 (by omega) (by omega)
        right; dsimp only; exact ⟨rfl, by omega, by omega⟩

/-! ### the scanning loops of the conversions, in general -/

/-- Count along a day list until the counter reaches `target`; `k` takes over at the end. -/
def scanCount {β : Type} (f : Int × Int → β) (target : Int) (k : Int → Option β) :
    List (Int × Int) → Int → Option β
  | [], c => k c
  | p :: rest, c => if c + 1 = target then some (f p) else scanCount f target k rest (c + 1)

theorem scanCount_eq {β : Type} (f : Int × Int → β) (t : Int) (k : Int → Option β)
    (l : List (Int × Int)) (c : Int) :
    scanCount f t k l c =
      if c < t ∧ t ≤ c + l.length then (nthDay l (t - c)).map f else k (c + l.length) := by
  induction l generalizing c with
  | nil =>
    have : ¬ (c < t ∧ t ≤ c + ((([] : List (Int × Int)).length : Nat) : Int)) := by
      simp only [List.length_nil]; omega
    simp only [scanCount, this, ↓reduceIte]; simp
  | cons p rest ih =>
    simp only [scanCount, ih, List.length_cons]
    by_cases h1 : c + 1 = t
    · have : c < t ∧ t ≤ c + ((rest.length + 1 : Nat) : Int) := by omega
      simp only [h1, this, and_self, ↓reduceIte, nthDay]
      have e : t - c = 1 := by omega
      simp [e]
    · simp only [h1, ↓reduceIte]
      by_cases h2 : c < t ∧ t ≤ c + ((rest.length + 1 : Nat) : Int)
      · have h3 : c + 1 < t ∧ t ≤ c + 1 + (rest.length : Int) := by omega
        simp only [h2, h3, and_self, ↓reduceIte, nthDay]
        have a1 : 1 ≤ t - (c + 1) := by omega
        have a2 : 1 ≤ t - c := by omega
        simp only [a1, a2, ↓reduceIte]
        have e : (t - c - 1).toNat = (t - (c + 1) - 1).toNat + 1 := by omega
        rw [e, List.getElem?_cons_succ]
      · have h3 : ¬ (c + 1 < t ∧ t ≤ c + 1 + (rest.length : Int)) := by omega
        simp only [h2, h3, ↓reduceIte]
        congr 1; omega

/-- Count along a day list until `(mo, d)` is met (and the guard `G` holds). -/
def scanElem {β : Type} (G : Prop) [Decidable G] (g : Int → β) (mo d : Int) (k : Int → Option β) :
    List (Int × Int) → Int → Option β
  | [], c => k c
  | p :: rest, c =>
    if G ∧ p.1 = mo ∧ p.2 = d then some (g (c + 1)) else scanElem G g mo d k rest (c + 1)

theorem scanElem_eq {β : Type} (G : Prop) [Decidable G] (hG : G) (g : Int → β) (mo d : Int)
    (k : Int → Option β) (l : List (Int × Int)) (c : Int) :
    scanElem G g mo d k l c =
      match dayPos l mo d with
      | some i => some (g (c + i))
      | none => k (c + l.length) := by
  induction l generalizing c with
  | nil => simp [scanElem, dayPos]
  | cons p rest ih =>
    have e1 : c + 1 + (rest.length : Int) = c + ((rest.length + 1 : Nat) : Int) := by omega
    by_cases h : p.1 = mo ∧ p.2 = d
    · have h' : G ∧ p.1 = mo ∧ p.2 = d := ⟨hG, h⟩
      simp only [scanElem, dayPos, h', h, and_self, ↓reduceIte]
    · have h' : ¬ (G ∧ p.1 = mo ∧ p.2 = d) := fun x => h x.2
      simp only [scanElem, dayPos, h, and_false, ↓reduceIte, ih, List.length_cons]
      cases dayPos rest mo d with
      | none => simp only [Option.map_none, e1]
      | some i =>
        have e2 : c + 1 + i = c + (i + 1) := by omega
        simp only [Option.map_some, e2]

theorem scanElem_off {β : Type} (G : Prop) [Decidable G] (hG : ¬ G) (g : Int → β) (mo d : Int)
    (k : Int → Option β) (l : List (Int × Int)) (c : Int) :
    scanElem G g mo d k l c = k (c + l.length) := by
  induction l generalizing c with
  | nil => simp [scanElem]
  | cons p rest ih =>
    have e1 : c + 1 + (rest.length : Int) = c + ((rest.length + 1 : Nat) : Int) := by omega
    have h' : ¬ (G ∧ p.1 = mo ∧ p.2 = d) := fun x => hG x.1
    rw [scanElem, if_neg h', ih, List.length_cons, e1]

end IsoDT.Lemmas
