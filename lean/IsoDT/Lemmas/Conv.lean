/-
  IsoDT.Lemmas.Conv — the six conversions of `Model.Calendar` are total on valid dates, give
  valid dates and preserve the Spec day number.
-/
import IsoDT.Lemmas.Week

namespace IsoDT.Lemmas
open IsoDT IsoDT.Model

theorem dby_strictMono (m : Mode) (a b : Int) (h : a < b) : Spec.dby m a < Spec.dby m b := by
  have := dby_mono m a b (by omega); omega

/-- A day number lies in the span of exactly one year. -/
theorem year_unique (m : Mode) (a b n : Int)
    (ha : Spec.dby m a ≤ n ∧ n < Spec.dby m (a + 1)) (hb : Spec.dby m b ≤ n ∧ n < Spec.dby m (b + 1)) :
    a = b := by
  rcases Int.lt_trichotomy a b with h | h | h
  · have := dby_mono m (a + 1) b (by omega); omega
  · exact h
  · have := dby_mono m (b + 1) a (by omega); omega

/-! ### ordinal ↔ calendar -/

theorem calFromOrd_spec (m : Mode) (y doy : Int) (h : Spec.ValidOrd m y doy) :
    ∃ mo d, calFromOrd m y doy = some (y, mo, d) ∧ Spec.ValidCal m y mo d ∧
      Spec.dayNumCal m y mo d = Spec.dayNumOrd m y doy := by
  obtain ⟨h1, h2⟩ := h
  obtain ⟨mo, d, heq, hm1, hm2, hd1, hd2, hsum⟩ :=
    walkFwd_spec m (isLeapYear y) doy h1 (by rw [yearLenB_leapYear]; exact h2)
  refine ⟨mo, d, ?_, ?_, ?_⟩
  · unfold calFromOrd; rw [heq]; rfl
  · rw [monthLenB_leapYear] at hd2; exact ⟨hm1, hm2, hd1, hd2⟩
  · rw [dbmB_leapYear] at hsum
    unfold Spec.dayNumCal Spec.dayNumOrd; omega

theorem posOf_valid (m : Mode) (y mo d : Int) (h : Spec.ValidCal m y mo d) :
    posOf (indexed m (isLeapYear y)) mo d = some (Spec.dbm m y mo + d) := by
  obtain ⟨h1, h2, h3, h4⟩ := h
  rw [← dbmB_leapYear]
  exact posOf_spec m _ mo d h1 h2 h3 (by rw [monthLenB_leapYear]; exact h4)

theorem ordFromCal_spec (m : Mode) (y mo d : Int) (h : Spec.ValidCal m y mo d) :
    ∃ doy, ordFromCal m y mo d = some (y, doy) ∧ Spec.ValidOrd m y doy ∧
      Spec.dayNumOrd m y doy = Spec.dayNumCal m y mo d := by
  refine ⟨Spec.dbm m y mo + d, ?_, ?_, ?_⟩
  · unfold ordFromCal; rw [posOf_valid m y mo d h]; rfl
  · obtain ⟨h1, h2, h3, h4⟩ := h
    have := dbmB_range m (Spec.leap m y) mo h1 h2
    unfold Spec.ValidOrd Spec.dbm Spec.monthLen Spec.yearLen at *; omega
  · unfold Spec.dayNumOrd Spec.dayNumCal; omega

/-! ### week-year starts -/

theorem weekStartCal_year (m : Mode) (y : Int) :
    (weekStartCal m y).1 = y ∨ (weekStartCal m y).1 = y - 1 := by
  obtain ⟨hv, hn⟩ := weekStartCal_spec m y
  have hr := dayNumCal_range m _ _ _ hv
  have hb := weekYearStart_bounds m y
  have h1 := dby_succ m y
  have h2 := dby_succ m (y - 1)
  have h3 := yearLen_bounds m y
  have h4 := yearLen_bounds m (y - 1)
  have e : y - 1 + 1 = y := by omega
  rw [e] at h2
  by_cases hc : Spec.dby m y ≤ Spec.weekYearStart m y
  · left
    exact year_unique m _ y (Spec.weekYearStart m y) (by omega) (by omega)
  · right
    exact year_unique m _ (y - 1) (Spec.weekYearStart m y) (by omega) (by rw [e]; omega)

theorem ordWeekStart_eq (m : Mode) (y : Int) :
    ordWeekStart m y = ((weekStartCal m y).1,
      Spec.dbm m (weekStartCal m y).1 (weekStartCal m y).2.1 + (weekStartCal m y).2.2) := by
  obtain ⟨hv, _⟩ := weekStartCal_spec m y
  have hp := posOf_valid m _ _ _ hv
  unfold ordWeekStart
  simp only [hp]

theorem ordWeekStart_spec (m : Mode) (y : Int) :
    (ordWeekStart m y).1 = (weekStartCal m y).1 ∧
    Spec.ValidOrd m (ordWeekStart m y).1 (ordWeekStart m y).2 ∧
    Spec.dayNumOrd m (ordWeekStart m y).1 (ordWeekStart m y).2 = Spec.weekYearStart m y := by
  obtain ⟨hv, hn⟩ := weekStartCal_spec m y
  rw [ordWeekStart_eq]
  dsimp only
  refine ⟨rfl, ?_, ?_⟩
  · obtain ⟨h1, h2, h3, h4⟩ := hv
    have := dbmB_range m (Spec.leap m (weekStartCal m y).1) _ h1 h2
    unfold Spec.ValidOrd Spec.dbm Spec.monthLen Spec.yearLen at *; omega
  · rw [← hn]; unfold Spec.dayNumOrd Spec.dayNumCal; omega

theorem weeksInYear_eq (m : Mode) (y : Int) : weeksInYear m y = Spec.weeksInYear m y := by
  obtain ⟨hy1, hv1, hn1⟩ := ordWeekStart_spec m y
  obtain ⟨hy2, hv2, hn2⟩ := ordWeekStart_spec m (y + 1)
  have ha := weekStartCal_year m y
  have hb := weekStartCal_year m (y + 1)
  have hle : (ordWeekStart m y).1 ≤ (ordWeekStart m (y + 1)).1 := by
    have hs := weekYearStart_strictMono m y
    have r1 := dayNumOrd_range m _ _ hv1
    have r2 := dayNumOrd_range m _ _ hv2
    by_cases hlt : (ordWeekStart m (y + 1)).1 < (ordWeekStart m y).1
    · have := dby_mono m ((ordWeekStart m (y + 1)).1 + 1) (ordWeekStart m y).1 (by omega)
      omega
    · omega
  unfold weeksInYear
  simp only [daysInWeek_eq]
  rw [sumYears_eq m _ _ hle]
  unfold Spec.weeksInYear
  rw [← hn1, ← hn2]
  unfold Spec.dayNumOrd
  congr 1; omega

/-! ### week → calendar -/

theorem calFromWeek_spec (m : Mode) (y w d : Int) (h : Spec.ValidWeek m y w d) :
    ∃ cy mo cd, calFromWeek m y w d = some (cy, mo, cd) ∧ Spec.ValidCal m cy mo cd ∧
      Spec.dayNumCal m cy mo cd = Spec.dayNumWeek m y w d := by
  obtain ⟨hw1, hw2, hd1, hd2⟩ := h
  obtain ⟨hv, hn⟩ := weekStartCal_spec m y
  have hp := posOf_valid m _ _ _ hv
  have hyr := weekStartCal_year m y
  have hsucc := weekYearStart_succ m y
  have hb1 := weekYearStart_bounds m (y + 1)
  have hb0 := weekYearStart_bounds m y
  have hrange := dayNumCal_range m _ _ _ hv
  generalize hs : weekStartCal m y = s at *
  obtain ⟨sy, smo, sd⟩ := s
  simp only at hv hn hp hyr hrange
  unfold calFromWeek
  simp only [daysInWeek_eq, hs, hp]
  by_cases hn0 : (w - 1) * 7 + d - 1 = 0
  · simp only [hn0, ↓reduceIte]
    refine ⟨sy, smo, sd, rfl, hv, ?_⟩
    rw [hn]; unfold Spec.dayNumWeek; omega
  · have hpos : ¬ (w - 1) * 7 + d - 1 < 0 := by omega
    simp only [hn0, hpos, ↓reduceIte]
    have hso : Spec.dayNumOrd m sy (Spec.dbm m sy smo + sd) = Spec.weekYearStart m y := by
      rw [← hn]; unfold Spec.dayNumOrd Spec.dayNumCal; omega
    have hdy := dby_succ m sy
    have hyl := yearLen_bounds m sy
    simp only [daysInYear_eq]
    by_cases ht : Spec.dbm m sy smo + sd + ((w - 1) * 7 + d - 1) ≤ Spec.yearLen m sy
    · simp only [ht, ↓reduceIte]
      have hvo : Spec.ValidOrd m sy (Spec.dbm m sy smo + sd + ((w - 1) * 7 + d - 1)) := by
        unfold Spec.ValidOrd Spec.dayNumOrd Spec.dayNumCal at *; omega
      obtain ⟨mo, cd, he, hvc, hnc⟩ := calFromOrd_spec m sy _ hvo
      refine ⟨sy, mo, cd, he, hvc, ?_⟩
      rw [hnc]; unfold Spec.dayNumWeek Spec.dayNumOrd at *; omega
    · simp only [ht, ↓reduceIte]
      rcases hyr with hyr | hyr
      · -- the week-year starts in calendar year y itself; the date is in y + 1
        subst hyr
        have hlt : ¬ sy < sy := by omega
        simp only [hlt, ↓reduceIte]
        have hdy1 := dby_succ m (sy + 1)
        have hyl1 := yearLen_bounds m (sy + 1)
        have hvo : Spec.ValidOrd m (sy + 1)
            (Spec.dbm m sy smo + sd + ((w - 1) * 7 + d - 1) - Spec.yearLen m sy) := by
          unfold Spec.ValidOrd Spec.dayNumOrd Spec.dayNumCal at *; omega
        obtain ⟨mo, cd, he, hvc, hnc⟩ := calFromOrd_spec m (sy + 1) _ hvo
        refine ⟨sy + 1, mo, cd, he, hvc, ?_⟩
        rw [hnc]; unfold Spec.dayNumWeek Spec.dayNumOrd at *; omega
      · -- the week-year starts in y - 1
        have hlt : sy < y := by omega
        have hy : y = sy + 1 := by omega
        subst hy
        simp only [hlt, ↓reduceIte]
        have hdy1 := dby_succ m (sy + 1)
        have hyl1 := yearLen_bounds m (sy + 1)
        have hdy2 := dby_succ m (sy + 1 + 1)
        have hyl2 := yearLen_bounds m (sy + 1 + 1)
        by_cases ht1 : Spec.dbm m sy smo + sd + ((w - 1) * 7 + d - 1) - Spec.yearLen m sy ≤
            Spec.yearLen m (sy + 1)
        · simp only [ht1, ↓reduceIte]
          have hvo : Spec.ValidOrd m (sy + 1)
              (Spec.dbm m sy smo + sd + ((w - 1) * 7 + d - 1) - Spec.yearLen m sy) := by
            unfold Spec.ValidOrd Spec.dayNumOrd Spec.dayNumCal at *; omega
          obtain ⟨mo, cd, he, hvc, hnc⟩ := calFromOrd_spec m (sy + 1) _ hvo
          refine ⟨sy + 1, mo, cd, he, hvc, ?_⟩
          rw [hnc]; unfold Spec.dayNumWeek Spec.dayNumOrd at *; omega
        · simp only [ht1, ↓reduceIte]
          have hvo : Spec.ValidOrd m (sy + 1 + 1)
              (Spec.dbm m sy smo + sd + ((w - 1) * 7 + d - 1) - Spec.yearLen m sy -
                Spec.yearLen m (sy + 1)) := by
            unfold Spec.ValidOrd Spec.dayNumOrd Spec.dayNumCal at *; omega
          obtain ⟨mo, cd, he, hvc, hnc⟩ := calFromOrd_spec m (sy + 1 + 1) _ hvo
          refine ⟨sy + 1 + 1, mo, cd, he, hvc, ?_⟩
          rw [hnc]; unfold Spec.dayNumWeek Spec.dayNumOrd at *; omega

/-! ### calendar → week -/

/-- Python's tuple order on valid calendar dates is the order of their day numbers. -/
theorem lexLt_iff (m : Mode) (a b : Int × Int × Int)
    (ha : Spec.ValidCal m a.1 a.2.1 a.2.2) (hb : Spec.ValidCal m b.1 b.2.1 b.2.2) :
    lexLt a b = true ↔ Spec.dayNumCal m a.1 a.2.1 a.2.2 < Spec.dayNumCal m b.1 b.2.1 b.2.2 := by
  obtain ⟨ay, amo, ad⟩ := a
  obtain ⟨by_, bmo, bd⟩ := b
  simp only at ha hb ⊢
  have ra := dayNumCal_range m _ _ _ ha
  have rb := dayNumCal_range m _ _ _ hb
  obtain ⟨ha1, ha2, ha3, ha4⟩ := ha
  obtain ⟨hb1, hb2, hb3, hb4⟩ := hb
  unfold lexLt
  simp only [Bool.or_eq_true, Bool.and_eq_true, decide_eq_true_eq, beq_iff_eq]
  rcases Int.lt_trichotomy ay by_ with h | h | h
  · have := dby_mono m (ay + 1) by_ (by omega)
    constructor
    · intro _; omega
    · intro _; left; exact h
  · subst h
    rcases Int.lt_trichotomy amo bmo with h | h | h
    · have := dbmB_mono m (Spec.leap m ay) amo bmo ha1 h hb2
      unfold Spec.dayNumCal Spec.dbm Spec.monthLen at *
      constructor
      · intro _; omega
      · intro _; right; exact ⟨rfl, Or.inl h⟩
    · subst h
      unfold Spec.dayNumCal
      constructor
      · rintro (h | ⟨_, h | ⟨_, h⟩⟩) <;> omega
      · intro h; right; exact ⟨rfl, Or.inr ⟨rfl, by omega⟩⟩
    · have := dbmB_mono m (Spec.leap m ay) bmo amo hb1 h ha2
      unfold Spec.dayNumCal Spec.dbm Spec.monthLen at *
      constructor
      · rintro (h | ⟨_, h | ⟨_, h⟩⟩) <;> omega
      · intro _; omega
  · have := dby_mono m (by_ + 1) ay (by omega)
    constructor
    · rintro (h | ⟨_, _⟩) <;> omega
    · intro _; omega

theorem lexLe_iff (m : Mode) (a b : Int × Int × Int)
    (ha : Spec.ValidCal m a.1 a.2.1 a.2.2) (hb : Spec.ValidCal m b.1 b.2.1 b.2.2) :
    lexLe a b = true ↔ Spec.dayNumCal m a.1 a.2.1 a.2.2 ≤ Spec.dayNumCal m b.1 b.2.1 b.2.2 := by
  unfold lexLe
  have := lexLt_iff m b a hb ha
  cases h : lexLt b a <;> simp_all <;> omega

/-- Counting from a week-year start `s` (a valid calendar date not after the date, at most two
    calendar years before it) gives the ISO week date in that week-year. -/
theorem weekFromCalAt_spec (m : Mode) (y mo d : Int) (s : Int × Int × Int) (wy : Int)
    (h : Spec.ValidCal m y mo d) (hs : Spec.ValidCal m s.1 s.2.1 s.2.2)
    (hS : Spec.dayNumCal m s.1 s.2.1 s.2.2 = Spec.weekYearStart m wy)
    (hle : Spec.weekYearStart m wy ≤ Spec.dayNumCal m y mo d)
    (hlt : Spec.dayNumCal m y mo d < Spec.weekYearStart m (wy + 1)) :
    ∃ w wd, weekFromCalAt m y mo d s wy = some (wy, w, wd) ∧ Spec.ValidWeek m wy w wd ∧
      Spec.dayNumWeek m wy w wd = Spec.dayNumCal m y mo d := by
  obtain ⟨sy, smo, sd⟩ := s
  simp only at hs hS
  have hp1 := posOf_valid m y mo d h
  have hp2 := posOf_valid m sy smo sd hs
  have r1 := dayNumCal_range m _ _ _ h
  have r2 := dayNumCal_range m _ _ _ hs
  have hsucc := weekYearStart_succ m wy
  have hwb := weeksInYear_bounds m wy
  -- the start lies in y, y - 1 or y - 2
  have hyr : sy = y ∨ sy + 1 = y ∨ sy + 2 = y := by
    have hb := weekYearStart_bounds m wy
    have hb1 := weekYearStart_bounds m (wy + 1)
    by_cases c1 : y < sy
    · have := dby_mono m (y + 1) sy (by omega); omega
    · by_cases c2 : sy + 2 < y
      · have h1 := dby_mono m (sy + 1) (y - 1) (by omega)
        have h2 := dby_succ m (y - 1)
        have h3 := yearLen_bounds m (y - 1)
        have e : y - 1 + 1 = y := by omega
        rw [e] at h2
        -- the week-year wy spans at most 53 weeks = 371 days
        omega
      · omega
  have key : ∃ t, daysFromStart m y (Spec.dbm m y mo + d) sy (Spec.dbm m sy smo + sd) = some t ∧
      t = Spec.dayNumCal m y mo d - Spec.weekYearStart m wy := by
    unfold daysFromStart
    simp only [daysInYear_eq]
    rcases hyr with e | e | e
    · subst e; simp only [↓reduceIte]; refine ⟨_, rfl, ?_⟩
      rw [← hS]; unfold Spec.dayNumCal; omega
    · have c : ¬ sy = y := by omega
      simp only [c, e, ↓reduceIte]; refine ⟨_, rfl, ?_⟩
      have := dby_succ m sy
      rw [e] at this
      rw [← hS]; unfold Spec.dayNumCal; omega
    · have c : ¬ sy = y := by omega
      have c' : ¬ sy + 1 = y := by omega
      simp only [c, c', e, ↓reduceIte]; refine ⟨_, rfl, ?_⟩
      have h1 := dby_succ m sy
      have h2 := dby_succ m (sy + 1)
      have e' : sy + 1 + 1 = y := by omega
      rw [e'] at h2
      rw [← hS]; unfold Spec.dayNumCal; omega
  obtain ⟨t, ht, htv⟩ := key
  unfold weekFromCalAt
  simp only [hp1, hp2, ht, daysInWeek_eq]
  have hneg : ¬ t < 0 := by omega
  simp only [hneg, ↓reduceIte]
  refine ⟨_, _, rfl, ?_, ?_⟩
  · unfold Spec.ValidWeek; omega
  · unfold Spec.dayNumWeek; omega

theorem weekFromCal_spec (m : Mode) (y mo d : Int) (h : Spec.ValidCal m y mo d) :
    ∃ wy w wd, weekFromCal m y mo d = some (wy, w, wd) ∧ Spec.ValidWeek m wy w wd ∧
      Spec.dayNumWeek m wy w wd = Spec.dayNumCal m y mo d := by
  obtain ⟨hv0, hn0⟩ := weekStartCal_spec m (y - 1)
  obtain ⟨hv1, hn1⟩ := weekStartCal_spec m y
  obtain ⟨hv2, hn2⟩ := weekStartCal_spec m (y + 1)
  have r := dayNumCal_range m _ _ _ h
  have b0 := weekYearStart_bounds m (y - 1)
  have b3 := weekYearStart_bounds m (y + 1 + 1)
  have s0 := dby_succ m (y - 1)
  have s1 := dby_succ m (y + 1)
  have l0 := yearLen_bounds m (y - 1)
  have l1 := yearLen_bounds m (y + 1)
  have e : y - 1 + 1 = y := by omega
  rw [e] at s0
  have c0 := lexLe_iff m (weekStartCal m (y - 1)) (y, mo, d) hv0 h
  have c1 := lexLt_iff m (y, mo, d) (weekStartCal m y) h hv1
  have c2 := lexLe_iff m (weekStartCal m y) (y, mo, d) hv1 h
  have c3 := lexLt_iff m (y, mo, d) (weekStartCal m (y + 1)) h hv2
  simp only at c0 c1 c2 c3
  rw [hn0] at c0; rw [hn1] at c1 c2; rw [hn2] at c3
  unfold weekFromCal
  simp only [Bool.and_eq_true]
  by_cases k1 : lexLe (weekStartCal m (y - 1)) (y, mo, d) = true ∧ lexLt (y, mo, d) (weekStartCal m y) = true
  · simp only [k1, and_self, ↓reduceIte]
    obtain ⟨w, wd, he, hv, hn⟩ := weekFromCalAt_spec m y mo d _ (y - 1) h hv0 hn0
      (c0.mp k1.1) (by rw [e]; exact c1.mp k1.2)
    exact ⟨_, _, _, he, hv, hn⟩
  · simp only [k1, ↓reduceIte]
    by_cases k2 : lexLe (weekStartCal m y) (y, mo, d) = true ∧ lexLt (y, mo, d) (weekStartCal m (y + 1)) = true
    · simp only [k2, and_self, ↓reduceIte]
      obtain ⟨w, wd, he, hv, hn⟩ := weekFromCalAt_spec m y mo d _ y h hv1 hn1
        (c2.mp k2.1) (c3.mp k2.2)
      exact ⟨_, _, _, he, hv, hn⟩
    · simp only [k2, ↓reduceIte]
      have hge : Spec.weekYearStart m (y + 1) ≤ Spec.dayNumCal m y mo d := by
        rw [c0, c1] at k1; rw [c2, c3] at k2; omega
      obtain ⟨w, wd, he, hv, hn⟩ := weekFromCalAt_spec m y mo d _ (y + 1) h hv2 hn2 hge (by omega)
      exact ⟨_, _, _, he, hv, hn⟩

/-! ### the two composites -/

theorem ordFromWeek_spec (m : Mode) (y w d : Int) (h : Spec.ValidWeek m y w d) :
    ∃ oy doy, ordFromWeek m y w d = some (oy, doy) ∧ Spec.ValidOrd m oy doy ∧
      Spec.dayNumOrd m oy doy = Spec.dayNumWeek m y w d := by
  obtain ⟨cy, mo, cd, he, hv, hn⟩ := calFromWeek_spec m y w d h
  obtain ⟨doy, he2, hv2, hn2⟩ := ordFromCal_spec m cy mo cd hv
  refine ⟨cy, doy, ?_, hv2, by rw [hn2, hn]⟩
  unfold ordFromWeek; rw [he]; exact he2

theorem weekFromOrd_spec (m : Mode) (y doy : Int) (h : Spec.ValidOrd m y doy) :
    ∃ wy w wd, weekFromOrd m y doy = some (wy, w, wd) ∧ Spec.ValidWeek m wy w wd ∧
      Spec.dayNumWeek m wy w wd = Spec.dayNumOrd m y doy := by
  obtain ⟨mo, cd, he, hv, hn⟩ := calFromOrd_spec m y doy h
  obtain ⟨wy, w, wd, he2, hv2, hn2⟩ := weekFromCal_spec m y mo cd hv
  refine ⟨wy, w, wd, ?_, hv2, by rw [hn2, hn]⟩
  unfold weekFromOrd; rw [he]; exact he2

/-! ### a valid date is determined by its day number -/

theorem ord_unique (m : Mode) (a1 a2 b1 b2 : Int) (ha : Spec.ValidOrd m a1 a2) (hb : Spec.ValidOrd m b1 b2)
    (hn : Spec.dayNumOrd m a1 a2 = Spec.dayNumOrd m b1 b2) : a1 = b1 ∧ a2 = b2 := by
  have ra := dayNumOrd_range m _ _ ha
  have rb := dayNumOrd_range m _ _ hb
  have hy := year_unique m a1 b1 (Spec.dayNumOrd m a1 a2) ra (by rw [hn]; exact rb)
  subst hy
  unfold Spec.dayNumOrd at hn
  exact ⟨rfl, by omega⟩

theorem cal_unique (m : Mode) (a1 a2 a3 b1 b2 b3 : Int) (ha : Spec.ValidCal m a1 a2 a3)
    (hb : Spec.ValidCal m b1 b2 b3) (hn : Spec.dayNumCal m a1 a2 a3 = Spec.dayNumCal m b1 b2 b3) :
    a1 = b1 ∧ a2 = b2 ∧ a3 = b3 := by
  have ra := dayNumCal_range m _ _ _ ha
  have rb := dayNumCal_range m _ _ _ hb
  have hy := year_unique m a1 b1 (Spec.dayNumCal m a1 a2 a3) ra (by rw [hn]; exact rb)
  subst hy
  obtain ⟨ha1, ha2, ha3, ha4⟩ := ha
  obtain ⟨hb1, hb2, hb3, hb4⟩ := hb
  unfold Spec.dayNumCal Spec.dbm Spec.monthLen at *
  rcases Int.lt_trichotomy a2 b2 with h | h | h
  · have := dbmB_mono m (Spec.leap m a1) a2 b2 ha1 h hb2; omega
  · subst h; exact ⟨rfl, rfl, by omega⟩
  · have := dbmB_mono m (Spec.leap m a1) b2 a2 hb1 h ha2; omega

theorem weekYearStart_le_of_lt (m : Mode) (a b : Int) (h : a < b) :
    Spec.weekYearStart m (a + 1) ≤ Spec.weekYearStart m b := by
  by_cases e : a + 1 = b
  · rw [e]; exact Int.le_refl _
  · have := dby_mono m (a + 1) b (by omega)
    have := weekYearStart_bounds m (a + 1)
    have := weekYearStart_bounds m b
    omega

theorem week_unique (m : Mode) (a1 a2 a3 b1 b2 b3 : Int) (ha : Spec.ValidWeek m a1 a2 a3)
    (hb : Spec.ValidWeek m b1 b2 b3) (hn : Spec.dayNumWeek m a1 a2 a3 = Spec.dayNumWeek m b1 b2 b3) :
    a1 = b1 ∧ a2 = b2 ∧ a3 = b3 := by
  obtain ⟨ha1, ha2, ha3, ha4⟩ := ha
  obtain ⟨hb1, hb2, hb3, hb4⟩ := hb
  have sa := weekYearStart_succ m a1
  have sb := weekYearStart_succ m b1
  unfold Spec.dayNumWeek at hn
  have hy : a1 = b1 := by
    rcases Int.lt_trichotomy a1 b1 with h | h | h
    · have := weekYearStart_le_of_lt m a1 b1 h; omega
    · exact h
    · have := weekYearStart_le_of_lt m b1 a1 h; omega
  subst hy
  exact ⟨rfl, by omega, by omega⟩

theorem date_unique (m : Mode) (a b : Spec.Date) (ha : a.Valid m) (hb : b.Valid m)
    (hr : a.rep = b.rep) (hn : a.dayNum m = b.dayNum m) : a = b := by
  cases a <;> cases b <;> simp [Spec.Date.rep] at hr
  · obtain ⟨h1, h2, h3⟩ := cal_unique m _ _ _ _ _ _ ha hb hn; subst h1 h2 h3; rfl
  · obtain ⟨h1, h2⟩ := ord_unique m _ _ _ _ ha hb hn; subst h1 h2; rfl
  · obtain ⟨h1, h2, h3⟩ := week_unique m _ _ _ _ _ _ ha hb hn; subst h1 h2 h3; rfl

/-! ### all six directions at once -/

theorem convert_spec (m : Mode) (k : Nat) (hk : k < 3) (dt : Spec.Date) (h : dt.Valid m) :
    ∃ r, convert m k dt = some r ∧ r.Valid m ∧ r.rep = k ∧ r.dayNum m = dt.dayNum m := by
  have hk' : k = 0 ∨ k = 1 ∨ k = 2 := by omega
  rcases hk' with rfl | rfl | rfl <;> cases dt with
  | cal y mo d =>
    first
    | exact ⟨_, rfl, h, rfl, rfl⟩
    | (obtain ⟨doy, he, hv, hn⟩ := ordFromCal_spec m y mo d h
       exact ⟨.ord y doy, by simp [convert, he], hv, rfl, hn⟩)
    | (obtain ⟨wy, w, wd, he, hv, hn⟩ := weekFromCal_spec m y mo d h
       exact ⟨.week wy w wd, by simp [convert, he], hv, rfl, hn⟩)
  | ord y doy =>
    first
    | exact ⟨_, rfl, h, rfl, rfl⟩
    | (obtain ⟨mo, d, he, hv, hn⟩ := calFromOrd_spec m y doy h
       exact ⟨.cal y mo d, by simp [convert, he], hv, rfl, hn⟩)
    | (obtain ⟨wy, w, wd, he, hv, hn⟩ := weekFromOrd_spec m y doy h
       exact ⟨.week wy w wd, by simp [convert, he], hv, rfl, hn⟩)
  | week y w d =>
    first
    | exact ⟨_, rfl, h, rfl, rfl⟩
    | (obtain ⟨cy, mo, cd, he, hv, hn⟩ := calFromWeek_spec m y w d h
       exact ⟨.cal cy mo cd, by simp [convert, he], hv, rfl, hn⟩)
    | (obtain ⟨oy, doy, he, hv, hn⟩ := ordFromWeek_spec m y w d h
       exact ⟨.ord oy doy, by simp [convert, he], hv, rfl, hn⟩)

theorem rep_lt_three (dt : Spec.Date) : dt.rep < 3 := by cases dt <;> simp [Spec.Date.rep]

/-- Converting back to the original representation returns the original date. -/
theorem convert_back (m : Mode) (k : Nat) (hk : k < 3) (dt r : Spec.Date) (h : dt.Valid m)
    (he : convert m k dt = some r) : convert m dt.rep r = some dt ∧ r.Valid m ∧ r.rep = k ∧
      r.dayNum m = dt.dayNum m := by
  obtain ⟨r0, he0, hv, hr, hn⟩ := convert_spec m k hk dt h
  rw [he] at he0
  have : r = r0 := by simpa using he0
  subst this
  obtain ⟨r', he', hv', hr', hn'⟩ := convert_spec m dt.rep (rep_lt_three dt) r hv
  refine ⟨?_, hv, hr, hn⟩
  rw [he', date_unique m r' dt hv' h hr' (by rw [hn', hn])]

theorem convert_self (m : Mode) (dt : Spec.Date) : convert m dt.rep dt = some dt := by
  cases dt <;> rfl

end IsoDT.Lemmas
