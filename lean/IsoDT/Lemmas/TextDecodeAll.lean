/-
  IsoDT.Lemmas.TextDecodeAll — the VALUE half of parsing, for every documented non-truncated form at
  once: a specification of what the groups of a template spell (`Vals`, `envOf`), of the keyword
  arguments the documented semantics prescribes (`argsOf`, `zoneOf`) and of the time point they denote
  (`pointOf`), written without reference to `assemble` / `ctor`, and the generic theorems that
  `_create_timepoint_from_info` (`assemble`), `process_time_zone_info` (`processZone`) and
  `TimePoint.__init__` (`ctor`) compute exactly these — for every template that passes decidable
  shape checks (`itemOK`, `decodable`, `zoneOK`, `dateShapeOK`, `timeShapeOK`), which `Props/C07b`
  discharges over the regenerated tables by kernel evaluation.
-/
import IsoDT.Lemmas.TextDecode
import IsoDT.Lemmas.Conv

namespace IsoDT.Text
open IsoDT IsoDT.Model IsoDT.Lemmas
open IsoDT.Spec (TZ Date)

/-! ## The specification: field values, group texts, keyword arguments -/

/-- An assignment of VALUES to every field a date-time expression can spell.  A template uses the
    values of the groups it contains and ignores the rest. -/
structure Vals where
  /-- the year sign is `-` -/
  yearNeg : Bool := false
  /-- the expanded year digits `X…`, as a number -/
  x : Nat := 0
  /-- century `CC` -/
  cc : Nat := 0
  /-- year of century `YY` -/
  yy : Nat := 0
  month : Nat := 0
  day : Nat := 0
  /-- day of year `DDD` -/
  doy : Nat := 0
  week : Nat := 0
  /-- day of week -/
  dow : Nat := 0
  hour : Nat := 0
  minute : Nat := 0
  second : Nat := 0
  /-- the digits after the decimal sign of a fractional hour / minute / second -/
  hourDec : List Char := ['0']
  minuteDec : List Char := ['0']
  secondDec : List Char := ['0']
  /-- the zone sign is `-` -/
  tzNeg : Bool := false
  tzHour : Nat := 0
  tzMinute : Nat := 0
  deriving DecidableEq, Repr, Inhabited

/-- The number a digit group spells. -/
def Vals.nat (v : Vals) : Fld → Nat
  | .expandedYear => v.x
  | .century => v.cc
  | .yearOfCentury => v.yy
  | .monthOfYear => v.month
  | .dayOfMonth => v.day
  | .dayOfYear => v.doy
  | .weekOfYear => v.week
  | .dayOfWeek => v.dow
  | .hourOfDay => v.hour
  | .minuteOfHour => v.minute
  | .secondOfMinute => v.second
  | .tzHour => v.tzHour
  | .tzMinute => v.tzMinute
  | _ => 0

/-- Is the sign group `-`? -/
def Vals.neg (v : Vals) : Fld → Bool
  | .yearSign => v.yearNeg
  | .tzSign => v.tzNeg
  | _ => false

/-- The digits a decimal-fraction group spells. -/
def Vals.dec (v : Vals) : Fld → List Char
  | .hourDec => v.hourDec
  | .minuteDec => v.minuteDec
  | .secondDec => v.secondDec
  | _ => []

/-- The group texts a template spells for the values `v`: every `[0-9]{n}` group is the value of its
    field, zero-padded to the group's width; a sign group is `+` or `-`; a decimal group is the
    fraction's digit string; a literal group is its own text. -/
def envOf : Template → Vals → Env
  | [], _ => []
  | .lit _ :: t, v => envOf t v
  | .digits f n :: t, v => (f, renderNat n (v.nat f)) :: envOf t v
  | .digitsPlus f :: t, v => (f, v.dec f) :: envOf t v
  | .sign f :: t, v => (f, [if v.neg f then '-' else '+']) :: envOf t v
  | .group f ls :: t, v => (f, ls) :: envOf t v

/-- Does the regular expression have a group named `f`? -/
def hasGroup (t : Template) (f : Fld) : Bool := (groupFields t).contains f

/-- An integer keyword argument: present iff the template has the group. -/
def fieldOf (t : Template) (f : Fld) (n : Nat) : Option Int :=
  if hasGroup t f then some (n : Int) else none

/-- A decimal-fraction keyword argument: present iff the template has the group. -/
def decOf (t : Template) (f : Fld) (s : List Char) : Option (List Char) :=
  if hasGroup t f then some s else none

/-- The year a date expression spells: `±(10000·X + 100·CC + YY)`, each part counted iff its group
    occurs (century-only forms spell `100·CC`), negated iff there is a sign group and it is `-`. -/
def yearOf (de : Template) (v : Vals) : Int :=
  let a : Nat := (if hasGroup de .expandedYear then 10000 * v.x else 0) +
    (if hasGroup de .century then 100 * v.cc else 0) +
    (if hasGroup de .yearOfCentury then v.yy else 0)
  if hasGroup de .yearSign && v.yearNeg then -(a : Int) else (a : Int)

/-- The keyword arguments `TimePoint(...)` is to receive for a date expression `de`, a time expression
    `te` (`[]` for a date alone), the processed zone and the values `v`. -/
def argsOf (cfg : Cfg) (de te : Template) (zone : ZoneInfo) (v : Vals) : Args :=
  { ned := if hasGroup de .expandedYear then cfg.pt.ned else 0
    year := some (yearOf de v)
    month := fieldOf de .monthOfYear v.month
    day := fieldOf de .dayOfMonth v.day
    doy := fieldOf de .dayOfYear v.doy
    week := fieldOf de .weekOfYear v.week
    dow := fieldOf de .dayOfWeek v.dow
    hour := fieldOf te .hourOfDay v.hour
    minute := fieldOf te .minuteOfHour v.minute
    second := fieldOf te .secondOfMinute v.second
    hourDec := decOf te .hourDec v.hourDec
    minuteDec := decOf te .minuteDec v.minuteDec
    secondDec := decOf te .secondDec v.secondDec
    tzHour := zone.hour
    tzMinute := zone.minute
    truncated := false
    truncProp := none
    dumpFmt := none }

/-- The zone a zone expression `zt` spells (`none`: no zone in the text — the parser's configuration
    decides): `Z` is `+00:00`; `±hh` has NO minute (the constructor then takes 0, never the
    configured zone's minutes); the sign applies to hours and minutes alike. -/
def zoneOf (zd : ZoneDefault) (zt : Option Template) (v : Vals) : ZoneInfo :=
  match zt with
  | none =>
    match zd with
    | .assumed h mi => ⟨some h, some mi⟩
    | .localOffset h mi => ⟨some h, some mi⟩
    | .unknown => ⟨none, none⟩
  | some t =>
    if hasGroup t .tzUtc then ⟨some 0, some 0⟩
    else
      let neg := hasGroup t .tzSign && v.tzNeg
      ⟨some (if neg then -(v.tzHour : Int) else v.tzHour),
       if hasGroup t .tzMinute then some (if neg then -(v.tzMinute : Int) else v.tzMinute) else none⟩

/-! ## Field classes, widths, and the shape check of one regular-expression item -/

def isIntFld : Fld → Bool
  | .expandedYear | .century | .yearOfCentury | .monthOfYear | .dayOfMonth | .dayOfYear | .weekOfYear
  | .dayOfWeek | .hourOfDay | .minuteOfHour | .secondOfMinute | .tzHour | .tzMinute => true
  | _ => false

def isSignFld : Fld → Bool
  | .yearSign | .tzSign => true
  | _ => false

def isDecFld : Fld → Bool
  | .hourDec | .minuteDec | .secondDec => true
  | _ => false

/-- The documented width of each digit group (`ned` expanded year digits). -/
def stdWidth (ned : Nat) : Fld → Nat
  | .expandedYear => ned
  | .dayOfYear => 3
  | .dayOfWeek => 1
  | _ => 2

/-- One item of a non-truncated expression: a literal, a digit group of a numeric field with its
    documented width, a decimal group of a fraction field, a sign group of a sign field, or `Z`. -/
def itemOK (ned : Nat) : Item → Bool
  | .lit _ => true
  | .digits f n => isIntFld f && n == stdWidth ned f
  | .digitsPlus f => isDecFld f
  | .sign f => isSignFld f
  | .group f ls => f == .tzUtc && ls == ['Z']

/-- The values fit the widths of their groups, and the fractions are non-empty digit strings. -/
def Vals.Fit (ned : Nat) (v : Vals) : Prop :=
  v.x < 10 ^ ned ∧ v.cc < 100 ∧ v.yy < 100 ∧ v.month < 100 ∧ v.day < 100 ∧ v.doy < 1000 ∧
  v.week < 100 ∧ v.dow < 10 ∧ v.hour < 100 ∧ v.minute < 100 ∧ v.second < 100 ∧
  v.tzHour < 100 ∧ v.tzMinute < 100 ∧
  (v.hourDec ≠ [] ∧ v.hourDec.all isDigit = true) ∧
  (v.minuteDec ≠ [] ∧ v.minuteDec.all isDigit = true) ∧
  (v.secondDec ≠ [] ∧ v.secondDec.all isDigit = true)

instance (ned : Nat) (v : Vals) : Decidable (v.Fit ned) := by unfold Vals.Fit; infer_instance

/-- The text of group `f` under `v`, by the class of the field alone. -/
def fldText (ned : Nat) (v : Vals) (f : Fld) : List Char :=
  if isIntFld f then renderNat (stdWidth ned f) (v.nat f)
  else if isSignFld f then [if v.neg f then '-' else '+']
  else if isDecFld f then v.dec f
  else ['Z']

theorem fit_nat (ned : Nat) (v : Vals) (hv : v.Fit ned) (f : Fld) (hf : isIntFld f = true) :
    v.nat f < 10 ^ stdWidth ned f := by
  obtain ⟨h1, h2, h3, h4, h5, h6, h7, h8, h9, h10, h11, h12, h13, _⟩ := hv
  cases f <;> first | exact absurd hf (by decide) | (simp only [Vals.nat, stdWidth]; omega)

theorem fit_dec (ned : Nat) (v : Vals) (hv : v.Fit ned) (f : Fld) (hf : isDecFld f = true) :
    v.dec f ≠ [] ∧ (v.dec f).all isDigit = true := by
  obtain ⟨_, _, _, _, _, _, _, _, _, _, _, _, _, h1, h2, h3⟩ := hv
  cases f <;> first | exact absurd hf (by decide) | exact h1 | exact h2 | exact h3

/-! ## The groups of `envOf` -/

theorem envOf_fields (t : Template) (v : Vals) : (envOf t v).map Prod.fst = groupFields t := by
  induction t with
  | nil => rfl
  | cons it t ih => cases it <;> simp [envOf, groupFields, ih]

theorem has_envOf (t : Template) (v : Vals) (f : Fld) : Env.has (envOf t v) f = hasGroup t f := by
  rw [Env.has_iff, envOf_fields]; rfl

theorem hasGroup_cons (f g : Fld) (l : List Fld) : (g :: l).contains f = (f == g || l.contains f) :=
  List.contains_cons

/-- Every group of a template whose items are all `itemOK` has the text its field's class prescribes. -/
theorem get_envOf (ned : Nat) (t : Template) (h : t.all (itemOK ned) = true) (v : Vals) (f : Fld) :
    Env.get? (envOf t v) f = if hasGroup t f then some (fldText ned v f) else none := by
  induction t with
  | nil => rfl
  | cons it t ih =>
    simp only [List.all_cons, Bool.and_eq_true] at h
    have ih := ih h.2
    have hit := h.1
    unfold hasGroup at ih ⊢
    cases it with
    | lit c => simpa [envOf, groupFields] using ih
    | digits g n =>
      simp only [itemOK, Bool.and_eq_true, beq_iff_eq] at hit
      simp only [envOf, Env.get?, groupFields, hasGroup_cons]
      by_cases hg : g = f
      · subst hg; simp [fldText, hit.1, hit.2]
      · have : (f == g) = false := by simp [Ne.symm hg]
        simp only [hg, if_false, this, Bool.false_or]; exact ih
    | digitsPlus g =>
      simp only [itemOK] at hit
      simp only [envOf, Env.get?, groupFields, hasGroup_cons]
      by_cases hg : g = f
      · subst hg
        have h1 : isIntFld g = false := by cases g <;> first | rfl | exact absurd hit (by decide)
        have h2 : isSignFld g = false := by cases g <;> first | rfl | exact absurd hit (by decide)
        simp [fldText, hit, h1, h2]
      · have : (f == g) = false := by simp [Ne.symm hg]
        simp only [hg, if_false, this, Bool.false_or]; exact ih
    | sign g =>
      simp only [itemOK] at hit
      simp only [envOf, Env.get?, groupFields, hasGroup_cons]
      by_cases hg : g = f
      · subst hg
        have h1 : isIntFld g = false := by cases g <;> first | rfl | exact absurd hit (by decide)
        simp [fldText, hit, h1]
      · have : (f == g) = false := by simp [Ne.symm hg]
        simp only [hg, if_false, this, Bool.false_or]; exact ih
    | group g ls =>
      simp only [itemOK, Bool.and_eq_true, beq_iff_eq] at hit
      simp only [envOf, Env.get?, groupFields, hasGroup_cons]
      by_cases hg : g = f
      · subst hg
        obtain ⟨rfl, rfl⟩ := hit
        simp [fldText, isIntFld, isSignFld, isDecFld]
      · have : (f == g) = false := by simp [Ne.symm hg]
        simp only [hg, if_false, this, Bool.false_or]; exact ih

/-- A template whose items are all `itemOK` has groups of the four classes only (in particular no
    `truncated` marker and no year-of-decade). -/
theorem hasGroup_class (ned : Nat) (t : Template) (h : t.all (itemOK ned) = true) (f : Fld)
    (hf : hasGroup t f = true) :
    isIntFld f = true ∨ isSignFld f = true ∨ isDecFld f = true ∨ f = .tzUtc := by
  induction t with
  | nil => simp [hasGroup, groupFields] at hf
  | cons it t ih =>
    simp only [List.all_cons, Bool.and_eq_true] at h
    have ih := ih h.2
    have hit := h.1
    unfold hasGroup at ih hf
    cases it with
    | lit c => exact ih (by simpa [groupFields] using hf)
    | digits g n =>
      simp only [itemOK, Bool.and_eq_true, beq_iff_eq] at hit
      simp only [groupFields, hasGroup_cons, Bool.or_eq_true, beq_iff_eq] at hf
      rcases hf with rfl | hf
      · exact Or.inl hit.1
      · exact ih hf
    | digitsPlus g =>
      simp only [itemOK] at hit
      simp only [groupFields, hasGroup_cons, Bool.or_eq_true, beq_iff_eq] at hf
      rcases hf with rfl | hf
      · exact Or.inr (Or.inr (Or.inl hit))
      · exact ih hf
    | sign g =>
      simp only [itemOK] at hit
      simp only [groupFields, hasGroup_cons, Bool.or_eq_true, beq_iff_eq] at hf
      rcases hf with rfl | hf
      · exact Or.inr (Or.inl hit)
      · exact ih hf
    | group g ls =>
      simp only [itemOK, Bool.and_eq_true, beq_iff_eq] at hit
      simp only [groupFields, hasGroup_cons, Bool.or_eq_true, beq_iff_eq] at hf
      rcases hf with rfl | hf
      · exact Or.inr (Or.inr (Or.inr hit.1))
      · exact ih hf

theorem hasGroup_unclassed (ned : Nat) (t : Template) (h : t.all (itemOK ned) = true) (f : Fld)
    (h1 : isIntFld f = false) (h2 : isSignFld f = false) (h3 : isDecFld f = false) (h4 : f ≠ .tzUtc) :
    hasGroup t f = false := by
  cases hf : hasGroup t f with
  | false => rfl
  | true =>
    rcases hasGroup_class ned t h f hf with e | e | e | e
    · rw [h1] at e; cases e
    · rw [h2] at e; cases e
    · rw [h3] at e; cases e
    · exact absurd e h4

/-- The rendered groups fit the template: `tmatch` recovers exactly them (`tmatch_trender`). -/
theorem fits_envOf (ned : Nat) (t : Template) (hw : wf t = true) (h : t.all (itemOK ned) = true)
    (v : Vals) (hv : v.Fit ned) : fits t (envOf t v) = true := by
  induction t with
  | nil => rfl
  | cons it t ih =>
    simp only [List.all_cons, Bool.and_eq_true] at h
    have hit := h.1
    cases it with
    | lit c => simpa [envOf, fits] using ih (by simpa [wf] using hw) h.2
    | digits g n =>
      have := ih (by simpa [wf] using hw) h.2
      simp [envOf, fits, renderNat_length, renderNat_digits, this]
    | digitsPlus g =>
      simp only [itemOK] at hit
      simp only [wf, List.isEmpty_iff] at hw
      subst hw
      obtain ⟨h1, h2⟩ := fit_dec ned v hv g hit
      simp [envOf, fits, h1, h2]
    | sign g =>
      have := ih (by simpa [wf] using hw) h.2
      simp only [envOf, fits, this, Bool.and_true, decide_true, Bool.true_and]
      cases v.neg g <;> simp
    | group g ls =>
      have := ih (by simpa [wf] using hw) h.2
      simp [envOf, fits, this]

/-! ## The integer, sign and decimal groups, decoded -/

theorem optInt_envOf (ned : Nat) (t : Template) (h : t.all (itemOK ned) = true) (v : Vals)
    (hv : v.Fit ned) (f : Fld) (hf : isIntFld f = true)
    (hw : hasGroup t f = true → 0 < stdWidth ned f) :
    optInt (envOf t v) f = some (fieldOf t f (v.nat f)) := by
  unfold optInt fieldOf
  rw [get_envOf ned t h v f]
  cases hg : hasGroup t f with
  | false => simp
  | true =>
    simp only [if_true, fldText, hf]
    rw [intOf_renderNat _ _ (hw hg) (fit_nat ned v hv f hf)]; rfl

theorem optInt_absent (ned : Nat) (t : Template) (h : t.all (itemOK ned) = true) (v : Vals) (f : Fld)
    (hf : hasGroup t f = false) : optInt (envOf t v) f = some none := by
  unfold optInt
  rw [get_envOf ned t h v f, hf]; rfl

theorem dec_envOf (ned : Nat) (t : Template) (h : t.all (itemOK ned) = true) (v : Vals) (f : Fld)
    (hf : isDecFld f = true) : Env.get? (envOf t v) f = decOf t f (v.dec f) := by
  have h1 : isIntFld f = false := by cases f <;> first | rfl | exact absurd hf (by decide)
  have h2 : isSignFld f = false := by cases f <;> first | rfl | exact absurd hf (by decide)
  rw [get_envOf ned t h v f]
  simp [decOf, fldText, h1, h2, hf]

theorem sign_envOf (ned : Nat) (t : Template) (h : t.all (itemOK ned) = true) (v : Vals) (f : Fld)
    (hf : isSignFld f = true) :
    (Env.get? (envOf t v) f == some ['-']) = (hasGroup t f && v.neg f) := by
  have h1 : isIntFld f = false := by cases f <;> first | rfl | exact absurd hf (by decide)
  rw [get_envOf ned t h v f]
  cases hasGroup t f <;> cases hn : v.neg f <;> simp [fldText, h1, hf, hn]

/-! ## `_create_timepoint_from_info` computes `argsOf` -/

/-- The decidable side condition of `assemble_envOf` on a (date, time) pair of regular expressions: all
    items are of the non-truncated kinds with the documented widths, the date has a century group (so it
    is not an implicitly truncated `YY…` form), and an expanded-year group occurs only when the
    configuration has expanded digits (an empty group cannot be read as a number). -/
def decodable (ned : Nat) (de te : Template) : Bool :=
  de.all (itemOK ned) && te.all (itemOK ned) && hasGroup de .century &&
    (ned != 0 || !hasGroup de .expandedYear)

/-- **Field assembly**: on the groups `envOf` spells, `_create_timepoint_from_info` assembles exactly the
    keyword arguments `argsOf` prescribes. -/
theorem assemble_envOf (cfg : Cfg) (de te : Template) (zone : ZoneInfo) (expr : List Char) (v : Vals)
    (hd : decodable cfg.pt.ned de te = true) (hv : v.Fit cfg.pt.ned) :
    assemble cfg ⟨envOf de v, false, envOf te v, zone, expr⟩ none = some (argsOf cfg de te zone v) := by
  simp only [decodable, Bool.and_eq_true, Bool.or_eq_true, bne_iff_ne, Bool.not_eq_true'] at hd
  obtain ⟨⟨⟨hde, hte⟩, hcc⟩, hx⟩ := hd
  have eX := optInt_envOf _ de hde v hv .expandedYear rfl (by
    intro hg
    rcases hx with h | h
    · simp only [stdWidth]; omega
    · rw [hg] at h; cases h)
  have eC := optInt_envOf _ de hde v hv .century rfl (fun _ => Nat.succ_pos _)
  have eY := optInt_envOf _ de hde v hv .yearOfCentury rfl (fun _ => Nat.succ_pos _)
  have eM := optInt_envOf _ de hde v hv .monthOfYear rfl (fun _ => Nat.succ_pos _)
  have eD := optInt_envOf _ de hde v hv .dayOfMonth rfl (fun _ => Nat.succ_pos _)
  have eO := optInt_envOf _ de hde v hv .dayOfYear rfl (fun _ => Nat.succ_pos _)
  have eW := optInt_envOf _ de hde v hv .weekOfYear rfl (fun _ => Nat.succ_pos _)
  have eK := optInt_envOf _ de hde v hv .dayOfWeek rfl (fun _ => Nat.succ_pos _)
  have eh := optInt_envOf _ te hte v hv .hourOfDay rfl (fun _ => Nat.succ_pos _)
  have em := optInt_envOf _ te hte v hv .minuteOfHour rfl (fun _ => Nat.succ_pos _)
  have es := optInt_envOf _ te hte v hv .secondOfMinute rfl (fun _ => Nat.succ_pos _)
  have eZ := optInt_absent _ de hde v .yearOfDecade
    (hasGroup_unclassed _ de hde _ rfl rfl rfl (by decide))
  have eT : hasGroup te .truncated = false := hasGroup_unclassed _ te hte _ rfl rfl rfl (by decide)
  have eS := sign_envOf _ de hde v .yearSign rfl
  have dh := dec_envOf _ te hte v .hourDec rfl
  have dm := dec_envOf _ te hte v .minuteDec rfl
  have ds := dec_envOf _ te hte v .secondDec rfl
  unfold assemble
  simp only [eX, eC, eY, eM, eD, eO, eW, eK, eh, em, es, eZ, eS, dh, dm, ds, has_envOf, hcc, eT]
  have eZ' : hasGroup de .yearOfDecade = false := hasGroup_unclassed _ de hde _ rfl rfl rfl (by decide)
  simp only [argsOf, yearOf, fieldOf, Vals.nat, Vals.neg, Vals.dec, hcc, eZ', Option.some.injEq]
  cases hX : hasGroup de .expandedYear <;> cases hY : hasGroup de .yearOfCentury <;>
    cases hS : (hasGroup de .yearSign && v.yearNeg) <;> simp <;> omega

/-! ### … and fails on a sign-and-expanded-year form when no expanded digits are configured -/

/-- With no expanded digits configured, the (empty) expanded-year group of a signed form makes
    `int('')` fail: nothing is assembled, whatever the other groups, the time groups and the zone. -/
theorem assemble_envOf_width0 (cfg : Cfg) (de : Template) (tenv : Env) (trunc : Bool) (zone : ZoneInfo)
    (expr : List Char) (v : Vals) (dump : Option (List Char))
    (hde : de.all (itemOK cfg.pt.ned) = true) (h0 : cfg.pt.ned = 0)
    (hX : hasGroup de .expandedYear = true) :
    assemble cfg ⟨envOf de v, trunc, tenv, zone, expr⟩ dump = none := by
  have eX : optInt (envOf de v) .expandedYear = none := by
    unfold optInt
    rw [get_envOf _ de hde v .expandedYear, hX]
    simp [fldText, isIntFld, stdWidth, h0, renderNat, intOf?]
  unfold assemble
  simp only [eX]
  split
  · rename_i h _ _ _ _ _; cases h
  · rfl

/-! ## `process_time_zone_info` computes `zoneOf` -/

/-- A zone regular expression: items of the documented kinds, and `Z` or an hour group. -/
def zoneOK (ned : Nat) (zt : Template) : Bool :=
  zt.all (itemOK ned) && (hasGroup zt .tzUtc || hasGroup zt .tzHour)

/-- No zone in the text: `process_time_zone_info` falls back on the parser's configuration. -/
theorem processZone_none (zd : ZoneDefault) (v : Vals) :
    processZone zd [] = some (zoneOf zd none v) := by
  cases zd <;> rfl

theorem envOf_nonempty (t : Template) (v : Vals) (f : Fld) (h : hasGroup t f = true) :
    (envOf t v).isEmpty = false := by
  rw [← has_envOf t v f] at h
  cases he : envOf t v with
  | nil => rw [he] at h; simp [Env.has, Env.get?] at h
  | cons _ _ => rfl

/-- **Zone**: on the groups a zone form spells, `process_time_zone_info` computes `zoneOf`. -/
theorem processZone_envOf (ned : Nat) (zd : ZoneDefault) (zt : Template) (h : zoneOK ned zt = true)
    (v : Vals) (hv : v.Fit ned) :
    processZone zd (envOf zt v) = some (zoneOf zd (some zt) v) := by
  simp only [zoneOK, Bool.and_eq_true, Bool.or_eq_true] at h
  obtain ⟨hz, hg⟩ := h
  have hne : (envOf zt v).isEmpty = false := by
    rcases hg with hg | hg <;> exact envOf_nonempty zt v _ hg
  have eS := sign_envOf ned zt hz v .tzSign rfl
  have eH := get_envOf ned zt hz v .tzHour
  have eM := get_envOf ned zt hz v .tzMinute
  have iH : intOf? (renderNat 2 v.tzHour) = some (v.tzHour : Int) :=
    intOf_renderNat 2 _ (by decide) (fit_nat ned v hv .tzHour rfl)
  have iM : intOf? (renderNat 2 v.tzMinute) = some (v.tzMinute : Int) :=
    intOf_renderNat 2 _ (by decide) (fit_nat ned v hv .tzMinute rfl)
  unfold processZone
  simp only [hne, has_envOf, eS, eH, eM, zoneOf, Bool.false_eq_true, if_false]
  cases hU : hasGroup zt .tzUtc with
  | true => simp
  | false =>
    rw [hU] at hg
    have hH : hasGroup zt .tzHour = true := by simpa using hg
    simp only [hH, if_true, Bool.false_eq_true, if_false, fldText, isIntFld, stdWidth, Vals.nat, Vals.neg, iH]
    cases hMi : hasGroup zt .tzMinute with
    | false => simp
    | true => simp [iM]

/-! ## `TimePoint.__init__` on `argsOf`: the point with its defaults -/

/-- Which of the month / day / day-of-year / week / weekday groups a date expression has. -/
def datePattern (de : Template) : Bool × Bool × Bool × Bool × Bool :=
  (hasGroup de .monthOfYear, hasGroup de .dayOfMonth, hasGroup de .dayOfYear, hasGroup de .weekOfYear,
   hasGroup de .dayOfWeek)

/-- The six documented date patterns: year alone, year-month, calendar date, ordinal date, year-week,
    week date. -/
def dateShapeOK (de : Template) : Bool :=
  [(false, false, false, false, false), (true, false, false, false, false),
   (true, true, false, false, false), (false, false, true, false, false),
   (false, false, false, true, false), (false, false, false, true, true)].contains (datePattern de)

/-- Which of the hour / minute / second groups and of their decimal groups a time expression has. -/
def timePattern (te : Template) : Bool × Bool × Bool × Bool × Bool × Bool :=
  (hasGroup te .hourOfDay, hasGroup te .minuteOfHour, hasGroup te .secondOfMinute,
   hasGroup te .hourDec, hasGroup te .minuteDec, hasGroup te .secondDec)

/-- The documented time patterns: no time (date alone), `hh`, `hhmm`, `hhmmss`, and each of the three
    with a decimal fraction on its last unit. -/
def timeShapeOK (te : Template) : Bool :=
  [(false, false, false, false, false, false), (true, false, false, false, false, false),
   (true, true, false, false, false, false), (true, true, true, false, false, false),
   (true, false, false, true, false, false), (true, true, false, false, true, false),
   (true, true, true, false, false, true)].contains (timePattern te)

/-- The time point the documented semantics prescribes for the values `v` spelled in the forms `de`, `te`
    with resolved zone `tz`: the given fields in the form's own representation; omitted lower-order
    fields at the start of their period (month 1, day 1; weekday 1 in week forms; hour, minute, second
    0); a decimal fraction stays on its unit and suppresses the lower units. -/
def pointOf (cfg : Cfg) (de te : Template) (v : Vals) (tz : TZ) : XTP :=
  { ned := if hasGroup de .expandedYear then cfg.pt.ned else 0
    year := some (yearOf de v)
    month := if hasGroup de .dayOfYear || hasGroup de .weekOfYear then none
             else some (if hasGroup de .monthOfYear then (v.month : Int) else 1)
    day := if hasGroup de .dayOfYear || hasGroup de .weekOfYear then none
           else some (if hasGroup de .dayOfMonth then (v.day : Int) else 1)
    doy := fieldOf de .dayOfYear v.doy
    week := fieldOf de .weekOfYear v.week
    dow := if hasGroup de .weekOfYear then some (if hasGroup de .dayOfWeek then (v.dow : Int) else 1)
           else none
    hour := some (if hasGroup te .hourOfDay then (v.hour : Int) else 0)
    minute := if hasGroup te .hourDec then none
              else some (if hasGroup te .minuteOfHour then (v.minute : Int) else 0)
    second := if hasGroup te .hourDec || hasGroup te .minuteDec then none
              else some (if hasGroup te .secondOfMinute then (v.second : Int) else 0)
    hourDec := decOf te .hourDec v.hourDec
    minuteDec := decOf te .minuteDec v.minuteDec
    secondDec := decOf te .secondDec v.secondDec
    tz := tz
    tzUnknown := false
    truncated := false
    truncProp := none
    dumpFmt := none }

theorem checkBounds_week0 (m : Mode) (p : XTP) (y : Int) (hy : p.year = some y)
    (hw : p.week = some 0) : checkBounds m p = false := by
  unfold checkBounds
  rw [hy, hw]
  simp [inBounds]

theorem dateShape_cases (de : Template) (h : dateShapeOK de = true) :
    datePattern de = (false, false, false, false, false) ∨ datePattern de = (true, false, false, false, false) ∨
    datePattern de = (true, true, false, false, false) ∨ datePattern de = (false, false, true, false, false) ∨
    datePattern de = (false, false, false, true, false) ∨ datePattern de = (false, false, false, true, true) := by
  simpa [dateShapeOK] using h

theorem timeShape_cases (te : Template) (h : timeShapeOK te = true) :
    timePattern te = (false, false, false, false, false, false) ∨
    timePattern te = (true, false, false, false, false, false) ∨
    timePattern te = (true, true, false, false, false, false) ∨
    timePattern te = (true, true, true, false, false, false) ∨
    timePattern te = (true, false, false, true, false, false) ∨
    timePattern te = (true, true, false, false, true, false) ∨
    timePattern te = (true, true, true, false, false, true) := by
  simpa [timeShapeOK] using h

/-- **Constructor**: `TimePoint(...)` on `argsOf` is `pointOf` if the zone and `_check_bounds` accept it,
    an error otherwise — for every documented date and time pattern. -/
theorem ctor_argsOf (cfg : Cfg) (de te : Template) (zone : ZoneInfo) (v : Vals)
    (hd : dateShapeOK de = true) (ht : timeShapeOK te = true) :
    ctor cfg.mode (argsOf cfg de te zone v) =
      match mkTZ cfg.mode (zone.hour.getD 0) (zone.minute.getD 0) with
      | none => none
      | some tz =>
        if checkBounds cfg.mode (pointOf cfg de te v tz) then some (pointOf cfg de te v tz) else none := by
  have hd := dateShape_cases de hd
  have ht := timeShape_cases te ht
  simp only [datePattern, timePattern, Prod.mk.injEq] at hd ht
  cases hz : mkTZ cfg.mode (zone.hour.getD 0) (zone.minute.getD 0) with
  | none => simp [ctor, argsOf, hz]
  | some tz =>
    rcases ht with ⟨t1, t2, t3, t4, t5, t6⟩ | ⟨t1, t2, t3, t4, t5, t6⟩ | ⟨t1, t2, t3, t4, t5, t6⟩ |
      ⟨t1, t2, t3, t4, t5, t6⟩ | ⟨t1, t2, t3, t4, t5, t6⟩ | ⟨t1, t2, t3, t4, t5, t6⟩ | ⟨t1, t2, t3, t4, t5, t6⟩ <;>
    rcases hd with ⟨d1, d2, d3, d4, d5⟩ | ⟨d1, d2, d3, d4, d5⟩ | ⟨d1, d2, d3, d4, d5⟩ | ⟨d1, d2, d3, d4, d5⟩ |
      ⟨d1, d2, d3, d4, d5⟩ | ⟨d1, d2, d3, d4, d5⟩ <;>
    simp [ctor, argsOf, pointOf, fieldOf, decOf, truthy, hz, t1, t2, t3, t4, t5, t6, d1, d2, d3, d4, d5]
    all_goals (
      by_cases hw : v.week = 0
      · rw [checkBounds_week0 _ _ _ rfl (by simp [hw]), checkBounds_week0 _ _ _ rfl (by simp [hw])]
        simp
      · simp [hw])


/-! ## `_check_bounds` on the point: the date in its own representation and the time of day are legal -/

/-- The date part of `_check_bounds`. -/
def dateBounds (m : Mode) (year month day week doy dow : Option Int) : Bool :=
  inBounds month 1 (calOf m).monthsInYear &&
  (let maxDim : Int := match month with
      | some mo => match year with
        | some y => daysInMonth m y mo
        | none => daysInMonthB m true mo
      | none => (calOf m).maxDaysInMonth
   inBounds day 1 maxDim) &&
  (match year with
   | some y => inBounds week 1 (weeksInYear m y) && inBounds doy 1 (daysInYear m y)
   | none => inBounds week 1 (calOf m).maxWeeksInYear && inBounds doy 1 (calOf m).daysInYearLeap) &&
  inBounds dow 1 (calOf m).daysInWeek

/-- The time part of `_check_bounds`. -/
def timeBounds (m : Mode) (hour minute second : Option Int) (hourDec minuteDec secondDec : Option (List Char)) :
    Bool :=
  (match hour with
   | none => true
   | some h => 0 ≤ h && (h < (calOf m).hoursInDay ||
       (h = (calOf m).hoursInDay && (hourDec.map fracZero).getD true))) &&
  (if hour = some (calOf m).hoursInDay then
     (match minute with
      | none => true
      | some mi => mi = 0 && (minuteDec.map fracZero).getD true) &&
     (match second with
      | none => true
      | some s => s = 0 && (secondDec.map fracZero).getD true)
   else
     (match minute with
      | none => true
      | some mi => 0 ≤ mi && mi < (calOf m).minutesInHour) &&
     (match second with
      | none => true
      | some s => 0 ≤ s && s < (calOf m).secondsInMinute))

theorem checkBounds_split (m : Mode) (p : XTP) :
    checkBounds m p = (dateBounds m p.year p.month p.day p.week p.doy p.dow &&
      timeBounds m p.hour p.minute p.second p.hourDec p.minuteDec p.secondDec) := by
  simp only [checkBounds, dateBounds, timeBounds, Bool.and_assoc]
  rfl

theorem dateBounds_cal (m : Mode) (y mo d : Int) :
    dateBounds m (some y) (some mo) (some d) none none none = true ↔ Spec.ValidCal m y mo d := by
  simp only [dateBounds, inBounds, monthsInYear_eq, Bool.and_true, Bool.and_eq_true, decide_eq_true_eq,
    Spec.ValidCal]
  constructor
  · rintro ⟨⟨h1, h2⟩, h3, h4⟩
    rw [daysInMonth_eq m y mo h1 h2] at h4
    exact ⟨h1, h2, h3, h4⟩
  · rintro ⟨h1, h2, h3, h4⟩
    rw [daysInMonth_eq m y mo h1 h2]
    exact ⟨⟨h1, h2⟩, h3, h4⟩

theorem dateBounds_ord (m : Mode) (y n : Int) :
    dateBounds m (some y) none none none (some n) none = true ↔ Spec.ValidOrd m y n := by
  simp [dateBounds, inBounds, daysInYear_eq, Spec.ValidOrd]

theorem dateBounds_week (m : Mode) (y w d : Int) :
    dateBounds m (some y) none none (some w) none (some d) = true ↔ Spec.ValidWeek m y w d := by
  simp [dateBounds, inBounds, weeksInYear_eq, daysInWeek_eq, Spec.ValidWeek, and_assoc]


/-- The effective hour / minute / second: as spelled, else 0. -/
def hourOf (te : Template) (v : Vals) : Nat := if hasGroup te .hourOfDay then v.hour else 0
def minuteOf (te : Template) (v : Vals) : Nat := if hasGroup te .minuteOfHour then v.minute else 0
def secondOf (te : Template) (v : Vals) : Nat := if hasGroup te .secondOfMinute then v.second else 0

/-- A legal time of day: below 24:00 with minute and second below 60, or exactly 24 with every given
    lower unit zero and every given fraction zero. -/
def TimeValid (te : Template) (v : Vals) : Prop :=
  (hourOf te v < 24 ∧ minuteOf te v < 60 ∧ secondOf te v < 60) ∨
  (hourOf te v = 24 ∧ minuteOf te v = 0 ∧ secondOf te v = 0 ∧
    (hasGroup te .hourDec = true → fracZero v.hourDec = true) ∧
    (hasGroup te .minuteDec = true → fracZero v.minuteDec = true) ∧
    (hasGroup te .secondDec = true → fracZero v.secondDec = true))

instance (te : Template) (v : Vals) : Decidable (TimeValid te v) := by unfold TimeValid; infer_instance

theorem timeBounds_pointOf (cfg : Cfg) (m : Mode) (de te : Template) (v : Vals) (tz : TZ)
    (ht : timeShapeOK te = true) :
    timeBounds m (pointOf cfg de te v tz).hour (pointOf cfg de te v tz).minute (pointOf cfg de te v tz).second
      (pointOf cfg de te v tz).hourDec (pointOf cfg de te v tz).minuteDec (pointOf cfg de te v tz).secondDec = true ↔
    TimeValid te v := by
  have ht := timeShape_cases te ht
  simp only [timePattern, Prod.mk.injEq] at ht
  rcases ht with ⟨t1, t2, t3, t4, t5, t6⟩ | ⟨t1, t2, t3, t4, t5, t6⟩ | ⟨t1, t2, t3, t4, t5, t6⟩ |
      ⟨t1, t2, t3, t4, t5, t6⟩ | ⟨t1, t2, t3, t4, t5, t6⟩ | ⟨t1, t2, t3, t4, t5, t6⟩ | ⟨t1, t2, t3, t4, t5, t6⟩ <;>
    simp [timeBounds, pointOf, TimeValid, hourOf, minuteOf, secondOf, decOf, hoursInDay_eq, minutesInHour_eq,
      secondsInMinute_eq, t1, t2, t3, t4, t5, t6]
  all_goals (
    by_cases h24 : v.hour = 24
    · simp [h24]
    · have h24' : ¬ ((v.hour : Int) = 24) := by omega
      simp [h24, h24']
      omega)

/-- The date the values spell, in the form's own representation, omitted parts at their start. -/
def dateOf (de : Template) (v : Vals) : Date :=
  if hasGroup de .dayOfYear then .ord (yearOf de v) (v.doy : Int)
  else if hasGroup de .weekOfYear then
    .week (yearOf de v) (v.week : Int) (if hasGroup de .dayOfWeek then (v.dow : Int) else 1)
  else
    .cal (yearOf de v) (if hasGroup de .monthOfYear then (v.month : Int) else 1)
      (if hasGroup de .dayOfMonth then (v.day : Int) else 1)

theorem dateBounds_pointOf (cfg : Cfg) (m : Mode) (de te : Template) (v : Vals) (tz : TZ)
    (hd : dateShapeOK de = true) :
    dateBounds m (pointOf cfg de te v tz).year (pointOf cfg de te v tz).month (pointOf cfg de te v tz).day
      (pointOf cfg de te v tz).week (pointOf cfg de te v tz).doy (pointOf cfg de te v tz).dow = true ↔
    (dateOf de v).Valid m := by
  have hd := dateShape_cases de hd
  simp only [datePattern, Prod.mk.injEq] at hd
  rcases hd with ⟨d1, d2, d3, d4, d5⟩ | ⟨d1, d2, d3, d4, d5⟩ | ⟨d1, d2, d3, d4, d5⟩ | ⟨d1, d2, d3, d4, d5⟩ |
      ⟨d1, d2, d3, d4, d5⟩ | ⟨d1, d2, d3, d4, d5⟩ <;>
    simp only [pointOf, dateOf, fieldOf, d1, d2, d3, d4, d5, Bool.or_self, Bool.or_true, Bool.true_or,
      Bool.false_eq_true, if_false, if_true, Date.Valid]
  · exact dateBounds_cal m _ _ _
  · exact dateBounds_cal m _ _ _
  · exact dateBounds_cal m _ _ _
  · exact dateBounds_ord m _ _
  · exact dateBounds_week m _ _ _
  · exact dateBounds_week m _ _ _

/-- The point keeps the representation of the form: its date is `dateOf`. -/
theorem pointOf_date (cfg : Cfg) (de te : Template) (v : Vals) (tz : TZ) (hd : dateShapeOK de = true) :
    (pointOf cfg de te v tz).date? = some (dateOf de v) := by
  have hd := dateShape_cases de hd
  simp only [datePattern, Prod.mk.injEq] at hd
  rcases hd with ⟨d1, d2, d3, d4, d5⟩ | ⟨d1, d2, d3, d4, d5⟩ | ⟨d1, d2, d3, d4, d5⟩ | ⟨d1, d2, d3, d4, d5⟩ |
      ⟨d1, d2, d3, d4, d5⟩ | ⟨d1, d2, d3, d4, d5⟩ <;>
    simp [pointOf, dateOf, fieldOf, XTP.date?, d1, d2, d3, d4, d5]

/-- The zone a zone expression spells is accepted by `TimeZone(...)` iff its minutes are below 60
    (`Z` and `±hh` always are). -/
theorem mkTZ_zoneOf (m : Mode) (zd : ZoneDefault) (t : Template) (v : Vals) (hH : v.tzHour < 100) :
    mkTZ m ((zoneOf zd (some t) v).hour.getD 0) ((zoneOf zd (some t) v).minute.getD 0) =
      if hasGroup t .tzUtc = true ∨ hasGroup t .tzMinute = false ∨ v.tzMinute < 60 then
        some ⟨(zoneOf zd (some t) v).hour.getD 0, (zoneOf zd (some t) v).minute.getD 0⟩
      else none := by
  unfold mkTZ
  rw [minutesInHour_eq]
  cases hU : hasGroup t .tzUtc
  · cases hM : hasGroup t .tzMinute
    · cases hN : (hasGroup t .tzSign && v.tzNeg) <;> simp [zoneOf, hU, hM, hN] <;> omega
    · cases hN : (hasGroup t .tzSign && v.tzNeg) <;> simp [zoneOf, hU, hM, hN] <;>
        (rw [if_neg (by omega)]
         by_cases hm : v.tzMinute < 60
         · rw [if_pos hm, if_neg]; split <;> split <;> omega
         · rw [if_neg hm, if_pos]; split <;> split <;> omega)
  · simp [zoneOf, hU]

end IsoDT.Text

