/-
  IsoDT.Lemmas.TextAccept — acceptance soundness of the text layer: whatever `TimePoint(...)` (as the
  parser calls it, `Text.ctor`) accepts has passed `_check_bounds` and carries a legal offset, and what
  `_check_bounds` lets through is a real date-time of the mode (the converse of `checkBounds_std`).
  Nothing here depends on the parser tables or on the text: every accepted text goes through `ctor`.
-/
import IsoDT.Lemmas.TextRoundParse

namespace IsoDT.Text
open IsoDT IsoDT.Model IsoDT.Lemmas
open IsoDT.Spec (Date TZ TP)

/-! ## `parse` ends in the constructor -/

/-- Every accepted text went through `TimePoint(...)`. -/
theorem parse_ctor (cfg : Cfg) (s : List Char) (b : Bool) (x : XTP) (h : parse cfg s b = some x) :
    ∃ a, ctor cfg.mode a = some x := by
  unfold parse at h
  split at h
  · cases h
  · split at h
    · cases h
    · exact ⟨_, h⟩

/-! ## What `_check_bounds` guarantees, field by field -/

theorem inBounds_some (v lo hi : Int) : inBounds (some v) lo hi = true ↔ lo ≤ v ∧ v ≤ hi := by
  simp [inBounds]

/-- The bounds `_check_bounds` enforces (for any point, truncated or not, with or without fractions). -/
structure BoundFacts (m : Mode) (x : XTP) : Prop where
  month : ∀ mo, x.month = some mo → 1 ≤ mo ∧ mo ≤ 12
  day : ∀ y mo d, x.year = some y → x.month = some mo → x.day = some d → 1 ≤ d ∧ d ≤ daysInMonth m y mo
  week : ∀ y w, x.year = some y → x.week = some w → 1 ≤ w ∧ w ≤ weeksInYear m y
  doy : ∀ y n, x.year = some y → x.doy = some n → 1 ≤ n ∧ n ≤ daysInYear m y
  dow : ∀ d, x.dow = some d → 1 ≤ d ∧ d ≤ 7
  /-- without a year (truncated forms) the day is checked against the month of a leap year -/
  dayNoYear : ∀ mo d, x.year = none → x.month = some mo → x.day = some d →
    1 ≤ d ∧ d ≤ daysInMonthB m true mo
  /-- without a month, against the longest month of the mode -/
  dayNoMonth : ∀ d, x.month = none → x.day = some d → 1 ≤ d ∧ d ≤ (calOf m).maxDaysInMonth
  /-- without a year, week and day-of-year against the longest year of the mode -/
  weekNoYear : ∀ w, x.year = none → x.week = some w → 1 ≤ w ∧ w ≤ (calOf m).maxWeeksInYear
  doyNoYear : ∀ n, x.year = none → x.doy = some n → 1 ≤ n ∧ n ≤ (calOf m).daysInYearLeap
  hour : ∀ h, x.hour = some h → 0 ≤ h ∧ h ≤ 24
  hourFrac : ∀ f, x.hour = some 24 → x.hourDec = some f → fracZero f = true
  minute : ∀ mi, x.minute = some mi → 0 ≤ mi ∧ mi < 60
  minute24 : ∀ mi, x.hour = some 24 → x.minute = some mi → mi = 0
  minuteFrac : ∀ mi f, x.hour = some 24 → x.minute = some mi → x.minuteDec = some f → fracZero f = true
  second : ∀ s, x.second = some s → 0 ≤ s ∧ s < 60
  second24 : ∀ s, x.hour = some 24 → x.second = some s → s = 0
  secondFrac : ∀ s f, x.hour = some 24 → x.second = some s → x.secondDec = some f → fracZero f = true

theorem checkBounds_facts (m : Mode) (x : XTP) (h : checkBounds m x = true) : BoundFacts m x := by
  unfold checkBounds at h
  simp only [Bool.and_eq_true, monthsInYear_eq, daysInWeek_eq, hoursInDay_eq, minutesInHour_eq,
    secondsInMinute_eq] at h
  obtain ⟨⟨⟨⟨⟨h1, h2⟩, h3⟩, h4⟩, h5⟩, h6⟩ := h
  refine ⟨?_, ?_, ?_, ?_, ?_, ?_, ?_, ?_, ?_, ?_, ?_, ?_, ?_, ?_, ?_, ?_, ?_⟩
  · intro mo e; rw [e] at h1; exact (inBounds_some _ _ _).mp h1
  · intro y mo d e1 e2 e3; rw [e1, e2, e3] at h2; exact (inBounds_some _ _ _).mp h2
  · intro y w e1 e2; rw [e1, e2] at h3
    simp only [Bool.and_eq_true] at h3
    exact (inBounds_some _ _ _).mp h3.1
  · intro y n e1 e2; rw [e1, e2] at h3
    simp only [Bool.and_eq_true] at h3
    exact (inBounds_some _ _ _).mp h3.2
  · intro d e; rw [e] at h4; exact (inBounds_some _ _ _).mp h4
  · intro mo d e1 e2 e3; rw [e1, e2, e3] at h2; exact (inBounds_some _ _ _).mp h2
  · intro d e2 e3; rw [e2, e3] at h2; exact (inBounds_some _ _ _).mp h2
  · intro w e1 e2; rw [e1, e2] at h3
    simp only [Bool.and_eq_true] at h3
    exact (inBounds_some _ _ _).mp h3.1
  · intro n e1 e2; rw [e1, e2] at h3
    simp only [Bool.and_eq_true] at h3
    exact (inBounds_some _ _ _).mp h3.2
  · intro hh e; rw [e] at h5
    simp only [Bool.and_eq_true, Bool.or_eq_true, decide_eq_true_eq] at h5
    omega
  · intro f e1 e2; rw [e1, e2] at h5
    simpa using h5
  · intro mi e
    rw [e] at h6
    split at h6
    · simp only [Bool.and_eq_true, decide_eq_true_eq] at h6; omega
    · simp only [Bool.and_eq_true, decide_eq_true_eq] at h6; omega
  · intro mi e1 e2
    rw [e1, e2] at h6
    simp only [if_true, Bool.and_eq_true, decide_eq_true_eq] at h6
    exact h6.1.1
  · intro mi f e1 e2 e3
    rw [e1, e2, e3] at h6
    simp only [if_true, Bool.and_eq_true, decide_eq_true_eq] at h6
    simpa using h6.1.2
  · intro s e
    rw [e] at h6
    split at h6
    · simp only [Bool.and_eq_true, decide_eq_true_eq] at h6; omega
    · simp only [Bool.and_eq_true, decide_eq_true_eq] at h6; omega
  · intro s e1 e2
    rw [e1, e2] at h6
    simp only [if_true, Bool.and_eq_true, decide_eq_true_eq] at h6
    exact h6.2.1
  · intro s f e1 e2 e3
    rw [e1, e2, e3] at h6
    simp only [if_true, Bool.and_eq_true, decide_eq_true_eq] at h6
    simpa using h6.2.2

/-! ## The converse of `checkBounds_std` -/

/-- The date a point shows (`XTP.date?`: month/day first, then day-of-year, then week/weekday) is a real
    date of the mode once `_check_bounds` has passed. -/
theorem date_valid (m : Mode) (x : XTP) (bf : BoundFacts m x) (dt : Date) (hd : x.date? = some dt) :
    dt.Valid m := by
  unfold XTP.date? at hd
  cases hy : x.year with
  | none => rw [hy] at hd; cases hd
  | some y =>
    rw [hy] at hd
    simp only at hd
    split at hd
    · rename_i mo d e1 e2
      cases hd
      have hm := bf.month mo e1
      have hdd := bf.day y mo d hy e1 e2
      rw [daysInMonth_eq m y mo hm.1 hm.2] at hdd
      exact ⟨hm.1, hm.2, hdd.1, hdd.2⟩
    · split at hd
      · rename_i n e3
        cases hd
        have hn := bf.doy y n hy e3
        rw [daysInYear_eq] at hn
        exact ⟨hn.1, hn.2⟩
      · split at hd
        · rename_i w d e4 e5
          cases hd
          have hw := bf.week y w hy e4
          have hdw := bf.dow d e5
          rw [weeksInYear_eq] at hw
          exact ⟨hw.1, hw.2, hdw.1, hdw.2⟩
        · cases hd

/-- **Converse of `checkBounds_std`**: a non-truncated whole-second point (one that `XTP.toTP?` reads as
    a `Spec.TP`) that passes `_check_bounds` and carries a legal offset is valid in the mode.  No side
    condition: `toTP?` already demands the year, one full date representation and the three time fields. -/
theorem checkBounds_valid (m : Mode) (x : XTP) (p : TP) (hp : x.toTP? = some p)
    (hc : checkBounds m x = true) (hz : x.tz.Valid) : p.Valid m := by
  have bf := checkBounds_facts m x hc
  unfold XTP.toTP? at hp
  split at hp
  · cases hp
  · split at hp
    · rename_i dt h mi s e1 e2 e3 e4
      cases hp
      have hh := bf.hour h e2
      have hm := bf.minute mi e3
      have hs := bf.second s e4
      refine ⟨date_valid m x bf dt e1, hh.1, hh.2, hm.1, hm.2, hs.1, hs.2, ?_, hz⟩
      intro h24
      simp only at h24
      subst h24
      exact ⟨bf.minute24 mi e2 e3, bf.second24 s e2 e4⟩
    · cases hp

/-! ## The constructor -/

/-- What `TimePoint.__init__` has established about a point it returns. -/
structure CtorFacts (m : Mode) (a : Args) (x : XTP) : Prop where
  bounds : checkBounds m x = true
  zone : x.tz.Valid
  truncated : x.truncated = a.truncated
  tzKnown : x.truncated = false → x.tzUnknown = false
  year : x.truncated = false → x.year.isSome = true
  date : x.truncated = false →
    x.doy.isSome = true ∨ (x.month.isSome = true ∧ x.day.isSome = true) ∨
      (x.week.isSome = true ∧ x.dow.isSome = true)
  hour : x.truncated = false → x.hour.isSome = true
  hourDec : x.hourDec.isSome = true →
    x.hour.isSome = true ∧ x.minute = none ∧ x.second = none ∧ x.minuteDec = none ∧ x.secondDec = none
  minuteDec : x.minuteDec.isSome = true → x.minute.isSome = true ∧ x.second = none ∧ x.secondDec = none
  secondDec : x.secondDec.isSome = true → x.second.isSome = true
  minute : x.truncated = false → x.hourDec = none → x.minute.isSome = true
  second : x.truncated = false → x.hourDec = none → x.minuteDec = none → x.second.isSome = true

/-- The point `TimePoint.__init__` builds once the offset `tz` is made (before `_check_bounds`). -/
def ctorPoint (a : Args) (tz : TZ) : XTP :=
  let weekSpec := truthy a.week || truthy a.dow
  let fill := !a.truncated && a.doy.isNone
  { ned := a.ned, year := a.year,
    month := if fill && !weekSpec && a.month.isNone then some 1 else a.month,
    day := if fill && !weekSpec && a.day.isNone then some 1 else a.day,
    doy := a.doy,
    week := if fill && weekSpec && a.week.isNone then some 1 else a.week,
    dow := if fill && weekSpec && a.dow.isNone then some 1 else a.dow,
    hour := if !a.truncated && a.hour.isNone then some 0 else a.hour,
    minute := if !a.truncated && a.hourDec.isNone && a.minute.isNone then some 0 else a.minute,
    second :=
      if !a.truncated && a.hourDec.isNone && a.minuteDec.isNone && a.second.isNone then some 0
      else a.second,
    hourDec := a.hourDec, minuteDec := a.minuteDec, secondDec := a.secondDec, tz := tz,
    tzUnknown := a.truncated && a.tzHour.isNone && a.tzMinute.isNone,
    truncated := a.truncated, truncProp := a.truncProp, dumpFmt := a.dumpFmt }

/-- `ctor`, with the point it builds named. -/
theorem ctor_eq (m : Mode) (a : Args) : ctor m a =
    if a.hourDec.isSome && (a.hour.isNone || a.minute.isSome || a.second.isSome) then none
    else if a.minuteDec.isSome && (a.minute.isNone || a.second.isSome) then none
    else if a.secondDec.isSome && a.second.isNone then none
    else if !a.truncated && a.year.isNone then none
    else
      match mkTZ m (a.tzHour.getD 0) (a.tzMinute.getD 0) with
      | none => none
      | some tz =>
        if (truthy a.month || truthy a.day) && (truthy a.week || truthy a.dow) then none
        else if (truthy a.month || truthy a.day) && a.doy.isSome then none
        else if (truthy a.week || truthy a.dow) && a.doy.isSome then none
        else if checkBounds m (ctorPoint a tz) then some (ctorPoint a tz) else none := rfl

/-- Inversion of `ctor`: the guards that did not fire, the offset, the point, the bounds check. -/
theorem ctor_inv (m : Mode) (a : Args) (x : XTP) (h : ctor m a = some x) :
    (a.hourDec.isSome && (a.hour.isNone || a.minute.isSome || a.second.isSome)) = false ∧
    (a.minuteDec.isSome && (a.minute.isNone || a.second.isSome)) = false ∧
    (a.secondDec.isSome && a.second.isNone) = false ∧
    (!a.truncated && a.year.isNone) = false ∧
    ((truthy a.month || truthy a.day) && (truthy a.week || truthy a.dow)) = false ∧
    ((truthy a.month || truthy a.day) && a.doy.isSome) = false ∧
    ((truthy a.week || truthy a.dow) && a.doy.isSome) = false ∧
    ∃ tz, mkTZ m (a.tzHour.getD 0) (a.tzMinute.getD 0) = some tz ∧ x = ctorPoint a tz ∧
      checkBounds m (ctorPoint a tz) = true := by
  rw [ctor_eq] at h
  by_cases g1 : (a.hourDec.isSome && (a.hour.isNone || a.minute.isSome || a.second.isSome)) = true
  · rw [if_pos g1] at h; cases h
  rw [if_neg g1] at h
  by_cases g2 : (a.minuteDec.isSome && (a.minute.isNone || a.second.isSome)) = true
  · rw [if_pos g2] at h; cases h
  rw [if_neg g2] at h
  by_cases g3 : (a.secondDec.isSome && a.second.isNone) = true
  · rw [if_pos g3] at h; cases h
  rw [if_neg g3] at h
  by_cases g4 : (!a.truncated && a.year.isNone) = true
  · rw [if_pos g4] at h; cases h
  rw [if_neg g4] at h
  cases htz : mkTZ m (a.tzHour.getD 0) (a.tzMinute.getD 0) with
  | none => rw [htz] at h; cases h
  | some tz =>
    rw [htz] at h
    simp only at h
    by_cases c1 : ((truthy a.month || truthy a.day) && (truthy a.week || truthy a.dow)) = true
    · rw [if_pos c1] at h; cases h
    rw [if_neg c1] at h
    by_cases c2 : ((truthy a.month || truthy a.day) && a.doy.isSome) = true
    · rw [if_pos c2] at h; cases h
    rw [if_neg c2] at h
    by_cases c3 : ((truthy a.week || truthy a.dow) && a.doy.isSome) = true
    · rw [if_pos c3] at h; cases h
    rw [if_neg c3] at h
    by_cases c4 : checkBounds m (ctorPoint a tz) = true
    · rw [if_pos c4] at h
      exact ⟨Bool.eq_false_iff.mpr g1, Bool.eq_false_iff.mpr g2, Bool.eq_false_iff.mpr g3,
        Bool.eq_false_iff.mpr g4, Bool.eq_false_iff.mpr c1, Bool.eq_false_iff.mpr c2,
        Bool.eq_false_iff.mpr c3, tz, rfl, (Option.some.inj h).symm, c4⟩
    · rw [if_neg c4] at h; cases h

theorem ctor_facts (m : Mode) (a : Args) (x : XTP) (h : ctor m a = some x) : CtorFacts m a x := by
  obtain ⟨g1, g2, g3, g4, c1, c2, c3, tz, htz, rfl, hc⟩ := ctor_inv m a x h
  have hv := (Strf.mkTZ_inv m _ _ tz htz).2
  clear htz h
  refine ⟨hc, hv, rfl, ?_, ?_, ?_, ?_, ?_, ?_, ?_, ?_, ?_⟩ <;> clear hc hv
  · intro ht
    have ht' : a.truncated = false := ht
    simp [ctorPoint, ht']
  · intro ht
    cases hy : a.year <;> simp_all [ctorPoint]
  · intro ht
    have ht' : a.truncated = false := ht
    cases hdoy : a.doy with
    | some n => left; simp [ctorPoint, hdoy]
    | none =>
      right
      by_cases hw : (truthy a.week || truthy a.dow) = true
      · right
        cases hwk : a.week <;> cases hdw : a.dow <;> simp_all [ctorPoint, truthy]
      · left
        cases hmo : a.month <;> cases hdd : a.day <;> simp_all [ctorPoint, truthy]
  · intro ht
    have ht' : a.truncated = false := ht
    cases hh : a.hour <;> simp [ctorPoint, ht', hh]
  · intro hd
    have hd' : a.hourDec.isSome = true := hd
    cases hhd : a.hourDec <;> cases hh : a.hour <;> cases hmi : a.minute <;> cases hs : a.second <;>
      cases hmd : a.minuteDec <;> cases hsd : a.secondDec <;> simp_all [ctorPoint]
  · intro hd
    have hd' : a.minuteDec.isSome = true := hd
    cases hmd : a.minuteDec <;> cases hmi : a.minute <;> cases hs : a.second <;> cases hsd : a.secondDec <;>
      simp_all [ctorPoint]
  · intro hd
    have hd' : a.secondDec.isSome = true := hd
    cases hs : a.second <;> simp_all [ctorPoint]
  · intro ht hd
    have ht' : a.truncated = false := ht
    have hd' : a.hourDec = none := hd
    cases hmi : a.minute <;> simp [ctorPoint, ht', hd', hmi]
  · intro ht hd hd2
    have ht' : a.truncated = false := ht
    have hd' : a.hourDec = none := hd
    have hd2' : a.minuteDec = none := hd2
    cases hs : a.second <;> simp [ctorPoint, ht', hd', hd2', hs]

/-- **(a)** Whatever `TimePoint(...)` returns has passed `_check_bounds` and carries a legal offset. -/
theorem ctor_sound (m : Mode) (a : Args) (x : XTP) (h : ctor m a = some x) :
    checkBounds m x = true ∧ x.tz.Valid :=
  ⟨(ctor_facts m a x h).bounds, (ctor_facts m a x h).zone⟩

/-! ## Points with a decimal part -/

/-- What "a real date-time" means for a NON-truncated point of the text layer, whole-second or with a
    decimal fraction on its last time unit.  The fields may be absent only as the decimal forms dictate:
    `hh,f` has no minute and no second, `hh:mm,f` has no second. -/
structure XTP.ValidX (m : Mode) (x : XTP) : Prop where
  /-- the point shows a date (year + month/day, day-of-year, or week/weekday), real in mode `m` -/
  date : ∃ dt, x.date? = some dt ∧ dt.Valid m
  /-- the offset is within range and of one sign -/
  zone : x.tz.Valid
  /-- the hour is there, `0 ≤ hour ≤ 24` -/
  hour : ∃ h, x.hour = some h ∧ 0 ≤ h ∧ h ≤ 24
  /-- a minute that is there is below 60 -/
  minute : ∀ mi, x.minute = some mi → 0 ≤ mi ∧ mi < 60
  /-- a second that is there is below 60 -/
  second : ∀ s, x.second = some s → 0 ≤ s ∧ s < 60
  /-- hour 24 only as 24:00:00: every lower field is zero and every fraction is zero -/
  hour24 : x.hour = some 24 →
    (∀ mi, x.minute = some mi → mi = 0) ∧ (∀ s, x.second = some s → s = 0) ∧
    (∀ f, x.hourDec = some f → fracZero f = true) ∧ (∀ f, x.minuteDec = some f → fracZero f = true) ∧
    (∀ f, x.secondDec = some f → fracZero f = true)
  /-- a decimal hour excludes every lower unit -/
  hourDecShape : x.hourDec.isSome = true →
    x.minute = none ∧ x.second = none ∧ x.minuteDec = none ∧ x.secondDec = none
  /-- a decimal minute needs the minute and excludes the second -/
  minuteDecShape : x.minuteDec.isSome = true → x.minute.isSome = true ∧ x.second = none ∧ x.secondDec = none
  /-- a decimal second needs the second -/
  secondDecShape : x.secondDec.isSome = true → x.second.isSome = true
  /-- without a decimal hour the minute is there -/
  minutePresent : x.hourDec = none → x.minute.isSome = true
  /-- without a decimal hour or minute the second is there -/
  secondPresent : x.hourDec = none → x.minuteDec = none → x.second.isSome = true

theorem date?_isSome (x : XTP) (hy : x.year.isSome = true)
    (hd : x.doy.isSome = true ∨ (x.month.isSome = true ∧ x.day.isSome = true) ∨
      (x.week.isSome = true ∧ x.dow.isSome = true)) : ∃ dt, x.date? = some dt := by
  unfold XTP.date?
  cases h1 : x.year with
  | none => rw [h1] at hy; cases hy
  | some y =>
    cases h2 : x.month <;> cases h3 : x.day <;> cases h4 : x.doy <;> cases h5 : x.week <;>
      cases h6 : x.dow <;> simp_all

/-- A non-truncated point the constructor returns is a real date-time in the sense of `XTP.ValidX`. -/
theorem ctor_validX (m : Mode) (a : Args) (x : XTP) (h : ctor m a = some x) (ht : x.truncated = false) :
    x.ValidX m := by
  have cf := ctor_facts m a x h
  have bf := checkBounds_facts m x cf.bounds
  obtain ⟨dt, hdt⟩ := date?_isSome x (cf.year ht) (cf.date ht)
  obtain ⟨hh, ehh⟩ := Option.isSome_iff_exists.mp (cf.hour ht)
  refine ⟨⟨dt, hdt, date_valid m x bf dt hdt⟩, cf.zone, ⟨hh, ehh, bf.hour hh ehh⟩, bf.minute, bf.second, ?_,
    fun hd => (cf.hourDec hd).2, cf.minuteDec, cf.secondDec, cf.minute ht, cf.second ht⟩
  intro h24
  refine ⟨fun mi e => bf.minute24 mi h24 e, fun s e => bf.second24 s h24 e, fun f e => bf.hourFrac f h24 e,
    ?_, ?_⟩
  · intro f e
    obtain ⟨mi, emi⟩ := Option.isSome_iff_exists.mp (cf.minuteDec (by rw [e]; rfl)).1
    exact bf.minuteFrac mi f h24 emi e
  · intro f e
    obtain ⟨s, es⟩ := Option.isSome_iff_exists.mp (cf.secondDec (by rw [e]; rfl))
    exact bf.secondFrac s f h24 es e

/-- On whole-second points `ValidX` is `TP.Valid`. -/
theorem validX_toTP (m : Mode) (x : XTP) (p : TP) (hx : x.ValidX m) (hp : x.toTP? = some p) : p.Valid m := by
  unfold XTP.toTP? at hp
  split at hp
  · cases hp
  · split at hp
    · rename_i dt h mi s e1 e2 e3 e4
      cases hp
      obtain ⟨dt', e1', hv⟩ := hx.date
      rw [e1] at e1'
      cases e1'
      obtain ⟨h', e2', b1, b2⟩ := hx.hour
      rw [e2] at e2'
      cases e2'
      have hm := hx.minute mi e3
      have hs := hx.second s e4
      refine ⟨hv, b1, b2, hm.1, hm.2, hs.1, hs.2, ?_, hx.zone⟩
      intro h24
      simp only at h24
      subst h24
      exact ⟨(hx.hour24 e2).1 mi e3, (hx.hour24 e2).2.1 s e4⟩
    · cases hp

/-- A non-truncated point without a decimal part that the constructor returns IS a whole-second point:
    `XTP.toTP?` reads it. -/
theorem ctor_toTP (m : Mode) (a : Args) (x : XTP) (h : ctor m a = some x) (ht : x.truncated = false)
    (h1 : x.hourDec = none) (h2 : x.minuteDec = none) (h3 : x.secondDec = none) :
    ∃ p, x.toTP? = some p := by
  have cf := ctor_facts m a x h
  obtain ⟨dt, hdt⟩ := date?_isSome x (cf.year ht) (cf.date ht)
  obtain ⟨hh, ehh⟩ := Option.isSome_iff_exists.mp (cf.hour ht)
  obtain ⟨mi, emi⟩ := Option.isSome_iff_exists.mp (cf.minute ht h1)
  obtain ⟨ss, ess⟩ := Option.isSome_iff_exists.mp (cf.second ht h1 h2)
  refine ⟨⟨dt, hh, mi, ss, x.tz⟩, ?_⟩
  simp [XTP.toTP?, ht, cf.tzKnown ht, h1, h2, h3, hdt, ehh, emi, ess]

end IsoDT.Text
