/-
  Lemmas about the evaluating CLI model (`Model/Cli2.lean`):

    * every point the command reads is a real date-time of the active mode (`dateParse_valid`,
      `parseIso_valid`, `strptime_valid`);
    * the offset loop is the left fold of `+` over the signed durations (`applyOffsets_eq`), which
      is total on valid points (`addAll_valid`) — so `ExitClass.arith` never happens
      (`applyOffsets_cases`, `dateDiff_spec`);
    * which outcomes each stage can have (`NoTb`: no traceback);
    * the recurrence iteration with a smaller count is a prefix (`iter_take`).
-/
import IsoDT.Model.Cli2
import IsoDT.Lemmas.Strftime
import IsoDT.Lemmas.DurText
import IsoDT.Lemmas.TextAccept
import IsoDT.Lemmas.RecNominalQuery

namespace IsoDT.Lemmas.Cli2
open IsoDT IsoDT.Model IsoDT.Model.Cli IsoDT.Model.Cli2 IsoDT.Lemmas IsoDT.Lemmas.Strf
open IsoDT.Spec (Date TZ TP)

/-! ## Points read from text are valid -/

theorem tz_neg_valid (z : TZ) (h : z.Valid) : (⟨-z.h, -z.mi⟩ : TZ).Valid := by
  unfold TZ.Valid at h ⊢
  simp only
  omega

/-- `TimePointParser.strptime` only returns real date-times (any format, any text). -/
theorem strptime_valid (m : Mode) (cfg : Strf.PCfg) (loc : TZ) (data fmt : List Char) (tp : TP)
    (hl : loc.Valid) (h : Strf.strptime m cfg loc data fmt = .ok tp) : tp.Valid m := by
  unfold Strf.strptime at h
  split at h
  · cases h
  · rename_i pieces _
    split at h
    · cases h
    · split at h
      · cases h
      · rename_i b _
        unfold Strf.assemble at h
        simp only at h
        split at h
        · -- the Unix-time branch
          rename_i txt _
          split at h
          · cases h
          · rename_i n _
            obtain ⟨q, hq, _, hs, htz⟩ := fromUnix_local m n loc hl
            rw [hq] at h
            simp only [Except.ok.injEq] at h
            subst h
            split
            · obtain ⟨⟨a, b', c, d, e, f, g, hh, hz⟩, _⟩ := hs
              exact ⟨a, b', c, d, e, f, g, hh, tz_neg_valid _ hz⟩
            · exact hs.1
        · exact (mkPoint_inv m _ _ _ _ _ _ _ _ _ tp h).2.2.2.2.2

theorem tryStrp_valid (st : Setup) (s fmt : Str) (P : Parsed) (hl : st.loc.Valid)
    (h : tryStrp st s fmt = some P) : P.tp.Valid st.mode := by
  unfold tryStrp at h
  split at h
  · rename_i tp htp
    simp only [Option.some.injEq] at h
    subst h
    exact strptime_valid _ _ _ _ _ _ hl htp
  · cases h

/-- A point read by a built-in strptime format carries that format and no expanded year digits. -/
theorem tryStrp_fmt (st : Setup) (s fmt : Str) (P : Parsed) (h : tryStrp st s fmt = some P) :
    P.fmt = fmt ∧ P.ned = 0 := by
  unfold tryStrp at h
  split at h
  · simp only [Option.some.injEq] at h; subst h; exact ⟨rfl, rfl⟩
  · cases h

theorem textCfg_mode (st : Setup) : st.textCfg.mode = st.mode := rfl

/-- The ISO 8601 parser only returns real date-times (C09 through text). -/
theorem parseIso_valid (st : Setup) (s : Str) (b : Bool) (P : Parsed) (h : parseIso st s b = .ok P) :
    P.tp.Valid st.mode := by
  unfold parseIso at h
  split at h
  · cases h
  · rename_i x hx
    split at h
    · cases h
    · rename_i tp htp
      simp only [Except.ok.injEq] at h
      subst h
      obtain ⟨a, ha⟩ := Text.parse_ctor st.textCfg s b x hx
      obtain ⟨hc, hz⟩ := Text.ctor_sound st.textCfg.mode a x ha
      exact Text.checkBounds_valid st.textCfg.mode x tp htp hc hz

theorem utcIf_spec (st : Setup) (P : Parsed) (hv : P.tp.Valid st.mode) :
    ∃ Q, utcIf st P = .ok Q ∧ Q.tp.Valid st.mode ∧ Q.ned = P.ned ∧ Q.fmt = P.fmt ∧
      Q.tp.inst st.mode = P.tp.inst st.mode ∧ (st.utc = true → Q.tp.tz = ⟨0, 0⟩) ∧
      (st.utc = false → Q = P) := by
  unfold utcIf
  by_cases hu : st.utc = true
  · rw [if_pos hu]
    obtain ⟨q, hq, hi, htz, _, hqv, _⟩ := toTimeZone_spec st.mode P.tp ⟨0, 0⟩ hv utc_valid
    unfold toUtc
    rw [hq]
    exact ⟨_, rfl, hqv, rfl, rfl, hi, fun _ => htz, fun h => absurd hu (by simp [h])⟩
  · rw [if_neg hu]
    exact ⟨P, rfl, hv, rfl, rfl, rfl, fun h => absurd h hu, fun _ => rfl⟩

/-- **Every item the command reads is a real date-time of the selected calendar mode.** -/
theorem dateParse_valid (st : Setup) (item : Str) (P : Parsed) (hl : st.loc.Valid)
    (h : dateParse st item = .ok P) : P.tp.Valid st.mode := by
  unfold dateParse at h
  simp only at h
  split at h
  · cases h
  · rename_i s _
    split at h
    · cases h
    · split at h
      · cases h
      · cases hr : parseAny st s with
        | error f => rw [hr] at h; cases h
        | ok P0 =>
          rw [hr] at h
          simp only at h
          have hv0 : P0.tp.Valid st.mode := by
            unfold parseAny at hr
            split at hr
            · rename_i P1 h1
              simp only [Except.ok.injEq] at hr; subst hr
              exact tryStrp_valid _ _ _ _ hl h1
            · split at hr
              · rename_i P1 h1
                simp only [Except.ok.injEq] at hr; subst hr
                exact tryStrp_valid _ _ _ _ hl h1
              · exact parseIso_valid _ _ _ _ hr
          obtain ⟨Q, hQ, hQv, _⟩ := utcIf_spec st P0 hv0
          rw [hQ] at h
          simp only [Except.ok.injEq] at h
          subst h
          exact hQv

/-! ## The offset loop -/

/-- The signed durations of the offsets (`none` as soon as one is not a duration). -/
def offsetDurs (m : Mode) : List Offset → Res (List Dur)
  | [] => .ok []
  | o :: os =>
    match offsetDur m o with
    | .error f => .error f
    | .ok d =>
      match offsetDurs m os with
      | .error f => .error f
      | .ok ds => .ok (d :: ds)

/-- `p + d₁ + d₂ + …`, left to right. -/
def addAll (m : Mode) (p : TP) : List Dur → Res TP
  | [] => .ok p
  | d :: ds =>
    match addStep m p d with
    | .error f => .error f
    | .ok q => addAll m q ds

/-- Adding is total on valid points, and stays valid. -/
theorem addStep_valid (m : Mode) (p : TP) (d : Dur) (hp : p.Valid m) :
    ∃ q, addStep m p d = .ok q ∧ addDur m p d = some q ∧ q.Valid m ∧ q.tz = p.tz ∧ q.date.rep = p.date.rep := by
  obtain ⟨q, hq, hs, hr, ht⟩ := addDur_total m p d hp
  exact ⟨q, by simp [addStep, hq], hq, hs.1, ht, hr⟩

theorem addAll_valid (m : Mode) (ds : List Dur) : ∀ (p : TP), p.Valid m →
    ∃ q, addAll m p ds = .ok q ∧ q.Valid m ∧ q.tz = p.tz ∧ q.date.rep = p.date.rep := by
  induction ds with
  | nil => intro p hp; exact ⟨p, rfl, hp, rfl, rfl⟩
  | cons d ds ih =>
    intro p hp
    obtain ⟨q, hq, _, hqv, ht, hr⟩ := addStep_valid m p d hp
    obtain ⟨r, hr', hrv, ht', hr''⟩ := ih q hqv
    exact ⟨r, by simp [addAll, hq, hr'], hrv, by rw [ht', ht], by rw [hr'', hr]⟩

/-- **Offsets are applied in the order given**: the loop is the left fold of `+` over the signed
    durations. -/
theorem applyOffsets_eq (m : Mode) (offs : List Offset) : ∀ (ds : List Dur) (p : TP),
    offsetDurs m offs = .ok ds → applyOffsets m p offs = addAll m p ds := by
  induction offs with
  | nil =>
    intro ds p h
    simp only [offsetDurs, Except.ok.injEq] at h
    subst h; rfl
  | cons o os ih =>
    intro ds p h
    unfold offsetDurs at h
    cases ho : offsetDur m o with
    | error f => rw [ho] at h; cases h
    | ok d =>
      rw [ho] at h
      simp only at h
      cases hos : offsetDurs m os with
      | error f => rw [hos] at h; cases h
      | ok ds' =>
        rw [hos] at h
        simp only [Except.ok.injEq] at h
        subst h
        unfold applyOffsets addAll
        rw [ho]
        simp only
        cases hs : addStep m p d with
        | error f => rfl
        | ok q => exact ih ds' q hos

/-- What an offset text can do: it is a duration, or the command exits with "bad offset value",
    or the text is outside the model. -/
theorem offsetDur_cases (m : Mode) (o : Offset) :
    (∃ d, offsetDur m o = .ok d) ∨ offsetDur m o = .error (.exit .offset) ∨
    offsetDur m o = .error (.outside .chars) ∨ offsetDur m o = .error (.outside .duration) := by
  unfold offsetDur
  split
  · exact .inr (.inr (.inl rfl))
  · split
    · exact .inl ⟨_, rfl⟩
    · exact .inr (.inl rfl)
    · exact .inr (.inl rfl)
    · exact .inr (.inr (.inr rfl))

/-- An offset whose text the duration parser refuses ends the command with "bad offset value". -/
theorem offsetDur_bad (m : Mode) (o : Offset) (hp : plain o.duration = true)
    (h : DurText.parse m o.duration = .syntaxErr ∨ DurText.parse m o.duration = .valueErr) :
    offsetDur m o = .error (.exit .offset) := by
  unfold offsetDur
  simp only [hp, Bool.not_true, Bool.false_eq_true, ↓reduceIte]
  rcases h with h | h <;> rw [h]

theorem offsetDurs_cases (m : Mode) (offs : List Offset) :
    (∃ ds, offsetDurs m offs = .ok ds) ∨ offsetDurs m offs = .error (.exit .offset) ∨
    offsetDurs m offs = .error (.outside .chars) ∨ offsetDurs m offs = .error (.outside .duration) := by
  induction offs with
  | nil => exact .inl ⟨[], rfl⟩
  | cons o os ih =>
    unfold offsetDurs
    rcases offsetDur_cases m o with ⟨d, hd⟩ | hd | hd | hd
    · rw [hd]
      simp only
      rcases ih with ⟨ds, hds⟩ | hds | hds | hds
      · rw [hds]; exact .inl ⟨_, rfl⟩
      · rw [hds]; exact .inr (.inl rfl)
      · rw [hds]; exact .inr (.inr (.inl rfl))
      · rw [hds]; exact .inr (.inr (.inr rfl))
    · rw [hd]; exact .inr (.inl rfl)
    · rw [hd]; exact .inr (.inr (.inl rfl))
    · rw [hd]; exact .inr (.inr (.inr rfl))

/-- The offset loop on a valid point: a valid point again, or the first offset that is not a
    duration decides (never a failed point operation, never a traceback). -/
theorem applyOffsets_cases (m : Mode) (offs : List Offset) : ∀ (p : TP), p.Valid m →
    (∃ q, applyOffsets m p offs = .ok q ∧ q.Valid m ∧ q.tz = p.tz) ∨
    applyOffsets m p offs = .error (.exit .offset) ∨
    applyOffsets m p offs = .error (.outside .chars) ∨ applyOffsets m p offs = .error (.outside .duration) := by
  induction offs with
  | nil => intro p hp; exact .inl ⟨p, rfl, hp, rfl⟩
  | cons o os ih =>
    intro p hp
    unfold applyOffsets
    rcases offsetDur_cases m o with ⟨d, hd⟩ | hd | hd | hd
    · rw [hd]
      simp only
      obtain ⟨q, hq, _, hqv, ht, _⟩ := addStep_valid m p d hp
      rw [hq]
      simp only
      rcases ih q hqv with ⟨r, hr, hrv, hrt⟩ | h | h | h
      · exact .inl ⟨r, hr, hrv, by rw [hrt, ht]⟩
      · exact .inr (.inl h)
      · exact .inr (.inr (.inl h))
      · exact .inr (.inr (.inr h))
    · rw [hd]; exact .inr (.inl rfl)
    · rw [hd]; exact .inr (.inr (.inl rfl))
    · rw [hd]; exact .inr (.inr (.inr rfl))

/-- **A malformed offset anywhere in the list** (the ones before it being durations) ends the
    command with "bad offset value". -/
theorem applyOffsets_bad (m : Mode) (pre : List Offset) (o : Offset) (post : List Offset) (ds : List Dur)
    (hpre : offsetDurs m pre = .ok ds) (ho : offsetDur m o = .error (.exit .offset)) :
    ∀ (p : TP), p.Valid m → applyOffsets m p (pre ++ o :: post) = .error (.exit .offset) := by
  induction pre generalizing ds with
  | nil =>
    intro p _
    simp only [List.nil_append]
    unfold applyOffsets
    rw [ho]
  | cons x xs ih =>
    intro p hp
    unfold offsetDurs at hpre
    cases hx : offsetDur m x with
    | error f => rw [hx] at hpre; cases hpre
    | ok d =>
      rw [hx] at hpre
      simp only at hpre
      cases hxs : offsetDurs m xs with
      | error f => rw [hxs] at hpre; cases hpre
      | ok ds' =>
        simp only [List.cons_append]
        unfold applyOffsets
        rw [hx]
        simp only
        obtain ⟨q, hq, _, hqv, _⟩ := addStep_valid m p d hp
        rw [hq]
        exact ih ds' hxs q hqv

/-! ## The difference of two points -/

/-- `date_diff` on valid points: `neg` says whether the second point is the earlier one, `d` is the
    non-negative distance in days, hours, minutes, seconds; adding the SIGNED distance to the first
    point lands on the instant of the second (C04), and it compares equal to it (C02). -/
theorem dateDiff_spec (m : Mode) (p1 p2 : TP) (h1 : p1.Valid m) (h2 : p2.Valid m) :
    ∃ neg dd hh mm ss, dateDiff m p1 p2 = .ok (neg, .units 0 0 dd hh mm ss) ∧
      (neg = true ↔ p2.inst m < p1.inst m) ∧
      (0 ≤ dd ∧ 0 ≤ hh ∧ hh < 24 ∧ 0 ≤ mm ∧ mm < 60 ∧ 0 ≤ ss ∧ ss < 60) ∧
      86400 * dd + 3600 * hh + 60 * mm + ss = (if neg then p1.inst m - p2.inst m else p2.inst m - p1.inst m) ∧
      (neg = true → (Dur.units 0 0 dd hh mm ss).nonzero = true) ∧
      ∃ r, addDur m p1 (if neg then (Dur.units 0 0 dd hh mm ss).neg else .units 0 0 dd hh mm ss) = some r ∧
        r.inst m = p2.inst m ∧ cmp m r p2 = some 0 := by
  unfold dateDiff
  rw [cmp_spec m p2 p1 h2 h1]
  simp only
  by_cases c : p2.inst m < p1.inst m
  · have hs : sgn (p2.inst m - p1.inst m) < 0 := by
      have := (sgn_neg_iff (p2.inst m - p1.inst m)).2 (by omega); omega
    simp only [hs, decide_true, ↓reduceIte]
    obtain ⟨dd, hh, mm, ss, e, hl, hr, hsg⟩ := subTP_spec m p1 p2 h1 h2
    rw [e]
    refine ⟨true, dd, hh, mm, ss, rfl, by simp [c], by omega, by simp only [↓reduceIte]; omega, ?_, ?_⟩
    · intro _
      simp only [Dur.nonzero, Bool.or_eq_true, bne_iff_ne, ne_eq]
      by_cases z : dd = 0
      · by_cases z2 : hh = 0
        · by_cases z3 : mm = 0
          · right; omega
          · left; right; exact z3
        · left; left; right; exact z2
      · left; left; left; right; exact z
    · -- p1 + (-(p1 - p2)) lands on p2
      simp only [↓reduceIte, Dur.neg, Dur.mul]
      obtain ⟨q, eq', g⟩ := addDur_exact_units m p1 (dd * -1) (hh * -1) (mm * -1) (ss * -1) h1
      have e0 : (0 : Int) * -1 = 0 := by omega
      rw [e0]
      have hi : q.inst m = p2.inst m := by rw [g.inst]; omega
      refine ⟨q, eq', hi, ?_⟩
      rw [cmp_spec m q p2 g.strict.1 h2, hi]; simp [sgn]
  · have hs : ¬ sgn (p2.inst m - p1.inst m) < 0 := by
      unfold sgn
      split
      · omega
      · split <;> omega
    simp only [hs, decide_false, Bool.false_eq_true, ↓reduceIte]
    obtain ⟨dd, hh, mm, ss, e, hl, hr, hsg⟩ := subTP_spec m p2 p1 h2 h1
    rw [e]
    refine ⟨false, dd, hh, mm, ss, rfl, by simp [c], by omega, by simp only [Bool.false_eq_true, ↓reduceIte]; omega,
      by simp, ?_⟩
    simp only [Bool.false_eq_true, ↓reduceIte]
    obtain ⟨q, eq', g⟩ := addDur_exact_units m p1 dd hh mm ss h1
    have hi : q.inst m = p2.inst m := by rw [g.inst]; omega
    refine ⟨q, eq', hi, ?_⟩
    rw [cmp_spec m q p2 g.strict.1 h2, hi]; simp [sgn]

/-! ## Recurrence iteration: a smaller count prints a prefix -/

theorem iterFrom_take (m : Mode) (r : Rec) (rev : Bool) (k : Nat) : ∀ (n : Nat) (p : TP),
    iterFrom m r rev n p = (iterFrom m r rev (n + k) p).take n := by
  intro n
  induction n with
  | zero => intro p; simp [iterFrom]
  | succ n ih =>
    intro p
    have e : n + 1 + k = (n + k) + 1 := by omega
    rw [e]
    unfold iterFrom
    split
    · simp only [List.take_succ_cons, List.cons.injEq, true_and]
      split
      · exact ih _
      · simp
    · simp

/-- **In order**: the first `n` points are the first `n` of any longer run. -/
theorem iter_take (m : Mode) (r : Rec) (n k : Nat) : iter m r n = (iter m r (n + k)).take n := by
  unfold iter
  simp only
  cases (if r.start.isNone then r.end_ else r.start) with
  | none => simp
  | some p =>
    simp only
    generalize (r.reps == some 1 || (match r.dur with | none => true | some d => !d.nonzero)) = c
    cases c with
    | true =>
      simp only [↓reduceIte]
      by_cases hn : n = 0
      · subst hn; simp
      · have hnk : n + k ≠ 0 := by omega
        simp only [hn, hnk, ↓reduceIte]
        split
        · cases n with
          | zero => exact absurd rfl hn
          | succ n => simp
        · simp
    | false =>
      simp only [Bool.false_eq_true, ↓reduceIte]
      exact iterFrom_take m r _ k n _

theorem iterFrom_length_le (m : Mode) (r : Rec) (rev : Bool) : ∀ (n : Nat) (p : TP),
    (iterFrom m r rev n p).length ≤ n := by
  intro n
  induction n with
  | zero => intro p; simp [iterFrom]
  | succ n ih =>
    intro p
    unfold iterFrom
    split
    · simp only [List.length_cons]
      split
      · rename_i q _
        have := ih q; omega
      · simp
    · simp

/-- At most `n` points are printed. -/
theorem iter_length_le (m : Mode) (r : Rec) (n : Nat) : (iter m r n).length ≤ n := by
  unfold iter
  simp only
  cases (if r.start.isNone then r.end_ else r.start) with
  | none => simp
  | some p =>
    simp only
    generalize (r.reps == some 1 || (match r.dur with | none => true | some d => !d.nonzero)) = c
    cases c with
    | true =>
      simp only [↓reduceIte]
      by_cases hn : n = 0
      · subst hn; simp
      · simp only [hn, ↓reduceIte]
        split <;> simp <;> omega
    | false =>
      simp only [Bool.false_eq_true, ↓reduceIte]
      exact iterFrom_length_le m r _ n p

/-! ## `mapRes` -/

theorem mapRes_ok {α β : Type} (f : α → Res β) : ∀ (l : List α) (out : List β), mapRes f l = .ok out →
    out.length = l.length ∧ ∀ (i : Nat) (hi : i < l.length) (ho : i < out.length), f l[i] = .ok out[i] := by
  intro l
  induction l with
  | nil =>
    intro out h
    simp only [mapRes, Except.ok.injEq] at h
    subst h
    exact ⟨rfl, fun i hi => absurd hi (by simp)⟩
  | cons x xs ih =>
    intro out h
    unfold mapRes at h
    cases hx : f x with
    | error e => rw [hx] at h; cases h
    | ok y =>
      rw [hx] at h
      simp only at h
      cases hxs : mapRes f xs with
      | error e => rw [hxs] at h; cases h
      | ok ys =>
        rw [hxs] at h
        simp only [Except.ok.injEq] at h
        subst h
        obtain ⟨hl, hg⟩ := ih ys hxs
        refine ⟨by simp [hl], ?_⟩
        intro i hi ho
        cases i with
        | zero => simpa using hx
        | succ i =>
          simp only [List.getElem_cons_succ]
          exact hg i (by simpa using hi) (by simpa using ho)

/-- The first element that fails decides, with its own failure. -/
theorem mapRes_error {α β : Type} (f : α → Res β) : ∀ (l : List α) (e : Fail), mapRes f l = .error e →
    ∃ x ∈ l, f x = .error e := by
  intro l
  induction l with
  | nil => intro e h; cases h
  | cons x xs ih =>
    intro e h
    unfold mapRes at h
    cases hx : f x with
    | error e' =>
      rw [hx] at h
      simp only [Except.error.injEq] at h
      subst h
      exact ⟨x, by simp, hx⟩
    | ok y =>
      rw [hx] at h
      simp only at h
      cases hxs : mapRes f xs with
      | error e' =>
        rw [hxs] at h
        simp only [Except.error.injEq] at h
        subst h
        obtain ⟨z, hz, hfz⟩ := ih e' hxs
        exact ⟨z, by simp [hz], hfz⟩
      | ok ys => rw [hxs] at h; cases h


/-! ## Which failures each stage can have -/

/-- Failures that are neither a traceback nor a failed point operation: an exit with a message
    about the input, or an input outside the model. -/
def Benign : Fail → Prop
  | .exit .arith => False
  | .traceback _ => False
  | _ => True

theorem toTimeZone_no_overflow (m : Mode) (p : Text.XTP) (z : TZ) : p.toTimeZone m z ≠ .error .overflow := by
  intro h
  unfold Text.XTP.toTimeZone at h
  split at h
  · cases h
  · split at h
    · cases h
    · split at h <;> cases h

theorem dumpExpr_no_overflow (m : Mode) (dt : IsoDT.Text.DumpTables) (p : Text.XTP) (e : Text.Expr) :
    Text.dumpExpr m dt p e ≠ .error .overflow := by
  intro h
  unfold Text.dumpExpr at h
  simp only [bind, Except.bind] at h
  split at h
  · rename_i e1 h1
    cases h
    revert h1
    repeat' split
    all_goals (intro h1; cases h1)
  · split at h
    · rename_i e2 h2
      cases h
      revert h2
      repeat' split
      all_goals (intro h2; first | cases h2 | exact absurd h2 (toTimeZone_no_overflow _ _ _))
    · split at h
      · rename_i e3 h3
        cases h
        revert h3
        repeat' split
        all_goals (intro h3; cases h3)
      · repeat' split at h
        all_goals cases h

/-- `TimePointDumper.dump` never raises `OverflowError` (only `str()` does, through
    `_get_dump_format`). -/
theorem dump_no_overflow (m : Mode) (dt : IsoDT.Text.DumpTables) (p : Text.XTP) (fmt : List Char) :
    Text.dump m dt p fmt ≠ .error .overflow := by
  intro h
  unfold Text.dump at h
  split at h
  · cases h
  · split at h
    · cases h
    · exact dumpExpr_no_overflow _ _ _ _ h

theorem formatPoint_benign (m : Mode) (ned : Nat) (p : TP) (fmt : Str) (f : Fail)
    (h : formatPoint m ned p fmt = .error f) : Benign f := by
  unfold formatPoint at h
  split at h
  · cases h; trivial
  · split at h
    · split at h
      · cases h
      · cases h; trivial
      · cases h; trivial
    · split at h
      · cases h; trivial
      · split at h
        · cases h
        · cases h; trivial
        · rename_i hd
          exact absurd hd (dump_no_overflow _ _ _ _)
        · cases h; trivial

theorem strPoint_cases (m : Mode) (ned : Nat) (p : TP) (f : Fail) (h : strPoint m ned p = .error f) :
    Benign f ∨ f = .traceback .overflowError := by
  unfold strPoint at h
  split at h
  · cases h
  · cases h; exact .inl trivial
  · cases h; exact .inr rfl
  · cases h; exact .inl trivial

theorem parseIso_benign (st : Setup) (s : Str) (b : Bool) (f : Fail) (h : parseIso st s b = .error f) :
    Benign f := by
  unfold parseIso at h
  split at h
  · cases h; trivial
  · split at h
    · cases h; trivial
    · cases h

theorem parseAny_valid (st : Setup) (s : Str) (P : Parsed) (hl : st.loc.Valid) (h : parseAny st s = .ok P) :
    P.tp.Valid st.mode := by
  unfold parseAny at h
  split at h
  · rename_i P1 h1
    simp only [Except.ok.injEq] at h; subst h
    exact tryStrp_valid _ _ _ _ hl h1
  · split at h
    · rename_i P1 h1
      simp only [Except.ok.injEq] at h; subst h
      exact tryStrp_valid _ _ _ _ hl h1
    · exact parseIso_valid _ _ _ _ h

theorem parseAny_benign (st : Setup) (s : Str) (f : Fail) (h : parseAny st s = .error f) : Benign f := by
  unfold parseAny at h
  split at h
  · cases h
  · split at h
    · cases h
    · exact parseIso_benign _ _ _ _ h

/-- An item that cannot be read ends the command with a message (or lies outside the model):
    never a traceback, never a failed point operation. -/
theorem dateParse_benign (st : Setup) (item : Str) (f : Fail) (hl : st.loc.Valid)
    (h : dateParse st item = .error f) : Benign f := by
  unfold dateParse at h
  simp only at h
  split at h
  · cases h; trivial
  · rename_i s _
    split at h
    · cases h; trivial
    · split at h
      · cases h; trivial
      · cases hr : parseAny st s with
        | error f' =>
          rw [hr] at h
          simp only [Except.error.injEq] at h
          subst h
          exact parseAny_benign _ _ _ hr
        | ok P0 =>
          rw [hr] at h
          simp only at h
          obtain ⟨Q, hQ, _⟩ := utcIf_spec st P0 (parseAny_valid _ _ _ hl hr)
          rw [hQ] at h
          cases h

theorem applyOffsets_benign (m : Mode) (offs : List Offset) (p : TP) (hp : p.Valid m) (f : Fail)
    (h : applyOffsets m p offs = .error f) : Benign f := by
  rcases applyOffsets_cases m offs p hp with ⟨q, hq, _⟩ | h' | h' | h'
  · rw [hq] at h; cases h
  · rw [h'] at h; cases h; trivial
  · rw [h'] at h; cases h; trivial
  · rw [h'] at h; cases h; trivial

theorem formatDurationStr_benign (st : Setup) (text unit : Str) (f : Fail)
    (h : formatDurationStr st text unit = .error f) : Benign f := by
  unfold formatDurationStr at h
  split at h
  · cases h; trivial
  · split at h
    · split at h
      · cases h; trivial
      · split at h
        · cases h
        · cases h; trivial
    · cases h; trivial
    · cases h; trivial
    · cases h; trivial

theorem optPoint_benign (st : Setup) (o : Option Str) (f : Fail) (h : optPoint st o = .error f) : Benign f := by
  unfold optPoint at h
  split at h
  · cases h
  · rename_i s
    cases hp : parseIso st s false with
    | error f' =>
      rw [hp] at h
      simp only [Except.map, Except.error.injEq] at h
      subst h
      exact parseIso_benign _ _ _ _ hp
    | ok P => rw [hp] at h; simp [Except.map] at h

theorem optDur_benign (m : Mode) (o : Option Str) (f : Fail) (h : optDur m o = .error f) : Benign f := by
  unfold optDur at h
  split at h
  · cases h
  · split at h
    · cases h
    · cases h; trivial
    · cases h; trivial
    · cases h; trivial

/-- A recurrence text that cannot be read ends the command with a message. -/
theorem parseRec_benign (st : Setup) (s : Str) (f : Fail) (h : parseRec st s = .error f) : Benign f := by
  unfold parseRec at h
  split at h
  · cases h; trivial
  · split at h
    · cases h; trivial
    · split at h
      · rename_i f' hf
        simp only [Except.error.injEq] at h; subst h
        exact optPoint_benign _ _ _ hf
      · split at h
        · rename_i f' hf
          simp only [Except.error.injEq] at h; subst h
          exact optPoint_benign _ _ _ hf
        · split at h
          · rename_i f' hf
            simp only [Except.error.injEq] at h; subst h
            exact optDur_benign _ _ _ hf
          · split at h
            · cases h; trivial
            · cases h

theorem setup_spec (env : Env) (a : Args) (st : Setup) (h : setup env a = .ok st) :
    resolveMode (ctxOf a env.envCalendar env.envRef).calendar = .ok st.mode ∧ st.utc = a.utc ∧
    st.loc = env.localTZ ∧ st.ref = (ctxOf a env.envCalendar env.envRef).ref ∧ st.floatRepr = env.floatRepr ∧
    a.parseFormat = none := by
  unfold setup at h
  simp only at h
  split at h
  · cases h
  · rename_i m hm
    split at h
    · cases h
    · rename_i hpf
      simp only [Except.ok.injEq] at h
      subst h
      refine ⟨hm, rfl, rfl, rfl, rfl, ?_⟩
      simp only [Cli.ctxOf] at hpf
      cases hp : a.parseFormat with
      | none => rfl
      | some x => rw [hp] at hpf; simp at hpf

theorem setup_error (env : Env) (a : Args) (f : Fail) (h : setup env a = .error f) :
    Benign f ∨ (f = .traceback .keyError ∧
      resolveMode (ctxOf a env.envCalendar env.envRef).calendar = .error (.traceback .keyError)) := by
  unfold setup at h
  simp only at h
  split at h
  · rename_i f' hf
    simp only [Except.error.injEq] at h
    subst h
    unfold resolveMode at hf
    split at hf
    · cases hf
    · split at hf
      · cases hf
      · split at hf
        · cases hf; exact .inl trivial
        · split at hf
          · cases hf
          · rename_i s _ _ _ hmn
            cases hf
            refine .inr ⟨rfl, ?_⟩
            unfold resolveMode
            simp_all
  · split at h
    · cases h; exact .inl trivial
    · cases h

theorem cliEval_eq (env : Env) (a : Args) (st : Setup) (hv : a.version = false) (hn : a.items ≠ [['-']])
    (hst : setup env a = .ok st) : cliEval env a = evalPlan st (plan a) := by
  unfold cliEval
  simp [hv, hn, hst]


/-! ## `str(Duration)` is printable ASCII without a backslash -/

/-- The characters `Duration.__str__` writes. -/
def DurChar (c : Char) : Prop :=
  DurText.isDig c = true ∨ c ∈ ['-', ',', 'P', 'Y', 'M', 'D', 'T', 'H', 'S', 'W']

theorem intText_durChar (z : Int) : ∀ c ∈ DurText.intText z, DurChar c := by
  intro c hc
  unfold DurText.intText at hc
  split at hc
  · rcases List.mem_cons.1 hc with h | h
    · subst h; exact .inr (by simp)
    · exact .inl (IsoDT.Lemmas.DurText.natDigits_digs _ c h)
  · exact .inl (IsoDT.Lemmas.DurText.natDigits_digs _ c hc)

theorem unitPart_durChar (v : Int) (u : Char) (hu : DurChar u) : ∀ c ∈ DurText.unitPart v u, DurChar c := by
  intro c hc
  unfold DurText.unitPart at hc
  split at hc
  · rcases List.mem_append.1 hc with h | h
    · exact intText_durChar v c h
    · simp only [List.mem_cons, List.not_mem_nil, or_false] at h; subst h; exact hu
  · cases hc

theorem replaceDot_durChar (s : List Char) (h : ∀ c ∈ s, DurChar c) : ∀ c ∈ DurText.replaceDot s, DurChar c := by
  intro c hc
  unfold DurText.replaceDot at hc
  obtain ⟨x, hx, rfl⟩ := List.mem_map.1 hc
  split
  · exact .inr (by simp)
  · exact h x hx

theorem mem_of_mem_dropLast {α : Type} : ∀ (l : List α) (a : α), a ∈ l.dropLast → a ∈ l
  | [], _, h => by cases h
  | [_], _, h => by cases h
  | x :: y :: t, a, h => by
    rw [List.dropLast_cons_cons] at h
    rcases List.mem_cons.1 h with h | h
    · subst h; simp
    · exact List.mem_cons_of_mem _ (mem_of_mem_dropLast (y :: t) a h)

theorem stripT_durChar (s : List Char) (h : ∀ c ∈ s, DurChar c) : ∀ c ∈ DurText.stripT s, DurChar c := by
  intro c hc
  unfold DurText.stripT at hc
  split at hc
  · exact h c (mem_of_mem_dropLast _ _ hc)
  · exact h c hc

theorem toTextPos_durChar (d : Dur) : ∀ c ∈ DurText.toTextPos d, DurChar c := by
  have hl : ∀ u ∈ ['-', ',', 'P', 'Y', 'M', 'D', 'T', 'H', 'S', 'W'], DurChar u := fun u hu => .inr hu
  cases d with
  | weeks w =>
    unfold DurText.toTextPos
    apply replaceDot_durChar
    intro c hc
    rcases List.mem_cons.1 hc with h | h
    · subst h; exact hl _ (by simp)
    · rcases List.mem_append.1 h with h | h
      · exact intText_durChar w c h
      · simp only [List.mem_cons, List.not_mem_nil, or_false] at h; subst h; exact hl _ (by simp)
  | units y mo d h mi s =>
    unfold DurText.toTextPos
    apply replaceDot_durChar
    intro c hc
    rcases List.mem_cons.1 hc with h' | h'
    · subst h'; exact hl _ (by simp)
    · refine stripT_durChar _ ?_ c h'
      intro x hx
      simp only [List.mem_append, List.mem_cons, List.not_mem_nil, or_false] at hx
      rcases hx with ((((hx | hx) | (hx | hx)) | hx) | hx) | hx
      · exact unitPart_durChar y 'Y' (hl _ (by simp)) x hx
      · exact unitPart_durChar mo 'M' (hl _ (by simp)) x hx
      · exact unitPart_durChar d 'D' (hl _ (by simp)) x hx
      · subst hx; exact hl _ (by simp)
      · exact unitPart_durChar h 'H' (hl _ (by simp)) x hx
      · exact unitPart_durChar mi 'M' (hl _ (by simp)) x hx
      · exact unitPart_durChar s 'S' (hl _ (by simp)) x hx

theorem toText_durChar (d : Dur) : ∀ c ∈ DurText.toText d, DurChar c := by
  intro c hc
  unfold DurText.toText at hc
  split at hc
  · simp only [List.mem_cons, List.not_mem_nil, or_false] at hc
    rcases hc with h | h | h
    · subst h; exact .inr (by simp)
    · subst h; exact .inl (by decide)
    · subst h; exact .inr (by simp)
  · split at hc
    · rcases List.mem_cons.1 hc with h | h
      · subst h; exact .inr (by simp)
      · exact toTextPos_durChar _ c h
    · exact toTextPos_durChar _ c hc

theorem durChar_plain (c : Char) (h : DurChar c) : plainChar c = true ∧ c ≠ '\\' := by
  rcases h with h | h
  · rw [IsoDT.Lemmas.DurText.isDig_iff] at h
    refine ⟨by simp only [plainChar, Bool.and_eq_true, decide_eq_true_eq]; omega, ?_⟩
    intro e; subst e; revert h; decide
  · simp only [List.mem_cons, List.not_mem_nil, or_false] at h
    rcases h with h | h | h | h | h | h | h | h | h | h <;> subst h <;> exact ⟨by decide, by decide⟩

/-- `str(Duration)` is printable ASCII and has no backslash for `format_duration_str` to remove. -/
theorem toText_plain (D : Dur) :
    plain (DurText.toText D) = true ∧ unescape (DurText.toText D) = DurText.toText D := by
  have h := toText_durChar D
  refine ⟨?_, ?_⟩
  · unfold plain
    rw [List.all_eq_true]
    intro c hc
    exact (durChar_plain c (h c hc)).1
  · unfold unescape
    rw [List.filter_eq_self]
    intro c hc
    simpa using (durChar_plain c (h c hc)).2


/-! ## The outcomes of the whole command -/

theorem map_error {α β : Type} (x : Res α) (g : α → β) (f : Fail) (h : x.map g = .error f) : x = .error f := by
  cases x with
  | error e => simpa [Except.map] using h
  | ok v => simp [Except.map] at h

theorem shiftPrint_benign (st : Setup) (i : Str) (offs : List Offset) (pf : Option Str) (f : Fail)
    (hl : st.loc.Valid) (h : shiftPrint st i offs pf = .error f) : Benign f := by
  unfold shiftPrint at h
  split at h
  · rename_i f' hf
    simp only [Except.error.injEq] at h; subst h
    exact dateParse_benign st i _ hl hf
  · rename_i P hP
    split at h
    · rename_i f' hf
      simp only [Except.error.injEq] at h; subst h
      exact applyOffsets_benign _ _ _ (dateParse_valid st i P hl hP) _ hf
    · exact formatPoint_benign _ _ _ _ _ h

theorem diffPrint_benign (st : Setup) (i1 i2 : Str) (o1 o2 : List Offset) (pf tot : Option Str) (f : Fail)
    (hl : st.loc.Valid) (h : diffPrint st i1 i2 o1 o2 pf tot = .error f) : Benign f := by
  unfold diffPrint at h
  split at h
  · rename_i f' hf
    simp only [Except.error.injEq] at h; subst h
    exact dateParse_benign st i1 _ hl hf
  · rename_i P1 hP1
    split at h
    · rename_i f' hf
      simp only [Except.error.injEq] at h; subst h
      exact dateParse_benign st i2 _ hl hf
    · rename_i P2 hP2
      have v1 := dateParse_valid st i1 P1 hl hP1
      have v2 := dateParse_valid st i2 P2 hl hP2
      split at h
      · rename_i f' hf
        simp only [Except.error.injEq] at h; subst h
        exact applyOffsets_benign _ _ _ v1 _ hf
      · rename_i q1 hq1
        split at h
        · rename_i f' hf
          simp only [Except.error.injEq] at h; subst h
          exact applyOffsets_benign _ _ _ v2 _ hf
        · rename_i q2 hq2
          have w1 : q1.Valid st.mode := by
            rcases applyOffsets_cases st.mode o1 P1.tp v1 with ⟨q, hq, hv, _⟩ | h' | h' | h'
            · rw [hq] at hq1; cases hq1; exact hv
            all_goals (rw [h'] at hq1; cases hq1)
          have w2 : q2.Valid st.mode := by
            rcases applyOffsets_cases st.mode o2 P2.tp v2 with ⟨q, hq, hv, _⟩ | h' | h' | h'
            · rw [hq] at hq2; cases hq2; exact hv
            all_goals (rw [h'] at hq2; cases hq2)
          obtain ⟨neg, dd, hh, mm, ss, hdd, _⟩ := dateDiff_spec st.mode q1 q2 w1 w2
          rw [hdd] at h
          simp only at h
          split at h
          · split at h
            · cases h; trivial
            · split at h
              · exact formatDurationStr_benign _ _ _ _ h
              · cases h
          · split at h
            · exact formatDurationStr_benign _ _ _ _ h
            · cases h

/-- A recurrence argument: the only traceback is `str()` of a point (no print format given). -/
theorem recPrint_cases (st : Setup) (i : Str) (pf : Option Str) (mx : Int) (f : Fail)
    (h : recPrint st i pf mx = .error f) :
    Benign f ∨ (f = .traceback .overflowError ∧ given pf = none) := by
  unfold recPrint at h
  split at h
  · rename_i f' hf
    simp only [Except.error.injEq] at h; subst h
    exact .inl (parseRec_benign _ _ _ hf)
  · obtain ⟨p, _, hp⟩ := mapRes_error _ _ _ h
    unfold formatRecPoint at hp
    split at hp
    · exact .inl (formatPoint_benign _ _ _ _ _ hp)
    · rename_i hg
      rcases strPoint_cases _ _ _ _ hp with h' | h'
      · exact .inl h'
      · exact .inr ⟨h', hg⟩

theorem plan_recurrence (a : Args) (i : Str) (pf : Option Str) (mx : Int) (h : plan a = .recurrence i pf mx) :
    pf = a.printFormat ∧ mx = a.maxResults := by
  unfold plan at h
  split at h
  · cases h
  · split at h
    · cases h
    · split at h
      · simp only [Plan.recurrence.injEq] at h; exact ⟨h.2.1.symm, h.2.2.symm⟩
      · split at h <;> cases h
    · cases h

/-- **No other outcome.**  Whatever the arguments and the environment, the command either prints
    lines, or fails in a way that is benign (exit with a message about the input, or an input
    outside the model), or takes one of exactly two traceback paths: an unknown calendar name (it can
    only come from `$ISODATETIMECALENDAR`: `argparse` restricts `--calendar`), or `str()` of a
    recurrence point when no print format is given (`OverflowError` for a negative year). -/
theorem cliEval_error_cases (env : Env) (a : Args) (f : Fail) (hl : env.localTZ.Valid)
    (h : cliEval env a = .error f) :
    Benign f ∨
    (f = .traceback .keyError ∧
      resolveMode (ctxOf a env.envCalendar env.envRef).calendar = .error (.traceback .keyError)) ∨
    (f = .traceback .overflowError ∧ given a.printFormat = none ∧
      ∃ i, plan a = .recurrence i a.printFormat a.maxResults) := by
  unfold cliEval at h
  split at h
  · cases h; exact .inl trivial
  · split at h
    · cases h; exact .inl trivial
    · split at h
      · rename_i f' hf
        simp only [Except.error.injEq] at h; subst h
        rcases setup_error env a _ hf with h' | h'
        · exact .inl h'
        · exact .inr (.inl h')
      · rename_i st hst
        have hloc : st.loc.Valid := by rw [(setup_spec env a st hst).2.2.1]; exact hl
        cases hp : plan a with
        | version => rw [hp] at h; cases h; exact .inl trivial
        | shiftPrint item offs pf =>
          rw [hp] at h
          cases item with
          | none => cases h; exact .inl trivial
          | some i => exact .inl (shiftPrint_benign st i offs pf f hloc (map_error _ _ _ h))
        | diff i1 i2 o1 o2 pf tot =>
          rw [hp] at h
          exact .inl (diffPrint_benign st i1 i2 o1 o2 pf tot f hloc (map_error _ _ _ h))
        | recurrence i pf mx =>
          rw [hp] at h
          obtain ⟨e1, e2⟩ := plan_recurrence a i pf mx hp
          subst e1 e2
          rcases recPrint_cases st i _ _ f h with h' | ⟨h1, h2⟩
          · exact .inl h'
          · exact .inr (.inr ⟨h1, h2, i, rfl⟩)
        | asTotal i u =>
          rw [hp] at h
          simp only [evalPlan] at h
          split at h
          · cases h; exact .inl trivial
          · exact .inl (formatDurationStr_benign st i u f (map_error _ _ _ h))


/-! ## The dumper does not read a point's recorded format; `XTP.ofTP` of a parsed point

  The command keeps the parsed point as a whole-second `TP` and prints `XTP.ofTP ned tp` with the
  operator's own dumper; `str` of the parsed point (C07c) prints the parsed `XTP` itself.  The two
  agree: the parsed point is `XTP.ofTP` of its `TP` up to the recorded format (`ofTP_of_toTP`), and
  the dumper's output does not depend on that (`dump_meta`). -/

section dumpMeta
open IsoDT.Text

/-- The fields printing never reads. -/
def setMeta (p : XTP) (tp : Option TruncProp) (d : Option (List Char)) : XTP := { p with truncProp := tp, dumpFmt := d }
def core (p : XTP) : XTP := setMeta p none none

/-- Printing reads neither the recorded dump format nor the truncation note. -/
theorem renderSegs_meta (m : Mode) (p : XTP) (a b) (segs : List Seg) :
    renderSegs m (setMeta p a b) segs = renderSegs m p segs := by
  induction segs with
  | nil => rfl
  | cons s rest ih =>
    cases s with
    | raw c => simp only [renderSegs, ih]
    | dir o =>
      cases o with
      | int pr w =>
        have : intProp m (setMeta p a b) pr = intProp m p pr := by cases pr <;> rfl
        simp only [renderSegs, ih, this]
      | str pr =>
        have : strProp (setMeta p a b) pr = strProp p pr := by cases pr <;> rfl
        simp only [renderSegs, ih, this]
      | lit c => simp only [renderSegs, ih]

def stage1 (m : Mode) (e : Expr) (p : XTP) : Except DumpErr XTP :=
  let wantsWeek := e.props.contains .weekOfYear || e.props.contains .dayOfWeek
  let wantsCal := e.props.contains .monthOfYear || e.props.contains .dayOfMonth ||
    e.props.contains .dayOfYear
  (if p.truncated then .ok p
    else if wantsWeek then
      (if wantsCal || p.isWeek then .ok p
       else match p.withRep m 2 with
         | some q => .ok q
         | none => .error .unsupported)
    else if p.isWeek && wantsCal then
      (match p.withRep m 0 with
       | some q => .ok q
       | none => .error .unsupported)
    else .ok p : Except DumpErr XTP)

def stage2 (m : Mode) (e : Expr) (p1 : XTP) : Except DumpErr XTP :=
  (match e.customTZ with
    | none => .ok p1
    | some (h, mi) =>
      match mkTZ m h mi with
      | none => .error .err
      | some z => p1.toTimeZone m z : Except DumpErr XTP)

def stage3 (m : Mode) (dt : DumpTables) (e : Expr) (p2 : XTP) : Except DumpErr (List Char) := do
  let y ← (match p2.year with
    | some y => .ok y
    | none => if e.props.contains .century || e.props.contains .expandedYearDigits ||
                 e.props.contains .yearSign || e.props.contains .yearOfCentury ||
                 e.props.contains .yearOfDecade then .error .unsupported else .ok 0 : Except DumpErr Int)
  if e.props.contains .century && (!e.props.contains .expandedYearDigits || dt.ned = 0) &&
      !(0 ≤ y && y ≤ 9999) then .error .err
  else if e.props.contains .expandedYearDigits &&
      !(-((10 : Int) ^ (dt.ned + 4) - 1) ≤ y && y ≤ (10 : Int) ^ (dt.ned + 4) - 1) then .error .err
  else
    match renderSegs m p2 e.segs with
    | some s => .ok s
    | none => .error .unsupported

theorem dumpExpr_eq (m : Mode) (dt : DumpTables) (p : XTP) (e : Expr) :
    dumpExpr m dt p e = (stage1 m e p).bind fun p1 => (stage2 m e p1).bind (stage3 m dt e) := rfl

/-- Same point up to the fields printing never reads. -/
def Eqv (p q : XTP) : Prop := core p = core q

theorem withRep_meta (m : Mode) (p : XTP) (a b) (k : Nat) :
    (setMeta p a b).withRep m k = (p.withRep m k).map (setMeta · a b) := by
  unfold XTP.withRep
  have : (setMeta p a b).view m k = p.view m k := rfl
  rw [this]
  cases p.view m k with
  | none => rfl
  | some d => cases d <;> rfl

theorem stage1_meta (m : Mode) (e : Expr) (p : XTP) (a b) :
    stage1 m e (setMeta p a b) = (stage1 m e p).map (setMeta · a b) := by
  unfold stage1
  simp only [withRep_meta]
  have h1 : (setMeta p a b).truncated = p.truncated := rfl
  have h2 : (setMeta p a b).isWeek = p.isWeek := rfl
  rw [h1, h2]
  repeat' split
  all_goals first | rfl | simp_all [Except.map]

theorem toTimeZone_meta (m : Mode) (p : XTP) (a b) (z : TZ) :
    (XTP.toTimeZone m (setMeta p a b) z).map core = (XTP.toTimeZone m p z).map core := by
  unfold XTP.toTimeZone
  have h1 : (setMeta p a b).tzUnknown = p.tzUnknown := rfl
  have h2 : (setMeta p a b).tz = p.tz := rfl
  have h3 : (setMeta p a b).toTP? = p.toTP? := rfl
  rw [h1, h2, h3]
  split
  · rfl
  · cases p.toTP? with
    | none => rfl
    | some q =>
      simp only
      cases Model.toTimeZone m q z with
      | none => rfl
      | some q' => rfl

theorem stage3_meta (m : Mode) (dt : DumpTables) (e : Expr) (p : XTP) (a b) :
    stage3 m dt e (setMeta p a b) = stage3 m dt e p := by
  unfold stage3
  have h1 : (setMeta p a b).year = p.year := rfl
  rw [h1]
  simp only [renderSegs_meta]

theorem stage3_core (m : Mode) (dt : DumpTables) (e : Expr) (p q : XTP) (h : core p = core q) :
    stage3 m dt e p = stage3 m dt e q := by
  have := stage3_meta m dt e p none none
  have := stage3_meta m dt e q none none
  unfold core at h
  simp_all

theorem stage23_meta (m : Mode) (dt : DumpTables) (e : Expr) (p : XTP) (a b) :
    (stage2 m e (setMeta p a b)).bind (stage3 m dt e) = (stage2 m e p).bind (stage3 m dt e) := by
  unfold stage2
  split
  · simp only [Except.bind]; exact stage3_meta _ _ _ _ _ _
  · split
    · rfl
    · rename_i z _
      have h := toTimeZone_meta m p a b z
      cases h1 : XTP.toTimeZone m (setMeta p a b) z with
      | error e1 =>
        cases h2 : XTP.toTimeZone m p z with
        | error e2 => rw [h1, h2] at h; simp only [Except.map, Except.error.injEq] at h; subst h; rfl
        | ok r2 => rw [h1, h2] at h; simp [Except.map] at h
      | ok r1 =>
        cases h2 : XTP.toTimeZone m p z with
        | error e2 => rw [h1, h2] at h; simp [Except.map] at h
        | ok r2 =>
          rw [h1, h2] at h
          simp only [Except.map, Except.ok.injEq] at h
          simp only [Except.bind]
          exact stage3_core _ _ _ _ _ h

/-- **What the dumper prints does not depend on the recorded dump format or truncation note of the
    point.** -/
theorem dumpExpr_meta (m : Mode) (dt : DumpTables) (p : XTP) (e : Expr) (a b) :
    dumpExpr m dt (setMeta p a b) e = dumpExpr m dt p e := by
  rw [dumpExpr_eq, dumpExpr_eq, stage1_meta]
  cases stage1 m e p with
  | error e1 => rfl
  | ok p1 => simp only [Except.map, Except.bind]; exact stage23_meta _ _ _ _ _ _

theorem dump_meta (m : Mode) (dt : DumpTables) (p : XTP) (fmt : List Char) (a b) :
    dump m dt (setMeta p a b) fmt = dump m dt p fmt := by
  unfold dump
  split
  · rfl
  · split
    · rfl
    · exact dumpExpr_meta _ _ _ _ _ _

/-- The date fields of a point are in exactly one representation. -/
def Canon (x : XTP) : Prop :=
  (x.month.isSome = true ∧ x.day.isSome = true ∧ x.doy = none ∧ x.week = none ∧ x.dow = none) ∨
  (x.month = none ∧ x.day = none ∧ x.doy.isSome = true ∧ x.week = none ∧ x.dow = none) ∨
  (x.month = none ∧ x.day = none ∧ x.doy = none ∧ x.week.isSome = true ∧ x.dow.isSome = true)

theorem ofTP_of_toTP (x : XTP) (tp : TP) (h : x.toTP? = some tp) (hc : Canon x) :
    XTP.ofTP x.ned tp = core x := by
  obtain ⟨ned, year, month, day, doy, week, dow, hour, minute, second, hd, md, sd, tz, unk, tr, tprop, fmt⟩ := x
  unfold XTP.toTP? at h
  split at h
  · cases h
  · rename_i hcond
    simp only [Bool.or_eq_true, not_or, Bool.not_eq_true, Option.isSome_eq_false_iff, Option.isNone_iff_eq_none] at hcond
    obtain ⟨⟨⟨⟨htr, hunk⟩, h1⟩, h2⟩, h3⟩ := hcond
    subst htr hunk h1 h2 h3
    split at h
    · rename_i dt hh mi ss hdt e1 e2 e3
      simp only at e1 e2 e3
      subst e1 e2 e3
      simp only [Option.some.injEq] at h
      subst h
      unfold XTP.date? at hdt
      simp only at hdt
      cases year with
      | none => cases hdt
      | some y =>
        simp only at hdt
        rcases hc with ⟨c1, c2, c3, c4, c5⟩ | ⟨c1, c2, c3, c4, c5⟩ | ⟨c1, c2, c3, c4, c5⟩
        all_goals simp only at c1 c2 c3 c4 c5
        · subst c3 c4 c5
          obtain ⟨mo, rfl⟩ := Option.isSome_iff_exists.mp c1
          obtain ⟨d, rfl⟩ := Option.isSome_iff_exists.mp c2
          simp only [Option.some.injEq] at hdt
          subst hdt
          rfl
        · subst c1 c2 c4 c5
          obtain ⟨n, rfl⟩ := Option.isSome_iff_exists.mp c3
          simp only [Option.some.injEq] at hdt
          subst hdt
          rfl
        · subst c1 c2 c3
          obtain ⟨w, rfl⟩ := Option.isSome_iff_exists.mp c4
          obtain ⟨d, rfl⟩ := Option.isSome_iff_exists.mp c5
          simp only [Option.some.injEq] at hdt
          subst hdt
          rfl
    · cases h

end dumpMeta

end IsoDT.Lemmas.Cli2
