/-
  IsoDT.Lemmas.DurTextQ — helper lemmas for C10 / C09 on durations with decimal components:

    * the laws `FloatText` (and the finer `FloatPlain`, `FloatDec`) that the float parameters
      `reprF`, `readF` of `Model.DurTextQ` have to satisfy;
    * the greedy `\d.*` groups of `DURATION_REGEXES[1]` on time fields that start with a digit and
      contain no unit letter / newline (`GoodA`): they back off to exactly their own field;
    * the conversion loop `convertQ`, `parseBodyQ` on designator strings;
    * the shape of `toTextQ`.
-/
import IsoDT.Model.DurTextQ
import IsoDT.Lemmas.DurText
import IsoDT.Lemmas.DurationQ

namespace IsoDT.Lemmas.DurTextQ
open IsoDT IsoDT.Model IsoDT.Model.DurText IsoDT.Model.DurTextQ IsoDT.Gen IsoDT.Lemmas IsoDT.Lemmas.DurText

/-! ### the laws of the float parameters -/

/-- A character `repr(float)` can print for a positive finite float: a digit, `.`, or one of
    `e`, `-`, `+` (exponent layout). -/
def FloatCh (c : Char) : Prop := isDig c = true ∨ c = '.' ∨ c = 'e' ∨ c = '-' ∨ c = '+'

/-- What the round trip needs of CPython's `repr(float)` / `float(str)` on a domain `D` of values.

    True of CPython with `D q` := "`q` is (the value of) a finite binary64 float":
    `read_repr` is the shortest-repr round trip `float(repr(x)) == x`; `repr_chars` holds because
    `repr` of a positive finite float is `digits.digits` (for `1e-4 ≤ x < 1e16`, see `FloatPlain`)
    or `d[.ddd]e±XX` (otherwise); `read_nat` because `float` of a digit string is correctly rounded,
    hence exact on a representable whole number (`__str__` prints whole values through `int`). -/
structure FloatText (reprF : Rat → List Char) (readF : List Char → FR) (D : Rat → Prop) : Prop where
  /-- `float(repr(x)) == x`. -/
  read_repr : ∀ q, D q → readF (reprF q) = .val q
  /-- `repr(x)`, `x > 0`, starts with a digit and consists of digits, `.`, `e`, `-`, `+`. -/
  repr_chars : ∀ q, D q → 0 < q → ∃ d0 body, reprF q = d0 :: body ∧ isDig d0 = true ∧ ∀ c ∈ body, FloatCh c
  /-- `float("<digits of n>") == n` for a representable whole number `n`. -/
  read_nat : ∀ n : Nat, D (n : Rat) → readF (natDigits n) = .val (n : Rat)

/-- The plain layout: in the no-exponent range of `repr` (`1e-4 ≤ x < 1e16`; every float that is not
    whole is below `2^52 < 1e16`, so for the non-whole values `__str__` hands to `str` this is
    `1e-4 ≤ x`) the text is `digits.digits`. -/
def FloatPlain (reprF : Rat → List Char) (D : Rat → Prop) : Prop :=
  ∀ q, D q → 0 < q → ∃ a b, reprF q = a ++ '.' :: b ∧ Digs a ∧ a ≠ [] ∧ Digs b ∧ b ≠ []

/-- The value written by `a.b` (`a`, `b` digit strings). -/
def decVal (a b : List Char) : Rat := mkRat (digitsVal (a ++ b)) (10 ^ b.length)

/-- `float` is correctly rounded: on a decimal text (any length, leading / trailing zeros, `1.`
    with nothing after the point) whose value is representable it is exact. -/
structure FloatDec (readF : List Char → FR) (D : Rat → Prop) : Prop where
  read_digits : ∀ ds, Digs ds → ds ≠ [] → D (digitsVal ds : Rat) → readF ds = .val (digitsVal ds : Rat)
  read_point : ∀ a b, Digs a → a ≠ [] → Digs b → D (decVal a b) → readF (a ++ '.' :: b) = .val (decVal a b)

/-! ### time fields -/

/-- No unit letter of the time part, no newline, ASCII. -/
def Free (t : List Char) : Prop :=
  ∀ c ∈ t, c ≠ 'H' ∧ c ≠ 'M' ∧ c ≠ 'S' ∧ c ≠ '\n' ∧ c.toNat < 128

/-- A present time field starts with a digit and is `Free`. -/
def GoodA (f : Option (List Char)) : Prop :=
  ∀ t, f = some t → (∃ d0 body, t = d0 :: body ∧ isDig d0 = true) ∧ Free t

theorem GoodA.none : GoodA none := by intro t h; cases h

theorem dig_free (c : Char) (h : isDig c = true) :
    c ≠ 'H' ∧ c ≠ 'M' ∧ c ≠ 'S' ∧ c ≠ '\n' ∧ c.toNat < 128 := by
  refine ⟨?_, ?_, ?_, ?_, dig_ascii c h⟩ <;> exact dig_ne_of c _ h (by decide)

theorem GoodA.ofGoodF {f : Option (List Char)} (h : GoodF f) : GoodA f := by
  intro t e
  obtain ⟨h1, h2⟩ := h t e
  refine ⟨?_, fun c hc => dig_free c (h1 c hc)⟩
  cases t with
  | nil => exact absurd rfl h2
  | cons d0 body => exact ⟨d0, body, rfl, h1.head⟩

def GoodAT : Option TimeF → Prop
  | none => True
  | some (fh, fmi, fs) => GoodA fh ∧ GoodA fmi ∧ GoodA fs

theorem mem_fldA (f : Option (List Char)) (u c : Char) (hf : GoodA f) (h : c ∈ fld f u) :
    (c ≠ 'H' ∧ c ≠ 'M' ∧ c ≠ 'S' ∧ c ≠ '\n' ∧ c.toNat < 128) ∨ c = u := by
  cases f with
  | none => cases h
  | some t =>
    simp only [fld, List.mem_append, List.mem_singleton] at h
    rcases h with h | h
    · exact Or.inl ((hf t rfl).2 c h)
    · exact Or.inr h

/-- `c` is one of the unit letters `H`, `M`, `S`. -/
def IsHMS (c : Char) : Prop := c = 'H' ∨ c = 'M' ∨ c = 'S'

theorem not_mem_fld_appendA (f : Option (List Char)) (u : Char) (hf : GoodA f) (tl : List Char) (c : Char)
    (hc : IsHMS c) (h1 : c ≠ u) (h2 : c ∉ tl) : c ∉ fld f u ++ tl := by
  intro h
  rcases List.mem_append.mp h with h | h
  · rcases mem_fldA f u c hf h with ⟨a, b, d, _, _⟩ | h
    · rcases hc with rfl | rfl | rfl
      · exact a rfl
      · exact b rfl
      · exact d rfl
    · exact h1 h
  · exact h2 h

theorem opt_anyUnit_fldA {β : Type} (n : DUnit) (u : Char) (hU : IsHMS u)
    (f : Option (List Char)) (hf : GoodA f) (tl : List Char) (ht : u ∉ tl) (cp : Caps)
    (K : List Char → Caps → Option β) (x : β) (h : K tl (capAdd cp n f) = some x) :
    (Re.opt (anyUnit n u)).run (fld f u ++ tl) cp K = some x := by
  have hn : u ≠ '\n' := by rcases hU with rfl | rfl | rfl <;> decide
  cases f with
  | none =>
    rw [show fld none u ++ tl = tl from rfl, opt_skip _ _ _ _ (run_anyUnit_none n u tl cp K ht)]
    exact h
  | some t =>
    obtain ⟨⟨d0, body, rfl, hd⟩, hfree⟩ := hf t rfl
    apply opt_take
    have hb1 : u ∉ body := by
      intro hm
      obtain ⟨a, b, c, _, _⟩ := hfree u (by simp [hm])
      rcases hU with rfl | rfl | rfl
      · exact a rfl
      · exact b rfl
      · exact c rfl
    have hb2 : '\n' ∉ body := by
      intro hm
      exact (hfree '\n' (by simp [hm])).2.2.2.1 rfl
    rw [show fld (some (d0 :: body)) u ++ tl = d0 :: (body ++ u :: tl) by simp [fld],
      run_anyUnit n u hn d0 body tl cp K hd hb1 hb2 ht]
    exact h

/-- `DURATION_REGEXES[1]` on a designator string whose time fields are `GoodA`. -/
theorem search1_timeA (fy fmo fd fh fmi fs : Option (List Char)) (hy : GoodF fy) (hmo : GoodF fmo)
    (hd : GoodF fd) (hh : GoodA fh) (hmi : GoodA fmi) (hs : GoodA fs) :
    durRegex1.search (desig fy fmo fd (some (fh, fmi, fs))) = some (allCaps fy fmo fd fh fmi fs) := by
  rw [search_eq]
  unfold durRegex1 desig
  rw [run_seq, run_lit, run_seq]
  refine opt_digUnit_fld .years 'Y' (by decide) fy hy _ ?_ _ _ _ ?_
  · exact fnd_fld_ne _ _ (by decide) hmo _ _ (by decide)
      (fnd_fld_ne _ _ (by decide) hd _ _ (by decide) (fnd_timePart_ne _ 'Y' (by decide)))
  rw [run_seq]
  refine opt_digUnit_fld .months 'M' (by decide) fmo hmo _ ?_ _ _ _ ?_
  · exact fnd_fld_ne _ _ (by decide) hd _ _ (by decide) (fnd_timePart_ne _ 'M' (by decide))
  rw [run_seq]
  refine opt_digUnit_fld .days 'D' (by decide) fd hd _ ?_ _ _ _ ?_
  · exact fnd_timePart_ne _ 'D' (by decide)
  rw [timePart, run_seq, run_lit, run_seq]
  refine opt_anyUnit_fldA .hours 'H' (Or.inl rfl) fh hh _ ?_ _ _ _ ?_
  · exact not_mem_fld_appendA _ _ hmi _ _ (Or.inl rfl) (by decide)
      (not_mem_fld_appendA _ _ hs _ _ (Or.inl rfl) (by decide) (by simp))
  rw [run_seq]
  refine opt_anyUnit_fldA .minutes 'M' (Or.inr (Or.inl rfl)) fmi hmi _ ?_ _ _ _ ?_
  · exact not_mem_fld_appendA _ _ hs _ _ (Or.inr (Or.inl rfl)) (by decide) (by simp)
  refine opt_anyUnit_fldA .seconds 'S' (Or.inr (Or.inr rfl)) fs hs _ (by simp) _ _ _ ?_
  rfl

/-! ### captures -/

theorem allCaps_years (fy fmo fd fh fmi fs : Option (List Char)) : allCaps fy fmo fd fh fmi fs .years = fy := by
  unfold allCaps
  rw [capAdd_ne _ _ _ _ (by decide), capAdd_ne _ _ _ _ (by decide), capAdd_ne _ _ _ _ (by decide)]
  exact dateCaps_years ..
theorem allCaps_months (fy fmo fd fh fmi fs : Option (List Char)) : allCaps fy fmo fd fh fmi fs .months = fmo := by
  unfold allCaps
  rw [capAdd_ne _ _ _ _ (by decide), capAdd_ne _ _ _ _ (by decide), capAdd_ne _ _ _ _ (by decide)]
  exact dateCaps_months ..
theorem allCaps_days (fy fmo fd fh fmi fs : Option (List Char)) : allCaps fy fmo fd fh fmi fs .days = fd := by
  unfold allCaps
  rw [capAdd_ne _ _ _ _ (by decide), capAdd_ne _ _ _ _ (by decide), capAdd_ne _ _ _ _ (by decide)]
  exact dateCaps_days ..
theorem allCaps_hours (fy fmo fd fh fmi fs : Option (List Char)) : allCaps fy fmo fd fh fmi fs .hours = fh := by
  unfold allCaps
  rw [capAdd_ne _ _ _ _ (by decide), capAdd_ne _ _ _ _ (by decide),
    capAdd_self _ _ _ (dateCaps_other _ _ _ _ (by decide) (by decide) (by decide))]
theorem allCaps_minutes (fy fmo fd fh fmi fs : Option (List Char)) :
    allCaps fy fmo fd fh fmi fs .minutes = fmi := by
  unfold allCaps
  rw [capAdd_ne _ _ _ _ (by decide), capAdd_self _ _ _ (by
    rw [capAdd_ne _ _ _ _ (by decide)]
    exact dateCaps_other _ _ _ _ (by decide) (by decide) (by decide))]
theorem allCaps_seconds (fy fmo fd fh fmi fs : Option (List Char)) :
    allCaps fy fmo fd fh fmi fs .seconds = fs := by
  unfold allCaps
  rw [capAdd_self _ _ _ (by
    rw [capAdd_ne _ _ _ _ (by decide), capAdd_ne _ _ _ _ (by decide)]
    exact dateCaps_other _ _ _ _ (by decide) (by decide) (by decide))]

/-! ### the conversion loop -/

/-- The digit run is within the interpreter's `int()` digit limit. -/
def LimOk (lim : Nat) (f : Option (List Char)) : Prop := ∀ ds, f = some ds → lim = 0 ∨ ds.length ≤ lim

theorem LimOk.none (lim : Nat) : LimOk lim none := by intro ds h; cases h

/-- `float(value.replace(",", "."))` of a present field is the finite value `q`; an absent field
    stands for the default 0. -/
def Rd (readF : List Char → FR) (f : Option (List Char)) (q : Rat) : Prop :=
  match f with
  | none => q = 0
  | some t => readF (replaceComma t) = .val q

def stepIQ (a : Acc) (n : DUnit) (sg : Int) (f : Option (List Char)) : Acc := ⟨stepI a.fi n sg f, a.fq, a.inf⟩

def stepQ (F : DUnit → Rat) (n : DUnit) (sg : Int) (f : Option (List Char)) (q : Rat) : DUnit → Rat :=
  match f with
  | some _ => fun x => if x = n then q * (sg : Rat) else F x
  | none => F

def stepFQ (a : Acc) (n : DUnit) (sg : Int) (f : Option (List Char)) (q : Rat) : Acc :=
  ⟨a.fi, stepQ a.fq n sg f q, a.inf⟩

theorem stepQ_ne (F : DUnit → Rat) (n : DUnit) (sg : Int) (f : Option (List Char)) (q : Rat) (n' : DUnit)
    (h : n' ≠ n) : stepQ F n sg f q n' = F n' := by
  cases f with
  | none => rfl
  | some t => simp [stepQ, h]

theorem stepQ_self (F : DUnit → Rat) (n : DUnit) (sg : Int) (f : Option (List Char)) (q : Rat)
    (h0 : F n = 0) (hq : f = none → q = 0) : stepQ F n sg f q n = q * (sg : Rat) := by
  cases f with
  | none => rw [hq rfl, Rat.zero_mul]; exact h0
  | some t => simp [stepQ]

theorem convertQ_int (lim : Nat) (readF : List Char → FR) (sg : Int) (cp : Caps) (n : DUnit) (ns : List DUnit)
    (a : Acc) (f : Option (List Char)) (hn : n.isIntKey = true) (hcp : cp n = f) (hf : GoodF f)
    (hl : LimOk lim f) :
    convertQ lim readF sg cp (n :: ns) a = convertQ lim readF sg cp ns (stepIQ a n sg f) := by
  cases f with
  | none => simp [convertQ, hn, hcp, intFieldQ, stepIQ, stepI]
  | some ds =>
    obtain ⟨h1, h2⟩ := hf ds rfl
    have hlim : ¬ (lim ≠ 0 ∧ lim < ds.length) := by
      rcases hl ds rfl with h | h <;> omega
    simp only [convertQ, hn, hcp, intFieldQ, h2, h1.all, ne_eq, not_false_eq_true, and_self, ↓reduceIte, hlim]
    rfl

theorem convertQ_flt (lim : Nat) (readF : List Char → FR) (sg : Int) (cp : Caps) (n : DUnit) (ns : List DUnit)
    (a : Acc) (f : Option (List Char)) (q : Rat) (hn : n.isIntKey = false) (hcp : cp n = f)
    (hr : Rd readF f q) :
    convertQ lim readF sg cp (n :: ns) a = convertQ lim readF sg cp ns (stepFQ a n sg f q) := by
  cases f with
  | none => simp [convertQ, hn, hcp, stepFQ, stepQ]
  | some t =>
    have hr' : readF (replaceComma t) = .val q := hr
    simp only [convertQ, hn, hcp, hr', Bool.false_eq_true, ↓reduceIte]
    rfl

theorem Rd.none_zero {readF : List Char → FR} {f : Option (List Char)} {q : Rat} (h : Rd readF f q) :
    f = none → q = 0 := by
  intro e; subst e; exact h


/-! ### `parseBodyQ` on designator strings -/

def RdT (readF : List Char → FR) : Option TimeF → Rat → Rat → Rat → Prop
  | none, qh, qmi, qs => qh = 0 ∧ qmi = 0 ∧ qs = 0
  | some (fh, fmi, fs), qh, qmi, qs => Rd readF fh qh ∧ Rd readF fmi qmi ∧ Rd readF fs qs

theorem accZero_fq (n : DUnit) : Acc.zero.fq n = 0 := rfl
theorem accZero_fi : Acc.zero.fi = Fields.zero := rfl
theorem accZero_inf : Acc.zero.inf = false := rfl

theorem parseBodyQ_desig (lim : Nat) (readF : List Char → FR) (m : Mode) (sg : Int)
    (fy fmo fd : Option (List Char)) (ft : Option TimeF)
    (hy : GoodF fy) (hmo : GoodF fmo) (hd : GoodF fd) (ly : LimOk lim fy) (lmo : LimOk lim fmo)
    (ld : LimOk lim fd) (ht : GoodAT ft) (qh qmi qs : Rat) (hr : RdT readF ft qh qmi qs) :
    parseBodyQ lim readF m sg (desig fy fmo fd ft) =
      .ok (DurationQ.mk m (ival fy * sg) (ival fmo * sg) 0 (ival fd * sg)
        (qh * (sg : Rat)) (qmi * (sg : Rat)) (qs * (sg : Rat))) := by
  cases ft with
  | none =>
    obtain ⟨rfl, rfl, rfl⟩ := hr
    have hs := search0_date fy fmo fd hy hmo hd
    simp only [parseBodyQ, durRegexes, firstMatch, hs, durGroups0]
    rw [convertQ_int lim readF sg _ .years _ _ fy rfl (dateCaps_years ..) hy ly,
      convertQ_int lim readF sg _ .months _ _ fmo rfl (dateCaps_months ..) hmo lmo,
      convertQ_int lim readF sg _ .days _ _ fd rfl (dateCaps_days ..) hd ld]
    simp (disch := decide) only [convertQ, stepIQ, Acc.toDur, accZero_fq, accZero_fi, accZero_inf,
      stepI_ne, stepI_self, zero_apply, selI_zero, Rat.zero_mul, Bool.false_eq_true, ↓reduceIte]
  | some t =>
    obtain ⟨fh, fmi, fs⟩ := t
    obtain ⟨hh, hmi, hs⟩ := ht
    obtain ⟨rh, rmi, rs⟩ := hr
    have h0 := search0_time_none fy fmo fd (fh, fmi, fs)
    have h1 := search1_timeA fy fmo fd fh fmi fs hy hmo hd hh hmi hs
    simp only [parseBodyQ, durRegexes, firstMatch, h0, h1, durGroups1]
    rw [convertQ_int lim readF sg _ .years _ _ fy rfl (allCaps_years ..) hy ly,
      convertQ_int lim readF sg _ .months _ _ fmo rfl (allCaps_months ..) hmo lmo,
      convertQ_int lim readF sg _ .days _ _ fd rfl (allCaps_days ..) hd ld,
      convertQ_flt lim readF sg _ .hours _ _ fh qh rfl (allCaps_hours ..) rh,
      convertQ_flt lim readF sg _ .minutes _ _ fmi qmi rfl (allCaps_minutes ..) rmi,
      convertQ_flt lim readF sg _ .seconds _ _ fs qs rfl (allCaps_seconds ..) rs]
    simp (disch := decide) only [convertQ, stepIQ, stepFQ, Acc.toDur, accZero_fi, accZero_inf,
      stepI_ne, stepI_self, zero_apply, selI_zero, stepQ_ne, Bool.false_eq_true, ↓reduceIte]
    rw [stepQ_self _ .hours sg fh qh rfl rh.none_zero,
      stepQ_self _ .minutes sg fmi qmi (by rw [stepQ_ne _ _ _ _ _ _ (by decide)]; rfl) rmi.none_zero,
      stepQ_self _ .seconds sg fs qs
        (by rw [stepQ_ne _ _ _ _ _ _ (by decide), stepQ_ne _ _ _ _ _ _ (by decide)]; rfl) rs.none_zero]


theorem parseBodyQ_desigW (lim : Nat) (readF : List Char → FR) (m : Mode) (sg : Int) (ds : List Char)
    (h : Digs ds) (hne : ds ≠ []) (hl : lim = 0 ∨ ds.length ≤ lim) :
    parseBodyQ lim readF m sg (desigW ds) = .ok (DurationQ.mk m 0 0 ((digitsVal ds : Int) * sg) 0 0 0 0) := by
  have hf : fnd (ds ++ ['W']) = some 'W' := by
    rw [fnd_digs_append _ _ h]; exact fnd_cons_nondig 'W' [] (by decide)
  have h0 : durRegex0.search (desigW ds) = none :=
    search_none_of_not_accepts _ _ 'W' (by simp [desigW]) (by decide) (by decide)
  have h1 : durRegex1.search (desigW ds) = none := by
    apply search1_none
    · rw [hf]; decide
    · rw [hf]; decide
    · rw [hf]; decide
    · intro t e
      cases ds with
      | nil => exact hne rfl
      | cons d ds' =>
        injection e with e1 _
        have := h.head
        rw [e1] at this
        exact absurd this (by decide)
  have h2 := search2_weeks ds h hne
  unfold desigW at h0 h1 ⊢
  simp only [parseBodyQ, durRegexes, firstMatch, h0, h1, h2, durGroups2]
  rw [convertQ_int lim readF sg _ .weeks _ _ (some ds) rfl (by simp [capSet]) (GoodF.some h hne)
    (by intro ds' e; injection e with e; rw [← e]; exact hl)]
  simp (disch := decide) only [convertQ, stepIQ, Acc.toDur, accZero_fq, accZero_fi, accZero_inf,
    stepI_ne, stepI_self, zero_apply, selI_zero, ival, Bool.false_eq_true, ↓reduceIte]

theorem parseQ_pos (lim : Nat) (readF : List Char → FR) (m : Mode) (t : List Char)
    (h : ∀ c ∈ ('P' :: t), c.toNat < 128) :
    parseQ lim readF m ('P' :: t) = parseBodyQ lim readF m 1 ('P' :: t) := by
  unfold parseQ
  rw [any_ge128_false _ h]
  rfl

theorem parseQ_neg (lim : Nat) (readF : List Char → FR) (m : Mode) (s : List Char)
    (h : ∀ c ∈ s, c.toNat < 128) :
    parseQ lim readF m ('-' :: s) = parseBodyQ lim readF m (-1) s := by
  unfold parseQ
  rw [any_ge128_false ('-' :: s) (by
    intro c hc
    rcases List.mem_cons.mp hc with rfl | hc
    · decide
    · exact h c hc)]
  rfl

theorem fld_asciiA (f : Option (List Char)) (u : Char) (hf : GoodA f) (hu : u.toNat < 128) :
    ∀ c ∈ fld f u, c.toNat < 128 := by
  intro c hc
  rcases mem_fldA f u c hf hc with h | h
  · exact h.2.2.2.2
  · rw [h]; exact hu

theorem desig_asciiA (fy fmo fd : Option (List Char)) (ft : Option TimeF) (hy : GoodF fy) (hmo : GoodF fmo)
    (hd : GoodF fd) (ht : GoodAT ft) : ∀ c ∈ desig fy fmo fd ft, c.toNat < 128 := by
  intro c hc
  simp only [desig, List.mem_cons, List.mem_append] at hc
  rcases hc with rfl | hc | hc | hc | hc
  · decide
  · exact fld_ascii fy 'Y' hy (by decide) c hc
  · exact fld_ascii fmo 'M' hmo (by decide) c hc
  · exact fld_ascii fd 'D' hd (by decide) c hc
  · cases ft with
    | none => cases hc
    | some t =>
      obtain ⟨fh, fmi, fs⟩ := t
      obtain ⟨h1, h2, h3⟩ := ht
      simp only [timePart, List.mem_cons, List.mem_append, List.append_nil] at hc
      rcases hc with rfl | hc | hc | hc
      · decide
      · exact fld_asciiA fh 'H' h1 (by decide) c hc
      · exact fld_asciiA fmi 'M' h2 (by decide) c hc
      · exact fld_asciiA fs 'S' h3 (by decide) c hc


/-! ### the shape of `toTextQ` -/

/-- The field an hours / minutes / seconds slot prints as before `.replace(".", ",")`: absent when 0. -/
def ofqR (reprF : Rat → List Char) (v : Rat) : Option (List Char) :=
  if v ≠ 0 then some (numText reprF v) else none

/-- ... and after it. -/
def ofq (reprF : Rat → List Char) (v : Rat) : Option (List Char) := (ofqR reprF v).map replaceDot

def tOfR (reprF : Rat → List Char) (h mi s : Rat) : Option TimeF :=
  if h = 0 ∧ mi = 0 ∧ s = 0 then none else some (ofqR reprF h, ofqR reprF mi, ofqR reprF s)

def tOfQ (reprF : Rat → List Char) (h mi s : Rat) : Option TimeF :=
  if h = 0 ∧ mi = 0 ∧ s = 0 then none else some (ofq reprF h, ofq reprF mi, ofq reprF s)

theorem unitPartQ_eq (reprF : Rat → List Char) (v : Rat) (u : Char) :
    unitPartQ reprF v u = fld (ofqR reprF v) u := by
  unfold unitPartQ ofqR
  split <;> rfl

theorem ofqR_none_iff (reprF : Rat → List Char) (v : Rat) : ofqR reprF v = none ↔ v = 0 := by
  unfold ofqR; split <;> simp_all

theorem replaceDot_append (a b : List Char) : replaceDot (a ++ b) = replaceDot a ++ replaceDot b := by
  simp [replaceDot]

theorem replaceDot_cons (c : Char) (a : List Char) (hc : c ≠ '.') : replaceDot (c :: a) = c :: replaceDot a := by
  simp [replaceDot, hc]

theorem replaceDot_fld (f : Option (List Char)) (u : Char) (hu : u ≠ '.') :
    replaceDot (fld f u) = fld (f.map replaceDot) u := by
  cases f with
  | none => rfl
  | some ds => simp [fld, replaceDot, hu]

theorem digs_no_dot (ds : List Char) (h : Digs ds) : '.' ∉ ds := by
  intro hm; exact absurd (h _ hm) (by decide)

theorem replaceDot_fld_good (f : Option (List Char)) (u : Char) (hu : u ≠ '.') (hf : GoodF f) :
    replaceDot (fld f u) = fld f u := by
  rw [replaceDot_fld f u hu]
  cases f with
  | none => rfl
  | some ds =>
    show fld (some (replaceDot ds)) u = _
    rw [replaceDot_id ds (digs_no_dot ds (hf ds rfl).1)]

def dotT : Option TimeF → Option TimeF
  | none => none
  | some (fh, fmi, fs) => some (fh.map replaceDot, fmi.map replaceDot, fs.map replaceDot)

theorem replaceDot_desig (fy fmo fd : Option (List Char)) (ft : Option TimeF) (hy : GoodF fy) (hmo : GoodF fmo)
    (hd : GoodF fd) : replaceDot (desig fy fmo fd ft) = desig fy fmo fd (dotT ft) := by
  unfold desig
  rw [replaceDot_cons _ _ (by decide), replaceDot_append, replaceDot_append, replaceDot_append,
    replaceDot_fld_good fy 'Y' (by decide) hy, replaceDot_fld_good fmo 'M' (by decide) hmo,
    replaceDot_fld_good fd 'D' (by decide) hd]
  cases ft with
  | none => rfl
  | some t =>
    obtain ⟨fh, fmi, fs⟩ := t
    simp only [timePart, dotT, List.append_nil]
    rw [replaceDot_cons _ _ (by decide), replaceDot_append, replaceDot_append,
      replaceDot_fld fh 'H' (by decide), replaceDot_fld fmi 'M' (by decide), replaceDot_fld fs 'S' (by decide)]

theorem dotT_tOfR (reprF : Rat → List Char) (h mi s : Rat) : dotT (tOfR reprF h mi s) = tOfQ reprF h mi s := by
  unfold tOfR tOfQ
  split <;> rfl

/-- `__str__` of a unit-form duration with non-negative years / months / days, past the sign test. -/
theorem toTextPosQ_units (reprF : Rat → List Char) (y mo d : Int) (h mi s : Rat) (hy : 0 ≤ y) (hmo : 0 ≤ mo)
    (hd : 0 ≤ d) :
    toTextPosQ reprF (.units y mo d h mi s) = desig (ofv y) (ofv mo) (ofv d) (tOfQ reprF h mi s) := by
  have key : 'P' :: stripT (unitPart y 'Y' ++ unitPart mo 'M' ++ (unitPart d 'D' ++ ['T']) ++
      unitPartQ reprF h 'H' ++ unitPartQ reprF mi 'M' ++ unitPartQ reprF s 'S') =
      desig (ofv y) (ofv mo) (ofv d) (tOfR reprF h mi s) := by
    rw [unitPart_nonneg y _ hy, unitPart_nonneg mo _ hmo, unitPart_nonneg d _ hd, unitPartQ_eq, unitPartQ_eq,
      unitPartQ_eq]
    rcases time_shape (ofqR reprF h) (ofqR reprF mi) (ofqR reprF s) with ⟨e, e1, e2, e3⟩ | ⟨X, u, e, hu⟩
    · have hz : h = 0 ∧ mi = 0 ∧ s = 0 :=
        ⟨(ofqR_none_iff reprF h).mp e1, (ofqR_none_iff reprF mi).mp e2, (ofqR_none_iff reprF s).mp e3⟩
      have : fld (ofv y) 'Y' ++ fld (ofv mo) 'M' ++ (fld (ofv d) 'D' ++ ['T']) ++ fld (ofqR reprF h) 'H' ++
          fld (ofqR reprF mi) 'M' ++ fld (ofqR reprF s) 'S' =
          (fld (ofv y) 'Y' ++ (fld (ofv mo) 'M' ++ fld (ofv d) 'D')) ++ ['T'] := by
        rw [e1, e2, e3]; simp [fld]
      rw [this, stripT_T]
      simp only [desig, tOfR, hz, and_self, ↓reduceIte, timePart, List.append_nil]
    · have hnz : ¬ (h = 0 ∧ mi = 0 ∧ s = 0) := by
        intro ⟨a, b, c⟩
        have e1 := (ofqR_none_iff reprF h).mpr a
        have e2 := (ofqR_none_iff reprF mi).mpr b
        have e3 := (ofqR_none_iff reprF s).mpr c
        rw [e1, e2, e3] at e
        simp [fld] at e
      have : fld (ofv y) 'Y' ++ fld (ofv mo) 'M' ++ (fld (ofv d) 'D' ++ ['T']) ++ fld (ofqR reprF h) 'H' ++
          fld (ofqR reprF mi) 'M' ++ fld (ofqR reprF s) 'S' =
          (fld (ofv y) 'Y' ++ (fld (ofv mo) 'M' ++ (fld (ofv d) 'D' ++ 'T' :: X))) ++ [u] := by
        have e' : fld (ofqR reprF h) 'H' ++ fld (ofqR reprF mi) 'M' ++ fld (ofqR reprF s) 'S' = X ++ [u] := by
          rw [← e, List.append_assoc]
        simp only [List.append_assoc, List.cons_append, List.nil_append] at e' ⊢
        rw [e']
      rw [this, stripT_other _ _ hu]
      simp only [desig, tOfR, hnz, ↓reduceIte, timePart, List.append_nil, List.append_assoc,
        List.cons_append, List.cons.injEq, true_and, List.append_cancel_left_eq]
      rw [← e]
  show replaceDot _ = _
  rw [key, replaceDot_desig _ _ _ _ (ofv_good y) (ofv_good mo) (ofv_good d), dotT_tOfR]


/-! ### printed time fields under the float laws -/

theorem rat_whole (q : Rat) (hd : q.den = 1) (h0 : 0 ≤ q) : ((q.num.natAbs : Nat) : Rat) = q := by
  apply Rat.ext
  · have : 0 ≤ q.num := Rat.num_nonneg.mpr h0
    simp; omega
  · simp [hd]

theorem replaceComma_id (s : List Char) (h : ',' ∉ s) : replaceComma s = s := by
  induction s with
  | nil => rfl
  | cons c cs ih =>
    have hc : c ≠ ',' := by intro e; exact h (by simp [e])
    have := ih (by intro hm; exact h (by simp [hm]))
    simp only [replaceComma, List.map_cons, hc, ↓reduceIte, List.cons.injEq, true_and]
    exact this

/-- `.replace(".", ",")` on output, `.replace(",", ".")` on input: the identity on comma-free text. -/
theorem replaceComma_replaceDot (s : List Char) (h : ',' ∉ s) : replaceComma (replaceDot s) = s := by
  induction s with
  | nil => rfl
  | cons c cs ih =>
    have hc : c ≠ ',' := by intro e; exact h (by simp [e])
    have := ih (by intro hm; exact h (by simp [hm]))
    simp only [replaceComma, replaceDot, List.map_cons, List.cons.injEq] at this ⊢
    refine ⟨?_, this⟩
    by_cases hd : c = '.'
    · simp [hd]
    · simp [hd, hc]

theorem floatCh_free (c : Char) (h : FloatCh c) :
    (if c = '.' then ',' else c) ≠ 'H' ∧ (if c = '.' then ',' else c) ≠ 'M' ∧ (if c = '.' then ',' else c) ≠ 'S' ∧
      (if c = '.' then ',' else c) ≠ '\n' ∧ (if c = '.' then ',' else c).toNat < 128 := by
  rcases h with h | rfl | rfl | rfl | rfl
  · have : c ≠ '.' := dig_ne_of c _ h (by decide)
    rw [if_neg this]; exact dig_free c h
  all_goals decide

theorem floatCh_ne_comma (c : Char) (h : FloatCh c) : c ≠ ',' := by
  rcases h with h | rfl | rfl | rfl | rfl
  · exact dig_ne_of c _ h (by decide)
  all_goals decide

theorem numText_whole (reprF : Rat → List Char) (q : Rat) (hd : q.den = 1) (h0 : 0 ≤ q) :
    numText reprF q = natDigits q.num.natAbs := by
  have : 0 ≤ q.num := Rat.num_nonneg.mpr h0
  unfold numText intText
  rw [if_pos hd, if_neg (by omega)]

/-- The printed field of a non-negative slot in the domain: it starts with a digit, contains no unit
    letter, and `float(field.replace(",", "."))` gives the slot back. -/
theorem ofq_good {reprF : Rat → List Char} {readF : List Char → FR} {D : Rat → Prop}
    (ft : FloatText reprF readF D) (h : Rat) (h0 : 0 ≤ h) (hD : D h) :
    GoodA (ofq reprF h) ∧ Rd readF (ofq reprF h) h := by
  by_cases hz : h = 0
  · subst hz
    have : ofq reprF 0 = none := by simp [ofq, ofqR]
    rw [this]; exact ⟨GoodA.none, rfl⟩
  · have e : ofq reprF h = some (replaceDot (numText reprF h)) := by simp [ofq, ofqR, hz]
    rw [e]
    by_cases hd : h.den = 1
    · rw [numText_whole reprF h hd h0, replaceDot_id _ (digs_no_dot _ (natDigits_digs _))]
      refine ⟨GoodA.ofGoodF (GoodF.some (natDigits_digs _) (natDigits_ne_nil _)), ?_⟩
      show readF (replaceComma _) = _
      rw [replaceComma_id _ (by intro hm; exact absurd (natDigits_digs _ _ hm) (by decide))]
      have := ft.read_nat h.num.natAbs (by rw [rat_whole h hd h0]; exact hD)
      rw [this, rat_whole h hd h0]
    · have hpos : 0 < h := by grind
      obtain ⟨d0, body, er, hd0, hb⟩ := ft.repr_chars h hD hpos
      have en : numText reprF h = d0 :: body := by unfold numText; rw [if_neg hd]; exact er
      rw [en]
      refine ⟨?_, ?_⟩
      · intro t et
        injection et with et
        subst et
        refine ⟨⟨d0, replaceDot body, replaceDot_cons _ _ (dig_ne_of _ _ hd0 (by decide)), hd0⟩, ?_⟩
        intro c hc
        simp only [replaceDot, List.mem_map] at hc
        obtain ⟨c', hc', rfl⟩ := hc
        apply floatCh_free
        rcases List.mem_cons.mp hc' with rfl | hm
        · exact Or.inl hd0
        · exact hb c' hm
      · show readF (replaceComma _) = _
        rw [replaceComma_replaceDot]
        · rw [← er]; exact ft.read_repr h hD
        · intro hm
          rcases List.mem_cons.mp hm with e1 | hm
          · exact dig_ne_of _ _ hd0 (by decide) e1.symm
          · exact floatCh_ne_comma _ (hb _ hm) rfl

theorem tOfQ_good {reprF : Rat → List Char} {readF : List Char → FR} {D : Rat → Prop}
    (ft : FloatText reprF readF D) (h mi s : Rat) (h0 : 0 ≤ h) (mi0 : 0 ≤ mi) (s0 : 0 ≤ s)
    (hD : D h) (miD : D mi) (sD : D s) :
    GoodAT (tOfQ reprF h mi s) ∧ RdT readF (tOfQ reprF h mi s) h mi s := by
  unfold tOfQ
  split
  · rename_i hz
    exact ⟨trivial, hz⟩
  · exact ⟨⟨(ofq_good ft h h0 hD).1, (ofq_good ft mi mi0 miD).1, (ofq_good ft s s0 sD).1⟩,
      ⟨(ofq_good ft h h0 hD).2, (ofq_good ft mi mi0 miD).2, (ofq_good ft s s0 sD).2⟩⟩


/-! ### sign test, constructor -/

theorem fnlQ_nonneg (vs : List Rat) (h : ∀ v ∈ vs, 0 ≤ v) : fullyNegLoopQ vs false = false := by
  induction vs with
  | nil => rfl
  | cons v vs ih =>
    have hv := h v (by simp)
    have := ih (fun x hx => h x (by simp [hx]))
    simp only [fullyNegLoopQ]
    split
    · rfl
    · rw [if_neg (by grind)]; exact this

theorem fnlQ_nonpos (vs : List Rat) (acc : Bool) (h : ∀ v ∈ vs, v ≤ 0) :
    fullyNegLoopQ vs acc = (acc || vs.any (fun v => decide (v < 0))) := by
  induction vs generalizing acc with
  | nil => simp [fullyNegLoopQ]
  | cons v vs ih =>
    have hv := h v (by simp)
    have := fun a => ih a (fun x hx => h x (by simp [hx]))
    simp only [fullyNegLoopQ, List.any_cons]
    rw [if_neg (by grind)]
    by_cases hn : v < 0
    · rw [if_pos hn, this]; simp [hn]
    · rw [if_neg hn, this]; simp [hn]

theorem mkQ_units (m : Mode) (a b c : Int) (e f g : Rat) : DurationQ.mk m a b 0 c e f g = .units a b c e f g := by
  simp [DurationQ.mk]

theorem mkQ_weeks (m : Mode) (w : Int) (hw : w ≠ 0) : DurationQ.mk m 0 0 w 0 0 0 0 = .weeks w := by
  simp only [DurationQ.mk, hw, ne_eq, not_false_eq_true, and_self, ↓reduceIte, daysInWeek_eq, Int.zero_add]
  congr 1
  omega

theorem durQ_eq_refl (m : Mode) (d : DurationQ) : DurationQ.eq m d d = true := by
  rw [IsoDT.Lemmas.DQ.eq_iff]; exact ⟨rfl, rfl⟩

theorem toTextQ_zero (reprF : Rat → List Char) (d : DurationQ) (h : d.nonzero = false) :
    toTextQ reprF d = ['P', '0', 'Y'] := by
  unfold toTextQ; simp [h]

theorem intCast_nonneg' (a : Int) (h : 0 ≤ a) : (0 : Rat) ≤ (a : Rat) := by exact_mod_cast h
theorem intCast_nonpos' (a : Int) (h : a ≤ 0) : (a : Rat) ≤ 0 := by exact_mod_cast h

theorem toTextQ_units_pos (reprF : Rat → List Char) (y mo d : Int) (h mi s : Rat) (hy : 0 ≤ y) (hmo : 0 ≤ mo)
    (hd : 0 ≤ d) (hh : 0 ≤ h) (hmi : 0 ≤ mi) (hs : 0 ≤ s)
    (hnz : (DurationQ.units y mo d h mi s).nonzero = true) :
    toTextQ reprF (.units y mo d h mi s) = desig (ofv y) (ofv mo) (ofv d) (tOfQ reprF h mi s) := by
  unfold toTextQ
  have : fullyNegLoopQ (compsQ (.units y mo d h mi s)) false = false := by
    apply fnlQ_nonneg
    intro v hv
    simp only [compsQ, List.mem_cons, List.not_mem_nil, or_false] at hv
    rcases hv with rfl | rfl | rfl | rfl | rfl | rfl
    · exact intCast_nonneg' _ hy
    · exact intCast_nonneg' _ hmo
    · exact intCast_nonneg' _ hd
    all_goals assumption
  simp only [hnz, this, Bool.not_true, Bool.false_eq_true, ↓reduceIte]
  exact toTextPosQ_units reprF y mo d h mi s hy hmo hd

theorem toTextQ_units_neg (reprF : Rat → List Char) (y mo d : Int) (h mi s : Rat) (hy : y ≤ 0) (hmo : mo ≤ 0)
    (hd : d ≤ 0) (hh : h ≤ 0) (hmi : mi ≤ 0) (hs : s ≤ 0)
    (hnz : (DurationQ.units y mo d h mi s).nonzero = true) :
    toTextQ reprF (.units y mo d h mi s) =
      '-' :: desig (ofv (-y)) (ofv (-mo)) (ofv (-d)) (tOfQ reprF (-h) (-mi) (-s)) := by
  unfold toTextQ
  have : fullyNegLoopQ (compsQ (.units y mo d h mi s)) false = true := by
    rw [fnlQ_nonpos]
    · simp only [DurationQ.nonzero, Bool.or_eq_true, bne_iff_ne, ne_eq] at hnz
      simp only [compsQ, List.any_cons, List.any_nil, Bool.or_false, Bool.false_or, Bool.or_eq_true,
        decide_eq_true_eq]
      have e1 : ((y : Rat) < 0) ↔ y < 0 := by constructor <;> intro hx <;> exact_mod_cast hx
      have e2 : ((mo : Rat) < 0) ↔ mo < 0 := by constructor <;> intro hx <;> exact_mod_cast hx
      have e3 : ((d : Rat) < 0) ↔ d < 0 := by constructor <;> intro hx <;> exact_mod_cast hx
      rw [e1, e2, e3]
      have f1 : h ≠ 0 → h < 0 := by intro; grind
      have f2 : mi ≠ 0 → mi < 0 := by intro; grind
      have f3 : s ≠ 0 → s < 0 := by intro; grind
      rcases hnz with ((((hnz | hnz) | hnz) | hnz) | hnz) | hnz
      · left; omega
      · right; left; omega
      · right; right; left; omega
      · right; right; right; left; exact f1 hnz
      · right; right; right; right; left; exact f2 hnz
      · right; right; right; right; right; exact f3 hnz
    · intro v hv
      simp only [compsQ, List.mem_cons, List.not_mem_nil, or_false] at hv
      rcases hv with rfl | rfl | rfl | rfl | rfl | rfl
      · exact intCast_nonpos' _ hy
      · exact intCast_nonpos' _ hmo
      · exact intCast_nonpos' _ hd
      all_goals assumption
  simp only [hnz, this, Bool.not_true, Bool.false_eq_true, ↓reduceIte, List.cons.injEq, true_and]
  have e : (DurationQ.units y mo d h mi s).abs = .units (-y) (-mo) (-d) (-h) (-mi) (-s) := by
    simp only [DurationQ.abs, DurationQ.units.injEq, Rat.abs_of_nonpos hh, Rat.abs_of_nonpos hmi,
      Rat.abs_of_nonpos hs, and_true]
    omega
  rw [e]
  exact toTextPosQ_units reprF _ _ _ _ _ _ (by omega) (by omega) (by omega)

theorem toTextPosQ_weeks (reprF : Rat → List Char) (w : Int) (hw : 0 ≤ w) :
    toTextPosQ reprF (.weeks w) = desigW (natDigits w.natAbs) := toTextPos_weeks w hw

theorem toTextQ_weeks_pos (reprF : Rat → List Char) (w : Int) (hw : 0 < w) :
    toTextQ reprF (.weeks w) = desigW (natDigits w.natAbs) := by
  unfold toTextQ
  have h1 : (DurationQ.weeks w).nonzero = true := by simp [DurationQ.nonzero]; omega
  have h2 : fullyNegLoopQ (compsQ (.weeks w)) false = false := by
    simp only [compsQ, fullyNegLoopQ]; rw [if_pos (by exact_mod_cast hw)]
  simp only [h1, h2, Bool.not_true, Bool.false_eq_true, ↓reduceIte]
  exact toTextPosQ_weeks reprF w (by omega)

theorem toTextQ_weeks_neg (reprF : Rat → List Char) (w : Int) (hw : w < 0) :
    toTextQ reprF (.weeks w) = '-' :: desigW (natDigits w.natAbs) := by
  unfold toTextQ
  have h1 : (DurationQ.weeks w).nonzero = true := by simp [DurationQ.nonzero]; omega
  have h2 : fullyNegLoopQ (compsQ (.weeks w)) false = true := by
    simp only [compsQ, fullyNegLoopQ]
    rw [if_neg (by intro hx; have : 0 < w := by exact_mod_cast hx
                   omega), if_pos (by exact_mod_cast hw)]
  simp only [h1, h2, Bool.not_true, Bool.false_eq_true, ↓reduceIte, List.cons.injEq, true_and]
  have e : (DurationQ.weeks w).abs = .weeks (-w) := by simp only [DurationQ.abs, DurationQ.weeks.injEq]; omega
  rw [e, toTextPosQ_weeks reprF (-w) (by omega)]
  congr 2
  omega


/-! ### what the year / month / day / week groups can capture -/

/-- A regex without named groups. -/
def NoGrp : Re → Prop
  | .eps => True
  | .one _ => True
  | .star _ => True
  | .plus _ => True
  | .opt r => NoGrp r
  | .seq a b => NoGrp a ∧ NoGrp b
  | .grp _ _ => False

/-- Every group is flat, and a group named after an `int` keyword is `\d+`. -/
def IntGrps : Re → Prop
  | .eps => True
  | .one _ => True
  | .star _ => True
  | .plus _ => True
  | .opt r => IntGrps r
  | .seq a b => IntGrps a ∧ IntGrps b
  | .grp n r => (n.isIntKey = true → r = .plus .digit) ∧ NoGrp r

/-- The `int` groups that participated captured non-empty runs of ASCII digits. -/
def CapI (cp : Caps) : Prop := ∀ n, n.isIntKey = true → ∀ ds, cp n = some ds → Digs ds ∧ ds ≠ []

theorem capI_empty : CapI capEmpty := by intro n _ ds h; cases h

theorem run_nogrp {β : Type} (r : Re) : NoGrp r → ∀ (s : List Char) (cp : Caps)
    (k : List Char → Caps → Option β) (x : β), r.run s cp k = some x → ∃ s', k s' cp = some x := by
  induction r with
  | eps => intro _ s cp k x h; exact ⟨s, h⟩
  | one c =>
    intro _ s cp k x h
    cases s with
    | nil => cases h
    | cons y ys =>
      rw [run_one_cons] at h
      split at h
      · exact ⟨ys, h⟩
      · cases h
  | star c =>
    intro _ s cp k x h
    rw [run_star] at h
    obtain ⟨_, s', _, _, hk⟩ := starK_sound _ _ _ _ h
    exact ⟨s', hk⟩
  | plus c =>
    intro _ s cp k x h
    cases s with
    | nil => cases h
    | cons y ys =>
      rw [run_plus_cons] at h
      split at h
      · obtain ⟨_, s', _, _, hk⟩ := starK_sound _ _ _ _ h
        exact ⟨s', hk⟩
      · cases h
  | opt r ih =>
    intro hr s cp k x h
    rw [run_opt] at h
    cases hrun : r.run s cp k with
    | some y => rw [hrun] at h; rw [← h]; exact ih hr s cp k y hrun
    | none => rw [hrun] at h; exact ⟨s, h⟩
  | seq a b iha ihb =>
    intro hr s cp k x h
    rw [run_seq] at h
    obtain ⟨s1, h1⟩ := iha hr.1 s cp _ x h
    exact ihb hr.2 s1 cp k x h1
  | grp n r _ => intro hr; exact absurd hr (by simp [NoGrp])

theorem capI_set_int (cp : Caps) (n : DUnit) (ds : List Char) (h : CapI cp) (hd : Digs ds) (hne : ds ≠ []) :
    CapI (capSet cp n ds) := by
  intro n' hn' ds' e
  unfold capSet at e
  split at e
  · injection e with e; subst e; exact ⟨hd, hne⟩
  · exact h n' hn' ds' e

theorem capI_set_flt (cp : Caps) (n : DUnit) (t : List Char) (h : CapI cp) (hn : n.isIntKey = false) :
    CapI (capSet cp n t) := by
  intro n' hn' ds' e
  unfold capSet at e
  split at e
  · rename_i hx; subst hx; rw [hn] at hn'; cases hn'
  · exact h n' hn' ds' e

theorem run_capI {β : Type} (r : Re) : IntGrps r → ∀ (s : List Char) (cp : Caps)
    (k : List Char → Caps → Option β) (x : β), CapI cp → r.run s cp k = some x →
    ∃ s' cp', CapI cp' ∧ k s' cp' = some x := by
  induction r with
  | eps => intro _ s cp k x hc h; exact ⟨s, cp, hc, h⟩
  | one c =>
    intro _ s cp k x hc h
    obtain ⟨s', h'⟩ := run_nogrp (.one c) trivial s cp k x h
    exact ⟨s', cp, hc, h'⟩
  | star c =>
    intro _ s cp k x hc h
    obtain ⟨s', h'⟩ := run_nogrp (.star c) trivial s cp k x h
    exact ⟨s', cp, hc, h'⟩
  | plus c =>
    intro _ s cp k x hc h
    obtain ⟨s', h'⟩ := run_nogrp (.plus c) trivial s cp k x h
    exact ⟨s', cp, hc, h'⟩
  | opt r ih =>
    intro hr s cp k x hc h
    rw [run_opt] at h
    cases hrun : r.run s cp k with
    | some y => rw [hrun] at h; rw [← h]; exact ih hr s cp k y hc hrun
    | none => rw [hrun] at h; exact ⟨s, cp, hc, h⟩
  | seq a b iha ihb =>
    intro hr s cp k x hc h
    rw [run_seq] at h
    obtain ⟨s1, cp1, hc1, h1⟩ := iha hr.1 s cp _ x hc h
    exact ihb hr.2 s1 cp1 k x hc1 h1
  | grp n r _ =>
    intro hr s cp k x hc h
    obtain ⟨hint, hng⟩ := hr
    rw [run_grp] at h
    cases hk : n.isIntKey with
    | false =>
      obtain ⟨s', h'⟩ := run_nogrp r hng s cp _ x h
      exact ⟨s', _, capI_set_flt cp n _ hc hk, h'⟩
    | true =>
      have e := hint hk
      subst e
      cases s with
      | nil => cases h
      | cons y ys =>
        rw [run_plus_cons] at h
        by_cases hy : Cls.test .digit y = true
        · rw [if_pos hy] at h
          obtain ⟨pre, s', e, hp, hk'⟩ := starK_sound _ _ _ _ h
          refine ⟨s', _, ?_, hk'⟩
          subst e
          have := take_prefix (y :: pre) s'
          simp only [List.cons_append] at this
          rw [this]
          exact capI_set_int cp n _ hc (Digs.cons hy (fun c hc' => hp c hc')) (by simp)
        · rw [if_neg hy] at h; cases h

theorem search_capI (r : Re) (hr : IntGrps r) (s : List Char) (cp : Caps) (h : r.search s = some cp) : CapI cp := by
  unfold Re.search at h
  obtain ⟨s', cp', hc, hk⟩ := run_capI r hr s capEmpty _ cp capI_empty h
  split at hk
  · injection hk with hk; rw [← hk]; exact hc
  · cases hk

theorem intGrps0 : IntGrps durRegex0 := by
  simp [durRegex0, IntGrps, NoGrp, DUnit.isIntKey]
theorem intGrps1 : IntGrps durRegex1 := by
  simp [durRegex1, IntGrps, NoGrp, DUnit.isIntKey]
theorem intGrps2 : IntGrps durRegex2 := by
  simp [durRegex2, IntGrps, NoGrp, DUnit.isIntKey]

theorem firstMatch_capI (s : List Char) (gs : List DUnit) (cp : Caps)
    (h : firstMatch durRegexes s = some (gs, cp)) : CapI cp := by
  simp only [durRegexes, firstMatch] at h
  cases h0 : durRegex0.search s with
  | some c0 => rw [h0] at h; simp only [Option.some.injEq, Prod.mk.injEq] at h; rw [← h.2]; exact search_capI _ intGrps0 s c0 h0
  | none =>
    rw [h0] at h
    cases h1 : durRegex1.search s with
    | some c1 => rw [h1] at h; simp only [Option.some.injEq, Prod.mk.injEq] at h; rw [← h.2]; exact search_capI _ intGrps1 s c1 h1
    | none =>
      rw [h1] at h
      cases h2 : durRegex2.search s with
      | some c2 => rw [h2] at h; simp only [Option.some.injEq, Prod.mk.injEq] at h; rw [← h.2]; exact search_capI _ intGrps2 s c2 h2
      | none => rw [h2] at h; cases h

/-- On captures of the three patterns the conversion loop can only fail with a `ValueError`
    (`float()` of a malformed group, `int()` beyond the digit limit): never "outside the model". -/
theorem convertQ_error (lim : Nat) (readF : List Char → FR) (sg : Int) (cp : Caps) (hc : CapI cp) :
    ∀ (gs : List DUnit) (a : Acc) (e : PRQ), convertQ lim readF sg cp gs a = .error e → e = .valueErr := by
  intro gs
  induction gs with
  | nil => intro a e h; cases h
  | cons n ns ih =>
    intro a e h
    unfold convertQ at h
    cases hk : n.isIntKey with
    | true =>
      rw [hk] at h
      simp only [↓reduceIte] at h
      cases hcp : cp n with
      | none => rw [hcp] at h; exact ih _ _ h
      | some ds =>
        obtain ⟨h1, h2⟩ := hc n hk ds hcp
        rw [hcp] at h
        by_cases hlim : lim ≠ 0 ∧ lim < ds.length
        · simp only [intFieldQ, h2, h1.all, ne_eq, not_false_eq_true, and_self, ↓reduceIte, hlim] at h
          injection h with h; exact h.symm
        · simp only [intFieldQ, h2, h1.all, ne_eq, not_false_eq_true, and_self, ↓reduceIte, hlim] at h
          exact ih _ _ h
    | false =>
      rw [hk] at h
      simp only [Bool.false_eq_true, ↓reduceIte] at h
      cases hcp : cp n with
      | none => rw [hcp] at h; exact ih _ _ h
      | some t =>
        rw [hcp] at h
        simp only at h
        cases hr : readF (replaceComma t) with
        | val q => rw [hr] at h; exact ih _ _ h
        | inf => rw [hr] at h; exact ih _ _ h
        | err => rw [hr] at h; injection h with h; exact h.symm


/-! ### comma and point -/

/-- The conversion loop sees a float group only through `value.replace(",", ".")`. -/
theorem convertQ_congr (lim : Nat) (readF : List Char → FR) (sg : Int) (cp cp' : Caps)
    (hI : ∀ n, n.isIntKey = true → cp n = cp' n)
    (hF : ∀ n, n.isIntKey = false → (cp n).map replaceComma = (cp' n).map replaceComma) :
    ∀ (gs : List DUnit) (a : Acc), convertQ lim readF sg cp gs a = convertQ lim readF sg cp' gs a := by
  intro gs
  induction gs with
  | nil => intro a; rfl
  | cons n ns ih =>
    intro a
    unfold convertQ
    cases hk : n.isIntKey with
    | true =>
      simp only [↓reduceIte, hI n hk]
      split <;> simp only [ih]
    | false =>
      simp only [Bool.false_eq_true, ↓reduceIte]
      have := hF n hk
      cases h1 : cp n with
      | none =>
        cases h2 : cp' n with
        | none => exact ih a
        | some t' => rw [h1, h2] at this; cases this
      | some t =>
        cases h2 : cp' n with
        | none => rw [h1, h2] at this; cases this
        | some t' =>
          rw [h1, h2] at this
          simp only [Option.map_some, Option.some.injEq] at this
          simp only [this]
          split <;> simp only [ih]

theorem replaceComma_idem (s : List Char) : replaceComma (replaceComma s) = replaceComma s := by
  induction s with
  | nil => rfl
  | cons c cs ih =>
    simp only [replaceComma, List.map_cons, List.cons.injEq] at ih ⊢
    refine ⟨?_, ih⟩
    by_cases hc : c = ','
    · simp [hc]
    · simp [hc]

/-- Writing every `,` of a time field as `.` keeps it a good field. -/
theorem GoodA.point {f : Option (List Char)} (h : GoodA f) : GoodA (f.map replaceComma) := by
  intro t e
  cases f with
  | none => cases e
  | some t0 =>
    simp only [Option.map_some, Option.some.injEq] at e
    subst e
    obtain ⟨⟨d0, body, rfl, hd⟩, hfree⟩ := h t0 rfl
    refine ⟨⟨d0, replaceComma body, ?_, hd⟩, ?_⟩
    · have : d0 ≠ ',' := dig_ne_of _ _ hd (by decide)
      simp [replaceComma, this]
    · intro c hc
      simp only [replaceComma, List.mem_map] at hc
      obtain ⟨c', hc', rfl⟩ := hc
      by_cases hx : c' = ','
      · rw [if_pos hx]; decide
      · rw [if_neg hx]; exact hfree c' hc'

def pointT : Option TimeF → Option TimeF
  | none => none
  | some (fh, fmi, fs) => some (fh.map replaceComma, fmi.map replaceComma, fs.map replaceComma)

theorem GoodAT.point {ft : Option TimeF} (h : GoodAT ft) : GoodAT (pointT ft) := by
  cases ft with
  | none => trivial
  | some t =>
    obtain ⟨fh, fmi, fs⟩ := t
    exact ⟨h.1.point, h.2.1.point, h.2.2.point⟩

theorem map_replaceComma_idem (f : Option (List Char)) :
    (f.map replaceComma).map replaceComma = f.map replaceComma := by
  cases f with
  | none => rfl
  | some t => simp [replaceComma_idem]

/-- `parseBodyQ` on a designator string and on its point spelling. -/
theorem parseBodyQ_point (lim : Nat) (readF : List Char → FR) (m : Mode) (sg : Int)
    (fy fmo fd : Option (List Char)) (ft : Option TimeF) (hy : GoodF fy) (hmo : GoodF fmo) (hd : GoodF fd)
    (ht : GoodAT ft) :
    parseBodyQ lim readF m sg (desig fy fmo fd ft) = parseBodyQ lim readF m sg (desig fy fmo fd (pointT ft)) := by
  cases ft with
  | none => rfl
  | some t =>
    obtain ⟨fh, fmi, fs⟩ := t
    have ht' := ht.point
    obtain ⟨hh, hmi, hs⟩ := ht
    obtain ⟨hh', hmi', hs'⟩ := ht'
    have a0 := search0_time_none fy fmo fd (fh, fmi, fs)
    have a1 := search1_timeA fy fmo fd fh fmi fs hy hmo hd hh hmi hs
    have b0 := search0_time_none fy fmo fd (fh.map replaceComma, fmi.map replaceComma, fs.map replaceComma)
    have b1 := search1_timeA fy fmo fd _ _ _ hy hmo hd hh' hmi' hs'
    simp only [parseBodyQ, durRegexes, firstMatch, a0, a1, b0, b1, pointT]
    rw [convertQ_congr lim readF sg (allCaps fy fmo fd fh fmi fs)
      (allCaps fy fmo fd (fh.map replaceComma) (fmi.map replaceComma) (fs.map replaceComma))]
    · intro n hn
      cases n <;> first
        | (rw [allCaps_years, allCaps_years])
        | (rw [allCaps_months, allCaps_months])
        | (rw [allCaps_days, allCaps_days])
        | (exact absurd hn (by decide))
        | (unfold allCaps
           rw [capAdd_ne _ _ _ _ (by decide), capAdd_ne _ _ _ _ (by decide), capAdd_ne _ _ _ _ (by decide),
             capAdd_ne _ _ _ _ (by decide), capAdd_ne _ _ _ _ (by decide), capAdd_ne _ _ _ _ (by decide)])
    · intro n hn
      cases n <;> first
        | (exact absurd hn (by decide))
        | (rw [allCaps_hours, allCaps_hours, map_replaceComma_idem])
        | (rw [allCaps_minutes, allCaps_minutes, map_replaceComma_idem])
        | (rw [allCaps_seconds, allCaps_seconds, map_replaceComma_idem])


/-! ### the possible answers of `parseBodyQ` -/

theorem parseBodyQ_of_match (lim : Nat) (readF : List Char → FR) (m : Mode) (sg : Int) (e : List Char)
    (gs : List DUnit) (cp : Caps) (h : firstMatch durRegexes e = some (gs, cp)) :
    parseBodyQ lim readF m sg e =
      (match convertQ lim readF sg cp gs Acc.zero with
        | .ok a => if a.inf then .okInf else .ok (a.toDur m)
        | .error r => r) := by
  unfold parseBodyQ; rw [h]; rfl

theorem parseBodyQ_nomatch_P (lim : Nat) (readF : List Char → FR) (m : Mode) (sg : Int) (rest : List Char)
    (h : firstMatch durRegexes ('P' :: rest) = none) :
    parseBodyQ lim readF m sg ('P' :: rest) = if sg = 1 then ofPR (altPath m rest) else .syntaxErr := by
  unfold parseBodyQ; rw [h]; rfl

theorem parseBodyQ_nomatch_other (lim : Nat) (readF : List Char → FR) (m : Mode) (sg : Int) (e : List Char)
    (h : firstMatch durRegexes e = none) (hne : ∀ rest, e ≠ 'P' :: rest) :
    parseBodyQ lim readF m sg e = .syntaxErr := by
  unfold parseBodyQ; rw [h]
  show (match e with
    | 'P' :: rest => if sg = 1 then ofPR (altPath m rest) else PRQ.syntaxErr
    | _ => PRQ.syntaxErr) = _
  split
  · rename_i rest; exact absurd rfl (hne rest)
  · rfl

theorem altPath_ok (m : Mode) (rest : List Char) (d0 : Dur) (h : altPath m rest = .ok d0) :
    ∃ y mo d hh mi s : Nat, d0 = mkDur m y mo 0 d hh mi s := by
  unfold altPath at h
  cases hp : altParse rest with
  | some r =>
    obtain ⟨y, mo, d, hh, mi, s⟩ := r
    rw [hp] at h
    simp only at h
    injection h with h
    exact ⟨y, mo, d, hh, mi, s, h.symm⟩
  | none =>
    rw [hp] at h
    simp only at h
    split at h
    · cases h
    · split at h <;> cases h

theorem ofPR_ok (r : PR) (d : DurationQ) (h : ofPR r = .ok d) : ∃ d0, r = .ok d0 ∧ d = DurationQ.ofDur d0 := by
  cases r with
  | ok d0 => simp only [ofPR] at h; injection h with h; exact ⟨d0, rfl, h.symm⟩
  | syntaxErr => cases h
  | valueErr => cases h
  | outside => cases h

theorem ofPR_outside (r : PR) (h : ofPR r = .outside) : r = .outside := by
  cases r with
  | ok d0 => cases h
  | syntaxErr => cases h
  | valueErr => cases h
  | outside => rfl

/-- An `ok` answer is `Duration(...)` of whole years / months / weeks / days. -/
theorem parseBodyQ_ok (lim : Nat) (readF : List Char → FR) (m : Mode) (sg : Int) (e : List Char)
    (d : DurationQ) (h : parseBodyQ lim readF m sg e = .ok d) :
    ∃ (y mo w dd : Int) (hh mi sec : Rat), d = DurationQ.mk m y mo w dd hh mi sec := by
  cases hfm : firstMatch durRegexes e with
  | some p =>
    obtain ⟨gs, cp⟩ := p
    rw [parseBodyQ_of_match lim readF m sg e gs cp hfm] at h
    cases hcv : convertQ lim readF sg cp gs Acc.zero with
    | error r =>
      rw [hcv] at h
      simp only at h
      have := convertQ_error lim readF sg cp (firstMatch_capI e gs cp hfm) gs _ r hcv
      rw [this] at h; cases h
    | ok a =>
      rw [hcv] at h
      simp only at h
      split at h
      · cases h
      · injection h with h
        exact ⟨_, _, _, _, _, _, _, h.symm⟩
  | none =>
    by_cases hP : ∃ rest, e = 'P' :: rest
    · obtain ⟨rest, rfl⟩ := hP
      rw [parseBodyQ_nomatch_P lim readF m sg rest hfm] at h
      split at h
      · obtain ⟨d0, h0, rfl⟩ := ofPR_ok _ _ h
        obtain ⟨y, mo, dd, hh, mi, s, rfl⟩ := altPath_ok m _ d0 h0
        exact ⟨y, mo, 0, dd, (hh : Int), (mi : Int), (s : Int),
          (IsoDT.Lemmas.DQ.ofDur_mk m y mo 0 dd hh mi s).symm⟩
      · cases h
    · rw [parseBodyQ_nomatch_other lim readF m sg e hfm (fun rest he => hP ⟨rest, he⟩)] at h
      cases h

/-- `outside` is answered only on the date-time-like fallback. -/
theorem parseBodyQ_outside (lim : Nat) (readF : List Char → FR) (m : Mode) (sg : Int) (e : List Char)
    (h : parseBodyQ lim readF m sg e = .outside) :
    sg = 1 ∧ ∃ rest, e = 'P' :: rest ∧ firstMatch durRegexes e = none ∧ altPath m rest = .outside := by
  cases hfm : firstMatch durRegexes e with
  | some p =>
    obtain ⟨gs, cp⟩ := p
    rw [parseBodyQ_of_match lim readF m sg e gs cp hfm] at h
    cases hcv : convertQ lim readF sg cp gs Acc.zero with
    | error r =>
      rw [hcv] at h
      simp only at h
      have := convertQ_error lim readF sg cp (firstMatch_capI e gs cp hfm) gs _ r hcv
      rw [this] at h; cases h
    | ok a =>
      rw [hcv] at h
      simp only at h
      split at h <;> cases h
  | none =>
    by_cases hP : ∃ rest, e = 'P' :: rest
    · obtain ⟨rest, rfl⟩ := hP
      rw [parseBodyQ_nomatch_P lim readF m sg rest hfm] at h
      split at h
      · rename_i hsg
        exact ⟨hsg, rest, rfl, rfl, ofPR_outside _ h⟩
      · cases h
    · rw [parseBodyQ_nomatch_other lim readF m sg e hfm (fun rest he => hP ⟨rest, he⟩)] at h
      cases h


end IsoDT.Lemmas.DurTextQ
