/-
  IsoDT.Lemmas.Strftime2

  Part 1 (`namespace IsoDT.Spec.Posix`, specification, meant to be read): formats over the supported
  directives, `%%` and literal text, under POSIX tokenisation (`parseFmt2`: `%%` is ONE item); their
  POSIX text (`posix2`: `%%` prints one `%`); and the side condition under which the library reads such
  a format as POSIX does (`pctSafe`: no `%%` directly followed by a letter, digit, underscore or
  non-ASCII character — the library's splitter pairs a `%` with the character AFTER it, so the second
  `%` of `%%Y` starts the directive `%Y`).

  Part 2 (`namespace IsoDT.Lemmas.Strf2`): the extended model (`Model/Strftime2.lean`, with the final
  `expression % property_map`) against part 1.
-/
import IsoDT.Model.Strftime2
import IsoDT.Lemmas.Strftime

/-! # Part 1 — specification -/

namespace IsoDT.Spec.Posix
open IsoDT IsoDT.Spec

inductive FItem2 where
  | lit (c : Char)     -- an ordinary character (never `%`)
  | pct                -- `%%`
  | conv (dir : Dir)   -- one of the eleven supported conversions
  deriving DecidableEq, Repr

/-- POSIX reading of a format string over the supported directives, `%%` and literal text: a `%` is
    always followed by `%` or by one of the eleven letters; everything else is literal. -/
def parseFmt2 : List Char → Option (List FItem2)
  | [] => some []
  | [c] => if c = '%' then none else some [.lit c]
  | c :: c' :: rest =>
    if c = '%' then
      if c' = '%' then (parseFmt2 rest).map fun r => .pct :: r
      else
        match Dir.ofChar c' with
        | some dir => (parseFmt2 rest).map fun r => .conv dir :: r
        | none => none
    else (parseFmt2 (c' :: rest)).map fun r => .lit c :: r

def itemText2 (c : Civil) : FItem2 → List Char
  | .lit ch => [ch]
  | .pct => ['%']
  | .conv dir => field c dir

/-- POSIX `strftime` of a whole format: literal characters as themselves, `%%` as one `%`. -/
def posix2 (c : Civil) (items : List FItem2) : List Char := items.flatMap (itemText2 c)

def fieldsOf2 : List FItem2 → List SField
  | [] => []
  | .lit _ :: r => fieldsOf2 r
  | .pct :: r => fieldsOf2 r
  | .conv dir :: r => dir.fields ++ fieldsOf2 r

/-- A letter, digit or underscore (Python's `\w` on ASCII), or any non-ASCII character (where `\w`
    depends on the Unicode tables). -/
def wordLike (c : Char) : Bool := c.isAlphanum || c == '_' || decide (128 ≤ c.toNat)

def headWordLike : List FItem2 → Bool
  | .lit c :: _ => wordLike c
  | _ => false

/-- No `%%` is directly followed by a literal letter, digit, underscore or non-ASCII character. -/
def pctSafe : List FItem2 → Bool
  | [] => true
  | .pct :: r => !headWordLike r && pctSafe r
  | _ :: r => pctSafe r

/-- The same format without the distinction (`%%` as the literal character it prints), for the
    theorems of `Props/C17.lean`. -/
def FItem2.toItem : FItem2 → FItem
  | .lit c => .lit c
  | .pct => .lit '%'
  | .conv dir => .conv dir

end IsoDT.Spec.Posix

/-! # Part 2 — the model against the specification -/

namespace IsoDT.Lemmas.Strf2
open IsoDT IsoDT.Model IsoDT.Model.Strf IsoDT.Model.Strf2 IsoDT.Lemmas IsoDT.Lemmas.Strf
open IsoDT.Spec (Date TZ TP)
open IsoDT.Spec.Posix
open IsoDT.Gen.Strftime (Fld Fmt Pat Cls Piece fmtOf patOf clsOf propName)

/-! ### the two readings of a format coincide on `%%`-free formats -/

theorem posix_toItem (c : Civil) (items : List FItem2) :
    posix c (items.map FItem2.toItem) = posix2 c items := by
  induction items with
  | nil => rfl
  | cons it r ih =>
    simp only [posix, posix2, List.map_cons, List.flatMap_cons] at ih ⊢
    rw [ih]
    cases it <;> rfl

theorem fieldsOf_toItem (items : List FItem2) : fieldsOf (items.map FItem2.toItem) = fieldsOf2 items := by
  induction items with
  | nil => rfl
  | cons it r ih => cases it <;> simp [fieldsOf, fieldsOf2, FItem2.toItem, ih]

theorem parseFmt_of_parseFmt2 (fmt : List Char) (items : List FItem2) (h : parseFmt2 fmt = some items)
    (hp : FItem2.pct ∉ items) : parseFmt fmt = some (items.map FItem2.toItem) := by
  induction fmt using parseFmt2.induct generalizing items with
  | case1 =>
    simp only [parseFmt2, Option.some.injEq] at h
    subst h; rfl
  | case2 => simp [parseFmt2] at h
  | case3 c hc =>
    simp only [parseFmt2, hc, ↓reduceIte, Option.some.injEq] at h
    subst h
    simp [parseFmt, hc, FItem2.toItem]
  | case4 rest ih =>
    simp only [parseFmt2, ↓reduceIte] at h
    cases hr : parseFmt2 rest with
    | none => simp [hr] at h
    | some r =>
      simp only [hr, Option.map_some, Option.some.injEq] at h
      subst h
      simp at hp
  | case5 c' rest hc' dir hdir ih =>
    simp only [parseFmt2, ↓reduceIte, hc', hdir] at h
    cases hr : parseFmt2 rest with
    | none => simp [hr] at h
    | some r =>
      simp only [hr, Option.map_some, Option.some.injEq] at h
      subst h
      have := ih r hr (fun hm => hp (by simp [hm]))
      simp [parseFmt, hdir, this, FItem2.toItem]
  | case6 c' rest hc' hdir => simp [parseFmt2, hc', hdir] at h
  | case7 c c' rest hc ih =>
    simp only [parseFmt2, hc, ↓reduceIte] at h
    cases hr : parseFmt2 (c' :: rest) with
    | none => simp [hr] at h
    | some r =>
      simp only [hr, Option.map_some, Option.some.injEq] at h
      subst h
      have := ih r hr (fun hm => hp (by simp [hm]))
      simp [parseFmt, hc, this, FItem2.toItem]

/-! ### the splitter on `%%` -/

def pieces2 : FItem2 → List Piece
  | .lit c => [.lit c]
  | .pct => [.lit '%', .lit '%']
  | .conv dir => piecesOf dir

def piecesOfItems2 (items : List FItem2) : List Piece := items.flatMap pieces2

def headCharWL : List Char → Bool
  | d :: _ => wordLike d
  | [] => false

theorem wordLike_percent : wordLike '%' = false := by decide

theorem head_parse (s : List Char) (items : List FItem2) (h : parseFmt2 s = some items) :
    headWordLike items = headCharWL s := by
  match s, h with
  | [], h =>
    simp only [parseFmt2, Option.some.injEq] at h
    subst h; rfl
  | [c], h =>
    by_cases hc : c = '%'
    · simp [parseFmt2, hc] at h
    · simp only [parseFmt2, hc, ↓reduceIte, Option.some.injEq] at h
      subst h; rfl
  | c :: c' :: rest, h =>
    by_cases hc : c = '%'
    · subst hc
      simp only [parseFmt2, ↓reduceIte] at h
      simp only [headCharWL, wordLike_percent]
      by_cases hc' : c' = '%'
      · simp only [hc', ↓reduceIte] at h
        cases hr : parseFmt2 rest with
        | none => simp [hr] at h
        | some r =>
          simp only [hr, Option.map_some, Option.some.injEq] at h
          subst h; rfl
      · simp only [hc', ↓reduceIte] at h
        cases hd : Dir.ofChar c' with
        | none => simp [hd] at h
        | some dir =>
          simp only [hd] at h
          cases hr : parseFmt2 rest with
          | none => simp [hr] at h
          | some r =>
            simp only [hr, Option.map_some, Option.some.injEq] at h
            subst h; rfl
    · simp only [parseFmt2, hc, ↓reduceIte] at h
      cases hr : parseFmt2 (c' :: rest) with
      | none => simp [hr] at h
      | some r =>
        simp only [hr, Option.map_some, Option.some.injEq] at h
        subst h; rfl

theorem isWord_wordLike (d : Char) (h : wordLike d = false) : isWord d = false ∧ d.toNat < 128 := by
  simp only [wordLike, Bool.or_eq_false_iff, decide_eq_false_iff_not] at h
  refine ⟨?_, by omega⟩
  simp only [isWord, Bool.or_eq_false_iff]
  exact h.1

theorem nonAscii_skip (c : Char) (rest : List Char) (h : c ≠ '%') :
    nonAsciiAfterPct (c :: rest) = nonAsciiAfterPct rest := by
  cases rest with
  | nil => rfl
  | cons d r =>
    have : (c == '%') = false := by simpa using h
    simp [nonAsciiAfterPct, this]

theorem toChar_ascii (dir : Dir) : dir.toChar.toNat < 128 := by cases dir <;> decide

/-- On a format over the supported directives, `%%` and literal text in which no `%%` runs into a
    following word character, the library's splitter and table produce the POSIX reading, `%%` as two
    literal `%` pieces. -/
theorem translate_scan2 (fmt : List Char) (items : List FItem2) (h : parseFmt2 fmt = some items)
    (hs : pctSafe items = true) :
    translate (scan fmt) = .ok (piecesOfItems2 items) ∧ nonAsciiAfterPct fmt = false := by
  induction fmt using parseFmt2.induct generalizing items with
  | case1 =>
    simp only [parseFmt2, Option.some.injEq] at h
    subst h
    exact ⟨rfl, rfl⟩
  | case2 => simp [parseFmt2] at h
  | case3 c hc =>
    simp only [parseFmt2, hc, ↓reduceIte, Option.some.injEq] at h
    subst h
    exact ⟨rfl, rfl⟩
  | case4 rest ih =>
    simp only [parseFmt2, ↓reduceIte] at h
    cases hr : parseFmt2 rest with
    | none => simp [hr] at h
    | some r =>
      simp only [hr, Option.map_some, Option.some.injEq] at h
      subst h
      simp only [pctSafe, Bool.and_eq_true, Bool.not_eq_true'] at hs
      obtain ⟨ih1, ih2⟩ := ih r hr hs.2
      have hh := head_parse rest r hr
      rw [hs.1] at hh
      cases rest with
      | nil =>
        simp only [parseFmt2, Option.some.injEq] at hr
        subst hr
        exact ⟨rfl, rfl⟩
      | cons d rest' =>
        have hd := isWord_wordLike d (by simpa [headCharWL] using hh.symm)
        have hpw : isWord '%' = false := by decide
        refine ⟨?_, ?_⟩
        · simp only [scan, hpw, hd.1, Bool.false_eq_true, and_false, ↓reduceIte, translate, ih1]
          rfl
        · have e1 : (128 ≤ ('%' : Char).toNat) = False := by decide
          have e2 : ¬ (128 ≤ d.toNat) := by omega
          simp [nonAsciiAfterPct, ih2, e2]
  | case5 c' rest hc' dir hdir ih =>
    simp only [parseFmt2, ↓reduceIte, hc', hdir] at h
    cases hr : parseFmt2 rest with
    | none => simp [hr] at h
    | some r =>
      simp only [hr, Option.map_some, Option.some.injEq] at h
      subst h
      obtain ⟨ih1, ih2⟩ := ih r hr (by simpa [pctSafe] using hs)
      have hcc := ofChar_some c' dir hdir
      subst hcc
      refine ⟨?_, ?_⟩
      · simp only [scan, isWord_toChar, and_self, ↓reduceIte, translate, lookupDir_toChar, ih1]
        rfl
      · have := toChar_ascii dir
        have e2 : ¬ (128 ≤ dir.toChar.toNat) := by omega
        simp only [nonAsciiAfterPct, e2, decide_false, Bool.and_false, Bool.false_or]
        rw [nonAscii_skip _ _ hc', ih2]
  | case6 c' rest hc' hdir => simp [parseFmt2, hc', hdir] at h
  | case7 c c' rest hc ih =>
    simp only [parseFmt2, hc, ↓reduceIte] at h
    cases hr : parseFmt2 (c' :: rest) with
    | none => simp [hr] at h
    | some r =>
      simp only [hr, Option.map_some, Option.some.injEq] at h
      subst h
      obtain ⟨ih1, ih2⟩ := ih r hr (by simpa [pctSafe] using hs)
      refine ⟨?_, ?_⟩
      · simp only [scan, hc, false_and, ↓reduceIte, translate, ih1]
        rfl
      · rw [nonAscii_skip _ _ hc, ih2]

/-! ### `expression % property_map` on the translated pieces -/

theorem run_lit (env : List (List Char × Val)) (sp : Bool) (c : Char) (rest : List Char) (h : c ≠ '%') :
    run env (.text sp) (c :: rest) = prepend [c] (run env (.text sp) rest) := by
  simp only [run, h, ↓reduceIte]

theorem run_pctpct (env : List (List Char × Val)) (sp : Bool) (rest : List Char) :
    run env (.text sp) ('%' :: '%' :: rest) = prepend ['%'] (run env (.text sp) rest) := by
  simp only [run, ↓reduceIte]

theorem run_key (env : List (List Char × Val)) (sp : Bool) (ks : List Char)
    (hk : ∀ c ∈ ks, c ≠ '(' ∧ c ≠ ')') (acc rest : List Char) :
    run env (.key sp 0 acc) (ks ++ ')' :: rest) =
      match env.lookup (acc ++ ks) with
      | none => .error .key
      | some v => run env (.spec sp .flags (Spec.start (some v))) rest := by
  induction ks generalizing acc with
  | nil =>
    simp only [List.nil_append, run, ↓reduceIte, List.append_nil]
    cases List.lookup acc env <;> rfl
  | cons k ks ih =>
    have hk1 := hk k (by simp)
    simp only [List.cons_append, run, hk1.1, hk1.2, ↓reduceIte]
    rw [ih (fun c hc => hk c (by simp [hc]))]
    simp

theorem propName_noparen (f : Fld) : ∀ c ∈ (propName f).toList, c ≠ '(' ∧ c ≠ ')' := by
  cases f <;> decide


theorem tmpl_append (f : Fld) (rest : List Char) :
    tmpl f ++ rest = '%' :: '(' :: ((propName f).toList ++ ')' ::
      (fmtSuffix (fmtOf f) ++ rest)) := by
  simp [tmpl]

theorem run_tmpl (env : List (List Char × Val)) (sp : Bool) (c : DumpCtx) (f : Fld) (rest : List Char)
    (hl : env.lookup (propName f).toList = some (fldVal c f)) :
    run env (.text sp) (tmpl f ++ rest) = prepend (renderPiece c (.fld f)) (run env (.text true) rest) := by
  rw [tmpl_append]
  simp only [run, ↓reduceIte]
  have h1 : ('(' : Char) ≠ '%' := by decide
  simp only [h1, ↓reduceIte]
  rw [run_key env sp _ (propName_noparen f) [] _, List.nil_append, hl]
  cases f <;>
    simp [fmtOf, fmtSuffix, showNat, Strf.dch, run, specStep, finish, Spec.start, isDigitC, isLenMod, fldVal, renderPiece,
      fmtVal, parseNat, widthMax]


theorem prepend_nil (x : Except FErr (List Char)) : prepend [] x = x := by cases x <;> rfl

theorem prepend_prepend (a b : List Char) (x : Except FErr (List Char)) :
    prepend a (prepend b x) = prepend (a ++ b) x := by
  cases x <;> simp [prepend]

/-- Does the piece list name a property (so that formatting it fetches an argument)? -/
def hasFld (ps : List Piece) : Bool := !(fldsOf ps).isEmpty

theorem hasFld_append (a b : List Piece) : hasFld (a ++ b) = (hasFld a || hasFld b) := by
  simp only [hasFld, fldsOf_append]
  cases fldsOf a <;> cases fldsOf b <;> rfl

theorem exprOf_append (a b : List Piece) : exprOf (a ++ b) = exprOf a ++ exprOf b := by
  simp [exprOf]

/-- A run of translated pieces without a literal `%`: every template prints its property, every
    literal character itself. -/
theorem run_pieces (env : List (List Char × Val)) (c : DumpCtx) (qs : List Piece) (hq : Piece.lit '%' ∉ qs)
    (henv : ∀ f ∈ fldsOf qs, env.lookup (propName f).toList = some (fldVal c f)) (sp : Bool)
    (rest : List Char) :
    run env (.text sp) (exprOf qs ++ rest) =
      prepend (renderPieces c qs) (run env (.text (sp || hasFld qs)) rest) := by
  induction qs generalizing sp with
  | nil => simp [exprOf, renderPieces, hasFld, fldsOf, prepend_nil]
  | cons q qs ih =>
    have hq' : Piece.lit '%' ∉ qs := fun h => hq (by simp [h])
    cases q with
    | lit ch =>
      have hch : ch ≠ '%' := fun e => hq (by simp [e])
      have e : exprOf (.lit ch :: qs) ++ rest = ch :: (exprOf qs ++ rest) := by simp [exprOf, pieceExpr]
      rw [e, run_lit env sp ch _ hch, ih hq' (fun f hf => henv f (by simpa [fldsOf] using hf)), prepend_prepend]
      simp [renderPieces, renderPiece, hasFld, fldsOf]
    | fld f =>
      have e : exprOf (.fld f :: qs) ++ rest = tmpl f ++ (exprOf qs ++ rest) := by simp [exprOf, pieceExpr]
      rw [e, run_tmpl env sp c f _ (henv f (by simp [fldsOf])),
        ih hq' (fun g hg => henv g (by simp [fldsOf, hg])), prepend_prepend]
      simp [renderPieces, hasFld, fldsOf]

theorem piecesOf_no_pct (dir : Dir) : Piece.lit '%' ∉ piecesOf dir := by cases dir <;> decide

theorem piecesOfItems2_cons (it : FItem2) (r : List FItem2) :
    piecesOfItems2 (it :: r) = pieces2 it ++ piecesOfItems2 r := by simp [piecesOfItems2]

/-- The whole expression of a format in the class of part 1: POSIX text, `%%` as one `%`. -/
theorem run_items (env : List (List Char × Val)) (ctx : DumpCtx) (civ : Civil) (items : List FItem2)
    (henv : ∀ f ∈ fldsOf (piecesOfItems2 items), env.lookup (propName f).toList = some (fldVal ctx f))
    (hr : ∀ dir, FItem2.conv dir ∈ items → renderPieces ctx (piecesOf dir) = field civ dir)
    (hl : ∀ ch, FItem2.lit ch ∈ items → ch ≠ '%') (sp : Bool) (rest : List Char) :
    run env (.text sp) (exprOf (piecesOfItems2 items) ++ rest) =
      prepend (posix2 civ items) (run env (.text (sp || hasFld (piecesOfItems2 items))) rest) := by
  induction items generalizing sp with
  | nil => simp [piecesOfItems2, exprOf, posix2, hasFld, fldsOf, prepend_nil]
  | cons it r ih =>
    have henv' : ∀ f ∈ fldsOf (piecesOfItems2 r), env.lookup (propName f).toList = some (fldVal ctx f) :=
      fun f hf => henv f (by rw [piecesOfItems2_cons, fldsOf_append]; simp [hf])
    have hr' : ∀ dir, FItem2.conv dir ∈ r → renderPieces ctx (piecesOf dir) = field civ dir :=
      fun dir hd => hr dir (by simp [hd])
    have hl' : ∀ ch, FItem2.lit ch ∈ r → ch ≠ '%' := fun ch hd => hl ch (by simp [hd])
    rw [piecesOfItems2_cons, exprOf_append, List.append_assoc, hasFld_append]
    have hp : posix2 civ (it :: r) = itemText2 civ it ++ posix2 civ r := by simp [posix2]
    rw [hp]
    cases it with
    | lit ch =>
      have e : exprOf (pieces2 (.lit ch)) ++ (exprOf (piecesOfItems2 r) ++ rest) =
          ch :: (exprOf (piecesOfItems2 r) ++ rest) := by simp [exprOf, pieces2, pieceExpr]
      rw [e, run_lit env sp ch _ (hl ch (by simp)), ih henv' hr' hl', prepend_prepend]
      simp [itemText2, hasFld, pieces2, fldsOf]
    | pct =>
      have e : exprOf (pieces2 .pct) ++ (exprOf (piecesOfItems2 r) ++ rest) =
          '%' :: '%' :: (exprOf (piecesOfItems2 r) ++ rest) := by simp [exprOf, pieces2, pieceExpr]
      rw [e, run_pctpct, ih henv' hr' hl', prepend_prepend]
      simp [itemText2, hasFld, pieces2, fldsOf]
    | conv dir =>
      have henv1 : ∀ f ∈ fldsOf (piecesOf dir), env.lookup (propName f).toList = some (fldVal ctx f) :=
        fun f hf => henv f (by rw [piecesOfItems2_cons, fldsOf_append]; simp [pieces2, hf])
      rw [show pieces2 (.conv dir) = piecesOf dir from rfl,
        run_pieces env ctx (piecesOf dir) (piecesOf_no_pct dir) henv1, ih henv' hr' hl', prepend_prepend,
        hr dir (by simp), Bool.or_assoc]
      rfl


theorem lit_ne_pct (fmt : List Char) (items : List FItem2) (h : parseFmt2 fmt = some items) :
    ∀ ch, FItem2.lit ch ∈ items → ch ≠ '%' := by
  induction fmt using parseFmt2.induct generalizing items with
  | case1 =>
    simp only [parseFmt2, Option.some.injEq] at h
    subst h; simp
  | case2 => simp [parseFmt2] at h
  | case3 c hc =>
    simp only [parseFmt2, hc, ↓reduceIte, Option.some.injEq] at h
    subst h
    simpa using hc
  | case4 rest ih =>
    simp only [parseFmt2, ↓reduceIte] at h
    cases hr : parseFmt2 rest with
    | none => simp [hr] at h
    | some r =>
      simp only [hr, Option.map_some, Option.some.injEq] at h
      subst h
      simpa using ih r hr
  | case5 c' rest hc' dir hdir ih =>
    simp only [parseFmt2, ↓reduceIte, hc', hdir] at h
    cases hr : parseFmt2 rest with
    | none => simp [hr] at h
    | some r =>
      simp only [hr, Option.map_some, Option.some.injEq] at h
      subst h
      simpa using ih r hr
  | case6 c' rest hc' hdir => simp [parseFmt2, hc', hdir] at h
  | case7 c c' rest hc ih =>
    simp only [parseFmt2, hc, ↓reduceIte] at h
    cases hr : parseFmt2 (c' :: rest) with
    | none => simp [hr] at h
    | some r =>
      simp only [hr, Option.map_some, Option.some.injEq] at h
      subst h
      intro ch hm
      simp only [List.mem_cons, FItem2.lit.injEq] at hm
      rcases hm with e | hm
      · rw [e]; exact hc
      · exact ih r hr ch hm

theorem propName_inj (f g : Fld) (h : (propName f).toList = (propName g).toList) : f = g := by
  cases f <;> cases g <;> first | rfl | exact absurd h (by decide)

theorem lookup_envOf (c : DumpCtx) (ps : List Piece) (f : Fld) (hf : f ∈ fldsOf ps) :
    (envOf c ps).lookup (propName f).toList = some (fldVal c f) := by
  unfold envOf
  generalize fldsOf ps = fs at hf
  induction fs with
  | nil => simp at hf
  | cons g fs ih =>
    simp only [List.map_cons, List.lookup_cons]
    by_cases e : (propName f).toList = (propName g).toList
    · have := propName_inj f g e
      subst this
      simp
    · have : ((propName f).toList == (propName g).toList) = false := by simpa using e
      rw [this]
      simp only [List.mem_cons] at hf
      rcases hf with hf | hf
      · subst hf; exact absurd rfl e
      · exact ih hf


/-! ### strftime2 down to the formatting step -/

theorem century_mem2 (items : List FItem2) (h : Piece.fld .century ∈ piecesOfItems2 items) :
    SField.year ∈ fieldsOf2 items := by
  induction items with
  | nil => simp [piecesOfItems2] at h
  | cons it rest ih =>
    rw [piecesOfItems2_cons, List.mem_append] at h
    cases it with
    | lit ch =>
      rcases h with h | h
      · simp [pieces2] at h
      · exact ih h
    | pct =>
      rcases h with h | h
      · simp [pieces2] at h
      · exact ih h
    | conv dir =>
      simp only [fieldsOf2, List.mem_append]
      rcases h with h | h
      · left
        cases dir <;> simp [pieces2, piecesOf] at h <;> simp [Dir.fields]
      · exact Or.inr (ih h)

/-- On a valid point, `strftime2` is the formatting of the translated expression (unless the year
    bounds check fires). -/
theorem strftime2_run (m : Mode) (p : TP) (hv : p.Valid m) (c : Civil) (hc : IsCivil m p c)
    (fmt : List Char) (ps : List Piece) (hna : nonAsciiAfterPct fmt = false)
    (ht : translate (scan fmt) = .ok ps)
    (hy : Piece.fld .century ∈ ps → 0 ≤ c.year ∧ c.year ≤ 9999) :
    strftime2 m p fmt = run (envOf (ctxOf p c) ps) (.text false) (exprOf ps) := by
  obtain ⟨p', hfd, hv', hrep, hn, h1, h2, h3, h4⟩ := forDump_spec m p hv
  have hc' := isCivil_transfer m p p' c hc hn h1 h2 h3 h4
  have hctx := dumpCtx_spec m p' hv' hrep c hc'
  have hcx : (⟨c.year, c.month, c.day, c.yday, p'.hh, p'.mi, p'.ss, p'.tz, c.unix⟩ : DumpCtx) = ctxOf p c := by
    simp only [ctxOf, h1, h2, h3, h4]
  unfold strftime2
  rw [hna, ht]
  simp only [Bool.false_eq_true, ↓reduceIte, hfd, Option.bind_some, hctx, hcx]
  rw [if_neg]
  intro ⟨hcen, hnot⟩
  exact hnot (hy (by simpa using hcen))

theorem fields_mem2 (items : List FItem2) (dir : Dir) (h : FItem2.conv dir ∈ items) :
    ∀ x ∈ dir.fields, x ∈ fieldsOf2 items := by
  induction items with
  | nil => simp at h
  | cons it r ih =>
    intro x hx
    simp only [List.mem_cons] at h
    rcases h with h | h
    · subst h
      simp [fieldsOf2, hx]
    · have := ih h x hx
      cases it <;> simp [fieldsOf2, this]


/-! ### a format of the class, followed by something else -/

/-- The splitter reads a format of the class and what follows it independently, provided what follows
    does not start with a word character. -/
theorem scan_append (pre : List Char) (items : List FItem2) (h : parseFmt2 pre = some items)
    (hs : pctSafe items = true) (suf : List Char) (hsuf : headCharWL suf = false) :
    scan (pre ++ suf) = scan pre ++ scan suf := by
  have sufw : ∀ d r, suf = d :: r → isWord d = false := by
    intro d r e
    subst e
    exact (isWord_wordLike d (by simpa [headCharWL] using hsuf)).1
  induction pre using parseFmt2.induct generalizing items with
  | case1 => rfl
  | case2 => simp [parseFmt2] at h
  | case3 c hc =>
    cases suf with
    | nil => rfl
    | cons d r => simp [scan, hc]
  | case4 rest ih =>
    simp only [parseFmt2, ↓reduceIte] at h
    cases hr : parseFmt2 rest with
    | none => simp [hr] at h
    | some r =>
      simp only [hr, Option.map_some, Option.some.injEq] at h
      subst h
      simp only [pctSafe, Bool.and_eq_true, Bool.not_eq_true'] at hs
      have ih' := ih r hr hs.2
      have hh := head_parse rest r hr
      rw [hs.1] at hh
      have hpw : isWord '%' = false := by decide
      cases rest with
      | nil =>
        cases suf with
        | nil => rfl
        | cons d s' =>
          have := sufw d s' rfl
          simp [scan, hpw, this]
      | cons d rest' =>
        have hd := isWord_wordLike d (by simpa [headCharWL] using hh.symm)
        simp only [List.cons_append, scan, hpw, hd.1, Bool.false_eq_true, and_false, ↓reduceIte]
        simp only [List.cons_append] at ih'
        rw [ih']
  | case5 c' rest hc' dir hdir ih =>
    simp only [parseFmt2, ↓reduceIte, hc', hdir] at h
    cases hr : parseFmt2 rest with
    | none => simp [hr] at h
    | some r =>
      simp only [hr, Option.map_some, Option.some.injEq] at h
      subst h
      have ih' := ih r hr (by simpa [pctSafe] using hs)
      have hcc := ofChar_some c' dir hdir
      subst hcc
      simp only [List.cons_append, scan, isWord_toChar, and_self, ↓reduceIte, ih']
  | case6 c' rest hc' hdir => simp [parseFmt2, hc', hdir] at h
  | case7 c c' rest hc ih =>
    simp only [parseFmt2, hc, ↓reduceIte] at h
    cases hr : parseFmt2 (c' :: rest) with
    | none => simp [hr] at h
    | some r =>
      simp only [hr, Option.map_some, Option.some.injEq] at h
      subst h
      have ih' := ih r hr (by simpa [pctSafe] using hs)
      simp only [List.cons_append, scan, hc, false_and, ↓reduceIte] at ih' ⊢
      rw [ih']

theorem translate_append (a b : List Item) (pa pb : List Piece) (ha : translate a = .ok pa)
    (hb : translate b = .ok pb) : translate (a ++ b) = .ok (pa ++ pb) := by
  induction a generalizing pa with
  | nil =>
    simp only [translate, Except.ok.injEq] at ha
    subst ha
    simpa using hb
  | cons x xs ih =>
    cases x with
    | ch c =>
      simp only [translate] at ha
      cases hx : translate xs with
      | error e => simp [hx] at ha
      | ok px =>
        simp only [hx, Except.ok.injEq] at ha
        subst ha
        simp [translate, ih px hx]
    | dir c =>
      simp only [translate] at ha
      cases hl : lookupDir c with
      | none => simp [hl] at ha
      | some ds =>
        simp only [hl] at ha
        cases hx : translate xs with
        | error e => simp [hx] at ha
        | ok px =>
          simp only [hx, Except.ok.injEq] at ha
          subst ha
          simp [translate, hl, ih px hx]

def headAscii : List Char → Bool
  | d :: _ => decide (d.toNat < 128)
  | [] => true

theorem nonAscii_append (a b : List Char) (ha : nonAsciiAfterPct a = false) (hb : nonAsciiAfterPct b = false)
    (hh : headAscii b = true) : nonAsciiAfterPct (a ++ b) = false := by
  induction a with
  | nil => simpa using hb
  | cons c r ih =>
    cases r with
    | nil =>
      cases b with
      | nil => rfl
      | cons d s =>
        simp only [headAscii, decide_eq_true_eq] at hh
        have e2 : ¬ (128 ≤ d.toNat) := by omega
        simp [nonAsciiAfterPct, e2, hb]
    | cons d r' =>
      simp only [nonAsciiAfterPct, Bool.or_eq_false_iff] at ha
      have := ih ha.2
      simp only [List.cons_append, nonAsciiAfterPct, Bool.or_eq_false_iff]
      exact ⟨ha.1, by simpa using this⟩


theorem prepend_error (a : List Char) (e : FErr) : prepend a (.error e) = .error e := rfl

theorem headAscii_of_notWL (suf : List Char) (h : headCharWL suf = false) : headAscii suf = true := by
  cases suf with
  | nil => rfl
  | cons d r =>
    have := (isWord_wordLike d (by simpa [headCharWL] using h)).2
    simpa [headAscii] using this

/-- `strftime2` of a format of the class followed by anything else that does not start with a word
    character: the POSIX text of the first part, then the formatting of the rest. -/
theorem strftime2_prefix (m : Mode) (p : TP) (hv : p.Valid m) (c : Civil) (hc : IsCivil m p c)
    (hy : 0 ≤ c.year ∧ c.year ≤ 9999) (pre : List Char) (items : List FItem2)
    (hf : parseFmt2 pre = some items) (hs : pctSafe items = true) (suf : List Char)
    (hsw : headCharWL suf = false) (hsa : nonAsciiAfterPct suf = false) (tailps : List Piece)
    (htl : translate (scan suf) = .ok tailps) :
    strftime2 m p (pre ++ suf) =
      prepend (posix2 c items)
        (run (envOf (ctxOf p c) (piecesOfItems2 items ++ tailps)) (.text (hasFld (piecesOfItems2 items)))
          (exprOf tailps)) := by
  obtain ⟨ht, hna⟩ := translate_scan2 pre items hf hs
  have ht' : translate (scan (pre ++ suf)) = .ok (piecesOfItems2 items ++ tailps) := by
    rw [scan_append pre items hf hs suf hsw]
    exact translate_append _ _ _ _ ht htl
  have hna' := nonAscii_append pre suf hna hsa (headAscii_of_notWL suf hsw)
  rw [strftime2_run m p hv c hc _ _ hna' ht' (fun _ => hy), exprOf_append]
  have h := run_items (envOf (ctxOf p c) (piecesOfItems2 items ++ tailps)) (ctxOf p c) c items
    (fun f hf' => lookup_envOf _ _ f (by rw [fldsOf_append]; simp [hf']))
    (fun dir _ => render_dir m p hv c hc dir (fun _ => hy))
    (lit_ne_pct pre items hf) false (exprOf tailps)
  rw [h]
  simp

theorem isDigit_of_range (c : Char) (h1 : 48 ≤ c.toNat) (h2 : c.toNat ≤ 57) : c.isDigit = true := by
  simp only [Char.isDigit, Bool.and_eq_true, decide_eq_true_eq, ge_iff_le]
  have e0 : ('0' : Char).val.toNat = 48 := by decide
  have e9 : ('9' : Char).val.toNat = 57 := by decide
  have ec : c.val.toNat = c.toNat := rfl
  constructor
  · rw [UInt32.le_iff_toNat_le, e0, ec]; exact h1
  · rw [UInt32.le_iff_toNat_le, e9, ec]; exact h2

theorem run_trailing (env : List (List Char × Val)) (sp : Bool) : run env (.text sp) ['%'] = .error .value := by
  simp [run]

/-- Punctuation that means nothing to printf: not a word character, not `%`, `(`, a flag, `*` or `.`. -/
def inertPunct (c : Char) : Bool := !wordLike c && !("%(-+ #*.".toList.contains c)

theorem run_stray (env : List (List Char × Val)) (sp : Bool) (c : Char) (rest : List Char)
    (hc : inertPunct c = true) :
    run env (.text sp) ('%' :: c :: rest) = .error (if sp then .type else .value) := by
  simp only [inertPunct, Bool.and_eq_true, Bool.not_eq_true'] at hc
  obtain ⟨hw, hl⟩ := hc
  have hl' : c ≠ '%' ∧ c ≠ '(' ∧ c ≠ '-' ∧ c ≠ '+' ∧ c ≠ ' ' ∧ c ≠ '#' ∧ c ≠ '*' ∧ c ≠ '.' := by
    have : "%(-+ #*.".toList = ['%', '(', '-', '+', ' ', '#', '*', '.'] := by decide
    rw [this] at hl
    simpa using hl
  have hword : isWord c = false := (isWord_wordLike c hw).1
  have ne : ∀ x : Char, isWord x = true → c ≠ x := fun x hx e => by
    subst e; rw [hword] at hx; exact absurd hx (by decide)
  have hdig : isDigitC c = false := by
    cases hd : isDigitC c with
    | false => rfl
    | true =>
      exfalso
      simp only [isDigitC, Bool.and_eq_true, decide_eq_true_eq] at hd
      have : isWord c = true := by
        rw [isWord, Char.isAlphanum, isDigit_of_range c hd.1 hd.2]
        simp
      rw [hword] at this
      exact absurd this (by decide)
  have n0 := ne '0' (by decide); have nh := ne 'h' (by decide); have nl := ne 'l' (by decide)
  have nL := ne 'L' (by decide); have ns := ne 's' (by decide); have nr := ne 'r' (by decide)
  have na := ne 'a' (by decide)
  have nd := ne 'd' (by decide); have ni := ne 'i' (by decide); have nu := ne 'u' (by decide)
  have no := ne 'o' (by decide); have nx := ne 'x' (by decide); have nX := ne 'X' (by decide)
  have ne' := ne 'e' (by decide); have nE := ne 'E' (by decide); have nf := ne 'f' (by decide)
  have nF := ne 'F' (by decide); have ng := ne 'g' (by decide); have nG := ne 'G' (by decide)
  have nc := ne 'c' (by decide)
  obtain ⟨l1, l2, l3, l4, l5, l6, l7, l8⟩ := hl'
  simp [run, l1, l2, specStep, Spec.start, n0, l3, l4, l5, l6, l7, l8, hdig, isLenMod, nh, nl, nL, finish,
    ns, nr, na, nd, ni, nu, no, nx, nX, ne', nE, nf, nF, ng, nG, nc]
  cases sp <;> rfl


/-! ### strptime: a `%%` in the format can never match what strftime printed for it -/

theorem np_render (w v : Nat) : '%' ∉ render w v := fun h => absurd (render_digits w v '%' h) (by decide)

theorem np_decimal (n : Nat) : '%' ∉ decimal n := fun h => absurd (decimal_digits n '%' h) (by decide)

theorem np_decimalInt (z : Int) : '%' ∉ decimalInt z := by
  unfold decimalInt
  split
  · simp only [List.mem_cons, not_or]
    exact ⟨by decide, np_decimal _⟩
  · exact np_decimal _

theorem np_field (c : Civil) (dir : Dir) : '%' ∉ field c dir := by
  have h1 : ('%' : Char) ≠ '-' := by decide
  have h2 : ('%' : Char) ≠ ':' := by decide
  have h3 : ('%' : Char) ≠ '+' := by decide
  cases dir <;> simp [field, np_render, np_decimalInt, h1, h2]
  split <;> simp [h1, h3]

theorem count_posix2 (c : Civil) (items : List FItem2) (hl : ∀ ch, FItem2.lit ch ∈ items → ch ≠ '%') :
    (posix2 c items).count '%' = items.count .pct := by
  induction items with
  | nil => rfl
  | cons it r ih =>
    have ih' := ih (fun ch h => hl ch (by simp [h]))
    simp only [posix2, List.flatMap_cons, List.count_append] at ih' ⊢
    rw [ih']
    cases it with
    | lit ch =>
      have : ch ≠ '%' := hl ch (by simp)
      simp [itemText2, List.count_cons, this]
    | pct => simp [itemText2]; omega
    | conv dir =>
      have := List.count_eq_zero.2 (np_field c dir)
      simp [itemText2, this, List.count_cons]

theorem count_pieces2 (items : List FItem2) (hl : ∀ ch, FItem2.lit ch ∈ items → ch ≠ '%') :
    (piecesOfItems2 items).count (.lit '%') = 2 * items.count .pct := by
  induction items with
  | nil => rfl
  | cons it r ih =>
    have ih' := ih (fun ch h => hl ch (by simp [h]))
    rw [piecesOfItems2_cons, List.count_append, ih']
    cases it with
    | lit ch =>
      have : ch ≠ '%' := hl ch (by simp)
      simp [pieces2, List.count_cons, this]
    | pct => simp [pieces2, List.count_cons]; omega
    | conv dir =>
      have := List.count_eq_zero.2 (piecesOf_no_pct dir)
      simp [pieces2, this, List.count_cons]

/-- Whatever text the assembled pattern matches holds at least as many `%` as the pattern has
    literal `%` pieces. -/
theorem match_count (ps : List Piece) (data : List Char) (b : List (Fld × List Char))
    (h : matchPieces ps data = some b) : ps.count (.lit '%') ≤ data.count '%' := by
  induction ps generalizing data b with
  | nil => simp
  | cons x xs ih =>
    cases x with
    | lit c =>
      cases data with
      | nil => simp [matchPieces] at h
      | cons d ds =>
        simp only [matchPieces] at h
        by_cases hcd : c = d
        · subst hcd
          simp only [↓reduceIte] at h
          have := ih ds b h
          by_cases hp : c = '%'
          · subst hp; simp [List.count_cons]; omega
          · have e1 : (Piece.lit c == Piece.lit '%') = false := by simpa using hp
            have e2 : (c == '%') = false := by simpa using hp
            simp only [List.count_cons, e1, e2]
            simpa using this
        · simp [hcd] at h
    | fld f =>
      have hc : (Piece.fld f :: xs).count (.lit '%') = xs.count (.lit '%') := by simp [List.count_cons]
      rw [hc]
      unfold matchPieces at h
      cases hp : patOf f with
      | digits n =>
        simp only [hp] at h
        split at h
        · cases hm : matchPieces xs (data.drop n) with
          | none => simp [hm] at h
          | some b' =>
            exact Nat.le_trans (ih _ b' hm) ((List.drop_sublist n data).count_le '%')
        · simp at h
      | signPM =>
        simp only [hp] at h
        cases data with
        | nil => simp at h
        | cons d ds =>
          simp only at h
          split at h
          · cases hm : matchPieces xs ds with
            | none => simp [hm] at h
            | some b' =>
              exact Nat.le_trans (ih _ b' hm) ((List.sublist_cons_self d ds).count_le '%')
          · simp at h
      | unixNum =>
        simp only [hp] at h
        split at h
        · cases hm : matchPieces xs (data.drop (data.length - (xs.map pieceWidth).sum)) with
          | none => simp [hm] at h
          | some b' =>
            exact Nat.le_trans (ih _ b' hm) ((List.drop_sublist _ data).count_le '%')
        · simp at h


/-! ### the extended model against the first one -/

/-- An answer of `Model.Strf.strftime` in the vocabulary of `strftime2`. -/
def liftRes : Except Err (List Char) → Except FErr (List Char)
  | .ok s => .ok s
  | .error e => .error (liftErr e)

/-- Where the translated format holds no literal `%` (and no `%` precedes a non-ASCII character), the
    extended model is the first one: interpreting the assembled printf expression gives exactly the
    direct rendering of the pieces.  For every point, valid or not. -/
theorem strftime2_extends (m : Mode) (p : TP) (fmt : List Char) (hna : nonAsciiAfterPct fmt = false)
    (hnp : ∀ ps, translate (scan fmt) = .ok ps → Piece.lit '%' ∉ ps) :
    strftime2 m p fmt = liftRes (strftime m p fmt) := by
  unfold strftime2 strftime
  rw [hna]
  simp only [Bool.false_eq_true, ↓reduceIte]
  cases ht : translate (scan fmt) with
  | error e => rfl
  | ok ps =>
    simp only
    cases hc : (forDump m p).bind (dumpCtx m) with
    | none => rfl
    | some c =>
      simp only
      by_cases hb : ps.contains (.fld .century) ∧ ¬ (0 ≤ c.year ∧ c.year ≤ 9999)
      · rw [if_pos hb, if_pos hb]; rfl
      · rw [if_neg hb, if_neg hb]
        have hno := hnp ps ht
        have hcont : ps.contains (.lit '%') = false := by simpa using hno
        rw [hcont]
        simp only [Bool.false_eq_true, ↓reduceIte, liftRes]
        have h := run_pieces (envOf c ps) c ps hno (fun f hf => lookup_envOf c ps f hf) false []
        simp only [List.append_nil] at h
        rw [h]
        simp [run, prepend]

/-! ### strptime on a format that is literal text only -/

theorem match_lits (lits data : List Char) :
    matchPieces (lits.map Piece.lit) data = if data = lits then some [] else none := by
  induction lits generalizing data with
  | nil => cases data <;> simp [matchPieces]
  | cons c r ih =>
    cases data with
    | nil => simp [matchPieces]
    | cons d ds =>
      simp only [List.map_cons, matchPieces, ih]
      by_cases h : c = d
      · subst h; simp
      · have : ¬ (d = c) := fun e => h e.symm
        simp [h, this]

theorem translate_chs (l : List Char) : translate (l.map Item.ch) = .ok (l.map Piece.lit) := by
  induction l with
  | nil => rfl
  | cons c r ih => simp [translate, ih]

theorem fldsOf_lits (l : List Char) : fldsOf (l.map Piece.lit) = [] := by
  induction l with
  | nil => rfl
  | cons c r ih => simpa [fldsOf] using ih

end IsoDT.Lemmas.Strf2
