/-
  IsoDT.Lemmas.TextAsParsed — `parse(text, dump_as_parsed=True)` followed by `str`, for every
  documented non-truncated form at once.

  With `dump_as_parsed` the parsed point carries, as its dump format, the concatenated EXPRESSION
  TEXT of the matched table entries (`CCYY-MM-DDThh:mm:ss+hh:mm`).  `str` hands that text to the
  dumper, whose chain of regex substitutions (`compile` over the rule tables) turns it into a printf
  expression.  The expression texts are concrete per entry, so the compilation is evaluated — once,
  by the kernel, over every combination of entries of every regenerated table (`asParsedOK`): the
  compiled segment list is, item by item, the entry's regular expression (`tmplSegs`: literal ↔
  literal, `[0-9]{n}` group ↔ `%(prop)0nd`, sign group ↔ `%(sign prop)s`, `[0-9]+` group ↔
  `%(decimal prop)s`), and the date properties collected are exactly the date groups present.  The
  rest is generic: a segment list of that shape, evaluated on the point `pointOf` that `parse`
  returns (`Lemmas/TextDecodeAll`), prints the template's own rendering of the values read back from
  the point (`renderSegs_tmpl`), and `_dump_expression_with_properties` neither converts the
  representation nor the zone, nor trips the year-bounds check (`dumpExpr_keep`).
-/
import IsoDT.Lemmas.TextDecodeAll
import IsoDT.Lemmas.TextRoundStr

namespace IsoDT.Text
open IsoDT IsoDT.Model IsoDT.Lemmas
open IsoDT.Spec (TZ Date)
open _root_.IsoDT.Gen.Templates (timeDesignator parserTables dumpTables)

/-! ## The dump format does not influence parsing -/

theorem assemble_dump (cfg : Cfg) (info : Info) (d : Option (List Char)) :
    assemble cfg info d = (assemble cfg info none).map fun a => { a with dumpFmt := d } := by
  unfold assemble
  simp only []
  split
  · split <;> rfl
  · rfl

theorem checkBounds_mk (m : Mode) (ned : Nat) (y mo dd doy wk dow hh mi ss : Option Int)
    (hd md sd : Option (List Char)) (tz : Spec.TZ) (u t : Bool) (tp : Option TruncProp)
    (d d' : Option (List Char)) :
    checkBounds m ⟨ned, y, mo, dd, doy, wk, dow, hh, mi, ss, hd, md, sd, tz, u, t, tp, d⟩ =
      checkBounds m ⟨ned, y, mo, dd, doy, wk, dow, hh, mi, ss, hd, md, sd, tz, u, t, tp, d'⟩ := rfl

/-- `TimePoint.__init__` passes `dump_format` through and looks at nothing of it. -/
theorem ctor_dump (m : Mode) (a : Args) (d : Option (List Char)) :
    ctor m { a with dumpFmt := d } = (ctor m a).map fun p => { p with dumpFmt := d } := by
  unfold ctor
  dsimp only
  by_cases h1 : (a.hourDec.isSome && (a.hour.isNone || a.minute.isSome || a.second.isSome)) = true
  · rw [if_pos h1, if_pos h1]; rfl
  rw [if_neg h1, if_neg h1]
  by_cases h2 : (a.minuteDec.isSome && (a.minute.isNone || a.second.isSome)) = true
  · rw [if_pos h2, if_pos h2]; rfl
  rw [if_neg h2, if_neg h2]
  by_cases h3 : (a.secondDec.isSome && a.second.isNone) = true
  · rw [if_pos h3, if_pos h3]; rfl
  rw [if_neg h3, if_neg h3]
  by_cases h4 : (!a.truncated && a.year.isNone) = true
  · rw [if_pos h4, if_pos h4]; rfl
  rw [if_neg h4, if_neg h4]
  cases mkTZ m (a.tzHour.getD 0) (a.tzMinute.getD 0) with
  | none => rfl
  | some tz =>
    dsimp only
    by_cases h5 : ((truthy a.month || truthy a.day) && (truthy a.week || truthy a.dow)) = true
    · rw [if_pos h5, if_pos h5]; rfl
    rw [if_neg h5, if_neg h5]
    by_cases h6 : ((truthy a.month || truthy a.day) && a.doy.isSome) = true
    · rw [if_pos h6, if_pos h6]; rfl
    rw [if_neg h6, if_neg h6]
    by_cases h7 : ((truthy a.week || truthy a.dow) && a.doy.isSome) = true
    · rw [if_pos h7, if_pos h7]; rfl
    rw [if_neg h7, if_neg h7]
    rw [checkBounds_mk (d' := a.dumpFmt)]
    generalize checkBounds m _ = b
    cases b <;> rfl

/-- **`dump_as_parsed` only sets the dump format**: the point parsed with `dump_as_parsed=True` is
    the point parsed without, carrying the expression text `get_info` assembled. -/
theorem parse_asParsed (cfg : Cfg) (s : List Char) (info : Info) (h : getInfo cfg s = some info) :
    parse cfg s true = (parse cfg s false).map fun p => { p with dumpFmt := some info.expr } := by
  unfold parse
  rw [h]
  simp only [if_true, Bool.false_eq_true, if_false]
  rw [assemble_dump cfg info (some info.expr)]
  cases assemble cfg info none with
  | none => rfl
  | some a => exact ctor_dump cfg.mode a (some info.expr)

/-! ## The printf expression a regular expression corresponds to -/

/-- The `TimePoint` property that prints the group `f` (for the two literal groups, which print no
    property, an arbitrary one). -/
def propOf : Fld → DProp
  | .yearSign => .yearSign
  | .expandedYear => .expandedYearDigits
  | .century => .century
  | .yearOfCentury => .yearOfCentury
  | .yearOfDecade => .yearOfDecade
  | .monthOfYear => .monthOfYear
  | .dayOfMonth => .dayOfMonth
  | .dayOfYear => .dayOfYear
  | .weekOfYear => .weekOfYear
  | .dayOfWeek => .dayOfWeek
  | .hourOfDay => .hourOfDay
  | .minuteOfHour => .minuteOfHour
  | .secondOfMinute => .secondOfMinute
  | .hourDec => .hourDecStr
  | .minuteDec => .minuteDecStr
  | .secondDec => .secondDecStr
  | .tzSign => .tzSign
  | .tzHour => .tzHourAbs
  | .tzMinute => .tzMinuteAbs
  | .tzUtc => .tzSign
  | .truncated => .yearSign

/-- The printf pieces one regular-expression item corresponds to: a literal is itself; `[0-9]{n}` is
    `%(prop)0nd`; `[-+]` and `[0-9]+` are `%(prop)s`; a literal group is its characters. -/
def itemSegs : Item → List Seg
  | .lit c => [.raw c]
  | .digits f n => [.dir (.int (propOf f) n)]
  | .digitsPlus f => [.dir (.str (propOf f))]
  | .sign f => [.dir (.str (propOf f))]
  | .group _ ls => ls.map Seg.raw

/-- The printf expression a regular expression corresponds to, item by item. -/
def tmplSegs (t : Template) : List Seg := t.flatMap itemSegs

/-- What the point must answer for one item to print the text `envOf` gives its group. -/
def itemPrints (m : Mode) (x : XTP) (v : Vals) : Item → Prop
  | .lit _ => True
  | .digits f n => intProp m x (propOf f) = some (v.nat f) ∧ padNat n (v.nat f) = renderNat n (v.nat f)
  | .digitsPlus f => strProp x (propOf f) = some (v.dec f)
  | .sign f => strProp x (propOf f) = some [if v.neg f then '-' else '+']
  | .group _ _ => True

/-- **The generic rendering lemma**: if the point answers every group's property with the value `v`
    assigns to the group, the printf expression of a regular expression prints exactly the text the
    regular expression spells for `v`. -/
theorem renderSegs_tmpl (m : Mode) (x : XTP) (v : Vals) (t : Template)
    (h : ∀ it ∈ t, itemPrints m x v it) :
    renderSegs m x (tmplSegs t) = some (trender t (envOf t v)) := by
  induction t with
  | nil => rfl
  | cons it t ih =>
    have ih := ih fun i hi => h i (List.mem_cons_of_mem _ hi)
    have hit := h it (List.mem_cons_self ..)
    have e : tmplSegs (it :: t) = itemSegs it ++ tmplSegs t := by simp [tmplSegs]
    rw [e]
    cases it with
    | lit c => simp [itemSegs, renderSegs, ih, envOf, trender]
    | digits f n =>
      obtain ⟨h1, h2⟩ := hit
      simp [itemSegs, renderSegs, ih, envOf, trender, h1, h2]
    | digitsPlus f =>
      simp only [itemPrints] at hit
      simp [itemSegs, renderSegs, ih, envOf, trender, hit]
    | sign f =>
      simp only [itemPrints] at hit
      simp [itemSegs, renderSegs, ih, envOf, trender, hit]
    | group f ls =>
      simp only [itemSegs, envOf, trender]
      exact renderSegs_append m x _ _ _ _ (renderSegs_raw m x ls) ih

theorem mem_groupFields (t : Template) (it : Item) (h : it ∈ t) :
    match it with
    | .lit _ => True
    | .digits f _ => hasGroup t f = true
    | .digitsPlus f => hasGroup t f = true
    | .sign f => hasGroup t f = true
    | .group f _ => hasGroup t f = true := by
  induction t with
  | nil => cases h
  | cons a t ih =>
    rcases List.mem_cons.mp h with rfl | h'
    · cases it <;> simp [hasGroup, groupFields]
    · have := ih h'
      cases it <;> cases a <;> simp_all [hasGroup, groupFields]

/-- Group by group: it is enough that the point answers each numeric, sign and decimal group of the
    template correctly. -/
theorem prints_of (m : Mode) (x : XTP) (v : Vals) (ned : Nat) (t : Template)
    (hok : t.all (itemOK ned) = true)
    (hint : ∀ f, isIntFld f = true → hasGroup t f = true →
      intProp m x (propOf f) = some (v.nat f) ∧
        padNat (stdWidth ned f) (v.nat f) = renderNat (stdWidth ned f) (v.nat f))
    (hsign : ∀ f, isSignFld f = true → hasGroup t f = true →
      strProp x (propOf f) = some [if v.neg f then '-' else '+'])
    (hdec : ∀ f, isDecFld f = true → hasGroup t f = true → strProp x (propOf f) = some (v.dec f)) :
    ∀ it ∈ t, itemPrints m x v it := by
  intro it hit
  have hk := List.all_eq_true.mp hok it hit
  have hg := mem_groupFields t it hit
  cases it with
  | lit c => trivial
  | digits f n =>
    simp only [itemOK, Bool.and_eq_true, beq_iff_eq] at hk
    obtain ⟨hf, rfl⟩ := hk
    exact hint f hf hg
  | digitsPlus f => exact hdec f hk hg
  | sign f => exact hsign f hk hg
  | group f ls => trivial

/-! ## The dump format does not influence printing -/

theorem intProp_dump (m : Mode) (p : XTP) (d : Option (List Char)) (pr : DProp) :
    intProp m { p with dumpFmt := d } pr = intProp m p pr := by
  cases pr <;> rfl

theorem strProp_dump (p : XTP) (d : Option (List Char)) (pr : DProp) :
    strProp { p with dumpFmt := d } pr = strProp p pr := by
  cases pr <;> rfl

theorem renderSegs_dump (m : Mode) (p : XTP) (d : Option (List Char)) (segs : List Seg) :
    renderSegs m { p with dumpFmt := d } segs = renderSegs m p segs := by
  induction segs with
  | nil => rfl
  | cons s rest ih =>
    cases s with
    | raw c => simp only [renderSegs, ih]
    | dir o =>
      cases o with
      | lit c => simp only [renderSegs, ih]
      | int pr w => simp only [renderSegs, ih, intProp_dump]
      | str pr => simp only [renderSegs, ih, strProp_dump]

/-! ## What the parsed point answers, field by field -/

theorem yearOf_natAbs (de : Template) (v : Vals) :
    (yearOf de v).natAbs = (if hasGroup de .expandedYear then 10000 * v.x else 0) +
      (if hasGroup de .century then 100 * v.cc else 0) + (if hasGroup de .yearOfCentury then v.yy else 0) := by
  unfold yearOf
  simp only []
  split <;> omega

theorem intProp_year (cfg : Cfg) (m : Mode) (de te : Template) (v : Vals) (tz : TZ)
    (hcc : hasGroup de .century = true) (h1 : v.cc < 100) (h2 : v.yy < 100) :
    intProp m (pointOf cfg de te v tz) .century = some v.cc ∧
    (hasGroup de .yearOfCentury = true → intProp m (pointOf cfg de te v tz) .yearOfCentury = some v.yy) ∧
    (hasGroup de .expandedYear = true → intProp m (pointOf cfg de te v tz) .expandedYearDigits = some v.x) := by
  simp only [intProp, pointOf, Option.map_some, Option.some.injEq, yearOf_natAbs, hcc, if_true]
  refine ⟨?_, fun h => ?_, fun h => ?_⟩
  · split <;> split <;> omega
  · rw [h]; simp only [if_true]; split <;> omega
  · rw [h]; simp only [if_true]; split <;> omega

theorem intProp_dateFields (cfg : Cfg) (m : Mode) (de te : Template) (v : Vals) (tz : TZ)
    (hd : dateShapeOK de = true) :
    (hasGroup de .monthOfYear = true → intProp m (pointOf cfg de te v tz) .monthOfYear = some v.month) ∧
    (hasGroup de .dayOfMonth = true → intProp m (pointOf cfg de te v tz) .dayOfMonth = some v.day) ∧
    (hasGroup de .dayOfYear = true → intProp m (pointOf cfg de te v tz) .dayOfYear = some v.doy) ∧
    (hasGroup de .weekOfYear = true → intProp m (pointOf cfg de te v tz) .weekOfYear = some v.week) ∧
    (hasGroup de .dayOfWeek = true → intProp m (pointOf cfg de te v tz) .dayOfWeek = some v.dow) := by
  have hc := dateShape_cases de hd
  simp only [datePattern, Prod.mk.injEq] at hc
  rcases hc with ⟨d1, d2, d3, d4, d5⟩ | ⟨d1, d2, d3, d4, d5⟩ | ⟨d1, d2, d3, d4, d5⟩ |
      ⟨d1, d2, d3, d4, d5⟩ | ⟨d1, d2, d3, d4, d5⟩ | ⟨d1, d2, d3, d4, d5⟩ <;>
    simp [intProp, pointOf, fieldOf, d1, d2, d3, d4, d5]

theorem timeProps_pointOf (cfg : Cfg) (m : Mode) (de te : Template) (v : Vals) (tz : TZ)
    (ht : timeShapeOK te = true) :
    (hasGroup te .hourOfDay = true → intProp m (pointOf cfg de te v tz) .hourOfDay = some v.hour) ∧
    (hasGroup te .minuteOfHour = true → intProp m (pointOf cfg de te v tz) .minuteOfHour = some v.minute) ∧
    (hasGroup te .secondOfMinute = true → intProp m (pointOf cfg de te v tz) .secondOfMinute = some v.second) ∧
    (hasGroup te .hourDec = true →
      strProp (pointOf cfg de te v tz) .hourDecStr = some (decimalString (some v.hourDec))) ∧
    (hasGroup te .minuteDec = true →
      strProp (pointOf cfg de te v tz) .minuteDecStr = some (decimalString (some v.minuteDec))) ∧
    (hasGroup te .secondDec = true →
      strProp (pointOf cfg de te v tz) .secondDecStr = some (decimalString (some v.secondDec))) := by
  have hc := timeShape_cases te ht
  simp only [timePattern, Prod.mk.injEq] at hc
  rcases hc with ⟨t1, t2, t3, t4, t5, t6⟩ | ⟨t1, t2, t3, t4, t5, t6⟩ | ⟨t1, t2, t3, t4, t5, t6⟩ |
      ⟨t1, t2, t3, t4, t5, t6⟩ | ⟨t1, t2, t3, t4, t5, t6⟩ | ⟨t1, t2, t3, t4, t5, t6⟩ | ⟨t1, t2, t3, t4, t5, t6⟩ <;>
    simp [intProp, strProp, pointOf, decOf, t1, t2, t3, t4, t5, t6]

theorem mkTZ_some (m : Mode) (h mi : Int) (tz : TZ) (hz : mkTZ m h mi = some tz) : tz = ⟨h, mi⟩ := by
  unfold mkTZ at hz
  by_cases h1 : h < -99 ∨ h > 99
  · rw [if_pos h1] at hz; cases hz
  · rw [if_neg h1] at hz
    dsimp only at hz
    revert hz
    generalize (if h > 0 then (0 : Int) else 1 - (calOf m).minutesInHour) = lo
    generalize (if h < 0 then (0 : Int) else (calOf m).minutesInHour - 1) = hi
    intro hz
    split at hz
    · cases hz
    · exact (Option.some.inj hz).symm

/-- The spelled zone is all zeros: hour `00`, and minute `00` if there is a minute group. -/
def zoneZero (zt : Template) (v : Vals) : Bool :=
  v.tzHour == 0 && (!hasGroup zt .tzMinute || v.tzMinute == 0)

theorem zoneProps_of (m : Mode) (P : XTP) (zd : ZoneDefault) (zt : Template) (v : Vals)
    (hU : hasGroup zt .tzUtc = false)
    (htz : P.tz = ⟨(zoneOf zd (some zt) v).hour.getD 0, (zoneOf zd (some zt) v).minute.getD 0⟩) :
    intProp m P .tzHourAbs = some v.tzHour ∧
    (hasGroup zt .tzMinute = true → intProp m P .tzMinuteAbs = some v.tzMinute) ∧
    (hasGroup zt .tzSign = true →
      strProp P .tzSign = some [if v.tzNeg && !zoneZero zt v then '-' else '+']) := by
  simp only [intProp, strProp, htz, zoneOf, hU, Bool.false_eq_true, if_false, Option.getD_some,
    Option.some.injEq, zoneZero]
  refine ⟨?_, fun h => ?_, fun h => ?_⟩
  · split <;> omega
  · simp only [h, if_true, Option.getD_some]; split <;> omega
  · rw [h]
    cases hN : v.tzNeg
    · simp only [Bool.true_and, Bool.false_eq_true, if_false, Bool.false_and]
      cases hasGroup zt .tzMinute <;> simp
    · simp only [Bool.true_and, if_true]
      cases hasGroup zt .tzMinute <;> simp <;> split <;> split <;> first | rfl | (exfalso; omega)

theorem yearSign_pointOf (cfg : Cfg) (de te : Template) (v : Vals) (tz : TZ)
    (hs : hasGroup de .yearSign = true) :
    strProp (pointOf cfg de te v tz) .yearSign =
      some [if v.yearNeg && decide (yearOf de v ≠ 0) then '-' else '+'] := by
  simp only [strProp, pointOf, Option.map_some, Option.some.injEq]
  cases hN : v.yearNeg
  · have : 0 ≤ yearOf de v := by unfold yearOf; simp only [hN, Bool.and_false, Bool.false_eq_true, if_false]; omega
    simp [this]
  · by_cases h0 : yearOf de v = 0
    · simp [h0]
    · have : ¬ 0 ≤ yearOf de v := by
        revert h0; unfold yearOf; simp only [hs, hN, Bool.and_self, if_true]; omega
      simp [this, h0]

/-! ## `_dump_expression_with_properties` when nothing has to change -/

theorem dumpExpr_keep (m : Mode) (dt : DumpTables) (x : XTP) (e : Expr) (y : Int)
    (htr : x.truncated = false) (hy : x.year = some y)
    (hW : (e.props.contains .weekOfYear || e.props.contains .dayOfWeek) = x.isWeek)
    (hC : (x.isWeek && (e.props.contains .monthOfYear || e.props.contains .dayOfMonth ||
      e.props.contains .dayOfYear)) = false)
    (hZ : e.customTZ = none ∨ (e.customTZ = some (0, 0) ∧ x.tz = ⟨0, 0⟩ ∧ x.tzUnknown = false))
    (hb1 : (e.props.contains .century && (!e.props.contains .expandedYearDigits || dt.ned = 0) &&
      !(0 ≤ y && y ≤ 9999)) = false)
    (hb2 : (e.props.contains .expandedYearDigits &&
      !(-((10 : Int) ^ (dt.ned + 4) - 1) ≤ y && y ≤ (10 : Int) ^ (dt.ned + 4) - 1)) = false) :
    dumpExpr m dt x e =
      match renderSegs m x e.segs with
      | some s => .ok s
      | none => .error .unsupported := by
  have ht : e.customTZ = some (0, 0) → x.toTimeZone m ⟨0, 0⟩ = .ok x := by
    intro h
    rcases hZ with h' | ⟨_, h1, h2⟩
    · rw [h'] at h; cases h
    · unfold XTP.toTimeZone; simp [h1, h2]
  unfold dumpExpr
  simp only [htr, Bool.false_eq_true, if_false, hW]
  cases hw : x.isWeek
  · simp only [Bool.false_eq_true, if_false, Bool.false_and]
    rcases hZ with h | ⟨h, _, _⟩
    · simp only [bind, Except.bind, h, hy, hb1, hb2, Bool.false_eq_true, if_false]; rfl
    · simp only [bind, Except.bind, h, mkTZ_zero, ht h, hy, hb1, hb2, Bool.false_eq_true, if_false]; rfl
  · rw [hw] at hC
    simp only [Bool.true_and] at hC
    simp only [hC, Bool.or_true, if_true]
    rcases hZ with h | ⟨h, _, _⟩
    · simp only [bind, Except.bind, h, hy, hb1, hb2, Bool.false_eq_true, if_false]; rfl
    · simp only [bind, Except.bind, h, mkTZ_zero, ht h, hy, hb1, hb2, Bool.false_eq_true, if_false]; rfl

/-! ## The values as `str` spells them back -/

/-- The values the printed text spells: as parsed, except that a `-` on an all-zero year or on an
    all-zero zone is `+`, and a decimal fraction is `TimePoint._decimal_string` of its digits. -/
def spelled (de zt : Template) (v : Vals) : Vals :=
  { v with
    yearNeg := v.yearNeg && decide (yearOf de v ≠ 0)
    tzNeg := v.tzNeg && !zoneZero zt v
    hourDec := decimalString (some v.hourDec)
    minuteDec := decimalString (some v.minuteDec)
    secondDec := decimalString (some v.secondDec) }

theorem spelled_nat (de zt : Template) (v : Vals) (f : Fld) : (spelled de zt v).nat f = v.nat f := by
  cases f <;> rfl

/-! ## The decidable checks on a combination of table entries -/

def isDateFld : Fld → Bool
  | .yearSign | .expandedYear | .century | .yearOfCentury | .monthOfYear | .dayOfMonth | .dayOfYear
  | .weekOfYear | .dayOfWeek => true
  | _ => false

def isTimeFld : Fld → Bool
  | .hourOfDay | .minuteOfHour | .secondOfMinute | .hourDec | .minuteDec | .secondDec => true
  | _ => false

def isZoneFld : Fld → Bool
  | .tzUtc | .tzSign | .tzHour | .tzMinute => true
  | _ => false

/-- The date groups whose properties `_dump_expression_with_properties` inspects. -/
def dateFlds : List Fld :=
  [.yearSign, .expandedYear, .century, .yearOfCentury, .yearOfDecade, .monthOfYear, .dayOfMonth,
   .dayOfYear, .weekOfYear, .dayOfWeek]

def zexprO : Option ZEntry → List Char
  | none => []
  | some ze => ze.expr

def ztmplO : Option ZEntry → Template
  | none => []
  | some ze => ze.tmpl

def ttmplO : Option Entry → Template
  | none => []
  | some te => te.tmpl

/-- The number of expanded year digits the parsed point carries. -/
def nedOf (pt : ParserTables) (de : Template) : Nat := if hasGroup de .expandedYear then pt.ned else 0

/-- The expression text `get_info` assembles. -/
def fmtOf (de : Entry) (te : Option Entry) (zo : Option ZEntry) : List Char :=
  match te with
  | none => de.expr
  | some te => de.expr ++ timeDesignator :: (te.expr ++ zexprO zo)

/-- The printf expression the regular expressions of the entries correspond to. -/
def segsOf (de : Entry) (te : Option Entry) (zo : Option ZEntry) : List Seg :=
  match te with
  | none => tmplSegs de.tmpl
  | some te => tmplSegs de.tmpl ++ Seg.raw timeDesignator :: (tmplSegs te.tmpl ++ tmplSegs (ztmplO zo))

/-- The text the regular expressions of the entries spell for `v`. -/
def textOf (de : Entry) (te : Option Entry) (zo : Option ZEntry) (v : Vals) : List Char :=
  match te with
  | none => trender de.tmpl (envOf de.tmpl v)
  | some te => trender de.tmpl (envOf de.tmpl v) ++
      timeDesignator :: (trender te.tmpl (envOf te.tmpl v) ++ trender (ztmplO zo) (envOf (ztmplO zo) v))

/-- **The compiled expression is the regular expression**: the dumper for the point's number of
    expanded digits compiles the entries' expression text (which has no `%` and is not empty) to
    exactly `segsOf`, collects of the date properties exactly those of the date groups present, and
    fixes a literal zone (`+00:00`) iff the zone entry is `Z`. -/
def exprCheck (pt : ParserTables) (de : Entry) (te : Option Entry) (zo : Option ZEntry) : Bool :=
  match dumpTablesFor (nedOf pt de.tmpl) with
  | none => false
  | some dt =>
    match getExpr dt (fmtOf de te zo) with
    | none => false
    | some e =>
      !(fmtOf de te zo).contains '%' && !(fmtOf de te zo).isEmpty &&
      decide (e.segs = segsOf de te zo) &&
      dateFlds.all (fun f => decide (e.props.contains (propOf f) = hasGroup de.tmpl f)) &&
      decide (e.customTZ = if hasGroup (ztmplO zo) .tzUtc then some (0, 0) else none)

/-- Each part has groups of its own kind only; a year sign comes with expanded digits and conversely;
    a `Z` zone has no other group. -/
def shapeCheck (de : Entry) (te : Option Entry) (zo : Option ZEntry) : Bool :=
  (groupFields de.tmpl).all isDateFld &&
  decide (hasGroup de.tmpl .yearSign = hasGroup de.tmpl .expandedYear) &&
  (groupFields (ttmplO te)).all isTimeFld &&
  (groupFields (ztmplO zo)).all isZoneFld &&
  (!hasGroup (ztmplO zo) .tzUtc ||
    !(hasGroup (ztmplO zo) .tzSign || hasGroup (ztmplO zo) .tzHour || hasGroup (ztmplO zo) .tzMinute))

theorem exprCheck_spec (pt : ParserTables) (de : Entry) (te : Option Entry) (zo : Option ZEntry)
    (h : exprCheck pt de te zo = true) :
    ∃ dt e, dumpTablesFor (nedOf pt de.tmpl) = some dt ∧ getExpr dt (fmtOf de te zo) = some e ∧
      (fmtOf de te zo).contains '%' = false ∧ (fmtOf de te zo).isEmpty = false ∧
      e.segs = segsOf de te zo ∧
      (∀ f ∈ dateFlds, e.props.contains (propOf f) = hasGroup de.tmpl f) ∧
      e.customTZ = (if hasGroup (ztmplO zo) .tzUtc then some (0, 0) else none) := by
  unfold exprCheck at h
  split at h
  · cases h
  · rename_i dt hdt
    split at h
    · cases h
    · rename_i e he
      simp only [Bool.and_eq_true, Bool.not_eq_true', decide_eq_true_eq, List.all_eq_true] at h
      obtain ⟨⟨⟨⟨h1, h2⟩, h3⟩, h4⟩, h5⟩ := h
      exact ⟨dt, e, hdt, he, h1, h2, h3, h4, h5⟩

theorem dumpTablesFor_ned (n : Nat) (dt : DumpTables) (h : dumpTablesFor n = some dt) : dt.ned = n := by
  unfold dumpTablesFor at h
  have := List.find?_some h
  simpa using this

theorem mem_of_hasGroup (t : Template) (f : Fld) (h : hasGroup t f = true) : f ∈ groupFields t := by
  unfold hasGroup at h
  exact List.contains_iff_mem.mp h


/-! ## The three parts print their own text -/

theorem date_prints (cfg : Cfg) (m : Mode) (de te zt : Template) (v : Vals) (tz : TZ)
    (hok : de.all (itemOK cfg.pt.ned) = true) (hcc : hasGroup de .century = true)
    (hds : dateShapeOK de = true) (hfl : (groupFields de).all isDateFld = true)
    (hx : cfg.pt.ned = 0 → hasGroup de .expandedYear = false) (hv : v.Fit cfg.pt.ned) :
    ∀ it ∈ de, itemPrints m (pointOf cfg de te v tz) (spelled de zt v) it := by
  have hY := intProp_year cfg m de te v tz hcc hv.2.1 hv.2.2.1
  have hD := intProp_dateFields cfg m de te v tz hds
  have hdf : ∀ f, hasGroup de f = true → isDateFld f = true := fun f hg =>
    List.all_eq_true.mp hfl f (mem_of_hasGroup de f hg)
  apply prints_of m _ _ cfg.pt.ned de hok
  · intro f hi hg
    have hd := hdf f hg
    have hw : stdWidth cfg.pt.ned f ≠ 0 := by
      by_cases hfx : f = .expandedYear
      · subst hfx
        intro h0
        have := hx h0
        rw [hg] at this; cases this
      · cases f <;> first | exact absurd rfl hfx | simp [stdWidth]
    refine ⟨?_, padNat_eq _ _ (by rw [spelled_nat]; exact fit_nat _ v hv f hi) hw⟩
    rw [spelled_nat]
    cases f <;> first
      | exact absurd hd (by decide)
      | exact absurd hi (by decide)
      | exact hY.1
      | exact hY.2.1 hg
      | exact hY.2.2 hg
      | exact hD.1 hg
      | exact hD.2.1 hg
      | exact hD.2.2.1 hg
      | exact hD.2.2.2.1 hg
      | exact hD.2.2.2.2 hg
  · intro f hs hg
    have hd := hdf f hg
    cases f <;> first
      | exact absurd hd (by decide)
      | exact absurd hs (by decide)
      | exact yearSign_pointOf cfg de te v tz hg
  · intro f hs hg
    have hd := hdf f hg
    cases f <;> first
      | exact absurd hd (by decide)
      | exact absurd hs (by decide)

theorem time_prints (cfg : Cfg) (m : Mode) (de te zt : Template) (v : Vals) (tz : TZ)
    (hok : te.all (itemOK cfg.pt.ned) = true) (hts : timeShapeOK te = true)
    (hfl : (groupFields te).all isTimeFld = true) (hv : v.Fit cfg.pt.ned) :
    ∀ it ∈ te, itemPrints m (pointOf cfg de te v tz) (spelled de zt v) it := by
  have hT := timeProps_pointOf cfg m de te v tz hts
  have hdf : ∀ f, hasGroup te f = true → isTimeFld f = true := fun f hg =>
    List.all_eq_true.mp hfl f (mem_of_hasGroup te f hg)
  apply prints_of m _ _ cfg.pt.ned te hok
  · intro f hi hg
    have hd := hdf f hg
    have hw : stdWidth cfg.pt.ned f ≠ 0 := by
      cases f <;> first | exact absurd hd (by decide) | simp [stdWidth]
    refine ⟨?_, padNat_eq _ _ (by rw [spelled_nat]; exact fit_nat _ v hv f hi) hw⟩
    rw [spelled_nat]
    cases f <;> first
      | exact absurd hd (by decide)
      | exact absurd hi (by decide)
      | exact hT.1 hg
      | exact hT.2.1 hg
      | exact hT.2.2.1 hg
  · intro f hs hg
    have hd := hdf f hg
    cases f <;> first
      | exact absurd hd (by decide)
      | exact absurd hs (by decide)
  · intro f hs hg
    have hd := hdf f hg
    cases f <;> first
      | exact absurd hd (by decide)
      | exact absurd hs (by decide)
      | exact hT.2.2.2.1 hg
      | exact hT.2.2.2.2.1 hg
      | exact hT.2.2.2.2.2 hg

theorem zone_prints (cfg : Cfg) (m : Mode) (de te zt : Template) (v : Vals) (tz : TZ) (zd : ZoneDefault)
    (hok : zt.all (itemOK cfg.pt.ned) = true)
    (hfl : (groupFields zt).all isZoneFld = true)
    (hU : (!hasGroup zt .tzUtc || !(hasGroup zt .tzSign || hasGroup zt .tzHour || hasGroup zt .tzMinute)) = true)
    (hv : v.Fit cfg.pt.ned)
    (htz : tz = ⟨(zoneOf zd (some zt) v).hour.getD 0, (zoneOf zd (some zt) v).minute.getD 0⟩) :
    ∀ it ∈ zt, itemPrints m (pointOf cfg de te v tz) (spelled de zt v) it := by
  have hdf : ∀ f, hasGroup zt f = true → isZoneFld f = true := fun f hg =>
    List.all_eq_true.mp hfl f (mem_of_hasGroup zt f hg)
  cases hu : hasGroup zt .tzUtc with
  | true =>
    simp only [hu, Bool.not_true, Bool.false_or, Bool.not_eq_true', Bool.or_eq_false_iff] at hU
    obtain ⟨⟨h1, h2⟩, h3⟩ := hU
    apply prints_of m _ _ cfg.pt.ned zt hok
    · intro f hi hg
      have hd := hdf f hg
      cases f <;> first
        | exact absurd hd (by decide)
        | exact absurd hi (by decide)
        | (rw [h2] at hg; cases hg)
        | (rw [h3] at hg; cases hg)
    · intro f hs hg
      have hd := hdf f hg
      cases f <;> first
        | exact absurd hd (by decide)
        | exact absurd hs (by decide)
        | (rw [h1] at hg; cases hg)
    · intro f hs hg
      have hd := hdf f hg
      cases f <;> first
        | exact absurd hd (by decide)
        | exact absurd hs (by decide)
  | false =>
    have hZ := zoneProps_of m (pointOf cfg de te v tz) zd zt v hu htz
    apply prints_of m _ _ cfg.pt.ned zt hok
    · intro f hi hg
      have hd := hdf f hg
      have hw : stdWidth cfg.pt.ned f ≠ 0 := by
        cases f <;> first | exact absurd hd (by decide) | simp [stdWidth]
      refine ⟨?_, padNat_eq _ _ (by rw [spelled_nat]; exact fit_nat _ v hv f hi) hw⟩
      rw [spelled_nat]
      cases f <;> first
        | exact absurd hd (by decide)
        | exact absurd hi (by decide)
        | exact hZ.1
        | exact hZ.2.1 hg
    · intro f hs hg
      have hd := hdf f hg
      cases f <;> first
        | exact absurd hd (by decide)
        | exact absurd hs (by decide)
        | exact hZ.2.2 hg
    · intro f hs hg
      have hd := hdf f hg
      cases f <;> first
        | exact absurd hd (by decide)
        | exact absurd hs (by decide)


/-! ## `str` of a point that carries a dump format -/

theorem str_dumpFmt (m : Mode) (x : XTP) (dt : DumpTables) (f : List Char) (e : Expr)
    (hdt : dumpTablesFor x.ned = some dt) (hf : x.dumpFmt = some f) (hne : f.isEmpty = false)
    (hpct : f.contains '%' = false) (he : getExpr dt f = some e) :
    str m x = dumpExpr m dt x e := by
  unfold str
  rw [hdt]
  simp only [hf, hne, Bool.false_eq_true, if_false]
  unfold dump
  rw [hpct, he]
  simp only [Bool.false_eq_true, if_false]

theorem pow_ned (n : Nat) : (10 : Int) ^ (n + 4) = ((10 ^ n : Nat) : Int) * 10000 := by
  rw [Int.natCast_pow, Int.pow_add]
  rfl

/-- **`str` of the parsed point**: the point `pointOf` carrying, as its dump format, the expression
    text of the entries it was parsed by prints the text those entries' regular expressions spell for
    the values `spelled` — provided the combination of entries passes the decidable checks. -/
theorem str_pointOf (cfg : Cfg) (de : Entry) (te : Option Entry) (zo : Option ZEntry) (v : Vals) (tz : TZ)
    (hok : de.tmpl.all (itemOK cfg.pt.ned) = true) (hcc : hasGroup de.tmpl .century = true)
    (hds : dateShapeOK de.tmpl = true)
    (hx : cfg.pt.ned = 0 → hasGroup de.tmpl .expandedYear = false)
    (htok : (ttmplO te).all (itemOK cfg.pt.ned) = true) (hts : timeShapeOK (ttmplO te) = true)
    (hzok : (ztmplO zo).all (itemOK cfg.pt.ned) = true)
    (hshape : shapeCheck de te zo = true) (hexpr : exprCheck cfg.pt de te zo = true)
    (hv : v.Fit cfg.pt.ned)
    (hz : mkTZ cfg.mode ((zoneOf cfg.zone (zo.map (·.tmpl)) v).hour.getD 0)
      ((zoneOf cfg.zone (zo.map (·.tmpl)) v).minute.getD 0) = some tz) :
    str cfg.mode { pointOf cfg de.tmpl (ttmplO te) v tz with dumpFmt := some (fmtOf de te zo) } =
      .ok (textOf de te zo (spelled de.tmpl (ztmplO zo) v)) := by
  obtain ⟨dt, e, hdt, he, hpct, hne, hsegs, hprops, hcust⟩ := exprCheck_spec cfg.pt de te zo hexpr
  simp only [shapeCheck, Bool.and_eq_true, decide_eq_true_eq] at hshape
  obtain ⟨⟨⟨⟨sd, ssx⟩, st⟩, sz⟩, su⟩ := hshape
  have hdn := dumpTablesFor_ned _ _ hdt
  rw [str_dumpFmt cfg.mode _ dt (fmtOf de te zo) e hdt rfl hne hpct he]
  have pS : e.props.contains .yearSign = hasGroup de.tmpl .yearSign := hprops .yearSign (by decide)
  have pX : e.props.contains .expandedYearDigits = hasGroup de.tmpl .expandedYear :=
    hprops .expandedYear (by decide)
  have pC : e.props.contains .century = hasGroup de.tmpl .century := hprops .century (by decide)
  have pM : e.props.contains .monthOfYear = hasGroup de.tmpl .monthOfYear := hprops .monthOfYear (by decide)
  have pD : e.props.contains .dayOfMonth = hasGroup de.tmpl .dayOfMonth := hprops .dayOfMonth (by decide)
  have pO : e.props.contains .dayOfYear = hasGroup de.tmpl .dayOfYear := hprops .dayOfYear (by decide)
  have pW : e.props.contains .weekOfYear = hasGroup de.tmpl .weekOfYear := hprops .weekOfYear (by decide)
  have pK : e.props.contains .dayOfWeek = hasGroup de.tmpl .dayOfWeek := hprops .dayOfWeek (by decide)
  have hc := dateShape_cases de.tmpl hds
  simp only [datePattern, Prod.mk.injEq] at hc
  have hna := yearOf_natAbs de.tmpl v
  have fx := hv.1
  have fc := hv.2.1
  have fy := hv.2.2.1
  rw [dumpExpr_keep cfg.mode dt _ e (yearOf de.tmpl v) rfl rfl]
  · -- the rendering
    rw [renderSegs_dump, hsegs]
    have hdp := date_prints cfg cfg.mode de.tmpl (ttmplO te) (ztmplO zo) v tz hok hcc hds sd hx hv
    have hd := renderSegs_tmpl cfg.mode _ _ de.tmpl hdp
    cases te with
    | none => simp only [segsOf, textOf]; rw [hd]
    | some t =>
      have htp := time_prints cfg cfg.mode de.tmpl t.tmpl (ztmplO zo) v tz htok hts st hv
      have ht := renderSegs_tmpl cfg.mode _ _ t.tmpl htp
      have hzp : ∀ it ∈ ztmplO zo, itemPrints cfg.mode (pointOf cfg de.tmpl t.tmpl v tz)
          (spelled de.tmpl (ztmplO zo) v) it := by
        cases zo with
        | none => intro it h; cases h
        | some ze =>
          exact zone_prints cfg cfg.mode de.tmpl t.tmpl ze.tmpl v tz cfg.zone hzok sz su hv
            (mkTZ_some _ _ _ _ hz)
      have hzr := renderSegs_tmpl cfg.mode _ _ (ztmplO zo) hzp
      have h2 := renderSegs_append cfg.mode _ _ _ _ _ ht hzr
      have h3 : renderSegs cfg.mode (pointOf cfg de.tmpl t.tmpl v tz)
          (Seg.raw timeDesignator :: (tmplSegs t.tmpl ++ tmplSegs (ztmplO zo))) = some (timeDesignator ::
            (trender t.tmpl (envOf t.tmpl (spelled de.tmpl (ztmplO zo) v)) ++
              trender (ztmplO zo) (envOf (ztmplO zo) (spelled de.tmpl (ztmplO zo) v)))) := by
        simp only [renderSegs, h2, Option.map_some]
      simp only [segsOf, textOf, ttmplO]
      have hd' : renderSegs cfg.mode (pointOf cfg de.tmpl t.tmpl v tz) (tmplSegs de.tmpl) = _ := hd
      rw [renderSegs_append cfg.mode _ _ _ _ _ hd' h3]
  · -- wantsWeek = isWeek
    rw [pW, pK]
    rcases hc with ⟨d1, d2, d3, d4, d5⟩ | ⟨d1, d2, d3, d4, d5⟩ | ⟨d1, d2, d3, d4, d5⟩ |
        ⟨d1, d2, d3, d4, d5⟩ | ⟨d1, d2, d3, d4, d5⟩ | ⟨d1, d2, d3, d4, d5⟩ <;>
      simp [XTP.isWeek, pointOf, fieldOf, d4, d5]
  · rw [pM, pD, pO]
    rcases hc with ⟨d1, d2, d3, d4, d5⟩ | ⟨d1, d2, d3, d4, d5⟩ | ⟨d1, d2, d3, d4, d5⟩ |
        ⟨d1, d2, d3, d4, d5⟩ | ⟨d1, d2, d3, d4, d5⟩ | ⟨d1, d2, d3, d4, d5⟩ <;>
      simp [XTP.isWeek, pointOf, fieldOf, d1, d2, d3, d4, d5]
  · -- the literal zone
    rw [hcust]
    cases hu : hasGroup (ztmplO zo) .tzUtc with
    | false => exact Or.inl rfl
    | true =>
      refine Or.inr ⟨rfl, ?_, rfl⟩
      cases zo with
      | none => cases hu
      | some ze =>
        have hu' : hasGroup ze.tmpl .tzUtc = true := hu
        have := mkTZ_some _ _ _ _ hz
        show tz = _
        simpa [zoneOf, hu'] using this
  · -- year bounds without expanded digits
    rw [pC, pX, hcc, hdn]
    cases hX : hasGroup de.tmpl .expandedYear with
    | true =>
      have : cfg.pt.ned ≠ 0 := fun h0 => by have := hx h0; rw [hX] at this; cases this
      simp [nedOf, hX, this]
    | false =>
      have hS : hasGroup de.tmpl .yearSign = false := by rw [ssx, hX]
      have hyv : yearOf de.tmpl v = ((yearOf de.tmpl v).natAbs : Int) := by
        unfold yearOf; simp only [hS, Bool.false_and, Bool.false_eq_true, if_false]; omega
      rw [hX, hcc] at hna
      simp only [Bool.false_eq_true, if_false, if_true] at hna
      simp only [Bool.not_false, Bool.true_or, Bool.and_true, Bool.true_and, Bool.not_eq_false',
        Bool.and_eq_true, decide_eq_true_eq]
      constructor
      · omega
      · rw [hyv, hna]; split <;> omega
  · -- year bounds with expanded digits
    rw [pX, hdn]
    cases hX : hasGroup de.tmpl .expandedYear with
    | false => rfl
    | true =>
      rw [hX, hcc] at hna
      simp only [if_true] at hna
      simp only [nedOf, hX, if_true, Bool.true_and, Bool.not_eq_false', Bool.and_eq_true, decide_eq_true_eq,
        pow_ned]
      have hp : 0 < 10 ^ cfg.pt.ned := Nat.pow_pos (by decide)
      constructor <;> (split at hna <;> omega)

/-! ## Values a template does not read; trailing zeros -/

/-- `envOf` reads only the values of the groups the template has. -/
theorem envOf_congr (t : Template) (v v' : Vals)
    (h : ∀ f, hasGroup t f = true → v.nat f = v'.nat f ∧ v.neg f = v'.neg f ∧ v.dec f = v'.dec f) :
    envOf t v = envOf t v' := by
  induction t with
  | nil => rfl
  | cons it t ih =>
    have ht : ∀ f, hasGroup t f = true → hasGroup (it :: t) f = true := by
      intro f hf
      unfold hasGroup at hf ⊢
      cases it <;> simp_all [groupFields]
    have ih := ih fun f hf => h f (ht f hf)
    have hh : ∀ f, (match it with
        | .lit _ => False | .digits g _ => g = f | .digitsPlus g => g = f | .sign g => g = f
        | .group g _ => g = f) → hasGroup (it :: t) f = true := by
      intro f hf
      unfold hasGroup
      cases it <;> simp_all [groupFields]
    cases it with
    | lit c => simpa [envOf] using ih
    | digits g n => simp only [envOf, ih, (h g (hh g rfl)).1]
    | digitsPlus g => simp only [envOf, ih, (h g (hh g rfl)).2.2]
    | sign g => simp only [envOf, ih, (h g (hh g rfl)).2.1]
    | group g ls => simp only [envOf, ih]

theorem dropZeros_spec (r : List Char) :
    ∃ k, r = List.replicate k '0' ++ r.dropWhile (· = '0') ∧ (r.dropWhile (· = '0')).head? ≠ some '0' := by
  induction r with
  | nil => exact ⟨0, rfl, by simp⟩
  | cons c r ih =>
    by_cases hc : c = '0'
    · obtain ⟨k, h1, h2⟩ := ih
      refine ⟨k + 1, ?_, ?_⟩
      · simp only [List.dropWhile_cons, hc, decide_true, if_true, List.replicate_succ, List.cons_append]
        rw [← h1]
      · simpa [List.dropWhile_cons, hc] using h2
    · refine ⟨0, by simp [hc], by simp [hc]⟩

/-- **Trailing zeros**: `stripZeros` removes exactly the trailing zeros — the input is the output
    followed by zeros, and the output does not end in `0` — except that an all-zero input leaves one
    `0`. -/
theorem stripZeros_spec (s : List Char) :
    ∃ k, (s = stripZeros s ++ List.replicate k '0' ∧ (stripZeros s).getLast? ≠ some '0') ∨
      (s = List.replicate k '0' ∧ stripZeros s = ['0']) := by
  obtain ⟨k, h1, h2⟩ := dropZeros_spec s.reverse
  refine ⟨k, ?_⟩
  have hs : s = (s.reverse.dropWhile (· = '0')).reverse ++ List.replicate k '0' := by
    have := congrArg List.reverse h1
    rw [List.reverse_reverse, List.reverse_append, List.reverse_replicate] at this
    exact this
  unfold stripZeros
  simp only []
  by_cases he : (s.reverse.dropWhile (· = '0')).reverse.isEmpty = true
  · right
    rw [if_pos he]
    refine ⟨?_, rfl⟩
    have : (s.reverse.dropWhile (· = '0')).reverse = [] := List.isEmpty_iff.mp he
    rw [this] at hs
    simpa using hs
  · left
    rw [if_neg he]
    refine ⟨hs, ?_⟩
    rw [List.getLast?_reverse]
    exact h2

end IsoDT.Text
