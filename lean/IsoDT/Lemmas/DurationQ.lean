/-
  IsoDT.Lemmas.DurationQ — helper facts about the rational `Duration` model (`Model.DurationQ`):
  years/months and exact length of every operation, `get_days_and_seconds` as a floor split of
  the rough length, and the agreement of every operation with the integer model on `ofDur`.
-/
import IsoDT.Model.DurationQ
import IsoDT.Lemmas.Dur
import IsoDT.Lemmas.TickQ

namespace IsoDT.Lemmas.DQ
open IsoDT IsoDT.Model IsoDT.Lemmas

/-- Years and months of a duration (none in week form). -/
def ym : DurationQ → Int × Int
  | .weeks _ => (0, 0)
  | .units y mo _ _ _ _ => (y, mo)

/-- The length of the exact units in seconds, spelled with literals. -/
def len : DurationQ → Rat
  | .weeks w => 604800 * (w : Rat)
  | .units _ _ d h mi s => 86400 * (d : Rat) + 3600 * h + 60 * mi + s

theorem exactSeconds_eq (m : Mode) (a : DurationQ) : a.exactSeconds m = len a := by
  cases a <;>
    simp only [DurationQ.exactSeconds, len, daysInWeek_eq, secondsInDay_eq, secondsInHour_eq,
      secondsInMinute_eq, Rat.intCast_mul, Rat.intCast_ofNat] <;> grind

theorem isExact_iff (a : DurationQ) : a.isExact = true ↔ ym a = (0, 0) := by
  cases a <;> simp [DurationQ.isExact, ym]

theorem eq_iff (m : Mode) (a b : DurationQ) :
    DurationQ.eq m a b = true ↔ ym a = ym b ∧ len a = len b := by
  simp only [DurationQ.eq, exactSeconds_eq]
  cases a <;> cases b <;>
    simp only [DurationQ.isExact, ym, Bool.and_eq_true, beq_iff_eq, Prod.mk.injEq] <;>
    (repeat' split) <;> simp_all <;> omega

theorem hashKey_eq (m : Mode) (a : DurationQ) : DurationQ.hashKey m a = ((ym a).1, (ym a).2, len a) := by
  cases a <;> simp only [DurationQ.hashKey, exactSeconds_eq, ym]

/-! ### addition, multiplication -/

theorem add_ym (m : Mode) (a b : DurationQ) :
    ym (DurationQ.add m a b) = ((ym a).1 + (ym b).1, (ym a).2 + (ym b).2) := by
  cases a <;> cases b <;> simp [DurationQ.add, DurationQ.toDays, ym]

theorem add_len (m : Mode) (a b : DurationQ) : len (DurationQ.add m a b) = len a + len b := by
  cases a <;> cases b <;>
    simp only [DurationQ.add, DurationQ.toDays, len, daysInWeek_eq, Rat.intCast_add, Rat.intCast_mul,
      Rat.intCast_ofNat] <;> grind

theorem mul_ym (a : DurationQ) (n : Int) : ym (a.mul n) = ((ym a).1 * n, (ym a).2 * n) := by
  cases a <;> simp [DurationQ.mul, ym]

theorem mul_len (a : DurationQ) (n : Int) : len (a.mul n) = len a * (n : Rat) := by
  cases a <;> simp only [DurationQ.mul, len, Rat.intCast_mul] <;> grind

theorem zero_len : len DurationQ.zero = 0 := by
  simp only [DurationQ.zero, len, Rat.intCast_zero]; grind

theorem toDays_ym (m : Mode) (a : DurationQ) : ym (a.toDays m) = ym a := by
  cases a <;> rfl

theorem toDays_len (m : Mode) (a : DurationQ) : len (a.toDays m) = len a := by
  cases a <;> simp only [DurationQ.toDays, len, daysInWeek_eq, Rat.intCast_mul, Rat.intCast_ofNat] <;> grind

/-! ### `get_days_and_seconds`, ordering -/

/-- The rough length used by `<`, `<=`, `>`, `>=`: a year counts as the calendar's common-year
    length, a month as 30 days. -/
def rough (m : Mode) (a : DurationQ) : Rat :=
  (((ym a).1 * Spec.yearLenB m false * 86400 + (ym a).2 * 30 * 86400 : Int) : Rat) + len a

theorem das_spec (m : Mode) (a : DurationQ) :
    ((a.daysAndSeconds m).1 : Rat) * 86400 + (a.daysAndSeconds m).2 = rough m a ∧
    0 ≤ (a.daysAndSeconds m).2 ∧ (a.daysAndSeconds m).2 < 86400 := by
  cases a with
  | weeks w =>
    simp only [DurationQ.daysAndSeconds, rough, ym, len, daysInWeek_eq, Rat.intCast_mul, Rat.intCast_ofNat,
      Int.zero_mul, Int.add_zero]
    refine ⟨by grind, by grind, by grind⟩
  | units y mo d h mi s =>
    simp only [DurationQ.daysAndSeconds, rough, ym, len, secondsInDay_eq, secondsInHour_eq,
      secondsInMinute_eq, roughDaysInYear_eq', roughDaysInMonth_eq']
    generalize Spec.yearLenB m false = L
    obtain ⟨e, r0, r1⟩ := divmodQ_spec (h * ((3600 : Int) : Rat) + mi * ((60 : Int) : Rat) + s) 86400 (by omega)
    generalize divmodQ (h * ((3600 : Int) : Rat) + mi * ((60 : Int) : Rat) + s) 86400 = r at e r0 r1
    simp only [Rat.intCast_add, Rat.intCast_mul, Rat.intCast_ofNat] at e r0 r1 ⊢
    refine ⟨by grind, r0, r1⟩

theorem pairLt_iff (a b : Int × Rat) (ha : 0 ≤ a.2 ∧ a.2 < 86400) (hb : 0 ≤ b.2 ∧ b.2 < 86400) :
    DurationQ.pairLt a b = true ↔ (a.1 : Rat) * 86400 + a.2 < (b.1 : Rat) * 86400 + b.2 := by
  unfold DurationQ.pairLt
  simp only [Bool.or_eq_true, Bool.and_eq_true, decide_eq_true_eq, beq_iff_eq]
  obtain ⟨a1, a2⟩ := a
  obtain ⟨b1, b2⟩ := b
  simp only at ha hb ⊢
  rcases Int.lt_trichotomy a1 b1 with h | h | h
  · have : ((a1 + 1 : Int) : Rat) ≤ (b1 : Rat) := Rat.intCast_le_intCast.2 (by omega)
    rw [Rat.intCast_add] at this
    constructor
    · intro _; grind
    · intro _; exact Or.inl h
  · subst h
    constructor
    · rintro (h | ⟨_, h⟩)
      · omega
      · grind
    · intro h; exact Or.inr ⟨rfl, by grind⟩
  · have : ((b1 + 1 : Int) : Rat) ≤ (a1 : Rat) := Rat.intCast_le_intCast.2 (by omega)
    rw [Rat.intCast_add] at this
    constructor
    · rintro (h' | ⟨h', _⟩) <;> omega
    · intro h'; exfalso; grind

/-! ### `standardize` -/

theorem standardize_ym (m : Mode) (a : DurationQ) : ym (a.standardize m) = ym a := by
  cases a <;> rfl

theorem standardize_len (m : Mode) (a : DurationQ) : len (a.standardize m) = len a := by
  cases a with
  | weeks w => rfl
  | units y mo d h mi s =>
    simp only [DurationQ.standardize, len, secondsInMinute_eq, minutesInHour_eq, hoursInDay_eq]
    obtain ⟨e1, -, -⟩ := divmodQ_spec s 60 (by omega)
    generalize divmodQ s 60 = r1 at e1 ⊢
    obtain ⟨e2, -, -⟩ := divmodQ_spec (mi + (r1.1 : Rat)) 60 (by omega)
    generalize divmodQ (mi + (r1.1 : Rat)) 60 = r2 at e2 ⊢
    obtain ⟨e3, -, -⟩ := divmodQ_spec (h + (r2.1 : Rat)) 24 (by omega)
    generalize divmodQ (h + (r2.1 : Rat)) 24 = r3 at e3 ⊢
    simp only [Rat.intCast_add, Rat.intCast_ofNat] at e1 e2 e3 ⊢
    grind

/-- After `standardize` the small units are minimal: `0 ≤ seconds < 60`, `0 ≤ minutes < 60`,
    `0 ≤ hours < 24`, minutes and hours whole. -/
theorem standardize_ranges (m : Mode) (y mo d : Int) (h mi s : Rat) :
    ∃ d' : Int, ∃ h' mi' s' : Rat, (DurationQ.units y mo d h mi s).standardize m = .units y mo d' h' mi' s' ∧
      0 ≤ s' ∧ s' < 60 ∧ 0 ≤ mi' ∧ mi' < 60 ∧ 0 ≤ h' ∧ h' < 24 := by
  simp only [DurationQ.standardize, secondsInMinute_eq, minutesInHour_eq, hoursInDay_eq]
  obtain ⟨-, a1, b1⟩ := divmodQ_spec s 60 (by omega)
  generalize divmodQ s 60 = r1 at a1 b1 ⊢
  obtain ⟨-, a2, b2⟩ := divmodQ_spec (mi + (r1.1 : Rat)) 60 (by omega)
  generalize divmodQ (mi + (r1.1 : Rat)) 60 = r2 at a2 b2 ⊢
  obtain ⟨-, a3, b3⟩ := divmodQ_spec (h + (r2.1 : Rat)) 24 (by omega)
  generalize divmodQ (h + (r2.1 : Rat)) 24 = r3 at a3 b3 ⊢
  simp only [Rat.intCast_ofNat] at a1 b1 a2 b2 a3 b3
  exact ⟨_, _, _, _, rfl, a1, b1, a2, b2, a3, b3⟩

/-! ### `abs`, `//` -/

theorem rat_abs_nonneg (x : Rat) : 0 ≤ x.abs := by
  unfold Rat.abs; split <;> grind

theorem rat_abs_abs (x : Rat) : x.abs.abs = x.abs := Rat.abs_of_nonneg (rat_abs_nonneg x)

theorem rat_abs_neg (x : Rat) : (x * ((-1 : Int) : Rat)).abs = x.abs := by
  rw [Rat.intCast_neg, Rat.intCast_ofNat]
  unfold Rat.abs; split <;> split <;> grind

/-- `x // n` for `n > 0`: the whole number `q` with `q·n ≤ x < (q+1)·n`. -/
theorem floorDivQ_spec (x : Rat) (n : Int) (hn : 0 < n) :
    IsInt (DurationQ.floorDivQ x n) ∧ DurationQ.floorDivQ x n * (n : Rat) ≤ x ∧
      x < (DurationQ.floorDivQ x n + 1) * (n : Rat) := by
  obtain ⟨e, r0, r1⟩ := divmodQ_spec x n hn
  have q : DurationQ.floorDivQ x n = ((divmodQ x n).1 : Rat) := rfl
  rw [q]
  refine ⟨isInt_intCast _, by grind, by grind⟩

/-! ### agreement with the integer model on `ofDur` -/

theorem floor_intCast_div (a n : Int) (hn : n ≠ 0) : ((a : Rat) / (n : Rat)).floor = Int.fdiv a n := by
  rcases Int.lt_or_gt_of_ne hn with h | h
  · have hpos : 0 < -n := by omega
    have e : (a : Rat) / (n : Rat) = ((-a : Int) : Rat) / ((-n : Int) : Rat) := by
      have : (n : Rat) ≠ 0 := fun h0 => hn (Rat.intCast_inj.1 (by simpa using h0))
      rw [Rat.intCast_neg, Rat.intCast_neg]; grind
    rw [e, ← Int.neg_fdiv_neg, Int.fdiv_eq_ediv_of_nonneg _ (by omega)]
    exact congrArg Prod.fst (divmodQ_intCast (-a) (-n) hpos)
  · rw [Int.fdiv_eq_ediv_of_nonneg _ (by omega)]
    exact congrArg Prod.fst (divmodQ_intCast a n h)

theorem floorDivQ_intCast (a n : Int) (hn : n ≠ 0) :
    DurationQ.floorDivQ (a : Rat) n = ((Int.fdiv a n : Int) : Rat) := by
  unfold DurationQ.floorDivQ; rw [floor_intCast_div a n hn]

theorem abs_intCast (a : Int) : (a : Rat).abs = ((a.natAbs : Int) : Rat) := by
  unfold Rat.abs
  split
  · rename_i h
    have h' : 0 ≤ a := by exact_mod_cast h
    congr 1; omega
  · rename_i h
    have h' : ¬ 0 ≤ a := fun x => h (by exact_mod_cast x)
    rw [← Rat.intCast_neg]; congr 1; omega

theorem intCast_beq (a b : Int) : ((a : Rat) == (b : Rat)) = (a == b) := by
  rw [Bool.eq_iff_iff, beq_iff_eq, beq_iff_eq, Rat.intCast_inj]

theorem intCast_ne_zero (a : Int) : ((a : Rat) != 0) = (a != 0) := by
  rw [show (0 : Rat) = ((0 : Int) : Rat) by simp, bne, bne, intCast_beq]

theorem ofDur_ym (a : Dur) : ym (DurationQ.ofDur a) = durYm a := by cases a <;> rfl

theorem ofDur_isExact (a : Dur) : (DurationQ.ofDur a).isExact = a.isExact := by cases a <;> rfl

theorem ofDur_exactSeconds (m : Mode) (a : Dur) :
    (DurationQ.ofDur a).exactSeconds m = ((a.exactSeconds m : Int) : Rat) := by
  cases a <;> simp only [DurationQ.ofDur, DurationQ.exactSeconds, Dur.exactSeconds, Rat.intCast_add,
    Rat.intCast_mul]

theorem ofDur_toDays (m : Mode) (a : Dur) : (DurationQ.ofDur a).toDays m = DurationQ.ofDur (a.toDays m) := by
  cases a <;> simp [DurationQ.ofDur, DurationQ.toDays, Dur.toDays]

theorem ofDur_mul (a : Dur) (n : Int) : (DurationQ.ofDur a).mul n = DurationQ.ofDur (a.mul n) := by
  cases a <;> simp [DurationQ.ofDur, DurationQ.mul, Dur.mul, Rat.intCast_mul]

theorem ofDur_add (m : Mode) (a b : Dur) :
    DurationQ.add m (DurationQ.ofDur a) (DurationQ.ofDur b) = DurationQ.ofDur (Dur.add m a b) := by
  cases a <;> cases b <;>
    simp [DurationQ.ofDur, DurationQ.add, Dur.add, DurationQ.toDays, Dur.toDays, Rat.intCast_add,
      Rat.add_zero, Rat.zero_add]

theorem ofDur_abs (a : Dur) : (DurationQ.ofDur a).abs = DurationQ.ofDur a.abs := by
  cases a <;> simp [DurationQ.ofDur, DurationQ.abs, Dur.abs, abs_intCast]

theorem ofDur_floordiv (a : Dur) (n : Int) :
    (DurationQ.ofDur a).floordiv n = (a.floordiv n).map DurationQ.ofDur := by
  unfold DurationQ.floordiv Dur.floordiv
  by_cases hn : n = 0
  · simp [hn]
  · rw [if_neg hn, if_neg hn]
    cases a <;> simp [DurationQ.ofDur, floorDivQ_intCast _ _ hn]

theorem ofDur_mk (m : Mode) (y mo w d h mi s : Int) :
    DurationQ.mk m y mo w d (h : Rat) (mi : Rat) (s : Rat) = DurationQ.ofDur (mkDur m y mo w d h mi s) := by
  have z : ∀ a : Int, ((a : Rat) = 0) = (a = 0) := fun a => by
    rw [show (0 : Rat) = ((0 : Int) : Rat) by simp, Rat.intCast_inj]
  unfold DurationQ.mk mkDur
  simp only [z]
  split <;> rfl

theorem ofDur_toWeeks (m : Mode) (a : Dur) : (DurationQ.ofDur a).toWeeks m = DurationQ.ofDur (a.toWeeks m) := by
  cases a with
  | weeks w => rfl
  | units y mo d h mi s =>
    simp only [DurationQ.ofDur, DurationQ.toWeeks, Dur.toWeeks]
    exact ofDur_mk m 0 0 _ 0 0 0 0

theorem ofDur_daysAndSeconds (m : Mode) (a : Dur) :
    (DurationQ.ofDur a).daysAndSeconds m = ((a.daysAndSeconds m).1, (((a.daysAndSeconds m).2 : Int) : Rat)) := by
  cases a with
  | weeks w => simp [DurationQ.ofDur, DurationQ.daysAndSeconds, Dur.daysAndSeconds]
  | units y mo d h mi s =>
    simp only [DurationQ.ofDur, DurationQ.daysAndSeconds, Dur.daysAndSeconds, secondsInDay_eq]
    rw [← Rat.intCast_mul, ← Rat.intCast_mul, ← Rat.intCast_add, ← Rat.intCast_add,
      divmodQ_intCast _ 86400 (by omega)]

theorem ofDur_seconds (m : Mode) (a : Dur) :
    (DurationQ.ofDur a).seconds m = ((a.seconds m : Int) : Rat) := by
  unfold DurationQ.seconds Dur.seconds
  rw [ofDur_isExact, ofDur_exactSeconds, ofDur_daysAndSeconds]
  split
  · rfl
  · simp only [Rat.intCast_add, Rat.intCast_mul]

theorem ofDur_eq (m : Mode) (a b : Dur) :
    DurationQ.eq m (DurationQ.ofDur a) (DurationQ.ofDur b) = Dur.eq m a b := by
  unfold DurationQ.eq Dur.eq
  rw [ofDur_isExact, ofDur_isExact, ofDur_exactSeconds, ofDur_exactSeconds, intCast_beq]
  cases a <;> cases b <;> simp only [DurationQ.ofDur]

theorem ofDur_hashKey (m : Mode) (a : Dur) :
    DurationQ.hashKey m (DurationQ.ofDur a) =
      ((Dur.hashKey m a).1, (Dur.hashKey m a).2.1, (((Dur.hashKey m a).2.2 : Int) : Rat)) := by
  cases a <;> simp only [DurationQ.ofDur, DurationQ.hashKey, Dur.hashKey]
  · exact congrArg (fun x => ((0 : Int), (0 : Int), x)) (ofDur_exactSeconds m (.weeks _))
  · rename_i y mo d h mi s
    exact congrArg (fun x => (y, mo, x)) (ofDur_exactSeconds m (.units y mo d h mi s))

theorem pairLt_intCast (a b : Int × Int) :
    DurationQ.pairLt (a.1, ((a.2 : Int) : Rat)) (b.1, ((b.2 : Int) : Rat)) = Model.pairLt a b := by
  unfold DurationQ.pairLt Model.pairLt
  simp only [Rat.intCast_lt_intCast]

theorem ofDur_nonzero (a : Dur) : (DurationQ.ofDur a).nonzero = a.nonzero := by
  cases a <;> simp only [DurationQ.ofDur, DurationQ.nonzero, Dur.nonzero, intCast_ne_zero]

theorem ofDur_zero : DurationQ.ofDur Dur.zero = DurationQ.zero := by
  simp [DurationQ.ofDur, Dur.zero, DurationQ.zero]

theorem ofDur_nfold (m : Mode) (a : Dur) (n : Nat) :
    DurationQ.nfold m (DurationQ.ofDur a) n = DurationQ.ofDur (Dur.nfold m a n) := by
  induction n with
  | zero => exact ofDur_zero.symm
  | succ k ih => simp only [DurationQ.nfold, Dur.nfold, ih, ofDur_add]

theorem ofDur_injective (a b : Dur) (h : DurationQ.ofDur a = DurationQ.ofDur b) : a = b := by
  cases a <;> cases b <;> simp only [DurationQ.ofDur, DurationQ.weeks.injEq, DurationQ.units.injEq,
    Rat.intCast_inj, reduceCtorEq] at h
  · rw [h]
  · obtain ⟨rfl, rfl, rfl, rfl, rfl, rfl⟩ := h; rfl

end IsoDT.Lemmas.DQ
